#!/usr/bin/env python3
"""Regenerates /verif/MANIFEST.json from the table below and validates it."""
import json, os, subprocess, sys
ROOT = os.path.dirname(os.path.dirname(os.path.abspath(__file__)))
props = [json.loads(l) for l in open(os.path.join(ROOT, "properties.jsonl"))]
sys.path.insert(0, os.path.join(ROOT, "tools"))
from manifest_table import CHECKS, NOT_YET  # noqa

hook_commits = subprocess.run(["git", "-C", "/repo", "log", "--format=%H", "--grep=^verif hook"], capture_output=True, text=True).stdout.split()
m = {
    "version": 1,
    "setup_cmd": "./verif setup",
    "hooks": {
        "guard": "verif",
        "enable": "go build tag: the driver builds every check with `go test -c -tags verif` against `replace github.com/llir/llvm => /repo`; the only hook is the add-only package /repo/verifhook (re-exports internal/enc, internal/natsort, internal/gep); if it is absent the driver supplies it through -overlay from /verif/hookfiles",
        "baseline_off_cmd": "cd /repo && go test -mod=mod -vet=off -count=1 ./...",
        "source_commits": hook_commits,
        "add_only": True,
    },
    "engines": [
        {"name": "vdrv", "path": "cmd/vdrv", "serves_properties": sorted(CHECKS), "kind_free_text": "driver: builds the check's test binary from /repo's working tree, runs it in shards (processes) with seeds derived from VERIF_SEED, merges evidence, prints VIOLATION / KNOWN-FINDING lines, exit 0/1/2"},
        {"name": "hx", "path": "h/hx", "serves_properties": sorted(CHECKS), "kind_free_text": "in-process evidence recorder, replay writer, rapid (pgregory.net/rapid v1.3.0) runner"},
    ],
    "checks": [],
    "not_applicable": [],
    "notes": "All checks are property-based tests / fuzzing with explicit oracles (see DESIGN.md). Exit 2 = inconclusive (infrastructure), never a violation. Known findings: KNOWN_FINDINGS.txt.",
}
for p in props:
    pid = p["id"]
    if pid in CHECKS:
        c = CHECKS[pid]
        m["checks"].append({
            "property_id": pid,
            "quick_cmd": f"./verif check {pid} quick",
            "thorough_cmd": f"./verif check {pid} thorough",
            "evidence_file": f"evidence/{pid}.json",
            "replay_cmd_template": f"./verif replay {pid} {{path}}",
            "engine": "vdrv",
            "level_claimed": {"category": c.get("category", "exploration"), "text": c["text"], "design_ref": f"DESIGN.md section 4, {pid}"},
            "level_note": c["note"],
            "technique": c["technique"],
        })
    else:
        m["not_applicable"].append({"property_id": pid, "reason": NOT_YET.get(pid, "check not built yet in this session; property-based testing applies (see DESIGN.md section 4) — not claimed until the check exists")})
json.dump(m, open(os.path.join(ROOT, "MANIFEST.json"), "w"), indent=1)
try:
    import jsonschema
    jsonschema.validate(m, json.load(open("/root/.vp/MANIFEST.schema.json")))
    print("MANIFEST.json valid;", len(m["checks"]), "checks")
except ImportError:
    print("jsonschema not available; not validated")
