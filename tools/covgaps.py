#!/usr/bin/env python3
"""usage: covgaps.py <dir with *.out coverage profiles> [file filter]
Measurement aid (not a check): merges the coverage profiles written by `VERIF_COVER=<dir> ./verif check <ID> <tier>`
and lists the statements of /repo that no case of any check executed, skipping blocks that only return an
error or panic (error paths of malformed input)."""
import glob, sys, re, collections
d = sys.argv[1]; flt = sys.argv[2] if len(sys.argv) > 2 else ''
blocks = {}
for f in glob.glob(d + '/*.out'):
    for l in open(f):
        if l.startswith('mode:'): continue
        k, n, c = l.rsplit(' ', 2)
        blocks[(k, int(n))] = max(blocks.get((k, int(n)), 0), int(c))
src = {}
def lines(path):
    p = path.replace('github.com/llir/llvm', '/repo')
    if p not in src:
        try: src[p] = open(p).read().split('\n')
        except Exception: src[p] = []
    return src[p]
out = collections.defaultdict(list)
for (k, n), c in sorted(blocks.items()):
    if c: continue
    f, rng = k.split(':')
    if flt and flt not in f: continue
    a, b = rng.split(',')
    l0, c0 = map(int, a.split('.')); l1, c1 = map(int, b.split('.'))
    ls = lines(f)[l0-1:l1]
    txt = '\n'.join(ls)
    body = [x.strip() for x in ls if x.strip() and not x.strip().startswith('//')]
    core = ' '.join(body)
    # skip pure error paths
    if re.search(r'(errors\.(Errorf|New|WithStack)|panic\(|return nil, err|return err\b|return nil, nil, err)', core) and n <= 2:
        continue
    out[f].append((l0, l1, n, txt))
for f, bs in out.items():
    print('==', f, sum(b[2] for b in bs))
    for l0, l1, n, txt in bs:
        print(f'  {l0}-{l1} ({n}):', txt.strip()[:300].replace('\n', '\n      '))
