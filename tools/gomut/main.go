// gomut lists and produces single-point mutants of one Go source file (used by selftest/sweep.sh to
// measure which mechanical changes of the anchored code the checks notice). It never touches /repo:
// it reads a file and writes the mutated text to stdout.
//
//	gomut -list file.go          one line per mutant: index, kind, line, description
//	gomut -n K file.go           the file with mutant K applied
package main

import (
	"flag"
	"fmt"
	"go/ast"
	"go/parser"
	"go/token"
	"os"
	"sort"
	"strings"
)

type mutant struct {
	fn         string
	kind       string
	start, end int // byte offsets replaced
	repl       string
	line       int
	desc       string
}

var swap = map[token.Token]string{
	token.EQL: "!=", token.NEQ: "==", token.LSS: "<=", token.LEQ: "<", token.GTR: ">=", token.GEQ: ">",
	token.LAND: "||", token.LOR: "&&", token.ADD: "-", token.SUB: "+",
}

func main() {
	list := flag.Bool("list", false, "list mutants")
	n := flag.Int("n", -1, "produce mutant n")
	flag.Parse()
	path := flag.Arg(0)
	src, err := os.ReadFile(path)
	if err != nil {
		fmt.Fprintln(os.Stderr, err)
		os.Exit(2)
	}
	fset := token.NewFileSet()
	f, err := parser.ParseFile(fset, path, src, parser.ParseComments)
	if err != nil {
		fmt.Fprintln(os.Stderr, err)
		os.Exit(2)
	}
	off := func(p token.Pos) int { return fset.Position(p).Offset }
	line := func(p token.Pos) int { return fset.Position(p).Line }
	text := func(a, b token.Pos) string { return string(src[off(a):off(b)]) }
	var ms []mutant
	curFn := ""
	add := func(kind string, a, b token.Pos, repl, desc string) {
		ms = append(ms, mutant{curFn, kind, off(a), off(b), repl, line(a), desc})
	}
	// error-reporting calls: mutations inside them change messages only
	isErrCall := func(c *ast.CallExpr) bool {
		s := text(c.Fun.Pos(), c.Fun.End())
		return strings.Contains(s, "Errorf") || strings.Contains(s, "errors.") || s == "panic" || strings.Contains(s, "log.")
	}
	var inErr int
	var walk func(n ast.Node) bool
	walk = func(n ast.Node) bool {
		switch x := n.(type) {
		case *ast.CallExpr:
			if isErrCall(x) {
				return false
			}
		case *ast.BinaryExpr:
			if r, ok := swap[x.Op]; ok {
				// skip string concatenation for +/-
				if (x.Op == token.ADD || x.Op == token.SUB) && (isStr(x.X) || isStr(x.Y)) {
					break
				}
				add("binop", x.OpPos, x.OpPos+token.Pos(len(x.Op.String())), r, fmt.Sprintf("%s -> %s in %q", x.Op, r, clip(text(x.Pos(), x.End()))))
			}
		case *ast.IfStmt:
			c := text(x.Cond.Pos(), x.Cond.End())
			add("negif", x.Cond.Pos(), x.Cond.End(), "!("+c+")", "negate if "+clip(c))
			if x.Else == nil && x.Init == nil {
				add("dropif", x.Pos(), x.End(), "if false {\n_ = 0\n}", "drop if-block "+clip(c))
			}
		case *ast.BlockStmt:
			for _, st := range x.List {
				switch s := st.(type) {
				case *ast.ExprStmt:
					if c, ok := s.X.(*ast.CallExpr); ok && !isErrCall(c) {
						add("delstmt", s.Pos(), s.End(), "_ = 0", "delete "+clip(text(s.Pos(), s.End())))
					}
				case *ast.AssignStmt:
					if s.Tok != token.DEFINE {
						add("delstmt", s.Pos(), s.End(), "_ = 0", "delete "+clip(text(s.Pos(), s.End())))
					}
				case *ast.IncDecStmt:
					add("delstmt", s.Pos(), s.End(), "_ = 0", "delete "+clip(text(s.Pos(), s.End())))
				}
			}
		case *ast.ReturnStmt:
			if len(x.Results) == 1 {
				if id, ok := x.Results[0].(*ast.Ident); ok && (id.Name == "true" || id.Name == "false") {
					r := "true"
					if id.Name == "true" {
						r = "false"
					}
					add("retbool", id.Pos(), id.End(), r, "return "+id.Name+" -> "+r)
				}
			}
		case *ast.CaseClause:
			if len(x.List) > 1 {
				for i, e := range x.List {
					a, b := e.Pos(), e.End()
					if i+1 < len(x.List) {
						b = x.List[i+1].Pos()
					} else {
						a = x.List[i-1].End()
					}
					add("dropcase", a, b, "", "drop case value "+clip(text(e.Pos(), e.End())))
				}
			}
			if len(x.Body) > 0 && len(x.List) > 0 {
				add("emptycase", x.Body[0].Pos(), x.Body[len(x.Body)-1].End(), "", "empty body of case "+clip(text(x.List[0].Pos(), x.List[len(x.List)-1].End())))
			}
		case *ast.BasicLit:
			if x.Kind == token.STRING && len(x.Value) > 2 && len(x.Value) <= 12 && x.Value[0] == '"' {
				add("strlit", x.Pos(), x.End(), `""`, "string "+x.Value+" -> \"\"")
			}
			if x.Kind == token.INT && (x.Value == "0" || x.Value == "1") {
				r := "1"
				if x.Value == "1" {
					r = "0"
				}
				add("intlit", x.Pos(), x.End(), r, "int "+x.Value+" -> "+r)
			}
		}
		return true
	}
	_ = inErr
	for _, d := range f.Decls {
		fd, ok := d.(*ast.FuncDecl)
		if !ok || fd.Body == nil {
			continue
		}
		curFn = fd.Name.Name
		if fd.Recv != nil && len(fd.Recv.List) == 1 {
			curFn = strings.TrimPrefix(text(fd.Recv.List[0].Type.Pos(), fd.Recv.List[0].Type.End()), "*") + "." + curFn
		}
		ast.Inspect(fd.Body, walk)
	}
	sort.SliceStable(ms, func(i, j int) bool { return ms[i].start < ms[j].start })
	if *list {
		for i, m := range ms {
			fmt.Printf("%d\t%s\t%d\t%s\t%s\n", i, m.kind, m.line, m.fn, m.desc)
		}
		return
	}
	if *n < 0 || *n >= len(ms) {
		fmt.Fprintln(os.Stderr, "no such mutant")
		os.Exit(2)
	}
	m := ms[*n]
	os.Stdout.Write(src[:m.start])
	os.Stdout.WriteString(m.repl)
	os.Stdout.Write(src[m.end:])
}

func isStr(e ast.Expr) bool {
	b, ok := e.(*ast.BasicLit)
	return ok && b.Kind == token.STRING
}

func clip(s string) string {
	s = strings.Join(strings.Fields(s), " ")
	if len(s) > 70 {
		s = s[:70] + "…"
	}
	return s
}
