NOT_YET = {}
CHECKS = {
 "C20": {
  "technique": "property-based testing: exhaustive enumeration of short strings + rapid random strings against a reference natural order; metamorphic permutation of module definitions",
  "text": "Exhaustive over all pairs of strings up to length 3 (quick) / 4 (thorough) over a 10-byte alphabet chosen to hit digit runs, leading zeros, NUL and 0xFF, and all triples over a 5-byte alphabet; plus rapid-generated long digit runs. Order axioms and equality with an independent reference order are checked on every pair. Exploration, not proof: longer strings are sampled.",
  "note": "Trusts the reference order in h/ref/natural.go (tokenise into digit runs / single bytes, numeric compare, fewer leading zeros first) as the statement of 'natural order'; natsort is reached through the verif-tagged hook package.",
 },
}
CHECKS["C18"] = {
  "technique": "property-based testing by exhaustive enumeration: every defined value of the 35 enum types round-trips through String/FromString and through a minimal module (llir re-parse and LLVM 14 differential); flag subsets enumerated / drawn with rapid",
  "text": "Exhaustive over the finite domain: every value whose String() is a keyword (scan 0..65535, all single bits, all constants read from the source with go/parser so that the scan is shown complete) is mapped back by FromString, keywords are unique per type and equal the declared line comment; every keyword is also placed in a minimal module and parsed, printed, re-parsed and compared under LLVM's reading; all subsets of AllocKind and DISPFlag members and all 1- and 2-member DIFlag sets are enumerated, larger DIFlag sets and all 1024 numeric `cc N` forms are covered.",
  "note": "Trusts go/parser+go/types reading of ir/enum/enum.go, the hand-written module templates (checks/c18/module_test.go) and LLVM 14 tools; LLVM-15-only keywords are judged by llir's own round trip only. Known finding KF-C18-cc1 (`cc 1`).",
}
CHECKS["C09"] = {
  "technique": "property-based testing: exhaustive enumeration of all values of small widths in every notation + rapid-generated widths/values against a big-integer reference codec; LLVM 14 differential on printed output",
  "text": "Exhaustive for widths 1..13 (quick) / 1..17 (thorough): every value in [-2^(w-1),2^w) in every notation (decimal, u0x, s0x, true/false, case and leading-zero variants). Widths up to 65535 by boundary sets and rapid-drawn low-entropy patterns that drive the decimal-vs-hex printer heuristic. Oracles: math/big reference reading of each notation, Ident→NewIntFromString round trip, the same through asm.ParseString, and llvm-as|llvm-dis on llir's printed output.",
  "note": "Trusts math/big and the reference reading in checks/c09 (s0x = two's complement by type width, as the property states; LLVM's own s0x reading is deliberately not used). Values are compared modulo 2^w.",
}
CHECKS["C10"] = {
  "technique": "property-based testing: exhaustive enumeration of all 65536 half patterns + rapid-generated bit patterns/decimal strings for the six kinds against a reference literal codec; LLVM 14 differential (llvm-as|llvm-dis prints exact patterns) on input and on llir's output",
  "text": "Half is exhaustive (every pattern in every spelling). float/double/x86_fp80/fp128/ppc_fp128 are explored by structured boundary sets and rapid-drawn patterns in all spellings including short hex forms (split as LLVM's lexer does) and arbitrary decimal strings for double (halfway cases, subnormal and overflow range). Oracles: an independent reference reading of every literal form (h/ref/floatlit.go) and LLVM's own reading of input versus output in batches of 200 globals.",
  "note": "Trusts strconv.ParseFloat as the correctly rounded decimal->double reference, the reference codec, and LLVM 14. Non-canonical NaN payloads, invalid x87 encodings and ppc_fp128 pairs that are not canonical 106-bit double-doubles are open known findings: excluded by construction and counted while they still reproduce.",
}
CHECKS["C11"] = {
  "technique": "property-based testing: rapid byte strings (and exhaustive short strings) through the identifier/string encoders against an independent model of LLVM's lexer, and through 24 grammar positions of API-built and parsed modules with llir re-parse (left inverse) and LLVM 14 differential against a fully \\XX-escaped reference spelling",
  "text": "Every encoder output is lexed by a reference model of LLVM's lexer and must be one token that is a name (never a numeric ID) with exactly the input bytes; all strings up to length 3/4 over a 21-byte alphabet of dangerous bytes are enumerated, longer ones drawn by rapid. At module level the string is placed at each of 24 positions through the API and through text, printed, re-parsed by llir (bytes must come back: a left inverse, hence injectivity) and read by llvm-as|llvm-dis, whose reading must equal its reading of my own fully escaped spelling of the same bytes.",
  "note": "Trusts the reference lexer model (h/ref/lex.go, written from LLLexer.cpp rules), LLVM 14, and the position templates in checks/c11. Domain: names are non-empty and NUL-free; all-digit type names are numbered types in the library's data model. Open finding KF-C11-type-name-quoted-digits.",
}
CHECKS["C19"] = {
  "category": "fault_enumeration",
  "technique": "fault injection by enumeration + property-based testing: an instrumented io.Writer failing at every byte offset (and rapid-drawn offsets on llvm-stress modules), checked against the io.WriterTo contract and String()",
  "text": "For each repository test module every failure offset k in 0..len(String()) is enumerated (thorough; quick takes every 7th plus both ends), in two writer modes (keeps failing / would accept later writes), plus rapid-drawn (llvm-stress module, offset) pairs biased to line boundaries and the ends. The oracle is the contract itself: n equals the bytes the writer accepted, err is the writer's first error by identity, delivered bytes are String()[:k], no Write call follows the failure; a healthy writer receives exactly String().",
  "note": "Modules come from the repository's testdata and llvm-stress (parsed by the library) - a module the parser cannot read is discarded and counted. Trusts String() as the definition of the expected bytes (the property defines WriteTo relative to it).",
}
CHECKS["C16"] = {
  "technique": "property-based testing: rapid-generated type universes (recursive, mutually recursive, opaque identified structs) and types with one-feature-apart mutants, instantiated as two disjoint object graphs, against a reference type identity; metamorphic print→parse round trip",
  "text": "Equal is compared with an independent structural reference (identified structs by name, everything else by structure) on every ordered pair of every generated case, and checked for reflexivity (same object and a disjoint copy), symmetry, transitivity on all triples and termination (a stack overflow kills the shard; the driver re-runs it with case tracing and reports the crashing case); Equal(t, parse(print(t))) is checked by embedding t at a position legal for its kind.",
  "note": "Trusts am.Equal (h/am/types.go) as the statement of LLVM type identity and the am→llir type instantiation (h/emit/types.go). Universes follow LLVM's data model: unique names, only struct types are named.",
}
CHECKS["C01"] = {
  "technique": "property-based testing / differential testing: rapid-generated typed modules (own generator + own text emitter), llvm-stress programs and opt-transformed variants, repository testdata; oracle = LLVM 14's own reading (llvm-as | llvm-dis, normalised) of input versus llir's parse→print output",
  "text": "Generated-input search over valid LLVM 14 modules: the harness' typed module generator (validity by construction, 100% accepted by llvm-as in measurement), llvm-stress programs and opt variants, and the repository's testdata. For every input LLVM accepts: parsing and printing must not panic, the parser must accept what the own generator emits, LLVM must accept the output and read the same canonical module from it. Failures are shrunk by rapid (own generator) or by line-based delta debugging (external inputs).",
  "note": "Trusts llvm-as-14/llvm-dis-14 as the reading of 'meaning' and the normaliser (metadata numbering, named-metadata/type/comdat order, attachment order). s0x literals are outside the domain (LLVM's reading differs from the documented one, see C09). Open findings: NaN payloads (input rewritten, counted), two grammar gaps of github.com/llir/ll (generator exclusions, counted).",
}
CHECKS["C02"] = {
  "technique": "property-based testing: round-trip fixpoint (parse→print→parse→print byte equality) plus reflection-based bisimulation of the two parsed modules, over rapid-generated modules, llvm-stress/opt programs and repository testdata",
  "text": "For every accepted input x: y=print(parse(x)) is accepted by the parser, print(parse(y)) equals y byte for byte, and parse(x) and parse(y) are structurally identical under a bisimulation that pairs identity-bearing objects one-to-one. The domain gate (llvm-as accepts x) is evaluated lazily, only when a failure is seen.",
  "note": "Trusts the reflection walker (h/walk/bisim.go): exported fields only, lazily cached `Typ` fields that are nil on one side are ignored, value-like objects (constants, literal types) are compared structurally.",
}
CHECKS["C04"] = {
  "technique": "property-based testing: rapid-generated reference-stress modules (plus llvm-stress/opt and testdata) parsed and walked by a reflection-based object-graph checker with an identity oracle (every reference must be the defining object)",
  "text": "Every pointer to a global, function, alias, ifunc, comdat, attribute group, numbered metadata node or named type met anywhere in the parsed module must be the object the module lists under that name/ID; every parameter, block, instruction or terminator met as an operand must belong to the function being walked (for blockaddress: to the named function, so no translation-time dummy block survives); Parent links must agree with containment. Modules come from the typed generator (forward, mutual, self and cross-function references, cycles) rendered in shuffled order with spelling noise.",
  "note": "Trusts the reflection walker in checks/c04 (exported fields). Wrong-but-existing bindings (a use bound to another object of the right kind) are detected by C01's canonical diff, not here. Inputs the parser rejects are judged by C01.",
}
CHECKS["C12"] = {
  "technique": "property-based testing: metamorphic repetition (same text parsed K times, interleaved with other parses, through four entry points, in fresh processes and concurrently under the Go race detector) over rapid-generated 'big' modules and rejected variants; oracle = equality of printed text, structural bisimulation and verdict",
  "text": "Every generated input (>= 8 entities in each of the translator's maps, shuffled order, spelling noise; one third invalid) is parsed 16 (quick) / 64 (thorough) times with other parses and prints in between; String(), a structural bisimulation and accept/reject must never differ; ParseFile, Parse, ParseBytes and ParseString must agree; a sample is re-parsed in fresh processes; 2..8 goroutines parse unrelated inputs concurrently in a -race build and any race report or result difference is a violation.",
  "note": "Go map iteration orders, hash seeds and goroutine schedules are sampled by repetition, not enumerated (no add-only hook can own `range` over a map); with k>=8 entities per map an order dependence survives K repetitions with probability <= 2^-(K-1). Trusts the race detector's happens-before analysis for the concurrent part.",
}
