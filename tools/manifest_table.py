NOT_YET = {}
CHECKS = {
 "C20": {
  "technique": "property-based testing: exhaustive enumeration of short strings + rapid random strings against a reference natural order; metamorphic permutation of module definitions",
  "text": "Exhaustive over all pairs of strings up to length 3 (quick) / 4 (thorough) over a 10-byte alphabet chosen to hit digit runs, leading zeros, NUL and 0xFF, and all triples over a 5-byte alphabet; plus rapid-generated long digit runs. Order axioms and equality with an independent reference order are checked on every pair. Exploration, not proof: longer strings are sampled.",
  "note": "Trusts the reference order in h/ref/natural.go (tokenise into digit runs / single bytes, numeric compare, fewer leading zeros first) as the statement of 'natural order'; natsort is reached through the verif-tagged hook package.",
 },
}
