// Package verifhook re-exports internal helpers for external verification
// harnesses. The exports are only compiled with the build tag "verif"; without
// the tag the package is empty.
package verifhook
