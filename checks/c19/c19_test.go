package c19

import (
	"errors"
	"fmt"
	"os"
	"strings"
	"testing"

	"github.com/llir/llvm/ir"
	"pgregory.net/rapid"

	"verif/h/corpus"
	"verif/h/gen"
	"verif/h/hx"
	"verif/h/lx"
	"verif/h/mut"
)

func TestMain(m *testing.M) { hx.Main(m, "C19", nil) }

// faultWriter accepts bytes until failAt bytes have been accepted in total; the write that
// crosses the limit accepts the part that fits and returns errFault. failAt < 0: never fails.
type faultWriter struct {
	failAt     int
	recover    bool // after the failure, later writes would succeed again (to expose writes after a failure)
	buf        []byte
	calls      int
	failed     bool
	afterFail  int // Write calls after the first failure
	afterBytes int
	err        error
}

func (w *faultWriter) Write(p []byte) (int, error) {
	w.calls++
	if w.failed {
		w.afterFail++
		w.afterBytes += len(p)
		if w.recover {
			return len(p), nil
		}
		return 0, w.err
	}
	if w.failAt >= 0 && len(w.buf)+len(p) > w.failAt {
		n := w.failAt - len(w.buf)
		w.buf = append(w.buf, p[:n]...)
		w.failed = true
		return n, w.err
	}
	w.buf = append(w.buf, p...)
	return len(p), nil
}

// checkWrite runs WriteTo on m with a writer failing at offset k (k<0: healthy) and checks the contract.
func checkWrite(t hx.TB, test, src string, m *ir.Module, want string, k int, recoverLater bool) {
	errFault := errors.New("injected write failure")
	w := &faultWriter{failAt: k, recover: recoverLater, err: errFault}
	var n int64
	var err error
	c := fmt.Sprintf("; failAt=%d recover=%v len(String())=%d\n%s", k, recoverLater, len(want), src)
	if p := lx.Guard(func() { n, err = m.WriteTo(w) }); p != nil {
		hx.Fail(t, test, "ll", c, "WriteTo panics with a writer failing at offset %d: %s", k, p)
	}
	judge(t, test, c, w, n, err, want, k)
}

// judge applies the contract to what one WriteTo call returned and delivered to w.
func judge(t hx.TB, test, c string, w *faultWriter, n int64, err error, want string, k int) {
	errFault := w.err
	if k < 0 || k >= len(want) {
		// healthy (or the limit is never crossed)
		if err != nil {
			hx.Fail(t, test, "ll", c, "healthy writer: WriteTo returned error %v", err)
		}
		if string(w.buf) != want {
			hx.Fail(t, test, "ll", c, "healthy writer: bytes written differ from String() (%d vs %d bytes)", len(w.buf), len(want))
		}
		if n != int64(len(want)) {
			hx.Fail(t, test, "ll", c, "healthy writer: WriteTo returned n=%d, String() has %d bytes", n, len(want))
		}
		return
	}
	if err != errFault {
		hx.Fail(t, test, "ll", c, "writer failed at offset %d with a distinguished error; WriteTo returned err=%v (want the writer's first error)", k, err)
	}
	if n != int64(len(w.buf)) {
		hx.Fail(t, test, "ll", c, "writer accepted %d bytes before failing at offset %d; WriteTo reported n=%d", len(w.buf), k, n)
	}
	if string(w.buf) != want[:k] {
		hx.Fail(t, test, "ll", c, "bytes delivered before the failure at offset %d are not the first %d bytes of String()", k, k)
	}
	if w.afterFail != 0 {
		hx.Fail(t, test, "ll", c, "%d Write calls (%d bytes) were made after the writer had failed at offset %d", w.afterFail, w.afterBytes, k)
	}
}

func parse(t hx.TB, src string) (*ir.Module, string) {
	m, err, p := lx.Parse(src)
	if err != nil || p != nil {
		return nil, ""
	}
	s, p2 := lx.Print(m)
	if p2 != nil {
		return nil, ""
	}
	return m, s
}

func TestEveryOffsetOnTestdata(t *testing.T) {
	const test = "EveryOffsetOnTestdata"
	hx.Rule(test, "every .ll file of the repository's testdata (parsed) x every failure offset k in 0..len(String()) (thorough) / every 7th offset plus the first and last 200 (quick), with a writer that keeps failing and one that would accept later writes: returned n = bytes accepted, err = the writer's first error (identity), bytes delivered = String()[:k], no Write after the failure; healthy writer: bytes = String(), n = len; distinct case = (module, k, mode)")
	files := corpus.Fixed()
	if len(files) == 0 {
		t.Fatalf("no testdata found under %s", corpus.Repo())
	}
	n := 0
	for fi, f := range files {
		m, want := parse(t, f.Text)
		if m == nil {
			hx.Discard("testdata_not_parsed")
			continue
		}
		checkWrite(t, test, f.Text, m, want, -1, false)
		for k := 0; k <= len(want); k++ {
			if !hx.Mine(k + fi) {
				continue
			}
			if !hx.Thorough() && k%7 != 0 && k > 200 && k < len(want)-200 {
				continue
			}
			for _, rec := range []bool{false, true} {
				checkWrite(t, test, f.Text, m, want, k, rec)
				n++
			}
			hx.NonTrivialU(uint64(fi), uint64(k))
		}
		hx.Hist("module/" + f.Name)
		if fi < 2 {
			hx.SampleCase(test, fmt.Sprintf("%s: len(String())=%d, failure offsets 0..%d", f.Name, len(want), len(want)))
		}
	}
	hx.Eval(n)
}

func TestRandomModulesAndOffsets(t *testing.T) {
	const test = "RandomModulesAndOffsets"
	hx.Rule(test, "llvm-stress programs (seed and size drawn by rapid) parsed by the library x rapid failure offsets (biased to 0, 1, len-1, len and line boundaries) x writer modes; same oracle")
	hx.Check(t, test, hx.N(40, 1500), func(rt *rapid.T) {
		seed := rapid.Uint64Range(1, 1<<30).Draw(rt, "stress_seed")
		size := rapid.SampledFrom([]int{5, 20, 60, 150}).Draw(rt, "stress_size")
		src := corpus.Stress(seed, size)
		if src == "" {
			hx.Discard("llvm_stress_failed")
			return
		}
		m, want := parse(rt, src)
		if m == nil {
			hx.Discard("stress_program_not_parsed_or_printed")
			return
		}
		hx.Eval(1)
		checkWrite(rt, test, src, m, want, -1, false)
		nOff := 60
		for i := 0; i < nOff; i++ {
			var k int
			switch rapid.IntRange(0, 3).Draw(rt, "kclass") {
			case 0:
				k = rapid.SampledFrom([]int{0, 1, 2, len(want) - 2, len(want) - 1, len(want)}).Draw(rt, "edge")
				if k < 0 {
					k = 0
				}
			case 1: // at a line boundary
				idx := rapid.IntRange(0, len(want)-1).Draw(rt, "pos")
				j := strings.IndexByte(want[idx:], '\n')
				if j < 0 {
					j = 0
				}
				k = idx + j + rapid.IntRange(0, 1).Draw(rt, "afterNL")
				if k > len(want) {
					k = len(want)
				}
			default:
				k = rapid.IntRange(0, len(want)).Draw(rt, "k")
			}
			rec := rapid.Bool().Draw(rt, "recover")
			checkWrite(rt, test, src, m, want, k, rec)
			hx.Eval(1)
			hx.NonTrivial(fmt.Sprintf("%d/%d/%d/%v", seed, size, k, rec))
		}
		hx.SampleCase(test, fmt.Sprintf("llvm-stress -seed %d -size %d: len(String())=%d", seed, size, len(want)))
	})
}

func TestGeneratedModules(t *testing.T) {
	const test = "GeneratedModules"
	hx.Rule(test, "modules of the harness' own generator (every top-level section the printer has: source_filename, target lines, module asm, type definitions, comdats, globals, aliases, ifuncs, functions, attribute groups, named and numbered metadata, module-level and function-level use-list orders) parsed by the library x 50 drawn failure offsets (a third at the very end of the text, where the last sections are) x writer modes; same oracle")
	hx.Check(t, test, hx.N(40, 1500), func(rt *rapid.T) {
		cfg := gen.DefaultCfg()
		cfg.DebugInfo = true
		cfg.Off = map[string]bool{"retattr-align": true, "freeze-metadata": true}
		am_, feats := gen.Module(rt, cfg)
		src := am_.Text()
		m, want := parse(rt, src)
		if m == nil {
			hx.Discard("generated_module_not_parsed_or_printed")
			return
		}
		hx.Eval(1)
		checkWrite(rt, test, src, m, want, -1, false)
		for i := 0; i < 50; i++ {
			var k int
			if rapid.IntRange(0, 2).Draw(rt, "tail") == 0 {
				k = len(want) - rapid.IntRange(0, min(len(want), 400)).Draw(rt, "fromEnd")
			} else {
				k = rapid.IntRange(0, len(want)).Draw(rt, "k")
			}
			rec := rapid.Bool().Draw(rt, "recover")
			checkWrite(rt, test, src, m, want, k, rec)
			hx.Eval(1)
			hx.NonTrivial(fmt.Sprintf("gen/%x/%d/%v", hx.Hash64(src), k, rec))
		}
		if feats["uselistorder/blockaddress"]+feats["uselistorder/global"] > 0 || strings.Contains(want, "\nuselistorder") {
			hx.Hist("generated/with_module_level_uselistorder")
		}
	})
}

func TestClangCorpus(t *testing.T) {
	const test = "ClangCorpus"
	hx.Rule(test, "clang-14 output for corpus/src x corpus.ClangVariants (see C01), parsed, x failure offsets: every line boundary +-1 and every 97th byte (quick: every 5th line boundary and every 997th byte) x writer modes; same oracle")
	n := 0
	for i, c := range corpus.ClangCases() {
		if !hx.Mine(i) {
			continue
		}
		x := c.Text()
		if x == "" {
			hx.Discard("clang_rejects_combination")
			continue
		}
		m, want := parse(t, x)
		if m == nil {
			hx.Discard("clang_module_not_parsed")
			continue
		}
		src := "clang-14 " + c.Name()
		checkWrite(t, test, src, m, want, -1, false)
		step, lstep := 97, 1
		if !hx.Thorough() {
			step, lstep = 997, 5
		}
		ks := map[int]bool{0: true, len(want): true}
		ln := 0
		for k := 0; k < len(want); k++ {
			if k%step == 0 {
				ks[k] = true
			}
			if want[k] == '\n' {
				if ln%lstep == 0 {
					ks[k], ks[k+1] = true, true
				}
				ln++
			}
		}
		for k := range ks {
			for _, rec := range []bool{false, true} {
				checkWrite(t, test, src, m, want, k, rec)
				n++
			}
			hx.NonTrivialU(uint64(1000+i), uint64(k))
		}
	}
	hx.Eval(n)
}

func TestMutatedCorpus(t *testing.T) {
	const test = "MutatedCorpus"
	hx.Rule(test, "repository testdata and llvm-stress programs changed by 1..3 drawn text mutations (h/mut), kept when llvm-as and the parser accept them, x 40 drawn failure offsets x writer modes; same oracle")
	hx.Check(t, test, hx.N(20, 800), func(rt *rapid.T) {
		src, _, ok := mut.Valid(rt)
		if !ok {
			hx.Discard("mutated_text_not_valid_or_not_accepted")
			return
		}
		m, want := parse(rt, src)
		if m == nil {
			hx.Discard("mutated_program_not_parsed_or_printed")
			return
		}
		hx.Eval(1)
		checkWrite(rt, test, src, m, want, -1, false)
		for i := 0; i < 40; i++ {
			k := rapid.IntRange(0, len(want)).Draw(rt, "k")
			rec := rapid.Bool().Draw(rt, "recover")
			checkWrite(rt, test, src, m, want, k, rec)
			hx.Eval(1)
			hx.NonTrivial(fmt.Sprintf("mut/%x/%d/%v", hx.Hash64(src), k, rec))
		}
	})
}

func TestReplay(t *testing.T) {
	path := os.Getenv("VERIF_REPLAY")
	if path == "" {
		t.Skip()
	}
	buf, err := os.ReadFile(path)
	if err != nil {
		t.Fatal(err)
	}
	src := string(buf)
	if strings.HasPrefix(src, "; EDITED ") {
		replayEdited(t, src)
		return
	}
	if strings.HasPrefix(src, "; INFLIGHT ") {
		replayInFlight(t, src)
		return
	}
	m, want := parse(t, src)
	if m == nil {
		t.Fatalf("replay module does not parse")
	}
	k, rec := -1, false
	fmt.Sscanf(src, "; failAt=%d recover=%t", &k, &rec)
	checkWrite(t, "Replay", src, m, want, k, rec)
	for k := 0; k <= len(want); k++ {
		checkWrite(t, "Replay", src, m, want, k, false)
		checkWrite(t, "Replay", src, m, want, k, true)
	}
}
