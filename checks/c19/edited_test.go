package c19

import (
	"fmt"
	"strings"
	"testing"

	"pgregory.net/rapid"

	"verif/h/apiedit"
	"verif/h/gen"
	"verif/h/hx"
	"verif/h/lx"
	"verif/h/mut"
	"verif/h/walk"
)

// TestEditedBetweenStringAndWriteTo: the contract compares WriteTo with String() of the module as it is now. A
// module is parsed and String() is called; then it is edited in place in ways that keep every count (locals
// renamed through SetName; scalars assigned through the exported fields until it says what a mutated text
// says); then String() is called again and WriteTo is judged against it, with healthy and failing writers.
func TestEditedBetweenStringAndWriteTo(t *testing.T) {
	const test = "EditedBetweenStringAndWriteTo"
	hx.Rule(test, "generated modules, parsed; String(); an edit that changes no count (apiedit.RenameLocals with a drawn seed, then — when the object graphs have the same shape — walk.Transplant from the parse of a text mutation); String() again (it must differ from the first when something was renamed) and WriteTo with a healthy writer and at 12 drawn failure offsets: same oracle as EveryOffset against the second String(); non-trivial = the edit changed the text")
	hx.Check(t, test, hx.N(60, 3000), func(rt *rapid.T) {
		cfg := gen.DefaultCfg()
		cfg.MaxFuncs = 3
		am, _ := gen.Module(rt, cfg)
		x := am.Text()
		hx.Eval(1)
		seed := rapid.Uint64().Draw(rt, "renameSeed")
		x2, ops := mut.Mutate(rt, x, nil)
		if len(ops) == 0 {
			x2 = ""
		}
		var ks []int
		for i := 0; i < 12; i++ {
			ks = append(ks, rapid.IntRange(0, 1<<20).Draw(rt, "k"))
		}
		editAndCheck(rt, test, x, seed, x2, ks)
	})
}

const editedMarker = "\n; ---- the text whose scalars are assigned ----\n"

// editAndCheck is the oracle of EditedBetweenStringAndWriteTo; ks are failure offsets (taken modulo the length).
func editAndCheck(t hx.TB, test, x string, seed uint64, x2 string, ks []int) {
	{
		m, first := parse(t, x)
		if m == nil {
			hx.Discard("generated_module_not_parsed_or_printed(judged_by_C01)")
			return
		}
		var stats map[string]int
		if p := lx.Guard(func() { stats = apiedit.RenameLocals(seed, m) }); p != nil {
			hx.Discard("rename_panics(judged_by_C08)")
			return
		}
		scalars := 0
		if x2 != "" {
			if m2, err, p := lx.Parse(x2); err == nil && p == nil {
				if _, pp := lx.Print(m2); pp == nil {
					// only a pair of the same shape is transplanted; the renamed names are overwritten again, which is fine
					if n, why := walk.Transplant(m, m2); why == "" {
						scalars = n
					} else if n > 0 {
						hx.Discard("partly_transplanted(shape_differs)")
						return
					}
				}
			}
		}
		want, pp := lx.Print(m)
		if pp != nil {
			hx.Discard("print_after_edit_panics(judged_by_C14)")
			return
		}
		src := fmt.Sprintf("; EDITED seed=%d : String() was called, then locals were renamed %v and %d scalars assigned, then String() again\n%s", seed, stats, scalars, x)
		if x2 != "" {
			src += editedMarker + x2
		}
		checkWrite(t, test, src, m, want, -1, false)
		for i, k := range ks {
			checkWrite(t, test, src, m, want, k%(len(want)+1), i%2 == 0)
			hx.Eval(1)
		}
		if want != first {
			hx.NonTrivial(src)
			hx.Hist("edit_changed_the_text")
		}
	}
}

// replayEdited re-runs a stored case.
func replayEdited(t *testing.T, stored string) {
	var seed uint64
	fmt.Sscanf(stored, "; EDITED seed=%d", &seed)
	body := stored[strings.IndexByte(stored, '\n')+1:]
	x, x2 := body, ""
	if i := strings.Index(body, editedMarker); i >= 0 {
		x, x2 = body[:i], body[i+len(editedMarker):]
	}
	var ks []int
	for k := 0; k < 4000; k += 7 {
		ks = append(ks, k)
	}
	editAndCheck(t, "Replay", x, seed, x2, ks)
}
