package c19

import (
	"encoding/json"
	"errors"
	"fmt"
	"strings"
	"testing"

	"github.com/llir/llvm/ir"
	"pgregory.net/rapid"

	"verif/h/gen"
	"verif/h/hx"
	"verif/h/lx"
)

// hookWriter is a faultWriter that runs hook once, inside its at-th Write call, before the bytes are taken.
type hookWriter struct {
	faultWriter
	at   int
	hook func()
}

func (w *hookWriter) Write(p []byte) (int, error) {
	if w.hook != nil && w.calls == w.at {
		h := w.hook
		w.hook = nil
		h()
	}
	return w.faultWriter.Write(p)
}

// TestWritesInFlightTogether: the contract is stated for every WriteTo call, also when a second call is in
// flight at the same time: a writer of module A that, in the middle of its work (inside one of its Write calls),
// has module B written to another writer — on the same goroutine (a writer that logs, a template that includes
// another module) or on another goroutine while A's writer waits (a slow writer). Each of the two calls must
// deliver its own String() (or its first k bytes), count its own bytes and return its own writer's error.
func TestWritesInFlightTogether(t *testing.T) {
	const test = "WritesInFlightTogether"
	hx.Rule(test, "two or three generated modules, each with its own writer (healthy, or failing at a drawn offset, keeps failing or would recover); the WriteTo of the next module runs inside the j-th Write call of the previous module's writer (j drawn, 0 = first), on the same goroutine or on another goroutine that the outer writer waits for; one to three sequential WriteTo calls to plain writers came before; every call is judged by the contract of EveryOffset; non-trivial = at least one inner call started after the outer writer had taken bytes")
	hx.Check(t, test, hx.N(60, 3000), func(rt *rapid.T) {
		nmod := rapid.IntRange(2, 3).Draw(rt, "modules")
		cfg := gen.DefaultCfg()
		cfg.MaxFuncs = 3
		var srcs, wants []string
		var mods []*ir.Module
		for i := 0; i < nmod; i++ {
			am, _ := gen.Module(rt, cfg)
			src := am.Text()
			m, want := parse(rt, src)
			if m == nil {
				hx.Discard("generated_module_not_parsed_or_printed(judged_by_C01)")
				return
			}
			srcs, wants, mods = append(srcs, src), append(wants, want), append(mods, m)
		}
		hx.Eval(1)
		// earlier, completed calls to plain writers
		for i := rapid.IntRange(1, 3).Draw(rt, "before"); i > 0; i-- {
			j := i % nmod
			checkWrite(rt, test, srcs[j], mods[j], wants[j], -1, false)
		}
		spec := inflightSpec{OtherGoroutine: rapid.Bool().Draw(rt, "otherGoroutine")}
		for i := range srcs {
			k := -1
			if rapid.IntRange(0, 2).Draw(rt, "fails") == 0 {
				k = rapid.IntRange(0, len(wants[i])).Draw(rt, "k")
			}
			spec.FailAt = append(spec.FailAt, k)
			spec.Recover = append(spec.Recover, rapid.Bool().Draw(rt, "recover"))
			spec.At = append(spec.At, rapid.IntRange(0, 6).Draw(rt, "at"))
		}
		started, desc := runInFlight(rt, test, srcs, wants, mods, spec)
		c := desc
		otherGoroutine := spec.OtherGoroutine
		if started {
			hx.NonTrivial(c)
			hx.Hist("inner_call_started_after_outer_bytes")
		}
		if otherGoroutine {
			hx.Hist("inner_call_on_another_goroutine")
		}
		hx.SampleCase(test, desc)
		_ = c
	})
}

// inflightSpec is the drawn part of a case; it is the first line of a stored case.
type inflightSpec struct {
	FailAt         []int  // per module: offset at which its writer fails (-1: never)
	Recover        []bool // per module: the writer would accept writes again after its failure
	At             []int  // per module: the Write call of its writer inside which the next module is written
	OtherGoroutine bool
}

const inflightMarker = "\n; ==== verif C19: next module ====\n"

// runInFlight runs the nested WriteTo calls described by spec and judges each of them.
func runInFlight(t hx.TB, test string, srcs, wants []string, mods []*ir.Module, spec inflightSpec) (started bool, desc string) {
	nmod := len(mods)
	errFault := errors.New("injected write failure")
	ws := make([]*hookWriter, nmod)
	ks := spec.FailAt
	ns := make([]int64, nmod)
	errs := make([]error, nmod)
	panics := make([]string, nmod)
	for i := range ws {
		ws[i] = &hookWriter{faultWriter: faultWriter{failAt: ks[i], recover: spec.Recover[i], err: errFault}}
		ws[i].at = spec.At[i]
		desc += fmt.Sprintf("; module %d: failAt=%d recover=%v, the next module is written inside Write call %d, len(String())=%d\n", i, ks[i], ws[i].recover, ws[i].at, len(wants[i]))
	}
	otherGoroutine := spec.OtherGoroutine
	desc += fmt.Sprintf("; inner calls on another goroutine: %v\n", otherGoroutine)
	ran := make([]bool, nmod)
	var run func(i int)
	run = func(i int) {
		ran[i] = true
		if i+1 < nmod {
			ws[i].hook = func() {
				if len(ws[i].buf) > 0 {
					started = true
				}
				if otherGoroutine {
					done := make(chan struct{})
					go func() { defer close(done); run(i + 1) }()
					<-done
				} else {
					run(i + 1)
				}
			}
		}
		if p := lx.Guard(func() { ns[i], errs[i] = mods[i].WriteTo(ws[i]) }); p != nil {
			panics[i] = p.String()
		}
	}
	run(0)
	sj, _ := json.Marshal(spec)
	c := "; INFLIGHT " + string(sj) + "\n" + desc + strings.Join(srcs, inflightMarker)
	for i := range ws {
		if !ran[i] {
			hx.Hist("inner_call_never_started(outer_writer_saw_fewer_calls)")
			continue
		}
		if panics[i] != "" {
			hx.Fail(t, test, "ll", c, "WriteTo of module %d panics while another WriteTo is in flight: %s", i, panics[i])
		}
		judge(t, test, c, &ws[i].faultWriter, ns[i], errs[i], wants[i], ks[i])
	}
	return started, desc
}

// replayInFlight re-runs a stored case of WritesInFlightTogether (after three completed plain calls, as in the test).
func replayInFlight(t *testing.T, stored string) {
	var spec inflightSpec
	line := stored[len("; INFLIGHT "):strings.IndexByte(stored, '\n')]
	if err := json.Unmarshal([]byte(line), &spec); err != nil {
		t.Fatal(err)
	}
	body := stored[strings.IndexByte(stored, '\n')+1:]
	for strings.HasPrefix(body, "; ") {
		body = body[strings.IndexByte(body, '\n')+1:]
	}
	var srcs, wants []string
	var mods []*ir.Module
	for _, src := range strings.Split(body, inflightMarker) {
		m, want := parse(t, src)
		if m == nil {
			t.Fatalf("a module of the stored case does not parse")
		}
		srcs, wants, mods = append(srcs, src), append(wants, want), append(mods, m)
	}
	for rep := 0; rep < 3; rep++ {
		for j := range mods {
			checkWrite(t, "Replay", srcs[j], mods[j], wants[j], -1, false)
		}
		runInFlight(t, "Replay", srcs, wants, mods, spec)
	}
}
