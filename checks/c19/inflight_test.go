package c19

import (
	"errors"
	"fmt"
	"testing"

	"github.com/llir/llvm/ir"
	"pgregory.net/rapid"

	"verif/h/gen"
	"verif/h/hx"
	"verif/h/lx"
)

// hookWriter is a faultWriter that runs hook once, inside its at-th Write call, before the bytes are taken.
type hookWriter struct {
	faultWriter
	at   int
	hook func()
}

func (w *hookWriter) Write(p []byte) (int, error) {
	if w.hook != nil && w.calls == w.at {
		h := w.hook
		w.hook = nil
		h()
	}
	return w.faultWriter.Write(p)
}

// TestWritesInFlightTogether: the contract is stated for every WriteTo call, also when a second call is in
// flight at the same time: a writer of module A that, in the middle of its work (inside one of its Write calls),
// has module B written to another writer — on the same goroutine (a writer that logs, a template that includes
// another module) or on another goroutine while A's writer waits (a slow writer). Each of the two calls must
// deliver its own String() (or its first k bytes), count its own bytes and return its own writer's error.
func TestWritesInFlightTogether(t *testing.T) {
	const test = "WritesInFlightTogether"
	hx.Rule(test, "two or three generated modules, each with its own writer (healthy, or failing at a drawn offset, keeps failing or would recover); the WriteTo of the next module runs inside the j-th Write call of the previous module's writer (j drawn, 0 = first), on the same goroutine or on another goroutine that the outer writer waits for; one to three sequential WriteTo calls to plain writers came before; every call is judged by the contract of EveryOffset; non-trivial = at least one inner call started after the outer writer had taken bytes")
	hx.Check(t, test, hx.N(60, 3000), func(rt *rapid.T) {
		nmod := rapid.IntRange(2, 3).Draw(rt, "modules")
		cfg := gen.DefaultCfg()
		cfg.MaxFuncs = 3
		var srcs, wants []string
		var mods []*ir.Module
		for i := 0; i < nmod; i++ {
			am, _ := gen.Module(rt, cfg)
			src := am.Text()
			m, want := parse(rt, src)
			if m == nil {
				hx.Discard("generated_module_not_parsed_or_printed(judged_by_C01)")
				return
			}
			srcs, wants, mods = append(srcs, src), append(wants, want), append(mods, m)
		}
		hx.Eval(1)
		// earlier, completed calls to plain writers
		for i := rapid.IntRange(1, 3).Draw(rt, "before"); i > 0; i-- {
			j := i % nmod
			checkWrite(rt, test, srcs[j], mods[j], wants[j], -1, false)
		}
		errFault := errors.New("injected write failure")
		ws := make([]*hookWriter, nmod)
		ks := make([]int, nmod)
		ns := make([]int64, nmod)
		errs := make([]error, nmod)
		panics := make([]string, nmod)
		desc := ""
		for i := range ws {
			ks[i] = -1
			if rapid.IntRange(0, 2).Draw(rt, "fails") == 0 {
				ks[i] = rapid.IntRange(0, len(wants[i])).Draw(rt, "k")
			}
			ws[i] = &hookWriter{faultWriter: faultWriter{failAt: ks[i], recover: rapid.Bool().Draw(rt, "recover"), err: errFault}}
			ws[i].at = rapid.IntRange(0, 6).Draw(rt, "at")
			desc += fmt.Sprintf("; module %d: failAt=%d recover=%v, the next module is written inside Write call %d, len(String())=%d\n", i, ks[i], ws[i].recover, ws[i].at, len(wants[i]))
		}
		otherGoroutine := rapid.Bool().Draw(rt, "otherGoroutine")
		desc += fmt.Sprintf("; inner calls on another goroutine: %v\n", otherGoroutine)
		started := false
		ran := make([]bool, nmod)
		var run func(i int)
		run = func(i int) {
			ran[i] = true
			if i+1 < nmod {
				ws[i].hook = func() {
					if len(ws[i].buf) > 0 {
						started = true
					}
					if otherGoroutine {
						done := make(chan struct{})
						go func() { defer close(done); run(i + 1) }()
						<-done
					} else {
						run(i + 1)
					}
				}
			}
			if p := lx.Guard(func() { ns[i], errs[i] = mods[i].WriteTo(ws[i]) }); p != nil {
				panics[i] = p.String()
			}
		}
		run(0)
		c := desc
		for i := range srcs {
			c += fmt.Sprintf("; ---- module %d ----\n%s", i, srcs[i])
		}
		for i := range ws {
			if !ran[i] {
				hx.Hist("inner_call_never_started(outer_writer_saw_fewer_calls)")
				continue
			}
			if panics[i] != "" {
				hx.Fail(rt, test, "ll", c, "WriteTo of module %d panics while another WriteTo is in flight: %s", i, panics[i])
			}
			judge(rt, test, fmt.Sprintf("; judged: module %d of %d WriteTo calls in flight together\n", i, nmod)+c, &ws[i].faultWriter, ns[i], errs[i], wants[i], ks[i])
		}
		if started {
			hx.NonTrivial(c)
			hx.Hist("inner_call_started_after_outer_bytes")
		}
		if otherGoroutine {
			hx.Hist("inner_call_on_another_goroutine")
		}
		hx.SampleCase(test, desc)
	})
}
