package c19

import (
	"fmt"
	"strings"
	"testing"

	"pgregory.net/rapid"

	"verif/h/hx"
)

// TestHugeEntities: single top-level entities whose text is larger than any plausible buffer or
// fast-path threshold (a global with a character array of 2^k +- 1 bytes for k up to 18, a function with
// thousands of instructions), with the writer failing inside, just before and just after them.
func TestHugeEntities(t *testing.T) {
	const test = "HugeEntities"
	hx.Rule(test, "modules with one huge entity between two small ones: a global `[n x i8] c\"...\"` with n in {4095, 4096, 4097, 65535, 65536, 65537, 262144} or a function with {200, 1700, 4000} instructions in one block; parsed by the library; failure offsets: 0, around the start and the end of the huge entity (+-2), 24 drawn offsets inside it, the end of the text; both writer modes; same oracle as the other tests (n = bytes accepted, first error returned, delivered bytes are a prefix of String(), nothing written after the failure). Non-trivial = an offset strictly inside the huge entity")
	sizes := []int{4095, 4096, 4097, 65535, 65536, 65537, 262144}
	insts := []int{200, 1700, 4000}
	hx.Check(t, test, hx.N(6, 60), func(rt *rapid.T) {
		var sb strings.Builder
		sb.WriteString("@before = global i32 1\n")
		var marker string
		if rapid.Bool().Draw(rt, "function") {
			n := rapid.SampledFrom(insts).Draw(rt, "insts")
			marker = "define i32 @huge"
			fmt.Fprintf(&sb, "define i32 @huge(i32 %%p) {\nentry:\n  %%v0 = add i32 %%p, 1\n")
			for i := 1; i < n; i++ {
				fmt.Fprintf(&sb, "  %%v%d = add i32 %%v%d, %d\n", i, i-1, i)
			}
			fmt.Fprintf(&sb, "  ret i32 %%v%d\n}\n", n-1)
		} else {
			n := rapid.SampledFrom(sizes).Draw(rt, "bytes")
			marker = "@huge = "
			fill := rapid.SampledFrom([]string{"a", "\\00", "\\22"}).Draw(rt, "fill")
			fmt.Fprintf(&sb, "@huge = global [%d x i8] c\"%s\"\n", n, strings.Repeat(fill, n))
		}
		sb.WriteString("@after = global i32 2\n")
		src := sb.String()
		m, want := parse(rt, src)
		if m == nil {
			hx.Discard("huge_module_not_parsed_or_printed")
			return
		}
		start := strings.Index(want, marker)
		end := -1
		if start >= 0 {
			// the entity ends at its closing brace (function) or at the end of its line (global)
			if strings.HasPrefix(marker, "define") {
				if i := strings.Index(want[start:], "\n}"); i >= 0 {
					end = start + i + 2
				}
			} else if i := strings.IndexByte(want[start:], '\n'); i >= 0 {
				end = start + i
			}
		}
		if start < 0 || end < start+2 {
			hx.Discard("huge_entity_not_found_in_output")
			return
		}
		hx.Eval(1)
		c := fmt.Sprintf("; huge entity %q: bytes %d..%d of %d\n", marker, start, end, len(want))
		var ks []int
		for _, b := range []int{0, start, end, len(want)} {
			for d := -2; d <= 2; d++ {
				if k := b + d; k >= 0 && k <= len(want) {
					ks = append(ks, k)
				}
			}
		}
		for i := 0; i < 24; i++ {
			ks = append(ks, rapid.IntRange(start+1, end-1).Draw(rt, "inside"))
		}
		checkWrite(rt, test, c, m, want, -1, false)
		for _, k := range ks {
			for _, rec := range []bool{false, true} {
				checkWrite(rt, test, c, m, want, k, rec)
				hx.Eval(1)
			}
			if k > start && k < end {
				hx.NonTrivial(fmt.Sprintf("huge/%s/%d/%d", marker, len(want), k))
			}
		}
	})
}
