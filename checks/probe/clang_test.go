package probe

import (
	"fmt"
	"testing"

	"verif/h/corpus"
	"verif/h/lx"
)

func TestClangCorpus(t *testing.T) {
	n, ok, bytes := 0, 0, 0
	for _, c := range corpus.ClangCases() {
		n++
		if x := c.Text(); x != "" {
			ok++
			bytes += len(x)
		} else {
			fmt.Println("not compiled:", c.Name())
		}
	}
	fmt.Printf("clang corpus: %d cases, %d compiled, %d KB\n", n, ok, bytes>>10)
}

func TestClangRejects(t *testing.T) {
	count := map[string][]string{}
	for _, c := range corpus.ClangCases() {
		x := c.Text()
		if x == "" {
			continue
		}
		_, err, p := lx.Parse(x)
		if p != nil {
			count["PANIC "+p.String()[:120]] = append(count["PANIC "+p.String()[:120]], c.Name())
		} else if err != nil {
			msg := err.Error()
			if len(msg) > 220 {
				msg = msg[:220]
			}
			count[msg] = append(count[msg], c.Name())
		}
	}
	for k, v := range count {
		fmt.Printf("%d  %s\n      e.g. %s\n", len(v), k, v[0])
	}
}
