package probe

import (
	"fmt"
	"regexp"
	"testing"

	"pgregory.net/rapid"

	"verif/h/gen"
)

func TestGepAliasFrequency(t *testing.T) {
	re := regexp.MustCompile(`(?m)^@\S+ = .*alias .*getelementptr`)
	re2 := regexp.MustCompile(`(?m)^@\S+ = .*alias .*getelementptr.*addrspace`)
	g := rapid.Custom(func(rt *rapid.T) string {
		cfg := gen.DefaultCfg()
		cfg.GEPBias = true
		m, _ := gen.Module(rt, cfg)
		return m.Text()
	})
	n, k, k2 := 300, 0, 0
	for i := 0; i < n; i++ {
		x := g.Example(i)
		if re.MatchString(x) {
			k++
		}
		if re2.MatchString(x) {
			k2++
		}
	}
	fmt.Printf("alias-of-gep in %d of %d modules, %d with addrspace\n", k, n, k2)
}

func TestDumpGepAlias(t *testing.T) {
	re2 := regexp.MustCompile(`(?m)^@\S+ = .*alias .*getelementptr.*addrspace.*$`)
	g := rapid.Custom(func(rt *rapid.T) string {
		cfg := gen.DefaultCfg()
		cfg.GEPBias = true
		m, _ := gen.Module(rt, cfg)
		return m.Text()
	})
	for i := 0; i < 50; i++ {
		x := g.Example(i)
		if m := re2.FindString(x); m != "" {
			fmt.Println(m)
		}
	}
}
