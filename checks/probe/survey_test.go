package probe

import (
	"fmt"
	"os"
	"regexp"
	"sort"
	"strings"
	"testing"

	"pgregory.net/rapid"

	"verif/h/gen"
	"verif/h/orc"
)

var reNum = regexp.MustCompile(`[0-9]+`)

var curInput string

func classKey(o orc.Outcome) string {
	msg := o.Msg
	lines := strings.Split(msg, "\n")
	k := lines[0]
	if o.Class == "meaning_changed" && len(lines) > 2 {
		k = lines[1] + " || " + lines[2]
	}
	if strings.Contains(k, "syntax error at line") {
		var ln int
		if i := strings.Index(k, "at line "); i >= 0 {
			fmt.Sscanf(k[i+8:], "%d", &ln)
		}
		in := strings.Split(curInput, "\n")
		if ln >= 1 && ln <= len(in) {
			f := strings.Fields(in[ln-1])
			if len(f) > 6 {
				f = f[:6]
			}
			k = "syntax error: " + strings.Join(f, " ")
		}
	}
	if i := strings.Index(k, "panic: "); i >= 0 {
		k = k[i:]
	}
	k = reNum.ReplaceAllString(k, "N")
	if len(k) > 160 {
		k = k[:160]
	}
	return o.Class + ": " + k
}

// TestSurveyC01 runs the C01 oracle over many generated modules without stopping at the first failure.
func TestSurveyC01(t *testing.T) {
	classes := map[string]int{}
	example := map[string]string{}
	n := 0
	off := map[string]bool{}
	for _, f := range strings.Fields(os.Getenv("SURVEY_OFF")) {
		off[f] = true
	}
	rapid.Check(t, func(rt *rapid.T) {
		cfg := gen.DefaultCfg()
		cfg.Off = off
		m, _ := gen.Module(rt, cfg)
		x := m.Text()
		n++
		curInput = x
		o := orc.ParsePrintPreserves(x, orc.Opts{OwnGenerator: true})
		if o.V == orc.OK {
			return
		}
		k := classKey(o)
		if o.V == orc.Discard {
			k = "DISCARD " + k
		}
		classes[k]++
		if ex, ok := example[k]; !ok || len(x) < len(ex) {
			example[k] = o.Describe() + "\n=== input ===\n" + x
		}
	})
	var ks []string
	for k := range classes {
		ks = append(ks, k)
	}
	sort.Slice(ks, func(i, j int) bool { return classes[ks[i]] > classes[ks[j]] })
	fmt.Printf("cases=%d classes=%d\n", n, len(ks))
	os.MkdirAll("/tmp/scratch/survey", 0o755)
	for i, k := range ks {
		fmt.Printf("[%d] %4d %s\n", i, classes[k], k)
		os.WriteFile(fmt.Sprintf("/tmp/scratch/survey/%02d.txt", i), []byte(k+"\n"+example[k]), 0o644)
	}
}
