package probe

import (
	"fmt"
	"strings"
	"testing"

	"pgregory.net/rapid"

	"verif/h/am"
	"verif/h/gen"
	"verif/h/llvmx"
)

func TestLeadingZeroAcceptance(t *testing.T) {
	g := rapid.Custom(func(rt *rapid.T) string {
		cfg := gen.DefaultCfg()
		cfg.UnnamedBias = 8
		m, _ := gen.Module(rt, cfg)
		return m.TextNoisy(am.Noise{LeadingZeros: true, Explicit: rapid.Bool().Draw(rt, "e")})
	})
	bad := 0
	for i := 0; i < 150; i++ {
		x := g.Example(i)
		if r := llvmx.Accept(x); !r.OK && !r.Crashed {
			bad++
			if bad <= 3 {
				lines := strings.Split(r.Err, "\n")
				fmt.Println(strings.Join(lines[:min(3, len(lines))], "\n"))
			}
		}
	}
	fmt.Println("rejected", bad)
}
