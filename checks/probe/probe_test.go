package probe

import (
	"fmt"
	"os"
	"sort"
	"strings"
	"testing"

	"pgregory.net/rapid"

	"verif/h/gen"
	"verif/h/llvmx"
)

// TestAcceptance measures how many generated modules llvm-as accepts and prints the rejection reasons.
func TestAcceptance(t *testing.T) {
	reasons := map[string]int{}
	examples := map[string]string{}
	n, ok := 0, 0
	rapid.Check(t, func(rt *rapid.T) {
		cfg := gen.DefaultCfg()
		cfg.DebugInfo = os.Getenv("PROBE_DI") != ""
		m, _ := gen.Module(rt, cfg)
		gen.SparseMetadataIDs(rt, m)
		nz := gen.DrawNoise(rt)
		if os.Getenv("PROBE_ALIAS") != "" {
			nz = gen.DrawNoiseWithAliases(rt)
		}
		x := m.TextNoisy(nz)
		n++
		r := llvmx.Accept(x)
		if r.OK {
			ok++
			return
		}
		msg := r.Err
		if i := strings.Index(msg, "error:"); i >= 0 {
			msg = msg[i:]
		}
		lines := strings.Split(msg, "\n")
		key := lines[0]
		if strings.Contains(key, "does not verify") && len(lines) > 1 {
			key = "verify: " + lines[1]
		}
		if len(key) > 90 {
			key = key[:90]
		}
		reasons[key]++
		if _, ok := examples[key]; !ok {
			examples[key] = strings.Join(lines[:min(4, len(lines))], "\n") + "\n" + x
		}
	})
	fmt.Printf("accepted %d of %d\n", ok, n)
	var ks []string
	for k := range reasons {
		ks = append(ks, k)
	}
	sort.Slice(ks, func(i, j int) bool { return reasons[ks[i]] > reasons[ks[j]] })
	for i, k := range ks {
		fmt.Printf("%4d %s\n", reasons[k], k)
		if i < 12 {
			os.WriteFile(fmt.Sprintf("/tmp/scratch/rej%d.ll", i), []byte(examples[k]), 0o644)
		}
	}
}
