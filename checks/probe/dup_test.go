package probe

import (
	"testing"

	"pgregory.net/rapid"

	"verif/h/gen"
)

func TestDupIDs(t *testing.T) {
	rapid.Check(t, func(rt *rapid.T) {
		cfg := gen.DefaultCfg()
		cfg.DebugInfo = true
		m, _ := gen.Module(rt, cfg)
		seen := map[int]string{}
		for _, n := range m.MDs {
			if k, ok := seen[n.ID]; ok {
				rt.Fatalf("duplicate metadata ID %d: %q and %q", n.ID, k, n.Kind)
			}
			seen[n.ID] = n.Kind + "."
		}
	})
}
