package probe

import (
	"fmt"
	"os"
	"regexp"
	"strings"
	"testing"

	"pgregory.net/rapid"

	"verif/h/gen"
)

// TestFeatureFrequency counts in how many generated module texts each PROBE_RE (';'-separated regexps) occurs.
func TestFeatureFrequency(t *testing.T) {
	var res []*regexp.Regexp
	for _, s := range strings.Split(os.Getenv("PROBE_RE"), ";") {
		if s != "" {
			res = append(res, regexp.MustCompile(s))
		}
	}
	cnt := make([]int, len(res))
	n := 0
	rapid.Check(t, func(rt *rapid.T) {
		cfg := gen.DefaultCfg()
		cfg.DebugInfo = os.Getenv("PROBE_DI") != ""
		m, _ := gen.Module(rt, cfg)
		x := m.TextNoisy(gen.DrawNoiseWithAliases(rt))
		n++
		for i, re := range res {
			if re.MatchString(x) {
				cnt[i]++
			}
		}
	})
	for i, re := range res {
		fmt.Printf("%6d of %d  %s\n", cnt[i], n, re)
	}
}
