package c06

import (
	"encoding/json"
	"fmt"
	"testing"

	"github.com/llir/llvm/ir"
	"github.com/llir/llvm/ir/constant"
	"github.com/llir/llvm/ir/types"
	"github.com/llir/llvm/ir/value"
	"pgregory.net/rapid"

	"verif/h/hx"
	"verif/h/lx"
)

// aggShape describes a nested aggregate: K "s" struct with Fields, "a" array of Len x Elem, leaf otherwise.
type aggShape struct {
	K      string
	Fields []*aggShape `json:",omitempty"`
	Len    uint64      `json:",omitempty"`
	Elem   *aggShape   `json:",omitempty"`
	Leaf   string      `json:",omitempty"`
}

func (a *aggShape) typ() types.Type {
	switch a.K {
	case "s":
		var fs []types.Type
		for _, f := range a.Fields {
			fs = append(fs, f.typ())
		}
		return types.NewStruct(fs...)
	case "a":
		return types.NewArray(a.Len, a.Elem.typ())
	}
	switch a.Leaf {
	case "i8":
		return types.NewInt(8)
	case "double":
		return &types.FloatType{Kind: types.FloatKindDouble}
	case "ptr":
		return types.NewPointer(types.NewInt(32))
	case "vec":
		return types.NewVector(2, types.NewInt(16))
	}
	return types.NewInt(32)
}

func genAgg(rt *rapid.T, depth int) *aggShape {
	if depth <= 0 || rapid.IntRange(0, 3).Draw(rt, "leaf") == 0 && depth < 3 {
		return &aggShape{K: "l", Leaf: rapid.SampledFrom([]string{"i32", "i8", "double", "ptr", "vec"}).Draw(rt, "leafT")}
	}
	if rapid.Bool().Draw(rt, "struct") {
		s := &aggShape{K: "s"}
		for i, n := 0, rapid.IntRange(1, 4).Draw(rt, "nfields"); i < n; i++ {
			s.Fields = append(s.Fields, genAgg(rt, depth-1))
		}
		return s
	}
	return &aggShape{K: "a", Len: uint64(rapid.IntRange(1, 5).Draw(rt, "len")), Elem: genAgg(rt, depth-1)}
}

// recoveredCase: an aggregate, a valid index path into it and a path that cannot be followed.
type recoveredCase struct {
	Agg  *aggShape
	Good []uint64
	Bad  []uint64
	How  int // how the failed query is made: 0 Type(), 1 String(), 2 through fmt (which recovers by itself)
}

// TestTypeAfterRecoveredFailure: the type of an instruction is a function of its operands *now*. An extractvalue
// (and a getelementptr) built as a struct literal with an index path that cannot be followed makes the type
// query panic; the caller recovers, corrects the path through the exported field and asks again: the answer
// must be the type a fresh instruction with the corrected path reports — nothing of the failed walk may have
// been kept. (Only queries that *failed* are followed up: a query that succeeds fills the documented cache.)
func TestTypeAfterRecoveredFailure(t *testing.T) {
	const test = "TypeAfterRecoveredFailure"
	hx.Rule(test, "rapid nested aggregates (structs of 1..4 fields, arrays, depth <= 3) x a valid index path x a path that cannot be followed (a struct index beyond the fields, a step into a scalar): extractvalue and getelementptr struct literals whose first type query panics and is recovered (Type(), String(), or fmt's own recovery), then the path is corrected through the exported field: Type() must equal that of a fresh instruction; non-trivial = the failing walk got past its first step")
	hx.Check(t, test, hx.N(1500, 40000), func(rt *rapid.T) {
		c := recoveredCase{Agg: genAgg(rt, 3), How: rapid.IntRange(0, 2).Draw(rt, "how")}
		// valid path: walk down 1..depth steps
		cur := c.Agg
		for steps := rapid.IntRange(1, 3).Draw(rt, "steps"); steps > 0 && cur.K != "l"; steps-- {
			if cur.K == "s" {
				i := rapid.IntRange(0, len(cur.Fields)-1).Draw(rt, "field")
				c.Good = append(c.Good, uint64(i))
				cur = cur.Fields[i]
			} else {
				c.Good = append(c.Good, uint64(rapid.IntRange(0, int(cur.Len)-1).Draw(rt, "elem")))
				cur = cur.Elem
			}
		}
		if len(c.Good) == 0 {
			hx.Discard("scalar_has_no_path")
			return
		}
		// a path that cannot be followed: keep a prefix of the good path, then a struct index beyond the fields
		// or one step too many into a scalar
		keep := rapid.IntRange(0, len(c.Good)).Draw(rt, "keep")
		c.Bad = append([]uint64{}, c.Good[:keep]...)
		at := c.Agg
		for _, i := range c.Bad {
			if at.K == "s" {
				at = at.Fields[i]
			} else {
				at = at.Elem
			}
		}
		switch at.K {
		case "s":
			c.Bad = append(c.Bad, uint64(len(at.Fields)+rapid.IntRange(0, 3).Draw(rt, "beyond")))
		case "a":
			// arrays are not bounds-checked; go on to something that fails below the array
			c.Bad = append(c.Bad, 0)
			if at.Elem.K == "s" {
				c.Bad = append(c.Bad, uint64(len(at.Elem.Fields)+1))
			} else {
				c.Bad = append(c.Bad, 0, 0, 0, 0)
			}
		default:
			c.Bad = append(c.Bad, 0)
		}
		judgeRecovered(rt, test, c)
	})
}

// judgeRecovered is the oracle of TestTypeAfterRecoveredFailure (also used to replay a stored case).
func judgeRecovered(t hx.TB, test string, c recoveredCase) {
	js, _ := json.Marshal(c)
	ctx := string(js)
	hx.Trace(test, "json", ctx)
	hx.Eval(1)
	aggT := c.Agg.typ()
	x := constant.NewZeroInitializer(aggT)
	query := func(v interface {
		Type() types.Type
		String() string
	}) *lx.Panic {
		switch c.How {
		case 0:
			return lx.Guard(func() { v.Type() })
		case 1:
			return lx.Guard(func() { _ = v.String() })
		}
		s := fmt.Sprintf("%v", v)
		if len(s) > 8 && s[:3] == "%!v" {
			return &lx.Panic{Val: s}
		}
		return nil
	}
	// extractvalue
	ev := &ir.InstExtractValue{X: x, Indices: c.Bad}
	if p := query(ev); p != nil {
		ev.Indices = c.Good
		var got, want types.Type
		if p2 := lx.Guard(func() { got = ev.Type(); want = ir.NewExtractValue(x, c.Good...).Type() }); p2 != nil {
			hx.Fail(t, test, "json", ctx, "extractvalue: after a recovered failure of the type query (path %v) and the correction of the path to %v, Type() panics: %s", c.Bad, c.Good, p2)
		}
		if !types.Equal(got, want) || got.String() != want.String() {
			hx.Fail(t, test, "json", ctx, "extractvalue %v, %v: after a recovered failure of the type query with the path %v, Type() is %v; a fresh instruction reports %v", aggT, c.Good, c.Bad, got, want)
		}
		if len(c.Bad) > 1 {
			hx.NonTrivial(ctx)
		}
		hx.Hist("recovered/extractvalue")
	} else {
		hx.Discard("bad_path_did_not_fail(extractvalue)")
	}
	// getelementptr: the same paths behind a leading zero
	idx := func(p []uint64) []value.Value {
		out := []value.Value{constant.NewInt(types.I64, 0)}
		for _, i := range p {
			out = append(out, constant.NewInt(types.I32, int64(i)))
		}
		return out
	}
	src := constant.NewNull(types.NewPointer(aggT))
	gp := &ir.InstGetElementPtr{ElemType: aggT, Src: src, Indices: idx(c.Bad)}
	if p := query(gp); p != nil {
		gp.Indices = idx(c.Good)
		var got, want types.Type
		if p2 := lx.Guard(func() { got = gp.Type(); want = ir.NewGetElementPtr(aggT, src, idx(c.Good)...).Type() }); p2 != nil {
			hx.Fail(t, test, "json", ctx, "getelementptr: after a recovered failure of the type query (path %v) and the correction of the path to %v, Type() panics: %s", c.Bad, c.Good, p2)
		}
		if !types.Equal(got, want) || got.String() != want.String() {
			hx.Fail(t, test, "json", ctx, "getelementptr %v, %v: after a recovered failure of the type query with the path %v, Type() is %v; a fresh instruction reports %v", aggT, c.Good, c.Bad, got, want)
		}
		hx.Hist("recovered/getelementptr")
	} else {
		hx.Discard("bad_path_did_not_fail(getelementptr)")
	}
}
