package c06

import (
	"encoding/json"
	"fmt"
	"os"
	"strings"
	"testing"

	"pgregory.net/rapid"

	"verif/h/am"
	"verif/h/corpus"
	"verif/h/gen"
	"verif/h/hx"
	"verif/h/llvmx"
	"verif/h/lx"
	"verif/h/mut"
	"verif/h/typing"
)

func TestMain(m *testing.M) { hx.Main(m, "C06", nil) }

var nCheck int

func check(t hx.TB, test string, m *am.Module, validate bool) bool {
	// every third case spells indices and IDs with redundant leading zeros (`extractvalue %s, 010` is index ten)
	nCheck++
	x := m.TextNoisy(am.Noise{LeadingZeros: nCheck%3 == 0, OctalLookalikes: nCheck%6 == 0})
	hx.Trace(test, "ll", x)
	pm, err, p := lx.Parse(x)
	if p != nil || err != nil {
		msg := fmt.Sprint(err, " ", p)
		// a rejection because the parser computes a different type than the text states is a typing disagreement
		if strings.Contains(strings.ToLower(msg), "type") && llvmx.Accept(x).OK {
			if len(msg) > 600 {
				msg = msg[:600]
			}
			hx.Fail(t, test, "ll", x, "the parser rejects a valid module over a type it computed itself: %s", msg)
		}
		hx.Discard("parser_does_not_accept(judged_by_C01)")
		return false
	}
	fs, st := typing.Compare(m, pm, false)
	hx.HistN("instructions_compared", st.Insts)
	hx.HistN("types_recomputed_by_ir", st.Recomputed)
	hx.HistN("constant_expressions_compared", st.Exprs)
	for k, v := range st.Kinds {
		hx.HistN("op/"+k, v)
	}
	if len(fs) > 0 {
		if !llvmx.Accept(x).OK {
			hx.Discard("violation_outside_domain(llvm_rejects_input)")
			return false
		}
		var sb strings.Builder
		for _, f := range fs {
			fmt.Fprintf(&sb, "%s: %s\n", f.Where, f.Msg)
		}
		hx.Fail(t, test, "ll", x, "%s", sb.String())
	}
	if validate {
		// every result is used at its reported type in the printed text: LLVM confirms
		out, pp := lx.Print(pm)
		if pp != nil {
			hx.Discard("print_panics(judged_by_C01)")
			return true
		}
		if r := llvmx.Accept(out); !r.OK && !r.Crashed && llvmx.Accept(x).OK {
			hx.Fail(t, test, "ll", x, "LLVM rejects the printed module, in which every value is used at the type the library reports: %s", firstLine(r.Err))
		}
		hx.Hist("validated_by_llvm")
	}
	return true
}

func firstLine(s string) string {
	if i := strings.IndexByte(s, '\n'); i >= 0 {
		return s[:i]
	}
	return s
}

func TestResultTypes(t *testing.T) {
	const test = "ResultTypes"
	hx.Rule(test, "generated modules over integers of any width, all floating-point kinds, pointers in several address spaces, fixed and scalable vectors, arrays, literal/packed/identified structs and function pointers: for every value-producing instruction and terminator the type the parser attaches must equal the reference type computed by the generator from LLVM's rules AND the type the IR library recomputes from the same operands after its exported Typ cache is cleared; for every constant expression the cached and recomputed types must agree; every 8th case is printed and passed through llvm-as, which checks each reported type at each use; non-trivial = module with a vector compare, scalable vector, cmpxchg, shufflevector, aggregate access, invoke result or address-space pointer")
	n := 0
	hx.Check(t, test, hx.N(300, 8000), func(rt *rapid.T) {
		cfg := gen.DefaultCfg()
		cfg.MaxInsts = 10
		cfg.Off = map[string]bool{"retattr-align": true, "freeze-metadata": true}
		m, feats := gen.Module(rt, cfg)
		n++
		hx.Eval(1)
		if check(rt, test, m, n%8 == 0) {
			if feats["type/scalable-vector"]+feats["inst/cmpxchg"]+feats["inst/shufflevector"]+feats["inst/extractvalue"]+feats["inst/insertvalue"]+feats["term/invoke"]+feats["inst/icmp"]+feats["inst/fcmp"] > 0 {
				hx.NonTrivial(m.Text())
			}
		}
		hx.SampleCase(test, m.Text())
	})
}

func TestNamedScalarAndVectorTypes(t *testing.T) {
	const test = "NamedScalarAndVectorTypes"
	hx.Rule(test, "generated modules whose text spells scalar types through alias chains (`%$al1.i32 = type i32`) and vector types through named aliases (`%$v0 = type <4 x i32>`), the legacy non-struct named types LLVM reads as the type itself. Gate: llvm-as accepts the text, the parser accepts it, llvm-as accepts the printed output (which validates every type the parser attached). Oracle: parser type = IR recomputation = constructor type for every instruction / gep / constant expression, compared by Equal and by spelling; non-trivial = module with at least one recomputed type")
	hx.Check(t, test, hx.N(120, 4000), func(rt *rapid.T) {
		cfg := gen.DefaultCfg()
		cfg.GEPBias = false
		cfg.MaxInsts = 10
		cfg.Off = map[string]bool{"retattr-align": true, "freeze-metadata": true}
		m, _ := gen.Module(rt, cfg)
		noise := gen.DrawNoiseWithAliases(rt)
		noise.VecAlias, noise.FnAlias = true, false
		x := m.TextNoisy(noise)
		hx.Eval(1)
		hx.Trace(test, "ll", x)
		pm, err, p := lx.Parse(x)
		if err != nil || p != nil {
			msg := fmt.Sprint(err, " ", p)
			if strings.Contains(strings.ToLower(msg), "type") && llvmx.Accept(x).OK {
				hx.Fail(rt, test, "ll", x, "the parser rejects a valid module over a type it computed itself: %.600s", msg)
			}
			hx.Discard("parser_does_not_accept(judged_by_C01)")
			return
		}
		fs, st := typing.SelfConsistent(pm, false)
		hx.HistN("named/types_recomputed_by_ir", st.Recomputed)
		out, pp := lx.Print(pm)
		if len(fs) > 0 {
			if pp != nil || !llvmx.Accept(x).OK {
				hx.Discard("violation_outside_domain(llvm_rejects_input)")
				return
			}
			var sb strings.Builder
			for _, f := range fs {
				fmt.Fprintf(&sb, "%s: %s\n", f.Where, f.Msg)
			}
			hx.Fail(rt, test, "ll", x, "%s", sb.String())
		}
		if pp == nil && st.Recomputed > 0 && rapid.IntRange(0, 3).Draw(rt, "validate") == 0 {
			if r := llvmx.Accept(out); !r.OK && !r.Crashed && llvmx.Accept(x).OK {
				hx.Fail(rt, test, "ll", x, "LLVM accepts the input but rejects the printed module (a type the parser attached is wrong): %.400s", r.Err)
			}
		}
		if st.Recomputed+st.Exprs > 0 {
			hx.NonTrivial(x)
		}
	})
}

func TestExternalCorpus(t *testing.T) {
	const test = "ExternalCorpus"
	hx.Rule(test, "real compiler output (clang-14 over corpus/src x flag sets: address spaces from OpenCL, vector and aggregate code, atomics, C++ and Objective-C object models) and rapid-mutated corpus texts, gated by 'LLVM accepts the input, the parser accepts it, LLVM accepts the printed output' (which validates every type the parser attached at every use): for every value-producing instruction, terminator and constant expression the type the parser attached must equal the type the IR library recomputes from the same operands after its cache is cleared, and geps must get the same type from the constructors; non-trivial = module with at least one recomputed type")
	judgeText := func(tb hx.TB, src, x string) {
		pm, err, p := lx.Parse(x)
		if err != nil || p != nil {
			hx.Discard("parser_does_not_accept(judged_by_C01)")
			return
		}
		fs, st := typing.SelfConsistent(pm, false)
		hx.HistN("external/instructions_compared", st.Insts)
		hx.HistN("external/types_recomputed_by_ir", st.Recomputed)
		hx.HistN("external/constant_expressions_compared", st.Exprs)
		if len(fs) > 0 {
			out, pp := lx.Print(pm)
			if pp != nil || !llvmx.Accept(x).OK || !llvmx.Accept(out).OK {
				hx.Discard("violation_outside_domain(llvm_rejects_input_or_output)")
				return
			}
			var sb strings.Builder
			for _, f := range fs {
				fmt.Fprintf(&sb, "%s: %s\n", f.Where, f.Msg)
			}
			hx.Fail(tb, test, "ll", "; source: "+src+"\n"+x, "%s", sb.String())
		}
		if st.Recomputed+st.Exprs > 0 {
			hx.NonTrivial(x)
		}
	}
	for i, c := range corpus.ClangCases() {
		if !hx.Mine(i) {
			continue
		}
		x := c.Text()
		if x == "" {
			hx.Discard("clang_rejects_combination")
			continue
		}
		hx.Eval(1)
		judgeText(t, "clang-14 "+c.Name(), x)
	}
	hx.Check(t, test, hx.N(60, 3000), func(rt *rapid.T) {
		x, desc, ok := mut.Valid(rt)
		if !ok {
			hx.Discard("mutated_text_not_valid_or_not_accepted")
			return
		}
		hx.Eval(1)
		judgeText(rt, desc, x)
	})
}

func TestReplay(t *testing.T) {
	path := os.Getenv("VERIF_REPLAY")
	if path == "" {
		t.Skip()
	}
	buf, err := os.ReadFile(path)
	if err != nil {
		t.Fatal(err)
	}
	if strings.HasSuffix(path, ".json") {
		var c recoveredCase
		if json.Unmarshal(buf, &c) == nil && c.Agg != nil {
			judgeRecovered(t, "Replay", c)
		}
		return
	}
	// without the abstract model only the internal agreement (parser cache == IR recomputation) and LLVM's verdict can be replayed
	x := string(buf)
	pm, err2, p := lx.Parse(x)
	if err2 != nil || p != nil {
		t.Logf("replay input is not parsed: %v %v", err2, p)
		return
	}
	empty := &am.Module{U: &am.Universe{}}
	fs, _ := typing.Compare(empty, pm, false)
	for _, f := range fs {
		if f.Where != "module" {
			hx.Fail(t, "Replay", "ll", x, "%s: %s", f.Where, f.Msg)
		}
	}
	if out, pp := lx.Print(pm); pp == nil {
		if r := llvmx.Accept(out); !r.OK && !r.Crashed && llvmx.Accept(x).OK {
			hx.Fail(t, "Replay", "ll", x, "LLVM rejects the printed module: %s", firstLine(r.Err))
		}
	}
}
