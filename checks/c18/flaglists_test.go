package c18

import (
	"fmt"
	"sort"
	"strings"
	"testing"

	"github.com/llir/llvm/ir"
	"github.com/llir/llvm/ir/enum"

	"verif/h/hx"
	"verif/h/llvmx"
	"verif/h/lx"
)

// TestFlagLists: keyword *lists* on one instruction. Fast-math flags and overflow flags may be written in
// any order and every keyword of the list must be mapped back to its value: all ordered pairs and all
// rotations of the full list on fadd, fcmp, select, call and phi, nuw/nsw in both orders with and without
// `exact` neighbours.
func TestFlagLists(t *testing.T) {
	const test = "FlagLists"
	hx.Rule(test, "fast-math flags (nnan ninf nsz arcp contract afn reassoc) as ordered pairs (all 42), all 7 rotations of the full list, the single keyword `fast`, on fadd, fneg, fcmp, select, phi and call; overflow flags `nuw nsw` / `nsw nuw` on add, sub, mul, shl; one module per instruction kind: the parsed instruction holds exactly the set of values written, the printed text is read back to the same sets, and llvm-as|llvm-dis reads the same module from the output (exhaustive over the listed combinations)")
	fm := []string{"nnan", "ninf", "nsz", "arcp", "contract", "afn", "reassoc"}
	var lists [][]string
	for _, a := range fm {
		for _, b := range fm {
			if a != b {
				lists = append(lists, []string{a, b})
			}
		}
	}
	for r := range fm {
		lists = append(lists, append(append([]string{}, fm[r:]...), fm[:r]...))
	}
	lists = append(lists, []string{"fast"})
	kinds := []struct{ name, tmpl string }{
		{"fadd", "  %%r = fadd %s float %%x, %%y\n  ret float %%r\n"},
		{"fneg", "  %%r = fneg %s float %%x\n  ret float %%r\n"},
		{"fcmp", "  %%c = fcmp %s olt float %%x, %%y\n  %%r = select i1 %%c, float %%x, float %%y\n  ret float %%r\n"},
		{"select", "  %%r = select %s i1 true, float %%x, float %%y\n  ret float %%r\n"},
		{"call", "  %%r = call %s float @g(float %%x)\n  ret float %%r\n"},
		{"phi", "  br label %%b\nb:\n  %%r = phi %s float [ %%x, %%0 ]\n  ret float %%r\n"},
	}
	nk := 0
	for _, k := range kinds {
		nk++
		if !hx.Mine(nk) {
			continue
		}
		var sb strings.Builder
		sb.WriteString("declare float @g(float)\n")
		for i, l := range lists {
			fmt.Fprintf(&sb, "define float @f%d(float %%x, float %%y) {\n", i)
			fmt.Fprintf(&sb, k.tmpl, strings.Join(l, " "))
			sb.WriteString("}\n")
		}
		x := sb.String()
		checkLists(t, test, k.name, x, lists, func(f *ir.Func) []string { return fastMathOf(f) })
	}
	// overflow flags
	for _, op := range []string{"add", "sub", "mul", "shl"} {
		nk++
		if !hx.Mine(nk) {
			continue
		}
		ol := [][]string{{"nuw", "nsw"}, {"nsw", "nuw"}, {"nuw"}, {"nsw"}}
		var sb strings.Builder
		for i, l := range ol {
			fmt.Fprintf(&sb, "define i32 @f%d(i32 %%x, i32 %%y) {\n  %%r = %s %s i32 %%x, %%y\n  ret i32 %%r\n}\n", i, op, strings.Join(l, " "))
		}
		checkLists(t, test, op, sb.String(), ol, func(f *ir.Func) []string { return overflowOf(f) })
	}
	hx.Exhaustive(test, true)
}

func sortedCopy(l []string) []string {
	c := append([]string{}, l...)
	sort.Strings(c)
	return c
}

func checkLists(t *testing.T, test, kind, x string, lists [][]string, flagsOf func(*ir.Func) []string) {
	c := "; instruction kind: " + kind + "\n" + x
	if r := llvmx.Accept(x); !r.OK {
		if !r.Crashed {
			hx.Discard("llvm_rejects_the_template(" + kind + ")")
		}
		return
	}
	m, err, p := lx.Parse(x)
	if err != nil || p != nil {
		hx.Fail(t, test, "ll", c, "the parser rejects a module LLVM accepts: %v %s", err, p)
	}
	defs := func(m *ir.Module) []*ir.Func {
		var out []*ir.Func
		for _, f := range m.Funcs {
			if len(f.Blocks) > 0 {
				out = append(out, f)
			}
		}
		return out
	}
	compare := func(m *ir.Module, stage string) {
		fs := defs(m)
		if len(fs) != len(lists) {
			hx.Fail(t, test, "ll", c, "%s: %d function definitions, want %d", stage, len(fs), len(lists))
		}
		for i, f := range fs {
			got, want := sortedCopy(flagsOf(f)), sortedCopy(lists[i])
			if strings.Join(got, " ") != strings.Join(want, " ") {
				hx.Fail(t, test, "ll", c, "%s: %s written with the keyword list `%s` holds the values {%s}: a keyword of the list is not mapped back to its value", stage, kind, strings.Join(lists[i], " "), strings.Join(got, " "))
			}
			hx.Eval(1)
			hx.NonTrivial(kind + "/" + strings.Join(lists[i], " "))
		}
	}
	compare(m, "parsed")
	y, pp := lx.Print(m)
	if pp != nil {
		hx.Fail(t, test, "ll", c, "printing panics: %s", pp)
	}
	m2, err2, p2 := lx.Parse(y)
	if err2 != nil || p2 != nil {
		hx.Fail(t, test, "ll", c, "the printed module is not accepted by the parser: %v %s", err2, p2)
	}
	compare(m2, "printed and parsed again")
	rx, ry := llvmx.Canon(x), llvmx.Canon(y)
	if rx.OK && !ry.Crashed && (!ry.OK || llvmx.Normalize(rx.Out) != llvmx.Normalize(ry.Out)) {
		hx.Fail(t, test, "ll", c, "LLVM reads other flags from the printed module than from the input:\n%s", llvmx.Diff(llvmx.Normalize(rx.Out), llvmx.Normalize(ry.Out)))
	}
}

func fmStrings(fs []enum.FastMathFlag) []string {
	var out []string
	for _, f := range fs {
		out = append(out, f.String())
	}
	return out
}

// fastMathOf returns the fast-math flags of the first instruction of f that carries any.
func fastMathOf(f *ir.Func) []string {
	for _, b := range f.Blocks {
		for _, in := range b.Insts {
			switch in := in.(type) {
			case *ir.InstFAdd:
				return fmStrings(in.FastMathFlags)
			case *ir.InstFNeg:
				return fmStrings(in.FastMathFlags)
			case *ir.InstFCmp:
				return fmStrings(in.FastMathFlags)
			case *ir.InstSelect:
				return fmStrings(in.FastMathFlags)
			case *ir.InstCall:
				return fmStrings(in.FastMathFlags)
			case *ir.InstPhi:
				return fmStrings(in.FastMathFlags)
			}
		}
	}
	return nil
}

func overflowOf(f *ir.Func) []string {
	conv := func(fs []enum.OverflowFlag) []string {
		var out []string
		for _, f := range fs {
			out = append(out, f.String())
		}
		return out
	}
	for _, b := range f.Blocks {
		for _, in := range b.Insts {
			switch in := in.(type) {
			case *ir.InstAdd:
				return conv(in.OverflowFlags)
			case *ir.InstSub:
				return conv(in.OverflowFlags)
			case *ir.InstMul:
				return conv(in.OverflowFlags)
			case *ir.InstShl:
				return conv(in.OverflowFlags)
			}
		}
	}
	return nil
}
