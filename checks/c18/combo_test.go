package c18

import (
	"fmt"
	"reflect"
	"strings"
	"testing"

	"github.com/llir/llvm/ir"

	"verif/h/hx"
	"verif/h/llvmx"
	"verif/h/lx"
)

// header keyword families in the order the grammar wants them
var (
	comboLinkageDef  = []string{"", "private", "internal", "available_externally", "linkonce", "linkonce_odr", "weak", "weak_odr", "common", "appending", "external"}
	comboLinkageDecl = []string{"", "external", "extern_weak"}
	comboPreemption  = []string{"", "dso_local", "dso_preemptable"}
	comboVisibility  = []string{"", "default", "hidden", "protected"}
	comboDLL         = []string{"", "dllimport", "dllexport"}
	comboTLS         = []string{"", "thread_local", "thread_local(localdynamic)", "thread_local(initialexec)", "thread_local(localexec)"}
	comboUnnamed     = []string{"", "unnamed_addr", "local_unnamed_addr"}
)

type headerVals struct{ Linkage, Preemption, Visibility, DLL, TLS, Unnamed string }

func headerOf(v any) headerVals {
	rv := reflect.ValueOf(v).Elem()
	get := func(name string) string {
		f := rv.FieldByName(name)
		if !f.IsValid() {
			return "-"
		}
		return fmt.Sprint(f.Interface())
	}
	return headerVals{get("Linkage"), get("Preemption"), get("Visibility"), get("DLLStorageClass"), get("TLSModel"), get("UnnamedAddr")}
}

func entity(m *ir.Module, kind string) any {
	switch kind {
	case "global", "global-decl":
		for _, g := range m.Globals {
			if g.Name() == "x" {
				return g
			}
		}
	case "define", "declare":
		for _, f := range m.Funcs {
			if f.Name() == "x" {
				return f
			}
		}
	case "alias":
		if len(m.Aliases) > 0 {
			return m.Aliases[0]
		}
	case "ifunc":
		if len(m.IFuncs) > 0 {
			return m.IFuncs[0]
		}
	}
	return nil
}

func join(parts ...string) string {
	var out []string
	for _, p := range parts {
		if p != "" {
			out = append(out, p)
		}
	}
	return strings.Join(out, " ")
}

// TestKeywordCombinations: the header keywords of one entity together. A keyword must map back to the
// value that printed it whatever its neighbours are (LLVM itself drops dso_local where it is implied;
// the library has no such rule: what the parser read is what a second parse of the output must read).
func TestKeywordCombinations(t *testing.T) {
	const test = "KeywordCombinations"
	hx.Rule(test, "every combination of linkage x preemption x visibility x DLL storage class (x TLS model x unnamed_addr on a rotating schedule) in the header of a global definition, global declaration, function definition, function declaration, alias and ifunc that llvm-as-14 accepts: each keyword is read as the value that prints it, the printed header parses back to the same six values, and LLVM reads input and output as the same module; distinct case = (entity kind, combination)")
	type tmpl struct {
		kind    string
		linkage []string
		tls     bool
		unnamed bool
		text    func(hdr, tls, un string) string
	}
	tmpls := []tmpl{
		{"global", comboLinkageDef, true, true, func(h, tls, un string) string {
			init := "0"
			ty := "i32"
			if strings.Contains(h, "appending") {
				ty, init = "[1 x i32]", "zeroinitializer"
			}
			if strings.Contains(h, "common") {
				init = "0"
			}
			return "@x = " + join(h, tls, un, "global", ty, init) + "\n"
		}},
		{"global-decl", comboLinkageDecl[1:], true, true, func(h, tls, un string) string { return "@x = " + join(h, tls, un, "global i32") + "\n" }},
		{"define", comboLinkageDef, false, true, func(h, _, un string) string {
			return join("define", h, "void @x()", un) + " {\n  ret void\n}\n"
		}},
		{"declare", comboLinkageDecl, false, true, func(h, _, un string) string { return join("declare", h, "void @x()", un) + "\n" }},
		{"alias", comboLinkageDef, true, true, func(h, tls, un string) string {
			return "@t = global i32 0\n@a = " + join(h, tls, un, "alias i32, i32* @t") + "\n"
		}},
		{"ifunc", comboLinkageDef, false, false, func(h, _, _ string) string {
			return "@i = " + join(h, "ifunc void (), void ()* ()* @r") + "\ndefine void ()* @r() {\n  ret void ()* null\n}\n"
		}},
	}
	idx := 0
	for _, tm := range tmpls {
		for _, l := range tm.linkage {
			for _, p := range comboPreemption {
				for _, v := range comboVisibility {
					for _, d := range comboDLL {
						idx++
						if !hx.Mine(idx) {
							continue
						}
						tls, un := "", ""
						if tm.tls {
							tls = comboTLS[idx%len(comboTLS)]
						}
						if tm.unnamed {
							un = comboUnnamed[(idx/5)%len(comboUnnamed)]
						}
						hdr := join(l, p, v, d)
						x := tm.text(hdr, tls, un)
						hx.Eval(1)
						if !llvmx.Accept(x).OK {
							hx.Discard("llvm14_rejects_combination")
							continue
						}
						c := fmt.Sprintf("; %s: %s %s %s\n%s", tm.kind, hdr, tls, un, x)
						m, err, pp := lx.Parse(x)
						if err != nil || pp != nil {
							hx.Fail(t, test, "ll", c, "the parser rejects a header LLVM accepts: %v %v", err, pp)
						}
						e := entity(m, tm.kind)
						if e == nil {
							hx.Fail(t, test, "ll", c, "the parsed module has no %s", tm.kind)
						}
						got := headerOf(e)
						want := func(kw, none string) string {
							if kw == "" {
								return none
							}
							if strings.HasPrefix(kw, "thread_local(") {
								return strings.TrimSuffix(strings.TrimPrefix(kw, "thread_local("), ")")
							}
							if kw == "thread_local" {
								return "generic"
							}
							return kw
						}
						exp := headerVals{want(l, got.Linkage), want(p, "none"), want(v, "none"), want(d, "none"), want(tls, "none"), want(un, "none")}
						if !tm.tls {
							exp.TLS = got.TLS
						}
						if !tm.unnamed {
							exp.Unnamed = got.Unnamed
						}
						if got != exp {
							hx.Fail(t, test, "ll", c, "%s header `%s`: the parser reads %+v, the keywords denote %+v", tm.kind, hdr, got, exp)
						}
						out, p2 := lx.Print(m)
						if p2 != nil {
							hx.Fail(t, test, "ll", c, "print panics: %s", p2)
						}
						m2, err2, p3 := lx.Parse(out)
						if err2 != nil || p3 != nil {
							hx.Fail(t, test, "ll", c, "the printed module is not accepted by the parser: %v %v\n%s", err2, p3, out)
						}
						e2 := entity(m2, tm.kind)
						if e2 == nil {
							hx.Fail(t, test, "ll", c, "the re-parsed module has no %s\n%s", tm.kind, out)
						}
						if got2 := headerOf(e2); got2 != got {
							hx.Fail(t, test, "ll", c, "%s header `%s`: values %+v become %+v through print and parse (a keyword is not printed, or not read back, next to these neighbours)\n%s", tm.kind, hdr, got, got2, out)
						}
						rx, ry := llvmx.Canon(x), llvmx.Canon(out)
						if rx.Crashed || ry.Crashed {
							hx.Discard("oracle_unavailable")
							continue
						}
						if !ry.OK {
							hx.Fail(t, test, "ll", c, "LLVM accepts the input but rejects the output: %s\n%s", ry.Err, out)
						}
						if a, b := llvmx.Normalize(rx.Out), llvmx.Normalize(ry.Out); a != b {
							hx.Fail(t, test, "ll", c, "LLVM reads input and output differently:\n%s", llvmx.Diff(a, b))
						}
						hx.NonTrivial(tm.kind + "/" + hdr + "/" + tls + "/" + un)
						hx.Hist("combination/" + tm.kind)
					}
				}
			}
		}
	}
	hx.Exhaustive(test, true)
}
