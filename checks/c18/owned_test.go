package c18

import (
	"fmt"
	"reflect"
	"strings"
	"testing"

	"github.com/llir/llvm/ir"

	"verif/h/hx"
	"verif/h/lx"
)

// TestParsedListsBelongToTheCaller: a keyword list of a parsed module is the caller's: a flag or an attribute
// is added to it the way Go adds to a slice (`inst.FastMathFlags = append(inst.FastMathFlags, enum.FastMathFlagNSZ)`).
// Afterwards every keyword of the family must still be read as the value it was read as before, in a new parse
// and in modules that were parsed earlier, and must still be printed as the keyword it was printed as.
func TestParsedListsBelongToTheCaller(t *testing.T) {
	const test = "ParsedListsBelongToTheCaller"
	hx.Rule(test, "families of keyword lists: fast-math flags on fadd, fcmp, call and select; overflow flags on add and shl; function attributes of definitions and of call sites; parameter attributes; return attributes. For every keyword v of a family a module with the one-element list [v] is parsed; for every other keyword x of the family (all pairs) the value of x is appended to the list through the exported field; then (1) the edited module prints both keywords, (2) for every keyword w of the family a new parse of [w] holds exactly the value first read for w and prints the text first printed for it, (3) modules parsed before the edit still hold and print what they held (exhaustive over the listed families and pairs)")
	fm := []string{"nnan", "ninf", "nsz", "arcp", "contract", "afn", "reassoc", "fast"}
	fattrs := []string{"nounwind", "readnone", "readonly", "noinline", "alwaysinline", "cold", "norecurse", "willreturn", "nofree", "nosync", "mustprogress", "optsize", "minsize", "ssp", "uwtable", "noreturn", "hot", "naked"}
	pattrs := []string{"zeroext", "signext", "inreg", "noundef"}
	firstInst := func(m *ir.Module) any { return m.Funcs[len(m.Funcs)-1].Blocks[0].Insts[0] }
	fams := []struct {
		name, tmpl, field string
		kws               []string
		target            func(m *ir.Module) any
	}{
		{"fast-math/fadd", "define float @f(float %%x) {\n  %%r = fadd %s float %%x, %%x\n  ret float %%r\n}\n", "FastMathFlags", fm, firstInst},
		{"fast-math/fcmp", "define i1 @f(float %%x) {\n  %%r = fcmp %s olt float %%x, %%x\n  ret i1 %%r\n}\n", "FastMathFlags", fm, firstInst},
		{"fast-math/call", "declare float @g(float)\ndefine float @f(float %%x) {\n  %%r = call %s float @g(float %%x)\n  ret float %%r\n}\n", "FastMathFlags", fm, firstInst},
		{"fast-math/select", "define float @f(float %%x) {\n  %%r = select %s i1 true, float %%x, float %%x\n  ret float %%r\n}\n", "FastMathFlags", fm, firstInst},
		{"overflow/add", "define i32 @f(i32 %%x) {\n  %%r = add %s i32 %%x, %%x\n  ret i32 %%r\n}\n", "OverflowFlags", []string{"nuw", "nsw"}, firstInst},
		{"overflow/shl", "define i32 @f(i32 %%x) {\n  %%r = shl %s i32 %%x, %%x\n  ret i32 %%r\n}\n", "OverflowFlags", []string{"nuw", "nsw"}, firstInst},
		{"function-attributes/definition", "define void @f() %s {\n  ret void\n}\n", "FuncAttrs", fattrs, func(m *ir.Module) any { return m.Funcs[0] }},
		{"function-attributes/call-site", "declare void @g()\ndefine void @f() {\n  call void @g() %s\n  ret void\n}\n", "FuncAttrs", fattrs, firstInst},
		{"parameter-attributes", "define void @f(i32 %s %%a) {\n  ret void\n}\n", "Attrs", pattrs, func(m *ir.Module) any { return m.Funcs[0].Params[0] }},
		{"return-attributes", "define %s i32 @f() {\n  ret i32 0\n}\n", "ReturnAttrs", pattrs, func(m *ir.Module) any { return m.Funcs[0] }},
	}
	for fi, fam := range fams {
		if !hx.Mine(fi) {
			continue
		}
		text := func(kw string) string { return fmt.Sprintf(fam.tmpl, kw) }
		list := func(m *ir.Module) reflect.Value {
			return reflect.ValueOf(fam.target(m)).Elem().FieldByName(fam.field)
		}
		parse := func(kw string) *ir.Module {
			m, err, p := lx.Parse(text(kw))
			if err != nil || p != nil {
				t.Fatalf("%s: %q is not accepted: %v %v", fam.name, text(kw), err, p)
			}
			return m
		}
		vals := map[string]any{}
		prints := map[string]string{}
		early := map[string]*ir.Module{}
		for _, kw := range fam.kws {
			m := parse(kw)
			l := list(m)
			if !l.IsValid() || l.Len() != 1 {
				t.Fatalf("%s: the list %s of %q has not one element", fam.name, fam.field, text(kw))
			}
			vals[kw] = l.Index(0).Interface()
			prints[kw], _ = lx.Print(m)
			early[kw] = m
		}
		verify := func(ctx string) {
			for _, w := range fam.kws {
				for how, m := range map[string]*ir.Module{"a new parse": parse(w), "the module parsed before the edit": early[w]} {
					l := list(m)
					if l.Len() != 1 || !reflect.DeepEqual(l.Index(0).Interface(), vals[w]) {
						hx.Fail(t, test, "txt", ctx+text(w), "%s%s of the keyword %q holds %v; it was read as [%v] before the edit", ctx, how, w, l.Interface(), vals[w])
					}
					if s, _ := lx.Print(m); s != prints[w] {
						hx.Fail(t, test, "txt", ctx+text(w), "%s%s of the keyword %q prints\n%s\nbefore the edit it printed\n%s", ctx, how, w, s, prints[w])
					}
				}
			}
		}
		for _, v := range fam.kws {
			for _, x := range fam.kws {
				if x == v {
					continue
				}
				m := parse(v)
				l := list(m)
				l.Set(reflect.Append(l, reflect.ValueOf(vals[x])))
				ctx := fmt.Sprintf("family %s: parsed [%s], appended the value of %q to %s through the exported field\n", fam.name, v, x, fam.field)
				out, pp := lx.Print(m)
				if pp != nil || !strings.Contains(out, v) || !strings.Contains(out, x) {
					hx.Fail(t, test, "txt", ctx+text(v), "%sthe edited module does not print both keywords (%v)\n%s", ctx, pp, out)
				}
				verify(ctx)
				hx.Eval(1)
				hx.NonTrivial(fam.name + v + x)
				hx.Hist("family/" + fam.name)
			}
		}
	}
	hx.Exhaustive(test, true)
}
