package c18

import (
	"fmt"
	"reflect"
	"sort"
	"strings"
	"testing"

	"github.com/llir/llvm/ir"
	"github.com/llir/llvm/ir/enum"
	"github.com/llir/llvm/ir/metadata"
	irtypes "github.com/llir/llvm/ir/types"
	"pgregory.net/rapid"

	"verif/h/hx"
	"verif/h/kf"
	"verif/h/llvmx"
	"verif/h/lx"
	"verif/h/walk"
)

// family places a keyword at its grammatical position in a minimal module.
type family struct {
	name  string
	typ   reflect.Type
	tmpls []func(kw string) string // alternatives; the first one LLVM accepts (or the first) is used
	skip  func(kw string) bool     // keywords that have no grammatical position of their own
}

func fn(format string) func(string) string {
	return func(kw string) string { return strings.ReplaceAll(format, "KW", kw) }
}

var families = []family{
	{name: "Linkage", typ: reflect.TypeOf(enum.Linkage(0)), tmpls: []func(string) string{
		fn("@g = KW global i32 0\n"), fn("@g = KW global i32\n"), fn("@g = KW global [1 x i32] zeroinitializer\n")},
		skip: func(kw string) bool { return kw == "none" }},
	{name: "Preemption", typ: reflect.TypeOf(enum.Preemption(0)), tmpls: []func(string) string{fn("@g = KW global i32 0\n")},
		skip: func(kw string) bool { return kw == "none" }},
	{name: "Visibility", typ: reflect.TypeOf(enum.Visibility(0)), tmpls: []func(string) string{fn("@g = KW global i32 0\n")},
		skip: func(kw string) bool { return kw == "none" }},
	{name: "DLLStorageClass", typ: reflect.TypeOf(enum.DLLStorageClass(0)), tmpls: []func(string) string{
		fn("@g = KW global i32 0\n"), fn("@g = external KW global i32\n")},
		skip: func(kw string) bool { return kw == "none" }},
	{name: "TLSModel", typ: reflect.TypeOf(enum.TLSModel(0)), tmpls: []func(string) string{
		func(kw string) string {
			if kw == "generic" {
				return "@g = thread_local global i32 0\n"
			}
			return "@g = thread_local(" + kw + ") global i32 0\n"
		}}, skip: func(kw string) bool { return kw == "none" }},
	{name: "UnnamedAddr", typ: reflect.TypeOf(enum.UnnamedAddr(0)), tmpls: []func(string) string{fn("@g = KW global i32 0\n")},
		skip: func(kw string) bool { return kw == "none" }},
	{name: "CallingConv", typ: reflect.TypeOf(enum.CallingConv(0)), tmpls: []func(string) string{fn("declare KW void @f()\n")},
		skip: func(kw string) bool { return kw == "none" }},
	{name: "IPred", typ: reflect.TypeOf(enum.IPred(0)), tmpls: []func(string) string{
		fn("define i1 @f(i32 %a, i32 %b) {\n\t%r = icmp KW i32 %a, %b\n\tret i1 %r\n}\n")}},
	{name: "FPred", typ: reflect.TypeOf(enum.FPred(0)), tmpls: []func(string) string{
		fn("define i1 @f(float %a, float %b) {\n\t%r = fcmp KW float %a, %b\n\tret i1 %r\n}\n")}},
	{name: "AtomicOrdering", typ: reflect.TypeOf(enum.AtomicOrdering(0)), tmpls: []func(string) string{
		fn("define void @f(i32* %p) {\n\tfence KW\n\tret void\n}\n"),
		fn("define i32 @f(i32* %p) {\n\t%v = load atomic i32, i32* %p KW, align 4\n\tret i32 %v\n}\n")},
		skip: func(kw string) bool { return kw == "none" }},
	{name: "AtomicOp", typ: reflect.TypeOf(enum.AtomicOp(0)), tmpls: []func(string) string{
		fn("define void @f(i32* %p) {\n\t%v = atomicrmw KW i32* %p, i32 1 seq_cst\n\tret void\n}\n"),
		fn("define void @f(float* %p) {\n\t%v = atomicrmw KW float* %p, float 1.0 seq_cst\n\tret void\n}\n")}},
	{name: "FastMathFlag", typ: reflect.TypeOf(enum.FastMathFlag(0)), tmpls: []func(string) string{
		fn("define float @f(float %a, float %b) {\n\t%r = fadd KW float %a, %b\n\tret float %r\n}\n")}},
	{name: "OverflowFlag", typ: reflect.TypeOf(enum.OverflowFlag(0)), tmpls: []func(string) string{
		fn("define i32 @f(i32 %a, i32 %b) {\n\t%r = add KW i32 %a, %b\n\tret i32 %r\n}\n")}},
	{name: "FuncAttr", typ: reflect.TypeOf(enum.FuncAttr(0)), tmpls: []func(string) string{fn("declare void @f() KW\n")}},
	{name: "ParamAttr", typ: reflect.TypeOf(enum.ParamAttr(0)), tmpls: []func(string) string{
		fn("declare void @f(i32* KW)\n"), fn("declare void @f(i32 KW)\n"), fn("declare void @f(i32** KW)\n"), fn("declare void @llvm.foo(i32 KW)\n")}},
	{name: "ReturnAttr", typ: reflect.TypeOf(enum.ReturnAttr(0)), tmpls: []func(string) string{
		fn("declare KW i32* @f()\n"), fn("declare KW i32 @f()\n")}},
	{name: "Tail", typ: reflect.TypeOf(enum.Tail(0)), tmpls: []func(string) string{
		fn("declare void @g()\n\ndefine void @f() {\n\tKW call void @g()\n\tret void\n}\n")},
		skip: func(kw string) bool { return kw == "none" }},
	{name: "SelectionKind", typ: reflect.TypeOf(enum.SelectionKind(0)), tmpls: []func(string) string{
		fn("$c = comdat KW\n\n@c = global i32 0, comdat\n")}},
	{name: "ClauseType", typ: reflect.TypeOf(enum.ClauseType(0)), tmpls: []func(string) string{
		func(kw string) string {
			ty := "i8* null"
			if kw == "filter" {
				ty = "[1 x i8*] zeroinitializer"
			}
			return "declare i32 @p(...)\n\ndeclare void @g()\n\ndefine void @f() personality i32 (...)* @p {\n\tinvoke void @g()\n\t\tto label %ok unwind label %lp\n\nok:\n\tret void\n\nlp:\n\t%l = landingpad { i8*, i32 }\n\t\t" + kw + " " + ty + "\n\tret void\n}\n"
		}}},
	{name: "SanitizerKind", typ: reflect.TypeOf(enum.SanitizerKind(0)), tmpls: []func(string) string{fn("@g = global i32 0, KW\n")},
		skip: func(kw string) bool { return kw == "none" }},
	{name: "UnwindTableKind", typ: reflect.TypeOf(enum.UnwindTableKind(0)), tmpls: []func(string) string{fn("declare void @f() uwtable(KW)\n")},
		skip: func(kw string) bool { return kw == "none" }},
	{name: "AllocKind", typ: reflect.TypeOf(enum.AllocKind(0)), tmpls: []func(string) string{fn("declare void @f() allockind(\"KW\")\n")}},
	{name: "FloatKind", typ: reflect.TypeOf(irtypes.FloatKind(0)), tmpls: []func(string) string{fn("@g = external global KW\n")}},
	{name: "DwarfTag", typ: reflect.TypeOf(enum.DwarfTag(0)), tmpls: []func(string) string{fn("!nm = !{!0}\n!0 = !GenericDINode(tag: KW)\n")}},
	{name: "DwarfLang", typ: reflect.TypeOf(enum.DwarfLang(0)), tmpls: []func(string) string{
		fn("!llvm.dbg.cu = !{!0}\n!0 = distinct !DICompileUnit(language: KW, file: !1)\n!1 = !DIFile(filename: \"a\", directory: \"b\")\n")}},
	{name: "DwarfAttEncoding", typ: reflect.TypeOf(enum.DwarfAttEncoding(0)), tmpls: []func(string) string{
		fn("!nm = !{!0}\n!0 = !DIBasicType(name: \"x\", size: 8, encoding: KW)\n")}},
	{name: "DwarfOp", typ: reflect.TypeOf(enum.DwarfOp(0)), tmpls: []func(string) string{fn("!nm = !{!0}\n!0 = !DIExpression(KW)\n")}},
	{name: "DwarfCC", typ: reflect.TypeOf(enum.DwarfCC(0)), tmpls: []func(string) string{
		fn("!nm = !{!0}\n!0 = !DISubroutineType(cc: KW, types: !1)\n!1 = !{null}\n")}},
	{name: "DwarfVirtuality", typ: reflect.TypeOf(enum.DwarfVirtuality(0)), tmpls: []func(string) string{
		fn("!nm = !{!0}\n!0 = !DISubprogram(name: \"f\", virtuality: KW)\n")}},
	{name: "EmissionKind", typ: reflect.TypeOf(enum.EmissionKind(0)), tmpls: []func(string) string{
		fn("!llvm.dbg.cu = !{!0}\n!0 = distinct !DICompileUnit(language: DW_LANG_C99, file: !1, emissionKind: KW)\n!1 = !DIFile(filename: \"a\", directory: \"b\")\n")}},
	{name: "NameTableKind", typ: reflect.TypeOf(enum.NameTableKind(0)), tmpls: []func(string) string{
		fn("!llvm.dbg.cu = !{!0}\n!0 = distinct !DICompileUnit(language: DW_LANG_C99, file: !1, nameTableKind: KW)\n!1 = !DIFile(filename: \"a\", directory: \"b\")\n")}},
	{name: "ChecksumKind", typ: reflect.TypeOf(enum.ChecksumKind(0)), tmpls: []func(string) string{
		fn("!nm = !{!0}\n!0 = !DIFile(filename: \"a\", directory: \"b\", checksumkind: KW, checksum: \"00000000000000000000000000000000\")\n")}},
	{name: "DwarfMacinfo", typ: reflect.TypeOf(enum.DwarfMacinfo(0)), tmpls: []func(string) string{
		fn("!nm = !{!0}\n!0 = !DIMacro(type: KW, line: 1, name: \"x\")\n")}},
	{name: "DIFlag", typ: reflect.TypeOf(enum.DIFlag(0)), tmpls: []func(string) string{
		fn("!nm = !{!0}\n!0 = !DIBasicType(name: \"x\", flags: KW)\n")}},
	{name: "DISPFlag", typ: reflect.TypeOf(enum.DISPFlag(0)), tmpls: []func(string) string{
		fn("!nm = !{!0}\n!0 = !DISubprogram(name: \"f\", spFlags: KW)\n")}},
}

func asU64(v reflect.Value) uint64 {
	switch v.Kind() {
	case reflect.Int, reflect.Int8, reflect.Int16, reflect.Int32, reflect.Int64:
		return uint64(v.Int())
	default:
		return v.Uint()
	}
}

// enumValues returns all values of type t in the module.
func enumValues(m *ir.Module, t reflect.Type) []uint64 {
	vals, _ := walk.CollectOfType(m, t)
	var out []uint64
	for _, v := range vals {
		out = append(out, asU64(v))
	}
	return out
}

// holds reports whether the module carries value want (and no other non-zero value) of the type.
func holds(vals []uint64, want uint64) bool {
	found := false
	for _, v := range vals {
		if v == want {
			found = true
		} else if v != 0 {
			return false
		}
	}
	return found
}

func TestKeywordInModule(t *testing.T) {
	const test = "KeywordInModule"
	hx.Rule(test, "each keyword of each family placed at its grammatical position in a minimal module: the parsed module carries exactly the value that prints this keyword, print→parse keeps it, and when llvm-as-14 accepts the input it accepts llir's output and reads the same canonical module; distinct case = (family, keyword)")
	hx.Note("LLVM 14 is the external oracle: keywords it does not know (LLVM 15 additions such as allockind, uwtable(sync), sanitizer kinds) and DI values its verifier rejects are checked by llir's own parse→print→parse round trip only")
	decls := readDecls(t)
	idx := 0
	for _, fam := range families {
		var d *desc
		for i := range descs {
			if descs[i].name == fam.name {
				d = &descs[i]
			}
		}
		if d == nil {
			t.Fatalf("no desc for %s", fam.name)
		}
		for _, v := range values(*d, decls[fam.name]) {
			kw := d.str(v)
			if fam.skip != nil && fam.skip(kw) {
				continue
			}
			idx++
			if !hx.Mine(idx) {
				continue
			}
			// choose template: first that LLVM accepts, else first that llir parses.
			var input string
			llvmOK := false
			for _, tm := range fam.tmpls {
				x := tm(kw)
				if r := llvmx.Accept(x); r.OK {
					input, llvmOK = x, true
					break
				}
			}
			if input == "" {
				for _, tm := range fam.tmpls {
					x := tm(kw)
					if m, err, p := lx.Parse(x); m != nil && err == nil && p == nil {
						input = x
						break
					}
				}
			}
			if input == "" {
				input = fam.tmpls[0](kw)
			}
			hx.Eval(1)
			hx.Hist("family/" + fam.name)
			if llvmOK {
				hx.Hist("llvm_accepts_input")
			} else {
				hx.Discard("llvm14_rejects_input(llir_round_trip_only)")
			}
			c := fmt.Sprintf("; %s %d %q\n%s", fam.name, v, kw, input)
			if idx%50 == 0 {
				hx.SampleCase(test, c)
			}
			out, m, err, p := lx.ParsePrint(input)
			if p != nil {
				hx.Fail(t, test, "ll", c, "%s keyword %q: parse/print panics: %s", fam.name, kw, p)
			}
			if err != nil {
				if !llvmOK {
					hx.Discard("rejected_by_both")
					continue
				}
				hx.Fail(t, test, "ll", c, "%s keyword %q (printed by value %d) is rejected by the parser although LLVM accepts the module: %v", fam.name, kw, v, err)
			}
			hx.NonTrivial(fam.name + "/" + kw)
			got := enumValues(m, fam.typ)
			alt := len(got) == 0
			if alt {
				// The parser is free to represent the keyword by another Go type (uwtable is
				// read as ir.UnwindTable{}); then only the textual and LLVM round trips are judged.
				hx.Hist("alternative_representation/" + fam.name + "/" + kw)
			} else if !holds(got, v) {
				hx.Fail(t, test, "ll", c, "%s keyword %q: parsed module holds values %v, want exactly %d", fam.name, kw, got, v)
			}
			m2, err2, p2 := lx.Parse(out)
			if p2 != nil || err2 != nil {
				hx.Fail(t, test, "ll", c, "%s keyword %q: printed module is not accepted by the parser: %v %s\n%s", fam.name, kw, err2, p2, out)
			}
			if got := enumValues(m2, fam.typ); !alt && !holds(got, v) {
				hx.Fail(t, test, "ll", c, "%s keyword %q: after print→parse the module holds %v, want %d\n%s", fam.name, kw, got, v, out)
			}
			if out2, p3 := lx.Print(m2); p3 != nil || out2 != out {
				hx.Fail(t, test, "ll", c, "%s keyword %q: print→parse→print is not stable: %s\n%s\n---\n%s", fam.name, kw, p3, out, out2)
			}
			if llvmOK {
				ry := llvmx.Canon(out)
				rx := llvmx.Canon(input)
				if ry.Crashed || rx.Crashed {
					hx.Discard("oracle_unavailable")
					continue
				}
				if !ry.OK {
					hx.Fail(t, test, "ll", c, "%s keyword %q: LLVM accepts the input but rejects llir's output: %s\n%s", fam.name, kw, ry.Err, out)
				}
				if a, b := llvmx.Normalize(rx.Out), llvmx.Normalize(ry.Out); a != b {
					hx.Fail(t, test, "ll", c, "%s keyword %q: LLVM reads input and output differently:\n%s", fam.name, kw, llvmx.Diff(a, b))
				}
			}
		}
	}
	hx.Exhaustive(test, true)
}

// flagMembers returns the declared single members of a flag type: constants
// that are not zero, not the First/Last aliases and not the documented masks.
func flagMembers(decls []declared) []declared {
	var out []declared
	seen := map[uint64]bool{}
	for _, c := range decls {
		if c.val == 0 || seen[c.val] {
			continue
		}
		n := c.ident
		if strings.HasSuffix(n, "First") || strings.HasSuffix(n, "Last") || n == "DIFlagAccessibility" || n == "DIFlagPtrToMemberRep" || n == "DISPFlagVirtuality" || n == "DIFlagIndirectVirtualBase" {
			continue
		}
		seen[c.val] = true
		out = append(out, c)
	}
	return out
}

type flagFam struct {
	name  string
	sep   string
	print func(v uint64) (string, *lx.Panic)           // printed member list for value v
	parse func(list string) (uint64, error, *lx.Panic) // value read from a member list in a module
}

func between(s, open, close string) string {
	i := strings.Index(s, open)
	if i < 0 {
		return ""
	}
	s = s[i+len(open):]
	j := strings.Index(s, close)
	if j < 0 {
		return s
	}
	return s[:j]
}

var flagFams = []flagFam{
	{name: "DIFlag", sep: " | ",
		print: func(v uint64) (s string, p *lx.Panic) {
			p = lx.Guard(func() {
				md := &metadata.DIBasicType{MetadataID: -1, Name: "x", Flags: enum.DIFlag(v)}
				s = between(md.LLString()+"\x00", "flags: ", ")\x00")
			})
			return
		},
		parse: func(list string) (uint64, error, *lx.Panic) {
			m, err, p := lx.Parse("!nm = !{!0}\n!0 = !DIBasicType(name: \"x\", flags: " + list + ")\n")
			if err != nil || p != nil {
				return 0, err, p
			}
			return uint64(m.MetadataDefs[0].(*metadata.DIBasicType).Flags), nil, nil
		}},
	{name: "DISPFlag", sep: " | ",
		print: func(v uint64) (s string, p *lx.Panic) {
			p = lx.Guard(func() {
				md := &metadata.DISubprogram{MetadataID: -1, Name: "f", SPFlags: enum.DISPFlag(v)}
				s = between(md.LLString()+"\x00", "spFlags: ", ")\x00")
			})
			return
		},
		parse: func(list string) (uint64, error, *lx.Panic) {
			m, err, p := lx.Parse("!nm = !{!0}\n!0 = !DISubprogram(name: \"f\", spFlags: " + list + ")\n")
			if err != nil || p != nil {
				return 0, err, p
			}
			return uint64(m.MetadataDefs[0].(*metadata.DISubprogram).SPFlags), nil, nil
		}},
	{name: "AllocKind", sep: ",",
		print: func(v uint64) (s string, p *lx.Panic) {
			p = lx.Guard(func() {
				s = between(ir.AllocKind{Kind: enum.AllocKind(v)}.String(), "allockind(\"", "\")")
			})
			return
		},
		parse: func(list string) (uint64, error, *lx.Panic) {
			m, err, p := lx.Parse("declare void @f() allockind(\"" + list + "\")\n")
			if err != nil || p != nil {
				return 0, err, p
			}
			for _, a := range m.Funcs[0].FuncAttrs {
				if ak, ok := a.(ir.AllocKind); ok {
					return uint64(ak.Kind), nil, nil
				}
				if ak, ok := a.(*ir.AllocKind); ok {
					return uint64(ak.Kind), nil, nil
				}
			}
			return 0, fmt.Errorf("no allockind attribute in parsed function"), nil
		}},
}

// checkFlagSet checks one subset (given as member indices) of a flag family.
func checkFlagSet(t hx.TB, test string, ff flagFam, members []declared, d *desc, pick []int) {
	var v uint64
	var names []string
	for _, i := range pick {
		v |= members[i].val
		names = append(names, d.str(members[i].val))
	}
	c := fmt.Sprintf("%s %#x = %s", ff.name, v, strings.Join(names, ff.sep))
	hx.Eval(1)
	hx.SampleCase(test, c)
	if len(pick) >= 2 {
		hx.NonTrivial(fmt.Sprintf("%s/%x", ff.name, v))
	}
	hx.Hist(fmt.Sprintf("%s/members=%d", ff.name, len(pick)))
	if v == 0 {
		return
	}
	// print direction: the printed members are exactly the members of the set.
	s, p := ff.print(v)
	if p != nil {
		hx.Fail(t, test, "txt", c, "printing %s value %#x panics: %s", ff.name, v, p)
	}
	var union uint64
	for _, kw := range strings.Split(s, ff.sep) {
		kw = strings.TrimSpace(kw)
		mv, pv := d.from(kw)
		if pv != nil {
			hx.Fail(t, test, "txt", c, "%s value %#x prints member %q, which is not a keyword of the type (printed list %q)", ff.name, v, kw, s)
		}
		if mv&^v != 0 {
			hx.Fail(t, test, "txt", c, "%s value %#x prints member %q (=%#x) that is not in the set (printed list %q)", ff.name, v, kw, mv, s)
		}
		union |= mv
	}
	if union != v {
		hx.Fail(t, test, "txt", c, "%s value %#x prints as %q, whose members only cover %#x: members %#x are dropped", ff.name, v, s, union, v&^union)
	}
	// parse direction: the list of member keywords denotes their union, and the printed list too.
	for _, list := range []string{strings.Join(names, ff.sep), s} {
		got, err, pp := ff.parse(list)
		if pp != nil || err != nil {
			hx.Fail(t, test, "txt", c, "%s member list %q is not parsed: %v %s", ff.name, list, err, pp)
		}
		if got != v {
			hx.Fail(t, test, "txt", c, "%s member list %q parses to %#x, want %#x", ff.name, list, got, v)
		}
	}
}

func TestFlagSets(t *testing.T) {
	const test = "FlagSets"
	hx.Rule(test, "subsets of the declared members of DIFlag, DISPFlag and AllocKind: all subsets of size<=2 (all sizes for AllocKind and DISPFlag) enumerated, larger ones drawn by rapid; a set prints as exactly its members (every printed keyword is a member, their union is the set) and member lists parse to the union; non-trivial = at least two members")
	decls := readDecls(t)
	n := 0
	for _, ff := range flagFams {
		var d *desc
		for i := range descs {
			if descs[i].name == ff.name {
				d = &descs[i]
			}
		}
		members := flagMembers(decls[ff.name])
		sort.Slice(members, func(i, j int) bool { return members[i].val < members[j].val })
		k := len(members)
		if k <= 12 {
			for mask := 1; mask < 1<<k; mask++ {
				n++
				if !hx.Mine(n) {
					continue
				}
				var pick []int
				for i := 0; i < k; i++ {
					if mask>>i&1 == 1 {
						pick = append(pick, i)
					}
				}
				checkFlagSet(t, test, ff, members, d, pick)
			}
			continue
		}
		for i := 0; i < k; i++ {
			for j := i; j < k; j++ {
				n++
				if !hx.Mine(n) {
					continue
				}
				if i == j {
					checkFlagSet(t, test, ff, members, d, []int{i})
				} else {
					checkFlagSet(t, test, ff, members, d, []int{i, j})
				}
			}
		}
	}
	hx.Exhaustive(test, true)
	// random larger subsets of DIFlag
	ff := flagFams[0]
	var d *desc
	for i := range descs {
		if descs[i].name == ff.name {
			d = &descs[i]
		}
	}
	members := flagMembers(decls[ff.name])
	sort.Slice(members, func(i, j int) bool { return members[i].val < members[j].val })
	hx.Check(t, test+"Random", hx.N(300, 200000), func(rt *rapid.T) {
		idx := make([]int, len(members))
		for i := range idx {
			idx[i] = i
		}
		pick := rapid.SliceOfNDistinct(rapid.SampledFrom(idx), 1, len(members), func(i int) int { return i }).Draw(rt, "members")
		sort.Ints(pick)
		checkFlagSet(rt, test, ff, members, d, pick)
	})
}

// TestNumericCallingConv: the numeric form `cc N` denotes calling convention N for every N
// (LLVM accepts 0..1023); parse→print must keep LLVM's reading of it.
func TestNumericCallingConv(t *testing.T) {
	const test = "NumericCallingConv"
	hx.Rule(test, "declare cc N void @f() for every N in 0..1023 (batches of 64 functions per module): llvm-as|llvm-dis reads the same calling conventions from llir's output as from the input; distinct case = N")
	const batch = 64
	cc1 := kf.Activate("KF-C18-cc1", func(in string) bool {
		out, _, err, p := lx.ParsePrint(in)
		if err != nil || p != nil {
			return false
		}
		rx, ry := llvmx.Canon(in), llvmx.Canon(out)
		return rx.OK && ry.OK && strings.Contains(rx.Out, "cc1 ") && !strings.Contains(ry.Out, "cc1 ")
	})
	for b := 0; b*batch < 1024; b++ {
		if !hx.Mine(b) {
			continue
		}
		var sb strings.Builder
		for n := b * batch; n < (b+1)*batch; n++ {
			fmt.Fprintf(&sb, "declare cc %d void @f%d()\n", n, n)
		}
		in := sb.String()
		hx.Eval(batch)
		rx := llvmx.Canon(in)
		if !rx.OK {
			hx.Discard("llvm_rejects_numeric_cc_batch")
			continue
		}
		out, _, err, p := lx.ParsePrint(in)
		if p != nil || err != nil {
			hx.Fail(t, test, "ll", in, "numeric calling conventions rejected: %v %s", err, p)
		}
		ry := llvmx.Canon(out)
		if ry.Crashed {
			hx.Discard("oracle_unavailable")
			continue
		}
		if !ry.OK {
			hx.Fail(t, test, "ll", in, "LLVM rejects llir's output: %s", ry.Err)
		}
		la, lb := strings.Split(llvmx.Normalize(rx.Out), "\n"), strings.Split(llvmx.Normalize(ry.Out), "\n")
		for i := 0; i < len(la) && i < len(lb); i++ {
			if la[i] != lb[i] {
				one := ""
				for n := b * batch; n < (b+1)*batch; n++ {
					if strings.Contains(la[i], fmt.Sprintf("@f%d(", n)) {
						one = fmt.Sprintf("declare cc %d void @f%d()\n", n, n)
					}
				}
				if one == "" {
					one = in
				}
				if cc1 && one == "declare cc 1 void @f1()\n" {
					kf.Hit("KF-C18-cc1")
					continue
				}
				hx.Fail(t, test, "ll", one, "calling convention changed by parse→print: LLVM reads %q from the input but %q from the output", la[i], lb[i])
			}
		}
		for n := b * batch; n < (b+1)*batch; n++ {
			hx.NonTrivialU(99, uint64(n))
		}
		hx.SampleCase(test, in[:200])
	}
	hx.Exhaustive(test, true)
}
