package c18

import (
	"fmt"
	"go/ast"
	"go/constant"
	"go/parser"
	"go/token"
	"go/types"
	"os"
	"path/filepath"
	"sort"
	"strings"
	"testing"

	asmenum "github.com/llir/llvm/asm/enum"
	"github.com/llir/llvm/ir/enum"
	irtypes "github.com/llir/llvm/ir/types"

	"verif/h/hx"
)

func TestMain(m *testing.M) { hx.Main(m, "C18", nil) }

type enumT interface {
	~uint8 | ~uint16 | ~uint64 | ~int64
	String() string
}

type desc struct {
	name     string
	str      func(uint64) string
	from     func(string) (uint64, any)
	flagType bool
	lineCmt  bool
	bits     int
}

func mk[T enumT](name string, bits int, lineCmt, flag bool, from func(string) T) desc {
	return desc{
		name: name, bits: bits, lineCmt: lineCmt, flagType: flag,
		str: func(v uint64) string { return T(v).String() },
		from: func(s string) (r uint64, pv any) {
			pv, _ = hx.Try(func() { r = uint64(from(s)) })
			return
		},
	}
}

var descs = []desc{
	mk("AllocKind", 8, true, true, asmenum.AllocKindFromString),
	mk("AtomicOp", 8, true, false, asmenum.AtomicOpFromString),
	mk("AtomicOrdering", 8, true, false, asmenum.AtomicOrderingFromString),
	mk("CallingConv", 16, true, false, asmenum.CallingConvFromString),
	mk("ChecksumKind", 8, true, false, asmenum.ChecksumKindFromString),
	mk("ClauseType", 8, true, false, asmenum.ClauseTypeFromString),
	mk("DIFlag", 64, false, true, asmenum.DIFlagFromString),
	mk("DISPFlag", 64, false, true, asmenum.DISPFlagFromString),
	mk("DLLStorageClass", 8, true, false, asmenum.DLLStorageClassFromString),
	mk("DwarfAttEncoding", 64, true, false, asmenum.DwarfAttEncodingFromString),
	mk("DwarfCC", 64, true, false, asmenum.DwarfCCFromString),
	mk("DwarfLang", 64, true, false, asmenum.DwarfLangFromString),
	mk("DwarfMacinfo", 64, true, false, asmenum.DwarfMacinfoFromString),
	mk("DwarfOp", 64, true, false, asmenum.DwarfOpFromString),
	mk("DwarfTag", 64, true, false, asmenum.DwarfTagFromString),
	mk("DwarfVirtuality", 64, true, false, asmenum.DwarfVirtualityFromString),
	mk("EmissionKind", 64, true, false, asmenum.EmissionKindFromString),
	mk("FastMathFlag", 8, true, false, asmenum.FastMathFlagFromString),
	mk("FPred", 8, true, false, asmenum.FPredFromString),
	mk("FuncAttr", 8, true, false, asmenum.FuncAttrFromString),
	mk("IPred", 8, true, false, asmenum.IPredFromString),
	mk("Linkage", 8, true, false, asmenum.LinkageFromString),
	mk("NameTableKind", 8, true, false, asmenum.NameTableKindFromString),
	mk("OverflowFlag", 8, true, false, asmenum.OverflowFlagFromString),
	mk("ParamAttr", 8, true, false, asmenum.ParamAttrFromString),
	mk("Preemption", 8, true, false, asmenum.PreemptionFromString),
	mk("ReturnAttr", 8, true, false, asmenum.ReturnAttrFromString),
	mk("SanitizerKind", 8, true, false, asmenum.SanitizerKindFromString),
	mk("SelectionKind", 8, true, false, asmenum.SelectionKindFromString),
	mk("Tail", 8, true, false, asmenum.TailFromString),
	mk("TLSModel", 8, true, false, asmenum.TLSModelFromString),
	mk("UnnamedAddr", 8, true, false, asmenum.UnnamedAddrFromString),
	mk("UnwindTableKind", 8, true, false, asmenum.UnwindTableKindFromString),
	mk("Visibility", 8, true, false, asmenum.VisibilityFromString),
	mk("FloatKind", 8, true, false, asmenum.FloatKindFromString),
}

var (
	_ = enum.LinkageNone
	_ = irtypes.FloatKindHalf
)

// declared is one constant declaration read from the source.
type declared struct {
	ident   string
	val     uint64
	comment string // line comment ("" if none)
}

func repo() string {
	if r := os.Getenv("VERIF_REPO"); r != "" {
		return r
	}
	return "/repo"
}

// readDecls type-checks ir/enum/enum.go (it has no imports) and returns the
// constants of every enum type with their line comments, in declaration order.
func readDecls(t *testing.T) map[string][]declared {
	out := map[string][]declared{}
	fset := token.NewFileSet()
	path := filepath.Join(repo(), "ir", "enum", "enum.go")
	f, err := parser.ParseFile(fset, path, nil, parser.ParseComments)
	if err != nil {
		t.Fatalf("parse %s: %v", path, err)
	}
	info := &types.Info{Defs: map[*ast.Ident]types.Object{}}
	conf := types.Config{Error: func(error) {}}
	conf.Check("enum", fset, []*ast.File{f}, info)
	collect := func(f *ast.File, info *types.Info, only string) {
		for _, d := range f.Decls {
			gd, ok := d.(*ast.GenDecl)
			if !ok || gd.Tok != token.CONST {
				continue
			}
			iota := 0
			var lastType string
			for _, sp := range gd.Specs {
				vs := sp.(*ast.ValueSpec)
				cmt := ""
				if vs.Comment != nil {
					cmt = strings.TrimSpace(vs.Comment.Text())
				}
				for _, id := range vs.Names {
					if info != nil {
						obj, ok := info.Defs[id].(*types.Const)
						if !ok {
							continue
						}
						named, ok := obj.Type().(*types.Named)
						if !ok {
							continue
						}
						var v uint64
						if x, ok := constant.Uint64Val(constant.ToInt(obj.Val())); ok {
							v = x
						} else if x, ok := constant.Int64Val(constant.ToInt(obj.Val())); ok {
							v = uint64(x)
						}
						tn := named.Obj().Name()
						out[tn] = append(out[tn], declared{ident: id.Name, val: v, comment: cmt})
					} else {
						// iota-only block of a single type (FloatKind).
						if vs.Type != nil {
							if tid, ok := vs.Type.(*ast.Ident); ok {
								lastType = tid.Name
							}
						}
						if lastType == only {
							out[only] = append(out[only], declared{ident: id.Name, val: uint64(iota), comment: cmt})
						}
					}
				}
				iota++
			}
		}
	}
	collect(f, info, "")
	tpath := filepath.Join(repo(), "ir", "types", "types.go")
	tf, err := parser.ParseFile(fset, tpath, nil, parser.ParseComments)
	if err != nil {
		t.Fatalf("parse %s: %v", tpath, err)
	}
	collect(tf, nil, "FloatKind")
	return out
}

func isFallback(name, s string, v uint64) bool {
	return s == fmt.Sprintf("%s(%d)", name, v) || s == fmt.Sprintf("%s(%d)", name, int64(v))
}

// values finds every value of d whose String() is a real keyword: scan of 0..65535
// (or the full range for 8/16-bit types), every single bit, and every declared constant.
func values(d desc, decls []declared) []uint64 {
	seen := map[uint64]bool{}
	var out []uint64
	try := func(v uint64) {
		if seen[v] {
			return
		}
		seen[v] = true
		var s string
		if pv, _ := hx.Try(func() { s = d.str(v) }); pv != nil {
			return
		}
		if !isFallback(d.name, s, v) {
			out = append(out, v)
		}
	}
	lim := uint64(1) << 16
	if d.bits == 8 {
		lim = 1 << 8
	}
	for v := uint64(0); v < lim; v++ {
		try(v)
	}
	if d.bits == 64 {
		for b := 0; b < 64; b++ {
			try(uint64(1) << b)
		}
	}
	for _, c := range decls {
		try(c.val)
	}
	sort.Slice(out, func(i, j int) bool { return out[i] < out[j] })
	return out
}

func TestKeywordRoundTrip(t *testing.T) {
	const test = "KeywordRoundTrip"
	hx.Rule(test, "every value of the 35 enum types whose String() is a keyword (scan 0..65535, all single bits, all constants declared in ir/enum/enum.go and ir/types/types.go read with go/parser): FromString(String(v))==v, keywords unique per type, keyword equals the declared line comment; each (type,value) is one distinct case")
	decls := readDecls(t)
	total := 0
	for di, d := range descs {
		dl := decls[d.name]
		if len(dl) == 0 {
			hx.Fail(t, test, "txt", d.name, "no constants of type %s found in the source (scan completeness cannot be established)", d.name)
		}
		vals := values(d, dl)
		byKeyword := map[string]uint64{}
		found := map[uint64]bool{}
		for _, v := range vals {
			found[v] = true
			kw := d.str(v)
			c := fmt.Sprintf("%s %d %q", d.name, v, kw)
			hx.Eval(1)
			total++
			hx.NonTrivialU(uint64(di), v)
			hx.Hist("type/" + d.name)
			if total%40 == 1 {
				hx.SampleCase(test, c)
			}
			if prev, dup := byKeyword[kw]; dup {
				hx.Fail(t, test, "txt", c, "%s: values %d and %d share the keyword %q", d.name, prev, v, kw)
			}
			byKeyword[kw] = v
			got, pv := d.from(kw)
			if pv != nil {
				hx.Fail(t, test, "txt", c, "%sFromString(%q) panics (%v) although %s(%d).String() printed it", d.name, kw, pv, d.name, v)
			}
			if got != v {
				hx.Fail(t, test, "txt", c, "%sFromString(%s(%d).String()=%q) = %d, want %d", d.name, d.name, v, kw, got, v)
			}
		}
		// Declared constants: first declaration of each value gives the keyword.
		firstOf := map[uint64]declared{}
		for _, c := range dl {
			if _, ok := firstOf[c.val]; !ok {
				firstOf[c.val] = c
			}
		}
		for v, c := range firstOf {
			cs := fmt.Sprintf("%s %s=%d // %s", d.name, c.ident, v, c.comment)
			if !found[v] {
				hx.Fail(t, test, "txt", cs, "%s: declared constant %s (=%d) has no keyword: String() gives the fallback %q", d.name, c.ident, v, d.str(v))
			}
			want := c.comment
			if !d.lineCmt {
				want = c.ident
			}
			if want == "" {
				continue // alias constants without a comment (First/Last, masks)
			}
			if got := d.str(v); got != want {
				hx.Fail(t, test, "txt", cs, "%s: constant %s (=%d) is declared with keyword %q but prints %q", d.name, c.ident, v, want, got)
			}
		}
	}
	hx.Exhaustive(test, true)
}
