package c03

import (
	"fmt"
	"strings"
	"testing"

	"github.com/llir/llvm/ir"
	"github.com/llir/llvm/ir/constant"
	"github.com/llir/llvm/ir/types"
	"pgregory.net/rapid"

	"verif/h/hx"
	"verif/h/lx"
)

// TestNamedIntegerTypesNextToPlainOnes: more than one module in the process, each made of fresh objects. One
// module names an integer type (`%word = type i32`, built as m.NewTypeDef("word", types.NewInt(32))) and uses
// constants of it; another uses the plain type of the same width and the same values; a third uses the
// predeclared type object. They are built and printed in a drawn order: each must print the text that its own
// construction calls say — constants of the named type as `%word 7`, the others as `i32 7` — and the text
// must be accepted by the library's parser.
func TestNamedIntegerTypesNextToPlainOnes(t *testing.T) {
	const test = "NamedIntegerTypesNextToPlainOnes"
	hx.Rule(test, "2..4 modules per case, each a list of global variables, a function returning a constant and a function adding two constants, over integer widths {1, 8, 16, 32, 64, 128, 7} and values drawn from small numbers (-130..260) and the width's limits; per module the integer type is a fresh named type (NewTypeDef), a fresh plain type (types.NewInt) or the predeclared object (types.I32 ...); construction and printing of the modules are interleaved in a drawn order; oracle: the exact text the construction calls imply (own rendering), and the parser accepts it; non-trivial = a named and a plain module of the same width share a value")
	widths := []uint64{1, 8, 16, 32, 64, 128, 7}
	hx.Check(t, test, hx.N(300, 20000), func(rt *rapid.T) {
		w := widths[rapid.IntRange(0, len(widths)-1).Draw(rt, "width")]
		nmod := rapid.IntRange(2, 4).Draw(rt, "modules")
		vals := rapid.SliceOfN(rapid.OneOf(rapid.Int64Range(-130, 260), rapid.SampledFrom([]int64{0, 1, -1, 127, -128, 255})), 1, 5).Draw(rt, "values")
		if w == 1 {
			for i := range vals {
				vals[i] &= 1
			}
		} else if w < 16 {
			for i := range vals {
				vals[i] %= 1 << (w - 1)
			}
		}
		type mod struct {
			m    *ir.Module
			want string
			kind int
		}
		var mods []*mod
		build := func(kind int) *mod {
			m := ir.NewModule()
			var it *types.IntType
			spell := fmt.Sprintf("i%d", w)
			var sb strings.Builder
			switch kind {
			case 0:
				it = types.NewInt(w)
				m.NewTypeDef("word", it)
				spell = "%word"
				fmt.Fprintf(&sb, "%%word = type i%d\n\n", w)
			case 1:
				it = types.NewInt(w)
			default:
				it = map[uint64]*types.IntType{1: types.I1, 8: types.I8, 16: types.I16, 32: types.I32, 64: types.I64, 128: types.I128}[w]
				if it == nil {
					it = types.NewInt(w)
				}
			}
			lit := func(v int64) string {
				if w == 1 {
					return map[int64]string{0: "false", 1: "true"}[v&1]
				}
				return fmt.Sprint(v)
			}
			for i, v := range vals {
				m.NewGlobalDef(fmt.Sprintf("g%d", i), constant.NewInt(it, v))
				fmt.Fprintf(&sb, "@g%d = global %s %s\n", i, spell, lit(v))
			}
			f := m.NewFunc("f", it)
			f.NewBlock("").NewRet(constant.NewInt(it, vals[0]))
			fmt.Fprintf(&sb, "\ndefine %s @f() {\n0:\n\tret %s %s\n}\n", spell, spell, lit(vals[0]))
			h := m.NewFunc("h", it)
			b := h.NewBlock("")
			b.NewRet(b.NewAdd(constant.NewInt(it, vals[0]), constant.NewInt(it, vals[len(vals)-1])))
			fmt.Fprintf(&sb, "\ndefine %s @h() {\n0:\n\t%%1 = add %s %s, %s\n\tret %s %%1\n}\n", spell, spell, lit(vals[0]), lit(vals[len(vals)-1]), spell)
			return &mod{m: m, want: sb.String(), kind: kind}
		}
		check := func(md *mod, when string) {
			got, p := lx.Print(md.m)
			desc := fmt.Sprintf("; width %d, values %v, %d modules; this one: kind %d (0 named type, 1 plain, 2 predeclared), judged %s\n", w, vals, nmod, md.kind, when)
			if p != nil || got != md.want {
				hx.Fail(rt, test, "ll", desc+md.want, "%sthe module prints\n%s\nits construction calls say\n%s(%v)", desc, got, md.want, p)
			}
			if _, err, pp := lx.Parse(got); err != nil || pp != nil {
				hx.Fail(rt, test, "ll", desc+md.want, "%sthe parser does not accept the printed module: %v %v\n%s", desc, err, pp, got)
			}
		}
		hx.Eval(1)
		kinds := map[int]bool{}
		for i := 0; i < nmod; i++ {
			k := rapid.IntRange(0, 2).Draw(rt, "kind")
			kinds[k] = true
			md := build(k)
			mods = append(mods, md)
			if rapid.Bool().Draw(rt, "printNow") {
				check(md, "right after it was built")
			}
		}
		for i := len(mods) - 1; i >= 0; i-- {
			check(mods[i], "after all modules were built")
		}
		if kinds[0] && (kinds[1] || kinds[2]) {
			hx.NonTrivial(fmt.Sprint(w, vals, nmod))
			hx.Hist("named_and_plain_module_share_width_and_values")
		}
	})
}
