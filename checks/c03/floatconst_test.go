package c03

import (
	"fmt"
	"math"
	"sort"
	"strconv"
	"strings"
	"testing"

	"github.com/llir/llvm/ir/constant"
	"github.com/llir/llvm/ir/types"
	"pgregory.net/rapid"

	"verif/h/hx"
	"verif/h/lx"
	"verif/h/ref"
)

var floatKinds = []struct {
	k ref.FKind
	t *types.FloatType
}{{ref.Half, types.Half}, {ref.Float, types.Float}, {ref.Double, types.Double}}

// halfTable: every finite non-negative half value with its bit pattern, ascending (an independent
// reference for rounding a double to half: the nearest entry, ties to the even pattern).
var halfTable = func() (t []struct {
	v    float64
	bits uint64
}) {
	for b := uint64(0); b < 0x7C00; b++ {
		e, f := b>>10, b&0x3FF
		var v float64
		if e == 0 {
			v = float64(f) * math.Ldexp(1, -24)
		} else {
			v = (1 + float64(f)/1024) * math.Ldexp(1, int(e)-15)
		}
		t = append(t, struct {
			v    float64
			bits uint64
		}{v, b})
	}
	return
}()

func refHalf(d float64) uint64 {
	sign := uint64(0)
	if math.Signbit(d) {
		sign = 0x8000
	}
	a := math.Abs(d)
	max := halfTable[len(halfTable)-1].v // 65504
	if a >= max+16 {                     // halfway to the next power of two rounds to infinity (even)
		return sign | 0x7C00
	}
	i := sort.Search(len(halfTable), func(i int) bool { return halfTable[i].v >= a })
	if i == len(halfTable) {
		return sign | halfTable[len(halfTable)-1].bits
	}
	if halfTable[i].v == a || i == 0 {
		return sign | halfTable[i].bits
	}
	lo, hi := halfTable[i-1], halfTable[i]
	switch dl, dh := a-lo.v, hi.v-a; { // exact in double: all values are multiples of 2^-24 apart by < 2^11
	case dl < dh:
		return sign | lo.bits
	case dh < dl:
		return sign | hi.bits
	case lo.bits&1 == 0:
		return sign | lo.bits
	default:
		return sign | hi.bits
	}
}

// checkNewFloat is the oracle of NewFloatRounding for one (kind, double); it returns the case text and
// whether the conversion was exact.
func checkNewFloat(rt hx.TB, test string, k ref.FKind, ft *types.FloatType, d float64) (string, bool) {
	kk := struct {
		k ref.FKind
		t *types.FloatType
	}{k, ft}
	c := fmt.Sprintf("constant.NewFloat(types.%s, math.Float64frombits(0x%016X)) // %g\n", kk.t, math.Float64bits(d), d)
	var lit string
	if p := lx.Guard(func() { lit = constant.NewFloat(kk.t, d).Ident() }); p != nil {
		hx.Fail(rt, test, "txt", c, "NewFloat/Ident panics: %s", p)
	}
	var want uint64
	exact := true
	switch kk.k.Name {
	case "half":
		want = refHalf(d)
		back := math.Float64frombits(ref.SmallToDouble(ref.Half, want))
		exact = back == d
	case "float":
		f := float32(d)
		want = uint64(math.Float32bits(f))
		exact = float64(f) == d
	default:
		want = math.Float64bits(d)
	}
	got, ok, why := ref.ReadLiteral(kk.k, lit)
	if !ok {
		hx.Fail(rt, test, "txt", c, "the printed literal %q is not a valid %s literal: %s", lit, kk.k.Name, why)
	}
	if got.Lo != want {
		hx.Fail(rt, test, "txt", c, "NewFloat(%s, %g) prints %q = bit pattern 0x%X; the nearest %s to %g has bit pattern 0x%X", kk.k.Name, d, lit, got.Lo, kk.k.Name, d, want)
	}
	var again string
	if p := lx.Guard(func() {
		c2, err := constant.NewFloatFromString(kk.t, lit)
		if err != nil {
			panic(err)
		}
		again = c2.Ident()
	}); p != nil {
		hx.Fail(rt, test, "txt", c, "the printed literal %q is not accepted by NewFloatFromString: %s", lit, p)
	}
	if again != lit {
		hx.Fail(rt, test, "txt", c, "the printed literal %q is not a normal form: parsing and printing it again gives %q", lit, again)
	}
	return c, exact
}

// TestNewFloatRounding: constant.NewFloat takes any double for any kind; for half and float the value
// has to be converted. The printed literal must denote the IEEE round-to-nearest-even conversion of
// the double (infinity beyond the range, subnormals and zero below it), and it must be the library's
// normal form (parse and print again gives the same literal).
func TestNewFloatRounding(t *testing.T) {
	const test = "NewFloatRounding"
	hx.Rule(test, "constant.NewFloat(kind, d) for kind in {half, float, double} and rapid doubles biased to the edges of the kind (largest finite value and the halfway point to the next binade, smallest normal, subnormals, half of the smallest subnormal, exact halfway points between neighbours, powers of two and ten, signed zeros, infinities): the printed literal, read by the reference codec (h/ref/floatlit.go), is the bit pattern of the IEEE round-to-nearest-even conversion of d (Go's float32 conversion for float, a table of all 31744 finite half values for half), and NewFloatFromString(kind, literal).Ident() is the same literal; non-trivial = the conversion is inexact or out of range")
	kinds := floatKinds
	hx.Check(t, test, hx.N(3000, 200000), func(rt *rapid.T) {
		kk := kinds[rapid.IntRange(0, 2).Draw(rt, "kind")]
		maxv := map[string]float64{"half": 65504, "float": math.MaxFloat32, "double": math.MaxFloat64}[kk.k.Name]
		minNorm := map[string]float64{"half": math.Ldexp(1, -14), "float": math.Ldexp(1, -126), "double": math.Ldexp(1, -1022)}[kk.k.Name]
		minSub := map[string]float64{"half": math.Ldexp(1, -24), "float": math.Ldexp(1, -149), "double": math.Ldexp(1, -1074)}[kk.k.Name]
		var d float64
		switch rapid.IntRange(0, 7).Draw(rt, "class") {
		case 0:
			d = math.Float64frombits(rapid.Uint64().Draw(rt, "bits"))
		case 1: // around the largest finite value
			d = maxv * (1 + float64(rapid.IntRange(-40, 40).Draw(rt, "k"))*math.Ldexp(1, -rapid.IntRange(8, 30).Draw(rt, "s")))
		case 2: // around the smallest normal
			d = minNorm * (1 + float64(rapid.IntRange(-2000, 2000).Draw(rt, "k"))/4096)
		case 3: // subnormals and below: multiples of a quarter of the smallest subnormal
			d = minSub * float64(rapid.IntRange(0, 4100).Draw(rt, "q")) / 4
		case 4: // halfway points between neighbours of the kind, and their double neighbours
			m := rapid.Uint64Range(0, 1<<uint(kk.k.P)-1).Draw(rt, "mant")
			e := rapid.IntRange(kk.k.EMin, kk.k.EMax).Draw(rt, "exp")
			d = math.Ldexp(float64(2*m+1), e-kk.k.P) // odd multiple of half an ulp
			switch rapid.IntRange(0, 2).Draw(rt, "nudge") {
			case 1:
				d = math.Nextafter(d, math.Inf(1))
			case 2:
				d = math.Nextafter(d, 0)
			}
		case 5:
			d = math.Ldexp(1, rapid.IntRange(-1080, 1023).Draw(rt, "p2"))
		case 6:
			d = math.Pow(10, float64(rapid.IntRange(-330, 308).Draw(rt, "p10")))
		default:
			d = rapid.SampledFrom([]float64{0, math.Copysign(0, -1), math.Inf(1), math.Inf(-1), 1, 0.1, 1.0 / 3, 70000, 131072, 1e10, 1e-9}).Draw(rt, "special")
		}
		if rapid.Bool().Draw(rt, "neg") {
			d = -d
		}
		if math.IsNaN(d) {
			// NewFloat keeps "is a NaN" and the sign (the payload is the open finding KF-C10-nan-payload): the
			// printed literal of every kind must be a NaN literal with the sign of d
			hx.Eval(1)
			checkNewFloatNaN(rt, test, d)
			hx.Hist("nan/sign=" + fmt.Sprint(math.Signbit(d)))
			return
		}
		hx.Eval(1)
		c, exact := checkNewFloat(rt, test, kk.k, kk.t, d)
		if !exact {
			hx.NonTrivial(c)
		}
		hx.Hist("kind/" + kk.k.Name)
	})
}

// checkNewFloatNaN: constant.NewFloat(kind, NaN) for all six kinds prints a NaN literal of that kind that
// carries the sign bit of the argument, is accepted by NewFloatFromString and is a normal form.
func checkNewFloatNaN(rt hx.TB, test string, d float64) {
	neg := math.Signbit(d)
	for _, ft := range []*types.FloatType{types.Half, types.Float, types.Double, types.X86_FP80, types.FP128, types.PPC_FP128} {
		c := fmt.Sprintf("constant.NewFloat(types.%s, math.Float64frombits(0x%016X)) // NaN, sign bit %v\n", ft, math.Float64bits(d), neg)
		var lit string
		if p := lx.Guard(func() { lit = constant.NewFloat(ft, d).Ident() }); p != nil {
			hx.Fail(rt, test, "txt", c, "NewFloat/Ident panics: %s", p)
		}
		// the sign and NaN-ness of the literal, read off the hexadecimal form of each kind
		var isNaN, litNeg bool
		hexv := func(s string) uint64 { v, _ := strconv.ParseUint(s, 16, 64); return v }
		switch {
		case strings.HasPrefix(lit, "0xH") && len(lit) == 7:
			v := hexv(lit[3:])
			isNaN, litNeg = v&0x7C00 == 0x7C00 && v&0x3FF != 0, v>>15 == 1
		case strings.HasPrefix(lit, "0xK") && len(lit) == 23:
			se, m := hexv(lit[3:7]), hexv(lit[7:])
			isNaN, litNeg = se&0x7FFF == 0x7FFF && m<<1 != 0, se>>15 == 1
		case strings.HasPrefix(lit, "0xL") && len(lit) == 35:
			lo, hi := hexv(lit[3:19]), hexv(lit[19:])
			isNaN, litNeg = hi&0x7FFF000000000000 == 0x7FFF000000000000 && (hi&0xFFFFFFFFFFFF != 0 || lo != 0), hi>>63 == 1
		case strings.HasPrefix(lit, "0xM") && len(lit) == 35:
			hi := hexv(lit[3:19])
			isNaN, litNeg = math.IsNaN(math.Float64frombits(hi)), hi>>63 == 1
		case strings.HasPrefix(lit, "0x") && len(lit) == 18:
			v := hexv(lit[2:])
			isNaN, litNeg = math.IsNaN(math.Float64frombits(v)), v>>63 == 1
		}
		if !isNaN {
			hx.Fail(rt, test, "txt", c, "NewFloat(%s, NaN) prints %q, which is not a NaN literal of that kind", ft, lit)
		}
		if litNeg != neg {
			hx.Fail(rt, test, "txt", c, "NewFloat(%s, NaN with sign bit %v) prints %q, a NaN with sign bit %v", ft, neg, lit, litNeg)
		}
		var again string
		if p := lx.Guard(func() {
			c2, err := constant.NewFloatFromString(ft, lit)
			if err != nil {
				panic(err)
			}
			again = c2.Ident()
		}); p != nil {
			hx.Fail(rt, test, "txt", c, "the printed literal %q is not accepted by NewFloatFromString: %s", lit, p)
		}
		if again != lit {
			hx.Fail(rt, test, "txt", c, "the printed literal %q is not a normal form: parsing and printing it again gives %q", lit, again)
		}
	}
}
