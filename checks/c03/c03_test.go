package c03

import (
	"fmt"
	"github.com/llir/llvm/ir/constant"
	"github.com/llir/llvm/ir/types"
	"math"
	"os"
	"reflect"
	"sort"
	"strings"
	"testing"

	"github.com/llir/llvm/ir"
	"pgregory.net/rapid"

	"verif/h/am"
	"verif/h/emit"
	"verif/h/gen"
	"verif/h/hx"
	"verif/h/llvmx"
	"verif/h/lx"
	"verif/h/ref"
	"verif/h/walk"
)

func TestMain(m *testing.M) { hx.Main(m, "C03", nil) }

var genOff = map[string]bool{"retattr-align": true, "freeze-metadata": true}

// checkProgram replays the abstract module through the constructors and applies every C03 oracle.
func checkProgram(t hx.TB, test string, m *am.Module) (ok bool, calls map[string]int) {
	R := m.Text() // my own rendering of the same construction program
	hx.Trace(test, "ll", R)
	rr := llvmx.Canon(R)
	if rr.Crashed {
		hx.Discard("oracle_unavailable")
		return false, nil
	}
	if !rr.OK {
		hx.Discard("llvm_rejects_reference_rendering")
		return false, nil
	}
	c := "; construction program (independent rendering)\n" + R
	// (1) no constructor rejects a well-typed construction
	var im *ir.Module
	if p := lx.Guard(func() { im, calls = emit.Module(m) }); p != nil {
		hx.Fail(t, test, "ll", c, "a well-typed construction is rejected by a constructor (panic): %s", p)
	}
	// (2) printing does not crash
	y, p := lx.Print(im)
	if p != nil {
		hx.Fail(t, test, "ll", c, "printing the constructed module panics: %s", p)
	}
	// (2b) the constructors take no address space: a program assigns the AddrSpace field of globals,
	// functions and stack slots after construction. The plain way of doing that (no reset of the cached
	// pointer type by hand) must give the same text.
	var naive *ir.Module
	if p := lx.Guard(func() { naive, _ = emit.ModuleWith(m, true) }); p != nil {
		hx.Fail(t, test, "ll", c, "a well-typed construction is rejected by a constructor (panic): %s", p)
	}
	if yn, pn := lx.Print(naive); pn != nil || yn != y {
		hx.Fail(t, test, "ll", c, "assigning AddrSpace after construction (the only way the API offers) without resetting the cached type by hand prints a different module (%v):\n%s", pn, llvmx.Diff(y, yn))
	}
	// (2c) one object in many places: the same program written by somebody who keeps types and constants in
	// variables — equal literal types are one Go object, equal constants are one Go object, used as operand of
	// several instructions, element of several aggregates, initialiser of several globals. The text must be the
	// same, on the first print and on the second
	var shared *ir.Module
	var scalls map[string]int
	if p := lx.Guard(func() { shared, scalls = emit.ModuleShared(m) }); p != nil {
		hx.Fail(t, test, "ll", c, "a well-typed construction (types and constants kept in variables and used in several places) is rejected by a constructor (panic): %s", p)
	}
	for k := 0; k < 2; k++ {
		if ys, ps := lx.Print(shared); ps != nil || ys != y {
			hx.Fail(t, test, "ll", c, "the same program with equal types and constants held as one object each prints a different module (print %d, %v):\n%s", k+1, ps, llvmx.Diff(y, ys))
		}
	}
	if n := scalls["shared constant object used again"]; n > 0 {
		hx.HistN("constant_object_reached_from_another_place", n)
	}
	// (2d) more than one module: a second module lists the very same entities (a driver that links one runtime
	// into every module it emits lists the same function and global objects in several modules) and has one
	// more unnamed global variable in front, so that the numbers of unnamed globals and functions differ between
	// the two modules. The second module must print what a module built on its own with that extra global
	// prints, and the first module must print what it printed before.
	{
		second := ir.NewModule()
		sv, iv := reflect.ValueOf(second).Elem(), reflect.ValueOf(im).Elem()
		for i := 0; i < iv.NumField(); i++ {
			if iv.Type().Field(i).PkgPath == "" {
				sv.Field(i).Set(iv.Field(i))
			}
		}
		extra := func() *ir.Global { return ir.NewGlobalDef("", constant.NewInt(types.I32, 7)) }
		second.Globals = append([]*ir.Global{extra()}, im.Globals...)
		var alone *ir.Module
		if p := lx.Guard(func() { alone, _ = emit.Module(m) }); p == nil {
			alone.Globals = append([]*ir.Global{extra()}, alone.Globals...)
			yw, pw := lx.Print(alone)
			ysec, psec := lx.Print(second)
			if pw == nil && (psec != nil || ysec != yw) {
				hx.Fail(t, test, "ll", c, "a second module that lists the same entities after one more unnamed global prints differently from a module built on its own with that global (%v):\n%s", psec, llvmx.Diff(yw, ysec))
			}
			if y1, p1 := lx.Print(im); p1 != nil || y1 != y {
				hx.Fail(t, test, "ll", c, "after a second module that lists the same entities was printed, the first module prints differently (%v):\n%s", p1, llvmx.Diff(y, y1))
			}
			hx.Hist("entities_listed_by_two_modules")
		}
	}
	// (3) the library's parser accepts the text, re-prints it identically, structurally identical module
	pm, err, pp := lx.Parse(y)
	if pp != nil || err != nil {
		hx.Fail(t, test, "ll", c, "the parser does not accept the printed constructed module: %v %s\noffending line: %s\n--- printed ---\n%s", err, pp, offendingLine(err, y), y)
	}
	y2, p2 := lx.Print(pm)
	if p2 != nil || y2 != y {
		hx.Fail(t, test, "ll", c, "printing the re-parsed module differs from the first print (%v):\n%s", p2, llvmx.Diff(y, y2))
	}
	_ = y2
	// (4) LLVM accepts it, and (5) reads what my independent rendering of the same program says
	ry := llvmx.Canon(y)
	if ry.Crashed {
		hx.Discard("oracle_unavailable")
		return false, calls
	}
	if !ry.OK {
		hx.Fail(t, test, "ll", c, "LLVM rejects the printed constructed module: %s\n--- printed ---\n%s", firstLine(ry.Err), y)
	}
	if a, b := llvmx.Normalize(rr.Out), llvmx.Normalize(ry.Out); a != b {
		hx.Fail(t, test, "ll", c, "the printed text does not denote what was constructed (- independent rendering of the program, + library's print):\n%s\n--- printed ---\n%s", llvmx.Diff(a, b), y)
	}
	// structural identity of constructed and re-parsed modules (after both were printed, so that lazily assigned IDs and caches exist on both sides)
	if d := structuralDiff(im, pm); d != "" {
		hx.Fail(t, test, "ll", c, "re-parsing the printed text gives a structurally different module: %s\n--- printed ---\n%s", d, y)
	}
	return true, calls
}

func structuralDiff(a, b *ir.Module) string {
	var d string
	if p := lx.Guard(func() { d = walk.Bisimilar(a, b) }); p != nil {
		return "comparison panics: " + p.String()
	}
	return d
}

func firstLine(s string) string {
	for i := 0; i < len(s); i++ {
		if s[i] == '\n' {
			return s[:i]
		}
	}
	return s
}

func cfg() gen.Cfg {
	c := gen.DefaultCfg()
	c.MaxInsts = 10
	c.Off = genOff
	return c
}

func TestConstructionPrograms(t *testing.T) {
	const test = "ConstructionPrograms"
	hx.Rule(test, "well-typed construction programs drawn by the typed generator and replayed through the public API (ir.NewModule, Module.NewTypeDef/NewGlobal/NewFunc/NewAlias, Func.NewBlock, every Block.New* instruction and terminator builder the generator emits, constant.New* for every constant and constant expression, types.New*, metadata struct literals), named and unnamed values: no constructor panics; String() does not panic; the parser accepts the text, re-prints it byte-identically and yields a structurally identical module; llvm-as accepts it; and llvm-as|llvm-dis reads from it exactly what it reads from the harness' independent text rendering of the same program (opcode, operand order, types, flags, constants). Non-trivial = a function body with >= 3 distinct opcodes; histogram per constructor")
	hx.Check(t, test, hx.N(120, 3000), func(rt *rapid.T) {
		m, feats := gen.Module(rt, cfg())
		canonicalOrder(m)
		hx.Eval(1)
		ok, calls := checkProgram(rt, test, m)
		if ok {
			ops := 0
			for k := range feats {
				if len(k) > 5 && k[:5] == "inst/" {
					ops++
				}
			}
			if ops >= 3 {
				hx.NonTrivial(m.Text())
			}
			for k, v := range calls {
				hx.HistN("api/"+k, v)
			}
		}
		hx.SampleCase(test, m.Text())
	})
}

func TestReplay(t *testing.T) {
	path := os.Getenv("VERIF_REPLAY")
	if path == "" {
		t.Skip()
	}
	// A construction program cannot be rebuilt from text alone; the replay re-checks the textual side:
	// the independent rendering must be preserved by parse→print under LLVM's reading.
	buf, err := os.ReadFile(path)
	if err != nil {
		t.Fatal(err)
	}
	x := string(buf)
	if strings.Contains(x, "scenario: addrspace-after-construction") {
		addrSpaceScenario(t)
		return
	}
	if strings.Contains(x, "constant.NewFloat(types.") {
		// cases of NewFloatRounding: one per line
		for _, l := range strings.Split(x, "\n") {
			var kind string
			var bits uint64
			l = strings.TrimSpace(l)
			if i := strings.Index(l, "constant.NewFloat(types."); i >= 0 {
				rest := strings.NewReplacer(",", " ", "(", " ", ")", " ").Replace(l[i+len("constant.NewFloat(types."):])
				if n, _ := fmt.Sscanf(rest, "%s math.Float64frombits 0x%X", &kind, &bits); n == 2 {
					if math.IsNaN(math.Float64frombits(bits)) {
						checkNewFloatNaN(t, "Replay", math.Float64frombits(bits))
						continue
					}
					for _, kk := range floatKinds {
						if kk.k.Name == kind {
							checkNewFloat(t, "Replay", kk.k, kk.t, math.Float64frombits(bits))
						}
					}
				}
			}
		}
		return
	}
	y, _, e, p := lx.ParsePrint(x)
	if e != nil || p != nil {
		hx.Fail(t, "Replay", "ll", x, "parse/print of the replay program fails: %v %s", e, p)
	}
	if i := strings.Index(x, "expected output: "); i >= 0 {
		// an executable program (ExecutedPrograms): the library's print of it must still execute to the recorded output
		want := x[i+len("expected output: "):]
		want = want[:strings.IndexByte(want, '\n')]
		if r, code := llvmx.Lli(y); !r.Crashed && (!r.OK || oneLine(r.Out) != want) {
			hx.Fail(t, "Replay", "ll", x, "executing the library's print of the program gives %q (exit %d), expected %q", oneLine(r.Out), code, want)
		}
	}
	rx, ry := llvmx.Canon(x), llvmx.Canon(y)
	if rx.OK && (!ry.OK || llvmx.Normalize(rx.Out) != llvmx.Normalize(ry.Out)) {
		hx.Fail(t, "Replay", "ll", x, "replay program is not preserved: %s", fmt.Sprint(firstLine(ry.Err)))
	}
}

// canonicalOrder makes the construction program add type definitions and comdats in the printer's
// canonical (natural) order and metadata nodes by ascending ID, so that the constructed module and the
// module obtained by re-parsing its text list their definitions in the same order.
func canonicalOrder(m *am.Module) {
	sort.SliceStable(m.U.Defs, func(i, j int) bool { return ref.NaturalLess(m.U.Defs[i].Name, m.U.Defs[j].Name) })
	sort.SliceStable(m.Comdats, func(i, j int) bool { return ref.NaturalLess(m.Comdats[i].Name, m.Comdats[j].Name) })
	sort.SliceStable(m.MDs, func(i, j int) bool { return m.MDs[i].ID < m.MDs[j].ID })
	// the order slice refers to definitions by index: rebuild it in canonical grouping
	m.Order = nil
}

func offendingLine(err error, y string) string {
	if err == nil {
		return ""
	}
	msg := err.Error()
	i := strings.Index(msg, "at line ")
	if i < 0 {
		return ""
	}
	var ln int
	fmt.Sscanf(msg[i+8:], "%d", &ln)
	ls := strings.Split(y, "\n")
	if ln >= 1 && ln <= len(ls) {
		return ls[ln-1]
	}
	return ""
}

// addrSpaceScenario is the fixed API program of findings/C03-addrspace-after-construction.txt: the
// address space of a global, a function and a stack slot is assigned after construction (the constructors
// take none) and the values are used; the uses must be printed with that address space and LLVM must
// accept the module.
func addrSpaceScenario(t *testing.T) {
	m := ir.NewModule()
	g := m.NewGlobalDef("g", constant.NewInt(types.I32, 1))
	g.AddrSpace = 3
	callee := m.NewFunc("callee", types.Void)
	callee.AddrSpace = 1
	f := m.NewFunc("f", types.I32)
	b := f.NewBlock("entry")
	slot := b.NewAlloca(types.I32)
	slot.AddrSpace = 5
	v := b.NewLoad(types.I32, g)
	b.NewStore(v, slot)
	call := b.NewCall(callee)
	call.AddrSpace = 1 // the call site states the callee's address space itself
	b.NewStore(callee, b.NewAlloca(callee.Type()))
	b.NewRet(v)
	y, p := lx.Print(m)
	c := "; scenario: addrspace-after-construction\n" + y
	if p != nil {
		hx.Fail(t, "Replay", "txt", c, "printing panics: %s", p)
	}
	for _, want := range []string{"load i32, i32 addrspace(3)* @g", "store i32 %1, i32 addrspace(5)* %0", "call addrspace(1) void @callee()", "store void () addrspace(1)* @callee, void () addrspace(1)** %2"} {
		if !strings.Contains(y, want) {
			hx.Fail(t, "Replay", "txt", c, "the address space assigned after construction does not reach the use: `%s` expected in\n%s", want, y)
		}
	}
	if r := llvmx.Accept(y); !r.OK && !r.Crashed {
		hx.Fail(t, "Replay", "txt", c, "LLVM rejects the module: %s\n%s", firstLine(r.Err), y)
	}
}
