package c03

import (
	"testing"

	"github.com/llir/llvm/ir"
	"pgregory.net/rapid"

	"verif/h/emit"
	"verif/h/gen"
	"verif/h/hx"
	"verif/h/llvmx"
	"verif/h/lx"
)

// TestExecutedPrograms: "executing it gives the result the construction calls imply". The generator
// computes every value of @main concretely while it draws the program (reference semantics in
// h/gen/execgen.go); the program is built through the public API, printed by the library and executed
// by lli-14; the standard output must be the numbers the reference semantics computed.
func TestExecutedPrograms(t *testing.T) {
	const test = "ExecutedPrograms"
	hx.Rule(test, "executable programs drawn together with their result: @main computes with wrapping integer arithmetic of widths 1..64 (incl. 7 and 33) with nuw/nsw/exact where they hold, all ten integer comparisons, selects, trunc/zext/sext, stack arrays with getelementptr/store/load, insertvalue/extractvalue on a nested aggregate, element-wise vector arithmetic with insertelement/extractelement, calls of internal helper functions, conditional branches and switches on known values with phis at the joins, starting from a volatile load of a global (nothing folds at parse time), and prints up to eight values with printf; every value is computed concretely by the generator's reference semantics (no undefined behaviour by construction). Oracle: the module built through the constructors and printed by the library, executed by lli-14, writes exactly the expected numbers. The harness' own text rendering of the same program is executed first: if lli disagrees with the reference semantics there, the case is discarded and counted (that would be a defect of the harness or of lli, not of the library). Non-trivial = at least one diamond (phi) or memory/aggregate/vector/call step")
	hx.Check(t, test, hx.N(40, 1500), func(rt *rapid.T) {
		m, want, feats := gen.ExecProgram(rt)
		R := m.Text()
		hx.Trace(test, "ll", R)
		hx.Eval(1)
		rr, _ := llvmx.Lli(R)
		if rr.Crashed || !rr.OK {
			hx.Discard("lli_cannot_run_the_reference_rendering")
			return
		}
		if rr.Out != want {
			hx.Discard("HARNESS:reference_semantics_disagree_with_lli")
			return
		}
		c := "; executable construction program (independent rendering); expected output: " + oneLine(want) + "\n" + R
		var im *ir.Module
		if p := lx.Guard(func() { im, _ = emit.Module(m) }); p != nil {
			hx.Fail(rt, test, "ll", c, "a well-typed construction is rejected by a constructor (panic): %s", p)
		}
		y, p := lx.Print(im)
		if p != nil {
			hx.Fail(rt, test, "ll", c, "printing the constructed module panics: %s", p)
		}
		ry, code := llvmx.Lli(y)
		if ry.Crashed {
			hx.Discard("oracle_unavailable")
			return
		}
		if !ry.OK || ry.Out != want {
			hx.Fail(rt, test, "ll", c, "executing the printed constructed module does not give the result the construction calls imply: lli prints %q (exit %d, %s), the calls imply %q\n--- printed ---\n%s", oneLine(ry.Out), code, firstLine(ry.Err), oneLine(want), y)
		}
		if feats["exec/phi"]+feats["exec/load"]+feats["exec/extractvalue"]+feats["exec/extractelement"]+feats["exec/call"] > 2 {
			hx.NonTrivial(R)
		}
		for k, v := range feats {
			hx.HistN(k, v)
		}
		hx.SampleCase(test, R)
	})
}

func oneLine(s string) string {
	out := []byte(s)
	for i, c := range out {
		if c == '\n' {
			out[i] = ' '
		}
	}
	return string(out)
}
