package c20

import (
	"fmt"
	"os"
	"sort"
	"strings"
	"testing"

	"github.com/llir/llvm/verifhook"
	"pgregory.net/rapid"

	"verif/h/hx"
	"verif/h/ref"
)

func TestMain(m *testing.M) { hx.Main(m, "C20", nil) }

var alphabet = []byte{'0', '1', '2', '9', 'a', 'b', 'Z', '_', 0x00, 0xFF}

func enumStrings(alpha []byte, maxLen int) []string {
	out := []string{""}
	prev := []string{""}
	for l := 1; l <= maxLen; l++ {
		var cur []string
		for _, p := range prev {
			for _, c := range alpha {
				cur = append(cur, p+string([]byte{c}))
			}
		}
		out = append(out, cur...)
		prev = cur
	}
	return out
}

func less(a, b string) (r bool, pv any) {
	pv, _ = hx.Try(func() { r = verifhook.NatLess(a, b) })
	return
}

func pairCase(a, b string) string { return fmt.Sprintf("%q\n%q\n", a, b) }

// checkPair checks the order axioms on one pair and agreement with the reference order.
func checkPair(t hx.TB, test, a, b string) {
	ab, p1 := less(a, b)
	ba, p2 := less(b, a)
	if p1 != nil || p2 != nil {
		hx.Fail(t, test, "txt", pairCase(a, b), "natsort.Less panicked: %v %v", p1, p2)
	}
	if a == b {
		if ab {
			hx.Fail(t, test, "txt", pairCase(a, b), "not irreflexive: Less(%q,%q)=true", a, b)
		}
		return
	}
	if ab && ba {
		hx.Fail(t, test, "txt", pairCase(a, b), "not asymmetric: Less(%q,%q) and Less(%q,%q)", a, b, b, a)
	}
	if !ab && !ba {
		hx.Fail(t, test, "txt", pairCase(a, b), "not total: neither Less(%q,%q) nor Less(%q,%q)", a, b, b, a)
	}
	if want := ref.NaturalLess(a, b); ab != want {
		hx.Fail(t, test, "txt", pairCase(a, b), "Less(%q,%q)=%v but the natural order (digit runs by numeric value, fewer leading zeros first, bytewise otherwise) says %v", a, b, ab, want)
	}
}

func checkTriple(t hx.TB, test, a, b, c string) {
	ab, _ := less(a, b)
	bc, _ := less(b, c)
	ac, _ := less(a, c)
	if ab && bc && !ac {
		hx.Fail(t, test, "txt", fmt.Sprintf("%q\n%q\n%q\n", a, b, c), "not transitive: %q<%q<%q but not %q<%q", a, b, c, a, c)
	}
}

func hasDigitRun(s string) bool {
	for i := 0; i+1 < len(s); i++ {
		if s[i] >= '0' && s[i] <= '9' {
			return true
		}
	}
	return false
}

func TestLessExhaustivePairs(t *testing.T) {
	const test = "LessExhaustivePairs"
	maxLen := hx.N(3, 4)
	strs := enumStrings(alphabet, maxLen)
	hx.Rule(test, fmt.Sprintf("all ordered pairs of the %d strings of length<=%d over {0,1,2,9,a,b,Z,_,0x00,0xFF}: irreflexive, asymmetric, total, equal to the reference natural order; non-trivial = both strings contain a digit and differ", len(strs), maxLen))
	n := 0
	for i, a := range strs {
		if !hx.Mine(i) {
			continue
		}
		for j := i; j < len(strs); j++ {
			b := strs[j]
			checkPair(t, test, a, b)
			n++
			if i != j && strings.ContainsAny(a, "0129") && strings.ContainsAny(b, "0129") {
				hx.NonTrivialU(1, uint64(i)*uint64(len(strs))+uint64(j))
			}
		}
		if i%97 == 0 && i+1 < len(strs) {
			hx.SampleCase(test, pairCase(a, strs[len(strs)-1-i]))
		}
	}
	hx.Eval(n)
	hx.Exhaustive(test, true)
}

func TestLessExhaustiveTriples(t *testing.T) {
	const test = "LessExhaustiveTriples"
	small := []byte{'0', '1', '9', 'a', '_'}
	maxLen := hx.N(3, 4)
	strs := enumStrings(small, maxLen)
	hx.Rule(test, fmt.Sprintf("all ordered triples of the %d strings of length<=%d over {0,1,9,a,_}: transitivity", len(strs), maxLen))
	// Precompute the relation once, then check transitivity on the matrix.
	n := len(strs)
	rel := make([][]bool, n)
	for i := range rel {
		rel[i] = make([]bool, n)
		for j := range rel[i] {
			rel[i][j], _ = less(strs[i], strs[j])
		}
	}
	cnt := 0
	for i := 0; i < n; i++ {
		if !hx.Mine(i) {
			continue
		}
		for j := 0; j < n; j++ {
			if !rel[i][j] {
				continue
			}
			for k := 0; k < n; k++ {
				if rel[j][k] && !rel[i][k] {
					checkTriple(t, test, strs[i], strs[j], strs[k])
				}
			}
			cnt += n
		}
		hx.NonTrivialU(2, uint64(i))
	}
	hx.Eval(cnt)
	hx.Exhaustive(test, true)
}

// genName draws byte strings biased towards what matters for natural order:
// long digit runs, leading zeros, several runs, shared prefixes.
func genName() *rapid.Generator[string] {
	piece := rapid.OneOf(
		rapid.StringMatching(`0{0,4}[0-9]{0,25}`),
		rapid.StringMatching(`[a-c_.$-]{0,3}`),
		rapid.Map(rapid.SliceOfN(rapid.Byte(), 0, 3), func(b []byte) string { return string(b) }),
		rapid.SampledFrom([]string{"0", "00", "1", "01", "001", "10", "9", "09", "18446744073709551615", "18446744073709551616", "99999999999999999999999999", "a", "A", ""}),
	)
	return rapid.Map(rapid.SliceOfN(piece, 0, 5), func(ps []string) string { return strings.Join(ps, "") })
}

func TestLessRandom(t *testing.T) {
	const test = "LessRandom"
	hx.Rule(test, "rapid byte strings with long digit runs (beyond 64 bits), leading zeros and several runs; pairs share a drawn prefix; axioms + reference order on pairs, transitivity on triples; non-trivial = distinct strings both containing a digit")
	hx.Check(t, test, hx.N(20000, 400000), func(rt *rapid.T) {
		pre := genName().Draw(rt, "prefix")
		a := pre + genName().Draw(rt, "a")
		b := pre + genName().Draw(rt, "b")
		c := pre + genName().Draw(rt, "c")
		hx.Eval(1)
		for _, pr := range [][2]string{{a, b}, {b, c}, {a, c}, {a, a}} {
			checkPair(rt, test, pr[0], pr[1])
		}
		for _, tr := range [][3]string{{a, b, c}, {a, c, b}, {b, a, c}, {b, c, a}, {c, a, b}, {c, b, a}} {
			checkTriple(rt, test, tr[0], tr[1], tr[2])
		}
		if a != b && hasDigitRun(a) && hasDigitRun(b) {
			hx.NonTrivial(a + "\x00|" + b)
		}
		hx.SampleCase(test, pairCase(a, b))
	})
}

func TestStringsSorts(t *testing.T) {
	const test = "StringsSorts"
	hx.Rule(test, "rapid slices of names: natsort.Strings yields a permutation of the input that is sorted under the reference order")
	hx.Check(t, test, hx.N(3000, 60000), func(rt *rapid.T) {
		in := rapid.SliceOfN(genName(), 0, 12).Draw(rt, "names")
		got := append([]string(nil), in...)
		if pv, _ := hx.Try(func() { verifhook.NatStrings(got) }); pv != nil {
			hx.Fail(rt, test, "txt", fmt.Sprintf("%q", in), "natsort.Strings panicked: %v", pv)
		}
		hx.Eval(1)
		x := append([]string(nil), in...)
		y := append([]string(nil), got...)
		sort.Strings(x)
		sort.Strings(y)
		if strings.Join(x, "\x00\x01") != strings.Join(y, "\x00\x01") {
			hx.Fail(rt, test, "txt", fmt.Sprintf("%q", in), "natsort.Strings output %q is not a permutation of input %q", got, in)
		}
		for i := 0; i+1 < len(got); i++ {
			if ref.NaturalLess(got[i+1], got[i]) {
				hx.Fail(rt, test, "txt", fmt.Sprintf("%q", in), "natsort.Strings output not sorted: %q before %q", got[i], got[i+1])
			}
		}
		if len(in) >= 3 {
			hx.NonTrivial(strings.Join(in, "\x00"))
		}
	})
}

// TestReplay re-runs the oracle on a saved replay file (lines of quoted strings).
func TestReplay(t *testing.T) {
	path := os.Getenv("VERIF_REPLAY")
	if path == "" {
		t.Skip("no VERIF_REPLAY")
	}
	buf, err := os.ReadFile(path)
	if err != nil {
		t.Fatal(err)
	}
	var ss []string
	for _, l := range strings.Split(strings.TrimSpace(string(buf)), "\n") {
		var s string
		if _, err := fmt.Sscanf(l, "%q", &s); err == nil {
			ss = append(ss, s)
		}
	}
	for i := range ss {
		for j := range ss {
			checkPair(t, "Replay", ss[i], ss[j])
			for k := range ss {
				checkTriple(t, "Replay", ss[i], ss[j], ss[k])
			}
		}
	}
}
