package c20

import (
	"fmt"
	"regexp"
	"strconv"
	"strings"
	"testing"

	"pgregory.net/rapid"

	"verif/h/am"
	"verif/h/corpus"
	"verif/h/gen"
	"verif/h/hx"
	"verif/h/llvmx"
	"verif/h/lx"
	"verif/h/ref"
)

var (
	reTypeDef  = regexp.MustCompile(`^(%\S+|%"[^"]*") = type `)
	reComdat   = regexp.MustCompile(`^(\$\S+|\$"[^"]*") = comdat `)
	reAttrGrp  = regexp.MustCompile(`^attributes #(\d+) = `)
	reMDDef    = regexp.MustCompile(`^!(\d+) = `)
	reNamedMD  = regexp.MustCompile(`^!([^0-9 ][^ ]*) = !\{`)
	reGlobalTL = regexp.MustCompile(`^(@\S+|@"[^"]*") = `)
)

// unq decodes the name of a printed identifier (after its sigil).
func unq(tok string) string {
	tok = tok[1:]
	if strings.HasPrefix(tok, `"`) && strings.HasSuffix(tok, `"`) && len(tok) >= 2 {
		return ref.UnescapeLLVM(tok[1 : len(tok)-1])
	}
	return ref.UnescapeLLVM(tok)
}

// orderViolations checks the documented order of definitions in printed output y.
func orderViolations(y string) string {
	var types, comdats, named []string
	var groups, mds []int
	for _, line := range strings.Split(y, "\n") {
		if m := reTypeDef.FindStringSubmatch(line); m != nil {
			types = append(types, unq(m[1]))
		} else if m := reComdat.FindStringSubmatch(line); m != nil {
			comdats = append(comdats, unq(m[1]))
		} else if m := reAttrGrp.FindStringSubmatch(line); m != nil {
			n, _ := strconv.Atoi(m[1])
			groups = append(groups, n)
		} else if m := reMDDef.FindStringSubmatch(line); m != nil {
			n, _ := strconv.Atoi(m[1])
			mds = append(mds, n)
		} else if m := reNamedMD.FindStringSubmatch(line); m != nil {
			named = append(named, ref.UnescapeLLVM(m[1]))
		}
	}
	for _, lst := range []struct {
		what string
		xs   []string
	}{{"type definitions", types}, {"comdats", comdats}, {"named metadata", named}} {
		for i := 0; i+1 < len(lst.xs); i++ {
			if ref.NaturalLess(lst.xs[i+1], lst.xs[i]) {
				return fmt.Sprintf("%s are not in natural order: %q is printed before %q", lst.what, lst.xs[i], lst.xs[i+1])
			}
		}
	}
	for _, lst := range []struct {
		what string
		xs   []int
	}{{"attribute groups", groups}, {"metadata definitions", mds}} {
		for i := 0; i+1 < len(lst.xs); i++ {
			if lst.xs[i+1] <= lst.xs[i] {
				return fmt.Sprintf("%s are not in ascending ID order: %d before %d", lst.what, lst.xs[i], lst.xs[i+1])
			}
		}
	}
	return ""
}

// permute draws a permutation of the top-level order that keeps type definitions first and keeps the
// relative order inside global variables, aliases/ifuncs and functions (their order is kept by design).
func permute(rt *rapid.T, m *am.Module) []am.Top {
	var tds, rest []am.Top
	for _, t := range m.Order {
		if t.K == am.TopTypeDef {
			tds = append(tds, t)
		} else {
			rest = append(rest, t)
		}
	}
	if len(tds) > 1 {
		tds = rapid.Permutation(tds).Draw(rt, "permTypes")
	}
	perm := rapid.Permutation(rest).Draw(rt, "perm")
	// restore the relative order of the order-keeping kinds by refilling their slots in original order
	for _, kind := range []am.TopKind{am.TopGlobal, am.TopAlias, am.TopFunc, am.TopAsm} {
		var orig []am.Top
		for _, t := range rest {
			if t.K == kind {
				orig = append(orig, t)
			}
		}
		k := 0
		for i, t := range perm {
			if t.K == kind {
				perm[i] = orig[k]
				k++
			}
		}
	}
	return append(tds, perm...)
}

func TestModulePermutation(t *testing.T) {
	const test = "ModulePermutation"
	hx.Rule(test, "'big' generated modules (>= 8 type definitions, comdats, attribute groups, named metadata, metadata nodes; names with digit runs) and a drawn permutation of their top-level definitions that keeps the relative order of global variables, of aliases, of functions and of module asm lines: print(parse(perm(x))) must equal print(parse(x)) byte for byte, and in the output type definitions, comdats and named metadata must be in reference natural order, attribute groups and metadata definitions in ascending ID order; gate: llvm-as accepts both texts; non-trivial = the permutation moved at least one sorted-kind definition")
	hx.Check(t, test, hx.N(60, 2500), func(rt *rapid.T) {
		cfg := gen.DefaultCfg()
		cfg.Big = true
		cfg.UnnamedGlobals = false
		cfg.Off = map[string]bool{"retattr-align": true, "freeze-metadata": true}
		m, _ := gen.Module(rt, cfg)
		// names with digit runs for the sorted kinds
		for i, d := range m.U.Defs {
			if i%2 == 0 {
				renameType(m, d.Name, fmt.Sprintf("t%0*d", 1+i%3, (i*7)%23))
			}
		}
		for i, c := range m.Comdats {
			if i%3 != 2 {
				c.Name = fmt.Sprintf("%s%0*d", []string{"sec", "Sec", "SEC", "Zed"}[i%4], 1+i%2, 2+(i*9)%31)
			}
		}
		for i, nm := range m.NamedMDs {
			if i%3 != 2 && !strings.HasPrefix(nm.Name, "llvm.") {
				// mixed case: the order is bytewise outside digit runs (upper case before lower case), names that differ only in case are distinct
				nm.Name = fmt.Sprintf("%s.%0*d.x", []string{"nm", "Nm", "NM", "Zeta", "cfg", "CFG"}[i%6], 1+i%2, 2+(i*9)%7)
			}
		}
		// scalar types spelled through alias chains of different lengths: the aliases are not definitions of
		// their own, the types they name must still be listed in natural order of *their* names
		noise := gen.DrawNoiseWithAliases(rt)
		noise = am.Noise{TypeAlias: noise.TypeAlias}
		x := m.TextNoisy(noise)
		orig := m.Order
		m.Order = permute(rt, m)
		px := m.TextNoisy(noise)
		m.Order = orig
		// one case in four: the module refers to its attribute groups without defining them (accepted by
		// LLVM and by the parser, the documented exception of C05); whatever the printer lists for them
		// must obey the same order rules
		if rapid.IntRange(0, 3).Draw(rt, "undefinedGroups") == 0 {
			strip := func(s string) string {
				var keep []string
				for _, l := range strings.Split(s, "\n") {
					if !reAttrGrp.MatchString(l) {
						keep = append(keep, l)
					}
				}
				return strings.Join(keep, "\n")
			}
			x, px = strip(x), strip(px)
			hx.Hist("variant/attribute_groups_referenced_but_undefined")
		}
		hx.Eval(1)
		c := x + "\n; ======== permuted ========\n" + px
		y1, _, err1, p1 := lx.ParsePrint(x)
		y2, _, err2, p2 := lx.ParsePrint(px)
		if p1 != nil || p2 != nil || err1 != nil || err2 != nil {
			hx.Discard("parse_or_print_fails(judged_by_C01)")
			return
		}
		fail := func(format string, args ...any) {
			if !llvmx.Accept(x).OK || !llvmx.Accept(px).OK {
				hx.Discard("violation_outside_domain(llvm_rejects_input)")
				return
			}
			hx.Fail(rt, test, "ll", c, format, args...)
		}
		if y1 != y2 {
			fail("permuting independent top-level definitions changes the printed module:\n%s", llvmx.Diff(y1, y2))
		}
		if v := orderViolations(y1); v != "" {
			fail("%s\n%s", v, y1)
		}
		if x != px {
			hx.NonTrivial(c)
		}
		hx.SampleCase(test, px)
	})
}

// renameType renames an identified struct everywhere in the module's universe (types refer to it by name).
func renameType(m *am.Module, from, to string) {
	for _, d := range m.U.Defs {
		if d.Name == to {
			return
		}
	}
	var fix func(t *am.Type)
	seen := map[*am.Type]bool{}
	fix = func(t *am.Type) {
		if t == nil || seen[t] {
			return
		}
		seen[t] = true
		if t.K == am.Named && t.Name == from {
			t.Name = to
		}
		fix(t.Elem)
		fix(t.Ret)
		for _, f := range t.Fields {
			fix(f)
		}
		for _, f := range t.Params {
			fix(f)
		}
	}
	for _, d := range m.U.Defs {
		if d.Name == from {
			d.Name = to
		}
		for _, f := range d.Fields {
			fix(f)
		}
	}
	var fixC func(c *am.Const)
	fixC = func(c *am.Const) {
		if c == nil {
			return
		}
		fix(c.T)
		for _, e := range c.Elems {
			fixC(e)
		}
		if c.Expr != nil {
			fix(c.Expr.To)
			fix(c.Expr.ElemT)
			for _, a := range c.Expr.Args {
				fixC(a)
			}
		}
	}
	fixV := func(v *am.Value) {
		if v != nil && v.K == am.VConst {
			fixC(v.C)
		}
	}
	for _, g := range m.Globals {
		fix(g.T)
		fixC(g.Init)
	}
	for _, a := range m.Aliases {
		fix(a.T)
		fixC(a.Aliasee)
	}
	for _, f := range m.Funcs {
		fix(f.Ret)
		for _, p := range f.Params {
			fix(p.T)
		}
		for _, b := range f.Blocks {
			for _, in := range append(append([]*am.Inst{}, b.Insts...), b.Term) {
				fix(in.T)
				fix(in.To)
				fix(in.ElemT)
				fix(in.FnT)
				fixC(in.Mask)
				for _, a := range in.Args {
					fixV(a)
				}
				fixV(in.Callee)
				for _, inc := range in.Incs {
					fixV(inc.V)
				}
				for _, cs := range in.Cases {
					fixC(cs)
				}
				for _, cl := range in.Clauses {
					fixC(cl.V)
				}
				for _, bd := range in.Bundles {
					for _, a := range bd.Args {
						fixV(a)
					}
				}
			}
		}
	}
}

// TestPermutedClangCorpus: the sorted kinds of real compiler output. The single-line definitions of the
// kinds the library sorts (type definitions, comdats, attribute groups, metadata definitions, named
// metadata) are permuted among their own positions in the text; everything else stays where it is.
func TestPermutedClangCorpus(t *testing.T) {
	const test = "PermutedClangCorpus"
	hx.Rule(test, "clang-14 output (corpus/src x flag sets; modules the parser accepts) with the single-line definitions of the sorted kinds (type definitions, comdats, attribute groups, numbered and named metadata: up to several hundred per module) permuted among their own text positions by a drawn permutation, all other lines untouched: print(parse(permuted)) must equal print(parse(original)) byte for byte and the output must list the sorted kinds in the documented order; gate: llvm-as accepts the permuted text; non-trivial = at least two definitions changed places")
	var cases []corpus.ClangCase
	for _, c := range corpus.ClangCases() {
		cases = append(cases, c)
	}
	isSorted := func(l string) bool {
		return reTypeDef.MatchString(l) || reComdat.MatchString(l) || reAttrGrp.MatchString(l) || reMDDef.MatchString(l) || reNamedMD.MatchString(l)
	}
	hx.Check(t, test, hx.N(40, 1500), func(rt *rapid.T) {
		c := cases[rapid.IntRange(0, len(cases)-1).Draw(rt, "case")]
		x := c.Text()
		if x == "" || len(x) > 200<<10 {
			hx.Discard("clang_rejects_combination_or_too_large")
			return
		}
		lines := strings.Split(x, "\n")
		var idx []int
		for i, l := range lines {
			if isSorted(l) {
				idx = append(idx, i)
			}
		}
		if len(idx) < 2 {
			hx.Discard("fewer_than_two_sorted_definitions")
			return
		}
		perm := rapid.Permutation(idx).Draw(rt, "perm")
		out := append([]string{}, lines...)
		moved := 0
		for k, i := range idx {
			out[i] = lines[perm[k]]
			if perm[k] != i {
				moved++
			}
		}
		px := strings.Join(out, "\n")
		hx.Eval(1)
		y1, _, err1, p1 := lx.ParsePrint(x)
		y2, _, err2, p2 := lx.ParsePrint(px)
		if p1 != nil || err1 != nil {
			hx.Discard("parser_does_not_accept(judged_by_C01)")
			return
		}
		src := "; source: clang-14 " + c.Name() + "\n"
		fail := func(format string, args ...any) {
			if !llvmx.Accept(px).OK {
				hx.Discard("violation_outside_domain(llvm_rejects_permuted_text)")
				return
			}
			hx.Fail(rt, test, "ll", src+px, format, args...)
		}
		if p2 != nil || err2 != nil {
			fail("the parser accepts the module but not the same module with its sorted-kind definitions permuted: %v %v", err2, p2)
			return
		}
		if y1 != y2 {
			fail("permuting type/comdat/attribute-group/metadata definitions in the text changes the printed module:\n%s", llvmx.Diff(y1, y2))
		}
		if v := orderViolations(y1); v != "" {
			fail("%s", v)
		}
		if moved >= 2 {
			hx.NonTrivial(fmt.Sprintf("%s/%v", c.Name(), perm[:min(len(perm), 12)]))
		}
	})
}
