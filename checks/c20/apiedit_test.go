package c20

import (
	"fmt"
	"sort"
	"strings"
	"testing"

	"github.com/llir/llvm/ir"
	"github.com/llir/llvm/ir/metadata"
	"pgregory.net/rapid"

	"verif/h/gen"
	"verif/h/hx"
	"verif/h/lx"
	"verif/h/ref"
)

// TestNamedMetadataAfterAPIEdits: named metadata lives in a map and is sorted when the module is
// printed. Whatever happened before — earlier prints, definitions renamed in place (same object, old key
// deleted, Name set, stored under the new key), added, removed — a print lists them in natural order of
// their current names and equals the print of a module built from scratch with the final definitions.
func TestNamedMetadataAfterAPIEdits(t *testing.T) {
	const test = "NamedMetadataAfterAPIEdits"
	hx.Rule(test, "stateful over the public API: 2..8 named metadata definitions (names from the natural-sort-adversarial families and plain ones) are added to a module, then 2..8 steps follow, each a print or an edit (rename in place keeping the object, add, remove, replace the object under its key); after every print the `!name = !{...}` lines must be in reference natural order of the current names, and the final print must equal the print of a fresh module holding the final definitions. Non-trivial = a rename happened after a print")
	hx.Check(t, test, hx.N(400, 15000), func(rt *rapid.T) {
		adv := gen.NewAdvNames(rt, "adv")
		used := map[string]bool{}
		name := func() string {
			for {
				var s string
				if rapid.Bool().Draw(rt, "advname") {
					s = "nm." + adv.Draw(rt, "name")
				} else {
					s = rapid.SampledFrom([]string{"a", "b", "c", "zeta", "Zeta", "cfg.1", "cfg.01", "cfg.10", "x9", "x10", "parked.dbg.cu", "llvm.dbg.cu", "llvm.ident"}).Draw(rt, "plain")
				}
				if !used[s] {
					used[s] = true
					return s
				}
				used[s+"'"] = true
				if s += fmt.Sprint(len(used)); !used[s] {
					used[s] = true
					return s
				}
			}
		}
		m := ir.NewModule()
		node := &metadata.Tuple{MetadataID: 0}
		m.MetadataDefs = append(m.MetadataDefs, node)
		cur := map[string]*metadata.NamedDef{}
		add := func() string {
			n := name()
			d := &metadata.NamedDef{Name: n, Nodes: []metadata.Node{node}}
			m.NamedMetadataDefs[n] = d
			cur[n] = d
			return n
		}
		var history []string
		for k := rapid.IntRange(2, 8).Draw(rt, "initial"); k > 0; k-- {
			history = append(history, "add "+add())
		}
		keys := func() []string {
			var ks []string
			for k := range cur {
				ks = append(ks, k)
			}
			sort.Strings(ks)
			return ks
		}
		printed, renamedAfterPrint := false, false
		check := func() string {
			out, p := lx.Print(m)
			desc := strings.Join(history, "\n") + "\n"
			if p != nil {
				hx.Fail(rt, test, "txt", desc, "printing panics: %s", p)
			}
			var names []string
			for _, line := range strings.Split(out, "\n") {
				if mm := reNamedMD.FindStringSubmatch(line); mm != nil {
					names = append(names, ref.UnescapeLLVM(mm[1]))
				}
			}
			if len(names) != len(cur) {
				hx.Fail(rt, test, "txt", desc, "%d named metadata definitions are in the module, %d are printed\n%s", len(cur), len(names), out)
			}
			for i := 0; i+1 < len(names); i++ {
				if ref.NaturalLess(names[i+1], names[i]) {
					hx.Fail(rt, test, "txt", desc, "named metadata is not in natural order: %q is printed before %q\n%s", names[i], names[i+1], out)
				}
			}
			for _, n := range names {
				if _, ok := cur[n]; !ok {
					hx.Fail(rt, test, "txt", desc, "the printed module defines !%s, which the module does not hold (current names: %v)\n%s", n, keys(), out)
				}
			}
			return out
		}
		hx.Eval(1)
		for k := rapid.IntRange(2, 8).Draw(rt, "steps"); k > 0; k-- {
			switch rapid.IntRange(0, 5).Draw(rt, "step") {
			case 0, 1:
				history = append(history, "print")
				check()
				printed = true
			case 2, 3: // rename in place
				ks := keys()
				if len(ks) == 0 {
					continue
				}
				old := ks[rapid.IntRange(0, len(ks)-1).Draw(rt, "which")]
				d := cur[old]
				nn := name()
				delete(m.NamedMetadataDefs, old)
				delete(cur, old)
				d.Name = nn
				m.NamedMetadataDefs[nn] = d
				cur[nn] = d
				history = append(history, fmt.Sprintf("rename %q -> %q (same object)", old, nn))
				if printed {
					renamedAfterPrint = true
				}
			case 4:
				history = append(history, "add "+add())
			default:
				ks := keys()
				if len(ks) < 2 {
					continue
				}
				old := ks[rapid.IntRange(0, len(ks)-1).Draw(rt, "which")]
				delete(m.NamedMetadataDefs, old)
				delete(cur, old)
				history = append(history, fmt.Sprintf("remove %q", old))
			}
		}
		history = append(history, "print (final)")
		final := check()
		fresh := ir.NewModule()
		fresh.MetadataDefs = append(fresh.MetadataDefs, &metadata.Tuple{MetadataID: 0})
		for n := range cur {
			fresh.NamedMetadataDefs[n] = &metadata.NamedDef{Name: n, Nodes: []metadata.Node{fresh.MetadataDefs[0].(*metadata.Tuple)}}
		}
		if want, p := lx.Print(fresh); p == nil && want != final {
			hx.Fail(rt, test, "txt", strings.Join(history, "\n")+"\n", "the module reached through this history prints differently from a fresh module with the same definitions:\n--- history ---\n%s\n--- fresh ---\n%s", final, want)
		}
		if renamedAfterPrint {
			hx.NonTrivial(strings.Join(history, "|"))
		}
	})
}
