package c04

import (
	"fmt"
	"github.com/llir/llvm/ir/value"
	"os"
	"reflect"
	"strings"
	"testing"

	"github.com/llir/llvm/ir"
	"github.com/llir/llvm/ir/constant"
	"github.com/llir/llvm/ir/metadata"
	"github.com/llir/llvm/ir/types"
	"pgregory.net/rapid"

	"verif/h/am"
	"verif/h/corpus"
	"verif/h/gen"
	"verif/h/hx"
	"verif/h/llvmx"
	"verif/h/lx"
	"verif/h/mut"
)

func TestMain(m *testing.M) { hx.Main(m, "C04", nil) }

// undefinedGroup reports whether ag is an empty attribute group whose ID no listed group carries.
func (c *checker) undefinedGroup(ag *ir.AttrGroupDef) bool {
	if len(ag.FuncAttrs) != 0 {
		return false
	}
	for _, d := range c.m.AttrGroupDefs {
		if d.ID == ag.ID {
			return false
		}
	}
	return true
}

type checker struct {
	m      *ir.Module
	top    map[uintptr]string // defining top-level objects (globals, funcs, aliases, ifuncs, comdats, attr groups, numbered metadata)
	types  map[string]types.Type
	locals map[*ir.Func]map[uintptr]bool
	blocks map[*ir.Func]map[uintptr]bool
	seen   map[uintptr]bool
	errs   []string
	nrefs  int
}

func ptrOf(x any) uintptr { return reflect.ValueOf(x).Pointer() }

func (c *checker) errorf(format string, args ...any) {
	if len(c.errs) < 5 {
		c.errs = append(c.errs, fmt.Sprintf(format, args...))
	}
}

// identity checks the defining-object rule for the whole module; it returns violations.
func identity(m *ir.Module) (errs []string, nrefs int) {
	c := &checker{m: m, top: map[uintptr]string{}, types: map[string]types.Type{}, locals: map[*ir.Func]map[uintptr]bool{}, blocks: map[*ir.Func]map[uintptr]bool{}, seen: map[uintptr]bool{}}
	for _, g := range m.Globals {
		c.top[ptrOf(g)] = "global " + g.Ident()
	}
	for _, f := range m.Funcs {
		c.top[ptrOf(f)] = "function " + f.Ident()
		if f.Parent != m {
			c.errorf("function %s: Parent is not the module that lists it", f.Ident())
		}
		ls, bs := map[uintptr]bool{}, map[uintptr]bool{}
		for _, p := range f.Params {
			ls[ptrOf(p)] = true
		}
		for _, b := range f.Blocks {
			ls[ptrOf(b)] = true
			bs[ptrOf(b)] = true
			if b.Parent != f {
				c.errorf("block %s of %s: Parent link is not the function that lists it", b.Ident(), f.Ident())
			}
			for _, in := range b.Insts {
				ls[ptrOf(in)] = true
			}
			if b.Term != nil {
				ls[ptrOf(b.Term)] = true
			}
		}
		c.locals[f], c.blocks[f] = ls, bs
	}
	for _, a := range m.Aliases {
		c.top[ptrOf(a)] = "alias " + a.Ident()
	}
	for _, a := range m.IFuncs {
		c.top[ptrOf(a)] = "ifunc " + a.Ident()
	}
	for _, d := range m.ComdatDefs {
		c.top[ptrOf(d)] = "comdat " + d.Name
	}
	for _, d := range m.AttrGroupDefs {
		c.top[ptrOf(d)] = fmt.Sprintf("attribute group #%d", d.ID)
	}
	for _, d := range m.MetadataDefs {
		c.top[ptrOf(d)] = "metadata " + d.Ident()
	}
	for _, t := range m.TypeDefs {
		if prev, dup := c.types[t.Name()]; dup && prev != t {
			c.errorf("type %%%s is listed twice", t.Name())
		}
		c.types[t.Name()] = t
	}
	// walk uses
	for _, t := range m.TypeDefs {
		c.walkTypeBody(t, "typedef %"+t.Name())
	}
	for _, g := range m.Globals {
		c.fields(reflect.ValueOf(g).Elem(), nil, "global "+g.Ident())
	}
	for _, a := range m.Aliases {
		c.fields(reflect.ValueOf(a).Elem(), nil, "alias "+a.Ident())
	}
	for _, a := range m.IFuncs {
		c.fields(reflect.ValueOf(a).Elem(), nil, "ifunc "+a.Ident())
	}
	for _, d := range m.AttrGroupDefs {
		c.fields(reflect.ValueOf(d).Elem(), nil, fmt.Sprintf("attrgroup #%d", d.ID))
	}
	for _, d := range m.MetadataDefs {
		c.fields(reflect.ValueOf(d).Elem(), nil, "metadata "+d.Ident())
	}
	for name, nd := range m.NamedMetadataDefs {
		c.fields(reflect.ValueOf(nd).Elem(), nil, "named metadata !"+name)
	}
	for _, u := range m.UseListOrders {
		c.use(reflect.ValueOf(u.Value), nil, "uselistorder")
	}
	for _, u := range m.UseListOrderBBs {
		// the function is a module-level definition, the block one of that function's own blocks
		c.use(reflect.ValueOf(u.Func), nil, "uselistorder_bb function")
		if u.Func != nil {
			c.use(reflect.ValueOf(u.Block), u.Func, "uselistorder_bb block of "+u.Func.Ident())
		}
	}
	for _, f := range m.Funcs {
		fv := reflect.ValueOf(f).Elem()
		ft := fv.Type()
		for i := 0; i < ft.NumField(); i++ {
			fld := ft.Field(i)
			if fld.PkgPath != "" || fld.Name == "Params" || fld.Name == "Blocks" || fld.Name == "Parent" {
				continue
			}
			c.use(fv.Field(i), f, "function "+f.Ident()+"."+fld.Name)
		}
		for _, p := range f.Params {
			c.fields(reflect.ValueOf(p).Elem(), f, "param of "+f.Ident())
		}
		for _, b := range f.Blocks {
			for k, in := range b.Insts {
				c.fields(reflect.ValueOf(in).Elem(), f, fmt.Sprintf("%s: %s inst %d", f.Ident(), b.Ident(), k))
			}
			if b.Term != nil {
				c.fields(reflect.ValueOf(b.Term).Elem(), f, fmt.Sprintf("%s: %s terminator", f.Ident(), b.Ident()))
			}
		}
	}
	return c.errs, c.nrefs
}

func (c *checker) fields(v reflect.Value, f *ir.Func, where string) {
	t := v.Type()
	for i := 0; i < t.NumField(); i++ {
		fld := t.Field(i)
		if fld.PkgPath != "" || fld.Name == "Parent" {
			continue
		}
		c.use(v.Field(i), f, where+"."+fld.Name)
	}
}

func (c *checker) walkTypeBody(t types.Type, where string) {
	v := reflect.ValueOf(t)
	if v.Kind() == reflect.Ptr {
		c.fields(v.Elem(), nil, where)
	}
}

// use checks a value found in a use position (operand, constant sub-term, type, attachment ...).
func (c *checker) use(v reflect.Value, f *ir.Func, where string) {
	if !v.IsValid() {
		return
	}
	switch v.Kind() {
	case reflect.Interface:
		if !v.IsNil() {
			c.use(v.Elem(), f, where)
		}
	case reflect.Slice, reflect.Array:
		if v.Kind() == reflect.Slice && v.IsNil() {
			return
		}
		if v.Type().Elem().Kind() == reflect.Uint8 {
			return
		}
		for i := 0; i < v.Len(); i++ {
			c.use(v.Index(i), f, fmt.Sprintf("%s[%d]", where, i))
		}
	case reflect.Map:
		it := v.MapRange()
		for it.Next() {
			c.use(it.Value(), f, where)
		}
	case reflect.Struct:
		if v.Type().PkgPath() == "math/big" || v.Type().PkgPath() == "sync" {
			return
		}
		c.fields(v, f, where)
	case reflect.Ptr:
		if v.IsNil() {
			return
		}
		p := v.Pointer()
		x := v.Interface()
		switch x := x.(type) {
		case *ir.Global, *ir.Func, *ir.Alias, *ir.IFunc, *ir.ComdatDef, *ir.AttrGroupDef:
			c.nrefs++
			if ag, isAG := x.(*ir.AttrGroupDef); isAG && c.undefinedGroup(ag) {
				// a reference to an attribute-group ID that the module does not define at all: the
				// library materialises an empty group (the documented exception, see C05); there is
				// no listed definition it could be identical with
				hx.Hist("undefined_attribute_group_reference(documented_exception)")
				return
			}
			if _, ok := c.top[p]; !ok {
				c.errorf("%s: refers to a %T (%v) that is not the object listed by the module under that name", where, x, identOf(x))
			}
			return
		case *ir.Param, *ir.Block:
			c.local(p, x, f, where)
			return
		case *constant.BlockAddress:
			c.nrefs++
			fn, ok := x.Func.(*ir.Func)
			if !ok {
				c.errorf("%s: blockaddress function is a %T", where, x.Func)
				return
			}
			if _, ok := c.top[ptrOf(fn)]; !ok {
				c.errorf("%s: blockaddress refers to a function object that the module does not list", where)
				return
			}
			b, ok := x.Block.(*ir.Block)
			if !ok || !c.blocks[fn][ptrOf(b)] {
				c.errorf("%s: blockaddress(%s, %s) holds a block object that is not in that function's block list (placeholder survived?)", where, fn.Ident(), x.Block.Ident())
			}
			return
		}
		if _, ok := x.(ir.Instruction); ok {
			c.local(p, x, f, where)
			return
		}
		if _, ok := x.(ir.Terminator); ok {
			c.local(p, x, f, where)
			return
		}
		if t, ok := x.(types.Type); ok && t.Name() != "" {
			c.nrefs++
			def, ok := c.types[t.Name()]
			if !ok {
				c.errorf("%s: refers to named type %%%s that the module does not define", where, t.Name())
			} else if ptrOf(def) != p {
				c.errorf("%s: refers to a copy of named type %%%s, not the defining object", where, t.Name())
			}
			return
		}
		if d, ok := x.(metadata.Definition); ok && d.ID() != -1 {
			c.nrefs++
			if _, ok := c.top[p]; !ok {
				c.errorf("%s: refers to a metadata node with ID %s that is not the object defining that ID", where, d.Ident())
			}
			return
		}
		if c.seen[p] {
			return
		}
		c.seen[p] = true
		c.use(v.Elem(), f, where)
		delete(c.seen, p) // value-like objects may legitimately be shared; only guard against cycles on the current path
	}
}

func identOf(x any) string {
	if i, ok := x.(interface{ Ident() string }); ok {
		return i.Ident()
	}
	return ""
}

func (c *checker) local(p uintptr, x any, f *ir.Func, where string) {
	c.nrefs++
	if f == nil {
		c.errorf("%s: a local value (%T %s) is referred to from outside any function", where, x, identOf(x))
		return
	}
	if !c.locals[f][p] {
		other := ""
		for g, ls := range c.locals {
			if ls[p] {
				other = " (it belongs to " + g.Ident() + ")"
			}
		}
		c.errorf("%s: refers to %T %s, which is not in the parameter/block/instruction lists of %s%s", where, x, identOf(x), f.Ident(), other)
	}
}

func checkText(t hx.TB, test, src, x string, own bool) bool {
	hx.Trace(test, "ll", x)
	m, err, p := lx.Parse(x)
	if p != nil || err != nil {
		hx.Discard("parser_does_not_accept(judged_by_C01)")
		return false
	}
	var errs []string
	var n int
	if pp := lx.Guard(func() { errs, n = identity(m) }); pp != nil {
		hx.Fail(t, test, "ll", x, "walking the parsed module panics: %s", pp)
	}
	hx.HistN("references_checked", n)
	if len(errs) > 0 {
		if !llvmx.Accept(x).OK {
			hx.Discard("violation_outside_domain(llvm_rejects_input)")
			return false
		}
		hx.Fail(t, test, "ll", "; source: "+src+"\n"+x, "%s", strings.Join(errs, "\n"))
	}
	return true
}

// bindings checks, for a module of the own generator, that direct references to top-level entities are
// bound to the entity the *generator* meant: the abstract model knows which global, function or alias
// every reference denotes, and the parsed module lists them in textual order, so am entity k of a kind
// corresponds to the k-th listed object of that kind. (The identity oracle alone cannot see a use that
// is bound to another, existing definition.) Checked: global initialisers and alias targets that are a
// plain address, callees of calls and invokes, and operands that are plain addresses.
func bindings(m *am.Module, pm *ir.Module) (errs []string, n int) {
	obj := map[any]any{}
	var gs []*am.Global
	var fs []*am.Fun
	var as, ifs []*am.Alias
	for _, t := range m.Order {
		switch t.K {
		case am.TopGlobal:
			gs = append(gs, m.Globals[t.Idx])
		case am.TopFunc:
			fs = append(fs, m.Funcs[t.Idx])
		case am.TopAlias:
			if a := m.Aliases[t.Idx]; a.IFunc {
				ifs = append(ifs, a)
			} else {
				as = append(as, a)
			}
		}
	}
	if len(gs) != len(pm.Globals) || len(fs) != len(pm.Funcs) || len(as) != len(pm.Aliases) || len(ifs) != len(pm.IFuncs) {
		return nil, 0
	}
	for i, g := range gs {
		obj[g] = pm.Globals[i]
	}
	for i, f := range fs {
		obj[f] = pm.Funcs[i]
	}
	for i, a := range as {
		obj[a] = pm.Aliases[i]
	}
	for i, a := range ifs {
		obj[a] = pm.IFuncs[i]
	}
	same := func(where string, c *am.Const, got any) {
		if c == nil || c.K != am.CGlobal || c.Ref == nil {
			return
		}
		want, ok := obj[c.Ref]
		if !ok {
			return
		}
		if a, isArg := got.(*ir.Arg); isArg {
			got = a.Value
		}
		n++
		if got != want {
			errs = append(errs, fmt.Sprintf("%s: the text refers to %s, the parsed module holds %v there (another definition)", where, am.RefName(c.Ref), identOf(got)))
		}
	}
	for i, g := range gs {
		if g.Init != nil {
			same("initialiser of global #"+fmt.Sprint(i), g.Init, pm.Globals[i].Init)
		}
	}
	for i, a := range as {
		same("aliasee of alias #"+fmt.Sprint(i), a.Aliasee, pm.Aliases[i].Aliasee)
	}
	for i, a := range ifs {
		same("resolver of ifunc #"+fmt.Sprint(i), a.Aliasee, pm.IFuncs[i].Resolver)
	}
	for fi, f := range fs {
		pf := pm.Funcs[fi]
		if len(f.Blocks) != len(pf.Blocks) {
			continue
		}
		for bi, b := range f.Blocks {
			pb := pf.Blocks[bi]
			if len(b.Insts) != len(pb.Insts) {
				continue
			}
			for ii, in := range b.Insts {
				where := fmt.Sprintf("function #%d block %d inst %d (%s)", fi, bi, ii, in.Op)
				if pc, ok := pb.Insts[ii].(*ir.InstCall); ok && in.Callee != nil && in.Callee.K == am.VConst {
					same(where+" callee", in.Callee.C, pc.Callee)
					for k, a := range in.Args {
						if a.K == am.VConst && k < len(pc.Args) {
							same(where+" argument", a.C, pc.Args[k])
						}
					}
				}
				if ps, ok := pb.Insts[ii].(*ir.InstStore); ok && len(in.Args) == 2 {
					if in.Args[0].K == am.VConst {
						same(where+" stored value", in.Args[0].C, ps.Src)
					}
					if in.Args[1].K == am.VConst {
						same(where+" address", in.Args[1].C, ps.Dst)
					}
				}
				if pl, ok := pb.Insts[ii].(*ir.InstLoad); ok && len(in.Args) == 1 && in.Args[0].K == am.VConst {
					same(where+" address", in.Args[0].C, pl.Src)
				}
			}
			if pi, ok := pb.Term.(*ir.TermInvoke); ok && b.Term != nil && b.Term.Callee != nil && b.Term.Callee.K == am.VConst {
				same(fmt.Sprintf("function #%d block %d invoke callee", fi, bi), b.Term.Callee.C, pi.Invokee)
			}
		}
		// local references: the parameters, blocks and instruction results that an instruction or terminator
		// uses according to the generator must be exactly the local objects in its operand slots (as a
		// multiset: a use bound to another existing value of the function is caught whatever the order)
		lerrs, ln := localBindings(fi, f, pf)
		errs = append(errs, lerrs...)
		n += ln
	}
	return
}

type userWithOperands interface{ Operands() []*value.Value }

func localBindings(fi int, f *am.Fun, pf *ir.Func) (errs []string, n int) {
	if len(f.Params) != len(pf.Params) || len(f.Blocks) != len(pf.Blocks) {
		return
	}
	obj := map[any]any{}
	for i, p := range f.Params {
		obj[p] = pf.Params[i]
	}
	for bi, b := range f.Blocks {
		pb := pf.Blocks[bi]
		if len(b.Insts) != len(pb.Insts) || (b.Term == nil) != (pb.Term == nil) {
			return
		}
		obj[b] = pb
		for ii, in := range b.Insts {
			obj[in] = pb.Insts[ii]
		}
		if b.Term != nil {
			obj[b.Term] = pb.Term
		}
	}
	check := func(where string, in *am.Inst, pin any) {
		u, ok := pin.(userWithOperands)
		if !ok {
			return
		}
		want := map[any]int{}
		addV := func(v *am.Value) {
			if v == nil {
				return
			}
			switch v.K {
			case am.VInst:
				want[obj[v.I]]++
			case am.VParam:
				want[obj[v.P]]++
			case am.VBlock:
				want[obj[v.B]]++
			}
		}
		for _, a := range in.Args {
			addV(a)
		}
		addV(in.Callee)
		addV(in.ParentPad)
		for _, inc := range in.Incs {
			addV(inc.V)
			want[obj[inc.Pred]]++
		}
		for _, bd := range in.Bundles {
			for _, a := range bd.Args {
				addV(a)
			}
		}
		for _, t := range in.Targets {
			want[obj[t]]++
		}
		for _, t := range in.Handlers {
			want[obj[t]]++
		}
		got := map[any]int{}
		var ops []*value.Value
		if p := lx.Guard(func() { ops = u.Operands() }); p != nil {
			return
		}
		for _, slot := range ops {
			v := *slot
			if a, isArg := v.(*ir.Arg); isArg {
				v = a.Value
			}
			switch v.(type) {
			case *ir.Param, *ir.Block, ir.Instruction, ir.Terminator:
				got[v]++
			}
		}
		n++
		delete(want, nil)
		for k, c := range want {
			if got[k] != c {
				errs = append(errs, fmt.Sprintf("%s: the text uses the local value %s %d time(s), the operand slots of the parsed instruction hold it %d time(s) (a use is bound to another value of the function)", where, identOf(k), c, got[k]))
				return
			}
		}
		for k, c := range got {
			if want[k] != c {
				errs = append(errs, fmt.Sprintf("%s: the operand slots of the parsed instruction hold the local value %s %d time(s), the text uses it %d time(s)", where, identOf(k), c, want[k]))
				return
			}
		}
	}
	for bi, b := range f.Blocks {
		pb := pf.Blocks[bi]
		for ii, in := range b.Insts {
			check(fmt.Sprintf("function #%d block %d inst %d (%s)", fi, bi, ii, in.Op), in, pb.Insts[ii])
		}
		if b.Term != nil {
			check(fmt.Sprintf("function #%d block %d terminator (%s)", fi, bi, b.Term.Op), b.Term, pb.Term)
		}
		if len(errs) > 3 {
			break
		}
	}
	return
}

func TestGenerated(t *testing.T) {
	const test = "Generated"
	hx.Rule(test, "modules of the typed generator (recursive and mutually recursive types, globals initialised with each other's and functions' addresses, phi and branch cycles, uses before definitions in layout order, blockaddress inside functions and in global initialisers of blocks of other functions, metadata cycles through distinct nodes, identical local names in different functions, comdats, attribute groups, aliases) in shuffled textual order: every global/function/alias/ifunc/comdat/attribute-group/numbered-metadata/named-type object met anywhere in the parsed module is pointer-identical to the object the module lists; every parameter/block/instruction met as an operand belongs to the enclosing function (blockaddress: to the named function); Parent links agree with containment; non-trivial = at least one forward or cross reference and one cycle (CFG back edge, recursive type or metadata cycle)")
	hx.Check(t, test, hx.N(500, 15000), func(rt *rapid.T) {
		cfg := gen.DefaultCfg()
		cfg.Off = map[string]bool{"retattr-align": true, "freeze-metadata": true}
		// a third of the cases carry a debug-info graph: locals are then also referenced from metadata
		// operands of calls (llvm.dbg.value(metadata T %x, ...), !DIArgList(T %a, T %b))
		cfg.DebugInfo = rapid.IntRange(0, 2).Draw(rt, "debuginfo") == 0
		m, feats := gen.Module(rt, cfg)
		gen.SparseMetadataIDs(rt, m)
		noise := gen.DrawNoiseWithAliases(rt)
		// vector types spelled through named aliases: every type derived from a named type (results of
		// comparisons, selects, casts on such vectors) must be a type of its own, never a renamed copy
		if !noise.FnAlias && rapid.IntRange(0, 2).Draw(rt, "vecAlias") == 0 {
			noise.VecAlias = true
			hx.Hist("noise/vector_types_through_named_aliases")
		}
		x := m.TextNoisy(noise)
		hx.Eval(1)
		if pm, err, p := lx.Parse(x); err == nil && p == nil {
			errs, nb := bindings(m, pm)
			hx.HistN("bindings_checked_against_the_model", nb)
			if len(errs) > 0 && llvmx.Accept(x).OK {
				hx.Fail(rt, test, "ll", "; source: own-generator\n"+x, "%s", strings.Join(errs, "\n"))
			}
		}
		if checkText(rt, test, "own-generator", x, true) {
			refs := feats["const/global-address"]+feats["const/blockaddress"]+feats["const/blockaddress-in-global"]+feats["inst/phi"]+feats["md/forward-ref"] > 0
			cyc := feats["cfg/back-edge"]+feats["type/recursive"]+feats["md/cycle"] > 0
			if refs && cyc {
				hx.NonTrivial(x)
			}
			for _, k := range []string{"const/global-address", "const/blockaddress", "const/blockaddress-in-global", "inst/phi", "cfg/back-edge", "type/recursive", "md/cycle", "md/forward-ref", "top/alias"} {
				hx.HistN(k, feats[k])
			}
		}
		hx.SampleCase(test, x)
	})
}

func TestCorpora(t *testing.T) {
	const test = "Corpora"
	hx.Rule(test, "repository testdata and llvm-stress/opt programs: same identity oracle")
	for i, f := range corpus.Fixed() {
		if hx.Mine(i) {
			hx.Eval(1)
			if checkText(t, test, f.Name, f.Text, false) {
				hx.NonTrivial("testdata/" + f.Name)
			}
		}
	}
	hx.Check(t, test, hx.N(25, 800), func(rt *rapid.T) {
		seed := rapid.Uint64Range(1, 1<<31).Draw(rt, "stress_seed")
		size := rapid.SampledFrom([]int{30, 100, 300}).Draw(rt, "stress_size")
		x := corpus.Stress(seed, size)
		if x == "" {
			return
		}
		if v := rapid.IntRange(-1, len(corpus.OptPipelines)-1).Draw(rt, "opt"); v >= 0 {
			if y := corpus.Opt(x, v); y != "" {
				x = y
			}
		}
		hx.Eval(1)
		if checkText(rt, test, fmt.Sprintf("llvm-stress -seed %d -size %d", seed, size), x, false) {
			hx.NonTrivial(x)
		}
	})
}

func TestClangCorpus(t *testing.T) {
	const test = "ClangCorpus"
	hx.Rule(test, "clang-14 output for corpus/src x corpus.ClangVariants (see C01): same identity oracle")
	for i, c := range corpus.ClangCases() {
		if !hx.Mine(i) {
			continue
		}
		x := c.Text()
		if x == "" {
			hx.Discard("clang_rejects_combination")
			continue
		}
		hx.Eval(1)
		if checkText(t, test, "clang-14 "+c.Name(), x, false) {
			hx.NonTrivial("clang/" + c.Name())
		}
	}
}

func TestMutatedCorpus(t *testing.T) {
	const test = "MutatedCorpus"
	hx.Rule(test, "repository testdata and llvm-stress programs changed by 1..3 drawn text mutations (h/mut: keywords exchanged inside their class, flags inserted or dropped, boundary integers, quoted identifiers, moved top-level definitions, spliced-in definitions of other modules, duplicated attachments), kept when llvm-as and the parser accept them: same identity oracle")
	hx.Check(t, test, hx.N(60, 3000), func(rt *rapid.T) {
		x, desc, ok := mut.Valid(rt)
		if !ok {
			hx.Discard("mutated_text_not_valid_or_not_accepted")
			return
		}
		hx.Eval(1)
		if checkText(rt, test, desc, x, false) {
			hx.NonTrivial(x)
		}
	})
}

func TestReplay(t *testing.T) {
	path := os.Getenv("VERIF_REPLAY")
	if path == "" {
		t.Skip()
	}
	buf, err := os.ReadFile(path)
	if err != nil {
		t.Fatal(err)
	}
	checkText(t, "Replay", "replay", string(buf), true)
}
