package c14

import (
	"encoding/json"
	"fmt"
	"io"
	"os"
	"strings"
	"testing"
	"time"

	"github.com/llir/llvm/asm"
	"github.com/llir/llvm/ir"
	"github.com/llir/llvm/ir/constant"
	"github.com/llir/llvm/ir/enum"
	"github.com/llir/llvm/ir/metadata"
	"github.com/llir/llvm/ir/types"
	"github.com/llir/llvm/ir/value"
	"pgregory.net/rapid"

	"verif/h/corpus"
	"verif/h/gen"
	"verif/h/hx"
	"verif/h/kf"
	"verif/h/llvmx"
	"verif/h/lx"
	"verif/h/walk"
)

// kfMDPersist: known finding KF-C14-metadata-ids-persist is listed and still reproduces; the step that
// exposes it (a metadata definition inserted in front of already printed ones) is then not generated.
var kfMDPersist bool

func TestMain(m *testing.M) {
	hx.Main(m, "C14", func() {
		kfMDPersist = kf.Activate("KF-C14-metadata-ids-persist", func(in string) bool {
			var steps []Step
			if json.Unmarshal([]byte(in), &steps) != nil {
				return false
			}
			A, _, pA := replay(steps, true)
			B, _, pB := replay(steps, false)
			if pA != nil || pB != nil {
				return false
			}
			sA, p1 := lx.Print(A.m)
			sB, p2 := lx.Print(B.m)
			return p1 == nil && p2 == nil && sA != sB
		})
	})
}

// Step is one step of a history; integer fields are interpreted modulo what exists when the step runs.
type Step struct {
	Op   string `json:"op"`
	A    int    `json:"a,omitempty"`
	B    int    `json:"b,omitempty"`
	C    int    `json:"c,omitempty"`
	D    int    `json:"d,omitempty"`
	Name string `json:"name,omitempty"`
}

var editOps = []string{"addGlobal", "addFunc", "addBlock", "appendInst", "appendInst", "appendInst", "insertInst", "insertInst", "removeInst", "replaceInst", "replaceInst", "bulkAppend", "replaceTerm", "rename", "renameGlobal", "renameBlock", "addMetadata", "setAddrSpace", "setAddrSpace", "keepType", "keepType", "useComdat", "useComdat", "listComdat", "dropComdat", "takeBlockAddress"}
var observeOps = []string{"obsString", "obsString", "obsWriteTo", "obsFailingWrite", "obsPanickingPrint", "obsFunc", "obsBlock", "obsInst", "obsType", "obsIdent", "obsOperands", "obsSuccs", "obsInitializer", "obsFailedCalls"}

// world is the state built by replaying a history.
type world struct {
	m     *ir.Module
	uses  map[value.Value]int // number of operand slots that refer to a value (to remove only unused instructions)
	nameN int
}

func newWorld() *world {
	w := &world{m: ir.NewModule(), uses: map[value.Value]int{}}
	return w
}

func pick(n, i int) int {
	if n <= 0 {
		return -1
	}
	if i < 0 {
		i = -i
	}
	return i % n
}

func (w *world) fn(i int) *ir.Func {
	var defs []*ir.Func
	for _, f := range w.m.Funcs {
		if len(f.Blocks) > 0 {
			defs = append(defs, f)
		}
	}
	if k := pick(len(defs), i); k >= 0 {
		return defs[k]
	}
	return nil
}

// i32Values returns the i32 values of f usable as operands (parameters and instruction results), in a fixed order.
func i32Values(f *ir.Func) []value.Value {
	var out []value.Value
	for _, p := range f.Params {
		if types.Equal(p.Type(), types.I32) {
			out = append(out, p)
		}
	}
	for _, b := range f.Blocks {
		for _, in := range b.Insts {
			if v, ok := in.(value.Value); ok && types.Equal(v.Type(), types.I32) {
				out = append(out, v)
			}
		}
	}
	return out
}

func (w *world) operand(f *ir.Func, i int) value.Value {
	vs := i32Values(f)
	if i%4 == 0 || len(vs) == 0 {
		return constant.NewInt(types.I32, int64(i%7))
	}
	v := vs[pick(len(vs), i/4)]
	w.uses[v]++
	return v
}

// newInst creates an instruction of kind k (not yet placed).
func (w *world) newInst(f *ir.Func, s Step) ir.Instruction {
	x, y := w.operand(f, s.C), w.operand(f, s.D)
	var in ir.Instruction
	allocas := func() []*ir.InstAlloca {
		var out []*ir.InstAlloca
		for _, b := range f.Blocks {
			for _, i := range b.Insts {
				if a, ok := i.(*ir.InstAlloca); ok && types.Equal(a.ElemType, types.I32) {
					out = append(out, a)
				}
			}
		}
		return out
	}
	switch pick(11, s.B) {
	case 9: // store to a stack slot (an operand whose printed type comes from the alloca's cached type)
		if as := allocas(); len(as) > 0 {
			a := as[pick(len(as), s.C)]
			w.uses[a]++
			in = ir.NewStore(x, a)
		} else {
			in = ir.NewOr(x, y)
		}
	case 10:
		if as := allocas(); len(as) > 0 {
			a := as[pick(len(as), s.D)]
			w.uses[a]++
			in = ir.NewLoad(types.I32, a)
		} else {
			in = ir.NewShl(x, y)
		}
	case 0:
		in = ir.NewAdd(x, y)
	case 1:
		in = ir.NewMul(x, y)
	case 2:
		in = ir.NewSub(x, y)
	case 3:
		c := ir.NewICmp(enum.IPredSLT, x, y)
		in = c
	case 4:
		in = ir.NewAlloca(types.I32)
	case 5:
		if len(w.m.Globals) > 0 {
			g := w.m.Globals[pick(len(w.m.Globals), s.C)]
			in = ir.NewLoad(types.I32, g)
		} else {
			in = ir.NewXor(x, y)
		}
	case 6:
		if len(w.m.Globals) > 0 {
			g := w.m.Globals[pick(len(w.m.Globals), s.D)]
			in = ir.NewStore(x, g) // no result: consumes no number
		} else {
			in = ir.NewAnd(x, y)
		}
	case 7: // call: void or i32 callee
		callee := w.m.Funcs[pick(len(w.m.Funcs), s.C)]
		var args []value.Value
		for range callee.Params {
			args = append(args, constant.NewInt(types.I32, 1))
		}
		in = ir.NewCall(callee, args...)
	default:
		in = ir.NewSelect(constant.NewBool(s.C%2 == 0), x, y)
	}
	if s.Name != "" {
		if n, ok := in.(value.Named); ok {
			if tv, ok := in.(value.Value); ok && !types.Equal(tv.Type(), types.Void) {
				w.nameN++
				n.SetName(fmt.Sprintf("%s%d", s.Name, w.nameN))
			}
		}
	}
	return in
}

func (w *world) dropUses(in any) {
	if u, ok := in.(value.User); ok {
		for _, op := range u.Operands() {
			if *op != nil {
				w.uses[*op]--
			}
		}
	}
}

// apply runs one step; observers only run when observe is set. It returns the text of a String() observation.
func (w *world) apply(s Step, observe bool) (printed string, isPrint bool) {
	m := w.m
	switch s.Op {
	case "base":
		// start from a parsed module (only meaningful as the first step): Name holds the text
		pm, err := asm.ParseString("<base>", s.Name)
		if err != nil {
			panic(err)
		}
		w.m = pm
		for _, f := range pm.Funcs {
			for _, b := range f.Blocks {
				users := []any{b.Term}
				for _, in := range b.Insts {
					users = append(users, in)
				}
				for _, u := range users {
					if ou, ok := u.(interface{ Operands() []*value.Value }); ok {
						for _, slot := range ou.Operands() {
							if *slot != nil {
								w.uses[*slot]++
								// a value passed as metadata (llvm.dbg.value(metadata i32 %x, ...)) is used too
								var inner value.Value = *slot
								if a, ok := inner.(*ir.Arg); ok {
									inner = a.Value // an argument with parameter attributes wraps the value it passes
									w.uses[inner]++
								}
								if mv, ok := inner.(*metadata.Value); ok && mv.Value != nil {
									if vv, ok := mv.Value.(value.Value); ok {
										w.uses[vv]++
									}
								}
							}
						}
					}
				}
			}
		}
	case "addGlobal":
		name := ""
		if s.Name != "" {
			w.nameN++
			name = fmt.Sprintf("%s%d", s.Name, w.nameN)
		}
		if s.D%3 == 1 { // the free constructor: the caller lists the global itself
			m.Globals = append(m.Globals, ir.NewGlobalDef(name, constant.NewInt(types.I32, int64(s.A%100))))
		} else {
			m.NewGlobalDef(name, constant.NewInt(types.I32, int64(s.A%100)))
		}
	case "addFunc":
		name := ""
		if s.Name != "" {
			w.nameN++
			name = fmt.Sprintf("%s%d", s.Name, w.nameN)
		}
		var ps []*ir.Param
		for i := 0; i < pick(3, s.A); i++ {
			pn := ""
			if (s.B>>uint(i))&1 == 1 {
				pn = fmt.Sprintf("p%d", i)
			}
			ps = append(ps, ir.NewParam(pn, types.I32))
		}
		ret := types.Type(types.I32)
		if s.C%3 == 0 {
			ret = types.Void
		}
		var f *ir.Func
		if s.D%3 == 1 { // the free constructor: no parent link, the caller lists the function itself
			f = ir.NewFunc(name, ret, ps...)
			m.Funcs = append(m.Funcs, f)
		} else {
			f = m.NewFunc(name, ret, ps...)
		}
		b := f.NewBlock("")
		if ret == types.Void {
			b.NewRet(nil)
		} else {
			b.NewRet(constant.NewInt(types.I32, 0))
		}
	case "addBlock":
		if f := w.fn(s.A); f != nil {
			name := ""
			if s.Name != "" {
				w.nameN++
				name = fmt.Sprintf("%s%d", s.Name, w.nameN)
			}
			var b *ir.Block
			if s.D%3 == 1 { // the free constructor
				b = ir.NewBlock(name)
				b.Parent = f
				f.Blocks = append(f.Blocks, b)
			} else {
				b = f.NewBlock(name)
			}
			b.NewUnreachable() // every state stays printable
		}
	case "appendInst", "insertInst":
		if f := w.fn(s.A); f != nil {
			b := f.Blocks[pick(len(f.Blocks), s.A/7)]
			in := w.newInst(f, s)
			if s.Op == "appendInst" || len(b.Insts) == 0 {
				b.Insts = append(b.Insts, in)
			} else {
				pos := pick(len(b.Insts)+1, s.A/3)
				b.Insts = append(b.Insts, nil)
				copy(b.Insts[pos+1:], b.Insts[pos:])
				b.Insts[pos] = in
			}
		}
	case "removeInst":
		if f := w.fn(s.A); f != nil {
			b := f.Blocks[pick(len(f.Blocks), s.B)]
			if len(b.Insts) > 0 {
				pos := pick(len(b.Insts), s.C)
				in := b.Insts[pos]
				if v, ok := in.(value.Value); ok && w.uses[v] > 0 {
					break // still used: real callers do not remove it
				}
				w.dropUses(in)
				b.Insts = append(b.Insts[:pos], b.Insts[pos+1:]...)
			}
		}
	case "replaceInst":
		// same position, same block length: remove an unused instruction and put a new one in its place
		if f := w.fn(s.A); f != nil {
			b := f.Blocks[pick(len(f.Blocks), s.B)]
			if len(b.Insts) > 0 {
				pos := pick(len(b.Insts), s.C)
				if s.D%2 == 0 {
					pos = len(b.Insts) - 1 - pick(len(b.Insts), s.C/5) // near the end, too
				}
				in := b.Insts[pos]
				if v, ok := in.(value.Value); ok && w.uses[v] > 0 {
					break
				}
				w.dropUses(in)
				b.Insts = append(b.Insts[:pos], b.Insts[pos+1:]...)
				nw := w.newInst(f, s)
				b.Insts = append(b.Insts, nil)
				copy(b.Insts[pos+1:], b.Insts[pos:])
				b.Insts[pos] = nw
			}
		}
	case "bulkAppend":
		// a long block: 12..45 instructions at once
		if f := w.fn(s.A); f != nil {
			b := f.Blocks[pick(len(f.Blocks), s.A/7)]
			for k := 0; k < 12+s.D%34; k++ {
				t := s
				t.B, t.C = s.B+k, s.C+3*k
				b.Insts = append(b.Insts, w.newInst(f, t))
			}
		}
	case "keepType":
		// the type that a global variable, a function or a stack slot reports is kept in another place: as the
		// type of a parameter of a new declaration, or as the content type of a new global variable. It is one
		// object in two places from then on; what is printed at the new place is decided here and now, whatever
		// happens to the address space of the original later
		var t types.Type
		switch s.D % 3 {
		case 0:
			if k := pick(len(m.Globals), s.A); k >= 0 {
				t = m.Globals[k].Type()
			}
		case 1:
			if k := pick(len(m.Funcs), s.A); k >= 0 {
				t = m.Funcs[k].Type()
			}
		default:
			if f := w.fn(s.A); f != nil {
				for _, b := range f.Blocks {
					for _, i := range b.Insts {
						if a, ok := i.(*ir.InstAlloca); ok && t == nil {
							t = a.Type()
						}
					}
				}
			}
		}
		if t != nil {
			w.nameN++
			if s.B%2 == 0 {
				m.NewFunc(fmt.Sprintf("keeps%d", w.nameN), types.Void, ir.NewParam("", t))
			} else {
				m.NewGlobal(fmt.Sprintf("keeps%d", w.nameN), t)
			}
		}
	case "setAddrSpace":
		// the only way to put a stack slot (a global variable, a function) into an address space through the
		// API: assign the field after construction
		if s.D%3 == 1 {
			if k := pick(len(m.Globals), s.A); k >= 0 {
				m.Globals[k].AddrSpace = types.AddrSpace(1 + s.C%4)
			}
		} else if s.D%3 == 2 {
			if k := pick(len(m.Funcs), s.A); k >= 0 {
				m.Funcs[k].AddrSpace = types.AddrSpace(1 + s.C%4)
			}
		} else if f := w.fn(s.A); f != nil {
			var as []*ir.InstAlloca
			for _, b := range f.Blocks {
				for _, i := range b.Insts {
					if a, ok := i.(*ir.InstAlloca); ok {
						as = append(as, a)
					}
				}
			}
			if len(as) > 0 {
				as[pick(len(as), s.B)].AddrSpace = types.AddrSpace(1 + s.C%4)
			}
		}
	case "useComdat":
		// a comdat is created and used by a global variable or a function before the module lists it (the order
		// in which a front end naturally works); "listComdat" lists the pending ones later, "dropComdat" takes
		// the use away again
		w.nameN++
		cd := &ir.ComdatDef{Name: fmt.Sprintf("c%d", w.nameN), Kind: enum.SelectionKindAny}
		if s.D%2 == 0 {
			if k := pick(len(m.Globals), s.A); k >= 0 && m.Globals[k].Comdat == nil {
				m.Globals[k].Comdat = cd
			}
		} else if k := pick(len(m.Funcs), s.A); k >= 0 && m.Funcs[k].Comdat == nil && len(m.Funcs[k].Blocks) > 0 {
			m.Funcs[k].Comdat = cd
		}
	case "listComdat":
		listed := map[*ir.ComdatDef]bool{}
		for _, cd := range m.ComdatDefs {
			listed[cd] = true
		}
		for _, g := range m.Globals {
			if g.Comdat != nil && !listed[g.Comdat] {
				m.ComdatDefs = append(m.ComdatDefs, g.Comdat)
				listed[g.Comdat] = true
			}
		}
		for _, f := range m.Funcs {
			if f.Comdat != nil && !listed[f.Comdat] {
				m.ComdatDefs = append(m.ComdatDefs, f.Comdat)
				listed[f.Comdat] = true
			}
		}
	case "dropComdat":
		listed := map[*ir.ComdatDef]bool{}
		for _, cd := range m.ComdatDefs {
			listed[cd] = true
		}
		for _, g := range m.Globals {
			if g.Comdat != nil && !listed[g.Comdat] {
				g.Comdat = nil
				break
			}
		}
	case "takeBlockAddress":
		// a fresh function of two blocks, in address space 0 or (assigned after construction, the only way) 1,
		// and a global variable initialised with the address of its second block: the type of the constant
		// follows the address space of its function
		fn := m.NewFunc("", types.Void)
		entry, second := fn.NewBlock(""), fn.NewBlock("")
		if s.B%2 == 0 {
			w.nameN++
			second.SetName(fmt.Sprintf("t%d", w.nameN))
		}
		entry.NewBr(second)
		second.NewRet(nil)
		if s.C%2 == 1 {
			fn.AddrSpace = types.AddrSpace(1 + s.D%3)
		}
		m.NewGlobalDef("", constant.NewBlockAddress(fn, second))
	case "replaceTerm":
		if f := w.fn(s.A); f != nil {
			b := f.Blocks[pick(len(f.Blocks), s.B)]
			if v, ok := b.Term.(value.Value); ok && w.uses[v] > 0 {
				break // a terminator whose result is still used (invoke, callbr, catchswitch): real callers do not drop it
			}
			w.dropUses(b.Term)
			switch pick(4, s.C) {
			case 0:
				if types.Equal(f.Sig.RetType, types.Void) {
					b.Term = ir.NewRet(nil)
				} else {
					b.Term = ir.NewRet(w.operand(f, s.D))
				}
			case 1:
				b.Term = ir.NewBr(f.Blocks[pick(len(f.Blocks), s.D)])
			case 2:
				b.Term = ir.NewCondBr(constant.NewBool(s.D%2 == 0), f.Blocks[pick(len(f.Blocks), s.D)], f.Blocks[pick(len(f.Blocks), s.D/2)])
			default:
				b.Term = ir.NewUnreachable()
			}
		}
	case "rename":
		if f := w.fn(s.A); f != nil {
			vs := i32Values(f)
			if len(vs) > 0 {
				if n, ok := vs[pick(len(vs), s.B)].(value.Named); ok {
					name := ""
					if s.Name != "" {
						w.nameN++
						name = fmt.Sprintf("%s%d", s.Name, w.nameN)
					}
					n.SetName(name)
				}
			}
		}
	case "renameBlock":
		if f := w.fn(s.A); f != nil {
			b := f.Blocks[pick(len(f.Blocks), s.B)]
			name := ""
			if s.Name != "" {
				w.nameN++
				name = fmt.Sprintf("%s%d", s.Name, w.nameN)
			}
			b.SetName(name)
		}
	case "renameGlobal":
		n := len(m.Globals) + len(m.Funcs)
		if n > 0 {
			i := pick(n, s.A)
			name := ""
			if s.Name != "" {
				w.nameN++
				name = fmt.Sprintf("%s%d", s.Name, w.nameN)
			}
			if i < len(m.Globals) {
				m.Globals[i].SetName(name)
			} else {
				m.Funcs[i-len(m.Globals)].SetName(name)
			}
		}
	case "addMetadata", "insertMetadata":
		// an unnumbered metadata definition (ID -1): printing assigns IDs. addMetadata appends it,
		// insertMetadata puts it in front of the existing definitions.
		w.nameN++
		t := &metadata.Tuple{MetadataID: -1, Fields: []metadata.Field{&metadata.String{Value: fmt.Sprintf("md%d", w.nameN)}}}
		if s.Op == "insertMetadata" {
			m.MetadataDefs = append([]metadata.Definition{t}, m.MetadataDefs...)
		} else {
			m.MetadataDefs = append(m.MetadataDefs, t)
		}
	}
	if !observe {
		return "", false
	}
	switch s.Op {
	case "obsString":
		return m.String(), true
	case "obsWriteTo":
		m.WriteTo(io.Discard)
	case "obsFailingWrite":
		// a print that fails part-way: the writer accepts s.D*13 bytes and then returns an error with the
		// partial count (every second time it takes nothing of the failing chunk)
		m.WriteTo(&failingWriter{limit: s.D * 13, partial: s.C%2 == 0})
	case "obsPanickingPrint":
		// a print of a state that cannot be printed (a block without terminator), recovered by the caller,
		// who then puts the terminator back: a failed observation, and still only an observation
		if f := w.fn(s.A); f != nil {
			b := f.Blocks[pick(len(f.Blocks), s.B)]
			term := b.Term
			b.Term = nil
			lx.Guard(func() { _ = m.String() })
			lx.Guard(func() { _ = f.LLString() })
			b.Term = term
			// the failed print must have let go of everything it held: a print of the repaired state returns
			// (the only use of the clock in this check: a hang detector with a bound no print comes near)
			done := make(chan struct{})
			go func() {
				defer close(done)
				lx.Guard(func() { _ = f.LLString(); _ = m.String() })
			}()
			select {
			case <-done:
			case <-time.After(120 * time.Second):
				panic(fmt.Errorf("a print after a recovered panic of an earlier print does not return within 120 s (a lock that the failed print took is still held?)"))
			}
		}
	case "obsFailedCalls":
		// calls that fail and change nothing: constructors that reject ill-typed operands of the module (the
		// caller recovers), literals that do not parse, a parse of a rejected text, the documented error of
		// Func.AssignIDs on a function whose stored IDs are out of date is *not* among them (it writes IDs)
		var anyVal value.Value = constant.NewInt(types.I64, int64(s.A))
		if f := w.fn(s.A); f != nil && len(f.Params) > 0 {
			anyVal = f.Params[0]
		}
		var ptr value.Value = constant.NewNull(types.NewPointer(types.I8))
		if len(m.Globals) > 0 {
			ptr = m.Globals[pick(len(m.Globals), s.B)]
		}
		switch s.C % 6 {
		case 0:
			lx.Guard(func() { ir.NewStore(constant.NewInt(types.I64, 1), ptr) }) // i64 into an i32 or i8 cell
		case 1:
			lx.Guard(func() { ir.NewTrunc(anyVal, types.NewInt(128)) })
		case 2:
			lx.Guard(func() {
				ir.NewExtractValue(constant.NewStruct(types.NewStruct(types.I32), constant.NewInt(types.I32, 1)), 7)
			})
		case 3:
			lx.Guard(func() { constant.NewIntFromString(types.I32, "12x") })
			lx.Guard(func() { constant.NewFloatFromString(types.Float, "0xZZ") })
		case 4:
			lx.Guard(func() {
				asm.ParseString("failing", "@a = global i32 1\ndefine void @f(i32) {\n  %v = load i32, i32* @a\n  br label %nowhere\n}\n")
			})
		default:
			lx.Guard(func() { ir.NewLoad(types.I64, anyVal) }) // a load from something that is not a pointer
		}
	case "obsInitializer":
		// type, identifier and string of the initialiser of a global variable
		var inits []constant.Constant
		for _, g := range m.Globals {
			if g.Init != nil {
				inits = append(inits, g.Init)
			}
		}
		if len(inits) > 0 {
			c := inits[pick(len(inits), s.A)]
			_ = c.Type()
			_ = c.Ident()
			_ = c.String()
		}
	case "obsFunc":
		if len(m.Funcs) > 0 {
			_ = m.Funcs[pick(len(m.Funcs), s.A)].LLString()
		}
	case "obsBlock", "obsInst", "obsType", "obsIdent", "obsOperands", "obsSuccs":
		if f := w.fn(s.A); f != nil {
			b := f.Blocks[pick(len(f.Blocks), s.B)]
			switch s.Op {
			case "obsBlock":
				_ = b.LLString()
			case "obsSuccs":
				_ = b.Term.Succs()
			default:
				if len(b.Insts) > 0 {
					in := b.Insts[pick(len(b.Insts), s.C)]
					switch s.Op {
					case "obsInst":
						_ = in.LLString()
					case "obsType":
						if v, ok := in.(value.Value); ok {
							_ = v.Type()
						}
					case "obsIdent":
						if v, ok := in.(value.Value); ok {
							_ = v.Ident()
							_ = v.String()
						}
					case "obsOperands":
						_ = in.Operands()
					}
				}
			}
		}
	}
	return "", false
}

// failingWriter accepts limit bytes and fails from then on.
type failingWriter struct {
	limit   int
	partial bool
	failed  bool
}

func (w *failingWriter) Write(p []byte) (int, error) {
	if w.failed {
		return 0, errWriter
	}
	if len(p) <= w.limit {
		w.limit -= len(p)
		return len(p), nil
	}
	w.failed = true
	if w.partial {
		n := w.limit
		w.limit = 0
		return n, errWriter
	}
	return 0, errWriter
}

var errWriter = fmt.Errorf("writer failed")

// forceCaches fills the exported caches (`Typ`, `Successors`) of every instruction and terminator, so that
// two modules can be compared structurally whatever was queried before.
func forceCaches(m *ir.Module) {
	for _, f := range m.Funcs {
		for _, b := range f.Blocks {
			for _, in := range b.Insts {
				if v, ok := in.(value.Value); ok {
					_ = v.Type()
				}
			}
			if b.Term != nil {
				_ = b.Term.Succs()
				if v, ok := b.Term.(value.Value); ok {
					_ = v.Type()
				}
			}
		}
	}
}

func isObserver(op string) bool { return len(op) > 3 && op[:3] == "obs" }

// replay builds a fresh world from steps; observers run only if observe is set.
func replay(steps []Step, observe bool) (w *world, prints map[int]string, p *lx.Panic) {
	w = newWorld()
	prints = map[int]string{}
	p = lx.Guard(func() {
		for i, s := range steps {
			if isObserver(s.Op) && !observe {
				continue
			}
			if out, ok := w.apply(s, observe); ok {
				prints[i] = out
			}
		}
	})
	return
}

func checkHistory(t hx.TB, test string, steps []Step) {
	js, _ := json.MarshalIndent(steps, "", " ")
	c := string(js)
	hx.Trace(test, "json", c)
	A, printsA, pA := replay(steps, true)
	B, _, pB := replay(steps, false)
	if pB != nil {
		hx.Discard("history_panics_without_observers(not_judged)")
		return
	}
	if pA != nil {
		hx.Fail(t, test, "json", c, "the history panics when observers are interleaved, but not without them: %s", pA)
	}
	sB, p := lx.Print(B.m)
	if p != nil {
		hx.Discard("final_print_panics_without_observers(not_judged)")
		return
	}
	sA, p2 := lx.Print(A.m)
	if p2 != nil {
		hx.Fail(t, test, "json", c, "printing the final module panics after observers ran during the history, but not when the same steps run alone: %s", p2)
	}
	if sA != sB {
		hx.Fail(t, test, "json", c, "the final printed module depends on whether observers ran during the history (- steps alone, + with observers):\n%s", llvmx.Diff(sB, sA))
	}
	// and the two modules are the same object graph (slice orders, field values, sharing), not only the same text:
	// an observer that re-orders a list of the module or rewrites a field in passing changes the IR even when the
	// printed text hides it (both modules have been printed by now, so lazily assigned IDs exist on both sides)
	var d string
	if pb := lx.Guard(func() { forceCaches(A.m); forceCaches(B.m); d = walk.Bisimilar(A.m, B.m) }); pb == nil && d != "" {
		hx.Fail(t, test, "json", c, "the module that was observed during the history differs structurally from the one built by the same steps alone, although both print alike: %s", d)
	}
	sA2, p3 := lx.Print(A.m)
	if p3 != nil || sA2 != sA {
		hx.Fail(t, test, "json", c, "printing twice in a row gives different text (%v):\n%s", p3, llvmx.Diff(sA, sA2))
	}
	// every intermediate String() observation equals printing a fresh replay of the same prefix without observers
	for i, got := range printsA {
		C, _, pc := replay(steps[:i], false)
		if pc != nil {
			continue
		}
		want, pp := lx.Print(C.m)
		if pp != nil {
			continue
		}
		if got != want {
			hx.Fail(t, test, "json", c, "String() observed after step %d differs from printing a fresh module built by the same %d steps without earlier observers:\n%s", i, i, llvmx.Diff(want, got))
		}
	}
}

func genHistory(rt *rapid.T) []Step {
	n := rapid.IntRange(3, 60).Draw(rt, "len")
	// the first function and global come from the module's builder methods or from the free constructors (D%3 == 1)
	steps := []Step{{Op: "addFunc", A: 2, B: 1, C: 1, D: rapid.IntRange(0, 2).Draw(rt, "firstFuncTwin"), Name: ""}, {Op: "addGlobal", D: rapid.IntRange(0, 2).Draw(rt, "firstGlobalTwin"), Name: ""}}
	for i := 0; i < n; i++ {
		var op string
		if rapid.IntRange(0, 2).Draw(rt, "observe") == 0 {
			op = rapid.SampledFrom(observeOps).Draw(rt, "obs")
		} else {
			op = rapid.SampledFrom(editOps).Draw(rt, "edit")
			if op == "addMetadata" && rapid.IntRange(0, 1).Draw(rt, "mdfront") == 0 {
				if kfMDPersist {
					kf.Hit("KF-C14-metadata-ids-persist")
				} else {
					op = "insertMetadata"
				}
			}
		}
		name := ""
		if rapid.IntRange(0, 2).Draw(rt, "named") == 0 {
			name = rapid.SampledFrom([]string{"v", "x.", "1abc", "a b"}).Draw(rt, "name")
		}
		steps = append(steps, Step{Op: op, A: rapid.IntRange(0, 50).Draw(rt, "a"), B: rapid.IntRange(0, 50).Draw(rt, "b"), C: rapid.IntRange(0, 50).Draw(rt, "c"), D: rapid.IntRange(0, 50).Draw(rt, "d"), Name: name})
	}
	return steps
}

// shiftsNumbering: an observer is followed by an edit that changes the position of unnamed values.
func shiftsNumbering(steps []Step) bool {
	seenObs := false
	for _, s := range steps {
		if isObserver(s.Op) {
			seenObs = true
			continue
		}
		if seenObs {
			switch s.Op {
			case "insertInst", "removeInst", "replaceInst", "bulkAppend", "rename", "renameGlobal", "renameBlock", "addGlobal", "addFunc", "addBlock", "appendInst":
				return true
			}
		}
	}
	return false
}

func TestHistories(t *testing.T) {
	const test = "Histories"
	hx.Rule(test, "histories of 5..62 steps over the public API drawn by rapid and replayed on fresh modules: add global/function (named or unnamed, named or unnamed parameters), add block, append, bulk-append (12..45 at once), insert and replace-in-place instructions (add, mul, sub, icmp, alloca, load, store, call of void and non-void functions, select) with operands from the values that exist, remove unused instructions, replace terminators (ret, br, condbr, unreachable), rename values, blocks and globals (to a name or to unnamed), take the address of a block of a fresh function in address space 0 or 1 as the initialiser of a global; observers (String, WriteTo, WriteTo into a writer that fails after k bytes, a recovered String() of a state that cannot be printed — a block whose terminator is taken away and put back —, Func/Block/instruction LLString, Type, Ident, Operands, Succs, Type/Ident/String of a global's initialiser) at about a third of the positions. Every state is printable (blocks are created with a terminator). Oracle: replay with observers == replay without (final String()), String() twice identical, every String() observed mid-history equals printing a fresh observer-free replay of the same prefix, and observers never introduce a panic. Non-trivial = an observer followed by an edit that shifts numbering")
	hx.Check(t, test, hx.N(1500, 200000), func(rt *rapid.T) {
		steps := genHistory(rt)
		hx.Eval(1)
		checkHistory(rt, test, steps)
		if shiftsNumbering(steps) {
			js, _ := json.Marshal(steps)
			hx.NonTrivial(string(js))
			hx.Hist("history/observer_then_numbering_shift")
		} else {
			hx.Hist("history/other")
		}
		for _, s := range steps {
			hx.Hist("op/" + s.Op)
		}
		js, _ := json.Marshal(steps[:min(len(steps), 12)])
		hx.SampleCase(test, string(js)+" …")
	})
}

func TestHistoriesOnParsedModules(t *testing.T) {
	const test = "HistoriesOnParsedModules"
	hx.Rule(test, "the same histories, starting from a parsed module instead of an empty one: small clang-14 outputs (corpus/src x flag sets, <= 40 KB: real metadata, attributes, unnamed values numbered by the parser) and generated modules; edits and observers as in Histories (3..30 steps). Oracle as in Histories. Non-trivial = an observer followed by an edit that shifts numbering")
	var bases []string
	for i, c := range corpus.ClangCases() {
		if i%2 == 0 {
			if x := c.Text(); x != "" && len(x) <= 40<<10 {
				if _, err, p := lx.Parse(x); err == nil && p == nil {
					bases = append(bases, x)
				}
			}
		}
	}
	// hand-written bases for shapes that the other sources produce rarely: the text of one function
	// depends on the numbering of another (blockaddress of a numbered block), with and without globals
	catalogue := []string{
		"define i8* @a() {\n  ret i8* blockaddress(@g, %3)\n}\ndefine i32 @g(i32) {\n  %2 = add i32 %0, 1\n  br label %3\n3:\n  %4 = mul i32 %2, 2\n  ret i32 %4\n}\n",
		"@t = global [2 x i8*] [i8* blockaddress(@g, %3), i8* blockaddress(@g, %5)]\ndefine i32 @g(i32) {\n  %2 = add i32 %0, 1\n  br label %3\n3:\n  %4 = mul i32 %2, 2\n  br label %5\n5:\n  ret i32 %4\n}\ndefine i8* @a() {\n  ret i8* blockaddress(@g, %5)\n}\n",
		"define i32 @g(i32, i32) {\n  %3 = icmp slt i32 %0, %1\n  br i1 %3, label %4, label %6\n4:\n  %5 = add i32 %0, %1\n  br label %6\n6:\n  %7 = phi i32 [ %5, %4 ], [ 0, %2 ]\n  ret i32 %7\n}\ndefine i8* @b() {\n  %1 = select i1 true, i8* blockaddress(@g, %4), i8* blockaddress(@g, %6)\n  ret i8* %1\n}\n",
	}
	hx.Check(t, test, hx.N(120, 16000), func(rt *rapid.T) {
		var base string
		if rapid.IntRange(0, 4).Draw(rt, "catalogue") == 0 {
			base = catalogue[rapid.IntRange(0, len(catalogue)-1).Draw(rt, "catbase")]
		} else if len(bases) > 0 && rapid.IntRange(0, 2).Draw(rt, "basekind") != 0 {
			base = bases[rapid.IntRange(0, len(bases)-1).Draw(rt, "base")]
		} else {
			cfg := gen.DefaultCfg()
			cfg.UnnamedBias = 6
			cfg.CrossBAUnnamed = true
			if rapid.IntRange(0, 1).Draw(rt, "noglobals") == 0 {
				cfg.MaxGlobals = 0
			}
			cfg.Off = map[string]bool{"retattr-align": true, "freeze-metadata": true}
			m, _ := gen.Module(rt, cfg)
			base = m.Text()
		}
		h := genHistory(rt)
		if len(h) > 32 {
			h = h[:32]
		}
		steps := append([]Step{{Op: "base", Name: base}}, h[2:]...)
		hx.Eval(1)
		checkHistory(rt, test, steps)
		if shiftsNumbering(steps) {
			hx.NonTrivial(fmt.Sprintf("%x/%v", hx.Hash64(base), steps[1:]))
			hx.Hist("parsed_history/observer_then_numbering_shift")
		} else {
			hx.Hist("parsed_history/other")
		}
	})
}

func TestReplay(t *testing.T) {
	path := os.Getenv("VERIF_REPLAY")
	if path == "" {
		t.Skip()
	}
	buf, err := os.ReadFile(path)
	if err != nil {
		t.Fatal(err)
	}
	if strings.Contains(string(buf), leafMarker2) {
		replayLeafEdit(t, string(buf))
		return
	}
	var steps []Step
	if err := json.Unmarshal(buf, &steps); err != nil {
		t.Fatal(err)
	}
	checkHistory(t, "Replay", steps)
}
