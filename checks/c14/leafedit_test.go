package c14

import (
	"strings"
	"testing"

	"pgregory.net/rapid"

	"verif/h/gen"
	"verif/h/hx"
	"verif/h/llvmx"
	"verif/h/lx"
	"verif/h/mut"
	"verif/h/walk"
)

// TestLeafEditsAfterObservation: a printed (observed) module is edited through its exported fields until it
// says what another text says, and is printed again: the text must be the one the other text gives when it is
// parsed and printed on its own. The other text is a mutation of the first (a keyword exchanged inside its
// class, a flag inserted or dropped, an integer moved to a boundary, an identifier quoted or renamed); the edit
// is walk.Transplant: only scalars are assigned (bools, integers and enum values, strings, the values of
// big.Int and big.Float in place, bytes of byte slices in place), nothing of the second module becomes
// reachable from the first, and type objects are never written. Pairs that differ in shape are discarded
// (counted by reason).
func TestLeafEditsAfterObservation(t *testing.T) {
	const test = "LeafEditsAfterObservation"
	hx.Rule(test, "generated modules x 1..3 text mutations (h/mut) such that the library's parser accepts both texts; the first is parsed and observed (String(), every function's LLString(), Operands/Type/Ident of every instruction), the second is parsed and printed (so that lazily assigned IDs and type caches exist on both sides); walk.Transplant assigns every differing scalar of the first module from the second through the exported fields; String() of the first module must then equal String() of the second, twice; pairs whose object graphs differ in shape, inside a type object, or in a scalar held inside an interface are discarded and counted; non-trivial = at least one scalar was assigned")
	hx.Check(t, test, hx.N(400, 12000), func(rt *rapid.T) {
		cfg := gen.DefaultCfg()
		cfg.MaxFuncs = 3
		cfg.Off = map[string]bool{"retattr-align": true, "freeze-metadata": true}
		am, _ := gen.Module(rt, cfg)
		x := am.Text()
		x2, ops := mut.Mutate(rt, x, nil)
		if len(ops) == 0 || x2 == x {
			hx.Discard("mutation_changed_nothing")
			return
		}
		checkLeafEdit(rt, test, x, x2, ops)
	})
}

const (
	leafMarker1 = "\n; ---- observed, then edited into the second text ----\n"
	leafMarker2 = "\n; ---- second text ----\n"
)

// checkLeafEdit is the oracle of LeafEditsAfterObservation on one pair of texts.
func checkLeafEdit(t hx.TB, test, x, x2 string, ops []string) {
	m, err, p := lx.Parse(x)
	m2, err2, p2 := lx.Parse(x2)
	if err != nil || p != nil || err2 != nil || p2 != nil {
		hx.Discard("a_text_is_not_accepted(judged_by_C01)")
		return
	}
	// observe the first module
	if _, pp := lx.Print(m); pp != nil {
		hx.Discard("print_panics(judged_by_C01)")
		return
	}
	lx.Guard(func() { forceCaches(m) })
	for _, f := range m.Funcs {
		lx.Guard(func() { _ = f.LLString() })
	}
	want, pp := lx.Print(m2)
	if pp != nil {
		hx.Discard("print_panics(judged_by_C01)")
		return
	}
	lx.Guard(func() { forceCaches(m2) })
	c := "; mutations: " + strings.Join(ops, ", ") + leafMarker1 + x + leafMarker2 + x2
	hx.Eval(1)
	var n int
	var why string
	if p := lx.Guard(func() { n, why = walk.Transplant(m, m2) }); p != nil {
		hx.Discard("transplant_panics(harness)")
		return
	}
	if why != "" {
		cls := why
		if i := strings.Index(cls, ": "); i >= 0 {
			cls = cls[i+2:]
		}
		if j := strings.Index(cls, ":"); j >= 0 {
			cls = cls[:j]
		}
		hx.Discard("not_transplantable/" + cls)
		return
	}
	for k := 1; k <= 2; k++ {
		got, gp := lx.Print(m)
		if gp != nil || got != want {
			hx.Fail(t, test, "ll", c, "after %d scalars of the observed module were assigned through the exported fields so that it says what the second text says, print %d differs from the print of the second text parsed on its own (%v):\n%s", n, k, gp, llvmx.Diff(want, got))
		}
	}
	for _, o := range ops {
		hx.Hist("mutation/" + o)
	}
	if n > 0 {
		hx.NonTrivial(c)
		hx.HistN("scalars_assigned", n)
	} else {
		hx.Hist("no_scalar_differs")
	}
}

// replayLeafEdit re-runs a stored case.
func replayLeafEdit(t *testing.T, stored string) {
	i, j := strings.Index(stored, leafMarker1), strings.Index(stored, leafMarker2)
	if i < 0 || j < i {
		t.Fatal("not a stored case of LeafEditsAfterObservation")
	}
	checkLeafEdit(t, "Replay", stored[i+len(leafMarker1):j], stored[j+len(leafMarker2):], []string{"(replay)"})
}
