package c02

import (
	"fmt"
	"os"
	"regexp"
	"strings"
	"testing"

	"pgregory.net/rapid"

	"verif/h/corpus"
	"verif/h/gen"
	"verif/h/hx"
	"verif/h/kf"
	"verif/h/llvmx"
	"verif/h/lx"
	"verif/h/mut"
	"verif/h/orc"
	"verif/h/reduce"
	"verif/h/walk"
)

var kfNamedI8, kfNamedVec, kfNamedTwoStep bool

func TestMain(m *testing.M) {
	hx.Main(m, "C02", func() {
		kfNamedI8 = kf.Activate("KF-C02-named-i8-blockaddress", func(in string) bool {
			class, _ := fixpoint(in)
			return class == "not_structurally_identical"
		})
		kfNamedVec = kf.Activate("KF-C02-named-vector-derived-type", func(in string) bool {
			class, _ := fixpoint(in)
			return class == "not_structurally_identical"
		})
		kfNamedTwoStep = kf.Activate("KF-C02-named-nonstruct-two-step", func(in string) bool {
			class, msg := fixpoint(in)
			return class == "not_a_fixpoint" && strings.Contains(msg, "%P %b")
		})
	})
}

// fixpoint runs the C02 oracle; class "" means it held.
func fixpoint(x string) (class, msg string) {
	o, m1, m2 := orc.Fixpoint(x)
	switch o.V {
	case orc.Discard:
		return "discard:" + o.Class, o.Msg
	case orc.Violation:
		return o.Class, o.Describe()
	}
	// force lazily computed caches the same way on both sides, then compare structurally
	lx.Print(m1)
	lx.Print(m2)
	var d string
	if p := lx.Guard(func() { d = walk.Bisimilar(m1, m2) }); p != nil {
		return "bisim_panic", p.String()
	}
	if d != "" {
		return "not_structurally_identical", "parse(x) and parse(print(parse(x))) differ structurally at " + d + "\n--- printed output ---\n" + o.Out
	}
	return "", ""
}

// judge fails on a violation whose input is inside the domain (accepted by LLVM; checked lazily).
func judge(t hx.TB, test, src, x string, reducible bool) bool {
	hx.Trace(test, "ll", x)
	class, msg := fixpoint(x)
	if class == "" {
		return true
	}
	if strings.HasPrefix(class, "discard:") {
		hx.Discard(strings.TrimPrefix(class, "discard:"))
		return false
	}
	// Domain gate (lazy): C02 quantifies over the module space of C01, i.e. LLVM-valid modules.
	if r := llvmx.Accept(llvm14ize(x)); !r.OK {
		hx.Discard("violation_outside_domain(llvm_rejects_input)")
		return false
	}
	min := x
	if reducible {
		min = reduce.Lines(x, 150, func(c string) bool {
			c2, _ := fixpoint(c)
			return c2 == class && llvmx.Accept(llvm14ize(c)).OK
		})
		_, msg = fixpoint(min)
	}
	hx.Fail(t, test, "ll", "; source: "+src+"\n"+min, "[%s] %s", class, msg)
	return false
}

// llvm14ize maps the keywords that the library models but LLVM 14 does not know to what LLVM 14 knows, so that
// llvm-as-14 can still answer the domain question "is this a valid module apart from those keywords".
var (
	reUwtable   = regexp.MustCompile(`uwtable\((?:sync|async)\)`)
	reAllocKind = regexp.MustCompile(` ?allockind\("[^"]*"\)`)
	reGlobalSan = regexp.MustCompile(`, (?:no_sanitize_address|no_sanitize_hwaddress|sanitize_memtag|sanitize_address_dyninit)\b`)
)

func llvm14ize(x string) string {
	x = reUwtable.ReplaceAllString(x, "uwtable")
	x = reAllocKind.ReplaceAllString(x, "")
	return reGlobalSan.ReplaceAllString(x, "")
}

func noncanonical(x, y string) bool { return x != y }

func TestRepoTestdata(t *testing.T) {
	const test = "RepoTestdata"
	hx.Rule(test, "every .ll file of the repository's testdata the parser accepts: y=print(parse(x)) is accepted, print(parse(y))==y byte for byte, and the two parsed modules are structurally identical (reflection bisimulation with one-to-one pairing of identity-bearing objects)")
	for i, f := range corpus.Fixed() {
		if !hx.Mine(i) {
			continue
		}
		hx.Eval(1)
		if judge(t, test, f.Name, f.Text, true) {
			hx.NonTrivial("testdata/" + f.Name)
		}
	}
}

func TestStress(t *testing.T) {
	const test = "Stress"
	hx.Rule(test, "llvm-stress-14 programs and opt-14 variants (seed/size/pipeline drawn by rapid), all of which are non-canonical for the library's printer (llvm-dis spelling: %N numbering, ; comments, exponent floats, attribute groups, metadata): same oracle; a violation counts only if llvm-as accepts the input (lazy gate); non-trivial = printed output differs from the input text; distinct by digest")
	hx.Check(t, test, hx.N(40, 2500), func(rt *rapid.T) {
		seed := rapid.Uint64Range(1, 1<<31).Draw(rt, "stress_seed")
		size := rapid.SampledFrom([]int{10, 30, 100, 300}).Draw(rt, "stress_size")
		x := corpus.Stress(seed, size)
		if x == "" {
			hx.Discard("llvm_stress_failed")
			return
		}
		src := fmt.Sprintf("llvm-stress-14 -seed %d -size %d", seed, size)
		variant := rapid.IntRange(-1, len(corpus.OptPipelines)-1).Draw(rt, "opt")
		if variant >= 0 {
			y := corpus.Opt(x, variant)
			if y == "" {
				hx.Discard("opt_failed")
				return
			}
			x = y
			src += " | opt-14 " + strings.Join(corpus.OptPipelines[variant], " ")
		}
		hx.Eval(1)
		if judge(rt, test, src, x, true) {
			hx.NonTrivial(x)
		}
		hx.SampleCase(test, src)
	})
}

func TestClangCorpus(t *testing.T) {
	const test = "ClangCorpus"
	hx.Rule(test, "clang-14 output for corpus/src x corpus.ClangVariants (see C01): same fixpoint and structural-identity oracle; a module the parser rejects is discarded")
	for i, c := range corpus.ClangCases() {
		if !hx.Mine(i) {
			continue
		}
		x := c.Text()
		if x == "" {
			hx.Discard("clang_rejects_combination")
			continue
		}
		hx.Eval(1)
		if judge(t, test, "clang-14 "+c.Name(), x, true) {
			hx.NonTrivial("clang/" + c.Name())
		}
	}
}

func TestMutatedCorpus(t *testing.T) {
	const test = "MutatedCorpus"
	hx.Rule(test, "repository testdata and llvm-stress programs changed by 1..3 drawn text mutations (h/mut), kept when llvm-as and the parser accept them: same fixpoint and structural-identity oracle; non-trivial = valid mutated text; distinct by digest")
	hx.Check(t, test, hx.N(60, 3000), func(rt *rapid.T) {
		x, desc, ok := mut.Valid(rt)
		if !ok {
			hx.Discard("mutated_text_not_valid_or_not_accepted")
			return
		}
		hx.Eval(1)
		if judge(rt, test, desc, x, true) {
			hx.NonTrivial(x)
		}
	})
}

func TestReplay(t *testing.T) {
	path := os.Getenv("VERIF_REPLAY")
	if path == "" {
		t.Skip()
	}
	buf, err := os.ReadFile(path)
	if err != nil {
		t.Fatal(err)
	}
	if replayRenamed(t, string(buf)) {
		return
	}
	judge(t, "Replay", "replay", string(buf), false)
}

func TestGenerated(t *testing.T) {
	const test = "Generated"
	hx.Rule(test, "modules from the harness' typed generator rendered with maximal spelling noise (explicit and implicit numbering, redundantly quoted names, \\XX escapes for printable bytes, comments, varied indentation, hex integers, full callee types, sparse and permuted metadata IDs, shuffled top-level order): same oracle; every case of a validated sub-batch (every 10th) is passed through llvm-as so that the acceptance rate of the generator is measured; non-trivial = the printed output differs from the input text")
	hx.Check(t, test, hx.N(400, 12000), func(rt *rapid.T) {
		cfg := gen.DefaultCfg()
		cfg.Off = map[string]bool{"retattr-align": true, "freeze-metadata": true} // inputs the parser cannot read are outside C02's domain
		cfg.LLVM15 = rapid.IntRange(0, 2).Draw(rt, "llvm15") == 0                 // keywords LLVM 14 does not know: the library's own fixpoint is the judge
		m, feats := gen.Module(rt, cfg)
		gen.SparseMetadataIDs(rt, m)
		noise := gen.DrawNoiseWithAliases(rt)
		if _, aliased := noise.TypeAlias["i8"]; aliased && kfNamedI8 && strings.Contains(m.Text(), "blockaddress(") {
			// known finding: the named alias of i8 is not kept at blockaddress positions
			delete(noise.TypeAlias, "i8")
			kf.Hit("KF-C02-named-i8-blockaddress")
		}
		if noise.VecAlias && (kfNamedVec || kfNamedTwoStep) {
			// known finding: the name of a vector type is not kept where the IR derives the type of a value itself
			noise.VecAlias = false
			if kfNamedVec {
				kf.Hit("KF-C02-named-vector-derived-type")
			}
			if kfNamedTwoStep {
				kf.Hit("KF-C02-named-nonstruct-two-step")
			}
		}
		x := m.TextNoisy(noise)
		hx.Eval(1)
		validated++
		if validated%10 == 0 {
			if llvmx.Accept(x).OK {
				hx.Hist("validated_subbatch/llvm_accepts")
			} else {
				hx.Hist("validated_subbatch/llvm_rejects")
			}
		}
		if judge(rt, test, "own-generator", x, false) {
			hx.NonTrivial(x)
			for k, v := range feats {
				hx.HistN(k, v)
			}
		}
		hx.SampleCase(test, x)
	})
}

var validated int
