package c02

import (
	"strings"
	"testing"

	"pgregory.net/rapid"

	"verif/h/gen"
	"verif/h/hx"
	"verif/h/llvmx"
	"verif/h/lx"
	"verif/h/orc"
)

// checkRenamed: the text printed after locals were renamed through the API is printed text like any
// other: the parser accepts it and parse-then-print reproduces it byte for byte.
func checkRenamed(t hx.TB, test, x string, seed uint64) (map[string]int, bool) {
	c := orc.EditedCase(seed, x)
	_, y, stats, o := orc.PrintAfterRenames(x, seed)
	switch o.V {
	case orc.Discard:
		hx.Discard("renamed/" + o.Class)
		return nil, false
	case orc.Violation:
		hx.Fail(t, test, "ll", c, "%s", o.Describe())
	}
	fail := func(format string, args ...any) {
		if !llvmx.Accept(x).OK {
			hx.Discard("renamed/violation_outside_domain(llvm_rejects_input)")
			return
		}
		hx.Fail(t, test, "ll", c, format, args...)
	}
	m2, err, p := lx.Parse(y)
	if err != nil || p != nil {
		fail("the text printed after locals were renamed through the API is not accepted by the parser: %v %v\n--- printed ---\n%s", err, p, y)
		return stats, false
	}
	z, pp := lx.Print(m2)
	if pp != nil {
		fail("printing the re-parsed module panics: %s", pp)
		return stats, false
	}
	if z != y {
		fail("the text printed after locals were renamed through the API is not a fixpoint of parse and print (- printed, + parsed and printed again):\n%s", llvmx.Diff(y, z))
		return stats, false
	}
	return stats, true
}

// TestRenamedThroughAPI: printed text stays a fixpoint when the module was edited between parse and print.
func TestRenamedThroughAPI(t *testing.T) {
	const test = "RenamedThroughAPI"
	hx.Rule(test, "generated modules, parsed, printed once, then a seeded random subset of parameters, blocks and instruction results renamed through SetName (to another name, to unnamed, from unnamed to a name) and printed again: the second print is accepted by the parser, and parsing and printing it reproduces it byte for byte; non-trivial = at least one value went from named to unnamed or back")
	hx.Check(t, test, hx.N(200, 6000), func(rt *rapid.T) {
		cfg := gen.DefaultCfg()
		cfg.Off = map[string]bool{"retattr-align": true, "freeze-metadata": true}
		m, _ := gen.Module(rt, cfg)
		x := m.Text()
		seed := rapid.Uint64().Draw(rt, "renameSeed")
		hx.Eval(1)
		stats, ok := checkRenamed(rt, test, x, seed)
		if !ok {
			return
		}
		for k, v := range stats {
			hx.HistN("rename/"+k, v)
		}
		if stats["named->unnamed"]+stats["unnamed->named"] > 0 {
			hx.NonTrivial(orc.EditedCase(seed, x))
		}
	})
}

func replayRenamed(t *testing.T, x string) bool {
	seed, ok := orc.RenameSeedOf(x)
	if !ok {
		return false
	}
	checkRenamed(t, "Replay", strings.SplitN(x, "\n", 2)[1], seed)
	return true
}
