package c17

import (
	"fmt"
	"os"
	"regexp"
	"sort"
	"strconv"
	"strings"
	"testing"

	"github.com/llir/llvm/ir"
	"github.com/llir/llvm/ir/metadata"
	"pgregory.net/rapid"

	"verif/h/am"
	"verif/h/corpus"
	"verif/h/emit"
	"verif/h/gen"
	"verif/h/hx"
	"verif/h/kf"
	"verif/h/llvmx"
	"verif/h/lx"
	"verif/h/orc"
)

var genOff = map[string]bool{"retattr-align": true, "freeze-metadata": true}

func TestMain(m *testing.M) {
	hx.Main(m, "C17", func() {
		if kf.Activate("KF-C17-di-default-true-bools", func(in string) bool {
			o := orc.ParsePrintPreserves(in, orc.Opts{OwnGenerator: true})
			return o.V == orc.Violation && o.Class == "meaning_changed"
		}) {
			genOff["di-default-true-bools"] = true
		}
		if kf.Activate("KF-C17-dwarfAddressSpace-zero", func(in string) bool {
			o := orc.ParsePrintPreserves(in, orc.Opts{OwnGenerator: true})
			return o.V == orc.Violation && o.Class == "meaning_changed"
		}) {
			genOff["di-dwarfAddressSpace-zero"] = true
		}
	})
}

var reDef = regexp.MustCompile(`(?m)^!(\d+) = (distinct )?`)

// defs returns the metadata IDs defined in text (in order) and which of them are distinct.
func defs(text string) (ids []int, distinct map[int]bool) {
	distinct = map[int]bool{}
	for _, m := range reDef.FindAllStringSubmatch(text, -1) {
		n, _ := strconv.Atoi(m[1])
		ids = append(ids, n)
		if m[2] != "" {
			distinct[n] = true
		}
	}
	return
}

// checkIDs checks the ID rules on a printed module: unique, ascending (C20), explicit IDs of the input kept.
func checkIDs(t hx.TB, test, c, out string, keep []int, distinctIn map[int]bool) {
	ids, dist := defs(out)
	seen := map[int]bool{}
	for _, id := range ids {
		if seen[id] {
			hx.Fail(t, test, "ll", c, "metadata ID !%d is defined twice in the printed module\n%s", id, out)
		}
		seen[id] = true
	}
	for _, id := range keep {
		if !seen[id] {
			hx.Fail(t, test, "ll", c, "the explicitly numbered node !%d of the input has no definition with that number in the printed module\n%s", id, out)
		}
		if distinctIn != nil && dist[id] != distinctIn[id] {
			hx.Fail(t, test, "ll", c, "node !%d: distinct=%v in the input, %v in the printed module", id, distinctIn[id], dist[id])
		}
	}
}

// refCounts scans module text (outside strings and comments) and counts the references `!N` per ID;
// the definition `!N = ...` itself is not a reference.
func refCounts(text string) map[int]int {
	out := map[int]int{}
	lineStart := true
	for i := 0; i < len(text); {
		c := text[i]
		switch {
		case c == '"':
			i++
			for i < len(text) && text[i] != '"' {
				i++
			}
			i++
			lineStart = false
		case c == ';':
			for i < len(text) && text[i] != '\n' {
				i++
			}
		case c == '\n':
			lineStart = true
			i++
		case c == '!' && i+1 < len(text) && text[i+1] >= '0' && text[i+1] <= '9':
			j := i + 1
			for j < len(text) && text[j] >= '0' && text[j] <= '9' {
				j++
			}
			n, _ := strconv.Atoi(text[i+1 : j])
			k := j
			for k < len(text) && (text[k] == ' ' || text[k] == '\t') {
				k++
			}
			if !(lineStart && k < len(text) && text[k] == '=') {
				out[n]++
			}
			i = j
			lineStart = false
		case c == ' ' || c == '\t':
			i++
		default:
			i++
			lineStart = false
		}
	}
	return out
}

// checkRefCounts: explicit IDs are kept, so every reference `!N` of the input is a reference `!N` of the
// output (a reference that became an inline copy, or an inline node that became a reference, shows here).
func checkRefCounts(t hx.TB, test, x, out string) {
	in, got := refCounts(x), refCounts(out)
	var ids []int
	for id := range in {
		ids = append(ids, id)
	}
	for id := range got {
		if _, ok := in[id]; !ok {
			ids = append(ids, id)
		}
	}
	sort.Ints(ids)
	for _, id := range ids {
		if in[id] != got[id] {
			hx.Fail(t, test, "ll", x, "the input refers to !%d %d time(s), the printed module %d time(s): a reference was replaced by a copy of the node (or a node by a reference)\n%s", id, in[id], got[id], out)
		}
	}
}

// identity checks that every reference to a numbered node in the parsed module is the defining object.
func identity(pm *ir.Module) string {
	def := map[metadata.Definition]bool{}
	byID := map[int64]metadata.Definition{}
	for _, d := range pm.MetadataDefs {
		def[d] = true
		if prev, ok := byID[d.ID()]; ok && prev != d {
			return fmt.Sprintf("two definitions carry ID %d", d.ID())
		}
		byID[d.ID()] = d
	}
	var bad string
	seen := map[any]bool{}
	var visit func(f any, where string)
	visit = func(f any, where string) {
		if bad != "" || f == nil {
			return
		}
		if d, ok := f.(metadata.Definition); ok {
			if d.ID() != -1 && !def[d] {
				bad = fmt.Sprintf("%s refers to a node with ID %d that is not the object defining !%d", where, d.ID(), d.ID())
				return
			}
			if seen[d] {
				return
			}
			seen[d] = true
		}
		switch n := f.(type) {
		case *metadata.Tuple:
			for i, x := range n.Fields {
				visit(x, fmt.Sprintf("%s field %d", where, i))
			}
		}
	}
	for _, d := range pm.MetadataDefs {
		visit(d, d.Ident())
	}
	for name, nd := range pm.NamedMetadataDefs {
		for i, n := range nd.Nodes {
			visit(n, fmt.Sprintf("!%s operand %d", name, i))
		}
	}
	for _, f := range pm.Funcs {
		for _, a := range f.Metadata {
			visit(a.Node, f.Ident()+" attachment !"+a.Name)
		}
		for _, b := range f.Blocks {
			for _, in := range b.Insts {
				if ma, ok := in.(interface{ MDAttachments() []*metadata.Attachment }); ok {
					for _, a := range ma.MDAttachments() {
						visit(a.Node, f.Ident()+" instruction attachment !"+a.Name)
					}
				}
			}
		}
	}
	for _, g := range pm.Globals {
		for _, a := range g.Metadata {
			visit(a.Node, g.Ident()+" attachment !"+a.Name)
		}
	}
	return bad
}

func cfg() gen.Cfg {
	c := gen.DefaultCfg()
	c.DebugInfo = true
	c.MaxFuncs = 3
	c.MaxBlocks = 3
	c.MaxInsts = 4
	c.Off = genOff
	c.Count = func(f string) { hx.Known("excluded:" + f) }
	return c
}

// splitNamed turns one named-metadata definition with >= 2 operands into two definitions of the same name.
func splitNamed(m *am.Module, rt *rapid.T) bool {
	for i, nm := range m.NamedMDs {
		if len(nm.Nodes) >= 2 && nm.Name != "llvm.dbg.cu" && nm.Name != "llvm.module.flags" {
			k := rapid.IntRange(1, len(nm.Nodes)-1).Draw(rt, "splitAt")
			second := &am.NamedMD{Name: nm.Name, Nodes: append([]*am.MDField{}, nm.Nodes[k:]...)}
			nm.Nodes = nm.Nodes[:k]
			m.NamedMDs = append(m.NamedMDs, second)
			// the second definition must come textually after the first
			var order []am.Top
			for _, t := range m.Order {
				order = append(order, t)
			}
			order = append(order, am.Top{K: am.TopNamedMD, Idx: len(m.NamedMDs) - 1})
			m.Order = order
			_ = i
			return true
		}
	}
	return false
}

func TestMetadataGraphsFromText(t *testing.T) {
	const test = "MetadataGraphsFromText"
	hx.Rule(test, "generated modules with generic metadata (tuples, strings, constants, inline nodes, cycles through distinct nodes, forward references) and a verifier-clean debug-info graph (DICompileUnit, DIFile, DIBasicType, DIStringType, DIDerivedType, DICompositeType, DISubroutineType, DIEnumerator, DISubrange, template parameters, DINamespace, DIModule, DISubprogram, DILexicalBlock(File), DILocalVariable, DILabel, DIGlobalVariable(Expression), DIImportedEntity, DIMacro(File), DICommonBlock, DIObjCProperty, GenericDINode, DIExpression, DILocation inline and numbered) with random field subsets, sparse and permuted IDs, attachments on globals, functions and instructions, and named metadata defined once or twice: (1) llvm-as|llvm-dis reads the same module (every field, distinctness, references) from the library's output; (2) printed IDs are unique and every explicit ID of the input is kept, with its distinctness; (3) in the parsed module every reference to !N is the object defining !N; (4) a named metadata node defined twice is merged in textual order. Non-trivial = module with >= 5 specialised nodes")
	hx.Check(t, test, hx.N(120, 3000), func(rt *rapid.T) {
		m, feats := gen.Module(rt, cfg())
		gen.SparseMetadataIDs(rt, m)
		split := splitNamed(m, rt)
		noise := gen.DrawNoise(rt)
		noise.SplitAttrGroups = false // attribute groups are not C17's subject (and see KF-C01-attrgroup-redefinition)
		x := m.TextNoisy(noise)
		hx.Eval(1)
		hx.Trace(test, "ll", x)
		o := orc.ParsePrintPreserves(x, orc.Opts{OwnGenerator: true})
		switch o.V {
		case orc.Discard:
			hx.Discard(o.Class)
			return
		case orc.Violation:
			hx.Fail(rt, test, "ll", x, "%s", o.Describe())
		}
		ids, dist := defs(x)
		checkIDs(rt, test, x, o.Out, ids, dist)
		// more than one module: another module with metadata of its own (same IDs, same names of named metadata)
		// is parsed and held while the first is judged: the first module must still print what it printed, and
		// its references must still be its own definitions
		if other, _ := gen.Module(rt, cfg()); other != nil {
			held, _, _ := lx.Parse(other.Text())
			if again, pp := lx.Print(o.M); pp != nil || again != o.Out {
				hx.Fail(rt, test, "ll", x+"\n; ---- parsed afterwards and held ----\n"+other.Text(), "after another module was parsed the first module prints differently (%v):\n%s", pp, llvmx.Diff(o.Out, again))
			}
			_ = held
			hx.Hist("judged_while_another_parsed_module_is_held")
		}
		if s := identity(o.M); s != "" {
			hx.Fail(rt, test, "ll", x, "%s", s)
		}
		checkRefCounts(rt, test, x, o.Out)
		if split {
			hx.Hist("named_metadata_defined_twice")
		}
		nd := 0
		for k, v := range feats {
			if strings.HasPrefix(k, "di/") {
				nd += v
				hx.HistN(k, v)
			}
		}
		if nd >= 5 {
			hx.NonTrivial(x)
		}
		hx.SampleCase(test, x)
	})
}

func TestClangCorpus(t *testing.T) {
	const test = "ClangCorpus"
	hx.Rule(test, "clang-14 output with debug info (-g variants of corpus.ClangVariants over corpus/src; real DICompileUnit/DISubprogram/DICompositeType/DILocation graphs, TBAA and loop metadata): (1) LLVM reads the same module from the library's output, (2) printed IDs are unique and every explicit ID of the input is kept with its distinctness, (3) every reference to !N in the parsed module is the object defining !N; a module the parser rejects is discarded")
	for i, c := range corpus.ClangCases() {
		if !hx.Mine(i) {
			continue
		}
		dbg := false
		for _, f := range c.Flags {
			if f == "-g" {
				dbg = true
			}
		}
		if !dbg {
			continue
		}
		x := c.Text()
		if x == "" {
			hx.Discard("clang_rejects_combination")
			continue
		}
		x = kf.RewriteDebugInfo(x, "C17", genOff["di-default-true-bools"], genOff["di-dwarfAddressSpace-zero"])
		hx.Eval(1)
		hx.Trace(test, "ll", x)
		o := orc.ParsePrintPreserves(x, orc.Opts{})
		switch o.V {
		case orc.Discard:
			hx.Discard("clang/" + o.Class)
			continue
		case orc.Violation:
			hx.Fail(t, test, "ll", "; source: clang-14 "+c.Name()+"\n"+x, "%s", o.Describe())
		}
		ids, dist := defs(x)
		checkIDs(t, test, x, o.Out, ids, dist)
		checkRefCounts(t, test, x, o.Out)
		if s := identity(o.M); s != "" {
			hx.Fail(t, test, "ll", x, "%s", s)
		}
		hx.NonTrivial("clang/" + c.Name())
	}
}

func TestUnassignedIDsThroughAPI(t *testing.T) {
	const test = "UnassignedIDsThroughAPI"
	hx.Rule(test, "generic metadata graphs built through the API with a drawn subset of the definitions left unnumbered (ID -1) and the others numbered explicitly and sparsely: in the printed module IDs are unique, explicit IDs are kept, the k unnumbered definitions receive exactly the k smallest unused numbers (as a set), and llvm-as|llvm-dis reads the same graph as from the harness' own rendering (so every reference prints the ID of its target)")
	hx.Check(t, test, hx.N(150, 4000), func(rt *rapid.T) {
		c := gen.DefaultCfg()
		c.MaxFuncs = 2
		c.MaxBlocks = 2
		c.MaxInsts = 3
		c.Off = genOff
		m, _ := gen.Module(rt, c)
		if len(m.MDs) == 0 {
			hx.Discard("no_metadata_drawn")
			return
		}
		gen.SparseMetadataIDs(rt, m)
		m.Order = nil
		sort.SliceStable(m.U.Defs, func(i, j int) bool { return m.U.Defs[i].Name < m.U.Defs[j].Name })
		R := m.Text()
		rr := llvmx.Canon(R)
		if !rr.OK {
			hx.Discard("llvm_rejects_reference_rendering")
			return
		}
		hx.Eval(1)
		// build through the API, then un-number a drawn subset of the definitions
		var im *ir.Module
		if p := lx.Guard(func() { im, _ = emit.Module(m) }); p != nil {
			hx.Discard("constructor_panics(judged_by_C03)")
			return
		}
		var explicit []int
		used := map[int]bool{}
		unassigned := 0
		for _, d := range im.MetadataDefs {
			if rapid.IntRange(0, 2).Draw(rt, "unnumber") == 0 {
				d.SetID(-1)
				unassigned++
			} else {
				explicit = append(explicit, int(d.ID()))
				used[int(d.ID())] = true
			}
		}
		out, p := lx.Print(im)
		if p != nil {
			hx.Fail(rt, test, "ll", R, "printing a module with unnumbered metadata definitions panics: %s", p)
		}
		checkIDs(rt, test, R, out, explicit, nil)
		// the set of new IDs
		ids, _ := defs(out)
		var fresh []int
		for _, id := range ids {
			if !used[id] {
				fresh = append(fresh, id)
			}
		}
		sort.Ints(fresh)
		var want []int
		for n := 0; len(want) < unassigned; n++ {
			if !used[n] {
				want = append(want, n)
			}
		}
		if fmt.Sprint(fresh) != fmt.Sprint(want) {
			hx.Fail(rt, test, "ll", R, "%d unnumbered definitions (explicit IDs in use: %v) received IDs %v, the smallest unused numbers are %v\n%s", unassigned, explicit, fresh, want, out)
		}
		ry := llvmx.Canon(out)
		if ry.Crashed {
			hx.Discard("oracle_unavailable")
			return
		}
		if !ry.OK {
			hx.Fail(rt, test, "ll", R, "LLVM rejects the printed module: %s\n%s", ry.Err, out)
		}
		if a, b := llvmx.Normalize(rr.Out), llvmx.Normalize(ry.Out); a != b {
			hx.Fail(rt, test, "ll", R, "after ID assignment the printed metadata graph differs from what was constructed:\n%s\n%s", llvmx.Diff(a, b), out)
		}
		if unassigned > 0 && len(explicit) > 0 {
			hx.NonTrivial(R + fmt.Sprint(explicit))
		}
		hx.Hist(fmt.Sprintf("unassigned/%d", min(unassigned, 6)))
	})
}

func TestNamedMetadataMerge(t *testing.T) {
	const test = "NamedMetadataMerge"
	hx.Rule(test, "fixed and drawn texts in which a named metadata node is defined two or three times: the parsed node lists the operands of all definitions in textual order")
	hx.Check(t, test, hx.N(200, 3000), func(rt *rapid.T) {
		n := rapid.IntRange(2, 6).Draw(rt, "nodes")
		parts := rapid.IntRange(2, 3).Draw(rt, "parts")
		var sb strings.Builder
		var want []string
		k := 0
		for p := 0; p < parts; p++ {
			cnt := rapid.IntRange(0, 2).Draw(rt, "cnt")
			var refs []string
			for i := 0; i < cnt && k < n; i++ {
				refs = append(refs, fmt.Sprintf("!%d", k))
				want = append(want, fmt.Sprintf("!%d", k))
				k++
			}
			fmt.Fprintf(&sb, "!nm = !{%s}\n", strings.Join(refs, ", "))
			if rapid.Bool().Draw(rt, "other") {
				fmt.Fprintf(&sb, "!other%d = !{}\n", p)
			}
		}
		for i := 0; i < k; i++ {
			fmt.Fprintf(&sb, "!%d = !{i32 %d}\n", i, i)
		}
		x := sb.String()
		hx.Eval(1)
		pm, err, p := lx.Parse(x)
		if err != nil || p != nil {
			if llvmx.Accept(x).OK {
				hx.Fail(rt, test, "ll", x, "repeated named metadata definition is not accepted: %v %s", err, p)
			}
			hx.Discard("llvm_rejects")
			return
		}
		nd := pm.NamedMetadataDefs["nm"]
		var got []string
		if nd != nil {
			for _, x := range nd.Nodes {
				got = append(got, x.Ident())
			}
		}
		if fmt.Sprint(got) != fmt.Sprint(want) {
			if llvmx.Accept(x).OK {
				hx.Fail(rt, test, "ll", x, "!nm lists %v, the definitions in textual order give %v", got, want)
			}
		}
		hx.NonTrivial(x)
	})
}

func TestReplay(t *testing.T) {
	path := os.Getenv("VERIF_REPLAY")
	if path == "" {
		t.Skip()
	}
	buf, err := os.ReadFile(path)
	if err != nil {
		t.Fatal(err)
	}
	x := string(buf)
	o := orc.ParsePrintPreserves(x, orc.Opts{OwnGenerator: true})
	if o.V == orc.Violation {
		hx.Fail(t, "Replay", "ll", x, "%s", o.Describe())
	}
	if o.V == orc.OK {
		ids, dist := defs(x)
		checkIDs(t, "Replay", x, o.Out, ids, dist)
		if s := identity(o.M); s != "" {
			hx.Fail(t, "Replay", "ll", x, "%s", s)
		}
	}
}
