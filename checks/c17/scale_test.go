package c17

import (
	"fmt"
	"sort"
	"testing"

	"github.com/llir/llvm/ir"
	"github.com/llir/llvm/ir/metadata"
	"pgregory.net/rapid"

	"verif/h/hx"
	"verif/h/llvmx"
	"verif/h/lx"
)

// TestManyDefinitionsThroughAPI: ID assignment at scale. A list of n tuple definitions (n around the
// sizes where word-sized bitmaps, pre-sized tables and two- or three-digit numbers begin) is built
// directly through the metadata API; runs of explicit IDs (dense, so that they cross multiples of 64
// and of 10) alternate with unnumbered definitions. Every tuple carries a marker string and references
// to other tuples, so that the printed graph can be read back and compared by marker.
func TestManyDefinitionsThroughAPI(t *testing.T) {
	const test = "ManyDefinitionsThroughAPI"
	hx.Rule(test, "n tuple definitions built through the metadata API, n drawn from {2..12, 60..70, 126..132, 250..260, 500..520}; each is unnumbered with a per-case probability from {1/50, 1/10, 1/3, 2/3} and otherwise explicitly numbered in dense runs with occasional gaps, in shuffled list order; each tuple holds a marker string and up to three references to other tuples (forward and backward). Printed module: IDs unique, explicit IDs kept, the k unnumbered definitions receive exactly the k smallest unused numbers, llvm-as accepts it, and after parsing it back every tuple (found by its marker) refers to the tuples with the expected markers. Then up to three unreferenced entries of the list (never the last) are replaced in place by new unnumbered definitions and the module is printed again: every listed definition is numbered, IDs are unique, LLVM and the parser accept the text and the graph is the same. Non-trivial = at least 65 definitions with both kinds present")
	hx.Check(t, test, hx.N(120, 4000), func(rt *rapid.T) {
		var n int
		switch rapid.IntRange(0, 4).Draw(rt, "size") {
		case 0:
			n = rapid.IntRange(2, 12).Draw(rt, "n")
		case 1:
			n = rapid.IntRange(60, 70).Draw(rt, "n")
		case 2:
			n = rapid.IntRange(126, 132).Draw(rt, "n")
		case 3:
			n = rapid.IntRange(250, 260).Draw(rt, "n")
		default:
			n = rapid.IntRange(500, 520).Draw(rt, "n")
		}
		pUn := rapid.SampledFrom([]int{50, 10, 3, -3}).Draw(rt, "unnumberedOneIn") // -3: two in three
		defs := make([]*metadata.Tuple, n)
		next := int64(rapid.IntRange(0, 2).Draw(rt, "firstID"))
		var explicit []int
		used := map[int]bool{}
		unassigned := 0
		for i := range defs {
			d := &metadata.Tuple{MetadataID: -1}
			un := false
			if pUn > 0 {
				un = rapid.IntRange(0, pUn-1).Draw(rt, "un") == 0
			} else {
				un = rapid.IntRange(0, 2).Draw(rt, "un") != 0
			}
			if un {
				unassigned++
			} else {
				if rapid.IntRange(0, 15).Draw(rt, "gap") == 0 {
					next += int64(rapid.IntRange(1, 70).Draw(rt, "gaplen"))
				}
				d.MetadataID = metadata.MetadataID(next)
				explicit = append(explicit, int(next))
				used[int(next)] = true
				next++
			}
			defs[i] = d
		}
		refs := make([][]int, n)
		for i, d := range defs {
			d.Fields = append(d.Fields, &metadata.String{Value: fmt.Sprintf("n%d", i)})
			for k := rapid.IntRange(0, 3).Draw(rt, "nrefs"); k > 0; k-- {
				j := rapid.IntRange(0, n-1).Draw(rt, "ref")
				if j == i {
					continue // a non-distinct tuple cannot refer to itself
				}
				// keep the graph acyclic for uniqued nodes: refer downwards only
				if j > i {
					j = i - 1 - (j-i)%(i+1)
					if j < 0 {
						continue
					}
				}
				d.Fields = append(d.Fields, defs[j])
				refs[i] = append(refs[i], j)
			}
		}
		m := ir.NewModule()
		order := rapid.Permutation(defs).Draw(rt, "listOrder")
		for _, d := range order {
			m.MetadataDefs = append(m.MetadataDefs, d)
		}
		all := &metadata.NamedDef{Name: "all"}
		for _, d := range defs {
			all.Nodes = append(all.Nodes, d)
		}
		m.NamedMetadataDefs["all"] = all
		hx.Eval(1)
		c := fmt.Sprintf("n=%d unnumbered=%d explicit IDs=%v", n, unassigned, explicit)
		out, p := lx.Print(m)
		if p != nil {
			hx.Fail(rt, test, "txt", c, "printing panics: %s", p)
		}
		checkIDs(rt, test, c, out, explicit, nil)
		ids, _ := defsOf(out)
		var fresh []int
		for _, id := range ids {
			if !used[id] {
				fresh = append(fresh, id)
			}
		}
		sort.Ints(fresh)
		var want []int
		for k := 0; len(want) < unassigned; k++ {
			if !used[k] {
				want = append(want, k)
			}
		}
		if fmt.Sprint(fresh) != fmt.Sprint(want) {
			hx.Fail(rt, test, "txt", c+"\n"+out, "%d unnumbered definitions received IDs %v, the smallest unused numbers are %v", unassigned, fresh, want)
		}
		if r := llvmx.Accept(out); !r.OK && !r.Crashed {
			hx.Fail(rt, test, "txt", c+"\n"+out, "LLVM rejects the printed module: %s", r.Err)
		}
		pm, err, pp := lx.Parse(out)
		if err != nil || pp != nil {
			hx.Fail(rt, test, "txt", c+"\n"+out, "the printed module is not accepted by the parser: %v %v", err, pp)
		}
		marker := func(d metadata.Definition) string {
			if tp, ok := d.(*metadata.Tuple); ok && len(tp.Fields) > 0 {
				if s, ok := tp.Fields[0].(*metadata.String); ok {
					return s.Value
				}
			}
			return "?"
		}
		got := map[string][]string{}
		for _, d := range pm.MetadataDefs {
			tp, ok := d.(*metadata.Tuple)
			if !ok {
				continue
			}
			var rs []string
			for _, f := range tp.Fields[1:] {
				if fd, ok := f.(metadata.Definition); ok {
					rs = append(rs, marker(fd))
				}
			}
			got[marker(d)] = rs
		}
		if len(got) != n {
			hx.Fail(rt, test, "txt", c+"\n"+out, "%d definitions were built, %d distinct ones are read back", n, len(got))
		}
		for i := range defs {
			var wantRefs []string
			for _, j := range refs[i] {
				wantRefs = append(wantRefs, fmt.Sprintf("n%d", j))
			}
			if fmt.Sprint(got[fmt.Sprintf("n%d", i)]) != fmt.Sprint(wantRefs) {
				hx.Fail(rt, test, "txt", c+"\n"+out, "tuple n%d refers to %v in the printed module, it was built with references to %v", i, got[fmt.Sprintf("n%d", i)], wantRefs)
			}
		}
		// second phase: the list is edited after the print (entries that nothing refers to are replaced
		// in place by new unnumbered definitions, never the last one) and the module is printed again
		referred := map[int]bool{}
		for _, rs := range refs {
			for _, j := range rs {
				referred[j] = true
			}
		}
		pos := map[*metadata.Tuple]int{}
		for li, d := range order {
			pos[d] = li
		}
		edits := 0
		for i, d := range defs {
			li := pos[d]
			if referred[i] || li == len(order)-1 || edits >= 3 || rapid.IntRange(0, 3).Draw(rt, "replace") != 0 {
				continue
			}
			nd := &metadata.Tuple{MetadataID: -1}
			nd.Fields = append(nd.Fields, &metadata.String{Value: fmt.Sprintf("n%d", i)})
			nd.Fields = append(nd.Fields, d.Fields[1:]...)
			m.MetadataDefs[li] = nd
			all.Nodes[i] = nd
			defs[i] = nd
			edits++
		}
		if edits > 0 {
			out2, p2 := lx.Print(m)
			c2 := c + fmt.Sprintf("\nthen %d unreferenced entries of MetadataDefs replaced in place by unnumbered definitions, printed again", edits)
			if p2 != nil {
				hx.Fail(rt, test, "txt", c2, "the second print panics: %s", p2)
			}
			ids2, _ := defsOf(out2)
			seen := map[int]bool{}
			for _, id := range ids2 {
				if seen[id] {
					hx.Fail(rt, test, "txt", c2+"\n"+out2, "metadata ID !%d is defined twice after the edit", id)
				}
				seen[id] = true
			}
			if len(ids2) != n {
				hx.Fail(rt, test, "txt", c2+"\n"+out2, "%d definitions are listed, the printed module numbers %d of them (an entry put into the list after a print got no number)", n, len(ids2))
			}
			if r := llvmx.Accept(out2); !r.OK && !r.Crashed {
				hx.Fail(rt, test, "txt", c2+"\n"+out2, "LLVM rejects the module printed after the edit: %s", r.Err)
			}
			pm2, err2, pp2 := lx.Parse(out2)
			if err2 != nil || pp2 != nil {
				hx.Fail(rt, test, "txt", c2+"\n"+out2, "the module printed after the edit is not accepted by the parser: %v %v", err2, pp2)
			}
			got2 := map[string][]string{}
			for _, d := range pm2.MetadataDefs {
				tp, ok := d.(*metadata.Tuple)
				if !ok {
					continue
				}
				var rs []string
				for _, f := range tp.Fields[1:] {
					if fd, ok := f.(metadata.Definition); ok {
						rs = append(rs, marker(fd))
					}
				}
				got2[marker(d)] = rs
			}
			for i := range defs {
				var wantRefs []string
				for _, j := range refs[i] {
					wantRefs = append(wantRefs, fmt.Sprintf("n%d", j))
				}
				if fmt.Sprint(got2[fmt.Sprintf("n%d", i)]) != fmt.Sprint(wantRefs) {
					hx.Fail(rt, test, "txt", c2+"\n"+out2, "after the edit tuple n%d refers to %v, it was built with references to %v", i, got2[fmt.Sprintf("n%d", i)], wantRefs)
				}
			}
			hx.Hist("edited_after_print")
		}
		if n >= 65 && unassigned > 0 && len(explicit) > 0 {
			hx.NonTrivial(c)
		}
		hx.Hist(fmt.Sprintf("definitions/%s", map[bool]string{true: ">=65", false: "<65"}[n >= 65]))
	})
}

func defsOf(text string) ([]int, map[int]bool) { return defs(text) }
