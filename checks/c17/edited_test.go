package c17

import (
	"fmt"
	"regexp"
	"sort"
	"strconv"
	"strings"
	"testing"

	"github.com/llir/llvm/ir"
	"github.com/llir/llvm/ir/metadata"
	"pgregory.net/rapid"

	"verif/h/hx"
	"verif/h/lx"
)

var defLine = regexp.MustCompile(`^!(\d+) = (distinct )?!\{(.*)\}$`)

// TestDefinitionListEdited: the statement holds for every print, also of a module whose list of metadata
// definitions was edited after an earlier print: definitions removed, replaced in their slot, inserted in
// front, appended, numbered explicitly or left unnumbered. After every print: IDs are unique; a node that had
// a number keeps it (a number handed out by an earlier print included); the k unnumbered nodes receive
// exactly the k smallest numbers no other node holds; every reference prints the ID of the node it points to.
func TestDefinitionListEdited(t *testing.T) {
	const test = "DefinitionListEdited"
	hx.Rule(test, "stateful: a module of metadata tuples built through the API (1..6 nodes, references between them, one named metadata node listing some) goes through 3..14 steps drawn from: print; append an unnumbered node; append a node with an explicit unused number; insert an unnumbered node in front; remove a node (references to it are removed too); replace a node in its slot of the list by a new node (unnumbered, or numbered with an unused number); a final print. Model: the list of (node, number or none). After every print the four statements of the property are checked on the text and on the objects; non-trivial = a removal or replacement happened after a print and an unnumbered node was added after that")
	hx.Check(t, test, hx.N(400, 30000), func(rt *rapid.T) {
		m := ir.NewModule()
		var log []string
		serial := 0
		refsTo := func(exclude *metadata.Tuple) []metadata.Field {
			var fs []metadata.Field
			for _, d := range m.MetadataDefs {
				if d.(*metadata.Tuple) != exclude && rapid.IntRange(0, 2).Draw(rt, "ref") == 0 {
					fs = append(fs, d.(*metadata.Tuple))
				}
			}
			return fs
		}
		unused := func() int64 {
			used := map[int64]bool{}
			for _, d := range m.MetadataDefs {
				used[d.ID()] = true
			}
			for {
				n := int64(rapid.IntRange(0, 2*len(m.MetadataDefs)+3).Draw(rt, "explicitID"))
				if !used[n] {
					return n
				}
			}
		}
		newNode := func(numbered bool) *metadata.Tuple {
			serial++
			n := &metadata.Tuple{MetadataID: -1, Distinct: rapid.Bool().Draw(rt, "distinct")}
			if numbered {
				n.MetadataID = metadata.MetadataID(unused())
			}
			// a payload that identifies the node in the text, then references
			n.Fields = append([]metadata.Field{&metadata.String{Value: fmt.Sprintf("n%d", serial)}}, refsTo(nil)...)
			return n
		}
		dropRefs := func(gone *metadata.Tuple) {
			strip := func(fs []metadata.Field) []metadata.Field {
				var out []metadata.Field
				for _, f := range fs {
					if f != metadata.Field(gone) {
						out = append(out, f)
					}
				}
				return out
			}
			for _, d := range m.MetadataDefs {
				d.(*metadata.Tuple).Fields = strip(d.(*metadata.Tuple).Fields)
			}
			for _, nd := range m.NamedMetadataDefs {
				var out []metadata.Node
				for _, n := range nd.Nodes {
					if n != metadata.Node(gone) {
						out = append(out, n)
					}
				}
				nd.Nodes = out
			}
		}
		for i := rapid.IntRange(1, 6).Draw(rt, "initial"); i > 0; i-- {
			m.MetadataDefs = append(m.MetadataDefs, newNode(rapid.IntRange(0, 2).Draw(rt, "numbered") == 0))
		}
		nm := &metadata.NamedDef{Name: "verif.nodes"}
		for _, d := range m.MetadataDefs {
			if rapid.Bool().Draw(rt, "listed") {
				nm.Nodes = append(nm.Nodes, d.(*metadata.Tuple))
			}
		}
		m.NamedMetadataDefs["verif.nodes"] = nm
		printed, editedAfterPrint, interesting := false, false, false
		history := func() string { return strings.Join(log, "\n") + "\n" }
		print := func() {
			before := map[*metadata.Tuple]int64{}
			for _, d := range m.MetadataDefs {
				before[d.(*metadata.Tuple)] = d.ID()
			}
			log = append(log, "print")
			out, p := lx.Print(m)
			if p != nil {
				hx.Fail(rt, test, "txt", history(), "printing panics: %s", p)
			}
			held := map[int64]bool{}
			k := 0
			for _, id := range before {
				if id >= 0 {
					held[id] = true
				} else {
					k++
				}
			}
			var want []int64
			for n := int64(0); len(want) < k; n++ {
				if !held[n] {
					want = append(want, n)
				}
			}
			seen := map[int64]*metadata.Tuple{}
			var got []int64
			for _, d := range m.MetadataDefs {
				n := d.(*metadata.Tuple)
				id := n.ID()
				if o, dup := seen[id]; dup || id < 0 {
					hx.Fail(rt, test, "txt", history(), "after the print two definitions hold the ID !%d (or a definition has none): %s and %s\n%s", id, o.Fields[0], n.Fields[0], out)
				}
				seen[id] = n
				if b := before[n]; b >= 0 && b != id {
					hx.Fail(rt, test, "txt", history(), "node %s had the number !%d before the print and has !%d after it\n%s", n.Fields[0], b, id, out)
				} else if b < 0 {
					got = append(got, id)
				}
			}
			sort.Slice(got, func(i, j int) bool { return got[i] < got[j] })
			if fmt.Sprint(got) != fmt.Sprint(want) {
				hx.Fail(rt, test, "txt", history(), "%d unnumbered definitions received the IDs %v; the smallest numbers that no other definition holds are %v\n%s", k, got, want, out)
			}
			// the text: one definition per node, with the node's ID, and references by the ID of their target
			lines := map[int64]string{}
			for _, l := range strings.Split(out, "\n") {
				if mm := defLine.FindStringSubmatch(l); mm != nil {
					id, _ := strconv.ParseInt(mm[1], 10, 64)
					if _, dup := lines[id]; dup {
						hx.Fail(rt, test, "txt", history(), "the printed module defines !%d twice\n%s", id, out)
					}
					lines[id] = mm[3]
				}
			}
			if len(lines) != len(m.MetadataDefs) {
				hx.Fail(rt, test, "txt", history(), "%d definitions in the list, %d definitions printed\n%s", len(m.MetadataDefs), len(lines), out)
			}
			for id, n := range seen {
				var want []string
				for _, f := range n.Fields {
					switch f := f.(type) {
					case *metadata.String:
						want = append(want, `!"`+f.Value+`"`)
					case *metadata.Tuple:
						want = append(want, fmt.Sprintf("!%d", f.ID()))
					}
				}
				if w := strings.Join(want, ", "); lines[id] != w {
					hx.Fail(rt, test, "txt", history(), "definition !%d is printed as !{%s}; its fields are, by the IDs of the nodes they point to, !{%s}\n%s", id, lines[id], w, out)
				}
			}
			var wantNamed []string
			for _, n := range nm.Nodes {
				wantNamed = append(wantNamed, fmt.Sprintf("!%d", n.(*metadata.Tuple).ID()))
			}
			if w := "!verif.nodes = !{" + strings.Join(wantNamed, ", ") + "}"; !strings.Contains(out, w+"\n") {
				hx.Fail(rt, test, "txt", history(), "the named metadata node is not printed as %s\n%s", w, out)
			}
			printed = true
		}
		hx.Eval(1)
		for n := rapid.IntRange(3, 14).Draw(rt, "steps"); n > 0; n-- {
			switch op := rapid.IntRange(0, 7).Draw(rt, "op"); {
			case op <= 1:
				print()
			case op == 2:
				nn := newNode(false)
				m.MetadataDefs = append(m.MetadataDefs, nn)
				log = append(log, fmt.Sprintf("append unnumbered %s", nn.Fields[0]))
				if editedAfterPrint {
					interesting = true
				}
			case op == 3:
				nn := newNode(true)
				m.MetadataDefs = append(m.MetadataDefs, nn)
				log = append(log, fmt.Sprintf("append %s numbered !%d", nn.Fields[0], nn.ID()))
			case op == 4:
				nn := newNode(false)
				m.MetadataDefs = append([]metadata.Definition{nn}, m.MetadataDefs...)
				log = append(log, fmt.Sprintf("insert unnumbered %s in front", nn.Fields[0]))
				if editedAfterPrint {
					interesting = true
				}
			case op == 5 && len(m.MetadataDefs) > 1:
				i := rapid.IntRange(0, len(m.MetadataDefs)-1).Draw(rt, "victim")
				gone := m.MetadataDefs[i].(*metadata.Tuple)
				m.MetadataDefs = append(append([]metadata.Definition{}, m.MetadataDefs[:i]...), m.MetadataDefs[i+1:]...)
				dropRefs(gone)
				log = append(log, fmt.Sprintf("remove %s (!%d)", gone.Fields[0], gone.ID()))
				editedAfterPrint = editedAfterPrint || printed
			case op >= 6 && len(m.MetadataDefs) > 0:
				i := rapid.IntRange(0, len(m.MetadataDefs)-1).Draw(rt, "slot")
				gone := m.MetadataDefs[i].(*metadata.Tuple)
				dropRefs(gone)
				m.MetadataDefs[i] = nil
				m.MetadataDefs = append(m.MetadataDefs[:i:i], m.MetadataDefs[i+1:]...)
				nn := newNode(rapid.Bool().Draw(rt, "numbered"))
				rest := append([]metadata.Definition{nn}, m.MetadataDefs[i:]...)
				m.MetadataDefs = append(m.MetadataDefs[:i], rest...)
				log = append(log, fmt.Sprintf("replace %s (!%d) in slot %d by %s (ID %d)", gone.Fields[0], gone.ID(), i, nn.Fields[0], nn.ID()))
				editedAfterPrint = editedAfterPrint || printed
			}
		}
		print()
		if interesting {
			hx.NonTrivial(history())
			hx.Hist("edited_after_a_print_then_unnumbered_added")
		}
		hx.SampleCase(test, history())
	})
}
