package c05

import (
	"fmt"
	"os"
	"regexp"
	"sort"
	"strings"
	"testing"

	"pgregory.net/rapid"

	"verif/h/corpus"
	"verif/h/gen"
	"verif/h/hx"
	"verif/h/llvmx"
	"verif/h/lx"
)

func TestMain(m *testing.M) { hx.Main(m, "C05", nil) }

// tok is an identifier occurrence in the text.
type tok struct {
	start, end int
	sigil      byte // % @ $ ! or ':' for a label definition
	text       string
	site       string // classification of the reference site
	def        bool
}

func isIdentChar(c byte) bool {
	return c >= 'a' && c <= 'z' || c >= 'A' && c <= 'Z' || c >= '0' && c <= '9' || c == '-' || c == '$' || c == '.' || c == '_' || c == '\\'
}

var reLabelDef = regexp.MustCompile(`(?m)^("(?:[^"\n])*"|[-a-zA-Z$._0-9]+):`)

// scan finds identifier tokens outside strings and comments and classifies their site.
func scan(x string) []tok {
	var out []tok
	lineStart := 0
	for i := 0; i < len(x); {
		c := x[i]
		switch {
		case c == '\n':
			lineStart = i + 1
			i++
		case c == ';':
			for i < len(x) && x[i] != '\n' {
				i++
			}
		case c == '"' || c == 'c' && i+1 < len(x) && x[i+1] == '"' && (i == 0 || !isIdentChar(x[i-1])):
			if c == 'c' {
				i++
			}
			j := i + 1
			for j < len(x) && x[j] != '"' && x[j] != '\n' {
				j++
			}
			i = j + 1
		case (c == '%' || c == '@' || c == '$' || c == '!') && i+1 < len(x):
			j := i + 1
			if x[j] == '"' {
				j++
				for j < len(x) && x[j] != '"' && x[j] != '\n' {
					j++
				}
				j++
			} else {
				for j < len(x) && isIdentChar(x[j]) {
					j++
				}
			}
			if j > i+1 && !(c == '!' && (x[i+1] == '{' || x[i+1] == '"')) {
				t := tok{start: i, end: j, sigil: c, text: x[i:j]}
				line := x[lineStart:lineEnd(x, i)]
				before := x[lineStart:i]
				after := ""
				if j < len(x) {
					after = x[j:lineEnd(x, j)]
				}
				t.site, t.def = classify(c, t.text, line, before, after)
				out = append(out, t)
			}
			if j <= i {
				j = i + 1
			}
			i = j
		default:
			i++
		}
	}
	for _, m := range reLabelDef.FindAllStringSubmatchIndex(x, -1) {
		out = append(out, tok{start: m[2], end: m[3], sigil: ':', text: x[m[2]:m[3]], site: "label-definition", def: true})
	}
	return out
}

func lineEnd(x string, i int) int {
	j := strings.IndexByte(x[i:], '\n')
	if j < 0 {
		return len(x)
	}
	return i + j
}

func classify(sigil byte, text, line, before, after string) (string, bool) {
	tb := strings.TrimSpace(before)
	ta := strings.TrimSpace(after)
	switch sigil {
	case '$':
		if tb == "" {
			return "comdat-definition", true
		}
		return "comdat-use", false
	case '!':
		isID := len(text) > 1 && text[1] >= '0' && text[1] <= '9'
		if tb == "" && strings.HasPrefix(ta, "=") {
			if isID {
				return "metadata-definition", true
			}
			return "named-metadata-definition", true
		}
		if !isID {
			return "metadata-kind-or-node-name", false
		}
		switch {
		case strings.HasPrefix(strings.TrimSpace(line), "!") && !strings.HasPrefix(strings.TrimSpace(line), "!{"):
			if strings.Contains(line, "= !{") || strings.Contains(line, "= distinct !{") {
				if strings.Index(line, "=") > 0 && line[0] == '!' && !(line[1] >= '0' && line[1] <= '9') {
					return "metadata-use-in-named-metadata", false
				}
				return "metadata-use-in-tuple", false
			}
			return "metadata-use-in-DI-field", false
		case strings.Contains(before, "metadata "):
			return "metadata-use-in-call-argument", false
		default:
			return "metadata-use-in-attachment", false
		}
	case '@':
		if tb == "" && strings.HasPrefix(ta, "=") {
			return "global-definition", true
		}
		if strings.HasPrefix(strings.TrimSpace(line), "define") || strings.HasPrefix(strings.TrimSpace(line), "declare") {
			if strings.HasPrefix(ta, "(") && !strings.Contains(before, "(") {
				return "function-definition", true
			}
			return "global-use-in-function-header", false
		}
		switch {
		case strings.HasSuffix(tb, "blockaddress(") && strings.HasPrefix(strings.TrimSpace(line), "uselistorder"):
			return "uselistorder-blockaddress-function", false
		case strings.HasSuffix(tb, "blockaddress("):
			return "blockaddress-function", false
		case strings.Contains(line, " alias ") || strings.Contains(line, " ifunc "):
			return "alias-target", false
		case strings.HasPrefix(strings.TrimSpace(line), "@"):
			return "global-use-in-initialiser", false
		case strings.HasPrefix(ta, "("):
			return "callee", false
		case strings.HasPrefix(strings.TrimSpace(line), "uselistorder"):
			return "uselistorder-target", false
		}
		return "global-use-in-instruction", false
	default: // %
		trimmed := strings.TrimSpace(line)
		if tb == "" && strings.HasPrefix(ta, "= type") {
			return "type-definition", true
		}
		if tb == "" && strings.HasPrefix(ta, "=") {
			return "local-definition", true
		}
		if strings.HasPrefix(trimmed, "declare") && (strings.HasPrefix(ta, ",") || strings.HasPrefix(ta, ")")) && !strings.HasSuffix(tb, ",") && !strings.HasSuffix(tb, "(") && strings.Contains(before, "(") {
			return "declaration-parameter-definition", true
		}
		if strings.HasPrefix(trimmed, "define") && !strings.Contains(before, "personality") {
			// inside the header: either a parameter name (after a type) or a type use
			if strings.HasPrefix(ta, ",") || strings.HasPrefix(ta, ")") {
				if strings.HasSuffix(tb, ",") || strings.HasSuffix(tb, "(") {
					return "type-use-in-parameter", false
				}
				return "parameter-definition", true
			}
			return "type-use-in-function-header", false
		}
		switch {
		case strings.HasSuffix(tb, "label"):
			return "branch-target", false
		case strings.HasPrefix(trimmed, "phi") || strings.Contains(line, " = phi "):
			if strings.HasPrefix(ta, "]") {
				return "phi-predecessor", false
			}
		case strings.Contains(before, "blockaddress(") && strings.HasPrefix(trimmed, "uselistorder"):
			return "uselistorder-blockaddress-block", false
		case strings.Contains(before, "blockaddress("):
			return "blockaddress-block", false
		}
		if strings.HasPrefix(trimmed, "@") || strings.HasPrefix(trimmed, "%") && strings.Contains(line, "= type") || strings.HasPrefix(trimmed, "declare") {
			return "type-use", false
		}
		if strings.HasPrefix(trimmed, "uselistorder") {
			return "uselistorder-target", false
		}
		// inside an instruction: a type use is followed by a value/`*`/`,`/`>`…; approximate by what follows
		if strings.HasPrefix(ta, "*") || strings.HasPrefix(ta, "%") || strings.HasPrefix(ta, "@") || strings.HasPrefix(ta, "{") || strings.HasPrefix(ta, "undef") || strings.HasPrefix(ta, "zeroinitializer") || strings.HasPrefix(ta, "poison") || strings.HasPrefix(ta, "x ") || strings.HasPrefix(ta, ">") || strings.HasPrefix(ta, "(") {
			return "type-use-in-instruction", false
		}
		return "operand", false
	}
}

// fault describes one single-point naming fault.
type fault struct {
	kind string // undefined:<site> | duplicate:<what>
	text string
}

func undefinedName(t tok, n int) string {
	switch t.sigil {
	case '!':
		if len(t.text) > 1 && t.text[1] >= '0' && t.text[1] <= '9' {
			return fmt.Sprintf("!%d", 900000+n)
		}
		return t.text // kinds/names need no definition
	case ':':
		return fmt.Sprintf("verif.undef.label%d", n)
	}
	// the undefined name comes in several styles: plain, inside LLVM's intrinsic name space (a library
	// that declares unknown intrinsics by itself would accept it), shaped like an overloaded intrinsic,
	// and quoted with a space
	switch n % 4 {
	case 1:
		return fmt.Sprintf("%cllvm.verif.undef%d", t.sigil, n)
	case 2:
		return fmt.Sprintf("%cllvm.memcpy.p0i8.p0i8.i%d", t.sigil, 3000+n)
	case 3:
		return fmt.Sprintf("%c\"verif undef %d\"", t.sigil, n)
	}
	return fmt.Sprintf("%cverif.undef%d", t.sigil, n)
}

// applyFaults enumerates faults on x: every token site once (up to perSite per class), plus duplications.
func enumerate(x string, perSite int) []fault {
	var out []fault
	toks := scan(x)
	count := map[string]int{}
	for i, t := range toks {
		if count[t.site] >= perSite {
			continue
		}
		repl := undefinedName(t, i)
		if repl == t.text {
			continue
		}
		count[t.site]++
		kind := "undefined:" + t.site
		if t.def {
			kind = "renamed-definition:" + t.site
		}
		out = append(out, fault{kind: kind, text: x[:t.start] + repl + x[t.end:]})
	}
	// duplicates of top-level definitions and of named instructions
	lines := strings.Split(x, "\n")
	dupCount := map[string]int{}
	for li, line := range lines {
		tl := strings.TrimSpace(line)
		what := ""
		switch {
		case strings.HasPrefix(line, "%") && strings.Contains(line, "= type"):
			what = "type"
		case strings.HasPrefix(line, "$") && strings.Contains(line, "= comdat"):
			what = "comdat"
		case strings.HasPrefix(line, "@") && (strings.Contains(line, " global ") || strings.Contains(line, " constant ")) && !strings.HasPrefix(line, "@0 ") && !isNumberedGlobal(line):
			what = "global"
		case strings.HasPrefix(line, "@") && (strings.Contains(line, " alias ") || strings.Contains(line, " ifunc ")) && !isNumberedGlobal(line):
			what = "alias"
		case strings.HasPrefix(line, "declare ") && !strings.Contains(line, " @0(") && !regexp.MustCompile(` @\d+\(`).MatchString(line):
			what = "function-declaration"
		case strings.HasPrefix(line, "!") && len(line) > 1 && line[1] >= '0' && line[1] <= '9' && strings.Contains(line, " = "):
			what = "metadata-id"
		case strings.HasPrefix(tl, "%") && strings.Contains(tl, " = ") && strings.HasPrefix(line, " ") && !(len(tl) > 1 && tl[1] >= '0' && tl[1] <= '9') && !strings.Contains(tl, " = phi ") && !strings.Contains(tl, "landingpad") && !strings.Contains(tl, " invoke ") && !strings.Contains(tl, " callbr "):
			what = "local"
		}
		if what == "" || dupCount[what] >= perSite {
			continue
		}
		dupCount[what]++
		// the second definition is either a verbatim copy or a different definition of the same name
		for _, v := range variants(what, line) {
			var nl []string
			if what == "local" {
				nl = append(append(append([]string{}, lines[:li+1]...), v.line), lines[li+1:]...)
			} else if v.before {
				nl = append(append(append([]string{}, lines[:li]...), v.line), lines[li:]...)
			} else {
				nl = append(append([]string{}, lines...), v.line)
			}
			out = append(out, fault{kind: "duplicate:" + what + v.tag, text: strings.Join(nl, "\n")})
		}
	}
	// definitions removed: the uses stay, the line that defines the name goes (a single definition, and all
	// definitions of a kind at once, so that the module has no definition of that kind at all)
	remCount := map[string]int{}
	var allOf = map[string][]int{}
	for li, line := range lines {
		what := ""
		switch {
		case strings.HasPrefix(line, "%") && strings.Contains(line, "= type"):
			what = "type"
		case strings.HasPrefix(line, "$") && strings.Contains(line, "= comdat"):
			what = "comdat"
		case strings.HasPrefix(line, "@") && (strings.Contains(line, " global ") || strings.Contains(line, " constant ")) && !isNumberedGlobal(line):
			what = "global"
		case strings.HasPrefix(line, "declare ") && !regexp.MustCompile(` @\d+\(`).MatchString(line):
			what = "function-declaration"
		case strings.HasPrefix(line, "!") && len(line) > 1 && line[1] >= '0' && line[1] <= '9' && strings.Contains(line, " = "):
			what = "metadata-id"
		}
		if what == "" {
			continue
		}
		allOf[what] = append(allOf[what], li)
		if remCount[what] >= perSite {
			continue
		}
		remCount[what]++
		nl := append(append([]string{}, lines[:li]...), lines[li+1:]...)
		out = append(out, fault{kind: "removed-definition:" + what, text: strings.Join(nl, "\n")})
	}
	for _, what := range []string{"comdat", "type", "metadata-id"} {
		if len(allOf[what]) < 2 {
			continue
		}
		drop := map[int]bool{}
		for _, li := range allOf[what] {
			drop[li] = true
		}
		var nl []string
		for li, line := range lines {
			if !drop[li] {
				nl = append(nl, line)
			}
		}
		out = append(out, fault{kind: "removed-definition:every-" + what, text: strings.Join(nl, "\n")})
	}
	out = append(out, collisions(x, toks, perSite)...)
	return out
}

// collisions makes two local definitions of one function share a name by renaming the later one (its
// definition and every use inside the function) to the name of an earlier one. Unlike the line
// duplications above this reaches every kind of local definition: parameters, labels, phis,
// landingpads, and the results of invoke and callbr terminators.
func collisions(x string, toks []tok, perSite int) []fault {
	var out []fault
	bare := func(t tok) string {
		n := t.text
		if t.sigil != ':' {
			n = n[1:]
		}
		return n
	}
	kindOf := func(t tok) string {
		switch t.site {
		case "parameter-definition":
			return "parameter"
		case "label-definition":
			return "label"
		}
		line := x[t.start:lineEnd(x, t.start)]
		for _, k := range []string{"phi", "landingpad", "invoke", "callbr", "call", "alloca", "load"} {
			if strings.Contains(line, " = "+k+" ") || strings.Contains(line, " "+k+" ") && k == "call" {
				return k
			}
		}
		return "instruction"
	}
	count := map[string]int{}
	// parameter names of one declaration
	{
		byLine := map[int][]tok{}
		for _, t := range toks {
			if t.site == "declaration-parameter-definition" {
				ls := strings.LastIndexByte(x[:t.start], '\n') + 1
				byLine[ls] = append(byLine[ls], t)
			}
		}
		var starts []int
		for ls := range byLine {
			starts = append(starts, ls)
		}
		sort.Ints(starts)
		for _, ls := range starts {
			ps := byLine[ls]
			if len(ps) >= 2 && count["declaration-parameters"] < perSite && ps[0].text != ps[1].text {
				count["declaration-parameters"]++
				b := ps[len(ps)-1]
				out = append(out, fault{kind: "collision:declaration-parameters", text: x[:b.start] + ps[0].text + x[b.end:]})
			}
		}
	}
	// function extents
	for off := 0; off < len(x); {
		i := strings.Index(x[off:], "\ndefine ")
		if i < 0 {
			break
		}
		start := off + i + 1
		j := strings.Index(x[start:], "\n}")
		if j < 0 {
			break
		}
		end := start + j
		off = end
		var defs []tok
		for _, t := range toks {
			if t.start < start || t.start >= end || !t.def {
				continue
			}
			if t.site != "local-definition" && t.site != "parameter-definition" && t.site != "label-definition" {
				continue
			}
			if b := bare(t); b == "" || b[0] >= '0' && b[0] <= '9' {
				continue
			}
			defs = append(defs, t)
		}
		sort.Slice(defs, func(a, b int) bool { return defs[a].start < defs[b].start })
		for bi := 1; bi < len(defs); bi++ {
			b := defs[bi]
			a := defs[(bi*7+len(out))%bi] // some earlier definition
			if bare(a) == bare(b) {
				continue
			}
			kind := kindOf(a) + "-then-" + kindOf(b)
			if count[kind] >= perSite {
				continue
			}
			count[kind]++
			// rename every occurrence of b inside the function, back to front
			var occ []tok
			for _, t := range toks {
				if t.start < start || t.start >= end || strings.HasPrefix(t.site, "type") {
					continue
				}
				if (t.sigil == '%' || t.sigil == ':') && bare(t) == bare(b) {
					occ = append(occ, t)
				}
			}
			sort.Slice(occ, func(p, q int) bool { return occ[p].start > occ[q].start })
			y := x
			for _, t := range occ {
				repl := bare(a)
				if t.sigil == '%' {
					repl = "%" + repl
				}
				y = y[:t.start] + repl + y[t.end:]
			}
			out = append(out, fault{kind: "collision:" + kind, text: y})
		}
	}
	return out
}

func isNumberedGlobal(line string) bool {
	return len(line) > 1 && line[1] >= '0' && line[1] <= '9'
}

// judgeFault applies the oracle to one faulted text (the base is known to be LLVM-valid).
func judgeFault(t hx.TB, test, base string, f fault) {
	r := llvmx.Accept(f.text)
	if r.Crashed {
		hx.Discard("oracle_unavailable")
		return
	}
	if r.OK {
		hx.Discard("fault_left_module_valid/" + f.kind)
		return
	}
	// only naming diagnostics count: the fault must be why LLVM rejects the text
	diag := firstLine(r.Err)
	if !namingDiagnostic(diag) {
		hx.Discard("llvm_rejects_for_another_reason/" + f.kind)
		return
	}
	hx.Eval(1)
	hx.Hist(f.kind)
	m, err, p := lx.Parse(f.text)
	c := "; fault: " + f.kind + "\n; llvm-as says: " + diag + "\n" + f.text
	if p != nil {
		hx.Fail(t, test, "ll", c, "a single naming fault (%s; llvm-as: %s) makes the parser panic instead of returning an error: %s", f.kind, diag, p)
	}
	if err == nil || m != nil {
		out := ""
		if m != nil {
			out, _ = lx.Print(m)
		}
		hx.Fail(t, test, "ll", c, "a single naming fault (%s; llvm-as: %s) is accepted by the parser, which returns a module instead of an error\n--- printed ---\n%s", f.kind, diag, out)
	}
	hx.NonTrivial(f.kind + "\x00" + f.text)
}

var namingWords = []string{"undefined", "redefinition", "multiple definition", "unknown", "not a basic block", "undeclared", "use of undefined", "invalid forward reference", "already defined", "defined with type", "duplicate", "forward reference", "referenced value is not", "unable to create block", "already used", "expected function name in blockaddress", "invalid basic block in uselistorder_bb"}

func namingDiagnostic(d string) bool {
	dl := strings.ToLower(d)
	for _, w := range namingWords {
		if strings.Contains(dl, w) {
			return true
		}
	}
	return false
}

func firstLine(s string) string {
	if i := strings.Index(s, "error:"); i >= 0 {
		s = s[i:]
	}
	if i := strings.IndexByte(s, '\n'); i >= 0 {
		return s[:i]
	}
	return s
}

func TestSingleNamingFault(t *testing.T) {
	const test = "SingleNamingFault"
	hx.Rule(test, "fault enumeration: each base module (own generator with metadata, comdats, aliases, blockaddress, invoke/landingpad, phis; plus repository testdata) x one naming fault per reference-site class (operand, callee, branch target, phi predecessor, type use in types/constants/instructions/parameters, comdat use, metadata use in attachments/tuples/DI fields/named metadata/call arguments, blockaddress function and block, alias target, initialiser, uselistorder target: the token is redirected to a name that has no definition; a definition token renamed) and one duplication per definition kind (type, comdat, global, alias, function, metadata ID, local). Domain gate: llvm-as accepts the base and rejects the faulted text with a naming diagnostic (kept in the replay file). Oracle: asm.ParseString returns (nil, error): no panic, no module. Distinct case = (fault kind, faulted text)")
	hx.Check(t, test, hx.N(12, 400), func(rt *rapid.T) {
		cfg := gen.DefaultCfg()
		cfg.Off = map[string]bool{"retattr-align": true, "freeze-metadata": true}
		cfg.UnnamedBias = 3
		m, _ := gen.Module(rt, cfg)
		x := m.Text()
		if !llvmx.Accept(x).OK {
			hx.Discard("base_rejected_by_llvm")
			return
		}
		if _, err, p := lx.Parse(x); err != nil || p != nil {
			hx.Discard("base_rejected_by_parser(judged_by_C01)")
			return
		}
		for _, f := range enumerate(x, 2) {
			judgeFault(rt, test, x, f)
		}
		hx.SampleCase(test, x)
	})
}

func TestTestdataFaults(t *testing.T) {
	const test = "TestdataFaults"
	hx.Rule(test, "the same fault enumeration on the repository's testdata files (more sites per class)")
	for i, f := range corpus.Fixed() {
		if !hx.Mine(i) {
			continue
		}
		if !llvmx.Accept(f.Text).OK {
			continue
		}
		if _, err, p := lx.Parse(f.Text); err != nil || p != nil {
			continue
		}
		for _, ft := range enumerate(f.Text, 3) {
			judgeFault(t, test, f.Text, ft)
		}
	}
}

// TestAttrGroupException: the documented exception.
func TestAttrGroupException(t *testing.T) {
	const test = "AttrGroupException"
	hx.Rule(test, "documented exception: an undefined attribute-group ID is accepted and materialised as an empty group")
	if !hx.Mine(0) {
		return
	}
	x := "declare void @f() #7\n"
	m, err, p := lx.Parse(x)
	hx.Eval(1)
	if p != nil || err != nil {
		hx.Fail(t, test, "ll", x, "undefined attribute group: %v %s", err, p)
	}
	out, _ := lx.Print(m)
	if !strings.Contains(out, "#7") {
		hx.Fail(t, test, "ll", x, "the reference to attribute group #7 was dropped:\n%s", out)
	}
	hx.NonTrivial(x)
	hx.NonTrivial(x + "2")
}

func TestReplay(t *testing.T) {
	path := os.Getenv("VERIF_REPLAY")
	if path == "" {
		t.Skip()
	}
	buf, err := os.ReadFile(path)
	if err != nil {
		t.Fatal(err)
	}
	judgeFault(t, "Replay", "", fault{kind: "replay", text: string(buf)})
}

// TestCatalogue: hand-written single-fault inputs for sites the generator does not produce.
func TestCatalogue(t *testing.T) {
	const test = "Catalogue"
	hx.Rule(test, "hand-written single naming faults at sites the generator does not reach: type alias to an undefined type, alias chain, use-list-order targets, DI field, metadata call argument, named-metadata operand, global duplicated by a function, ifunc resolver, personality, prefix data, comdat of a function")
	cat := map[string]string{
		"type-alias-target":               "%a = type %b\n@g = global %a* null\n",
		"type-in-struct-body":             "%a = type { i32, %b* }\n@g = global %a zeroinitializer\n",
		"uselistorder-target":             "@g = global i32 0\ndefine void @f() {\n  ret void\n}\nuselistorder i32* @nosuch, { 1, 0 }\n",
		"uselistorder_bb-block":           "define void @f() {\n  br label %b\nb:\n  ret void\n}\nuselistorder_bb @f, %nosuch, { 1, 0 }\n",
		"uselistorder-blockaddress-block": "define void @f() {\n  br label %b\nb:\n  ret void\n}\n@t = global [2 x i8*] [i8* blockaddress(@f, %b), i8* blockaddress(@f, %b)]\nuselistorder i8* blockaddress(@f, %nosuch), { 1, 0 }\n",
		"uselistorder-blockaddress-func":  "define void @f() {\n  br label %b\nb:\n  ret void\n}\n@t = global [2 x i8*] [i8* blockaddress(@f, %b), i8* blockaddress(@f, %b)]\nuselistorder i8* blockaddress(@nosuch, %b), { 1, 0 }\n",
		"uselistorder_bb-func":            "define void @f() {\n  br label %b\nb:\n  ret void\n}\nuselistorder_bb @nosuch, %b, { 1, 0 }\n",
		"metadata-DI-field":               "!named = !{!0}\n!0 = !DILocation(line: 1, column: 1, scope: !99)\n",
		"metadata-call-argument":          "declare void @llvm.foo(metadata)\ndefine void @f() {\n  call void @llvm.foo(metadata !99)\n  ret void\n}\n",
		"named-metadata-operand":          "!named = !{!99}\n",
		"function-attachment":             "define void @f() !dbg !99 {\n  ret void\n}\n",
		"global-attachment":               "@g = global i32 0, !foo !99\n",
		"duplicate-global-func":           "@x = global i32 0\ndefine void @x() {\n  ret void\n}\n",
		"duplicate-func-alias":            "@g = global i32 0\ndefine void @x() {\n  ret void\n}\n@x = alias i32, i32* @g\n",
		"duplicate-param":                 "define void @f(i32 %a, i32 %a) {\n  ret void\n}\n",
		"duplicate-label":                 "define void @f() {\n  br label %a\na:\n  br label %a\na:\n  ret void\n}\n",
		"param-vs-local":                  "define i32 @f(i32 %a) {\n  %a = add i32 1, 2\n  ret i32 %a\n}\n",
		"ifunc-resolver":                  "@i = ifunc void (), void ()* ()* @nosuch\n",
		"personality":                     "define void @f() personality i32 ()* @nosuch {\n  ret void\n}\n",
		"prefix-data":                     "define void @f() prefix i32* @nosuch {\n  ret void\n}\n",
		"function-comdat":                 "define void @f() comdat($nosuch) {\n  ret void\n}\n",
		"implicit-comdat":                 "@g = global i32 0, comdat\n",
		"invoke-unwind-target":            "declare void @g()\ndeclare i32 @p(...)\ndefine void @f() personality i32 (...)* @p {\n  invoke void @g() to label %ok unwind label %nosuch\nok:\n  ret void\n}\n",
		"switch-case-target":              "define void @f(i32 %x) {\n  switch i32 %x, label %d [ i32 1, label %nosuch ]\nd:\n  ret void\n}\n",
		"indirectbr-target":               "define void @f(i8* %p) {\n  indirectbr i8* %p, [label %nosuch]\n}\n",
		"callbr-target":                   "define void @f() {\n  callbr void asm \"\", \"X\"(i8* blockaddress(@f, %nosuch)) to label %a [label %nosuch]\na:\n  ret void\n}\n",
		"constexpr-operand":               "@g = global i64 ptrtoint (i32* @nosuch to i64)\n",
		"gep-constexpr-base":              "@g = global i32* getelementptr (i32, i32* @nosuch, i64 1)\n",
		"dso_local_equivalent":            "@g = global void ()* dso_local_equivalent @nosuch\n",
		"no_cfi":                          "@g = global void ()* no_cfi @nosuch\n",
		"phi-incoming-value":              "define i32 @f() {\n  br label %b\nb:\n  %p = phi i32 [ %nosuch, %0 ]\n  ret i32 %p\n}\n",
		"bundle-operand":                  "declare void @g()\ndefine void @f() {\n  call void @g() [ \"x\"(i32 %nosuch) ]\n  ret void\n}\n",
		"metadata-value-local":            "declare void @llvm.foo(metadata)\ndefine void @f() {\n  call void @llvm.foo(metadata i32 %nosuch)\n  ret void\n}\n",
		"attribute-byval-type":            "declare void @f(i8* byval(%nosuch))\n",
		// numbers spelled with leading zeros are decimal: `!010` is !10, so !8 / %8 / @8 are other entities
		"padded-metadata-id-other-reading": "!named = !{!8}\n!010 = !{}\n",
		"padded-metadata-id-duplicate":     "!named = !{!10}\n!010 = !{}\n!10 = !{}\n",
		"padded-local-other-reading":       "define i32 @f(i32, i32, i32, i32, i32, i32, i32, i32, i32) {\n  ret i32 %010\n}\n",
		"padded-global-other-reading":      "@0 = global i32 0\n@1 = global i32 0\n@2 = global i32 0\n@3 = global i32 0\n@4 = global i32 0\n@5 = global i32 0\n@6 = global i32 0\n@7 = global i32 0\n@8 = global i32 0\n@p = global i32* @010\n",
		"padded-label-other-reading":       "define void @f(i32, i32, i32, i32, i32, i32, i32) {\n  br label %8\n8:\n  br label %010\n}\n",
		"sret-type":                       "declare void @f(i8* sret(%nosuch))\n",
	}
	var names []string
	for k := range cat {
		names = append(names, k)
	}
	sortStrings(names)
	for i, k := range names {
		if !hx.Mine(i) {
			continue
		}
		judgeFault(t, test, "", fault{kind: "catalogue:" + k, text: cat[k]})
	}
}

func sortStrings(a []string) {
	for i := 1; i < len(a); i++ {
		for j := i; j > 0 && a[j] < a[j-1]; j-- {
			a[j], a[j-1] = a[j-1], a[j]
		}
	}
}

type variant struct {
	tag    string
	line   string
	before bool // place the extra definition before the original instead of at the end
}

// variants returns second definitions of the name defined by line: a verbatim copy and re-definitions that
// differ from the first (other body, opaque, declaration instead of definition, other kind ...).
func variants(what, line string) []variant {
	out := []variant{{"", line, false}}
	name := line
	if i := strings.Index(line, " = "); i >= 0 {
		name = strings.TrimSpace(line[:i])
	}
	switch what {
	case "type":
		out = append(out, variant{"/then-opaque", name + " = type opaque", false}, variant{"/other-body", name + " = type { i8, i8 }", false}, variant{"/other-body-first", name + " = type { i8 }", true}, variant{"/opaque-first", name + " = type opaque", true})
	case "comdat":
		kind := "any"
		if strings.HasSuffix(line, "any") {
			kind = "largest"
		}
		out = append(out, variant{"/other-kind", name + " = comdat " + kind, false})
	case "global":
		out = append(out, variant{"/other-definition", name + " = global i8 7", false}, variant{"/declaration", name + " = external global i8", false}, variant{"/as-function", "declare void " + name + "()", false})
	case "alias":
		out = append(out, variant{"/as-global", name + " = global i8 7", false})
	case "function-declaration":
		if i := strings.Index(line, "@"); i >= 0 {
			j := i + 1
			if j < len(line) && line[j] == '"' {
				j++
				for j < len(line) && line[j] != '"' {
					j++
				}
				j++
			} else {
				for j < len(line) && isIdentChar(line[j]) {
					j++
				}
			}
			fn := line[i:j]
			out = append(out, variant{"/as-definition", "define void " + fn + "() {\n  ret void\n}", false}, variant{"/as-global", fn + " = global i8 7", false})
		}
	case "metadata-id":
		out = append(out, variant{"/other-content", name + " = !{i32 12345}", false})
	case "local":
		out = append(out, variant{"/other-instruction", "  " + name + " = add i32 1, 2", false})
	}
	return out
}

// TestNumericNameRespelling: names made of digits are names, compared byte for byte: "7", "007", "07"
// and "+7" are four different names. Every use of an entity with such a name is redirected to another
// spelling of the same number, which has no definition.
func TestNumericNameRespelling(t *testing.T) {
	const test = "NumericNameRespelling"
	hx.Rule(test, "hand-written bases in which every kind of entity (comdat, global variable, alias, function, parameter, instruction result, basic block used as branch target, phi predecessor, blockaddress block and indirectbr target) has a quoted all-digit name; each use site x 4 other spellings of the same number (\"007\", \"07\", \"+7\", \"7 \" style): the respelled name is undefined. Same gate and oracle as SingleNamingFault")
	bases := []string{
		"$\"7\" = comdat any\n@\"7\" = global i32 0, comdat($\"7\")\n@\"8\" = alias i32, i32* @\"7\"\ndefine i32 @\"9\"(i32 %\"7\") {\n\"5\":\n  %\"6\" = add i32 %\"7\", 1\n  br label %\"4\"\n\"4\":\n  %\"3\" = phi i32 [ %\"6\", %\"5\" ], [ %\"3\", %\"4\" ]\n  %a = load i32, i32* @\"7\"\n  %b = load i32, i32* @\"8\"\n  indirectbr i8* blockaddress(@\"9\", %\"4\"), [label %\"4\"]\n}\ndefine i32 @user() {\n  %r = call i32 @\"9\"(i32 1)\n  ret i32 %r\n}\n@tbl = global i8* blockaddress(@\"9\", %\"4\")\n",
		"define void @f(i1 %c) {\n\"10\":\n  br i1 %c, label %\"2\", label %\"33\"\n\"2\":\n  br label %\"33\"\n\"33\":\n  %\"1\" = phi i8* [ blockaddress(@f, %\"2\"), %\"10\" ], [ blockaddress(@f, %\"33\"), %\"2\" ]\n  ret void\n}\n",
	}
	reNum := regexp.MustCompile(`^([%@$])"(\d+)"$`)
	for bi, x := range bases {
		if !hx.Mine(bi) {
			continue
		}
		if r := llvmx.Accept(x); !r.OK {
			t.Fatalf("catalogue base %d is not valid: %s", bi, r.Err)
		}
		for _, tk := range scan(x) {
			m := reNum.FindStringSubmatch(tk.text)
			if m == nil || tk.def {
				continue
			}
			for _, sp := range []string{"00" + m[2], "0" + m[2], "+" + m[2], m[2] + " "} {
				f := fault{kind: "respelled-numeric-name:" + tk.site, text: x[:tk.start] + m[1] + `"` + sp + `"` + x[tk.end:]}
				judgeFault(t, test, x, f)
			}
		}
	}
}
