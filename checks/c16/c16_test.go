package c16

import (
	"encoding/json"
	"fmt"
	"os"
	"reflect"
	"runtime/debug"
	"strings"
	"testing"

	"github.com/llir/llvm/ir"
	"github.com/llir/llvm/ir/enum"
	"github.com/llir/llvm/ir/types"
	"pgregory.net/rapid"

	"verif/h/am"
	"verif/h/corpus"
	"verif/h/emit"
	"verif/h/gen"
	"verif/h/hx"
	"verif/h/lx"
	"verif/h/walk"
)

func TestMain(m *testing.M) {
	hx.Main(m, "C16", func() { debug.SetMaxStack(128 << 20); gen.BoundaryArrayLens = true })
}

// tcase is one replayable case.
type tcase struct {
	U     *am.Universe `json:"universe"`
	Types []*am.Type   `json:"types"`
}

func (c tcase) String() string {
	var sb strings.Builder
	for _, d := range c.U.Defs {
		sb.WriteString(d.DefString() + "\n")
	}
	for i, t := range c.Types {
		fmt.Fprintf(&sb, "; type %d: %s\n", i, t)
	}
	return sb.String()
}

func (c tcase) JSON() string {
	b, _ := json.MarshalIndent(c, "", " ")
	return string(b)
}

func equal(a, b types.Type) (r bool, p *lx.Panic) {
	p = lx.Guard(func() { r = a.Equal(b) })
	return
}

// checkCase checks all laws on the types of c (pairwise and triple-wise).
func checkCase(t hx.TB, test string, c tcase) {
	hx.Trace(test, "json", c.JSON())
	A := emit.NewTypes(c.U) // two disjoint object graphs of the same universe
	B := emit.NewTypes(c.U)
	n := len(c.Types)
	ta := make([]types.Type, n)
	tb := make([]types.Type, n)
	for i, d := range c.Types {
		ta[i] = A.Type(d)
		tb[i] = B.Type(d)
	}
	fail := func(format string, args ...any) {
		hx.Fail(t, test, "json", c.JSON(), "%s\n%s", fmt.Sprintf(format, args...), c.String())
	}
	rel := make([][]bool, n)
	for i := range rel {
		rel[i] = make([]bool, n)
	}
	for i := 0; i < n; i++ {
		// reflexive on the same object and across the two instantiations
		for _, pair := range [][2]types.Type{{ta[i], ta[i]}, {ta[i], tb[i]}, {tb[i], ta[i]}} {
			r, p := equal(pair[0], pair[1])
			if p != nil {
				fail("Equal panics on %s: %s", c.Types[i], p)
			}
			if !r {
				fail("not reflexive: %s is not Equal to (another instance of) itself", c.Types[i])
			}
		}
		for j := 0; j < n; j++ {
			want := am.Equal(c.Types[i], c.Types[j])
			r, p := equal(ta[i], tb[j])
			if p != nil {
				fail("Equal(%s, %s) panics: %s", c.Types[i], c.Types[j], p)
			}
			rel[i][j] = r
			if r != want {
				fail("Equal(%s, %s) = %v, but LLVM type identity (identified structs by name, everything else by structure) says %v", c.Types[i], c.Types[j], r, want)
			}
			r2, _ := equal(tb[j], ta[i])
			if r2 != r {
				fail("not symmetric: Equal(%s, %s)=%v but Equal(%s, %s)=%v", c.Types[i], c.Types[j], r, c.Types[j], c.Types[i], r2)
			}
			if want {
				hx.Hist("pair/equal")
			} else {
				hx.Hist("pair/different")
			}
		}
	}
	for i := 0; i < n; i++ {
		for j := 0; j < n; j++ {
			for k := 0; k < n; k++ {
				if rel[i][j] && rel[j][k] && !rel[i][k] {
					fail("not transitive on %s, %s, %s", c.Types[i], c.Types[j], c.Types[k])
				}
			}
		}
	}
	// every identified struct of the universe
	for _, d := range c.U.Defs {
		for _, e := range c.U.Defs {
			r, p := equal(A.Named(d.Name), B.Named(e.Name))
			if p != nil {
				fail("Equal panics on identified structs %%%s, %%%s: %s", d.Name, e.Name, p)
			}
			if r != (d.Name == e.Name) {
				fail("identified structs %%%s and %%%s: Equal=%v, want identity by name", d.Name, e.Name, r)
			}
		}
	}
	// Equal only looks: the slices the types were built from (handed to the constructors as prefixes of longer
	// slices, as a client may do) are untouched, also behind their ends
	for _, ts := range []*emit.Types{A, B} {
		if msg := ts.GuardsIntact(); msg != "" {
			fail("after the Equal queries %s", msg)
		}
	}
}

// roundTrip embeds t in a module at a position legal for its kind, prints, parses and compares.
func roundTrip(t hx.TB, test string, c tcase, idx int) {
	A := emit.NewTypes(c.U)
	d := c.Types[idx]
	typ := A.Type(d)
	m := ir.NewModule()
	m.TypeDefs = A.Defs()
	var fetch func(pm *ir.Module) types.Type
	switch d.K {
	case am.Void:
		f := m.NewFunc("f", typ)
		f.Linkage = enum.LinkageExternal
		fetch = func(pm *ir.Module) types.Type { return pm.Funcs[0].Sig.RetType }
	case am.Func:
		f := m.NewFunc("f", &types.VoidType{}, ir.NewParam("", types.NewPointer(typ)))
		f.Linkage = enum.LinkageExternal
		fetch = func(pm *ir.Module) types.Type { return pm.Funcs[0].Sig.Params[0].(*types.PointerType).ElemType }
	default:
		f := m.NewFunc("f", &types.VoidType{}, ir.NewParam("", typ))
		f.Linkage = enum.LinkageExternal
		fetch = func(pm *ir.Module) types.Type { return pm.Funcs[0].Sig.Params[0] }
	}
	out, p := lx.Print(m)
	if p != nil {
		hx.Fail(t, test, "json", c.JSON(), "printing a declaration that uses type %s panics: %s", d, p)
	}
	pm, err, pp := lx.Parse(out)
	if err != nil || pp != nil {
		hx.Fail(t, test, "json", c.JSON(), "type %s: printed declaration is not accepted by the parser: %v %s\n%s", d, err, pp, out)
	}
	var got types.Type
	if p := lx.Guard(func() { got = fetch(pm) }); p != nil {
		hx.Fail(t, test, "json", c.JSON(), "type %s: cannot find the type in the parsed module: %v\n%s", d, p.Val, out)
	}
	r1, p1 := equal(typ, got)
	r2, p2 := equal(got, typ)
	if p1 != nil || p2 != nil || !r1 || !r2 {
		hx.Fail(t, test, "json", c.JSON(), "type %s is not Equal to the type obtained by printing and parsing it (%s): %v %v %v %v\n%s", d, got, r1, r2, p1, p2, out)
	}
	// and a mutated type must stay different after its own round trip
	hx.Hist("roundtrip/kind/" + kindName(d.K))
}

func kindName(k am.Kind) string {
	return [...]string{"void", "int", "float", "ptr", "vec", "array", "struct", "func", "label", "token", "metadata", "mmx", "named"}[k]
}

func TestEqualOnUniverses(t *testing.T) {
	const test = "EqualOnUniverses"
	hx.Rule(test, "rapid type universes (0..5 identified structs: opaque, packed, recursive and mutually recursive through pointers) and 2..6 types over them, each completed with one-feature-apart mutants (bit width, float kind, length, scalable, element, field, parameter, return type, variadic, address space, packed, name); every description is instantiated as two disjoint llir object graphs; Equal must agree with the reference identity on every ordered pair, be reflexive, symmetric, transitive on all triples, and terminate; non-trivial = case contains a composite type of depth >= 2 or a named type")
	hx.Check(t, test, hx.N(2500, 400000), func(rt *rapid.T) {
		u := gen.GenUniverseWith(rt, 5, true)
		n := rapid.IntRange(2, 5).Draw(rt, "ntypes")
		c := tcase{U: u}
		for i := 0; i < n; i++ {
			ty := gen.AnyType(rt, u, rapid.IntRange(0, 4).Draw(rt, "depth"))
			c.Types = append(c.Types, ty)
			if rapid.Bool().Draw(rt, "mutant") {
				c.Types = append(c.Types, gen.Mutate(rt, u, ty))
			}
			if rapid.IntRange(0, 3).Draw(rt, "dup") == 0 {
				cp := *ty
				c.Types = append(c.Types, &cp)
			}
		}
		hx.Eval(1)
		checkCase(rt, test, c)
		nt := false
		for _, ty := range c.Types {
			hx.Hist("kind/" + kindName(ty.K))
			if depth(ty) >= 2 || ty.K == am.Named {
				nt = true
			}
		}
		if nt {
			hx.NonTrivial(c.String())
		}
		hx.SampleCase(test, c.String())
	})
}

func depth(t *am.Type) int {
	d := 0
	for _, s := range append(append([]*am.Type{t.Elem, t.Ret}, t.Fields...), t.Params...) {
		if s != nil {
			if x := depth(s) + 1; x > d {
				d = x
			}
		}
	}
	return d
}

func TestEqualPreservedByPrintParse(t *testing.T) {
	const test = "EqualPreservedByPrintParse"
	hx.Rule(test, "rapid (universe, type): the type is used in a declaration (return type for void, behind a pointer for function types, parameter otherwise), the module is printed and parsed, and the parsed type must be Equal to the original in both directions; non-trivial = composite or named type")
	hx.Check(t, test, hx.N(2500, 400000), func(rt *rapid.T) {
		u := gen.GenUniverseWith(rt, 4, true)
		ty := gen.AnyType(rt, u, rapid.IntRange(0, 4).Draw(rt, "depth"))
		c := tcase{U: u, Types: []*am.Type{ty}}
		hx.Eval(1)
		hx.Trace(test, "json", c.JSON())
		roundTrip(rt, test, c, 0)
		if depth(ty) >= 1 || ty.K == am.Named {
			hx.NonTrivial(c.String())
		}
		hx.SampleCase(test, c.String())
	})
}

// TestExternalCorpus: the type universes of real compiler output. Inside one module type names are
// unique and only structs are named, so two types are the same LLVM type exactly when they print alike
// (named structs print as their name); that spelling is the reference for Equal on every pair.
func TestExternalCorpus(t *testing.T) {
	const test = "ExternalCorpus"
	hx.Rule(test, "all types reachable in each parsed module of the clang-14 corpus (C and C++ class hierarchies with vtables and recursive structs, OpenCL address-space pointers, vectors, function pointers; up to 160 distinct type objects per module, quick: every second case): for every ordered pair Equal(a, b) must hold exactly when the two types print identically, and must equal Equal(b, a); Equal(a, a) holds; a stack overflow kills the shard and is reported by the driver. Non-trivial = module with an identified struct")
	for i, c := range corpus.ClangCases() {
		if !hx.Mine(i) || !hx.Thorough() && i%2 != 0 {
			continue
		}
		x := c.Text()
		if x == "" || len(x) > 300<<10 {
			hx.Discard("clang_rejects_combination_or_too_large")
			continue
		}
		pm, err, p := lx.Parse(x)
		if err != nil || p != nil {
			hx.Discard("parser_does_not_accept(judged_by_C01)")
			continue
		}
		hx.Trace(test, "ll", x)
		var ts []types.Type
		seen := map[uintptr]bool{}
		named := false
		walk.Walk(pm, func(v reflect.Value, path string) bool {
			if len(ts) >= 160 || v.Kind() != reflect.Ptr || v.IsNil() || !v.CanInterface() {
				return true
			}
			ty, ok := v.Interface().(types.Type)
			if !ok || seen[v.Pointer()] {
				return true
			}
			seen[v.Pointer()] = true
			ts = append(ts, ty)
			if st, ok := ty.(*types.StructType); ok && st.TypeName != "" {
				named = true
			}
			return true
		})
		strs := make([]string, len(ts))
		for k, ty := range ts {
			strs[k] = ty.String()
		}
		src := "; source: clang-14 " + c.Name() + "\n"
		for a := range ts {
			for b := range ts {
				var ab, ba bool
				if pv := lx.Guard(func() { ab, ba = ts[a].Equal(ts[b]), ts[b].Equal(ts[a]) }); pv != nil {
					hx.Fail(t, test, "ll", src+x, "Equal(%s, %s) panics: %s", strs[a], strs[b], pv)
				}
				want := strs[a] == strs[b]
				if ab != want {
					hx.Fail(t, test, "ll", src+x, "Equal(%s, %s) = %v, but the two types print %s", strs[a], strs[b], ab, map[bool]string{true: "identically", false: "differently"}[want])
				}
				if ab != ba {
					hx.Fail(t, test, "ll", src+x, "not symmetric: Equal(%s, %s) = %v, Equal(%s, %s) = %v", strs[a], strs[b], ab, strs[b], strs[a], ba)
				}
			}
		}
		hx.Eval(len(ts) * len(ts))
		hx.HistN("external/types", len(ts))
		if named {
			hx.NonTrivial("clang/" + c.Name())
		}
	}
}

// TestCatalogue: fixed recursive universes.
func TestCatalogue(t *testing.T) {
	const test = "Catalogue"
	hx.Rule(test, "fixed universes: self-recursive list node, mutually recursive pair, opaque type, two structurally identical identified structs with different names, identified versus literal struct with the same body")
	u := &am.Universe{Defs: []*am.TypeDef{
		{Name: "list", Fields: []*am.Type{am.I32, am.P(am.N("list"))}},
		{Name: "a", Fields: []*am.Type{am.P(am.N("b"))}},
		{Name: "b", Fields: []*am.Type{am.P(am.N("a"))}},
		{Name: "o", Opaque: true},
		{Name: "p1", Fields: []*am.Type{am.I32, am.I8}},
		{Name: "p2", Fields: []*am.Type{am.I32, am.I8}},
	}}
	c := tcase{U: u, Types: []*am.Type{
		am.N("list"), am.P(am.N("list")), am.N("a"), am.N("b"), am.P(am.N("a")), am.P(am.N("b")), am.N("o"), am.P(am.N("o")),
		am.N("p1"), am.N("p2"), am.S(am.I32, am.I8), am.P(am.S(am.I32, am.I8)), am.P(am.N("p1")), am.P(am.N("p2")),
		am.Fn(am.TVoid, false, am.P(am.N("list"))), am.Fn(am.TVoid, true, am.P(am.N("list"))), am.A(2, am.N("p1")), am.A(2, am.N("p2")),
		am.V(4, am.I32), am.SV(4, am.I32), am.V(4, am.P(am.I32)), am.SV(4, am.P(am.I32)), am.PA(am.I32, 1), am.P(am.I32),
	}}
	if hx.Mine(0) {
		checkCase(t, test, c)
		for i := range c.Types {
			roundTrip(t, test, tcase{U: u, Types: []*am.Type{c.Types[i]}}, 0)
			hx.NonTrivial("cat/" + c.Types[i].String())
		}
		hx.Eval(len(c.Types) * len(c.Types))
		hx.SampleCase(test, c.String())
	}
}

func TestReplay(t *testing.T) {
	path := os.Getenv("VERIF_REPLAY")
	if path == "" {
		t.Skip()
	}
	buf, err := os.ReadFile(path)
	if err != nil {
		t.Fatal(err)
	}
	var c tcase
	if err := json.Unmarshal(buf, &c); err != nil {
		t.Fatal(err)
	}
	checkCase(t, "Replay", c)
	for i := range c.Types {
		roundTrip(t, "Replay", c, i)
	}
	parsedOwn(t, "Replay", c)
}
