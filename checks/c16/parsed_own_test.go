package c16

import (
	"fmt"
	"testing"

	"github.com/llir/llvm/ir"
	"github.com/llir/llvm/ir/enum"
	"github.com/llir/llvm/ir/types"
	"pgregory.net/rapid"

	"verif/h/am"
	"verif/h/emit"
	"verif/h/gen"
	"verif/h/hx"
	"verif/h/llvmx"
	"verif/h/lx"
)

// scramble edits, in place and through the exported fields, every type object that the parser created
// for a type spelled in the input: the bodies of the type definitions, the content types of globals and
// the signatures of functions, with everything nested in them. Types that the library computes by itself
// (instruction result caches and the like) are not touched: those may be the library's own shared objects.
func scramble(m *ir.Module) int {
	seen := map[types.Type]bool{}
	n := 0
	var rec func(t types.Type)
	rec = func(t types.Type) {
		if t == nil || seen[t] {
			return
		}
		seen[t] = true
		n++
		switch t := t.(type) {
		case *types.IntType:
			t.BitSize += 7
		case *types.FloatType:
			t.Kind = (t.Kind + 1) % 6
		case *types.PointerType:
			t.AddrSpace += 3
			rec(t.ElemType)
		case *types.VectorType:
			t.Len++
			t.Scalable = !t.Scalable
			rec(t.ElemType)
		case *types.ArrayType:
			t.Len++
			rec(t.ElemType)
		case *types.StructType:
			t.Packed = !t.Packed
			for _, f := range t.Fields {
				rec(f)
			}
		case *types.FuncType:
			t.Variadic = !t.Variadic
			rec(t.RetType)
			for _, p := range t.Params {
				rec(p)
			}
		}
	}
	for _, t := range m.TypeDefs {
		rec(t)
	}
	for _, g := range m.Globals {
		rec(g.ContentType)
	}
	for _, f := range m.Funcs {
		rec(f.Sig)
	}
	return n
}

// parsedOwn runs the history on one case and returns the number of type objects edited.
func parsedOwn(t hx.TB, test string, c tcase) int {
	A := emit.NewTypes(c.U)
	m := ir.NewModule()
	m.TypeDefs = A.Defs()
	for i, d := range c.Types {
		typ := A.Type(d)
		var f *ir.Func
		switch d.K {
		case am.Void:
			f = m.NewFunc(fmt.Sprintf("f%d", i), typ)
		case am.Func:
			f = m.NewFunc(fmt.Sprintf("f%d", i), &types.VoidType{}, ir.NewParam("", types.NewPointer(typ)))
		default:
			f = m.NewFunc(fmt.Sprintf("f%d", i), &types.VoidType{}, ir.NewParam("", typ))
		}
		f.Linkage = enum.LinkageExternal
	}
	x, p := lx.Print(m)
	if p != nil {
		hx.Fail(t, test, "json", c.JSON(), "printing the declarations panics: %s", p)
	}
	m1, err, pp := lx.Parse(x)
	if err != nil || pp != nil {
		hx.Fail(t, test, "json", c.JSON(), "the printed declarations are not accepted by the parser: %v %s\n%s", err, pp, x)
	}
	s1, p1 := lx.Print(m1)
	if p1 != nil {
		hx.Fail(t, test, "json", c.JSON(), "printing the parsed module panics: %s", p1)
	}
	edited := scramble(m1)
	m2, err2, pp2 := lx.Parse(x)
	if err2 != nil || pp2 != nil {
		hx.Fail(t, test, "json", c.JSON(), "after the types of an earlier parse of the same text were edited in place, the parser rejects the text: %v %s\n%s", err2, pp2, x)
	}
	s2, p2 := lx.Print(m2)
	if p2 != nil || s2 != s1 {
		hx.Fail(t, test, "json", c.JSON(), "after the types of an earlier parse were edited in place through their exported fields, the same text is read differently (%v; - first parse, + parse after the edits):\n%s", p2, llvmx.Diff(s1, s2))
	}
	for i := range c.Types {
		roundTrip(t, test, c, i)
	}
	return edited
}

// TestParsedTypesBelongToTheCaller: the types of a parsed module are the caller's to edit. A history
// "parse, edit the parsed types in place, parse again" must read the second text as a fresh process
// would: the same print as the first parse gave, and fresh constructor-built types must still be Equal
// to what printing and parsing them gives.
func TestParsedTypesBelongToTheCaller(t *testing.T) {
	const test = "ParsedTypesBelongToTheCaller"
	hx.Rule(test, "rapid (universe, 2..5 types) embedded in a module (type definitions, one declaration per type), printed to text x; history: parse x, print (s1), edit every type object the parser created for a spelled type in place through the exported fields (bit width, float kind, address space, length, scalable, packed, variadic), parse x again: the second parse must print exactly s1, and a fresh constructor-built copy of each type must still be Equal to its own print-and-parse image (Equal is preserved by printing and parsing whatever was edited earlier in the process); non-trivial = at least 4 type objects edited")
	hx.Check(t, test, hx.N(600, 100000), func(rt *rapid.T) {
		u := gen.GenUniverseWith(rt, 4, true)
		c := tcase{U: u}
		n := rapid.IntRange(2, 5).Draw(rt, "ntypes")
		for i := 0; i < n; i++ {
			c.Types = append(c.Types, gen.AnyType(rt, u, rapid.IntRange(0, 3).Draw(rt, "depth")))
		}
		hx.Eval(1)
		hx.Trace(test, "json", c.JSON())
		edited := parsedOwn(rt, test, c)
		if edited >= 4 {
			hx.NonTrivial(c.String())
		}
		hx.HistN("parsed_type_objects_edited_in_place", edited)
		hx.SampleCase(test, c.String())
	})
}
