package c16

import (
	"fmt"
	"testing"

	"github.com/llir/llvm/ir/types"
	"pgregory.net/rapid"

	"verif/h/am"
	"verif/h/emit"
	"verif/h/gen"
	"verif/h/hx"
	"verif/h/lx"
)

// mutateBoth applies the same one-field edit to the model type and, through the exported fields, to the
// llir type object. It reports what it did ("" = no edit possible for this kind).
func mutateBoth(rt *rapid.T, mt *am.Type, lt types.Type) string {
	switch t := lt.(type) {
	case *types.FuncType:
		switch rapid.IntRange(0, 2).Draw(rt, "fmut") {
		case 0:
			t.Variadic = !t.Variadic
			mt.Variadic = !mt.Variadic
			return "Variadic flipped"
		case 1:
			t.Params = append(t.Params, types.NewInt(32))
			mt.Params = append(append([]*am.Type(nil), mt.Params...), am.I(32))
			return "parameter i32 appended"
		default:
			t.RetType = types.NewInt(7)
			mt.Ret = am.I(7)
			return "return type replaced by i7"
		}
	case *types.StructType:
		if t.TypeName != "" {
			return ""
		}
		if rapid.Bool().Draw(rt, "smut") {
			t.Fields = append(t.Fields, types.NewInt(8))
			mt.Fields = append(append([]*am.Type(nil), mt.Fields...), am.I(8))
			return "field i8 appended"
		}
		t.Packed = !t.Packed
		mt.Packed = !mt.Packed
		return "Packed flipped"
	case *types.ArrayType:
		t.Len++
		mt.Len++
		return "Len incremented"
	case *types.VectorType:
		if rapid.Bool().Draw(rt, "vmut") {
			t.Len++
			mt.Len++
			return "Len incremented"
		}
		t.Scalable = !t.Scalable
		mt.Scalable = !mt.Scalable
		return "Scalable flipped"
	case *types.PointerType:
		t.AddrSpace += 3
		mt.AddrSpace += 3
		return "AddrSpace changed"
	case *types.IntType:
		t.BitSize++
		mt.Bits++
		return "BitSize incremented"
	}
	return ""
}

// TestEqualAfterMutation: type objects are plain structs with exported fields, and front ends fill them in
// after construction (a signature becomes variadic, a parameter is appended, a body gets a field). Equal
// must look at the fields as they are *now*, whatever was compared before.
func TestEqualAfterMutation(t *testing.T) {
	const test = "EqualAfterMutation"
	hx.Rule(test, "rapid (universe, type) instantiated as two disjoint llir objects a and b: Equal(a,b) is evaluated (so that anything a comparison may memoise is memoised), then the same edit is applied to both through the exported fields (Variadic, Params, RetType, Fields, Packed, Len, Scalable, AddrSpace, BitSize), also one level down (element, return type, first field or parameter): Equal(a,b) and Equal(b,a) must still hold; then a second edit is applied to a only: Equal must answer what the reference identity answers for the edited descriptions, in both directions, and a must still equal itself and a fresh instantiation of its edited description. Non-trivial = an edit was applied")
	hx.Check(t, test, hx.N(2500, 400000), func(rt *rapid.T) {
		u := gen.GenUniverseWith(rt, 3, true)
		ty := gen.AnyType(rt, u, rapid.IntRange(1, 3).Draw(rt, "depth"))
		c := tcase{U: u, Types: []*am.Type{ty}}
		hx.Eval(1)
		ma, mb := cloneType(ty), cloneType(ty)
		tsa, tsb := emit.NewTypes(u), emit.NewTypes(u)
		var a, b types.Type
		if p := lx.Guard(func() { a, b = tsa.Type(ma), tsb.Type(mb) }); p != nil {
			hx.Discard("instantiation_panics")
			return
		}
		eq := func(x, y types.Type) (r bool) {
			if p := lx.Guard(func() { r = x.Equal(y) }); p != nil {
				hx.Fail(rt, test, "json", c.JSON(), "Equal panics: %s", p)
			}
			return
		}
		if !eq(a, b) || !eq(b, a) {
			return // judged by EqualOnUniverses
		}
		// where to edit: the type itself or one level down
		pick := func(mt *am.Type, lt types.Type) (*am.Type, types.Type) {
			if rapid.Bool().Draw(rt, "nested") {
				switch t := lt.(type) {
				case *types.PointerType:
					return mt.Elem, t.ElemType
				case *types.ArrayType:
					return mt.Elem, t.ElemType
				case *types.VectorType:
					return mt.Elem, t.ElemType
				case *types.FuncType:
					if len(t.Params) > 0 {
						return mt.Params[0], t.Params[0]
					}
					return mt.Ret, t.RetType
				case *types.StructType:
					if t.TypeName == "" && len(t.Fields) > 0 {
						return mt.Fields[0], t.Fields[0]
					}
				}
			}
			return mt, lt
		}
		// the same edit on both (the draws are replayed for b by editing at the same position)
		pa, la := pick(ma, a)
		what := ""
		if pa != nil && la != nil {
			// find the corresponding position in b by structure: recompute with the same choice
			pb, lb := mb, b
			if pa != ma {
				switch t := b.(type) {
				case *types.PointerType:
					pb, lb = mb.Elem, t.ElemType
				case *types.ArrayType:
					pb, lb = mb.Elem, t.ElemType
				case *types.VectorType:
					pb, lb = mb.Elem, t.ElemType
				case *types.FuncType:
					if len(t.Params) > 0 {
						pb, lb = mb.Params[0], t.Params[0]
					} else {
						pb, lb = mb.Ret, t.RetType
					}
				case *types.StructType:
					pb, lb = mb.Fields[0], t.Fields[0]
				}
			}
			// same edit: draw once, apply to a; mirror on b by applying the recorded description
			what = mutateBoth(rt, pa, la)
			if what != "" {
				mirror(what, pb, lb)
			}
		}
		if what == "" {
			hx.Discard("no_edit_for_this_kind")
			return
		}
		desc := fmt.Sprintf("%s\nedit on both: %s", c.String(), what)
		if !eq(a, b) || !eq(b, a) {
			hx.Fail(rt, test, "json", c.JSON(), "%s\nafter the same edit on both objects Equal answers false (a=%v, b=%v): a comparison made before the edit is remembered", desc, a, b)
		}
		// a second edit on a only
		what2 := mutateBoth(rt, ma, a)
		if what2 != "" {
			want := am.Equal(ma, mb)
			if eq(a, b) != want || eq(b, a) != want {
				hx.Fail(rt, test, "json", c.JSON(), "%s\nthen on a only: %s\nEqual(a,b)=%v Equal(b,a)=%v, the reference identity says %v (a=%v, b=%v)", desc, what2, eq(a, b), eq(b, a), want, a, b)
			}
			var fresh types.Type
			if p := lx.Guard(func() { fresh = emit.NewTypes(u).Type(ma) }); p == nil {
				if !eq(a, fresh) || !eq(fresh, a) || !eq(a, a) {
					hx.Fail(rt, test, "json", c.JSON(), "%s\nthen on a only: %s\nthe edited object is not Equal to a fresh object of the same description (%v vs %v)", desc, what2, a, fresh)
				}
			}
		}
		hx.NonTrivial(desc + what2)
		hx.Hist("edit/" + what)
	})
}

// mirror applies the edit described by what (as returned by mutateBoth) to another pair.
func mirror(what string, mt *am.Type, lt types.Type) {
	switch t := lt.(type) {
	case *types.FuncType:
		switch what {
		case "Variadic flipped":
			t.Variadic = !t.Variadic
			mt.Variadic = !mt.Variadic
		case "parameter i32 appended":
			t.Params = append(t.Params, types.NewInt(32))
			mt.Params = append(append([]*am.Type(nil), mt.Params...), am.I(32))
		default:
			t.RetType = types.NewInt(7)
			mt.Ret = am.I(7)
		}
	case *types.StructType:
		if what == "field i8 appended" {
			t.Fields = append(t.Fields, types.NewInt(8))
			mt.Fields = append(append([]*am.Type(nil), mt.Fields...), am.I(8))
		} else {
			t.Packed = !t.Packed
			mt.Packed = !mt.Packed
		}
	case *types.ArrayType:
		t.Len++
		mt.Len++
	case *types.VectorType:
		if what == "Len incremented" {
			t.Len++
			mt.Len++
		} else {
			t.Scalable = !t.Scalable
			mt.Scalable = !mt.Scalable
		}
	case *types.PointerType:
		t.AddrSpace += 3
		mt.AddrSpace += 3
	case *types.IntType:
		t.BitSize++
		mt.Bits++
	}
}

// cloneType deep-copies a model type (named types are references by name and are shared).
func cloneType(t *am.Type) *am.Type {
	if t == nil {
		return nil
	}
	c := *t
	c.Elem = cloneType(t.Elem)
	c.Ret = cloneType(t.Ret)
	c.Fields = nil
	for _, f := range t.Fields {
		c.Fields = append(c.Fields, cloneType(f))
	}
	c.Params = nil
	for _, p := range t.Params {
		c.Params = append(c.Params, cloneType(p))
	}
	return &c
}
