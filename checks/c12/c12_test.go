package c12

import (
	"bytes"
	"crypto/sha256"
	"fmt"
	"io"
	"os"
	"os/exec"
	"path/filepath"
	"strings"
	"sync"
	"testing"
	"testing/iotest"

	"github.com/llir/llvm/asm"
	"github.com/llir/llvm/ir"
	"pgregory.net/rapid"

	"verif/h/chaos"
	"verif/h/corpus"
	"verif/h/gen"
	"verif/h/hx"
	"verif/h/lx"
	"verif/h/mut"
	"verif/h/walk"
)

func TestMain(m *testing.M) {
	// child mode: parse the file named by VERIF_CHILD_PARSE and print a digest of the result.
	if f := os.Getenv("VERIF_CHILD_PARSE"); f != "" {
		buf, err := os.ReadFile(f)
		if err != nil {
			fmt.Println("child-error", err)
			os.Exit(0)
		}
		fmt.Println(outcome(string(buf)).digest())
		os.Exit(0)
	}
	hx.Main(m, "C12", nil)
}

// result of one parse.
type result struct {
	ok    bool
	text  string
	panic string
	m     *ir.Module
}

func (r result) digest() string {
	if r.panic != "" {
		return "panic"
	}
	if !r.ok {
		return "rejected"
	}
	return fmt.Sprintf("ok:%x", sha256.Sum256([]byte(r.text)))
}

func outcome(x string) result {
	m, err, p := lx.Parse(x)
	if p != nil {
		return result{panic: fmt.Sprint(p.Val)}
	}
	if err != nil {
		return result{}
	}
	s, pp := lx.Print(m)
	if pp != nil {
		return result{panic: fmt.Sprint(pp.Val)}
	}
	return result{ok: true, text: s, m: m}
}

func genInput(rt *rapid.T) (string, bool) {
	cfg := gen.DefaultCfg()
	cfg.Big = true
	cfg.MaxFuncs = 6
	cfg.Off = map[string]bool{"retattr-align": true, "freeze-metadata": true}
	m, _ := gen.Module(rt, cfg)
	gen.SparseMetadataIDs(rt, m)
	x := m.TextNoisy(gen.DrawNoiseWithAliases(rt))
	rejected := false
	switch rapid.IntRange(0, 7).Draw(rt, "reject") {
	case 6, 7:
		// two independent faults in different top-level entities (which one the translator meets first depends
		// on the order in which it walks its maps): an undefined global and an aggregate index beyond the
		// fields. The input is rejected whichever comes first: an error both times, never an error one time
		// and a crash of the caller the other
		bad := rapid.SampledFrom([]string{
			"  %1 = extractvalue {i32, i8} {i32 1, i8 2}, 5\n",
			"  %1 = insertvalue {i32} undef, i32 1, 3\n",
			"  %1 = extractvalue {i32, {i8, i8}} zeroinitializer, 1, 2\n",
		}).Draw(rt, "badindex")
		x += "\n@verif.rej = global i32* @verif.no.such.global\ndefine void @verif.badidx() {\n" + bad + "  ret void\n}\n"
		rejected = true
	case 0:
		x += "\n@verif.rej = global i32* @verif.no.such.global\n"
		rejected = true
	case 1:
		x += "\n@verif.dup = global i32 0\n@verif.dup = global i32 1\n"
		rejected = true
	}
	return x, rejected
}

// checkInput runs every determinism oracle on x with K repetitions, interleaved with other inputs.
func checkInput(t hx.TB, test, x string, others []string, K int) {
	hx.Trace(test, "ll", x)
	first := outcome(x)
	if first.panic != "" {
		hx.Discard("parse_or_print_panics(judged_by_C01)")
		return
	}
	for k := 1; k < K; k++ {
		// prior activity in the process: parse and print something else
		if len(others) > 0 {
			o := outcome(others[k%len(others)])
			_ = o
		}
		r := outcome(x)
		if r.digest() != first.digest() {
			detail := ""
			if r.ok && first.ok {
				detail = firstDiff(first.text, r.text)
			}
			hx.Fail(t, test, "ll", x, "parse %d of the same text gave %s, parse 0 gave %s\n%s", k, short(r.digest()), short(first.digest()), detail)
		}
		if r.ok && k%4 == 1 {
			if d := walk.Bisimilar(first.m, r.m); d != "" {
				hx.Fail(t, test, "ll", x, "parse %d of the same text gave a structurally different module: %s", k, d)
			}
		}
	}
	// half-done interleaving: x is parsed and held, the other inputs are parsed and printed (each of them
	// succeeds or is rejected exactly as it is alone), and only then is x printed: all of that is "whatever
	// else was parsed or printed earlier in the process". The module of the very first parse is printed once
	// more at the end. A failure is stored together with the other inputs (see TestReplay).
	if first.ok && len(others) > 0 {
		all := x
		for _, o := range others {
			all += otherMarker + o
		}
		held, _, _ := lx.Parse(x)
		alone := make([]result, len(others))
		for i, o := range others {
			alone[i] = outcome(o)
		}
		var ms []*ir.Module
		for _, o := range others {
			mo, err, p := lx.Parse(o)
			if p != nil || err != nil {
				mo = nil
			}
			ms = append(ms, mo)
		}
		if held != nil {
			s, pp := lx.Print(held)
			if pp != nil || s != first.text {
				hx.Fail(t, test, "ll", all, "the text was parsed, %d other inputs were parsed, then the held module was printed: not the text that parse and print give without the others (%v)\n%s", len(others), pp, firstDiff(first.text, s))
			}
		} else {
			hx.Fail(t, test, "ll", all, "parse %d of the same text was rejected, parse 0 was accepted", K)
		}
		for i := len(ms) - 1; i >= 0; i-- {
			if alone[i].panic != "" {
				continue
			}
			if (ms[i] != nil) != alone[i].ok {
				hx.Fail(t, test, "ll", all, "other input %d is accepted=%v while the first text is held, accepted=%v alone", i, ms[i] != nil, alone[i].ok)
			}
			if ms[i] != nil {
				s, pp := lx.Print(ms[i])
				if pp != nil || s != alone[i].text {
					hx.Fail(t, test, "ll", all, "other input %d, parsed while the first text and %d more modules are held and printed last-parsed-first, prints differently from the same input alone (%v)\n%s", i, len(ms)-1, pp, firstDiff(alone[i].text, s))
				}
			}
		}
		if s, pp := lx.Print(first.m); pp != nil || s != first.text {
			hx.Fail(t, test, "ll", all, "the module of the first parse prints differently after the other inputs were handled (%v)\n%s", pp, firstDiff(first.text, s))
		}
		hx.Hist("held_while_others_parsed_and_printed")
	}
	// entry points; a read that failed part-way (between two entities, inside one) came before
	chaos.Run("reader-fails", len(x))
	chaos.Run("reader-fails", len(x)+1)
	dir := filepath.Join(hx.OutDir, fmt.Sprintf("c12-%d", os.Getpid()))
	os.MkdirAll(dir, 0o755)
	path := filepath.Join(dir, "in.ll")
	os.WriteFile(path, []byte(x), 0o644)
	entry := map[string]func() (*ir.Module, error){
		"ParseFile": func() (*ir.Module, error) { return asm.ParseFile(path) },
		"Parse":     func() (*ir.Module, error) { return asm.Parse(path, strings.NewReader(x)) },
		// readers with other, equally legal, delivery habits: the last bytes together with io.EOF, one byte
		// at a time, half of what is asked for, and a chunked reader that ends on a full last chunk
		"Parse(data+EOF reader)":  func() (*ir.Module, error) { return asm.Parse(path, iotest.DataErrReader(strings.NewReader(x))) },
		"Parse(one-byte reader)":  func() (*ir.Module, error) { return asm.Parse(path, iotest.OneByteReader(strings.NewReader(x))) },
		"Parse(half reader)":      func() (*ir.Module, error) { return asm.Parse(path, iotest.HalfReader(strings.NewReader(x))) },
		"Parse(chunked data+EOF)": func() (*ir.Module, error) { return asm.Parse(path, &chunkEOFReader{s: x, chunk: 1 + len(x)/3}) },
		"ParseBytes":              func() (*ir.Module, error) { return asm.ParseBytes(path, []byte(x)) },
		"ParseString":             func() (*ir.Module, error) { return asm.ParseString(path, x) },
	}
	for name, f := range entry {
		var m *ir.Module
		var err error
		if p := lx.Guard(func() { m, err = f() }); p != nil {
			hx.Fail(t, test, "ll", x, "%s panics although ParseString did not: %s", name, p)
		}
		got := result{}
		if err == nil {
			s, pp := lx.Print(m)
			if pp != nil {
				hx.Fail(t, test, "ll", x, "printing the result of %s panics: %s", name, pp)
			}
			got = result{ok: true, text: s}
		}
		if got.digest() != first.digest() {
			hx.Fail(t, test, "ll", x, "entry point %s gave %s, ParseString gave %s", name, short(got.digest()), short(first.digest()))
		}
	}
	// The module belongs to the caller once the parser has returned: the storage the input came from is the
	// caller's to reuse. A bytes.Buffer is reset and refilled (here: with another input, which is parsed
	// too), a byte slice is overwritten, the file is rewritten; the held modules must still print as before.
	if first.ok {
		other := "@verif.other = global i64 7\n"
		if len(others) > 0 {
			other = others[0]
		}
		var bb bytes.Buffer
		bb.Grow(len(x) + len(other) + 64)
		bb.WriteString(x)
		raw := []byte(x)
		held := map[string]*ir.Module{}
		if p := lx.Guard(func() {
			held["Parse(*bytes.Buffer), buffer reset and refilled with another input that is parsed too"], _ = asm.Parse(path, &bb)
			bb.Reset()
			bb.WriteString(other)
			asm.Parse(path, &bb)
			bb.Reset()
			bb.WriteString(strings.Repeat("; scribble\n", 1+len(x)/11))
			held["ParseBytes, slice overwritten afterwards"], _ = asm.ParseBytes(path, raw)
			for i := range raw {
				raw[i] = '#'
			}
			held["ParseFile, file rewritten afterwards"], _ = asm.ParseFile(path)
			os.WriteFile(path, []byte(other), 0o644)
			asm.ParseFile(path)
		}); p != nil {
			hx.Fail(t, test, "ll", x, "parsing from reused storage panics: %s", p)
		}
		for name, m := range held {
			if m == nil {
				hx.Fail(t, test, "ll", x, "%s: rejected although ParseString accepted", name)
			}
			s, pp := lx.Print(m)
			if pp != nil || s != first.text {
				hx.Fail(t, test, "ll", x, "%s: the module held by the caller prints differently once the input's storage is reused (%v)\n%s", name, pp, firstDiff(first.text, s))
			}
		}
		hx.HistN("held_modules_after_input_storage_reuse", len(held))
	}
	os.RemoveAll(dir)
}

func short(d string) string {
	if len(d) > 20 {
		return d[:20]
	}
	return d
}

func firstDiff(a, b string) string {
	la, lb := strings.Split(a, "\n"), strings.Split(b, "\n")
	for i := 0; i < len(la) && i < len(lb); i++ {
		if la[i] != lb[i] {
			return fmt.Sprintf("first differing line %d:\n- %s\n+ %s", i+1, la[i], lb[i])
		}
	}
	return fmt.Sprintf("lengths differ: %d vs %d lines", len(la), len(lb))
}

func TestRepeatedAndInterleaved(t *testing.T) {
	const test = "RepeatedAndInterleaved"
	K := hx.N(16, 64)
	hx.Rule(test, fmt.Sprintf("'big' profile modules (>= 8 type definitions, comdats, globals, attribute groups, named metadata and metadata nodes, so that every map of the translator has many iteration orders) in shuffled order with spelling noise, one third made invalid by an undefined or duplicate global: parsed %d times, interleaved with parses and prints of two other inputs; String(), structural bisimulation (every 4th) and the accept/reject verdict must be identical every time; the four entry points (ParseFile, Parse, ParseBytes, ParseString) must agree. With k >= 8 entities per map an order-dependent result repeats K times by luck with probability <= 2^-(K-1). Non-trivial = accepted input (all six maps populated) or rejected input", K))
	hx.Note("Go map iteration orders are sampled by repetition, not enumerated: no add-only hook can own `range` over a map")
	hx.Check(t, test, hx.N(25, 600), func(rt *rapid.T) {
		x, rej := genInput(rt)
		o1, _ := genInput(rt)
		o2, _ := genInput(rt)
		// the other activity in the process also *fails*, in as many ways as the translator can fail: in the
		// lexer, in the middle of a function body, while types, metadata or global headers are translated, with
		// an internal panic that ParseString turns into an error
		others := []string{o1, o2}
		for k := rapid.IntRange(0, 2).Draw(rt, "failingOthers"); k > 0; k-- {
			others = append(others, rapid.SampledFrom(failingInputs).Draw(rt, "failing"))
			hx.Hist("interleaved_with_a_failing_parse")
		}
		hx.Eval(1)
		checkInput(rt, test, x, others, K)
		if rej {
			hx.Hist("input/rejected")
		} else {
			hx.Hist("input/accepted")
		}
		hx.NonTrivial(x)
		hx.SampleCase(test, x)
	})
}

// failingInputs are rejected by the parser at different depths of the translation.
var failingInputs = []string{
	"@g = global i32 ",
	"@g = global bfloat 0xR0000\n",
	"@a = global i32 1\ndefine void @f() {\n  %v = load i32, i32* @a\n  br label %nowhere\n}\n",
	"%t = type { %u }\n@g = global %t zeroinitializer\n",
	"define i32 @f(i32 %p) {\n  %1 = add i32 %x, 1\n  ret i32 %1\n}\n",
	"!named = !{!0}\n!0 = !DISubrange(count: s0x5)\n",
	"define void @f() {\nentry:\n  ret void\nentry:\n  ret void\n}\n",
	"$c = comdat any\n@a = global i32 0, comdat($nocomdat)\n",
	"@t = global i8* blockaddress(@f, %nb)\ndefine void @f() {\n  ret void\n}\n",
	"define void @f() {\n  ret void\n}\nuselistorder_bb @f, %nb, { 1, 0 }\n",
	"!0 = !{!1}\n!named = !{!0, !7}\n",
	"%s = type { i32 }\n%s = type { i64 }\n",
	"attributes #0 = { nounwind }\ndefine void @f() #0 {\n  %1 = alloca i32\n  %1 = alloca i32\n  ret void\n}\n",
}

func TestCorpora(t *testing.T) {
	const test = "Corpora"
	hx.Rule(test, "repository testdata and llvm-stress programs: same repetition oracle (16 parses)")
	var texts []string
	for _, f := range corpus.Fixed() {
		texts = append(texts, f.Text)
	}
	for i, x := range texts {
		if hx.Mine(i) {
			hx.Eval(1)
			checkInput(t, test, x, texts, 16)
			hx.NonTrivial(x)
		}
	}
}

func TestClangCorpus(t *testing.T) {
	const test = "ClangCorpus"
	hx.Rule(test, "clang-14 output for corpus/src x corpus.ClangVariants (see C01), every third case in the quick tier: same repetition oracle (8 parses)")
	cases := corpus.ClangCases()
	for i, c := range cases {
		if !hx.Mine(i) || !hx.Thorough() && i%3 != 0 {
			continue
		}
		x := c.Text()
		if x == "" {
			hx.Discard("clang_rejects_combination")
			continue
		}
		o := cases[(i+7)%len(cases)].Text()
		hx.Eval(1)
		checkInput(t, test, x, []string{o}, 8)
		hx.NonTrivial("clang/" + c.Name())
	}
}

func TestMutatedCorpus(t *testing.T) {
	const test = "MutatedCorpus"
	hx.Rule(test, "repository testdata and llvm-stress programs changed by 1..3 drawn text mutations (h/mut), kept when llvm-as and the parser accept them: same repetition oracle (12 parses, interleaved with two other inputs)")
	var texts []string
	for _, f := range corpus.Fixed() {
		if len(f.Text) < 16<<10 {
			texts = append(texts, f.Text)
		}
	}
	hx.Check(t, test, hx.N(16, 500), func(rt *rapid.T) {
		x, _, ok := mut.Valid(rt)
		if !ok {
			hx.Discard("mutated_text_not_valid_or_not_accepted")
			return
		}
		i := rapid.IntRange(0, len(texts)-2).Draw(rt, "other")
		hx.Eval(1)
		checkInput(rt, test, x, texts[i:i+2], 12)
		hx.NonTrivial(x)
	})
}

func TestConcurrentParses(t *testing.T) {
	const test = "ConcurrentParses"
	hx.Rule(test, "G in 2..8 goroutines parse and print unrelated generated inputs at the same time (test binary built with -race; the driver turns any race report into a violation): every result equals the sequential result for that input")
	hx.Check(t, test, hx.N(12, 300), func(rt *rapid.T) {
		G := rapid.IntRange(2, 8).Draw(rt, "goroutines")
		var inputs []string
		for i := 0; i < G; i++ {
			x, _ := genInput(rt)
			inputs = append(inputs, x)
		}
		want := make([]string, G)
		for i, x := range inputs {
			want[i] = outcome(x).digest()
		}
		hx.Eval(1)
		got := make([]string, G)
		var wg sync.WaitGroup
		for i := range inputs {
			wg.Add(1)
			go func(i int) {
				defer wg.Done()
				for rep := 0; rep < 3; rep++ {
					got[i] = outcome(inputs[i]).digest()
				}
			}(i)
		}
		wg.Wait()
		if rep := hx.RaceReport(); rep != "" {
			hx.Fail(rt, test, "ll", strings.Join(inputs, "\n;---- next input ----\n"), "the race detector reports a data race while %d goroutines parse unrelated inputs:\n%s", G, rep)
		}
		for i := range inputs {
			if got[i] != want[i] {
				hx.Fail(rt, test, "ll", inputs[i], "input %d parsed concurrently with %d others gave %s, sequentially %s", i, G-1, short(got[i]), short(want[i]))
			}
		}
		hx.NonTrivial(strings.Join(inputs, "\n;----\n"))
	})
}

func TestOtherProcesses(t *testing.T) {
	const test = "OtherProcesses"
	hx.Rule(test, "a sample of generated inputs is re-parsed in fresh processes (new hash seeds): the digest of String() (or the rejection) must equal the in-process one")
	exe, err := os.Executable()
	if err != nil {
		t.Skip("no executable path")
	}
	hx.Check(t, test, hx.N(6, 120), func(rt *rapid.T) {
		x, _ := genInput(rt)
		want := outcome(x).digest()
		if want == "panic" {
			return
		}
		dir := filepath.Join(hx.OutDir, fmt.Sprintf("c12c-%d", os.Getpid()))
		os.MkdirAll(dir, 0o755)
		defer os.RemoveAll(dir)
		path := filepath.Join(dir, "child.ll")
		os.WriteFile(path, []byte(x), 0o644)
		hx.Eval(1)
		for rep := 0; rep < 3; rep++ {
			cmd := exec.Command(exe, "-test.run", "^$")
			cmd.Env = append(os.Environ(), "VERIF_CHILD_PARSE="+path)
			var out bytes.Buffer
			cmd.Stdout = &out
			if err := cmd.Run(); err != nil {
				hx.Discard("child_process_failed")
				return
			}
			got := strings.TrimSpace(strings.Split(out.String(), "\n")[0])
			if got != want {
				hx.Fail(rt, test, "ll", x, "a fresh process gave %s, this process %s", short(got), short(want))
			}
		}
		hx.NonTrivial(x)
	})
}

func TestReplay(t *testing.T) {
	path := os.Getenv("VERIF_REPLAY")
	if path == "" {
		t.Skip()
	}
	buf, err := os.ReadFile(path)
	if err != nil {
		t.Fatal(err)
	}
	parts := strings.Split(string(buf), otherMarker)
	checkInput(t, "Replay", parts[0], parts[1:], 64)
}

// otherMarker separates, in a stored case, the judged input from the other inputs that were handled in between.
const otherMarker = "\n; ==== verif C12: another input, handled in the same process ====\n"

// chunkEOFReader delivers s in chunks and returns io.EOF together with the last chunk.
type chunkEOFReader struct {
	s     string
	chunk int
}

func (r *chunkEOFReader) Read(p []byte) (int, error) {
	n := r.chunk
	if n > len(p) {
		n = len(p)
	}
	if n >= len(r.s) {
		n = copy(p, r.s)
		r.s = ""
		return n, io.EOF
	}
	copy(p, r.s[:n])
	r.s = r.s[n:]
	return n, nil
}
