package c13

import (
	"encoding/json"
	"fmt"
	"testing"

	"github.com/llir/llvm/ir"
	"github.com/llir/llvm/ir/constant"
	"github.com/llir/llvm/ir/types"
	"github.com/llir/llvm/ir/value"
	"pgregory.net/rapid"

	"verif/h/hx"
	"verif/h/kf"
	"verif/h/lx"
)

// lateRecipe describes a small module built directly through the public API in which the address space of a
// global variable, of a function and of a stack slot is assigned at a drawn moment: right after construction
// (0), after the aliases were made (1) or after everything else was built (2). The constructors take no address
// space, so assigning the field later is the only way the API offers; whatever cached a type before that
// (the entity itself, its aliases, its users) keeps the old one. The text may therefore show address space 0
// in places — that is the caller's business — but printing must neither race nor depend on who prints first.
type lateRecipe struct {
	AS       [3]int // address space of the global, the function, the stack slot
	When     [3]int // moment of assignment, see above
	AliasOf  []int  // one alias per entry: 0 = of the global, 1 = of the function
	Users    []int  // instructions of @main, see build
	Unnamed  bool   // unnamed global, function and results
	TypeSeen int    // bit set: Type() of global(1), function(2), alias(4) queried before the assignment (a cache is filled)
}

func (r lateRecipe) build() *ir.Module {
	m := ir.NewModule()
	name := func(s string) string {
		if r.Unnamed {
			return ""
		}
		return s
	}
	g := m.NewGlobalDef(name("g"), constant.NewInt(types.I32, 7))
	callee := m.NewFunc(name("callee"), types.I32)
	callee.NewBlock("").NewRet(constant.NewInt(types.I32, 0))
	var slot *ir.InstAlloca
	assign := func(moment int) {
		if r.When[0] == moment {
			g.AddrSpace = types.AddrSpace(r.AS[0])
		}
		if r.When[1] == moment {
			callee.AddrSpace = types.AddrSpace(r.AS[1])
		}
		if r.When[2] == moment && slot != nil {
			slot.AddrSpace = types.AddrSpace(r.AS[2])
		}
	}
	if r.TypeSeen&1 != 0 {
		g.Type()
	}
	if r.TypeSeen&2 != 0 {
		callee.Type()
	}
	assign(0)
	var ga, fa []*ir.Alias
	for i, of := range r.AliasOf {
		if of == 0 {
			ga = append(ga, m.NewAlias(fmt.Sprintf("ag%d", i), g))
		} else {
			fa = append(fa, m.NewAlias(fmt.Sprintf("af%d", i), callee))
		}
	}
	if r.TypeSeen&4 != 0 {
		for _, a := range m.Aliases {
			a.Type()
		}
	}
	assign(1)
	main := m.NewFunc("main", types.I32)
	b := main.NewBlock(name("entry"))
	slot = b.NewAlloca(types.I32)
	if r.When[2] <= 1 {
		slot.AddrSpace = types.AddrSpace(r.AS[2])
	}
	pick := func(l []*ir.Alias, k int) *ir.Alias {
		if len(l) == 0 {
			return nil
		}
		return l[k%len(l)]
	}
	for k, u := range r.Users {
		switch u {
		case 0:
			b.NewLoad(types.I32, g)
		case 1:
			if a := pick(ga, k); a != nil {
				b.NewLoad(types.I32, a)
			}
		case 2:
			b.NewCall(callee)
		case 3:
			if a := pick(fa, k); a != nil {
				b.NewCall(a)
			}
		case 4:
			b.NewStore(constant.NewInt(types.I32, int64(k)), slot)
		case 5:
			b.NewLoad(types.I32, constant.NewGetElementPtr(types.I32, g, constant.NewInt(types.I64, 0)))
		case 6:
			if a := pick(ga, k); a != nil {
				b.NewPtrToInt(constant.NewBitCast(a, types.NewPointer(types.I8)), types.I64)
			}
		case 7:
			b.NewPtrToInt(callee, types.I64)
		case 8:
			if a := pick(fa, k); a != nil {
				b.NewSelect(constant.NewBool(k%2 == 0), value.Value(a), a)
			}
		case 9:
			b.NewLoad(types.I32, slot)
		}
	}
	b.NewRet(constant.NewInt(types.I32, 0))
	assign(2)
	return m
}

func genLateRecipe(rt *rapid.T) lateRecipe {
	var r lateRecipe
	for i := range r.AS {
		r.AS[i] = rapid.IntRange(0, 3).Draw(rt, "as")
		r.When[i] = rapid.IntRange(0, 2).Draw(rt, "when")
	}
	for i, n := 0, rapid.IntRange(1, 3).Draw(rt, "naliases"); i < n; i++ {
		r.AliasOf = append(r.AliasOf, rapid.IntRange(0, 1).Draw(rt, "aliasOf"))
	}
	for i, n := 0, rapid.IntRange(1, 8).Draw(rt, "nusers"); i < n; i++ {
		r.Users = append(r.Users, rapid.IntRange(0, 9).Draw(rt, "user"))
	}
	r.Unnamed = rapid.Bool().Draw(rt, "unnamed")
	r.TypeSeen = rapid.IntRange(0, 7).Draw(rt, "typeSeen")
	return r
}

// TestAssignedAfterConstruction: see lateRecipe. Same oracles as ConstructedModules: no data race, every call
// returns what a lone sequential call on an identical fresh module returns.
func TestAssignedAfterConstruction(t *testing.T) {
	const test = "AssignedAfterConstruction"
	hx.Rule(test, "small modules built directly through the public API (global, function, 1..3 aliases of them, a stack slot, 1..8 users: loads, calls, stores, constant expressions, casts, selects over the entities and their aliases) with address spaces 0..3 assigned to the global, the function and the stack slot right after construction, after the aliases were made, or after everything else was built, Type() queried or not before the assignment x start state x 2..8 goroutines; no data race and every concurrent result equals the sequential one")
	hx.Check(t, test, hx.N(150, 4000), func(rt *rapid.T) {
		r := genLateRecipe(rt)
		pl := genPlan(rt)
		pl.Constructed, pl.Recipe = true, &r
		if pl.Printed && rapid.IntRange(0, 1).Draw(rt, "unprinted") == 0 {
			pl.Printed = false
		}
		if !pl.Printed && kfFirstPrint {
			for g := range pl.Ops {
				for k := range pl.Ops[g] {
					if pl.Ops[g][k].Kind != "String" && pl.Ops[g][k].Kind != "WriteTo" {
						pl.Ops[g][k].Kind = "String"
						kf.Hit("KF-C13-first-print-vs-subentity")
					}
				}
			}
		}
		mk := func() *ir.Module {
			var m *ir.Module
			if p := lx.Guard(func() { m = r.build() }); p != nil {
				return nil
			}
			return m
		}
		rj, _ := json.Marshal(r)
		hx.Eval(1)
		checkCaseWith(rt, test, "; built from the recipe in the plan: "+string(rj)+"\n", pl, mk)
		late := r.When[0] > 0 && r.AS[0] > 0 || r.When[1] > 0 && r.AS[1] > 0 || r.When[2] > 0 && r.AS[2] > 0
		if late {
			hx.NonTrivial(fmt.Sprintf("%v|%s", pl, rj))
		}
		hx.Hist(fmt.Sprintf("late/address_space_assigned_after_a_user_or_alias_exists/%v", late))
		hx.Hist(fmt.Sprintf("late/start_printed/%v", pl.Printed))
	})
}
