package c13

import (
	"bytes"
	"encoding/json"
	"fmt"
	"github.com/llir/llvm/ir/metadata"
	"os"
	"os/exec"
	"strings"
	"sync"
	"testing"

	"github.com/llir/llvm/ir"
	"github.com/llir/llvm/ir/constant"
	"github.com/llir/llvm/ir/types"
	"pgregory.net/rapid"

	"verif/h/apiedit"
	"verif/h/corpus"
	"verif/h/emit"
	"verif/h/gen"
	"verif/h/hx"
	"verif/h/kf"
	"verif/h/lx"
)

func TestMain(m *testing.M) {
	// child mode: provoke the recorded known finding in a separate process (a race provoked in this
	// process would make the test binary itself fail) and report what the race detector saw.
	if os.Getenv("VERIF_C13_PROBE") != "" {
		if firstPrintRaces() {
			fmt.Println("PROBE-RACE")
		} else {
			fmt.Println("PROBE-NORACE")
		}
		os.Exit(0)
	}
	hx.Main(m, "C13", func() {
		kfFirstPrint = kf.Activate("KF-C13-first-print-vs-subentity", func(in string) bool {
			exe, err := os.Executable()
			if err != nil {
				return false
			}
			dir, _ := os.MkdirTemp(hx.OutDir, "probe")
			defer os.RemoveAll(dir)
			cmd := exec.Command(exe, "-test.run", "^$")
			cmd.Env = append(os.Environ(), "VERIF_C13_PROBE=1", "GORACE=halt_on_error=0 exitcode=0 log_path="+dir+"/race")
			out, _ := cmd.CombinedOutput()
			return strings.Contains(string(out), "PROBE-RACE")
		})
	})
}

// firstPrintRaces builds a small module through the API and lets one goroutine print the module for the
// first time while another prints one of its functions; it reports whether the race detector objected.
func firstPrintRaces() bool {
	hx.RaceReport()
	for rep := 0; rep < 20; rep++ {
		m := ir.NewModule()
		g := m.NewGlobalDef("", constant.NewInt(types.I32, 1))
		f := m.NewFunc("", types.I32)
		b := f.NewBlock("")
		v := b.NewLoad(types.I32, g)
		b.NewRet(v)
		var wg sync.WaitGroup
		wg.Add(2)
		go func() { defer wg.Done(); _ = m.String() }()
		go func() { defer wg.Done(); _ = f.LLString() }()
		wg.Wait()
		if hx.RaceReport() != "" {
			return true
		}
	}
	return false
}

// op is one printing call on the shared module.
type op struct {
	Kind    string // String WriteTo Func Block Inst Ident Type
	F, B, I int
}

func (o op) String() string { return fmt.Sprintf("%s(%d,%d,%d)", o.Kind, o.F, o.B, o.I) }

// run performs op on m and returns its result.
func run(m *ir.Module, o op) (res string, p *lx.Panic) {
	p = lx.Guard(func() {
		switch o.Kind {
		case "String":
			res = m.String()
		case "WriteTo":
			var buf bytes.Buffer
			n, err := m.WriteTo(&buf)
			res = fmt.Sprintf("%d %v %s", n, err, buf.String())
		default:
			if len(m.Funcs) == 0 {
				res = "-"
				return
			}
			f := m.Funcs[o.F%len(m.Funcs)]
			if o.Kind == "Func" {
				res = f.LLString()
				return
			}
			if o.Kind == "Ident" {
				res = f.Ident() + " " + f.Type().String()
				for _, p := range f.Params { // the identifiers of the parameters (of declarations, too)
					res += " " + p.Ident()
				}
				for _, g := range m.Globals {
					res += " " + g.Ident()
				}
				return
			}
			if len(f.Blocks) == 0 {
				res = f.LLString()
				return
			}
			b := f.Blocks[o.B%len(f.Blocks)]
			switch o.Kind {
			case "Block":
				res = b.LLString()
			case "Inst":
				if len(b.Insts) == 0 {
					res = b.Term.LLString()
				} else {
					res = b.Insts[o.I%len(b.Insts)].LLString()
				}
			case "Type":
				res = b.Ident()
				for _, in := range b.Insts {
					if v, ok := in.(interface {
						Ident() string
						String() string
					}); ok {
						res += " " + v.String()
					}
				}
			}
		}
	})
	return
}

type plan struct {
	Printed bool   // start state: module already printed once
	Ops     [][]op // per goroutine
	// Edit (when not 0): after the start state was reached, the module is edited so that the numbers of
	// unnamed locals move (editAfterNumbering with this seed), and is not printed again before the goroutines start
	Edit uint64 `json:",omitempty"`
	// SharedObjects: the constructed module keeps equal constants and equal literal types as one object each
	// (emit.ModuleShared); a replay, which starts from the text, gives every use its own object
	SharedObjects bool `json:",omitempty"`
	// Constructed: the module came from the API, not the parser; a replay parses the text and then
	// takes the IDs of unnamed globals and locals, and of the metadata definitions listed in
	// Unnumber, back to "not yet assigned".
	Constructed bool  `json:",omitempty"`
	Unnumber    []int `json:",omitempty"`
	// Stale: address spaces were assigned after construction without refreshing the cached types
	// (emit.ModuleWith(m, true)): the caches of such globals, functions and allocas still say addrspace 0.
	Stale bool `json:",omitempty"`
	// LateAS: the address spaces of globals and functions were assigned after everything else was built, so
	// aliases (and whatever else derives a type from them) cached address space 0
	LateAS bool `json:",omitempty"`
	// MDRotate: the metadata definitions are listed in another order than that of their IDs (rotated by
	// MDRotate positions; 0 = as built): the API lets a client list them in any order.
	MDRotate int `json:",omitempty"`
	// Recipe: the module is built from this description (TestAssignedAfterConstruction), not from the text
	Recipe *lateRecipe `json:",omitempty"`
}

// rotateMDs lists the metadata definitions of m in an order that is not the order of their IDs.
func rotateMDs(m *ir.Module, k int) {
	if n := len(m.MetadataDefs); n > 1 && k%n != 0 {
		k %= n
		m.MetadataDefs = append(append([]metadata.Definition{}, m.MetadataDefs[k:]...), m.MetadataDefs[:k]...)
	}
}

// unprint takes a parsed module back to the state of one built through the API and never printed.
// staleAliases takes the aliases of a parsed module back to what a construction with late address spaces
// leaves: the cached type of an alias of a global or function says address space 0.
func staleAliases(m *ir.Module) {
	for _, a := range m.Aliases {
		as := types.AddrSpace(0)
		switch x := a.Aliasee.(type) {
		case *ir.Global:
			as = x.AddrSpace
		case *ir.Func:
			as = x.AddrSpace
		}
		if as != 0 && a.Typ != nil {
			a.Typ = types.NewPointer(a.Typ.ElemType)
		}
	}
}

func unprint(m *ir.Module, unnumber []int, stale bool) {
	if stale {
		for _, g := range m.Globals {
			if g.AddrSpace != 0 && g.Typ != nil {
				g.Typ = types.NewPointer(g.Typ.ElemType)
			}
		}
		for _, f := range m.Funcs {
			if f.AddrSpace != 0 && f.Typ != nil {
				f.Typ = types.NewPointer(f.Typ.ElemType)
			}
			for _, b := range f.Blocks {
				for _, in := range b.Insts {
					if a, ok := in.(*ir.InstAlloca); ok && a.AddrSpace != 0 && a.Typ != nil {
						a.Typ = types.NewPointer(a.Typ.ElemType)
					}
				}
			}
		}
	}
	type named interface {
		IsUnnamed() bool
		SetID(int64)
	}
	reset := func(v interface{}) {
		if n, ok := v.(named); ok && n.IsUnnamed() {
			n.SetID(0)
		}
	}
	for _, g := range m.Globals {
		reset(g)
	}
	for _, f := range m.Funcs {
		reset(f)
		for _, p := range f.Params {
			reset(p)
		}
		for _, b := range f.Blocks {
			reset(b)
			for _, i := range b.Insts {
				reset(i)
			}
			reset(b.Term)
		}
	}
	for _, a := range m.Aliases {
		reset(a)
	}
	for _, i := range unnumber {
		if i < len(m.MetadataDefs) {
			m.MetadataDefs[i].SetID(-1)
		}
	}
}

// editAfterNumbering edits a module whose unnamed values have their numbers (from the parser or from a print)
// so that the numbers of unnamed locals move: a seeded subset of parameters, blocks and results is renamed
// (named to unnamed and back), and a stack slot without a name is inserted in front of the entry block of every
// second function definition. Global numbering is left alone. The same seed makes the same edit on every copy.
func editAfterNumbering(m *ir.Module, seed uint64) {
	apiedit.RenameLocals(seed, m)
	k := seed
	for _, f := range m.Funcs {
		if len(f.Blocks) == 0 {
			continue
		}
		k = k*6364136223846793005 + 1442695040888963407
		if (k>>33)%2 == 0 {
			b := f.Blocks[0]
			b.Insts = append([]ir.Instruction{ir.NewAlloca(types.I32)}, b.Insts...)
		}
	}
}

// editedPlan turns pl into a plan for the edited start state. While the first-print finding reproduces (the
// numbering walk writes IDs under the function's lock, sub-entity printers read them without), the plan keeps
// to the calls that take that lock: String, WriteTo and Func.LLString.
func editedPlan(rt *rapid.T, pl plan) plan {
	pl.Edit = rapid.Uint64Range(1, 1<<62).Draw(rt, "editSeed")
	if kfFirstPrint {
		for g := range pl.Ops {
			for k := range pl.Ops[g] {
				switch pl.Ops[g][k].Kind {
				case "String", "WriteTo", "Func":
				default:
					pl.Ops[g][k].Kind = "String"
					kf.Hit("KF-C13-first-print-vs-subentity")
				}
			}
		}
	}
	return pl
}

func genPlan(rt *rapid.T) plan {
	pl := plan{Printed: rapid.Bool().Draw(rt, "printedOnce")}
	G := rapid.IntRange(2, 8).Draw(rt, "goroutines")
	kinds := []string{"String", "String", "WriteTo", "Func", "Block", "Inst", "Ident", "Type"}
	for g := 0; g < G; g++ {
		n := rapid.IntRange(1, 5).Draw(rt, "nops")
		var ops []op
		for k := 0; k < n; k++ {
			ops = append(ops, op{Kind: rapid.SampledFrom(kinds).Draw(rt, "op"), F: rapid.IntRange(0, 7).Draw(rt, "f"), B: rapid.IntRange(0, 7).Draw(rt, "b"), I: rapid.IntRange(0, 15).Draw(rt, "i")})
		}
		pl.Ops = append(pl.Ops, ops)
	}
	return pl
}

// checkCase parses x into a shared module and a fresh reference copy, runs the plan concurrently and
// compares every result with what the call returns sequentially.
func checkCase(t hx.TB, test, x string, pl plan) {
	checkCaseWith(t, test, x, pl, func() *ir.Module {
		m, err, p := lx.Parse(x)
		if err != nil || p != nil {
			return nil
		}
		return m
	})
}

// checkCaseWith is checkCase with an arbitrary source of identical fresh modules (parsed or constructed).
func checkCaseWith(t hx.TB, test, x string, pl plan, mk func() *ir.Module) {
	pj, _ := json.Marshal(pl)
	caseText := fmt.Sprintf("; PLAN %s\n%s", pj, x)
	hx.Trace(test, "ll", caseText)
	shared := mk()
	if shared == nil {
		hx.Discard("module_source_fails(judged_elsewhere)")
		return
	}
	// sequential expectations, from fresh copies: one never printed, one printed once (evaluated after
	// the concurrent phase, see below)
	expect := func(o op) map[string]bool {
		out := map[string]bool{}
		for _, printed := range []bool{false, true} {
			if pl.Printed && !printed && pl.Edit == 0 {
				continue
			}
			fresh := mk()
			if fresh == nil {
				return nil
			}
			if pl.Edit != 0 {
				// the start state of an edited case: (printed,) edited; then as it is, or printed once more
				if pl.Printed {
					if _, pp := lx.Print(fresh); pp != nil {
						return nil
					}
				}
				editAfterNumbering(fresh, pl.Edit)
			}
			if printed {
				if _, pp := lx.Print(fresh); pp != nil {
					return nil
				}
			}
			r, pp := run(fresh, o)
			if pp != nil {
				return nil
			}
			out[r] = true
			// module-level calls have one answer whatever the start state
			if o.Kind == "String" || o.Kind == "WriteTo" {
				break
			}
		}
		return out
	}
	if pl.Printed {
		if _, pp := lx.Print(shared); pp != nil {
			hx.Discard("print_panics(judged_by_C01)")
			return
		}
	}
	if pl.Edit != 0 {
		editAfterNumbering(shared, pl.Edit)
	}
	hx.RaceReport() // drop anything reported before this case
	type res struct {
		o   op
		out string
		p   *lx.Panic
	}
	results := make([][]res, len(pl.Ops))
	var wg sync.WaitGroup
	start := make(chan struct{})
	// more than one module: a module of its own (a fresh copy from the same source, never shared) is printed by
	// one more goroutine during the concurrent phase; it shares nothing with the module under test, so neither
	// the race detector nor the texts may notice it
	var bystander, bystanderOut string
	if other := mk(); other != nil {
		if pl.Edit == 0 {
			bystander, _ = lx.Print(mk())
		}
		wg.Add(1)
		go func() {
			defer wg.Done()
			<-start
			for k := 0; k < 3; k++ {
				bystanderOut, _ = lx.Print(other)
			}
		}()
		hx.Hist("another_module_printed_during_the_concurrent_phase")
	}
	for g := range pl.Ops {
		wg.Add(1)
		go func(g int) {
			defer wg.Done()
			<-start
			for _, o := range pl.Ops[g] {
				out, p := run(shared, o)
				results[g] = append(results[g], res{o, out, p})
			}
		}(g)
	}
	close(start)
	wg.Wait()
	if rep := hx.RaceReport(); rep != "" {
		hx.Fail(t, test, "ll", caseText, "the race detector reports a data race while %d goroutines print the same module (start state: printed once = %v) and one goroutine prints another module:\n%s", len(pl.Ops), pl.Printed, rep)
	}
	if bystander != "" && bystanderOut != bystander {
		hx.Fail(t, test, "ll", caseText, "a module of its own, printed by one goroutine while %d goroutines print the module under test, does not print what it prints alone:\n%s", len(pl.Ops), firstDiff(bystander, bystanderOut))
	}
	// The sequential expectations are computed only now, from fresh copies: a process-wide cache that the
	// printer fills lazily must not have been warmed by a sequential print before the concurrent phase.
	want := map[string]map[string]bool{}
	for _, ops := range pl.Ops {
		for _, o := range ops {
			if _, ok := want[o.String()]; !ok {
				e := expect(o)
				if e == nil {
					hx.Discard("sequential_call_panics(judged_elsewhere)")
					return
				}
				want[o.String()] = e
			}
		}
	}
	for g, rs := range results {
		for _, r := range rs {
			if r.p != nil {
				hx.Fail(t, test, "ll", caseText, "goroutine %d: %s panics under concurrency although the sequential call does not: %s", g, r.o, r.p)
			}
			if !want[r.o.String()][r.out] {
				var w string
				for k := range want[r.o.String()] {
					w = k
				}
				hx.Fail(t, test, "ll", caseText, "goroutine %d: %s returned text that differs from the sequential call:\n%s", g, r.o, firstDiff(w, r.out))
			}
		}
	}
}

func firstDiff(a, b string) string {
	la, lb := strings.Split(a, "\n"), strings.Split(b, "\n")
	for i := 0; i < len(la) && i < len(lb); i++ {
		if la[i] != lb[i] {
			return fmt.Sprintf("line %d:\n- %s\n+ %s", i+1, la[i], lb[i])
		}
	}
	return fmt.Sprintf("lengths differ: %d vs %d lines", len(la), len(lb))
}

func genText(rt *rapid.T) string {
	cfg := gen.DefaultCfg()
	cfg.UnnamedBias = 7
	cfg.Off = map[string]bool{"retattr-align": true, "freeze-metadata": true}
	// one case in three carries a debug-info graph (flag sets, enumerated fields, inline nodes: code
	// paths of the printer that the plain cases never enter)
	cfg.DebugInfo = rapid.IntRange(0, 2).Draw(rt, "debuginfo") == 0
	m, _ := gen.Module(rt, cfg)
	return m.TextNoisy(gen.DrawNoise(rt))
}

func TestConcurrentPrinters(t *testing.T) {
	const test = "ConcurrentPrinters"
	hx.Rule(test, "parsed generated modules (biased to unnamed globals, locals and inline metadata) x start state {never printed, printed once} x 2..8 goroutines each running a drawn sequence of String, WriteTo, Func.LLString, Block.LLString, instruction LLString, Ident and Type calls on the shared module; built with -race: after every case the race detector's log is inspected so that a report is attributed to the case; every returned text must equal the text of the same call on a fresh sequential copy (for sub-entity calls: in either start state); distinct non-trivial case = (module, plan) with at least two String/WriteTo calls in different goroutines")
	hx.Note("the schedule is the Go scheduler's: the race detector flags every unsynchronised conflicting pair it observes regardless of timing, but code that only runs under a particular interleaving can be missed")
	hx.Check(t, test, hx.N(60, 2500), func(rt *rapid.T) {
		x := genText(rt)
		pl := genPlan(rt)
		if rapid.IntRange(0, 2).Draw(rt, "editedStart") == 0 {
			pl = editedPlan(rt, pl)
			hx.Hist("start_edited_after_numbering")
		}
		hx.Eval(1)
		checkCase(rt, test, x, pl)
		n := 0
		for _, ops := range pl.Ops {
			for _, o := range ops {
				if o.Kind == "String" || o.Kind == "WriteTo" {
					n++
					break
				}
			}
		}
		if n >= 2 {
			hx.NonTrivial(fmt.Sprintf("%v|%s", pl, x))
		}
		hx.Hist(fmt.Sprintf("goroutines/%d", len(pl.Ops)))
		hx.Hist(fmt.Sprintf("start_printed/%v", pl.Printed))
		hx.SampleCase(test, fmt.Sprintf("printedOnce=%v plan=%v module=%d bytes", pl.Printed, pl.Ops, len(x)))
	})
}

func TestClangCorpus(t *testing.T) {
	const test = "ClangCorpus"
	hx.Rule(test, "clang-14 output for corpus/src x corpus.ClangVariants (see C01; every fourth case in the quick tier), parsed: 6 goroutines running String, WriteTo and sub-entity calls from both start states; same oracles as ConcurrentPrinters")
	for i, c := range corpus.ClangCases() {
		if !hx.Mine(i) || !hx.Thorough() && i%4 != 0 {
			continue
		}
		x := c.Text()
		if x == "" || len(x) > 200<<10 {
			hx.Discard("clang_rejects_combination_or_too_large")
			continue
		}
		for _, printed := range []bool{false, true} {
			pl := plan{Printed: printed}
			for g := 0; g < 6; g++ {
				pl.Ops = append(pl.Ops, []op{{Kind: "String"}, {Kind: "Func", F: g}, {Kind: "Block", F: g, B: 1}, {Kind: "WriteTo"}, {Kind: "Inst", F: g, B: 0, I: g}})
			}
			hx.Eval(1)
			checkCase(t, test, x, pl)
			hx.NonTrivial(fmt.Sprintf("clang/%s/%v", c.Name(), printed))
		}
	}
}

func TestCatalogue(t *testing.T) {
	const test = "Catalogue"
	hx.Rule(test, "fixed cases: repository testdata and a module with unnamed globals, an unnamed function and unnamed locals, printed by 8 goroutines calling String() from both start states")
	texts := []string{"@0 = global i32 1\n@1 = global i32 2\ndefine i32 @2(i32) {\n  %2 = add i32 %0, 1\n  %3 = load i32, i32* @0\n  %4 = add i32 %2, %3\n  ret i32 %4\n}\n!named = !{!0}\n!0 = !{!{i32 1}}\n"}
	for _, f := range corpus.Fixed() {
		texts = append(texts, f.Text)
	}
	for i, x := range texts {
		if !hx.Mine(i) {
			continue
		}
		for _, printed := range []bool{false, true} {
			pl := plan{Printed: printed}
			for g := 0; g < 8; g++ {
				pl.Ops = append(pl.Ops, []op{{Kind: "String"}, {Kind: "Func", F: g}, {Kind: "WriteTo"}})
			}
			hx.Eval(1)
			checkCase(t, test, x, pl)
			hx.NonTrivial(fmt.Sprintf("cat/%d/%v", i, printed))
		}
	}
}

func TestReplay(t *testing.T) {
	path := os.Getenv("VERIF_REPLAY")
	if path == "" {
		t.Skip()
	}
	buf, err := os.ReadFile(path)
	if err != nil {
		t.Fatal(err)
	}
	text := string(buf)
	if strings.HasPrefix(text, "; PLAN ") {
		nl := strings.IndexByte(text, '\n')
		var pl plan
		if json.Unmarshal([]byte(text[7:nl]), &pl) == nil {
			for rep := 0; rep < 30; rep++ {
				if pl.Recipe != nil {
					checkCaseWith(t, "Replay", text[nl+1:], pl, func() *ir.Module {
						var m *ir.Module
						if p := lx.Guard(func() { m = pl.Recipe.build() }); p != nil {
							return nil
						}
						return m
					})
					continue
				}
				if pl.Constructed {
					checkCaseWith(t, "Replay", text[nl+1:], pl, func() *ir.Module {
						m, err, p := lx.Parse(text[nl+1:])
						if err != nil || p != nil {
							return nil
						}
						unprint(m, pl.Unnumber, pl.Stale)
						if pl.LateAS {
							staleAliases(m)
						}
						rotateMDs(m, pl.MDRotate)
						return m
					})
					continue
				}
				checkCase(t, "Replay", text[nl+1:], pl)
			}
		}
	}
	for _, printed := range []bool{false, true} {
		pl := plan{Printed: printed}
		for g := 0; g < 8; g++ {
			if g%2 == 1 {
				// identifier queries first, while the others are in their first print
				pl.Ops = append(pl.Ops, []op{{Kind: "Ident", F: g / 2}, {Kind: "Ident", F: g/2 + 1}, {Kind: "Type", F: g}, {Kind: "String"}})
				continue
			}
			pl.Ops = append(pl.Ops, []op{{Kind: "String"}, {Kind: "Func", F: g}, {Kind: "Block", F: g, B: g}, {Kind: "WriteTo"}, {Kind: "Inst", F: g, B: 1, I: g}})
		}
		for rep := 0; rep < 20; rep++ {
			checkCase(t, "Replay", string(buf), pl)
		}
	}
}

// TestConstructedModules: modules built through the API (never printed: unnamed globals and locals have no
// IDs yet, a drawn subset of the metadata definitions is unnumbered) printed by several goroutines.
func TestConstructedModules(t *testing.T) {
	const test = "ConstructedModules"
	hx.Rule(test, "modules built through the public API from generated programs (IDs of unnamed globals, locals and of a drawn subset of metadata definitions not yet assigned; in every second case the metadata definitions are listed in an order that is not the order of their IDs) x start state x 2..8 goroutines. From the never-printed state the plan uses whole-module calls (String, WriteTo); sub-entity calls (Func/Block/instruction LLString, Ident) run concurrently with a first whole-module print only while known finding KF-C13-first-print-vs-subentity does not reproduce. Same oracles as ConcurrentPrinters")
	hx.Check(t, test, hx.N(100, 2500), func(rt *rapid.T) {
		cfg := gen.DefaultCfg()
		cfg.UnnamedBias = 7
		cfg.ForceMD = rapid.IntRange(0, 3).Draw(rt, "forcemd") != 0
		cfg.Off = map[string]bool{"retattr-align": true, "freeze-metadata": true}
		am_, _ := gen.Module(rt, cfg)
		am_.Order = nil
		// one case in three uses the API naively: address spaces assigned after construction, cached types left as they were
		stale := rapid.IntRange(0, 2).Draw(rt, "staleTypes") == 0
		lateAS := stale && rapid.Bool().Draw(rt, "lateAddrSpaces")
		// one careful case in three keeps equal constants and equal literal types as one object each: many printers
		// then read (and must only read) the same constant object from several places at once
		sharedObjects := !stale && rapid.IntRange(0, 2).Draw(rt, "sharedObjects") == 0
		if sharedObjects {
			hx.Hist("constructed/shared_constant_and_type_objects")
		}
		unnumber := map[int]bool{}
		var unl []int
		for i := range am_.MDs {
			if rapid.IntRange(0, 2).Draw(rt, "unnumber") != 0 {
				unnumber[i] = true
				unl = append(unl, i)
			}
		}
		// every second case lists the metadata definitions in an order that is not the order of their IDs
		mdRotate := 0
		if len(am_.MDs) > 1 && rapid.Bool().Draw(rt, "mdrotate") {
			mdRotate = rapid.IntRange(1, len(am_.MDs)-1).Draw(rt, "mdrotateby")
		}
		mk := func() *ir.Module {
			var m *ir.Module
			if p := lx.Guard(func() {
				if sharedObjects {
					m, _ = emit.ModuleShared(am_)
				} else {
					m, _ = emit.ModuleWithLate(am_, stale, lateAS)
				}
			}); p != nil {
				return nil
			}
			for i, d := range m.MetadataDefs {
				if unnumber[i] {
					d.SetID(-1)
				}
			}
			rotateMDs(m, mdRotate)
			return m
		}
		pl := genPlan(rt)
		pl.Constructed, pl.Unnumber, pl.Stale, pl.MDRotate, pl.LateAS = true, unl, stale, mdRotate, lateAS
		pl.SharedObjects = sharedObjects
		// the never-printed state is what a constructed module adds: start there three times out of four
		if pl.Printed && rapid.IntRange(0, 1).Draw(rt, "unprinted") == 0 {
			pl.Printed = false
		}
		if !pl.Printed && kfFirstPrint {
			// whole-module calls only
			for g := range pl.Ops {
				for k := range pl.Ops[g] {
					if pl.Ops[g][k].Kind != "String" && pl.Ops[g][k].Kind != "WriteTo" {
						pl.Ops[g][k].Kind = "String"
						kf.Hit("KF-C13-first-print-vs-subentity")
					}
				}
			}
		}
		hx.Eval(1)
		checkCaseWith(rt, test, am_.Text(), pl, mk)
		hx.NonTrivial(fmt.Sprintf("%v|%v|%s", pl, unnumber, am_.Text()))
		hx.Hist(fmt.Sprintf("constructed/start_printed/%v", pl.Printed))
		hx.Hist(fmt.Sprintf("constructed/stale_cached_types/%v", stale))
		hx.Hist(fmt.Sprintf("constructed/late_address_spaces/%v", lateAS))
		hx.Hist(fmt.Sprintf("constructed/never_printed_with_unnumbered_metadata/%v", !pl.Printed && len(unl) > 0))
	})
}

var kfFirstPrint bool
