package c13

import (
	"bytes"
	"encoding/json"
	"fmt"
	"os"
	"strings"
	"sync"
	"testing"

	"github.com/llir/llvm/ir"
	"pgregory.net/rapid"

	"verif/h/corpus"
	"verif/h/gen"
	"verif/h/hx"
	"verif/h/lx"
)

func TestMain(m *testing.M) { hx.Main(m, "C13", nil) }

// op is one printing call on the shared module.
type op struct {
	Kind string // String WriteTo Func Block Inst Ident Type
	F, B, I int
}

func (o op) String() string { return fmt.Sprintf("%s(%d,%d,%d)", o.Kind, o.F, o.B, o.I) }

// run performs op on m and returns its result.
func run(m *ir.Module, o op) (res string, p *lx.Panic) {
	p = lx.Guard(func() {
		switch o.Kind {
		case "String":
			res = m.String()
		case "WriteTo":
			var buf bytes.Buffer
			n, err := m.WriteTo(&buf)
			res = fmt.Sprintf("%d %v %s", n, err, buf.String())
		default:
			if len(m.Funcs) == 0 {
				res = "-"
				return
			}
			f := m.Funcs[o.F%len(m.Funcs)]
			if o.Kind == "Func" {
				res = f.LLString()
				return
			}
			if o.Kind == "Ident" {
				res = f.Ident() + " " + f.Type().String()
				for _, g := range m.Globals {
					res += " " + g.Ident()
				}
				return
			}
			if len(f.Blocks) == 0 {
				res = f.LLString()
				return
			}
			b := f.Blocks[o.B%len(f.Blocks)]
			switch o.Kind {
			case "Block":
				res = b.LLString()
			case "Inst":
				if len(b.Insts) == 0 {
					res = b.Term.LLString()
				} else {
					res = b.Insts[o.I%len(b.Insts)].LLString()
				}
			case "Type":
				res = b.Ident()
				for _, in := range b.Insts {
					if v, ok := in.(interface {
						Ident() string
						String() string
					}); ok {
						res += " " + v.String()
					}
				}
			}
		}
	})
	return
}

type plan struct {
	Printed bool   // start state: module already printed once
	Ops     [][]op // per goroutine
}

func genPlan(rt *rapid.T) plan {
	pl := plan{Printed: rapid.Bool().Draw(rt, "printedOnce")}
	G := rapid.IntRange(2, 8).Draw(rt, "goroutines")
	kinds := []string{"String", "String", "WriteTo", "Func", "Block", "Inst", "Ident", "Type"}
	for g := 0; g < G; g++ {
		n := rapid.IntRange(1, 5).Draw(rt, "nops")
		var ops []op
		for k := 0; k < n; k++ {
			ops = append(ops, op{Kind: rapid.SampledFrom(kinds).Draw(rt, "op"), F: rapid.IntRange(0, 7).Draw(rt, "f"), B: rapid.IntRange(0, 7).Draw(rt, "b"), I: rapid.IntRange(0, 15).Draw(rt, "i")})
		}
		pl.Ops = append(pl.Ops, ops)
	}
	return pl
}

// checkCase parses x into a shared module and a fresh reference copy, runs the plan concurrently and
// compares every result with what the call returns sequentially.
func checkCase(t hx.TB, test, x string, pl plan) {
	pj, _ := json.Marshal(pl)
	caseText := fmt.Sprintf("; PLAN %s\n%s", pj, x)
	hx.Trace(test, "ll", caseText)
	shared, err, p := lx.Parse(x)
	if err != nil || p != nil {
		hx.Discard("parser_does_not_accept(judged_by_C01)")
		return
	}
	// sequential expectations, from fresh copies: one never printed, one printed once
	expect := func(o op) map[string]bool {
		out := map[string]bool{}
		for _, printed := range []bool{false, true} {
			if pl.Printed && !printed {
				continue
			}
			fresh, _, _ := lx.Parse(x)
			if printed {
				if _, pp := lx.Print(fresh); pp != nil {
					return nil
				}
			}
			r, pp := run(fresh, o)
			if pp != nil {
				return nil
			}
			out[r] = true
			// module-level calls have one answer whatever the start state
			if o.Kind == "String" || o.Kind == "WriteTo" {
				break
			}
		}
		return out
	}
	want := map[string]map[string]bool{}
	for _, ops := range pl.Ops {
		for _, o := range ops {
			if _, ok := want[o.String()]; !ok {
				e := expect(o)
				if e == nil {
					hx.Discard("sequential_call_panics(judged_elsewhere)")
					return
				}
				want[o.String()] = e
			}
		}
	}
	if pl.Printed {
		if _, pp := lx.Print(shared); pp != nil {
			hx.Discard("print_panics(judged_by_C01)")
			return
		}
	}
	hx.RaceReport() // drop anything reported before this case
	type res struct {
		o   op
		out string
		p   *lx.Panic
	}
	results := make([][]res, len(pl.Ops))
	var wg sync.WaitGroup
	start := make(chan struct{})
	for g := range pl.Ops {
		wg.Add(1)
		go func(g int) {
			defer wg.Done()
			<-start
			for _, o := range pl.Ops[g] {
				out, p := run(shared, o)
				results[g] = append(results[g], res{o, out, p})
			}
		}(g)
	}
	close(start)
	wg.Wait()
	if rep := hx.RaceReport(); rep != "" {
		hx.Fail(t, test, "ll", caseText, "the race detector reports a data race while %d goroutines print the same module (start state: printed once = %v):\n%s", len(pl.Ops), pl.Printed, rep)
	}
	for g, rs := range results {
		for _, r := range rs {
			if r.p != nil {
				hx.Fail(t, test, "ll", caseText, "goroutine %d: %s panics under concurrency although the sequential call does not: %s", g, r.o, r.p)
			}
			if !want[r.o.String()][r.out] {
				var w string
				for k := range want[r.o.String()] {
					w = k
				}
				hx.Fail(t, test, "ll", caseText, "goroutine %d: %s returned text that differs from the sequential call:\n%s", g, r.o, firstDiff(w, r.out))
			}
		}
	}
}

func firstDiff(a, b string) string {
	la, lb := strings.Split(a, "\n"), strings.Split(b, "\n")
	for i := 0; i < len(la) && i < len(lb); i++ {
		if la[i] != lb[i] {
			return fmt.Sprintf("line %d:\n- %s\n+ %s", i+1, la[i], lb[i])
		}
	}
	return fmt.Sprintf("lengths differ: %d vs %d lines", len(la), len(lb))
}

func genText(rt *rapid.T) string {
	cfg := gen.DefaultCfg()
	cfg.UnnamedBias = 7
	cfg.Off = map[string]bool{"retattr-align": true, "freeze-metadata": true}
	m, _ := gen.Module(rt, cfg)
	return m.TextNoisy(gen.DrawNoise(rt))
}

func TestConcurrentPrinters(t *testing.T) {
	const test = "ConcurrentPrinters"
	hx.Rule(test, "parsed generated modules (biased to unnamed globals, locals and inline metadata) x start state {never printed, printed once} x 2..8 goroutines each running a drawn sequence of String, WriteTo, Func.LLString, Block.LLString, instruction LLString, Ident and Type calls on the shared module; built with -race: after every case the race detector's log is inspected so that a report is attributed to the case; every returned text must equal the text of the same call on a fresh sequential copy (for sub-entity calls: in either start state); distinct non-trivial case = (module, plan) with at least two String/WriteTo calls in different goroutines")
	hx.Note("the schedule is the Go scheduler's: the race detector flags every unsynchronised conflicting pair it observes regardless of timing, but code that only runs under a particular interleaving can be missed")
	hx.Check(t, test, hx.N(60, 2500), func(rt *rapid.T) {
		x := genText(rt)
		pl := genPlan(rt)
		hx.Eval(1)
		checkCase(rt, test, x, pl)
		n := 0
		for _, ops := range pl.Ops {
			for _, o := range ops {
				if o.Kind == "String" || o.Kind == "WriteTo" {
					n++
					break
				}
			}
		}
		if n >= 2 {
			hx.NonTrivial(fmt.Sprintf("%v|%s", pl, x))
		}
		hx.Hist(fmt.Sprintf("goroutines/%d", len(pl.Ops)))
		hx.Hist(fmt.Sprintf("start_printed/%v", pl.Printed))
		hx.SampleCase(test, fmt.Sprintf("printedOnce=%v plan=%v module=%d bytes", pl.Printed, pl.Ops, len(x)))
	})
}

func TestCatalogue(t *testing.T) {
	const test = "Catalogue"
	hx.Rule(test, "fixed cases: repository testdata and a module with unnamed globals, an unnamed function and unnamed locals, printed by 8 goroutines calling String() from both start states")
	texts := []string{"@0 = global i32 1\n@1 = global i32 2\ndefine i32 @2(i32) {\n  %2 = add i32 %0, 1\n  %3 = load i32, i32* @0\n  %4 = add i32 %2, %3\n  ret i32 %4\n}\n!named = !{!0}\n!0 = !{!{i32 1}}\n"}
	for _, f := range corpus.RepoTestdata() {
		texts = append(texts, f.Text)
	}
	for i, x := range texts {
		if !hx.Mine(i) {
			continue
		}
		for _, printed := range []bool{false, true} {
			pl := plan{Printed: printed}
			for g := 0; g < 8; g++ {
				pl.Ops = append(pl.Ops, []op{{Kind: "String"}, {Kind: "Func", F: g}, {Kind: "WriteTo"}})
			}
			hx.Eval(1)
			checkCase(t, test, x, pl)
			hx.NonTrivial(fmt.Sprintf("cat/%d/%v", i, printed))
		}
	}
}

func TestReplay(t *testing.T) {
	path := os.Getenv("VERIF_REPLAY")
	if path == "" {
		t.Skip()
	}
	buf, err := os.ReadFile(path)
	if err != nil {
		t.Fatal(err)
	}
	text := string(buf)
	if strings.HasPrefix(text, "; PLAN ") {
		nl := strings.IndexByte(text, '\n')
		var pl plan
		if json.Unmarshal([]byte(text[7:nl]), &pl) == nil {
			for rep := 0; rep < 30; rep++ {
				checkCase(t, "Replay", text[nl+1:], pl)
			}
		}
	}
	for _, printed := range []bool{false, true} {
		pl := plan{Printed: printed}
		for g := 0; g < 8; g++ {
			pl.Ops = append(pl.Ops, []op{{Kind: "String"}, {Kind: "Func", F: g}, {Kind: "Block", F: g, B: g}, {Kind: "WriteTo"}, {Kind: "Inst", F: g, B: 1, I: g}})
		}
		for rep := 0; rep < 20; rep++ {
			checkCase(t, "Replay", string(buf), pl)
		}
	}
}
