package c08

import (
	"fmt"
	"strings"
	"testing"

	"github.com/llir/llvm/ir"
	"github.com/llir/llvm/ir/constant"
	"github.com/llir/llvm/ir/types"
	"github.com/llir/llvm/ir/value"
	"pgregory.net/rapid"

	"verif/h/hx"
	"verif/h/llvmx"
	"verif/h/lx"
)

// TestParametersSharedByFunctions: one object in two places. A wrapper is built from the parameters of the
// function it wraps (`append([]*ir.Param{ctx}, orig.Params...)`), and declarations reuse one parameter object
// (`stream`) — the same unnamed *ir.Param is then a parameter of several functions, at different positions.
// Every function numbers its own parameters from 0 in its own header and body: llvm-as, which insists on the
// exact sequence, must accept the printed module, and every header must show the positions as numbers.
func TestParametersSharedByFunctions(t *testing.T) {
	const test = "ParametersSharedByFunctions"
	hx.Rule(test, "API-built modules: a function `orig` (declaration or definition) with 1..4 parameters, a drawn subset unnamed; 1..3 wrappers whose parameter lists are 0..2 fresh unnamed parameters followed by the parameter objects of `orig` (the same objects), each with a body that adds up its i32 parameters and calls `orig`; functions listed in a drawn order; printed with String() and, in a second pass, function by function with LLString(); oracle: llvm-as-14 accepts the text (it rejects any deviation from its own numbering), and in every header the k-th unnamed parameter-or-block-or-value number is the one LLVM's rule gives (own count); non-trivial = a shared unnamed parameter stands at different positions in two functions")
	hx.Check(t, test, hx.N(200, 8000), func(rt *rapid.T) {
		m := ir.NewModule()
		np := rapid.IntRange(1, 4).Draw(rt, "params")
		var ps []*ir.Param
		for i := 0; i < np; i++ {
			name := ""
			if rapid.IntRange(0, 2).Draw(rt, "named") == 0 {
				name = fmt.Sprintf("p%d", i)
			}
			ps = append(ps, ir.NewParam(name, types.I32))
		}
		sum := func(f *ir.Func, callee *ir.Func, args []value.Value) {
			b := f.NewBlock("")
			var acc value.Value = constant.NewInt(types.I32, 0)
			for _, p := range f.Params {
				acc = b.NewAdd(acc, p)
			}
			if callee != nil {
				acc = b.NewAdd(acc, b.NewCall(callee, args...))
			}
			b.NewRet(acc)
		}
		orig := ir.NewFunc("orig", types.I32, ps...)
		if rapid.Bool().Draw(rt, "origDefined") {
			sum(orig, nil, nil)
		}
		funcs := []*ir.Func{orig}
		shifted := false
		for wi := rapid.IntRange(1, 3).Draw(rt, "wrappers"); wi > 0; wi-- {
			extra := rapid.IntRange(0, 2).Draw(rt, "extra")
			var wp []*ir.Param
			for i := 0; i < extra; i++ {
				wp = append(wp, ir.NewParam("", types.I32))
			}
			wp = append(wp, orig.Params...)
			w := ir.NewFunc(fmt.Sprintf("wrap%d", wi), types.I32, wp...)
			var args []value.Value
			for _, p := range orig.Params {
				args = append(args, p)
			}
			sum(w, orig, args)
			funcs = append(funcs, w)
			if extra > 0 {
				for _, p := range orig.Params {
					if p.IsUnnamed() {
						shifted = true
					}
				}
			}
		}
		for _, i := range rapid.Permutation([]int{0, 1, 2, 3}[:len(funcs)]).Draw(rt, "order") {
			m.Funcs = append(m.Funcs, funcs[i])
		}
		hx.Eval(1)
		judge := func(how, out string) {
			desc := fmt.Sprintf("; %s\n%s", how, out)
			if r := llvmx.Accept(out); !r.OK && !r.Crashed {
				hx.Fail(rt, test, "ll", desc, "parameter objects shared by several functions (%s): the printed module is not numbered the way LLVM expects: %s\n%s", how, firstLine(r.Err), out)
			}
			// own count: in every header the unnamed parameters are numbered by their position among the unnamed ones
			for _, f := range m.Funcs {
				var want []string
				n := 0
				for _, p := range f.Params {
					if p.IsUnnamed() {
						want = append(want, fmt.Sprintf("i32 %%%d", n))
						n++
					} else {
						want = append(want, "i32 %"+p.LocalName)
					}
				}
				hdr := "@" + f.Name() + "(" + strings.Join(want, ", ") + ")"
				if !strings.Contains(out, hdr) {
					hx.Fail(rt, test, "ll", desc, "parameter objects shared by several functions (%s): the header of @%s should read %s\n%s", how, f.Name(), hdr, out)
				}
			}
		}
		out, p := lx.Print(m)
		if p != nil {
			hx.Fail(rt, test, "ll", "", "printing panics: %s", p)
		}
		judge("Module.String()", out)
		var parts []string
		for _, f := range m.Funcs {
			var s string
			if pp := lx.Guard(func() { s = f.LLString() }); pp != nil {
				hx.Fail(rt, test, "ll", out, "Func.LLString panics: %s", pp)
			}
			parts = append(parts, s)
		}
		judge("every function printed with Func.LLString()", strings.Join(parts, "\n\n")+"\n")
		out2, _ := lx.Print(m)
		judge("Module.String() again", out2)
		if shifted {
			hx.NonTrivial(out)
			hx.Hist("shared_unnamed_parameter_at_different_positions")
		}
	})
}
