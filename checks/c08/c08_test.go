package c08

import (
	"fmt"
	"os"
	"strings"
	"testing"

	"github.com/llir/llvm/ir"
	"github.com/llir/llvm/ir/types"
	"pgregory.net/rapid"

	"verif/h/am"
	"verif/h/gen"
	"verif/h/hx"
	"verif/h/llvmx"
	"verif/h/lx"
	"verif/h/orc"
)

func TestMain(m *testing.M) { hx.Main(m, "C08", nil) }

type idNamed interface {
	ID() int64
	Name() string
	IsUnnamed() bool
}

// compareNumbering checks that the parsed function numbers its unnamed values exactly as the
// reference numbering of the generated function does (same positions, same numbers).
func compareNumbering(af *am.Fun, f *ir.Func) string {
	nums := am.NumberLocals(af)
	if len(af.Params) != len(f.Params) || len(af.Blocks) != len(f.Blocks) {
		return fmt.Sprintf("shape differs: %d/%d params, %d/%d blocks", len(af.Params), len(f.Params), len(af.Blocks), len(f.Blocks))
	}
	check := func(what string, model any, name string, got idNamed) string {
		if name == "" {
			if !got.IsUnnamed() {
				return fmt.Sprintf("%s is unnamed in the input but named %q after parsing", what, got.Name())
			}
			if int64(nums[model]) != got.ID() {
				return fmt.Sprintf("%s: LLVM numbers it %%%d, the parser gave it %%%d", what, nums[model], got.ID())
			}
		} else if got.IsUnnamed() {
			return fmt.Sprintf("%s is named %q in the input but unnamed (%%%d) after parsing", what, name, got.ID())
		}
		return ""
	}
	for i, p := range af.Params {
		if s := check(fmt.Sprintf("parameter %d", i), p, p.Name, f.Params[i]); s != "" {
			return s
		}
	}
	for bi, b := range af.Blocks {
		pb := f.Blocks[bi]
		if s := check(fmt.Sprintf("block %d", bi), b, b.Name, pb); s != "" {
			return s
		}
		if len(b.Insts) != len(pb.Insts) {
			return fmt.Sprintf("block %d: %d instructions in the input, %d after parsing", bi, len(b.Insts), len(pb.Insts))
		}
		all := append(append([]*am.Inst{}, b.Insts...), b.Term)
		for ii, in := range all {
			var v any
			if ii < len(pb.Insts) {
				v = pb.Insts[ii]
			} else {
				v = pb.Term
			}
			n, isVal := v.(idNamed)
			if !in.HasValue() {
				// void calls/invokes and non-value instructions must not consume a number: covered by the IDs of their successors
				continue
			}
			if !isVal {
				return fmt.Sprintf("block %d inst %d (%s) produces a value in the input but is a %T after parsing", bi, ii, in.Op, v)
			}
			if tv, ok := v.(interface{ Type() types.Type }); ok && types.Equal(tv.Type(), types.Void) {
				return fmt.Sprintf("block %d inst %d (%s) produces a value in the input but has type void after parsing", bi, ii, in.Op)
			}
			if s := check(fmt.Sprintf("block %d inst %d (%s)", bi, ii, in.Op), in, in.Name, n); s != "" {
				return s
			}
		}
	}
	return ""
}

func funcByPos(am_ *am.Module, m *ir.Module) [][2]any {
	// functions keep their textual order in both models
	var order []*am.Fun
	for _, t := range am_.Order {
		if t.K == am.TopFunc {
			order = append(order, am_.Funcs[t.Idx])
		}
	}
	var out [][2]any
	if len(order) != len(m.Funcs) {
		return nil
	}
	for i := range order {
		out = append(out, [2]any{order[i], m.Funcs[i]})
	}
	return out
}

func checkCase(t hx.TB, test string, m *am.Module, noise am.Noise) bool {
	x := m.TextNoisy(noise)
	hx.Trace(test, "ll", x)
	// (1) meaning is preserved under LLVM's reading: bindings of %N/@N and printed numbering
	o := orc.ParsePrintPreserves(x, orc.Opts{OwnGenerator: true})
	switch o.V {
	case orc.Discard:
		hx.Discard(o.Class)
		return false
	case orc.Violation:
		hx.Fail(t, test, "ll", x, "%s", o.Describe())
	}
	// (2) the parser's numbering equals the reference numbering, value by value
	pairs := funcByPos(m, o.M)
	if pairs == nil {
		hx.Fail(t, test, "ll", x, "the parsed module has %d functions", len(o.M.Funcs))
	}
	for _, pr := range pairs {
		af, f := pr[0].(*am.Fun), pr[1].(*ir.Func)
		if s := compareNumbering(af, f); s != "" {
			hx.Fail(t, test, "ll", x, "function %s: %s", f.Ident(), s)
		}
	}
	// (3) numbering again changes nothing and never fails
	y1 := o.Out
	for _, f := range o.M.Funcs {
		var err error
		if p := lx.Guard(func() { err = f.AssignIDs() }); p != nil || err != nil {
			hx.Fail(t, test, "ll", x, "AssignIDs on the already numbered function %s fails: %v %s", f.Ident(), err, p)
		}
	}
	var err error
	if p := lx.Guard(func() { err = o.M.AssignGlobalIDs() }); p != nil || err != nil {
		hx.Fail(t, test, "ll", x, "AssignGlobalIDs on the already numbered module fails: %v %s", err, p)
	}
	y2, p := lx.Print(o.M)
	if p != nil {
		hx.Fail(t, test, "ll", x, "printing a second time panics: %s", p)
	}
	if y1 != y2 {
		hx.Fail(t, test, "ll", x, "numbering/printing again changes the output:\n%s", llvmx.Diff(y1, y2))
	}
	return true
}

func cfg() gen.Cfg {
	c := gen.DefaultCfg()
	c.UnnamedBias = 8
	c.MaxInsts = 10
	c.Off = map[string]bool{"retattr-align": true, "freeze-metadata": true}
	return c
}

func shape(m *am.Module) (unnamedVals, nonNumbered, unnamedGlobalKinds int) {
	kinds := map[string]bool{}
	for _, g := range m.Globals {
		if g.Name == "" {
			kinds["g"] = true
		}
	}
	for _, a := range m.Aliases {
		if a.Name == "" {
			kinds["a"] = true
		}
	}
	for _, f := range m.Funcs {
		if f.Name == "" {
			kinds["f"] = true
		}
		for _, b := range f.Blocks {
			for _, in := range append(append([]*am.Inst{}, b.Insts...), b.Term) {
				if in.HasValue() && in.Name == "" {
					unnamedVals++
				}
				if !in.HasValue() {
					nonNumbered++
				}
			}
		}
	}
	return unnamedVals, nonNumbered, len(kinds)
}

func TestNumbering(t *testing.T) {
	const test = "Numbering"
	hx.Rule(test, "generated modules biased to unnamed parameters, blocks, instruction results and globals (80% of locals unnamed), with void and non-void calls, invokes, callbrs, stores and fences interleaved, unnamed global variables, aliases and functions interleaved in shuffled textual order, spelled with implicit numbering or explicit numbering ('%3 =', '3:'), callee types written as return type or as full function type: (1) LLVM reads the same module from the library's output (so every %N/@N use is bound to the right value and the printed numbering is what LLVM expects), (2) the IDs the parser assigns equal the reference numbering value by value, (3) AssignIDs/AssignGlobalIDs/String() a second time change nothing and do not fail; non-trivial = >= 2 unnamed values and >= 1 instruction that consumes no number, or unnamed globals of >= 2 kinds")
	hx.Check(t, test, hx.N(150, 4000), func(rt *rapid.T) {
		m, _ := gen.Module(rt, cfg())
		noise := am.Noise{Explicit: rapid.Bool().Draw(rt, "explicit"), FullCallType: rapid.Bool().Draw(rt, "fullCalleeType"), LeadingZeros: rapid.IntRange(0, 2).Draw(rt, "leadingZeros") == 0,
			// callee types spelled through named function types: whether a call defines a value (and takes a
			// number) is decided by the type the name denotes
			FnAlias: rapid.IntRange(0, 2).Draw(rt, "fnAlias") == 0,
			// unnamed definitions spelled with the empty quoted name (`@"" = ...`, `%"" = ...`)
			EmptyQuoted: rapid.IntRange(0, 2).Draw(rt, "emptyQuoted") == 0, OctalLookalikes: rapid.Bool().Draw(rt, "octalLookalikes")}
		hx.Eval(1)
		if checkCase(rt, test, m, noise) {
			u, nn, gk := shape(m)
			if u >= 2 && nn >= 1 || gk >= 2 {
				hx.NonTrivial(m.Text())
			}
			hx.Hist(fmt.Sprintf("explicit/%v", noise.Explicit))
			hx.HistN("unnamed_values", u)
			hx.HistN("instructions_without_number", nn)
			hx.Hist(fmt.Sprintf("unnamed_global_kinds/%d", gk))
		}
		hx.SampleCase(test, m.Text())
	})
}

func TestCatalogue(t *testing.T) {
	const test = "Catalogue"
	hx.Rule(test, "fixed texts: unnamed function before unnamed global, void call/invoke between unnamed values, explicit numbering of every kind, numbered entry block")
	cat := []string{
		"define void @0() {\n  ret void\n}\n@1 = global i32 0\n@2 = alias i32, i32* @1\ndefine i32* @3() {\n  call void @0()\n  ret i32* @2\n}\n",
		"declare void @v()\ndeclare i32 @i()\ndefine i32 @f(i32, i32 %x, i32) {\n  call void @v()\n  %4 = call i32 @i()\n  store i32 %4, i32* null\n  fence seq_cst\n  %5 = add i32 %0, %2\n  br label %6\n6:\n  %7 = add i32 %5, %4\n  ret i32 %7\n}\n",
		"declare void @v()\ndeclare i32 @p(...)\ndefine void @f() personality i32 (...)* @p {\n0:\n  invoke void @v() to label %1 unwind label %2\n1:\n  ret void\n2:\n  %3 = landingpad { i8*, i32 } cleanup\n  resume { i8*, i32 } %3\n}\n",
	}
	for i, x := range cat {
		if !hx.Mine(i) {
			continue
		}
		hx.Eval(1)
		o := orc.ParsePrintPreserves(x, orc.Opts{OwnGenerator: true})
		if o.V == orc.Violation {
			hx.Fail(t, test, "ll", x, "%s", o.Describe())
		}
		if o.V == orc.OK {
			y2, _ := lx.Print(o.M)
			if y2 != o.Out {
				hx.Fail(t, test, "ll", x, "printing twice differs")
			}
			hx.NonTrivial(x)
		}
	}
}

func TestReplay(t *testing.T) {
	path := os.Getenv("VERIF_REPLAY")
	if path == "" {
		t.Skip()
	}
	buf, err := os.ReadFile(path)
	if err != nil {
		t.Fatal(err)
	}
	x := string(buf)
	if replayRenamed(t, x) {
		return
	}
	o := orc.ParsePrintPreserves(x, orc.Opts{OwnGenerator: true})
	if o.V == orc.Violation {
		hx.Fail(t, "Replay", "ll", x, "%s", o.Describe())
	}
	if o.V == orc.OK {
		y2, p := lx.Print(o.M)
		if p != nil || y2 != o.Out {
			hx.Fail(t, "Replay", "ll", x, "printing twice differs or panics: %v", p)
		}
	}
	_ = strings.Contains
}
