package c08

import (
	"verif/h/chaos"
	"verif/h/hx"
)

// every rapid case of this check is also judged after operations of the library have failed (see h/chaos)
func init() {
	hx.Prelude = chaos.Failures
	hx.ReplayPrelude = chaos.All
}
