package c08

import (
	"strings"
	"testing"

	"pgregory.net/rapid"

	"verif/h/gen"
	"verif/h/hx"
	"verif/h/llvmx"
	"verif/h/orc"
)

// checkRenamed: after locals were renamed through the API (which changes which values take a number),
// the printer must number the unnamed values the way LLVM expects: llvm-as, which insists on the exact
// sequence, must accept the text, and the program must be the same up to local names.
func checkRenamed(t hx.TB, test, x string, seed uint64) (map[string]int, bool) {
	c := orc.EditedCase(seed, x)
	y0, y, stats, o := orc.PrintAfterRenames(x, seed)
	switch o.V {
	case orc.Discard:
		hx.Discard("renamed/" + o.Class)
		return nil, false
	case orc.Violation:
		hx.Fail(t, test, "ll", c, "%s", o.Describe())
	}
	if r := llvmx.Accept(y0); !r.OK {
		hx.Discard("renamed/llvm_rejects_first_print")
		return stats, false
	}
	if r := llvmx.Accept(y); !r.OK && !r.Crashed {
		hx.Fail(t, test, "ll", c, "after locals were renamed through the API the printed module is not numbered the way LLVM expects: %s\n--- printed ---\n%s", firstLine(r.Err), y)
	}
	if o2 := orc.SameUpToLocalNames(y0, y); o2.V == orc.Violation {
		hx.Fail(t, test, "ll", c, "%s", o2.Describe())
	}
	return stats, true
}

func firstLine(s string) string {
	if i := strings.IndexByte(s, '\n'); i >= 0 {
		return s[:i]
	}
	return s
}

// TestRenumberedAfterRenames: numbering is recomputed from the current names, whatever was numbered before.
func TestRenumberedAfterRenames(t *testing.T) {
	const test = "RenumberedAfterRenames"
	hx.Rule(test, "generated modules biased to unnamed values, parsed (the parser numbers them), printed once, then a seeded random subset of parameters, blocks and instruction results renamed through SetName (named to unnamed, unnamed to named, named to another name; counts of parameters, blocks and instructions unchanged) and printed again: llvm-as-14 accepts the second print (it rejects any deviation from its own numbering) and reads the same program up to local names; non-trivial = at least one value went from named to unnamed or back")
	hx.Check(t, test, hx.N(200, 1500), func(rt *rapid.T) {
		m, _ := gen.Module(rt, cfg())
		x := m.Text()
		seed := rapid.Uint64().Draw(rt, "renameSeed")
		hx.Eval(1)
		stats, ok := checkRenamed(rt, test, x, seed)
		if !ok {
			return
		}
		for k, v := range stats {
			hx.HistN("rename/"+k, v)
		}
		if stats["named->unnamed"]+stats["unnamed->named"] > 0 {
			hx.NonTrivial(orc.EditedCase(seed, x))
		}
	})
}

func replayRenamed(t *testing.T, x string) bool {
	seed, ok := orc.RenameSeedOf(x)
	if !ok {
		return false
	}
	checkRenamed(t, "Replay", strings.SplitN(x, "\n", 2)[1], seed)
	return true
}
