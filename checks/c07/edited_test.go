package c07

import (
	"fmt"
	"strings"
	"testing"

	"github.com/llir/llvm/ir"
	"github.com/llir/llvm/ir/constant"
	"github.com/llir/llvm/ir/types"
	"github.com/llir/llvm/ir/value"
	"pgregory.net/rapid"

	"verif/h/hx"
	"verif/h/lx"
)

// fieldT is a field type of the model: how to make the library's type, how LLVM spells it, and what one more
// index (into an array, a literal struct, a vector) reaches.
type fieldT struct {
	mk    func() types.Type
	text  string
	inner string             // spelling of the type one more index reaches ("" = scalar, no further index)
	next  func() value.Value // that index
}

var fieldTs = []fieldT{
	// the scalar fields are the predeclared type objects of package types, which is what a program writes
	{func() types.Type { return types.I8 }, "i8", "", nil},
	{func() types.Type { return types.I16 }, "i16", "", nil},
	{func() types.Type { return types.I32 }, "i32", "", nil},
	{func() types.Type { return types.I64 }, "i64", "", nil},
	{func() types.Type { return types.Float }, "float", "", nil},
	{func() types.Type { return types.Double }, "double", "", nil},
	{func() types.Type { return types.NewInt(24) }, "i24", "", nil},
	{func() types.Type { return types.NewPointer(types.NewInt(1)) }, "i1*", "", nil},
	{func() types.Type { return types.NewArray(3, types.I16) }, "[3 x i16]", "i16", func() value.Value { return constant.NewInt(types.I64, 2) }},
	{func() types.Type { return types.NewArray(2, types.NewArray(2, types.NewInt(8))) }, "[2 x [2 x i8]]", "[2 x i8]", func() value.Value { return constant.NewInt(types.I32, 1) }},
	{func() types.Type { return types.NewStruct(types.I8, types.I32) }, "{ i8, i32 }", "i32", func() value.Value { return constant.NewInt(types.I32, 1) }},
	{func() types.Type { return types.NewStruct(&types.FloatType{Kind: types.FloatKindHalf}, types.NewInt(64)) }, "{ half, i64 }", "half", func() value.Value { return constant.NewInt(types.I32, 0) }},
	{func() types.Type { return types.NewVector(2, types.I32) }, "<2 x i32>", "i32", func() value.Value { return constant.NewInt(types.I64, 1) }},
}

// TestAfterBodyEdit: the result type of a getelementptr follows the body the struct type has *now*. An
// identified struct type gets a body, getelementptrs into it are typed, the body is replaced in place (the
// same type object: `S.Fields = ...`, which is how opaque types get their body and how a body is corrected),
// and getelementptrs with the same base and the same indices are typed again: through ir.NewGetElementPtr,
// through constant.NewGetElementPtr, through the printed module read by the parser, and by the first
// instruction after its cache was emptied. Every answer must be the element the index path reaches in the
// current body, with the address space and the vector shape of the base.
func TestAfterBodyEdit(t *testing.T) {
	const test = "AfterBodyEdit"
	hx.Rule(test, "stateful: an identified struct type with 2..5 fields drawn from 12 distinguishable field types (integers, floats, a pointer, arrays, nested arrays, literal structs, a vector); base: a global variable of that type in address space 0..2 (constant expression and instruction), or a parameter of type <k x S*>; indices: 0, a field index, optionally one more index into the field; 2..4 rounds, each replacing the body in place (a permutation, another draw, or fields appended) and then typing new getelementptrs with the same operands through ir.NewGetElementPtr, constant.NewGetElementPtr, the parser (the module is printed and read back) and the old instruction with its cache emptied; expected = the reference walk over the model's current field list; non-trivial = the indexed field changed its type in some round")
	hx.Check(t, test, hx.N(300, 12000), func(rt *rapid.T) {
		draw := func(n int) []int {
			var fs []int
			for i := 0; i < n; i++ {
				fs = append(fs, rapid.IntRange(0, len(fieldTs)-1).Draw(rt, "field"))
			}
			return fs
		}
		apply := func(S *types.StructType, fs []int) {
			var ts []types.Type
			for _, k := range fs {
				ts = append(ts, fieldTs[k].mk())
			}
			S.Fields = ts
		}
		fields := draw(rapid.IntRange(2, 5).Draw(rt, "nfields"))
		as := rapid.IntRange(0, 2).Draw(rt, "addrspace")
		vec := rapid.IntRange(0, 3).Draw(rt, "vectorBase") == 0
		vlen := uint64(rapid.IntRange(1, 4).Draw(rt, "vlen"))
		fi := rapid.IntRange(0, len(fields)-1).Draw(rt, "fieldIndex")
		deeper := rapid.Bool().Draw(rt, "deeper")

		m := ir.NewModule()
		S := types.NewStruct()
		m.NewTypeDef("S", S)
		apply(S, fields)
		g := m.NewGlobalDef("g", constant.NewZeroInitializer(S))
		g.AddrSpace = types.AddrSpace(as)
		g.Typ = nil
		pt := types.NewPointer(S)
		pt.AddrSpace = types.AddrSpace(as)
		f := m.NewFunc("f", types.Void, ir.NewParam("vp", types.NewVector(vlen, pt)))
		blk := f.NewBlock("")
		blk.NewRet(nil)

		expectedIn := func(as int, vec bool) (string, bool) {
			ft := fieldTs[fields[fi]]
			el, more := ft.text, false
			if deeper && ft.inner != "" {
				el, more = ft.inner, true
			}
			p := el
			if as != 0 {
				p += fmt.Sprintf(" addrspace(%d)", as)
			}
			p += "*"
			if vec {
				p = fmt.Sprintf("<%d x %s>", vlen, p)
			}
			return p, more
		}
		expected := func() (string, bool) { return expectedIn(as, vec) }
		log := fmt.Sprintf("%%S = type %s; base in addrspace %d, vector base: %v (<%d x %%S*>); indices 0, %d, deeper: %v\n", S.LLString(), as, vec, vlen, fi, deeper)
		var old []*ir.InstGetElementPtr
		changed := false
		// a second global variable of the same type lives in another address space; getelementptrs into it are
		// typed in every round as well
		g2 := m.NewGlobalDef("g2", constant.NewZeroInitializer(S))
		g2.AddrSpace = types.AddrSpace((as + 1) % 3)
		g2.Typ = nil
		// every type the library has reported is remembered with its spelling: it is a value, and must spell the
		// same whatever is typed later (the element types here are never edited; only the field list of S is)
		type told struct {
			t types.Type
			s string
		}
		var reported []told
		remember := func(t types.Type) string {
			s := t.String()
			reported = append(reported, told{t, s})
			return s
		}
		round := func(r int) {
			want, more := expected()
			idx := func() []value.Value {
				is := []value.Value{constant.NewInt(types.I64, 0), constant.NewInt(types.I32, int64(fi))}
				if more {
					is = append(is, fieldTs[fields[fi]].next())
				}
				return is
			}
			cidx := func() []constant.Constant {
				var cs []constant.Constant
				for _, v := range idx() {
					cs = append(cs, v.(constant.Constant))
				}
				return cs
			}
			where := fmt.Sprintf("%sround %d: body %s\n", log, r, S.LLString())
			judge := func(how, got string) {
				if got != want {
					hx.Fail(rt, test, "txt", where, "%s%s types getelementptr %%S, <base>, i64 0, i32 %d%s as %s; the index path reaches %s in the body the type has now", where, how, fi, map[bool]string{true: ", <one more index>", false: ""}[more], got, want)
				}
			}
			var base value.Value = g
			if vec {
				base = f.Params[0]
			}
			var inst *ir.InstGetElementPtr
			if p := lx.Guard(func() {
				inst = ir.NewGetElementPtr(S, base, idx()...)
				judge("ir.NewGetElementPtr", remember(inst.Type()))
				// the same path into the global of the other address space
				as2 := (as + 1) % 3
				w2, _ := expectedIn(as2, false)
				if !vec {
					if got := remember(ir.NewGetElementPtr(S, g2, idx()...).Type()); got != w2 {
						hx.Fail(rt, test, "txt", where, "%sir.NewGetElementPtr on the global in address space %d gives %s, want %s", where, as2, got, w2)
					}
					if got := remember(constant.NewGetElementPtr(S, g2, cidx()...).Type()); got != w2 {
						hx.Fail(rt, test, "txt", where, "%sconstant.NewGetElementPtr on the global in address space %d gives %s, want %s", where, as2, got, w2)
					}
				}
			}); p != nil {
				hx.Fail(rt, test, "txt", where, "%sir.NewGetElementPtr panics: %s", where, p)
			}
			for k, o := range old {
				if o.Src != base {
					continue
				}
				o.Indices = idx()
				o.Typ = nil
				var got string
				if p := lx.Guard(func() { got = o.Type().String() }); p != nil {
					hx.Fail(rt, test, "txt", where, "%sType() of the instruction of round %d (cache emptied) panics: %s", where, k, p)
				}
				judge(fmt.Sprintf("the instruction of an earlier round, cache emptied,"), got)
			}
			old = append(old, inst)
			if !vec {
				if p := lx.Guard(func() {
					judge("constant.NewGetElementPtr", constant.NewGetElementPtr(S, g, cidx()...).Type().String())
				}); p != nil {
					hx.Fail(rt, test, "txt", where, "%sconstant.NewGetElementPtr panics: %s", where, p)
				}
			}
			// the parser, on the printed module with one getelementptr of this round in the body
			blk.Insts = []ir.Instruction{inst}
			out, pp := lx.Print(m)
			if pp != nil {
				hx.Fail(rt, test, "txt", where, "%sprinting panics: %s", where, pp)
			}
			pm, err, p := lx.Parse(out)
			if err != nil || p != nil {
				hx.Fail(rt, test, "txt", where, "%sthe printed module is not read back: %v %v\n%s", where, err, p, out)
			}
			judge("the parser, reading the printed module,", pm.Funcs[0].Blocks[0].Insts[0].(*ir.InstGetElementPtr).Type().String())
			for _, r := range reported {
				if now := r.t.String(); now != r.s {
					hx.Fail(rt, test, "txt", where, "%sa type that the library reported as %s earlier in this case now reads %s: typing another getelementptr has changed it", where, r.s, now)
				}
			}
			hx.Hist("rounds")
		}
		hx.Eval(1)
		round(0)
		for r := 1; r <= rapid.IntRange(2, 4).Draw(rt, "rounds"); r++ {
			before := fieldTs[fields[fi]].text
			switch rapid.IntRange(0, 2).Draw(rt, "edit") {
			case 0:
				fields = rapid.Permutation(fields).Draw(rt, "perm")
			case 1:
				fields = draw(len(fields))
			default:
				fields = append(draw(1), fields...)
			}
			apply(S, fields)
			if fieldTs[fields[fi]].text != before {
				changed = true
			}
			round(r)
		}
		if changed {
			hx.NonTrivial(log + strings.Repeat("x", len(fields)) + S.LLString())
			hx.Hist("indexed_field_changed_type")
		}
		hx.SampleCase(test, log)
	})
}
