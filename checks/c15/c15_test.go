package c15

import (
	"fmt"
	"os"
	"reflect"
	"regexp"
	"strings"
	"testing"

	"github.com/llir/llvm/ir"
	"github.com/llir/llvm/ir/types"
	"github.com/llir/llvm/ir/value"
	"pgregory.net/rapid"

	"verif/h/am"
	"verif/h/corpus"
	"verif/h/emit"
	"verif/h/gen"
	"verif/h/hx"
	"verif/h/kf"
	"verif/h/lx"
	"verif/h/mut"
)

// kfArgWrapper: known finding KF-C15-arg-wrapper is listed and still reproduces. The check then keeps
// treating an attribute-carrying argument (*ir.Arg) as the slot's value and counts every such slot.
var kfArgWrapper bool

func TestMain(m *testing.M) {
	hx.Main(m, "C15", func() {
		kfArgWrapper = kf.Activate("KF-C15-arg-wrapper", func(in string) bool {
			pm, err, p := lx.Parse(in)
			if err != nil || p != nil || len(pm.Funcs) < 2 {
				return false
			}
			f := pm.Funcs[len(pm.Funcs)-1]
			if len(f.Params) < 2 {
				return false
			}
			a, b := value.Value(f.Params[0]), value.Value(f.Params[1])
			// substitute %a by %b through the operand slots of all users, comparing slot contents with the value
			for _, blk := range f.Blocks {
				for _, in := range blk.Insts {
					if u, ok := in.(user); ok {
						for _, slot := range u.Operands() {
							if *slot == a {
								*slot = b
							}
						}
					}
				}
			}
			out, pp := lx.Print(pm)
			return pp == nil && strings.Contains(out, "signext %a")
		})
	})
}

var valueT = reflect.TypeOf((*value.Value)(nil)).Elem()

// isValueIface reports whether t is an interface type whose values are IR values (value.Value itself,
// constant.Constant, value.Named, ir.ExceptionPad ...): every such field of a user is an operand.
func isValueIface(t reflect.Type) bool {
	return t.Kind() == reflect.Interface && t.Implements(valueT)
}

// valueFields returns the addresses of all non-nil value-typed fields of user u, looking into helper
// records (Incoming, Case, Clause, OperandBundle, Arg is a value itself) but not into other values.
func valueFields(u any) map[uintptr]string {
	out := map[uintptr]string{}
	var rec func(v reflect.Value, path string, depth int)
	rec = func(v reflect.Value, path string, depth int) {
		switch v.Kind() {
		case reflect.Struct:
			t := v.Type()
			for i := 0; i < t.NumField(); i++ {
				f := t.Field(i)
				if f.PkgPath != "" {
					continue
				}
				switch f.Name {
				case "Typ", "Successors", "Metadata", "LocalIdent", "Parent":
					continue
				}
				fv := v.Field(i)
				ft := f.Type
				switch {
				case isValueIface(ft):
					if !fv.IsNil() {
						out[fv.Addr().Pointer()] = path + "." + f.Name
					}
				case ft.Kind() == reflect.Slice && isValueIface(ft.Elem()):
					for k := 0; k < fv.Len(); k++ {
						if !fv.Index(k).IsNil() {
							out[fv.Index(k).Addr().Pointer()] = fmt.Sprintf("%s.%s[%d]", path, f.Name, k)
						}
					}
				case ft.Kind() == reflect.Slice && ft.Elem().Kind() == reflect.Ptr && ft.Elem().Elem().Kind() == reflect.Struct && depth < 2 && helperRecord(ft.Elem().Elem()):
					for k := 0; k < fv.Len(); k++ {
						if !fv.Index(k).IsNil() {
							rec(fv.Index(k).Elem(), fmt.Sprintf("%s.%s[%d]", path, f.Name, k), depth+1)
						}
					}
				case ft.Kind() == reflect.Ptr && ft.Elem().Kind() == reflect.Struct && ft.Implements(valueT):
					// a concretely typed value field (e.g. *ir.InstCatchPad, *ir.Block)
					if !fv.IsNil() {
						out[fv.Addr().Pointer()] = path + "." + f.Name + "(concrete)"
					}
				case ft.Kind() == reflect.Slice && ft.Elem().Kind() == reflect.Ptr && ft.Elem().Implements(valueT):
					for k := 0; k < fv.Len(); k++ {
						out[fv.Index(k).Addr().Pointer()] = fmt.Sprintf("%s.%s[%d](concrete)", path, f.Name, k)
					}
				}
			}
		}
	}
	rv := reflect.ValueOf(u)
	if rv.Kind() == reflect.Ptr {
		rec(rv.Elem(), "", 0)
	}
	return out
}

func helperRecord(t reflect.Type) bool {
	switch t.Name() {
	case "Incoming", "Case", "Clause", "OperandBundle":
		return true
	}
	return false
}

type user interface {
	Operands() []*value.Value
	LLString() string
}

// fresh returns a new value of the same type as old, usable in the same position.
func fresh(old value.Value, k int) value.Value {
	if _, ok := old.(*ir.Block); ok {
		return ir.NewBlock(fmt.Sprintf("verif.fresh.block.%d", k))
	}
	return ir.NewParam(fmt.Sprintf("verif.fresh.value.%d", k), old.Type())
}

func ident(v value.Value) string {
	if b, ok := v.(*ir.Block); ok {
		return b.Ident()
	}
	if a, ok := v.(*ir.Arg); ok {
		return a.Value.Ident()
	}
	return v.Ident()
}

// checkUser checks completeness and liveness of the operand view of one instruction or terminator.
func checkUser(t hx.TB, test, where, ctx string, u user) {
	var ops []*value.Value
	var p0 string
	if p := lx.Guard(func() { ops = u.Operands(); p0 = u.LLString() }); p != nil {
		hx.Fail(t, test, "ll", ctx, "%s: Operands()/LLString() panics: %s", where, p)
	}
	// completeness
	want := valueFields(u)
	got := map[uintptr]bool{}
	for _, o := range ops {
		got[reflect.ValueOf(o).Pointer()] = true
	}
	for addr, name := range want {
		if strings.HasSuffix(name, "(concrete)") {
			continue // concretely typed fields cannot be exposed as *value.Value slots
		}
		if !got[addr] {
			hx.Fail(t, test, "ll", ctx, "%s (%T): the value field %s is used by the instruction (`%s`) but Operands() exposes no slot for it", where, u, name, p0)
		}
	}
	for _, o := range ops {
		if _, ok := want[reflect.ValueOf(o).Pointer()]; !ok {
			hx.Fail(t, test, "ll", ctx, "%s (%T): Operands() returns a slot that is not the address of one of the instruction's value fields (a copy?)", where, u)
		}
	}
	hx.HistN("slots", len(ops))
	// liveness and exactness: write a fresh value through each slot
	for k, slot := range ops {
		old := *slot
		if old == nil {
			continue
		}
		var r value.Value
		if p := lx.Guard(func() { r = fresh(old, k) }); p != nil {
			continue
		}
		if a, ok := old.(*ir.Arg); ok {
			// keep the argument attributes, replace the wrapped value (see KF-C15-arg-wrapper: the slot
			// holds the wrapper, not the value)
			r = ir.NewArg(r, a.Attrs...)
			if kfArgWrapper {
				kf.Hit("KF-C15-arg-wrapper")
			}
		}
		*slot = r
		var p1 string
		pp := lx.Guard(func() { p1 = u.LLString() })
		*slot = old
		if pp != nil {
			hx.Fail(t, test, "ll", ctx, "%s (%T): after writing a fresh value of the same type through slot %d printing panics: %v\nbefore: %s", where, u, k, pp.Val, p0)
		}
		rid, oid := ident(r), ident(old)
		if strings.Count(p1, rid) != 1 {
			hx.Fail(t, test, "ll", ctx, "%s (%T): writing a fresh value through slot %d (%s): the printed instruction mentions it %d times (want exactly once)\nbefore: %s\nafter:  %s", where, u, k, oid, strings.Count(p1, rid), p0, p1)
		}
		if back := strings.Replace(p1, rid, oid, 1); back != p0 {
			hx.Fail(t, test, "ll", ctx, "%s (%T): writing through slot %d changed more than that operand\nbefore: %s\nafter:  %s", where, u, k, p0, p1)
		}
	}
	checkAfterRelisting(t, test, where, ctx, u)
	checkCopy(t, test, where, ctx, u)
}

// checkCopy: an instruction copied by value (`c := *inst`, how a client clones an instruction before it
// rewrites the clone's operands) has an operand view of its own: the slots of the copy are the copy's fields
// (lists are shared between a shallow copy and its original, as every Go slice is; the scalar operands are
// not), so a write through a slot of the copy shows in the copy's print.
func checkCopy(t hx.TB, test, where, ctx string, u user) {
	rv := reflect.ValueOf(u)
	if rv.Kind() != reflect.Ptr || rv.Elem().Kind() != reflect.Struct {
		return
	}
	if p := lx.Guard(func() { u.Operands() }); p != nil {
		return
	}
	cp := reflect.New(rv.Elem().Type())
	cp.Elem().Set(rv.Elem())
	cu, ok := cp.Interface().(user)
	if !ok {
		return
	}
	var ops []*value.Value
	if p := lx.Guard(func() { ops = cu.Operands() }); p != nil {
		hx.Fail(t, test, "ll", ctx, "%s (%T): Operands() of a copy of the instruction panics: %s", where, u, p)
	}
	want := valueFields(cu)
	for k, o := range ops {
		if _, ok := want[reflect.ValueOf(o).Pointer()]; !ok {
			hx.Fail(t, test, "ll", ctx, "%s (%T): slot %d of a copy of the instruction (`c := *inst` after inst.Operands() had been called) is not one of the copy's own fields: a write through it changes another instruction", where, u, k)
		}
	}
	hx.Hist("copied_users")
}

// relistOperands replaces, through the exported fields of u, every list the user holds by an equal list in
// other memory: helper records (*ir.Case, *ir.Incoming, *ir.Clause, *ir.OperandBundle) by copies, slices
// of values by copies of the slice. The instruction means what it meant before; it returns how many lists
// were replaced. A client that rebuilds the cases of a switch or the incoming list of a phi does this.
//
// mode 0 replaces every list and every record; mode 1 keeps the lists and their first record and replaces the
// other records in place (`phi.Incs[1] = ir.NewIncoming(v, pred)`); mode 2 makes new lists that keep the first
// record and replace the others.
func relistOperands(u any, mode int) int {
	n := 0
	var rec func(v reflect.Value, depth int)
	rec = func(v reflect.Value, depth int) {
		t := v.Type()
		for i := 0; i < t.NumField(); i++ {
			f := t.Field(i)
			if f.PkgPath != "" || f.Type.Kind() != reflect.Slice {
				continue
			}
			switch f.Name {
			case "Typ", "Successors", "Metadata", "LocalIdent", "Parent":
				continue
			}
			fv := v.Field(i)
			if fv.Len() == 0 || !fv.CanSet() {
				continue
			}
			et := f.Type.Elem()
			valueList := isValueIface(et) || et.Kind() == reflect.Ptr && et.Implements(valueT)
			recordList := et.Kind() == reflect.Ptr && et.Elem().Kind() == reflect.Struct && helperRecord(et.Elem())
			if !valueList && !(recordList && depth < 2) {
				continue
			}
			if mode != 0 && (!recordList || fv.Len() < 2) {
				continue
			}
			nl := reflect.MakeSlice(f.Type, fv.Len(), fv.Len())
			for k := 0; k < fv.Len(); k++ {
				e := fv.Index(k)
				if recordList && !e.IsNil() && (mode == 0 || k > 0) {
					c := reflect.New(et.Elem())
					c.Elem().Set(e.Elem())
					rec(c.Elem(), depth+1)
					e = c
				}
				nl.Index(k).Set(e)
			}
			if mode == 1 {
				reflect.Copy(fv, nl)
			} else {
				fv.Set(nl)
			}
			n++
		}
	}
	rv := reflect.ValueOf(u)
	if rv.Kind() == reflect.Ptr && rv.Elem().Kind() == reflect.Struct {
		rec(rv.Elem(), 0)
	}
	return n
}

// checkAfterRelisting: the operand view follows the fields. After the lists of u were replaced by equal
// lists in other memory (the view had been handed out before), Operands() must expose the slots of the
// lists the instruction holds *now*, and the instruction must print as before.
func checkAfterRelisting(t hx.TB, test, where, ctx string, u user) {
	var p0 string
	if p := lx.Guard(func() { u.Operands(); p0 = u.LLString() }); p != nil {
		return // judged by checkUser
	}
	for _, mode := range []int{1, 2, 0} {
		checkAfterRelistingMode(t, test, where, ctx, u, p0, mode)
	}
}

func checkAfterRelistingMode(t hx.TB, test, where, ctx string, u user, p0 string, mode int) {
	if relistOperands(u, mode) == 0 {
		return
	}
	hx.Hist([]string{"relisted_users", "relisted_users/records_after_the_first_replaced_in_place", "relisted_users/new_lists_that_keep_the_first_record"}[mode])
	var ops []*value.Value
	var p1 string
	if p := lx.Guard(func() { ops = u.Operands(); p1 = u.LLString() }); p != nil {
		hx.Fail(t, test, "ll", ctx, "%s (%T): after the operand lists were replaced by equal lists Operands()/LLString() panics: %s", where, u, p)
	}
	if p1 != p0 {
		hx.Fail(t, test, "ll", ctx, "%s (%T): replacing the operand lists by equal lists changed the printed instruction\nbefore: %s\nafter:  %s", where, u, p0, p1)
	}
	want := valueFields(u)
	got := map[uintptr]bool{}
	for _, o := range ops {
		got[reflect.ValueOf(o).Pointer()] = true
		if _, ok := want[reflect.ValueOf(o).Pointer()]; !ok {
			hx.Fail(t, test, "ll", ctx, "%s (%T): after the operand lists were replaced by equal lists (same lengths), Operands() still returns a slot of a list the instruction no longer holds: a write through it would change nothing in `%s`", where, u, p1)
		}
	}
	for addr, name := range want {
		if !strings.HasSuffix(name, "(concrete)") && !got[addr] {
			hx.Fail(t, test, "ll", ctx, "%s (%T): after the operand lists were replaced by equal lists, Operands() exposes no slot for the value field %s of `%s`", where, u, name, p1)
		}
	}
}

// slotsDisjoint: no operand slot belongs to two operands, neither of one instruction nor of two
// instructions of a function (a write through a shared slot changes more than one operand).
func slotsDisjoint(t hx.TB, test, ctx string, f *ir.Func) {
	owner := map[uintptr]string{}
	visit := func(where string, u user) {
		var ops []*value.Value
		if p := lx.Guard(func() { ops = u.Operands() }); p != nil {
			return
		}
		for k, o := range ops {
			addr := reflect.ValueOf(o).Pointer()
			me := fmt.Sprintf("%s slot %d", where, k)
			if prev, ok := owner[addr]; ok {
				hx.Fail(t, test, "ll", ctx, "%s of %s is the same memory as %s: writing through it changes two operands", me, f.Ident(), prev)
			}
			owner[addr] = me
		}
		hx.HistN("slots_checked_for_sharing", len(ops))
	}
	for bi, b := range f.Blocks {
		for ii, in := range b.Insts {
			if u, ok := in.(user); ok {
				visit(fmt.Sprintf("block %d inst %d (%T)", bi, ii, in), u)
			}
		}
		if u, ok := b.Term.(user); ok {
			visit(fmt.Sprintf("block %d terminator (%T)", bi, b.Term), u)
		}
	}
}

type succer interface{ Succs() []*ir.Block }

// checkSuccs checks the successor view of a terminator against the expected targets (by block identity).
func checkSuccs(t hx.TB, test, where, ctx string, term ir.Terminator, want []*ir.Block, f *ir.Func) {
	var got []*ir.Block
	if p := lx.Guard(func() { got = term.Succs() }); p != nil {
		hx.Fail(t, test, "ll", ctx, "%s (%T): Succs() panics: %s", where, term, p)
	}
	names := func(bs []*ir.Block) string {
		var s []string
		for _, b := range bs {
			s = append(s, b.Ident())
		}
		return strings.Join(s, ", ")
	}
	if len(got) != len(want) {
		hx.Fail(t, test, "ll", ctx, "%s (%T): Succs() = [%s], the branch targets in order are [%s]", where, term, names(got), names(want))
	}
	for i := range got {
		if got[i] != want[i] {
			hx.Fail(t, test, "ll", ctx, "%s (%T): Succs() = [%s], the branch targets in order are [%s]", where, term, names(got), names(want))
		}
		in := false
		for _, b := range f.Blocks {
			if b == got[i] {
				in = true
			}
		}
		if !in {
			hx.Fail(t, test, "ll", ctx, "%s (%T): successor %s is not a block of the function", where, term, got[i].Ident())
		}
	}
	// rewrite a block-typed slot and ask again: the view must follow
	u, ok := term.(user)
	if !ok || len(want) == 0 {
		return
	}
	same := func(x, y []*ir.Block) bool {
		if len(x) != len(y) {
			return false
		}
		for i := range x {
			if x[i] != y[i] {
				return false
			}
		}
		return true
	}
	nb := ir.NewBlock("verif.fresh.block")
	for _, slot := range u.Operands() {
		old, isBlock := (*slot).(*ir.Block)
		if !isBlock {
			continue
		}
		// Write a fresh block through the slot. Where it shows up in the printed terminator says what the slot
		// is: a branch target (for invoke and callbr: after `to label`), or a block passed as an argument or
		// operand-bundle input, which is an operand but not a successor.
		*slot = nb
		var after []*ir.Block
		var text string
		pp := lx.Guard(func() { after = term.Succs() })
		lx.Guard(func() { text = u.LLString() })
		*slot = old
		if pp != nil {
			hx.Fail(t, test, "ll", ctx, "%s (%T): Succs() panics after a block was written through an operand slot: %s", where, term, pp)
		}
		branchPart := text
		switch term.(type) {
		case *ir.TermInvoke, *ir.TermCallBr:
			if i := strings.LastIndex(text, "to label "); i >= 0 {
				branchPart = text[i:]
			}
		}
		isTarget := strings.Contains(branchPart, "%verif.fresh.block")
		if isTarget {
			diff, at := 0, -1
			if len(after) == len(want) {
				for i := range after {
					if after[i] != want[i] {
						diff++
						at = i
					}
				}
			}
			if len(after) != len(want) || diff != 1 || after[at] != nb {
				hx.Fail(t, test, "ll", ctx, "%s (%T): a branch target was rewritten through its operand slot (%s -> %s) but Succs() reports [%s] (before: [%s])", where, term, old.Ident(), nb.Ident(), names(after), names(want))
			}
		} else if !same(after, want) {
			hx.Fail(t, test, "ll", ctx, "%s (%T): a block that is an argument or bundle input, not a branch target, was rewritten through its operand slot (%s -> %s) and Succs() changed from [%s] to [%s]", where, term, old.Ident(), nb.Ident(), names(want), names(after))
		}
		// restored: the view must be back
		var back []*ir.Block
		lx.Guard(func() { back = term.Succs() })
		if !same(back, want) {
			hx.Fail(t, test, "ll", ctx, "%s (%T): after restoring the target Succs() reports [%s], want [%s]", where, term, names(back), names(want))
		}
	}
}

// expectedTargets maps the abstract terminator's targets to the parsed function's blocks (by position).
func expectedTargets(ai *am.Inst, af *am.Fun, f *ir.Func) []*ir.Block {
	idx := map[*am.Block]int{}
	for i, b := range af.Blocks {
		idx[b] = i
	}
	var out []*ir.Block
	for _, hb := range ai.Handlers { // catchswitch: handlers first, then the unwind target
		out = append(out, f.Blocks[idx[hb]])
	}
	for _, tb := range ai.Targets {
		out = append(out, f.Blocks[idx[tb]])
	}
	return out
}

func funcsInOrder(m *am.Module) []*am.Fun {
	var out []*am.Fun
	if m.Order == nil {
		return m.Funcs
	}
	for _, t := range m.Order {
		if t.K == am.TopFunc {
			out = append(out, m.Funcs[t.Idx])
		}
	}
	return out
}

func checkModule(t hx.TB, test string, m *am.Module, im *ir.Module, how string) {
	ctx := "; " + how + "\n" + m.Text()
	afs := funcsInOrder(m)
	if len(afs) != len(im.Funcs) {
		return
	}
	for fi, af := range afs {
		f := im.Funcs[fi]
		if len(af.Blocks) != len(f.Blocks) {
			continue
		}
		slotsDisjoint(t, test, ctx, f)
		for bi, ab := range af.Blocks {
			b := f.Blocks[bi]
			for ii, in := range b.Insts {
				if u, ok := in.(user); ok {
					where := fmt.Sprintf("%s %s block %d inst %d", how, f.Ident(), bi, ii)
					checkUser(t, test, where, ctx, u)
					hx.Eval(1)
					hx.Hist("kind/" + strings.TrimPrefix(fmt.Sprintf("%T", in), "*ir."))
				}
			}
			if u, ok := b.Term.(user); ok {
				where := fmt.Sprintf("%s %s block %d terminator", how, f.Ident(), bi)
				checkUser(t, test, where, ctx, u)
				checkSuccs(t, test, where, ctx, b.Term, expectedTargets(ab.Term, af, f), f)
				hx.Eval(1)
				hx.Hist("kind/" + strings.TrimPrefix(fmt.Sprintf("%T", b.Term), "*ir."))
			}
		}
	}
}

var reLabelUse = regexp.MustCompile(`label (%"[^"]*"|%[-a-zA-Z$._0-9]+)`)

// checkParsed applies the operand and successor checks to every instruction and terminator of a module
// parsed from external text. The expected successors are read off the terminator's own printed form
// (`label %x` tokens, in order), which is independent of Succs().
func checkParsed(t hx.TB, test, src, x string, pm *ir.Module) {
	ctx := "; source: " + src + "\n" + x
	for _, f := range pm.Funcs {
		byIdent := map[string]*ir.Block{}
		for _, b := range f.Blocks {
			byIdent[b.Ident()] = b
		}
		slotsDisjoint(t, test, ctx, f)
		for bi, b := range f.Blocks {
			for ii, in := range b.Insts {
				if u, ok := in.(user); ok {
					checkUser(t, test, fmt.Sprintf("parsed %s block %d inst %d", f.Ident(), bi, ii), ctx, u)
					hx.Eval(1)
					hx.Hist("kind/" + strings.TrimPrefix(fmt.Sprintf("%T", in), "*ir."))
				}
			}
			u, ok := b.Term.(user)
			if !ok {
				continue
			}
			where := fmt.Sprintf("parsed %s block %d terminator", f.Ident(), bi)
			checkUser(t, test, where, ctx, u)
			var text string
			if p := lx.Guard(func() { text = u.LLString() }); p != nil {
				continue
			}
			var want []*ir.Block
			okAll := true
			for _, m := range reLabelUse.FindAllStringSubmatch(text, -1) {
				tb, ok := byIdent[m[1]]
				if !ok {
					okAll = false
				}
				want = append(want, tb)
			}
			if okAll {
				checkSuccs(t, test, where, ctx, b.Term, want, f)
			}
			hx.Eval(1)
			hx.Hist("kind/" + strings.TrimPrefix(fmt.Sprintf("%T", b.Term), "*ir."))
		}
	}
}

func TestExternalCorpus(t *testing.T) {
	const test = "ExternalCorpus"
	hx.Rule(test, "every instruction and terminator of real compiler output (clang-14 over corpus/src x flag sets; quick: every second case) and of rapid-mutated corpus texts that llvm-as and the parser accept: same completeness, liveness and exactness checks; successors must equal the `label` targets of the terminator's own printed form, in order")
	for i, c := range corpus.ClangCases() {
		if !hx.Mine(i) || !hx.Thorough() && i%2 != 0 {
			continue
		}
		x := c.Text()
		if x == "" || len(x) > 300<<10 {
			hx.Discard("clang_rejects_combination_or_too_large")
			continue
		}
		pm, err, p := lx.Parse(x)
		if err != nil || p != nil {
			hx.Discard("parser_does_not_accept(judged_by_C01)")
			continue
		}
		checkParsed(t, test, "clang-14 "+c.Name(), x, pm)
		hx.NonTrivial("clang/" + c.Name())
	}
	for i, f := range corpus.Catalogue() {
		// hand-written modules for rarely produced constructs (callbr with operand bundles, ...)
		if !hx.Mine(i) {
			continue
		}
		pm, err, p := lx.Parse(f.Text)
		if err != nil || p != nil {
			hx.Discard("parser_does_not_accept(judged_by_C01)")
			continue
		}
		checkParsed(t, test, f.Name, f.Text, pm)
		hx.NonTrivial(f.Name)
	}
	hx.Check(t, test, hx.N(30, 8000), func(rt *rapid.T) {
		x, desc, ok := mut.Valid(rt)
		if !ok {
			hx.Discard("mutated_text_not_valid_or_not_accepted")
			return
		}
		pm, err, p := lx.Parse(x)
		if err != nil || p != nil {
			return
		}
		checkParsed(rt, test, desc, x, pm)
		hx.NonTrivial(x)
	})
}

func TestOperandsAndSuccessors(t *testing.T) {
	const test = "OperandsAndSuccessors"
	hx.Rule(test, "every instruction and terminator of generated modules, both parsed from text and built through the constructors (optional operands present and absent, variadic lists of any length: call arguments, operand bundles, phi incoming values and predecessors, switch cases, landingpad clauses, gep indices, indirectbr/callbr targets). Completeness: the addresses returned by Operands() must be exactly the addresses of the non-nil value-typed fields found by reflection over the struct and its helper records. Liveness/exactness: a fresh value of the same type written through slot k must appear exactly once in LLString() and substituting it back must give the original text. Successors: Succs() equals the branch targets in order (from the abstract model), all blocks of the function, and follows a target rewritten through its slot. Distinct non-trivial case = module containing a call with bundle, phi, switch, invoke or gep")
	types.I1.Equal(types.I1)
	hx.Check(t, test, hx.N(60, 10000), func(rt *rapid.T) {
		cfg := gen.DefaultCfg()
		cfg.MaxInsts = 10
		cfg.Off = map[string]bool{"retattr-align": true, "freeze-metadata": true}
		m, feats := gen.Module(rt, cfg)
		m.Order = nil
		x := m.Text()
		pm, err, p := lx.Parse(x)
		if err == nil && p == nil {
			checkModule(rt, test, m, pm, "parsed")
		} else {
			hx.Discard("parser_does_not_accept(judged_by_C01)")
		}
		var im *ir.Module
		if pp := lx.Guard(func() { im, _ = emit.Module(m) }); pp == nil {
			checkModule(rt, test, m, im, "constructed")
		} else {
			hx.Discard("constructor_panics(judged_by_C03)")
		}
		// the same program with equal constants and equal literal types held as one object each: a constant that is
		// the operand of several instructions is still one slot per use, and a write through one of them changes
		// that use only
		if pp := lx.Guard(func() { im, _ = emit.ModuleShared(m) }); pp == nil {
			checkModule(rt, test, m, im, "constructed with constants and types shared between the places that use them")
			hx.Hist("constructed_with_shared_objects")
		}
		if feats["call/bundle"]+feats["inst/phi"]+feats["term/switch"]+feats["term/invoke"]+feats["inst/getelementptr"] > 0 {
			hx.NonTrivial(x)
		}
		hx.SampleCase(test, x)
	})
}

func TestReplay(t *testing.T) {
	path := os.Getenv("VERIF_REPLAY")
	if path == "" {
		t.Skip()
	}
	buf, err := os.ReadFile(path)
	if err != nil {
		t.Fatal(err)
	}
	pm, err2, p := lx.Parse(string(buf))
	if err2 != nil || p != nil {
		t.Logf("replay input not parsed: %v %v", err2, p)
		return
	}
	for _, f := range pm.Funcs {
		for bi, b := range f.Blocks {
			for ii, in := range b.Insts {
				if u, ok := in.(user); ok {
					checkUser(t, "Replay", fmt.Sprintf("%s block %d inst %d", f.Ident(), bi, ii), string(buf), u)
				}
			}
			if u, ok := b.Term.(user); ok {
				checkUser(t, "Replay", fmt.Sprintf("%s block %d terminator", f.Ident(), bi), string(buf), u)
			}
		}
	}
}

// TestFuncletCatalogue covers the five funclet EH kinds the generator does not produce.

// TestBlocksAsArguments: a basic block may be passed like any other value: as a call or invoke argument
// of type label and as an operand-bundle input (llvm-as-14 accepts this). Such a block is an operand of
// the user, with a live slot, but it is not a branch target: the successor list of the invoke stays
// [normal destination, unwind destination].
func TestBlocksAsArguments(t *testing.T) {
	const test = "BlocksAsArguments"
	hx.Rule(test, "hand-written module in which basic blocks are passed as label-typed arguments and operand-bundle inputs of an invoke and a call: completeness, liveness and exactness of the operand slots as everywhere, and the successor list of every terminator must be exactly its branch targets in order (the blocks passed as arguments are operands, not successors); the same module built through the constructors")
	if !hx.Mine(1) {
		return
	}
	x := `declare void @g(label)
declare i32 @__gxx_personality_v0(...)
define void @f(i1 %c) personality i32 (...)* @__gxx_personality_v0 {
entry:
  invoke void @g(label %other) [ "blk"(label %other2), "two"(label %ok, label %lp) ] to label %ok unwind label %lp
ok:
  call void @g(label %other2) [ "b"(label %ok, label %other) ]
  br i1 %c, label %other, label %other2
other:
  ret void
other2:
  ret void
lp:
  %e = landingpad { i8*, i32 } cleanup
  resume { i8*, i32 } %e
}
`
	pm, err, p := lx.Parse(x)
	if err != nil || p != nil {
		hx.Fail(t, test, "ll", x, "the module is not parsed (llvm-as-14 accepts it): %v %s", err, p)
	}
	want := map[string][]string{"@f/entry": {"ok", "lp"}, "@f/ok": {"other", "other2"}, "@f/other": {}, "@f/other2": {}, "@f/lp": {}}
	check := func(m *ir.Module, how string) {
		for _, f := range m.Funcs {
			byName := map[string]*ir.Block{}
			for _, b := range f.Blocks {
				byName[b.LocalName] = b
			}
			slotsDisjoint(t, test, x, f)
			for bi, b := range f.Blocks {
				for ii, in := range b.Insts {
					if u, ok := in.(user); ok {
						checkUser(t, test, fmt.Sprintf("%s %s %s inst %d", how, f.Ident(), b.Ident(), ii), x, u)
						hx.Eval(1)
						hx.NonTrivial(fmt.Sprintf("blockargs/%s/%s/%d/%d", how, f.Ident(), bi, ii))
					}
				}
				if u, ok := b.Term.(user); ok {
					where := fmt.Sprintf("%s %s %s terminator", how, f.Ident(), b.Ident())
					checkUser(t, test, where, x, u)
					var exp []*ir.Block
					for _, n := range want[f.Ident()+"/"+b.LocalName] {
						exp = append(exp, byName[n])
					}
					checkSuccs(t, test, where, x, b.Term, exp, f)
					hx.Eval(1)
				}
			}
		}
	}
	check(pm, "parsed")
	// the same through the constructors
	m := ir.NewModule()
	g := m.NewFunc("g", types.Void, ir.NewParam("", types.Label))
	pers := m.NewFunc("__gxx_personality_v0", types.I32)
	pers.Sig.Variadic = true
	f := m.NewFunc("f", types.Void, ir.NewParam("c", types.I1))
	f.Personality = pers
	entry, ok, other, other2, lp := f.NewBlock("entry"), f.NewBlock("ok"), f.NewBlock("other"), f.NewBlock("other2"), f.NewBlock("lp")
	inv := entry.NewInvoke(g, []value.Value{other}, ok, lp)
	inv.OperandBundles = []*ir.OperandBundle{{Tag: "blk", Inputs: []value.Value{other2}}, {Tag: "two", Inputs: []value.Value{ok, lp}}}
	call := ok.NewCall(g, other2)
	call.OperandBundles = []*ir.OperandBundle{{Tag: "b", Inputs: []value.Value{ok, other}}}
	ok.NewCondBr(f.Params[0], other, other2)
	other.NewRet(nil)
	other2.NewRet(nil)
	e := lp.NewLandingPad(types.NewStruct(types.I8Ptr, types.I32))
	e.Cleanup = true
	e.SetName("e")
	lp.NewResume(e)
	check(m, "constructed")
}

func TestFuncletCatalogue(t *testing.T) {
	const test = "FuncletCatalogue"
	hx.Rule(test, "hand-written module with catchswitch, catchpad, cleanuppad, catchret and cleanupret (both 'unwind to caller' and 'unwind label'): same completeness, liveness and successor oracles; successors are compared with the labels written in the text")
	if !hx.Mine(0) {
		return
	}
	x := `declare void @g()
declare i32 @__CxxFrameHandler3(...)
define void @f() personality i32 (...)* @__CxxFrameHandler3 {
entry:
  invoke void @g() to label %ok unwind label %cs
cs:
  %s = catchswitch within none [label %h, label %h2] unwind label %cl
h:
  %c = catchpad within %s [i8* null, i32 64, i8* null]
  catchret from %c to label %ok
h2:
  %c2 = catchpad within %s []
  invoke void @g() [ "funclet"(token %c2) ] to label %h2ok unwind label %cl2
h2ok:
  catchret from %c2 to label %ok
cl2:
  %p2 = cleanuppad within %c2 []
  cleanupret from %p2 unwind label %cl
cl:
  %p = cleanuppad within none [i32 1]
  cleanupret from %p unwind to caller
ok:
  ret void
}
define void @k() personality i32 (...)* @__CxxFrameHandler3 {
entry:
  invoke void @g() to label %ok unwind label %cs
cs:
  %s = catchswitch within none [label %h] unwind to caller
h:
  %c = catchpad within %s []
  catchret from %c to label %ok
ok:
  ret void
}
`
	pm, err, p := lx.Parse(x)
	if err != nil || p != nil {
		hx.Fail(t, test, "ll", x, "the funclet catalogue module is not parsed: %v %s", err, p)
	}
	want := map[string][]string{ // function/block -> successor labels in order
		"@f/entry": {"ok", "cs"}, "@f/cs": {"h", "h2", "cl"}, "@f/h": {"ok"}, "@f/h2": {"h2ok", "cl2"}, "@f/h2ok": {"ok"}, "@f/cl2": {"cl"}, "@f/cl": {}, "@f/ok": {},
		"@k/entry": {"ok", "cs"}, "@k/cs": {"h"}, "@k/h": {"ok"}, "@k/ok": {},
	}
	for _, f := range pm.Funcs {
		byName := map[string]*ir.Block{}
		for _, b := range f.Blocks {
			byName[b.LocalName] = b
		}
		for bi, b := range f.Blocks {
			for ii, in := range b.Insts {
				if u, ok := in.(user); ok {
					checkUser(t, test, fmt.Sprintf("%s %s inst %d", f.Ident(), b.Ident(), ii), x, u)
					hx.Eval(1)
					hx.Hist("kind/" + strings.TrimPrefix(fmt.Sprintf("%T", in), "*ir."))
					hx.NonTrivial(fmt.Sprintf("funclet/%s/%d/%d", f.Ident(), bi, ii))
				}
			}
			if u, ok := b.Term.(user); ok {
				where := fmt.Sprintf("%s %s terminator", f.Ident(), b.Ident())
				checkUser(t, test, where, x, u)
				var exp []*ir.Block
				for _, n := range want[f.Ident()+"/"+b.LocalName] {
					exp = append(exp, byName[n])
				}
				checkSuccs(t, test, where, x, b.Term, exp, f)
				hx.Eval(1)
				hx.Hist("kind/" + strings.TrimPrefix(fmt.Sprintf("%T", b.Term), "*ir."))
				hx.NonTrivial(fmt.Sprintf("funclet/%s/%d/term", f.Ident(), bi))
			}
		}
	}
}
