package c01

import (
	"testing"

	"pgregory.net/rapid"

	"verif/h/gen"
	"verif/h/hx"
	"verif/h/llvmx"
	"verif/h/orc"
)

// checkRenamed: y0 = print(parse(x)); locals renamed through the API; y = print. LLVM must read y0 and y
// as the same module up to local names. (Comparing with y0 rather than x keeps the known findings of the
// plain parse-print path out of this relation.)
func checkRenamed(t hx.TB, test, x string, seed uint64) (stats map[string]int, judged bool) {
	c := orc.EditedCase(seed, x)
	y0, y, stats, o := orc.PrintAfterRenames(x, seed)
	switch o.V {
	case orc.Discard:
		hx.Discard("renamed/" + o.Class)
		return nil, false
	case orc.Violation:
		if !llvmx.Accept(x).OK {
			hx.Discard("renamed/violation_outside_domain(llvm_rejects_input)")
			return nil, false
		}
		hx.Fail(t, test, "ll", c, "%s", o.Describe())
	}
	o2 := orc.SameUpToLocalNames(y0, y)
	switch o2.V {
	case orc.Discard:
		hx.Discard("renamed/" + o2.Class)
		return stats, false
	case orc.Violation:
		hx.Fail(t, test, "ll", c, "%s", o2.Describe())
	}
	return stats, true
}

// TestRenamedThroughAPI: a parsed module, printed once, whose parameters, blocks and instruction results
// are then renamed through SetName (named to another name, named to unnamed, unnamed to named), is
// printed again: the text must denote the same program up to local names. Everything that refers to a
// local by its printed name or number (operands, phi predecessors, branch targets, blockaddress
// constants in functions and in global tables, use-list orders, debug intrinsics) must follow the rename.
func TestRenamedThroughAPI(t *testing.T) {
	const test = "RenamedThroughAPI"
	hx.Rule(test, "generated modules (with debug info, blockaddress tables, use-list orders), parsed, printed, then a seeded random subset of parameters, blocks and instruction results renamed through SetName (to another name, to unnamed, from unnamed to a name) and printed again: opt-14 -passes=strip must read the first and the second print as the same module (LLVM's reading with local names removed); gate: LLVM accepts the first print. Non-trivial = at least one value went from named to unnamed or back (the numbering of the function changes)")
	hx.Check(t, test, hx.N(150, 1500), func(rt *rapid.T) {
		cfg := genCfg()
		m, _ := gen.Module(rt, cfg)
		x := m.Text()
		seed := rapid.Uint64().Draw(rt, "renameSeed")
		hx.Eval(1)
		hx.Trace(test, "ll", orc.EditedCase(seed, x))
		stats, ok := checkRenamed(rt, test, x, seed)
		if !ok {
			return
		}
		for k, v := range stats {
			hx.HistN("rename/"+k, v)
		}
		if stats["named->unnamed"]+stats["unnamed->named"] > 0 {
			hx.NonTrivial(orc.EditedCase(seed, x))
		}
	})
}
