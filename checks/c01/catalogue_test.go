package c01

import (
	"strings"
	"testing"

	"verif/h/corpus"
	"verif/h/hx"
	"verif/h/orc"
)

// TestCatalogue: hand-written minimal modules, one per construct that neither the generator nor the
// compilers of the external corpora produce often (or at all): the catalogue pass that keeps every
// keyword and field of the grammar from depending on luck. Files that state `; expect: accepted` are
// judged like the own generator's output (a rejection by the parser is a violation), the others like
// external input.
func TestCatalogue(t *testing.T) {
	const test = "Catalogue"
	hx.Rule(test, "hand-written minimal modules under corpus/catalogue, one per rarely produced construct (partitions, thread-local and unnamed_addr aliases and ifuncs, alias targets spelled with inttoptr/addrspacecast, every parameter and function attribute form, callbr with every optional clause, inalloca stack slots, unwinding inline asm, syncscopes, named types of every non-struct kind, rarely emitted debug-info fields and node kinds such as DIStringType, DIGenericSubrange, DIMacroFile, annotations, Fortran array descriptors, split-DWARF fields): gate = llvm-as-14 accepts; parse and print must not panic, files marked `expect: accepted` must be accepted by the parser, LLVM must accept the output and read the same canonical module; non-trivial = every accepted file (each one is there for a construct)")
	for i, f := range corpus.Catalogue() {
		if !hx.Mine(i) {
			continue
		}
		hx.Eval(1)
		own := strings.Contains(strings.SplitN(f.Text, "\n", 2)[0], "expect: accepted")
		o := judge(t, test, f.Name, f.Text, own)
		if o.V == orc.OK {
			hx.NonTrivial("catalogue/" + f.Name)
			hx.Hist("source/catalogue")
		}
	}
}
