package c01

import (
	"fmt"
	"os"
	"strings"
	"testing"

	"github.com/llir/llvm/ir"
	"pgregory.net/rapid"

	"verif/h/am"
	"verif/h/corpus"
	"verif/h/gen"
	"verif/h/hx"
	"verif/h/llvmx"
	"verif/h/orc"
	"verif/h/reduce"
)

func TestMain(m *testing.M) { hx.Main(m, "C01", initKF) }

// judge runs the C01 oracle on x and fails the test on a violation. External inputs are
// first minimised by line-based delta debugging (they cannot be shrunk by rapid).
func judge(t hx.TB, test, src, x string, own bool) orc.Outcome {
	hx.Trace(test, "ll", x)
	if why := outsideDomain(x); why != "" {
		hx.Discard("outside_domain/" + why)
		return orc.Outcome{V: orc.Discard, Class: why}
	}
	x = applyExclusions(x)
	o := orc.ParsePrintPreserves(x, orc.Opts{OwnGenerator: own})
	switch o.V {
	case orc.Discard:
		hx.Discard(o.Class)
	case orc.Violation:
		if known := matchKnown(x, o); known != "" {
			return o
		}
		min := x
		if !own {
			min = reduce.Lines(x, 120, func(c string) bool {
				o2 := orc.ParsePrintPreserves(c, orc.Opts{OwnGenerator: own})
				return o2.V == orc.Violation && o2.Class == o.Class && matchKnown(c, o2) == ""
			})
			o = orc.ParsePrintPreserves(min, orc.Opts{OwnGenerator: own})
		}
		hx.Fail(t, test, "ll", "; source: "+src+"\n"+min, "%s", o.Describe())
	}
	return o
}

func nontrivial(x string) bool {
	ops := map[string]bool{}
	for _, line := range strings.Split(x, "\n") {
		f := strings.Fields(line)
		for i, w := range f {
			if i <= 2 && isOpcode(w) {
				ops[w] = true
			}
		}
	}
	return len(ops) >= 3 || strings.Contains(x, "!{") || strings.Contains(x, " x i") && strings.Contains(x, "global")
}

var opcodes = map[string]bool{}

func init() {
	for _, o := range strings.Fields("fneg add fadd sub fsub mul fmul udiv sdiv fdiv urem srem frem shl lshr ashr and or xor extractelement insertelement shufflevector extractvalue insertvalue alloca load store fence cmpxchg atomicrmw getelementptr trunc zext sext fptrunc fpext fptoui fptosi uitofp sitofp ptrtoint inttoptr bitcast addrspacecast icmp fcmp phi select freeze call va_arg landingpad catchpad cleanuppad ret br switch indirectbr invoke callbr resume catchswitch catchret cleanupret unreachable") {
		opcodes[o] = true
	}
}

func isOpcode(w string) bool { return opcodes[w] }

func TestRepoTestdata(t *testing.T) {
	const test = "RepoTestdata"
	hx.Rule(test, "every .ll file of the repository's testdata that llvm-as-14 accepts: parse and print must not panic, LLVM must accept the output and read the same canonical module from it (llvm-as|llvm-dis, normalised for metadata numbering and named-metadata/type/comdat order)")
	for i, f := range corpus.RepoTestdata() {
		if !hx.Mine(i) {
			continue
		}
		hx.Eval(1)
		o := judge(t, test, f.Name, f.Text, false)
		if o.V == orc.OK {
			hx.NonTrivial("testdata/" + f.Name)
			hx.Hist("source/testdata")
		}
	}
}

func TestStress(t *testing.T) {
	const test = "Stress"
	hx.Rule(test, "llvm-stress-14 programs (seed and size drawn by rapid) and their opt-14 variants (-O1, -O2, mem2reg+instcombine+simplifycfg, sroa+early-cse+loop-rotate+licm): same oracle; a parse *error* on such external input is recorded as 'rejected' (representability is undecidable for external input), panics/invalid output/changed meaning are violations; failing inputs are minimised by line-based delta debugging; non-trivial = at least 3 distinct opcodes or aggregate/metadata content; distinct by text digest")
	hx.Check(t, test, hx.N(30, 1200), func(rt *rapid.T) {
		seed := rapid.Uint64Range(1, 1<<31).Draw(rt, "stress_seed")
		size := rapid.SampledFrom([]int{10, 30, 100, 300}).Draw(rt, "stress_size")
		x := corpus.Stress(seed, size)
		if x == "" {
			hx.Discard("llvm_stress_failed")
			return
		}
		src := fmt.Sprintf("llvm-stress-14 -seed %d -size %d", seed, size)
		variant := rapid.IntRange(-1, len(corpus.OptPipelines)-1).Draw(rt, "opt")
		if variant >= 0 {
			y := corpus.Opt(x, variant)
			if y == "" {
				hx.Discard("opt_failed")
				return
			}
			x = y
			src += " | opt-14 " + strings.Join(corpus.OptPipelines[variant], " ")
			hx.Hist("source/stress+opt")
		} else {
			hx.Hist("source/stress")
		}
		hx.Eval(1)
		o := judge(rt, test, src, x, false)
		if o.V == orc.OK && nontrivial(x) {
			hx.NonTrivial(x)
		}
		hx.SampleCase(test, src+"\n"+x)
	})
}

func TestReplay(t *testing.T) {
	path := os.Getenv("VERIF_REPLAY")
	if path == "" {
		t.Skip()
	}
	buf, err := os.ReadFile(path)
	if err != nil {
		t.Fatal(err)
	}
	x := string(buf)
	if seed, ok := orc.RenameSeedOf(x); ok {
		checkRenamed(t, "Replay", strings.SplitN(x, "\n", 2)[1], seed)
		return
	}
	o := orc.ParsePrintPreserves(x, orc.Opts{OwnGenerator: strings.Contains(x, "; source: own-generator")})
	if o.V == orc.Violation && matchKnown(x, o) == "" {
		hx.Fail(t, "Replay", "ll", x, "%s", o.Describe())
	}
	if o.V == orc.Discard {
		t.Logf("replay input not judged: %s %s", o.Class, o.Msg)
	}
	if o.V == orc.OK {
		// external inputs are also held to the fixpoint statement (as the fuzz entry does)
		if v, o2 := judgeExternal(x); v == "violation" {
			hx.Fail(t, "Replay", "ll", x, "%s", o2.Describe())
		}
	}
	_ = llvmx.Accept
}

func genCfg() gen.Cfg {
	cfg := gen.DefaultCfg()
	cfg.Off = genOff
	cfg.Count = func(f string) { hx.Known("excluded:" + f) }
	cfg.DebugInfo = true
	return cfg
}

func TestGenerated(t *testing.T) {
	const test = "Generated"
	hx.Rule(test, "modules drawn by the harness' own typed module generator (types incl. recursive/packed/opaque/scalable, globals with aggregate and constant-expression initialisers, functions with generated CFGs, phis, all arithmetic/memory/vector/aggregate/cast/call instructions, invoke/landingpad, indirectbr, callbr, switch, attributes, comdats, aliases, attribute groups, generic metadata), rendered by the harness' own text emitter in a drawn textual order: gate = llvm-as-14 accepts; the parser must accept (every construct is representable), parse/print must not panic, LLVM must accept the output and read the same canonical module; shrunk by rapid; non-trivial = >= 3 distinct opcodes or aggregate/metadata content")
	hx.Check(t, test, hx.N(150, 2500), func(rt *rapid.T) {
		cfg := genCfg()
		cfg.GEPBias = rapid.IntRange(0, 3).Draw(rt, "gepbias") == 0 // a quarter of the cases in the getelementptr-rich profile of C07
		m, feats := gen.Module(rt, cfg)
		gen.SparseMetadataIDs(rt, m)
		noise := gen.DrawNoiseWithAliases(rt)
		if noise.SplitAttrGroups && genOff["noise-split-attrgroups"] {
			noise.SplitAttrGroups = false
			hx.Known("excluded:noise-split-attrgroups")
		}
		x := m.TextNoisy(noise)
		hx.Eval(1)
		o := judge(rt, test, "own-generator", "; source: own-generator\n"+x, true)
		if o.V == orc.OK {
			// named function types of call sites (Noise.FnAlias) are definitions of their own
			fnAliases := 0
			for _, l := range strings.Split(x, "\n") {
				if strings.HasPrefix(l, "%$fn") || strings.HasPrefix(l, `%"$fn`) || strings.HasPrefix(l, "%$v") || strings.HasPrefix(l, `%"$v`) || strings.HasPrefix(l, "%$w") || strings.HasPrefix(l, `%"$w`) { // and named vector types (Noise.VecAlias)
					fnAliases++
				}
			}
			if d := inventory(m, o.M, len(noise.TypeAlias)+fnAliases); d != "" {
				hx.Fail(rt, test, "ll", "; source: own-generator\n"+x, "inventory: %s (LLVM's canonical form drops unused definitions and applied use-list orders, so these are compared directly)\n--- printed output ---\n%s", d, o.Out)
			}
			for k, v := range feats {
				hx.HistN(k, v)
			}
			if nontrivial(x) {
				hx.NonTrivial(x)
			}
		}
		hx.SampleCase(test, x)
	})
}

// inventory compares what the generator emitted with what the parsed module lists, for the kinds of
// definitions that LLVM's canonical form silently drops when unused (type definitions, attribute
// groups, unreferenced metadata, use-list orders) and for the others as a cross-check.
func inventory(m *am.Module, pm *ir.Module, aliasedTypes int) string {
	namedMD := map[string]bool{}
	for _, n := range m.NamedMDs {
		namedMD[n.Name] = true
	}
	ulo := len(m.UseListOrders)
	pulo := len(pm.UseListOrders) + len(pm.UseListOrderBBs)
	for _, f := range m.Funcs {
		ulo += len(f.UseListOrders)
	}
	for _, f := range pm.Funcs {
		pulo += len(f.UseListOrders)
	}
	for _, c := range []struct {
		what      string
		want, got int
	}{
		{"type definitions (an alias chain counts as the one definition it names)", len(m.U.Defs) + aliasedTypes, len(pm.TypeDefs)},
		{"comdats", len(m.Comdats), len(pm.ComdatDefs)},
		{"global variables", len(m.Globals), len(pm.Globals)},
		{"aliases and ifuncs", len(m.Aliases), len(pm.Aliases) + len(pm.IFuncs)},
		{"functions", len(m.Funcs), len(pm.Funcs)},
		{"attribute groups", len(m.AttrGroups), len(pm.AttrGroupDefs)},
		{"named metadata", len(namedMD), len(pm.NamedMetadataDefs)},
		{"metadata definitions", len(m.MDs), len(pm.MetadataDefs)},
		{"use-list orders", ulo, pulo},
		{"module asm lines", len(m.Asm), len(pm.ModuleAsms)},
	} {
		if c.want != c.got {
			return fmt.Sprintf("the input defines %d %s, the parsed module lists %d", c.want, c.what, c.got)
		}
	}
	return ""
}
