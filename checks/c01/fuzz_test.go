package c01

import (
	"fmt"
	"os"
	"path/filepath"
	"regexp"
	"sort"
	"strings"
	"testing"
	"time"

	"pgregory.net/rapid"

	"verif/h/corpus"
	"verif/h/gen"
	"verif/h/hx"
	"verif/h/kf"
	"verif/h/lx"
	"verif/h/mut"
	"verif/h/orc"
	"verif/h/reduce"
)

// Inputs that reproduce an open known finding are recognised on the *input* (so that the search goes on
// behind them) and counted. Each predicate names the finding it belongs to.
var (
	reCC1         = regexp.MustCompile(`\bcc\s*1\b`)
	reAttrGroupID = regexp.MustCompile(`(?m)^\s*attributes\s+#(\d+)\s*=`)
	reRetAlign    = regexp.MustCompile(`\b(declare|define|call|invoke)\b[^@\n]*\balign\s+\d+[^@\n]*@`)
)

// knownOnInput returns the ID of an active known finding the input runs into ("" if none).
func knownOnInput(x string) string {
	if kfCC1 && reCC1.MatchString(x) {
		return "KF-C01-cc1"
	}
	seen := map[string]bool{}
	for _, m := range reAttrGroupID.FindAllStringSubmatch(x, -1) {
		if seen[m[1]] {
			return "KF-C01-attrgroup-redefinition"
		}
		seen[m[1]] = true
	}
	return ""
}

// judgeExternal is the oracle for arbitrary text (fuzzer-made or mutated): the cheap pure-Go steps come
// first, LLVM is consulted only for inputs the parser accepts (or dies on). verdict: "skip:<why>", "ok",
// or a violation outcome.
func judgeExternal(x string) (string, orc.Outcome) {
	if len(x) > 1<<20 {
		return "skip:too_large", orc.Outcome{}
	}
	if why := outsideDomain(x); why != "" {
		return "skip:" + why, orc.Outcome{}
	}
	x = applyExclusions(x)
	if id := knownOnInput(x); id != "" {
		kf.Hit(id)
		return "skip:known/" + id, orc.Outcome{}
	}
	_, err, p := lx.Parse(x)
	if err != nil && p == nil {
		return "skip:parser_rejects", orc.Outcome{}
	}
	o := orc.ParsePrintPreserves(x, orc.Opts{})
	switch o.V {
	case orc.Discard:
		return "skip:" + o.Class, o
	case orc.Violation:
		return "violation", o
	}
	// LLVM-valid and preserved: the output must also be a fixpoint (C02's statement on the same input)
	f, _, _ := orc.Fixpoint(x)
	if f.V == orc.Violation {
		f.Class = "C02/" + f.Class
		return "violation", f
	}
	return "ok", o
}

func reportExternal(t hx.TB, test, src, x string, o orc.Outcome) {
	cls := o.Class
	same := func(c string) bool {
		v, o2 := judgeExternal(c)
		return v == "violation" && o2.Class == cls
	}
	min := reduce.Lines(applyExclusions(x), 150, same)
	if _, o2 := judgeExternal(min); o2.V == orc.Violation {
		o = o2
	}
	hx.Fail(t, test, "ll", "; source: "+src+"\n"+min, "%s", o.Describe())
}

// corpusDir holds inputs harvested from fuzzing campaigns (coverage-increasing inputs and every input
// that once exposed a defect); they are replayed by TestHarvestedCorpus on every run.
func corpusDir() string { return filepath.Join(hx.Root, "corpus", "c01") }

func harvested() []corpus.File {
	var out []corpus.File
	ents, _ := os.ReadDir(corpusDir())
	for _, e := range ents {
		if b, err := os.ReadFile(filepath.Join(corpusDir(), e.Name())); err == nil {
			out = append(out, corpus.File{Name: e.Name(), Text: string(b)})
		}
	}
	sort.Slice(out, func(i, j int) bool { return out[i].Name < out[j].Name })
	return out
}

func TestHarvestedCorpus(t *testing.T) {
	const test = "HarvestedCorpus"
	hx.Rule(test, "every input harvested from the native-fuzzing campaigns (corpus/c01: inputs that reached new coverage in the parser and printer, and the minimised inputs of every defect found that way): parser accepts => C01 oracle (LLVM differential) and C02 fixpoint; inputs the parser rejects are skipped")
	for i, f := range harvested() {
		if !hx.Mine(i) {
			continue
		}
		hx.Eval(1)
		v, o := judgeExternal(f.Text)
		switch {
		case v == "violation":
			reportExternal(t, test, "corpus/c01/"+f.Name, f.Text, o)
		case v == "ok":
			hx.NonTrivial("harvested/" + f.Name)
			hx.Hist("source/harvested")
		default:
			hx.Discard("harvested/" + strings.TrimPrefix(v, "skip:"))
		}
	}
}

// FuzzParsePrint is the coverage-guided entry (go test -fuzz): bytes are the module text. It is driven
// by `./verif fuzz C01 <duration>`; failures are minimised, stored as replay files and, once triaged,
// added to corpus/c01 so that the deterministic tiers keep checking them.
func FuzzParsePrint(f *testing.F) {
	for _, tf := range corpus.RepoTestdata() {
		if len(tf.Text) < 12<<10 {
			f.Add([]byte(tf.Text))
		}
	}
	for _, tf := range harvested() {
		f.Add([]byte(tf.Text))
	}
	g := rapid.Custom(func(rt *rapid.T) string {
		cfg := genCfg()
		cfg.MaxFuncs, cfg.MaxBlocks, cfg.MaxInsts = 2, 3, 5
		cfg.DebugInfo = true
		m, _ := gen.Module(rt, cfg)
		return m.TextNoisy(gen.DrawNoise(rt))
	})
	for i := 0; i < 40; i++ {
		f.Add([]byte(g.Example(i)))
	}
	f.Fuzz(func(t *testing.T, data []byte) {
		x := string(data)
		if len(x) > 48<<10 {
			return
		}
		t0 := time.Now()
		v, o := judgeExternal(x)
		if d := time.Since(t0); d > 3*time.Second {
			os.WriteFile(filepath.Join(hx.OutDir, fmt.Sprintf("slow-%d-%d.ll", os.Getpid(), t0.UnixNano())), []byte(fmt.Sprintf("; %v %s\n%s", d, v, x)), 0o644)
		}
		if v == "violation" {
			reportExternal(t, "FuzzParsePrint", "go test -fuzz", x, o)
		}
		if v == "ok" {
			hx.Hist("fuzz/accepted_and_judged")
		} else {
			hx.Discard("fuzz/" + strings.TrimPrefix(v, "skip:"))
		}
	})
}

// TestMutatedCorpus is the deterministic counterpart of the fuzz entry: a valid base module (repository
// testdata, llvm-stress output, harvested corpus, own generator) is changed by 1..3 drawn text mutations
// (h/mut); llvm-as decides whether the result is still a valid module, and valid ones go through the
// C01 oracle and the C02 fixpoint.
func TestMutatedCorpus(t *testing.T) {
	const test = "MutatedCorpus"
	hx.Rule(test, "a valid base module (repository testdata <= 24 KB, llvm-stress output, harvested fuzz corpus, own generator with debug info) x 1..3 drawn text mutations (keyword exchanged inside its class: linkage, visibility, calling convention, flags, predicates, orderings, attributes, opcodes of one family, types; optional flag inserted or dropped; integer operand replaced by a boundary value; identifier quoted; comment appended; line deleted; top-level definition moved; top-level line spliced in from another module; metadata attachment duplicated under another kind). Gate: llvm-as-14 accepts the mutated text and the parser accepts it (a parse error on external text is 'rejected', not judged). Oracle: C01 LLVM differential, then C02 fixpoint. Failing inputs are minimised by line-based delta debugging. Non-trivial = the mutated text differs from the base, is LLVM-valid and accepted; distinct by text digest")
	var bases []string
	for _, f := range corpus.Fixed() {
		if len(f.Text) <= 24<<10 {
			bases = append(bases, f.Text)
		}
	}
	for _, f := range harvested() {
		bases = append(bases, f.Text)
	}
	hx.Check(t, test, hx.N(120, 6000), func(rt *rapid.T) {
		var base, src string
		switch rapid.IntRange(0, 3).Draw(rt, "basekind") {
		case 0, 1:
			i := rapid.IntRange(0, len(bases)-1).Draw(rt, "base")
			base, src = bases[i], fmt.Sprintf("corpus base #%d", i)
		case 2:
			seed := rapid.Uint64Range(1, 1<<31).Draw(rt, "stress_seed")
			base = corpus.Stress(seed, rapid.SampledFrom([]int{10, 30, 100}).Draw(rt, "stress_size"))
			src = fmt.Sprintf("llvm-stress-14 -seed %d", seed)
			if base == "" {
				hx.Discard("llvm_stress_failed")
				return
			}
		default:
			cfg := genCfg()
			cfg.DebugInfo = true
			m, _ := gen.Module(rt, cfg)
			base, src = m.Text(), "own generator"
		}
		x, ops := mut.Mutate(rt, base, bases)
		if len(ops) == 0 {
			hx.Discard("mutation_changed_nothing")
			return
		}
		hx.Eval(1)
		hx.Trace(test, "ll", x)
		v, o := judgeExternal(x)
		switch {
		case v == "violation":
			reportExternal(rt, test, src+" + mutations "+strings.Join(ops, ","), x, o)
		case v == "ok":
			hx.NonTrivial(x)
			for _, op := range ops {
				hx.Hist("mutation/valid/" + op)
			}
		default:
			hx.Discard("mutated/" + strings.TrimPrefix(v, "skip:"))
		}
	})
}

// TestClangCorpus: real compiler output. Every source of corpus/src x every flag set of
// corpus.ClangVariants that clang-14 accepts.
func TestClangCorpus(t *testing.T) {
	const test = "ClangCorpus"
	hx.Rule(test, fmt.Sprintf("clang-14 output for the C and C++ sources under corpus/src (structs, unions, bit-fields, vectors, __int128, long double, half, atomics, varargs, computed goto, inline asm and asm goto, TLS, aliases, ifuncs, constructors, attributes and calling conventions, C++ classes, templates, exceptions, lambdas, member pointers) x %d flag sets (-O0..-O3, -g, kept value names, fast-math, PIC/visibility/stack protector, ASan, UBSan+TSan, coverage instrumentation, targets i386, AArch64, ARMv7, RISC-V, PowerPC64, WebAssembly, x86-64 and i686 Windows/MSVC): C01 oracle (LLVM differential) and C02 fixpoint; a parse error is 'rejected' (recorded, not judged: representability of external input is undecidable); non-trivial = judged ok", len(corpus.ClangVariants)))
	for i, c := range corpus.ClangCases() {
		if !hx.Mine(i) {
			continue
		}
		x := c.Text()
		if x == "" {
			hx.Discard("clang_rejects_combination")
			continue
		}
		hx.Eval(1)
		hx.Trace(test, "ll", x)
		v, o := judgeExternal(x)
		switch {
		case v == "violation":
			reportExternal(t, test, "clang-14 "+c.Name(), x, o)
		case v == "ok":
			hx.NonTrivial("clang/" + c.Name())
			hx.Hist("source/clang")
		default:
			hx.Discard("clang/" + strings.TrimPrefix(v, "skip:"))
		}
	}
}
