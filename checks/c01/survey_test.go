package c01

import (
	"crypto/sha1"
	"fmt"
	"os"
	"sort"
	"strconv"
	"strings"
	"testing"

	"pgregory.net/rapid"

	"verif/h/corpus"
	"verif/h/llvmx"
	"verif/h/lx"
	"verif/h/mut"
)

// TestSurveyMutationRejects (MUT_SURVEY=1) lists the parser's error messages on mutated inputs that
// llvm-as accepts: a triage aid, not a check.
func TestSurveyMutationRejects(t *testing.T) {
	if os.Getenv("MUT_SURVEY") == "" {
		t.Skip()
	}
	var bases []string
	for _, f := range corpus.RepoTestdata() {
		if len(f.Text) <= 24<<10 {
			bases = append(bases, f.Text)
		}
	}
	count := map[string]int{}
	example := map[string]string{}
	g := rapid.Custom(func(rt *rapid.T) string {
		i := rapid.IntRange(0, len(bases)-1).Draw(rt, "base")
		x, _ := mut.Mutate(rt, bases[i], bases)
		return x
	})
	for i := 0; i < 3000; i++ {
		x := g.Example(i)
		_, err, p := lx.Parse(x)
		if err == nil || p != nil {
			continue
		}
		if !llvmx.Accept(x).OK {
			continue
		}
		msg := strings.SplitN(err.Error(), "\n", 2)[0]
		if len(msg) > 150 {
			msg = msg[:150]
		}
		// normalise positions
		key := msg
		if j := strings.Index(key, "syntax error"); j >= 0 {
			key = key[j:]
		}
		count[key]++
		if _, ok := example[key]; !ok {
			example[key] = x
		}
	}
	var keys []string
	for k := range count {
		keys = append(keys, k)
	}
	sort.Slice(keys, func(i, j int) bool { return count[keys[i]] > count[keys[j]] })
	for _, k := range keys {
		fmt.Printf("%4d  %s\n", count[k], k)
	}
	os.MkdirAll("/tmp/scratch/survey", 0o755)
	for i, k := range keys {
		os.WriteFile(fmt.Sprintf("/tmp/scratch/survey/%02d.ll", i), []byte("; "+k+"\n"+example[k]), 0o644)
	}
}

// TestHarvest (HARVEST_FROM=<go fuzz cache dir of the target>) decodes the inputs a fuzzing campaign
// kept (they reached new coverage) and copies those the oracle judges "ok" and that are small into
// corpus/c01. A maintenance tool, not a check.
func TestHarvest(t *testing.T) {
	from := os.Getenv("HARVEST_FROM")
	if from == "" {
		t.Skip()
	}
	ents, _ := os.ReadDir(from)
	os.MkdirAll(corpusDir(), 0o755)
	kept, seen := 0, map[string]bool{}
	for _, f := range harvested() {
		seen[f.Text] = true
	}
	for _, f := range corpus.RepoTestdata() {
		seen[f.Text] = true
	}
	verdicts := map[string]int{}
	for _, e := range ents {
		b, err := os.ReadFile(from + "/" + e.Name())
		if err != nil {
			continue
		}
		lines := strings.SplitN(string(b), "\n", 3)
		if len(lines) < 2 || !strings.HasPrefix(lines[1], "[]byte(") {
			continue
		}
		q := strings.TrimSuffix(strings.TrimPrefix(strings.TrimSpace(lines[1]), "[]byte("), ")")
		raw, err := strconv.Unquote(q)
		if err != nil || len(raw) > 8<<10 || seen[raw] {
			continue
		}
		v, _ := judgeExternal(raw)
		verdicts[v]++
		if v != "ok" {
			continue
		}
		seen[raw] = true
		name := fmt.Sprintf("fz-%x.ll", sha1.Sum([]byte(raw)))[:18] + ".ll"
		os.WriteFile(corpusDir()+"/"+name, []byte(raw), 0o644)
		kept++
	}
	fmt.Printf("harvest: %d inputs kept; verdicts %v\n", kept, verdicts)
}
