package c01

import (
	"regexp"
	"strings"

	"verif/h/hx"
	"verif/h/kf"
	"verif/h/orc"
	"verif/h/ref"
)

var kfNaN, kfCC1 bool

// genOff lists generator features switched off by active known findings.
var genOff = map[string]bool{}

func initKF() {
	kfNaN = kf.Activate("KF-C01-nan-payload", func(in string) bool {
		o := orc.ParsePrintPreserves(in, orc.Opts{})
		return o.V == orc.Violation && o.Class == "meaning_changed"
	})
	// grammar gaps of the external parser: valid input is a syntax error
	syntaxErr := func(in string) bool {
		o := orc.ParsePrintPreserves(in, orc.Opts{OwnGenerator: true})
		return o.V == orc.Violation && o.Class == "parse_error" && strings.Contains(o.Msg, "syntax error")
	}
	if kf.Activate("KF-C01-retattr-align", syntaxErr) {
		genOff["retattr-align"] = true
	}
	if kf.Activate("KF-C01-freeze-metadata", syntaxErr) {
		genOff["freeze-metadata"] = true
	}
	changed := func(in string) bool {
		o := orc.ParsePrintPreserves(in, orc.Opts{OwnGenerator: true})
		return o.V == orc.Violation && o.Class == "meaning_changed"
	}
	if kf.Activate("KF-C01-di-default-true-bools", changed) {
		genOff["di-default-true-bools"] = true
	}
	if kf.Activate("KF-C01-attrgroup-redefinition", changed) {
		genOff["noise-split-attrgroups"] = true
	}
	kf.Activate("KF-C01-nonstruct-named-type-order", func(in string) bool {
		o := orc.ParsePrintPreserves(in, orc.Opts{OwnGenerator: true})
		return o.V == orc.Violation && o.Class == "output_rejected_by_llvm" && strings.Contains(o.Msg, "forward references to non-struct type")
	})
	kfCC1 = kf.Activate("KF-C01-cc1", func(in string) bool {
		o := orc.ParsePrintPreserves(in, orc.Opts{})
		return o.V == orc.Violation && o.Class == "meaning_changed"
	})
	if kf.Activate("KF-C01-dwarfAddressSpace-zero", changed) {
		genOff["di-dwarfAddressSpace-zero"] = true
	}
}

var reFloatLit = regexp.MustCompile(`\b0x([HKLM]?)([0-9A-Fa-f]+)\b`)

func kindByName(n string) ref.FKind {
	for _, k := range ref.FKinds {
		if k.Name == n {
			return k
		}
	}
	return ref.Double
}

var canonNaN = map[string][2]string{
	"half": {"0xH7E00", "0xHFE00"}, "float": {"0x7FF8000000000000", "0xFFF8000000000000"}, "double": {"0x7FF8000000000000", "0xFFF8000000000000"},
	"x86_fp80": {"0xK7FFFC000000000000000", "0xKFFFFC000000000000000"}, "fp128": {"0xL00000000000000007FFF800000000000", "0xL0000000000000000FFFF800000000000"},
	"ppc_fp128": {"0xM7FF80000000000000000000000000000", "0xMFFF80000000000000000000000000000"},
}

func negative(k ref.FKind, p ref.Pat) bool {
	switch k.Name {
	case "half":
		return p.Lo>>15&1 == 1
	case "float":
		return p.Lo>>31&1 == 1
	case "double":
		return p.Lo>>63 == 1
	case "x86_fp80":
		return p.Hi>>15&1 == 1
	case "fp128":
		return p.Lo>>63 == 1
	}
	return p.Hi>>63 == 1
}

// applyExclusions rewrites an input so that it no longer triggers active known findings
// (every rewrite is counted): NaN literals with a non-canonical payload become the
// canonical quiet NaN of the same sign.
func applyExclusions(x string) string {
	// debug-info fields the data model cannot hold (open findings): rewritten, every rewrite counted
	x = kf.RewriteDebugInfo(x, "C01", genOff["di-default-true-bools"], genOff["di-dwarfAddressSpace-zero"])
	if !kfNaN || !strings.Contains(x, "0x") {
		return x
	}
	return reFloatLit.ReplaceAllStringFunc(x, func(m string) string {
		sm := reFloatLit.FindStringSubmatch(m)
		// The prefix decides the kind; for the plain 16-digit form NaN-ness and canonicity are the
		// same for half, float and double (the literal is the double bit pattern).
		kn := map[string]string{"": "double", "H": "half", "K": "x86_fp80", "L": "fp128", "M": "ppc_fp128"}[sm[1]]
		k := kindByName(kn)
		p, ok, _ := ref.ReadLiteral(k, m)
		if !ok {
			return m
		}
		if nan, canon := ref.IsNaN(k, p); nan && !canon {
			kf.Hit("KF-C01-nan-payload")
			c := canonNaN[k.Name][0]
			if negative(k, p) {
				c = canonNaN[k.Name][1]
			}
			return c
		}
		return m
	})
}

// outsideDomain names a reason why x is outside C01's domain ("" if inside).
func outsideDomain(x string) string {
	if reS0x.MatchString(x) {
		// LLVM sign-extends s0x literals from their active bits, the library reads them as two's
		// complement by type width (what property C09 states): for such inputs "LLVM's reading" is
		// not the meaning the library documents, so they are not judged here.
		return "s0x_literal(llvm_and_documented_reading_differ)"
	}
	return ""
}

var reS0x = regexp.MustCompile(`\bs0x[0-9A-Fa-f]`)

// matchKnown returns the ID of the active known finding that explains violation o on input x ("" if none).
func matchKnown(x string, o orc.Outcome) string {
	return ""
}

var _ = hx.Discard
