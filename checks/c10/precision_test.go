package c10

import (
	"fmt"
	"math"
	"math/big"
	"strconv"
	"testing"

	"github.com/llir/llvm/ir/constant"
	"pgregory.net/rapid"

	"verif/h/hx"
	"verif/h/lx"
	"verif/h/ref"
)

// patOf is the bit pattern of the finite non-zero number v in kind k (x86_fp80, fp128: v rounded to nearest
// even at the kind's precision; ppc_fp128: the canonical pair of doubles nearest to v); ok is false outside the
// normal range.
func patOf(k ref.FKind, v *big.Float) (ref.Pat, bool) {
	sign := uint64(0)
	if v.Signbit() {
		sign = 1
	}
	switch k.Name {
	case "x86_fp80", "fp128":
		r := new(big.Float).SetMode(big.ToNearestEven).SetPrec(uint(k.P)).Set(v)
		mant := new(big.Float)
		exp := r.MantExp(mant) // r = mant * 2^exp, 0.5 <= |mant| < 1
		e := exp - 1
		if e < k.EMin || e > k.EMax {
			return ref.Pat{}, false
		}
		mant.SetMantExp(mant, k.P).Abs(mant)
		S, acc := mant.Int(nil)
		if acc != big.Exact {
			return ref.Pat{}, false
		}
		if k.Name == "x86_fp80" {
			return ref.Pat{Hi: sign<<15 | uint64(e+16383), Lo: S.Uint64()}, true
		}
		frac := new(big.Int).Sub(S, new(big.Int).Lsh(big.NewInt(1), 112))
		lo64 := new(big.Int).And(frac, new(big.Int).SetUint64(math.MaxUint64)).Uint64()
		top := new(big.Int).Rsh(frac, 64).Uint64()
		return ref.Pat{Hi: lo64, Lo: sign<<63 | uint64(e+16383)<<48 | top}, true
	case "ppc_fp128":
		hi, _ := new(big.Float).SetPrec(400).Set(v).Float64()
		if math.IsInf(hi, 0) || hi == 0 || math.Abs(hi) < 1e-290 {
			return ref.Pat{}, false
		}
		rest := new(big.Float).SetPrec(400).Sub(new(big.Float).SetPrec(400).Set(v), new(big.Float).SetPrec(400).SetFloat64(hi))
		lo, _ := rest.Float64()
		p := ref.Pat{Hi: math.Float64bits(hi), Lo: math.Float64bits(lo)}
		if lo == 0 {
			p.Lo = 0
		}
		return p, true
	}
	return ref.Pat{}, false
}

// TestSameValueAtOtherPrecisions: what is printed for a constant depends on that constant alone. The numbers a
// program writes as decimals (0.1, 3.14, 1e-5) exist several times in one process: as the double nearest to the
// decimal, placed in an x86_fp80, fp128 or ppc_fp128 constant through constant.NewFloat (53 significant bits),
// and as the value of the wide kind nearest to the same decimal, which is what a compiler writes as the
// hexadecimal literal of `0.1L` (64, 113 or 106 significant bits). Both are constructed and printed in one
// process, in either order: each must print the bits of its own value.
func TestSameValueAtOtherPrecisions(t *testing.T) {
	const test = "SameValueAtOtherPrecisions"
	hx.Rule(test, "a decimal with 1..7 significant digits and a decimal exponent in -25..25, or the shortest decimal of a drawn double; for each of x86_fp80, fp128, ppc_fp128 in drawn order and with the two steps in drawn order: (A) constant.NewFloat(kind, nearest double) must print a literal that the reference reading decodes to exactly that double, embedded in the kind; (B) the hexadecimal literal of the kind's own nearest value (computed with math/big: round to nearest even at 64 or 113 bits, the canonical pair of doubles for ppc_fp128) must round-trip bit for bit; the decimal itself is read as double, float and half in between; non-trivial = the double and the wide value differ (the decimal is not a dyadic rational)")
	wide := []ref.FKind{ref.X86FP80, ref.FP128, ref.PPCFP128}
	hx.Check(t, test, hx.N(300, 20000), func(rt *rapid.T) {
		var dec string
		if rapid.IntRange(0, 3).Draw(rt, "fromDouble") == 0 {
			f := rapid.Float64Range(-1e20, 1e20).Draw(rt, "double")
			if f == 0 || math.Abs(f) < 1e-20 {
				f = 0.1
			}
			dec = strconv.FormatFloat(f, 'g', -1, 64)
		} else {
			digits := rapid.StringMatching(`[1-9][0-9]{0,6}`).Draw(rt, "digits")
			dec = fmt.Sprintf("%s%se%d", rapid.SampledFrom([]string{"", "-"}).Draw(rt, "sign"), digits, rapid.IntRange(-25, 25).Draw(rt, "exp10"))
		}
		f64, err := strconv.ParseFloat(dec, 64)
		exact, _, err2 := big.ParseFloat(dec, 10, 2000, big.ToNearestEven)
		if err != nil || err2 != nil || f64 == 0 || math.IsInf(f64, 0) {
			hx.Discard("decimal_outside_the_range")
			return
		}
		hx.Eval(1)
		nontrivial := false
		for _, ki := range rapid.Permutation([]int{0, 1, 2}).Draw(rt, "kinds") {
			k := wide[ki]
			stepA := func() {
				var printed string
				if p := lx.Guard(func() { printed = constant.NewFloat(irType(k), f64).Ident() }); p != nil {
					hx.Fail(rt, test, "txt", dec+"\n", "constant.NewFloat(%s, %v).Ident() panics: %s", k.Name, f64, p)
				}
				want, ok := patOf(k, new(big.Float).SetFloat64(f64))
				got, ok2, why := ref.ReadLiteral(k, printed)
				if ok && (!ok2 || got != want) {
					hx.Fail(rt, test, "txt", dec+"\n", "constant.NewFloat(%s, %v) (the double nearest to %s) prints %s = bits %v (%s); that double is bits %v in %s", k.Name, f64, dec, printed, got, why, want, k.Name)
				}
			}
			stepB := func() {
				p, ok := patOf(k, exact)
				if !ok {
					return
				}
				if d, okd := patOf(k, new(big.Float).SetFloat64(f64)); okd && d != p {
					nontrivial = true
				}
				for _, lit := range spellingsOf(k, p, 0) {
					checkLiteral(rt, test, k, lit)
				}
			}
			// the decimal itself, at the kinds that read decimals
			for _, nk := range []ref.FKind{ref.Double, ref.Float, ref.Half} {
				lx.Guard(func() { constant.NewFloatFromString(irType(nk), dec) })
			}
			if rapid.Bool().Draw(rt, "apiFirst") {
				stepA()
				stepB()
				stepA()
			} else {
				stepB()
				stepA()
				stepB()
			}
		}
		if nontrivial {
			hx.NonTrivial(dec)
			hx.Hist("double_and_wide_value_differ")
		}
		hx.SampleCase(test, dec)
	})
}
