package c10

import (
	"fmt"
	"io"
	"log"
	"math"
	"os"
	"strconv"
	"strings"
	"testing"

	"github.com/llir/llvm/ir/constant"
	"github.com/llir/llvm/ir/types"
	"pgregory.net/rapid"

	"verif/h/hx"
	"verif/h/kf"
	"verif/h/llvmx"
	"verif/h/lx"
	"verif/h/ref"
)

var (
	kfNaN  bool // KF-C10-nan-payload active
	kfPPC  bool // KF-C10-ppc-noncanonical active
	kfFP80 bool // KF-C10-fp80-noncanonical active
)

func TestMain(m *testing.M) {
	hx.Main(m, "C10", func() {
		log.SetOutput(io.Discard) // the library logs when it cannot print exactly; the oracle notices by itself
		repro := func(k ref.FKind) func(string) bool {
			return func(in string) bool {
				f := strings.Fields(in)
				if len(f) != 2 || f[0] != k.Name {
					return false
				}
				bad, _ := literalRoundTrip(k, f[1])
				return bad != ""
			}
		}
		kfNaN = kf.Activate("KF-C10-nan-payload", repro(ref.Double))
		kfPPC = kf.Activate("KF-C10-ppc-noncanonical", repro(ref.PPCFP128))
		kfFP80 = kf.Activate("KF-C10-fp80-noncanonical", repro(ref.X86FP80))
	})
}

func irType(k ref.FKind) *types.FloatType {
	switch k.Name {
	case "half":
		return types.Half
	case "float":
		return types.Float
	case "double":
		return types.Double
	case "x86_fp80":
		return types.X86_FP80
	case "fp128":
		return types.FP128
	}
	return types.PPC_FP128
}

// literalRoundTrip parses lit with the library, prints it and compares the bit
// patterns under the reference reading. It returns a description of the failure ("" if none)
// and the printed literal.
var otherKindReads int

func literalRoundTrip(k ref.FKind, lit string) (bad string, printed string) {
	want, ok, why := ref.ReadLiteral(k, lit)
	if !ok {
		return "", "" // not a valid literal for the type: outside the domain
	}
	// the same spelling is read at the other kinds first: most of these reads fail (a decimal literal of
	// x86_fp80, fp128 or ppc_fp128, a prefixed hexadecimal literal of another kind) or round differently, and
	// none of them may have anything to do with the read that follows
	otherKindReads++
	if otherKindReads%2 == 0 {
		for _, o := range ref.FKinds {
			if o.Name != k.Name {
				lx.Guard(func() { constant.NewFloatFromString(irType(o), lit) })
			}
		}
	}
	var c *constant.Float
	var err error
	if p := lx.Guard(func() { c, err = constant.NewFloatFromString(irType(k), lit) }); p != nil {
		return fmt.Sprintf("%s literal %q: NewFloatFromString panics: %v", k.Name, lit, p.Val), ""
	}
	if err != nil {
		return fmt.Sprintf("%s literal %q is valid (denotes %v) but is rejected: %v", k.Name, lit, want, err), ""
	}
	if p := lx.Guard(func() { printed = c.Ident() }); p != nil {
		return fmt.Sprintf("%s literal %q: printing panics: %v", k.Name, lit, p.Val), ""
	}
	got, ok2, why2 := ref.ReadLiteral(k, printed)
	_ = why
	want = x87Value(k, want)
	if !ok2 {
		return fmt.Sprintf("%s literal %q is printed as %q, which LLVM's rules do not accept for the type: %s", k.Name, lit, printed, why2), printed
	}
	if got != want {
		return fmt.Sprintf("%s literal %q denotes bits %v but is printed as %q = bits %v", k.Name, lit, want, printed, got), printed
	}
	return "", printed
}

// excluded reports whether the literal falls into an active known finding (counted).
func excluded(k ref.FKind, lit string) bool {
	p, ok, _ := ref.ReadLiteral(k, lit)
	if !ok {
		return false
	}
	if nan, canon := ref.IsNaN(k, p); nan && !canon && kfNaN {
		kf.Hit("KF-C10-nan-payload")
		return true
	}
	if k.Name == "ppc_fp128" && kfPPC && !ppcCanonical(p) {
		kf.Hit("KF-C10-ppc-noncanonical")
		return true
	}
	if k.Name == "x86_fp80" && kfFP80 && !fp80Canonical(p) {
		kf.Hit("KF-C10-fp80-noncanonical")
		return true
	}
	return false
}

// fp80Canonical: encodings that the x87 format defines as valid numbers: zero, denormals
// (exponent 0, integer bit clear), normals (integer bit set), infinities and NaNs with the integer bit set.
func fp80Canonical(p ref.Pat) bool {
	exp := p.Hi & 0x7FFF
	intBit := p.Lo>>63 == 1
	switch {
	case exp == 0:
		return true // denormals, and pseudo-denormals: see x87Value
	default:
		return intBit
	}
}

// x87Value: a pseudo-denormal (exponent field 0 with the integer bit set) is the x87 encoding of the
// number with exponent field 1 and the same significand; LLVM reads it as that number and prints the
// normal encoding (`0xK00008000000000000000` is printed `0xK00018000000000000000`). The value is what
// has to be kept, so the expected pattern of such a literal is the normal encoding.
func x87Value(k ref.FKind, p ref.Pat) ref.Pat {
	if k.Name == "x86_fp80" && p.Hi&0x7FFF == 0 && p.Lo>>63 == 1 {
		p.Hi |= 1
	}
	return p
}

// ppcCanonical: the pair (hi, lo) of doubles is the canonical double-double of their sum:
// lo is zero, or hi is finite non-zero and |lo| <= ulp(hi)/2 with hi = round-to-nearest(hi+lo).
func ppcCanonical(p ref.Pat) bool {
	hi := math.Float64frombits(p.Hi)
	lo := math.Float64frombits(p.Lo)
	if math.IsNaN(hi) || math.IsInf(hi, 0) {
		return p.Lo == 0
	}
	if hi == 0 {
		return p.Lo == 0
	}
	if math.IsNaN(lo) || math.IsInf(lo, 0) {
		return false
	}
	if lo == 0 {
		return p.Lo == 0 // +0 only
	}
	// hi must equal fl(hi+lo), strictly (not a tie).
	s := hi + lo
	if s != hi {
		return false
	}
	up := math.Nextafter(hi, math.Inf(1)) - hi
	dn := hi - math.Nextafter(hi, math.Inf(-1))
	if !(math.Abs(lo) < up/2 && math.Abs(lo) < dn/2) {
		return false
	}
	// the exact sum must fit the 106-bit significand the library works with.
	_, eh := math.Frexp(hi) // hi = f * 2^eh, 0.5 <= |f| < 1: leading bit has weight 2^(eh-1)
	fl, el := math.Frexp(lo)
	m := uint64(math.Abs(fl) * (1 << 53)) // 53-bit integer significand of lo, weight of its bit 0 is 2^(el-53)
	tz := 0
	for m != 0 && m&1 == 0 {
		m >>= 1
		tz++
	}
	lowest := el - 53 + tz
	return (eh-1)-lowest+1 <= 106
}

func checkLiteral(t hx.TB, test string, k ref.FKind, lit string) {
	if excluded(k, lit) {
		// the known findings are about the printed pattern (payload lost, pair re-normalised): nothing else is
		// forgiven for such a literal — it must still be read and printed without a panic or a rejection
		if bad, _ := literalRoundTrip(k, lit); bad != "" && !strings.Contains(bad, " denotes bits ") {
			hx.Fail(t, test, "txt", k.Name+" "+lit+"\n", "%s", bad)
		}
		return
	}
	bad, _ := literalRoundTrip(k, lit)
	if bad != "" {
		hx.Fail(t, test, "txt", k.Name+" "+lit+"\n", "%s", bad)
	}
}

func fixDot(s string) string {
	if strings.ContainsAny(s, "in") { // inf, nan
		return s
	}
	if !strings.Contains(s, ".") {
		if i := strings.IndexAny(s, "eE"); i >= 0 {
			return s[:i] + ".0" + s[i:]
		}
		return s + ".0"
	}
	return s
}

// spellingsOf returns valid spellings of pattern p of kind k.
func spellingsOf(k ref.FKind, p ref.Pat, noise int) []string {
	var out []string
	switch k.Name {
	case "half", "float", "double":
		d := p.Lo
		if k.Name != "double" {
			d = ref.SmallToDouble(k, p.Lo)
		}
		if k.Name == "half" {
			out = append(out, fmt.Sprintf("0xH%04X", p.Lo))
			if noise%2 == 1 {
				out = append(out, fmt.Sprintf("0xH%x", p.Lo))
			}
		}
		out = append(out, fmt.Sprintf("0x%016X", d))
		if noise%3 == 1 {
			out = append(out, fmt.Sprintf("0x%x", d))
		}
		f := math.Float64frombits(d)
		if !math.IsNaN(f) && !math.IsInf(f, 0) {
			out = append(out, fixDot(strconv.FormatFloat(f, 'e', -1, 64)))
			if af := math.Abs(f); af == 0 || (af > 1e-30 && af < 1e30) {
				out = append(out, fixDot(strconv.FormatFloat(f, 'f', -1, 64)))
			}
			if noise%4 == 2 {
				out = append(out, fixDot(strings.ToUpper(strconv.FormatFloat(f, 'e', 20, 64))))
			}
			if noise%5 == 3 && !math.Signbit(f) {
				out = append(out, "+"+fixDot(strconv.FormatFloat(f, 'e', -1, 64)))
			}
		}
	case "x86_fp80":
		out = append(out, fmt.Sprintf("0xK%04X%016X", p.Hi, p.Lo))
		if noise%2 == 1 {
			out = append(out, fmt.Sprintf("0xK%04x%016x", p.Hi, p.Lo))
		}
		if noise%3 == 2 && p.Hi < 0x1000 {
			s := strings.TrimLeft(fmt.Sprintf("%04X%016X", p.Hi, p.Lo), "0")
			if s == "" {
				s = "0"
			}
			out = append(out, "0xK"+s)
		}
	case "fp128", "ppc_fp128":
		pre := "0xL"
		if k.Name == "ppc_fp128" {
			pre = "0xM"
		}
		out = append(out, fmt.Sprintf("%s%016X%016X", pre, p.Hi, p.Lo))
		if noise%2 == 1 {
			out = append(out, fmt.Sprintf("%s%016x%016x", pre, p.Hi, p.Lo))
		}
		if noise%3 == 2 && p.Hi < 1<<48 {
			s := strings.TrimLeft(fmt.Sprintf("%016X%016X", p.Hi, p.Lo), "0")
			if s == "" {
				s = "0"
			}
			out = append(out, pre+s)
		}
	}
	return out
}

func TestHalfExhaustive(t *testing.T) {
	const test = "HalfExhaustive"
	hx.Rule(test, "all 65536 half bit patterns x spellings {0xH, 16-digit double hex, shortest/positional/long decimal when the value is finite}: the printed literal denotes the identical bit pattern under the reference reading (LLVM's rules: decimal is read as a double and must convert losslessly); distinct case = pattern; non-canonical NaN payloads are excluded while known finding KF-C10-nan-payload reproduces (counted)")
	n := 0
	for b := 0; b < 1<<16; b++ {
		if !hx.Mine(b) {
			continue
		}
		p := ref.Pat{Lo: uint64(b)}
		for _, s := range spellingsOf(ref.Half, p, b) {
			checkLiteral(t, test, ref.Half, s)
			n++
		}
		hx.NonTrivialU(16, uint64(b))
		if b%9973 == 0 {
			hx.SampleCase(test, fmt.Sprintf("half %v", spellingsOf(ref.Half, p, b)))
		}
	}
	hx.Eval(n)
	hx.Exhaustive(test, true)
}

// boundaryPats returns structured boundary patterns of kind k.
func boundaryPats(k ref.FKind) []ref.Pat {
	var out []ref.Pat
	switch k.Name {
	case "half", "float", "double":
		fb := uint(k.P - 1)
		eb := uint(k.Bits) - 1 - fb
		emax := uint64(1<<eb - 1)
		var fr []uint64
		for _, f := range []uint64{0, 1, 2, 1 << (fb - 1), 1<<(fb-1) | 1, 1<<fb - 1, 1<<fb - 2, 0x155555 & (1<<fb - 1), 1 << (fb / 2)} {
			fr = append(fr, f)
		}
		for _, e := range []uint64{0, 1, 2, emax / 2, emax/2 + 1, emax/2 - 1, emax - 2, emax - 1, emax} {
			for _, f := range fr {
				for s := uint64(0); s < 2; s++ {
					out = append(out, ref.Pat{Lo: s<<uint(k.Bits-1) | e<<fb | f})
				}
			}
		}
		// powers of ten and small integers
		for _, v := range []float64{1, 2, 3, 10, 100, 1000, 0.5, 0.25, 0.1, 0.3, 1e10, 1e-10, 65504, 65520, 3.4028234663852886e38, 1.401298464324817e-45, 5e-324, 1.7976931348623157e308, 2.2250738585072014e-308, 6.103515625e-05, 5.960464477539063e-08} {
			d := math.Float64bits(v)
			if k.Name == "double" {
				out = append(out, ref.Pat{Lo: d}, ref.Pat{Lo: d | 1<<63})
			} else if b, ok := ref.DoubleToSmall(k, d); ok {
				out = append(out, ref.Pat{Lo: b}, ref.Pat{Lo: b | 1<<uint(k.Bits-1)})
			}
		}
	case "x86_fp80":
		for _, e := range []uint64{0, 1, 2, 0x3FFF, 0x3FFE, 0x4000, 0x7FFE, 0x7FFF} {
			for _, m := range []uint64{0, 1, 0x8000000000000000, 0x8000000000000001, 0xC000000000000000, 0xC000000000000001, 0xFFFFFFFFFFFFFFFF, 0x7FFFFFFFFFFFFFFF, 0x4000000000000000, 0xA000000000000000} {
				for s := uint64(0); s < 2; s++ {
					out = append(out, ref.Pat{Hi: s<<15 | e, Lo: m})
				}
			}
		}
	case "fp128":
		for _, e := range []uint64{0, 1, 0x3FFF, 0x3FFE, 0x4000, 0x7FFE, 0x7FFF} {
			for _, fh := range []uint64{0, 1, 1 << 47, 1<<47 | 1, 1<<48 - 1} {
				for _, fl := range []uint64{0, 1, 1 << 63, ^uint64(0)} {
					for s := uint64(0); s < 2; s++ {
						// LLVM order: first group = low 64 bits, second = high 64 bits
						out = append(out, ref.Pat{Hi: fl, Lo: s<<63 | e<<48 | fh})
					}
				}
			}
		}
	case "ppc_fp128":
		ds := []float64{0, 1, 1.5, 0.1, 1e300, 1e-300, 5e-324, math.MaxFloat64, math.Inf(1), 3, 1e16}
		for _, hi := range ds {
			for _, lo := range []float64{0, 1e-20, 5e-324, 1e-17, 1e284, -1e-20, 0.5, 1, math.Inf(1)} {
				for s := 0; s < 2; s++ {
					h := hi
					if s == 1 {
						h = -hi
					}
					out = append(out, ref.Pat{Hi: math.Float64bits(h), Lo: math.Float64bits(lo)})
					out = append(out, ref.Pat{Hi: math.Float64bits(h), Lo: math.Float64bits(lo * h * 1e-17)})
				}
			}
		}
		out = append(out, ref.Pat{Hi: 0x7FF8000000000000}, ref.Pat{Hi: 0xFFF8000000000000}, ref.Pat{Hi: 0x7FF8000000000001}, ref.Pat{Hi: 0x7FF0000000000001, Lo: 5},
			ref.Pat{Hi: 0x8000000000000000}, ref.Pat{Hi: 0, Lo: 0x8000000000000000})
	}
	out = append(out, embeddedBoundaryPats(k)...)
	return out
}

func TestBoundaryPatterns(t *testing.T) {
	const test = "BoundaryPatterns"
	hx.Rule(test, "for each of the six kinds: structured boundary patterns (signed zeros, min/max subnormal and normal, 1±ulp, powers of two and ten, infinities, quiet/signalling NaNs with payloads, fp80 pseudo encodings, ppc_fp128 pairs) x all spellings; in-process reference reading")
	n := 0
	for ki, k := range ref.FKinds {
		for i, p := range boundaryPats(k) {
			if !hx.Mine(i + ki) {
				continue
			}
			for _, s := range spellingsOf(k, p, i) {
				checkLiteral(t, test, k, s)
				n++
				hx.NonTrivial(k.Name + "/" + s)
			}
			hx.Hist("kind/" + k.Name)
		}
	}
	hx.Eval(n)
}

func genPat(rt *rapid.T, k ref.FKind) ref.Pat {
	if k.Name != "half" && k.Name != "ppc_fp128" && rapid.IntRange(0, 4).Draw(rt, "embedded") == 0 {
		if p, ok := genEmbedded(rt, k); ok {
			hx.Hist("embedded-narrower-kind/" + k.Name)
			return p
		}
	}
	switch k.Name {
	case "half", "float", "double":
		fb := uint(k.P - 1)
		eb := uint(k.Bits) - 1 - fb
		sign := uint64(rapid.IntRange(0, 1).Draw(rt, "sign"))
		var e uint64
		switch rapid.IntRange(0, 5).Draw(rt, "eclass") {
		case 0:
			e = 0
		case 1:
			e = 1<<eb - 1
		case 2:
			e = uint64(rapid.IntRange(1<<(eb-1)-8, 1<<(eb-1)+8).Draw(rt, "e"))
		default:
			e = rapid.Uint64Range(0, 1<<eb-1).Draw(rt, "e")
		}
		var f uint64
		switch rapid.IntRange(0, 3).Draw(rt, "fclass") {
		case 0:
			f = rapid.Uint64Range(0, 1<<fb-1).Draw(rt, "f")
		case 1: // few top bits: short decimal expansions
			f = rapid.Uint64Range(0, 255).Draw(rt, "ftop") << (fb - 8)
		case 2:
			f = 1 << uint(rapid.IntRange(0, int(fb)-1).Draw(rt, "fbit"))
		default:
			f = rapid.SampledFrom([]uint64{0, 1, 1<<fb - 1, 1 << (fb - 1)}).Draw(rt, "fedge")
		}
		return ref.Pat{Lo: sign<<uint(k.Bits-1) | e<<fb | f}
	case "x86_fp80":
		e := rapid.OneOf(rapid.Uint64Range(0, 0x7FFF), rapid.SampledFrom([]uint64{0, 1, 0x3FFF, 0x7FFE, 0x7FFF})).Draw(rt, "e")
		m := rapid.Uint64().Draw(rt, "m")
		if rapid.IntRange(0, 9).Draw(rt, "canon") > 0 { // mostly canonical encodings
			if e == 0 {
				m &^= 1 << 63
			} else {
				m |= 1 << 63
			}
		}
		s := uint64(rapid.IntRange(0, 1).Draw(rt, "sign"))
		return ref.Pat{Hi: s<<15 | e, Lo: m}
	case "fp128":
		e := rapid.OneOf(rapid.Uint64Range(0, 0x7FFF), rapid.SampledFrom([]uint64{0, 1, 0x3FFF, 0x7FFE, 0x7FFF})).Draw(rt, "e")
		fh := rapid.Uint64Range(0, 1<<48-1).Draw(rt, "fh")
		fl := rapid.OneOf(rapid.Uint64(), rapid.Just(uint64(0))).Draw(rt, "fl")
		s := uint64(rapid.IntRange(0, 1).Draw(rt, "sign"))
		return ref.Pat{Hi: fl, Lo: s<<63 | e<<48 | fh}
	default: // ppc_fp128
		hp := genPat(rt, ref.Double)
		hi := math.Float64frombits(hp.Lo)
		var lo float64
		switch rapid.IntRange(0, 3).Draw(rt, "loclass") {
		case 0:
			lo = 0
		case 1: // canonical low part: below half an ulp of hi
			frac := rapid.Float64Range(-0.49, 0.49).Draw(rt, "lofrac")
			ulp := math.Nextafter(math.Abs(hi), math.Inf(1)) - math.Abs(hi)
			lo = frac * ulp
		case 2:
			lo = math.Float64frombits(genPat(rt, ref.Double).Lo)
		default:
			lo = hi
		}
		return ref.Pat{Hi: hp.Lo, Lo: math.Float64bits(lo)}
	}
}

func genKind(rt *rapid.T) ref.FKind {
	return ref.FKinds[rapid.IntRange(0, len(ref.FKinds)-1).Draw(rt, "kind")]
}

// genDecimalDouble draws decimal strings for double, including ones near rounding boundaries.
func genDecimalDouble(rt *rapid.T) string {
	switch rapid.IntRange(0, 3).Draw(rt, "dclass") {
	case 0:
		return rapid.StringMatching(`-?[0-9]{1,25}\.[0-9]{0,25}([eE][-+]?[0-9]{1,3})?`).Draw(rt, "dec")
	case 1: // halfway between two adjacent doubles, nudged
		d := genPat(rt, ref.Double).Lo &^ (1 << 63)
		f := math.Float64frombits(d)
		if math.IsNaN(f) || math.IsInf(f, 0) || f == math.MaxFloat64 {
			return "1.0"
		}
		g := math.Float64frombits(d + 1)
		if math.IsInf(g, 0) {
			return "1.0"
		}
		// exact midpoint via big decimal expansion
		mid := midpointString(f, g)
		switch rapid.IntRange(0, 2).Draw(rt, "nudge") {
		case 0:
			return mid
		case 1:
			return mid + "000000000000000000000000000001"
		default:
			return lowerLastDigit(mid)
		}
	case 2: // subnormal / overflow range
		return fixDot(rapid.StringMatching(`[1-9]\.[0-9]{0,20}`).Draw(rt, "m")) + "e" + strconv.Itoa(rapid.SampledFrom([]int{-330, -324, -323, -320, -310, -308, -307, 307, 308, 309, 400}).Draw(rt, "exp"))
	default:
		f := math.Float64frombits(genPat(rt, ref.Double).Lo)
		if math.IsNaN(f) || math.IsInf(f, 0) {
			return "0.0"
		}
		return fixDot(strconv.FormatFloat(f, 'e', rapid.IntRange(0, 25).Draw(rt, "prec"), 64))
	}
}

// extremeDecimal draws a decimal literal whose magnitude is beyond the range of double in either
// direction: LLVM reads it as infinity or zero, which every kind represents exactly.
func extremeDecimal(rt *rapid.T) string {
	sign := rapid.SampledFrom([]string{"", "-"}).Draw(rt, "xsign")
	m := fixDot(rapid.StringMatching(`[1-9]\.[0-9]{0,6}`).Draw(rt, "xm"))
	e := rapid.SampledFrom([]string{"400", "999", "99999", "99999999999", "-400", "-999", "-99999", "-99999999999"}).Draw(rt, "xexp")
	return sign + m + "e" + e
}

func TestRandomPatterns(t *testing.T) {
	const test = "RandomPatterns"
	hx.Rule(test, "rapid (kind, bit pattern, spelling) triples for all six kinds plus arbitrary decimal strings for double (long, scientific, halfway between adjacent doubles, subnormal and overflow range): printed literal denotes the identical bit pattern under the reference reading; non-trivial = not ±0/±1")
	hx.Check(t, test, hx.N(20000, 500000), func(rt *rapid.T) {
		k := genKind(rt)
		var lit string
		if k.Name == "double" && rapid.IntRange(0, 2).Draw(rt, "decimal") == 0 {
			lit = genDecimalDouble(rt)
			hx.Hist("spelling/random-decimal")
		} else if (k.Name == "half" || k.Name == "float" || k.Name == "double") && rapid.IntRange(0, 40).Draw(rt, "extreme") == 0 {
			lit = extremeDecimal(rt)
			hx.Hist("spelling/decimal-beyond-double-range")
		} else {
			p := genPat(rt, k)
			sp := spellingsOf(k, p, rapid.IntRange(0, 59).Draw(rt, "noise"))
			lit = sp[rapid.IntRange(0, len(sp)-1).Draw(rt, "sp")]
		}
		hx.Eval(1)
		hx.Hist("kind/" + k.Name)
		checkLiteral(rt, test, k, lit)
		hx.NonTrivial(k.Name + "/" + lit)
		hx.SampleCase(test, k.Name+" "+lit)
	})
}

// checkModule: literals as global initialisers; llir parse→print; LLVM reads input and output identically.
func checkModule(t hx.TB, test string, ks []ref.FKind, lits []string) {
	var sb strings.Builder
	for i := range lits {
		fmt.Fprintf(&sb, "@g%d = global %s %s\n", i, ks[i].Name, lits[i])
	}
	in := sb.String()
	rx := llvmx.Canon(in)
	if rx.Crashed {
		hx.Discard("oracle_unavailable")
		return
	}
	if !rx.OK {
		hx.Discard("llvm_rejected_input_batch")
		hx.Note("an input batch was rejected by llvm-as: " + firstLine(rx.Err))
		return
	}
	out, _, err, p := lx.ParsePrint(in)
	if p != nil || err != nil {
		// locate the literal
		for i := range lits {
			one := fmt.Sprintf("@g = global %s %s\n", ks[i].Name, lits[i])
			if _, _, e1, p1 := lx.ParsePrint(one); e1 != nil || p1 != nil {
				hx.Fail(t, test, "ll", one, "LLVM accepts %s literal %q but parse/print fails: %v %s", ks[i].Name, lits[i], e1, p1)
			}
		}
		hx.Fail(t, test, "ll", in, "LLVM accepts the module but parse/print fails: %v %s", err, p)
	}
	ry := llvmx.Canon(out)
	if ry.Crashed {
		hx.Discard("oracle_unavailable")
		return
	}
	if !ry.OK {
		for i := range lits {
			one := fmt.Sprintf("@g = global %s %s\n", ks[i].Name, lits[i])
			o1, _, _, _ := lx.ParsePrint(one)
			if r1 := llvmx.Accept(o1); !r1.OK && !r1.Crashed {
				hx.Fail(t, test, "ll", one, "%s literal %q is printed as text LLVM rejects: %s\n%s", ks[i].Name, lits[i], firstLine(r1.Err), o1)
			}
		}
		hx.Fail(t, test, "ll", in, "LLVM rejects llir's output: %s", firstLine(ry.Err))
	}
	la := strings.Split(llvmx.Normalize(rx.Out), "\n")
	lb := strings.Split(llvmx.Normalize(ry.Out), "\n")
	if len(la) != len(lb) {
		hx.Fail(t, test, "ll", in, "LLVM reads a different number of definitions from input (%d) and output (%d)", len(la), len(lb))
	}
	for i := range la {
		if la[i] != lb[i] {
			idx := -1
			fmt.Sscanf(la[i], "@g%d", &idx)
			one := in
			if idx >= 0 && idx < len(lits) {
				one = fmt.Sprintf("@g%d = global %s %s\n", idx, ks[idx].Name, lits[idx])
			}
			hx.Fail(t, test, "ll", one, "bit pattern changed by parse→print: LLVM reads %q from the input but %q from llir's output", la[i], lb[i])
		}
	}
	hx.HistN("llvm_compared_literals", len(lits))
}

func firstLine(s string) string {
	if i := strings.IndexByte(s, '\n'); i >= 0 {
		return s[:i]
	}
	return s
}

func TestThroughParserAndLLVM(t *testing.T) {
	const test = "ThroughParserAndLLVM"
	hx.Rule(test, "rapid batches of 200 (kind, pattern, spelling) literals as global initialisers of one module: llvm-as|llvm-dis must read the same bit pattern (it prints exact patterns) from the input and from llir's parse→print output; this also decides that a decimal is printed only when LLVM accepts it for the type")
	hx.Check(t, test, hx.N(20, 400), func(rt *rapid.T) {
		var ks []ref.FKind
		var lits []string
		for len(lits) < 200 {
			k := genKind(rt)
			var lit string
			if k.Name == "double" && rapid.IntRange(0, 2).Draw(rt, "decimal") == 0 {
				lit = genDecimalDouble(rt)
			} else {
				p := genPat(rt, k)
				sp := spellingsOf(k, p, rapid.IntRange(0, 59).Draw(rt, "noise"))
				lit = sp[rapid.IntRange(0, len(sp)-1).Draw(rt, "sp")]
			}
			if _, ok, _ := ref.ReadLiteral(k, lit); !ok {
				hx.Discard("generator_produced_invalid_literal")
				continue
			}
			if excluded(k, lit) {
				continue
			}
			ks = append(ks, k)
			lits = append(lits, lit)
			hx.NonTrivial("m/" + k.Name + "/" + lit)
		}
		hx.Eval(len(lits))
		checkModule(rt, test, ks, lits)
		hx.SampleCase(test, fmt.Sprintf("@g0 = global %s %s\n@g1 = global %s %s …", ks[0].Name, lits[0], ks[1].Name, lits[1]))
	})
}

func TestReplay(t *testing.T) {
	path := os.Getenv("VERIF_REPLAY")
	if path == "" {
		t.Skip()
	}
	buf, err := os.ReadFile(path)
	if err != nil {
		t.Fatal(err)
	}
	var ks []ref.FKind
	var lits []string
	for _, line := range strings.Split(string(buf), "\n") {
		f := strings.Fields(line)
		var kn, lit string
		switch {
		case len(f) == 2:
			kn, lit = f[0], f[1]
		case len(f) == 5 && f[2] == "global":
			kn, lit = f[3], f[4]
		default:
			continue
		}
		for _, k := range ref.FKinds {
			if k.Name == kn {
				checkLiteral(t, "Replay", k, lit)
				if excluded(k, lit) {
					continue // an open finding about the printed pattern: only panics and rejections are judged (checkLiteral)
				}
				ks = append(ks, k)
				lits = append(lits, lit)
			}
		}
	}
	if len(lits) > 0 {
		checkModule(t, "Replay", ks, lits)
	}
}
