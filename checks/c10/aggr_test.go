package c10

import (
	"fmt"
	"strings"
	"testing"

	"pgregory.net/rapid"

	"verif/h/hx"
	"verif/h/llvmx"
	"verif/h/lx"
	"verif/h/ref"
)

// zeroSpellings: both signed zeros of a kind in every spelling LLVM accepts for it.
func zeroSpellings(k ref.FKind) (pos, neg []string) {
	switch k.Name {
	case "half":
		return []string{"0xH0000", "0.0", "0.000000e+00", "0x0000000000000000"}, []string{"0xH8000", "-0.0", "-0.000000e+00", "0x8000000000000000"}
	case "float", "double":
		return []string{"0.0", "0.000000e+00", "0x0000000000000000", "0.0e-9"}, []string{"-0.0", "-0.000000e+00", "0x8000000000000000", "-0.0e+3"}
	case "x86_fp80":
		return []string{"0xK00000000000000000000"}, []string{"0xK80000000000000000000"}
	case "fp128":
		return []string{"0xL00000000000000000000000000000000"}, []string{"0xL00000000000000008000000000000000"}
	default: // ppc_fp128
		return []string{"0xM00000000000000000000000000000000"}, []string{"0xM80000000000000000000000000000000"}
	}
}

// checkLines: like checkModule for arbitrary one-line global definitions `@gI = ...`.
func checkLines(t hx.TB, test string, lines []string) bool {
	in := strings.Join(lines, "\n") + "\n"
	rx := llvmx.Canon(in)
	if rx.Crashed {
		hx.Discard("oracle_unavailable")
		return false
	}
	if !rx.OK {
		hx.Discard("llvm_rejected_input_batch")
		hx.Note("an aggregate batch was rejected by llvm-as: " + firstLine(rx.Err))
		return false
	}
	out, _, err, p := lx.ParsePrint(in)
	if p != nil || err != nil {
		for _, l := range lines {
			if _, _, e1, p1 := lx.ParsePrint(l + "\n"); e1 != nil || p1 != nil {
				hx.Fail(t, test, "ll", l+"\n", "LLVM accepts the definition but parse/print fails: %v %s", e1, p1)
			}
		}
		hx.Fail(t, test, "ll", in, "LLVM accepts the module but parse/print fails: %v %s", err, p)
	}
	ry := llvmx.Canon(out)
	if ry.Crashed {
		hx.Discard("oracle_unavailable")
		return false
	}
	if !ry.OK {
		hx.Fail(t, test, "ll", in, "LLVM rejects llir's output: %s", firstLine(ry.Err))
	}
	la := strings.Split(llvmx.Normalize(rx.Out), "\n")
	lb := strings.Split(llvmx.Normalize(ry.Out), "\n")
	if len(la) != len(lb) {
		hx.Fail(t, test, "ll", in, "LLVM reads a different number of definitions from input (%d) and output (%d)", len(la), len(lb))
	}
	for i := range la {
		if la[i] != lb[i] {
			idx := -1
			fmt.Sscanf(la[i], "@g%d", &idx)
			one := in
			if idx >= 0 && idx < len(lines) {
				one = lines[idx] + "\n"
			}
			hx.Fail(t, test, "ll", one, "a bit pattern inside an aggregate constant is changed by parse→print: LLVM reads\n  %s\nfrom the input but\n  %s\nfrom llir's output", la[i], lb[i])
		}
	}
	return true
}

// TestLiteralsInAggregates: the same literals as elements of vector, array and struct constants
// (nested, too). Half of the aggregates hold signed zeros only, the shape for which printers like to
// fall back to `zeroinitializer`.
func TestLiteralsInAggregates(t *testing.T) {
	const test = "LiteralsInAggregates"
	hx.Rule(test, "rapid batches of 60 global initialisers that are vector, array, struct, array-of-vector and array-of-struct constants whose leaves are floating-point literals of one kind (all six kinds, every spelling); half of the aggregates consist of signed zeros only (+0 and -0 mixed, all +0, all -0), the others of drawn bit patterns: llvm-as|llvm-dis must read the same bit patterns from the input and from llir's parse→print output; non-trivial = aggregate containing a negative zero or a non-zero pattern; distinct by text")
	hx.Check(t, test, hx.N(30, 600), func(rt *rapid.T) {
		var lines []string
		for len(lines) < 60 {
			k := genKind(rt)
			zerosOnly := rapid.IntRange(0, 1).Draw(rt, "zerosOnly") == 0
			pos, neg := zeroSpellings(k)
			zmode := rapid.IntRange(0, 3).Draw(rt, "zmode") // 0 mixed, 1 all +0, 2 all -0, 3 mixed
			nontrivial := false
			leaf := func() string {
				if zerosOnly {
					useNeg := zmode == 2 || (zmode != 1 && rapid.IntRange(0, 1).Draw(rt, "neg") == 1)
					if useNeg {
						nontrivial = true
						return rapid.SampledFrom(neg).Draw(rt, "nz")
					}
					return rapid.SampledFrom(pos).Draw(rt, "pz")
				}
				for tries := 0; tries < 20; tries++ {
					p := genPat(rt, k)
					sp := spellingsOf(k, p, rapid.IntRange(0, 59).Draw(rt, "noise"))
					lit := sp[rapid.IntRange(0, len(sp)-1).Draw(rt, "sp")]
					if _, ok, _ := ref.ReadLiteral(k, lit); ok && !excluded(k, lit) {
						nontrivial = true
						return lit
					}
				}
				return pos[0]
			}
			tl := func() string { return k.Name + " " + leaf() }
			list := func(n int, f func() string) string {
				var xs []string
				for i := 0; i < n; i++ {
					xs = append(xs, f())
				}
				return strings.Join(xs, ", ")
			}
			n := rapid.IntRange(1, 4).Draw(rt, "n")
			var ty, c string
			switch rapid.IntRange(0, 5).Draw(rt, "shape") {
			case 0:
				ty, c = fmt.Sprintf("<%d x %s>", n, k.Name), "<"+list(n, tl)+">"
			case 1:
				ty, c = fmt.Sprintf("[%d x %s]", n, k.Name), "["+list(n, tl)+"]"
			case 2:
				ty, c = "{ "+list(n, func() string { return k.Name })+", i32 }", "{ "+list(n, tl)+", i32 0 }"
			case 3:
				ty, c = "<{ "+list(n, func() string { return k.Name })+" }>", "<{ "+list(n, tl)+" }>"
			case 4:
				vt := fmt.Sprintf("<2 x %s>", k.Name)
				ty, c = fmt.Sprintf("[%d x %s]", n, vt), "["+list(n, func() string { return vt + " <" + list(2, tl) + ">" })+"]"
			default:
				st := fmt.Sprintf("{ %s, [2 x %s] }", k.Name, k.Name)
				ty, c = fmt.Sprintf("[%d x %s]", n, st), "["+list(n, func() string {
					return st + " { " + tl() + ", [2 x " + k.Name + "] [" + list(2, tl) + "] }"
				})+"]"
			}
			line := fmt.Sprintf("@g%d = global %s %s", len(lines), ty, c)
			lines = append(lines, line)
			if nontrivial {
				hx.NonTrivial(line)
			}
			if zerosOnly {
				hx.Hist("aggregate/signed_zeros_only")
			} else {
				hx.Hist("aggregate/drawn_patterns")
			}
		}
		hx.Eval(len(lines))
		if checkLines(rt, test, lines) {
			hx.HistN("llvm_compared_aggregates", len(lines))
		}
		hx.SampleCase(test, lines[0]+"\n"+lines[1]+" …")
	})
}
