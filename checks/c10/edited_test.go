package c10

import (
	"fmt"
	"math/big"
	"testing"

	"github.com/llir/llvm/ir/constant"
	"pgregory.net/rapid"

	"verif/h/hx"
	"verif/h/lx"
	"verif/h/ref"
)

func flipSign(k ref.FKind, p ref.Pat) ref.Pat {
	switch k.Name {
	case "half":
		p.Lo ^= 0x8000
	case "float":
		p.Lo ^= 0x80000000
	case "double":
		p.Lo ^= 1 << 63
	case "x86_fp80":
		p.Hi ^= 0x8000
	case "fp128":
		p.Lo ^= 1 << 63 // the literal lists the low 64 bits first: Lo holds the high half
	}
	return p
}


func cmpPat(mask, p ref.Pat) bool { return p.Hi&mask.Hi != 0 || p.Lo&mask.Lo != 0 }

// TestPrintFollowsTheSign: the sign of a floating-point constant (of a NaN, too) lives in the exported
// big.Float. A parsed constant is printed, its sign is changed through the API (Neg in place, assignment
// of the negated or absolute value), and it is printed again: the printed literal must carry the sign the
// constant has at that moment and the same magnitude (or canonical NaN) as before.
func TestPrintFollowsTheSign(t *testing.T) {
	const test = "PrintFollowsTheSign"
	hx.Rule(test, "stateful: a literal of kind half, float, double, x86_fp80 or fp128 (boundary and drawn patterns incl. zeros, infinities and the canonical NaN; non-canonical NaNs and invalid x87 encodings are open known findings and excluded) is parsed inside a module, the module is printed, then 1..3 sign edits are applied to the constant through the API (X.Neg(X) in place; X = new(big.Float).Neg(X); X = Abs(X)), each followed by Ident() and Module.String(): the literal printed after each edit, under the reference reading, is the original bit pattern with the sign bit the constant now has; non-trivial = all judged cases")
	kinds := []ref.FKind{ref.Half, ref.Float, ref.Double, ref.X86FP80, ref.FP128}
	hx.Check(t, test, hx.N(400, 20000), func(rt *rapid.T) {
		k := kinds[rapid.IntRange(0, len(kinds)-1).Draw(rt, "kind")]
		var p ref.Pat
		if rapid.Bool().Draw(rt, "boundary") {
			bs := boundaryPats(k)
			p = bs[rapid.IntRange(0, len(bs)-1).Draw(rt, "bp")]
		} else {
			p = genPat(rt, k)
		}
		sp := spellingsOf(k, p, rapid.IntRange(0, 59).Draw(rt, "noise"))
		lit := sp[rapid.IntRange(0, len(sp)-1).Draw(rt, "sp")]
		p0, ok, _ := ref.ReadLiteral(k, lit)
		if !ok || excluded(k, lit) {
			hx.Discard("literal_outside_domain_or_known_finding")
			return
		}
		// the same literal stands at three more places: another global and the two elements of an array. They are
		// not edited and must keep the original pattern whatever happens to the constant of @g
		text := fmt.Sprintf("@g = global %s %s\n@twin = global %s %s\n@pair = global [2 x %s] [%s %s, %s %s]\n", k.Name, lit, k.Name, lit, k.Name, k.Name, lit, k.Name, lit)
		m, err, pp := lx.Parse(text)
		if err != nil || pp != nil {
			hx.Discard("literal_not_accepted(judged_elsewhere)")
			return
		}
		c := m.Globals[0].Init.(*constant.Float)
		hx.Eval(1)
		desc := fmt.Sprintf("%s %s (pattern %s)\n", k.Name, lit, p0)
		var base *ref.Pat // what the literal prints as before any edit
		read := func(step string) ref.Pat {
			l1 := c.Ident()
			out, _ := lx.Print(m)
			m2, e2, p2 := lx.Parse(out)
			if e2 != nil || p2 != nil {
				hx.Fail(rt, test, "txt", desc, "%safter %s the printed module is not accepted by the parser: %v %v\n%s", desc, step, e2, p2, out)
			}
			l2 := m2.Globals[0].Init.(*constant.Float).Ident()
			others := []constant.Constant{m2.Globals[1].Init}
			if arr, ok := m2.Globals[2].Init.(*constant.Array); ok {
				others = append(others, arr.Elems...)
			}
			for i, o := range others {
				of, isF := o.(*constant.Float)
				if !isF {
					continue
				}
				// (what the literal is printed as right after parsing is the reference: for an x87 pseudo-denormal
				// that is the normal encoding of the same number, see x87Value)
				if g, ok, _ := ref.ReadLiteral(k, of.Ident()); base != nil && (!ok || g != *base) {
					hx.Fail(rt, test, "txt", desc, "%safter %s (an edit of the constant of @g only) the same literal at another place (%d) prints %q = %s; it was not edited and printed as %s before", desc, step, i, of.Ident(), g, *base)
				}
			}
			g1, ok1, _ := ref.ReadLiteral(k, l1)
			g2, ok2, _ := ref.ReadLiteral(k, l2)
			if !ok1 || !ok2 || g1 != g2 {
				hx.Fail(rt, test, "txt", desc, "%safter %s Ident() gives %q and the module prints %q", desc, step, l1, l2)
			}
			if base == nil {
				b := g1
				base = &b
			}
			return g1
		}
		if g := read("parsing"); g != p0 {
			hx.Discard("parse_print_changes_the_pattern(judged_by_ThroughParser)")
			return
		}
		want := p0
		neg := cmpPat(flipSign(k, ref.Pat{}), p0)
		for n := rapid.IntRange(1, 3).Draw(rt, "edits"); n > 0; n-- {
			var step string
			switch rapid.IntRange(0, 2).Draw(rt, "edit") {
			case 0:
				c.X.Neg(c.X)
				neg = !neg
				step = "X.Neg(X)"
			case 1:
				c.X = new(big.Float).Neg(c.X)
				neg = !neg
				step = "X = new(big.Float).Neg(X)"
			default:
				c.X = new(big.Float).Abs(c.X)
				neg = false
				step = "X = new(big.Float).Abs(X)"
			}
			if cmpPat(flipSign(k, ref.Pat{}), want) != neg {
				want = flipSign(k, want)
			}
			if got := read(step); got != want {
				hx.Fail(rt, test, "txt", desc, "%safter %s the constant prints bit pattern %s, want %s (only the sign changes)", desc, step, got, want)
			}
		}
		hx.NonTrivial(desc)
		hx.Hist("kind/" + k.Name)
	})
}
