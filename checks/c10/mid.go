package c10

import (
	"math/big"
	"strings"
)

// midpointString returns the exact decimal expansion of (f+g)/2.
func midpointString(f, g float64) string {
	a := new(big.Float).SetPrec(2000).SetFloat64(f)
	b := new(big.Float).SetPrec(2000).SetFloat64(g)
	a.Add(a, b)
	a.Quo(a, big.NewFloat(2))
	s := a.Text('f', 1100)
	if strings.Contains(s, ".") {
		s = strings.TrimRight(s, "0")
		if strings.HasSuffix(s, ".") {
			s += "0"
		}
	}
	return s
}

// lowerLastDigit decrements the last non-zero digit of a positional decimal (moves just below it).
func lowerLastDigit(s string) string {
	b := []byte(s)
	for i := len(b) - 1; i >= 0; i-- {
		if b[i] >= '1' && b[i] <= '9' {
			b[i]--
			return string(b) + "999999999999"
		}
	}
	return s
}
