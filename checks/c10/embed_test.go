package c10

import (
	"pgregory.net/rapid"

	"verif/h/ref"
)

// Values of a narrower kind written as literals of a wider kind (what constant folding of fpext produces):
// the exponent sits at the *narrower* kind's limits, the fraction uses only its top bits. Neither the wider
// kind's own boundary values nor uniformly drawn patterns get there (one exponent field in 32 768 for fp128).

// embedPat builds the pattern of kind k for (-1)^sign * 1.f * 2^e, f given left-aligned in 64 bits
// (bit 63 is the first fraction bit). ok is false when e is outside k's normal range.
func embedPat(k ref.FKind, sign uint64, e int, ftop uint64) (ref.Pat, bool) {
	if e < k.EMin || e > k.EMax {
		return ref.Pat{}, false
	}
	switch k.Name {
	case "half", "float", "double":
		fb := uint(k.P - 1)
		return ref.Pat{Lo: sign<<uint(k.Bits-1) | uint64(e+k.EMax)<<fb | ftop>>(64-fb)}, true
	case "x86_fp80":
		return ref.Pat{Hi: sign<<15 | uint64(e+16383), Lo: 1<<63 | ftop>>1}, true
	case "fp128":
		return ref.Pat{Hi: ftop << 48, Lo: sign<<63 | uint64(e+16383)<<48 | ftop>>16}, true
	}
	return ref.Pat{}, false
}

// narrowerThan lists the kinds whose values k holds exactly.
func narrowerThan(k ref.FKind) []ref.FKind {
	var out []ref.FKind
	for _, j := range []ref.FKind{ref.Half, ref.Float, ref.Double, ref.X86FP80} {
		if j.P < k.P && j.Name != k.Name && (k.Name == "half" || k.Name == "float" || k.Name == "double" || k.Name == "x86_fp80" || k.Name == "fp128") {
			out = append(out, j)
		}
	}
	return out
}

// embedExps are the exponents around the limits of the narrower kind j: its smallest subnormal, the step
// below and above its smallest normal (where a re-biased exponent field becomes 0), its largest finite value
// and the step beyond it.
func embedExps(j ref.FKind) []int {
	sub := j.EMin - (j.P - 1)
	return []int{sub - 1, sub, sub + 1, j.EMin - 2, j.EMin - 1, j.EMin, j.EMin + 1, j.EMax - 1, j.EMax, j.EMax + 1, j.EMax + 2}
}

func embeddedBoundaryPats(k ref.FKind) []ref.Pat {
	var out []ref.Pat
	for _, j := range narrowerThan(k) {
		fbj := uint(j.P - 1)
		for _, e := range embedExps(j) {
			for _, f := range []uint64{0, 1 << 63, 3 << 62, 1 << (64 - fbj), ^uint64(0) << (64 - fbj), 1<<63 | 1<<(64-fbj)} {
				for s := uint64(0); s < 2; s++ {
					if p, ok := embedPat(k, s, e, f); ok {
						out = append(out, p)
					}
				}
			}
		}
	}
	return out
}

// genEmbedded draws a value of a narrower kind, near one of its exponent limits or anywhere in its range.
func genEmbedded(rt *rapid.T, k ref.FKind) (ref.Pat, bool) {
	js := narrowerThan(k)
	if len(js) == 0 {
		return ref.Pat{}, false
	}
	j := js[rapid.IntRange(0, len(js)-1).Draw(rt, "narrower")]
	var e int
	if rapid.IntRange(0, 3).Draw(rt, "eNear") > 0 {
		es := embedExps(j)
		e = es[rapid.IntRange(0, len(es)-1).Draw(rt, "eLimit")] + rapid.IntRange(-1, 1).Draw(rt, "eOff")
	} else {
		e = rapid.IntRange(j.EMin-(j.P-1), j.EMax).Draw(rt, "eAny")
	}
	fbj := uint(j.P - 1)
	f := rapid.Uint64().Draw(rt, "fEmb") &^ (1<<(64-fbj) - 1)
	s := uint64(rapid.IntRange(0, 1).Draw(rt, "sign"))
	return embedPat(k, s, e, f)
}
