package c09

import (
	"fmt"
	"math/big"
	"testing"

	"github.com/llir/llvm/ir/constant"
	"github.com/llir/llvm/ir/types"
	"pgregory.net/rapid"

	"verif/h/hx"
	"verif/h/lx"
)

// TestPrintFollowsTheValue: the literal printed for a constant is a function of its current value. A
// constant is printed, its exported big.Int is changed (in place, as `c.X.Add(c.X, ...)`, or by assigning
// another big.Int) and it is printed again, alone and inside its module: each time the printed literal
// must denote the value X holds at that moment.
func TestPrintFollowsTheValue(t *testing.T) {
	const test = "PrintFollowsTheValue"
	hx.Rule(test, "stateful: a constant (built with NewInt/NewIntFromString or taken from a parsed module; width and value drawn as in RandomValues) goes through 2..6 steps, each an edit of X (Add, Neg, Rsh, Lsh, SetInt64 in place; assignment of a new big.Int; a value of another digit count or entropy class so that the decimal/hex choice flips) followed by Ident() and, for parsed constants, Module.String(): the literal printed after each step, read by the reference reading, equals X modulo 2^w at that moment; non-trivial = all cases")
	hx.Check(t, test, hx.N(400, 20000), func(rt *rapid.T) {
		w, v := genWV(rt)
		if w == 1 {
			w, v = 8, big.NewInt(1)
		}
		typ := types.NewInt(uint64(w))
		parsed := rapid.Bool().Draw(rt, "fromParser")
		var c *constant.Int
		var print func() string
		if parsed {
			text := fmt.Sprintf("@g = global i%d %s\n", w, v.String())
			m, err, p := lx.Parse(text)
			if err != nil || p != nil {
				hx.Discard("literal_not_accepted(judged_elsewhere)")
				return
			}
			c = m.Globals[0].Init.(*constant.Int)
			print = func() string {
				s, _ := lx.Print(m)
				pm, err, p := lx.Parse(s)
				if err != nil || p != nil {
					return "unparsable: " + s
				}
				return pm.Globals[0].Init.(*constant.Int).Ident()
			}
		} else {
			c = constant.NewInt(typ, 0)
			c.X = new(big.Int).Set(v)
			print = func() string { return c.Ident() }
		}
		hx.Eval(1)
		desc := fmt.Sprintf("i%d %s (from parser: %v)\n", w, v, parsed)
		check := func(step string) {
			lit := print()
			got := denote(w, lit)
			if got == nil || !sameMod(w, got, c.X) {
				hx.Fail(rt, test, "txt", desc, "%safter %s the constant holds X=%s but prints %q (which denotes %v)", desc, step, c.X, lit, got)
			}
		}
		check("construction")
		for n := rapid.IntRange(2, 6).Draw(rt, "steps"); n > 0; n-- {
			var step string
			switch rapid.IntRange(0, 6).Draw(rt, "edit") {
			case 0:
				d := int64(rapid.IntRange(1, 1000003).Draw(rt, "d"))
				c.X.Add(c.X, big.NewInt(d))
				step = fmt.Sprintf("X.Add(X, %d)", d)
			case 1:
				c.X.Neg(c.X)
				step = "X.Neg(X)"
			case 2:
				k := uint(rapid.IntRange(1, 9).Draw(rt, "k"))
				c.X.Rsh(c.X, k)
				step = fmt.Sprintf("X.Rsh(X, %d)", k)
			case 3:
				k := uint(rapid.IntRange(1, 9).Draw(rt, "k"))
				c.X.Lsh(c.X, k)
				step = fmt.Sprintf("X.Lsh(X, %d)", k)
			case 4:
				d := int64(rapid.IntRange(-300, 300).Draw(rt, "d"))
				c.X.SetInt64(d)
				step = fmt.Sprintf("X.SetInt64(%d)", d)
			case 5:
				_, nv := genWVFor(rt, w)
				c.X = nv
				step = fmt.Sprintf("X = %s (new big.Int)", nv)
			default:
				_, nv := genWVFor(rt, w)
				c.X.Set(nv)
				step = fmt.Sprintf("X.Set(%s)", nv)
			}
			// keep the value inside the type's range [-2^(w-1), 2^w)
			lo := new(big.Int).Neg(pow2(w - 1))
			if c.X.Cmp(pow2(w)) >= 0 || c.X.Cmp(lo) < 0 {
				c.X.Mod(c.X, pow2(w))
				step += " reduced modulo 2^w in place"
			}
			check(step)
		}
		hx.NonTrivial(desc + fmt.Sprint(c.X))
	})
}

func sameMod(w uint, a, b *big.Int) bool {
	m := pow2(w)
	x := new(big.Int).Mod(a, m)
	y := new(big.Int).Mod(b, m)
	return x.Cmp(y) == 0
}

// genWVFor draws a value for the given width with the value classes of genWV.
func genWVFor(rt *rapid.T, w uint) (uint, *big.Int) {
	for i := 0; i < 8; i++ {
		w2, v := genWV(rt)
		if w2 == w {
			return w, v
		}
		if v.BitLen() < int(w) {
			return w, v
		}
	}
	return w, big.NewInt(int64(rapid.IntRange(0, 1).Draw(rt, "smallv")))
}
