package c09

import (
	"fmt"
	"math/big"
	"os"
	"regexp"
	"strconv"
	"strings"
	"testing"

	"github.com/llir/llvm/ir/constant"
	"github.com/llir/llvm/ir/types"
	"pgregory.net/rapid"

	"verif/h/hx"
	"verif/h/llvmx"
	"verif/h/lx"
)

func TestMain(m *testing.M) { hx.Main(m, "C09", nil) }

var one = big.NewInt(1)

func pow2(n uint) *big.Int { return new(big.Int).Lsh(one, n) }

func modW(x *big.Int, w uint) *big.Int { return new(big.Int).Mod(x, pow2(w)) } // Euclidean: result in [0,2^w)

// spelling is one way to write a value of width w.
type spelling struct {
	kind string
	text string
	want *big.Int // the mathematical value the notation denotes
}

// spellings returns accepted notations of value v (in [-2^(w-1), 2^w)) at width w.
// noise selects leading zeros / letter case variants.
func spellings(w uint, v *big.Int, noise int) []spelling {
	var out []spelling
	out = append(out, spelling{"dec", v.String(), new(big.Int).Set(v)})
	u := modW(v, w)
	hexU := strings.ToUpper(u.Text(16))
	hexL := u.Text(16)
	zeros := strings.Repeat("0", noise%3)
	if zeros != "" {
		// redundant leading zeros are decimal digits, not an octal marker (LLLexer: [-]?[0-9]+)
		sign, abs := "", new(big.Int).Abs(v)
		if v.Sign() < 0 {
			sign = "-"
		}
		out = append(out, spelling{"dec-leading-zeros", sign + zeros + abs.String(), new(big.Int).Set(v)})
	}
	if v.Sign() >= 0 {
		out = append(out, spelling{"u0x", "u0x" + hexU, new(big.Int).Set(v)})
		out = append(out, spelling{"u0x-lower", "u0x" + zeros + hexL, new(big.Int).Set(v)})
	}
	// s0x: two's complement by type width. The bit pattern u denotes u if bit w-1 is clear, u-2^w otherwise.
	sv := new(big.Int).Set(u)
	if u.Bit(int(w)-1) == 1 {
		sv.Sub(sv, pow2(w))
	}
	out = append(out, spelling{"s0x", "s0x" + hexU, sv})
	out = append(out, spelling{"s0x-lower", "s0x" + zeros + hexL, new(big.Int).Set(sv)})
	if w == 1 {
		if u.Sign() == 0 {
			out = append(out, spelling{"bool", "false", big.NewInt(0)})
		} else {
			out = append(out, spelling{"bool", "true", big.NewInt(1)})
		}
	}
	return out
}

func caseStr(w uint, v *big.Int, lit string) string {
	return fmt.Sprintf("i%d %s %s\n", w, v.String(), lit)
}

// checkValue runs the in-process oracles on one (width, value).
func checkValue(t hx.TB, test string, w uint, v *big.Int, noise int) {
	typ := types.NewInt(uint64(w))
	// (1) the printer's own choice parses back to the same value.
	c := &constant.Int{Typ: typ, X: new(big.Int).Set(v)}
	var id string
	if p := lx.Guard(func() { id = c.Ident() }); p != nil {
		hx.Fail(t, test, "txt", caseStr(w, v, "<Ident>"), "printing i%d value %s panics: %v", w, v, p.Val)
	}
	var back *constant.Int
	var err error
	if p := lx.Guard(func() { back, err = constant.NewIntFromString(typ, id) }); p != nil || err != nil {
		hx.Fail(t, test, "txt", caseStr(w, v, id), "printed literal %q of i%d %s is not accepted: %v %v", id, w, v, err, p)
	}
	if modW(back.X, w).Cmp(modW(v, w)) != 0 {
		hx.Fail(t, test, "txt", caseStr(w, v, id), "i%d value %s prints as %q, which parses back to %s", w, v, id, back.X)
	}
	switch {
	case strings.HasPrefix(id, "u0x"):
		hx.Hist("printer_chose/hex")
	case id == "true" || id == "false":
		hx.Hist("printer_chose/bool")
	default:
		hx.Hist("printer_chose/decimal")
	}
	// (2) every accepted notation denotes the mathematically correct value.
	for _, sp := range spellings(w, v, noise) {
		var got *constant.Int
		if p := lx.Guard(func() { got, err = constant.NewIntFromString(typ, sp.text) }); p != nil || err != nil {
			hx.Fail(t, test, "txt", caseStr(w, v, sp.text), "literal %q (i%d) is not accepted: %v %v", sp.text, w, err, p)
		}
		// same value of the w-bit type (i8 255 and i8 -1 are one value); for w > 1 the library keeps the spelling's own integer
		if modW(got.X, w).Cmp(modW(sp.want, w)) != 0 || w > 1 && got.X.Cmp(sp.want) != 0 {
			hx.Fail(t, test, "txt", caseStr(w, v, sp.text), "i%d literal %q denotes %s but is read as %s", w, sp.text, sp.want, got.X)
		}
		hx.Hist("spelling/" + sp.kind)
		// and the value read prints to something that reads back to the same value (mod 2^w)
		var id2 string
		if p := lx.Guard(func() { id2 = got.Ident() }); p != nil {
			hx.Fail(t, test, "txt", caseStr(w, v, sp.text), "i%d literal %q is read as %s, which cannot be printed: %v", w, sp.text, got.X, p.Val)
		}
		b2, err2 := constant.NewIntFromString(typ, id2)
		if err2 != nil || modW(b2.X, w).Cmp(modW(sp.want, w)) != 0 {
			hx.Fail(t, test, "txt", caseStr(w, v, sp.text), "i%d literal %q → %q → %v (err %v): value changed", w, sp.text, id2, b2, err2)
		}
	}
}

func TestExhaustiveSmallWidths(t *testing.T) {
	const test = "ExhaustiveSmallWidths"
	maxW := uint(hx.N(13, 17))
	hx.Rule(test, fmt.Sprintf("all widths 1..%d x all values in [-2^(w-1), 2^w) x notations {decimal, u0x upper/lower/leading zeros, s0x upper/lower, true/false}: Ident() parses back to the same value mod 2^w; every notation is read as the value it denotes (s0x = two's complement by type width); distinct non-trivial case = (width, value) with value outside [0,9]", maxW))
	n := 0
	for w := uint(1); w <= maxW; w++ {
		lo := new(big.Int).Neg(pow2(w - 1))
		hi := pow2(w)
		i := 0
		for v := new(big.Int).Set(lo); v.Cmp(hi) < 0; v.Add(v, one) {
			i++
			if !hx.Mine(i) {
				continue
			}
			checkValue(t, test, w, v, i)
			n++
			if v.Sign() < 0 || v.Cmp(big.NewInt(9)) > 0 {
				hx.NonTrivialU(uint64(w), uint64(v.Int64()))
			}
			if i%7919 == 0 {
				hx.SampleCase(test, caseStr(w, v, fmt.Sprint(spellings(w, v, i))))
			}
		}
	}
	hx.Eval(n)
	hx.Exhaustive(test, true)
}

// interesting values at width w: boundaries, powers of two, repdigits and low-entropy hex patterns
// that drive the printer's decimal-versus-hex heuristic.
func boundaryValues(w uint) []*big.Int {
	var out []*big.Int
	add := func(x *big.Int) {
		lo := new(big.Int).Neg(pow2(w - 1))
		if x.Cmp(lo) >= 0 && x.Cmp(pow2(w)) < 0 {
			out = append(out, x)
		}
	}
	for _, k := range []int64{0, 1, 2, 9, 10, 0xFFF, 0x1000, 0x1001, 0xFFFF, 0x10000, 0x7FFFFFFF, 0x80000000, 0xFFFFFFFF, 0x100000000} {
		add(big.NewInt(k))
		add(big.NewInt(-k))
	}
	for k := uint(0); k <= w; k++ {
		p := pow2(k)
		add(p)
		add(new(big.Int).Sub(p, one))
		add(new(big.Int).Add(p, one))
		add(new(big.Int).Neg(p))
		add(new(big.Int).Neg(new(big.Int).Add(p, one)))
	}
	// repdigits and two-digit patterns in hex
	nd := int(w+3) / 4
	for _, d := range []string{"1", "7", "8", "A", "F", "0F", "F0", "80", "55", "DEADBEEF", "0123456789ABCDEF"} {
		for _, l := range []int{nd, nd - 1, nd / 2, 4, 5, 8, 16} {
			if l <= 0 {
				continue
			}
			s := strings.Repeat(d, l/len(d)+1)[:l]
			x, _ := new(big.Int).SetString(s, 16)
			add(x)
			y, _ := new(big.Int).SetString("8"+strings.Repeat("0", l-1), 16)
			add(y)
		}
	}
	return out
}

func TestBoundaryLargeWidths(t *testing.T) {
	const test = "BoundaryLargeWidths"
	hx.Rule(test, "widths {14..128, 255,256,257,511,512,1000,1024,4096,65535} x boundary values (0, ±1, ±2^k, 2^k±1, min, max, 0x1000 neighbours, hex repdigits and low-entropy patterns): same oracles as the exhaustive part")
	var ws []uint
	for w := uint(14); w <= 128; w++ {
		ws = append(ws, w)
	}
	ws = append(ws, 255, 256, 257, 511, 512, 1000, 1024, 4096, 65535)
	n := 0
	for wi, w := range ws {
		if !hx.Mine(wi) {
			continue
		}
		if w > 4096 && !hx.Thorough() {
			continue
		}
		for i, v := range boundaryValues(w) {
			checkValue(t, test, w, v, i)
			n++
			hx.NonTrivial(fmt.Sprintf("b/%d/%s", w, v))
		}
		hx.Hist(fmt.Sprintf("width/%d", w))
	}
	hx.Eval(n)
}

// genWV draws a width and a value in range, biased to shapes that matter.
func genWV(rt *rapid.T) (uint, *big.Int) {
	w := uint(rapid.OneOf(rapid.IntRange(1, 70), rapid.IntRange(71, 1024), rapid.SampledFrom([]int{8, 16, 32, 64, 128, 256})).Draw(rt, "w"))
	nd := int(w+3) / 4
	kind := rapid.IntRange(0, 4).Draw(rt, "kind")
	var u *big.Int
	switch kind {
	case 0: // random bits
		bs := rapid.SliceOfN(rapid.Byte(), (int(w)+7)/8, (int(w)+7)/8).Draw(rt, "bytes")
		u = new(big.Int).SetBytes(bs)
	case 1: // few distinct hex digits (low hex entropy)
		digs := rapid.SliceOfN(rapid.SampledFrom([]byte("0123456789ABCDEF")), 1, 3).Draw(rt, "digits")
		l := rapid.IntRange(1, nd).Draw(rt, "len")
		var sb strings.Builder
		for i := 0; i < l; i++ {
			sb.WriteByte(digs[rapid.IntRange(0, len(digs)-1).Draw(rt, "d")])
		}
		u, _ = new(big.Int).SetString(sb.String(), 16)
	case 2: // few distinct decimal digits
		l := rapid.IntRange(1, 30).Draw(rt, "len")
		digs := rapid.SliceOfN(rapid.SampledFrom([]byte("0123456789")), 1, 2).Draw(rt, "digits")
		var sb strings.Builder
		for i := 0; i < l; i++ {
			sb.WriteByte(digs[rapid.IntRange(0, len(digs)-1).Draw(rt, "d")])
		}
		u, _ = new(big.Int).SetString(sb.String(), 10)
	case 3: // 2^k + small
		k := rapid.IntRange(0, int(w)).Draw(rt, "k")
		u = new(big.Int).Add(pow2(uint(k)), big.NewInt(int64(rapid.IntRange(-3, 3).Draw(rt, "off"))))
	default: // small
		u = big.NewInt(int64(rapid.IntRange(0, 70000).Draw(rt, "small")))
	}
	u = modW(u, w)
	v := u
	// negative reading when the sign bit is set (sometimes)
	if u.Bit(int(w)-1) == 1 && rapid.Bool().Draw(rt, "neg") {
		v = new(big.Int).Sub(u, pow2(w))
	}
	return w, v
}

func TestRandomValues(t *testing.T) {
	const test = "RandomValues"
	hx.Rule(test, "rapid (width 1..1024, value) pairs biased to low-entropy hex/decimal digit patterns, powers of two and random bits; same oracles; non-trivial = value >= 0x1000 or negative")
	hx.Check(t, test, hx.N(6000, 150000), func(rt *rapid.T) {
		w, v := genWV(rt)
		noise := rapid.IntRange(0, 2).Draw(rt, "noise")
		hx.Eval(1)
		checkValue(rt, test, w, v, noise)
		if v.Sign() < 0 || v.Cmp(big.NewInt(0x1000)) >= 0 {
			hx.NonTrivial(fmt.Sprintf("r/%d/%s", w, v))
		}
		hx.SampleCase(test, caseStr(w, v, ""))
	})
}

var reGlobalInt = regexp.MustCompile(`^@g(\d+) = global i(\d+) (-?\d+)`)

// checkModule puts literals into a module of globals and checks llir's reading through the
// parser, the print→parse round trip, and (for decimal and u0x spellings) LLVM's reading.
func checkModule(t hx.TB, test string, ws []uint, vs []*big.Int, lits []spelling, useLLVM bool) {
	var sb strings.Builder
	for i := range lits {
		fmt.Fprintf(&sb, "@g%d = global i%d %s\n", i, ws[i], lits[i].text)
	}
	in := sb.String()
	m, err, p := lx.Parse(in)
	if p != nil || err != nil {
		hx.Fail(t, test, "ll", in, "module of integer literals is not accepted: %v %s", err, p)
	}
	for i, g := range m.Globals {
		ci, ok := g.Init.(*constant.Int)
		if !ok {
			hx.Fail(t, test, "ll", in, "global %d: initialiser is %T", i, g.Init)
		}
		if modW(ci.X, ws[i]).Cmp(modW(lits[i].want, ws[i])) != 0 || ws[i] > 1 && ci.X.Cmp(lits[i].want) != 0 {
			one := fmt.Sprintf("@g%d = global i%d %s\n", i, ws[i], lits[i].text)
			hx.Fail(t, test, "ll", one, "i%d literal %q denotes %s but the parser reads %s", ws[i], lits[i].text, lits[i].want, ci.X)
		}
	}
	out, pp := lx.Print(m)
	if pp != nil {
		// find the culprit
		for i, g := range m.Globals {
			if p1 := lx.Guard(func() { _ = g.LLString() }); p1 != nil {
				one := fmt.Sprintf("@g%d = global i%d %s\n", i, ws[i], lits[i].text)
				hx.Fail(t, test, "ll", one, "printing the parsed module panics on i%d %s: %v", ws[i], lits[i].text, p1.Val)
			}
		}
		hx.Fail(t, test, "ll", in, "printing the parsed module panics: %s", pp)
	}
	m2, err2, p2 := lx.Parse(out)
	if p2 != nil || err2 != nil {
		hx.Fail(t, test, "ll", in, "printed module is not accepted: %v %s\n%s", err2, p2, out)
	}
	for i, g := range m2.Globals {
		ci := g.Init.(*constant.Int)
		if modW(ci.X, ws[i]).Cmp(modW(lits[i].want, ws[i])) != 0 {
			one := fmt.Sprintf("@g%d = global i%d %s\n", i, ws[i], lits[i].text)
			hx.Fail(t, test, "ll", one, "i%d literal %q: value %s after print→parse", ws[i], lits[i].text, ci.X)
		}
	}
	if !useLLVM {
		return
	}
	ry := llvmx.Canon(out)
	if ry.Crashed {
		hx.Discard("oracle_unavailable")
		return
	}
	if !ry.OK {
		hx.Fail(t, test, "ll", in, "LLVM rejects llir's output: %s\n%s", ry.Err, out)
	}
	seen := 0
	for _, line := range strings.Split(ry.Out, "\n") {
		mm := reGlobalInt.FindStringSubmatch(line)
		if mm == nil {
			continue
		}
		i, _ := strconv.Atoi(mm[1])
		x, _ := new(big.Int).SetString(mm[3], 10)
		seen++
		if modW(x, ws[i]).Cmp(modW(lits[i].want, ws[i])) != 0 {
			one := fmt.Sprintf("@g%d = global i%d %s\n", i, ws[i], lits[i].text)
			hx.Fail(t, test, "ll", one, "i%d literal %q denotes %s; llir prints it so that LLVM reads %s", ws[i], lits[i].text, lits[i].want, x)
		}
	}
	// i1 prints true/false in llvm-dis
	hx.HistN("llvm_compared_literals", seen)
	// the reference reading of the *input* spellings against LLVM's own lexer, for the notations on
	// which the two are documented to agree (decimal with or without leading zeros, u0x)
	var sb2 strings.Builder
	n2 := 0
	for i := range lits {
		if k := lits[i].kind; ws[i] > 1 && (strings.HasPrefix(k, "dec") || strings.HasPrefix(k, "u0x")) {
			fmt.Fprintf(&sb2, "@g%d = global i%d %s\n", i, ws[i], lits[i].text)
			n2++
		}
	}
	if n2 == 0 {
		return
	}
	rx := llvmx.Canon(sb2.String())
	if rx.Crashed || !rx.OK {
		hx.Discard("oracle_unavailable_or_rejects_input_spelling")
		return
	}
	for _, line := range strings.Split(rx.Out, "\n") {
		mm := reGlobalInt.FindStringSubmatch(line)
		if mm == nil {
			continue
		}
		i, _ := strconv.Atoi(mm[1])
		x, _ := new(big.Int).SetString(mm[3], 10)
		if modW(x, ws[i]).Cmp(modW(lits[i].want, ws[i])) != 0 {
			// the harness' own reading disagrees with LLVM: a defect of the check, not of the library
			panic(fmt.Sprintf("harness reference reads i%d %q as %s, LLVM as %s", ws[i], lits[i].text, lits[i].want, x))
		}
		hx.HistN("llvm_confirmed_input_readings", 1)
	}
}

func TestThroughParserAndLLVM(t *testing.T) {
	const test = "ThroughParserAndLLVM"
	hx.Rule(test, "rapid batches of 200 literals (all notations) as global initialisers: asm.ParseString reads the denoted value, print→parse keeps it mod 2^w, and llvm-as|llvm-dis reads the same value from llir's output (LLVM's own reading of the *input* is used only for decimal/u0x, never for s0x, whose LLVM semantics differ from the documented two's-complement-by-width reading)")
	hx.Note("s0x is defined by the property as two's complement by type width; LLVM's lexer sign-extends from the active bits instead, so LLVM is not the oracle for the reading of s0x input")
	hx.Check(t, test, hx.N(25, 600), func(rt *rapid.T) {
		n := 200
		var ws []uint
		var vs []*big.Int
		var lits []spelling
		for i := 0; i < n; i++ {
			w, v := genWV(rt)
			if w == 1 {
				// i1 -1 is valid LLVM (reads as true); keep it in the domain.
			}
			sps := spellings(w, v, rapid.IntRange(0, 2).Draw(rt, "noise"))
			sp := sps[rapid.IntRange(0, len(sps)-1).Draw(rt, "sp")]
			ws = append(ws, w)
			vs = append(vs, v)
			lits = append(lits, sp)
			hx.NonTrivial(fmt.Sprintf("m/%d/%s", w, sp.text))
		}
		hx.Eval(n)
		checkModule(rt, test, ws, vs, lits, true)
		hx.SampleCase(test, fmt.Sprintf("@g0 = global i%d %s\n@g1 = global i%d %s …", ws[0], lits[0].text, ws[1], lits[1].text))
	})
}

// TestReplay: file lines "iW value literal" (in-process) or a module of globals (.ll).
func TestReplay(t *testing.T) {
	path := os.Getenv("VERIF_REPLAY")
	if path == "" {
		t.Skip()
	}
	buf, err := os.ReadFile(path)
	if err != nil {
		t.Fatal(err)
	}
	if strings.HasSuffix(path, ".ll") {
		var ws []uint
		var lits []spelling
		for _, line := range strings.Split(string(buf), "\n") {
			f := strings.Fields(line)
			if len(f) == 5 && f[2] == "global" {
				w, _ := strconv.Atoi(strings.TrimPrefix(f[3], "i"))
				want := denote(uint(w), f[4])
				if want == nil {
					continue
				}
				ws = append(ws, uint(w))
				lits = append(lits, spelling{"replay", f[4], want})
			}
		}
		// renumber
		for i := range lits {
			_ = i
		}
		checkModule(t, "Replay", ws, nil, lits, true)
		return
	}
	for _, line := range strings.Split(string(buf), "\n") {
		f := strings.Fields(line)
		if len(f) < 2 {
			continue
		}
		w, _ := strconv.Atoi(strings.TrimPrefix(f[0], "i"))
		v, ok := new(big.Int).SetString(f[1], 10)
		if !ok {
			continue
		}
		checkValue(t, "Replay", uint(w), v, 1)
	}
}

// denote is the reference reading of a literal at width w.
func denote(w uint, lit string) *big.Int {
	switch {
	case lit == "true":
		return big.NewInt(1)
	case lit == "false":
		return big.NewInt(0)
	case strings.HasPrefix(lit, "u0x"):
		x, _ := new(big.Int).SetString(lit[3:], 16)
		return x
	case strings.HasPrefix(lit, "s0x"):
		x, ok := new(big.Int).SetString(lit[3:], 16)
		if !ok {
			return nil
		}
		if x.Bit(int(w)-1) == 1 {
			x.Sub(x, pow2(w))
		}
		return x
	}
	x, _ := new(big.Int).SetString(lit, 10)
	return x
}

// TestLiteralsAreIndependent: a constant is a value of its own. Editing the big.Int of one parsed constant
// in place (which the exported field X invites) must not change what any other constant holds, nor what
// the same literal denotes when it is parsed again.
func TestLiteralsAreIndependent(t *testing.T) {
	const test = "LiteralsAreIndependent"
	hx.Rule(test, "stateful: (width, value, notation) drawn as in RandomValues plus all single- and double-digit decimals; the literal is parsed twice (directly and inside modules), the first constant's X is edited in place, then the second constant, a third fresh parse and a module parse must still hold the original value; the shared constants True/False are exempt only when the type is the shared types.I1 (documented singletons). Non-trivial = all cases")
	hx.Check(t, test, hx.N(400, 20000), func(rt *rapid.T) {
		var w uint
		var v *big.Int
		if rapid.IntRange(0, 2).Draw(rt, "small") == 0 {
			w = uint(rapid.SampledFrom([]int{2, 4, 8, 16, 32, 64, 128}).Draw(rt, "w"))
			v = big.NewInt(int64(rapid.IntRange(0, 99).Draw(rt, "v")))
			if v.BitLen() >= int(w) {
				v = big.NewInt(1)
			}
		} else {
			w, v = genWV(rt)
			if w == 1 {
				w = 2
				v = big.NewInt(1)
			}
		}
		sps := spellings(w, v, rapid.IntRange(0, 2).Draw(rt, "noise"))
		sp := sps[rapid.IntRange(0, len(sps)-1).Draw(rt, "spelling")]
		typ := types.NewInt(uint64(w))
		c := caseStr(w, v, sp.text)
		hx.Eval(1)
		a, err1 := constant.NewIntFromString(typ, sp.text)
		b, err2 := constant.NewIntFromString(typ, sp.text)
		text := fmt.Sprintf("@a = global i%d %s\n@b = global i%d %s\n", w, sp.text, w, sp.text)
		m, err3, p := lx.Parse(text)
		if err1 != nil || err2 != nil || err3 != nil || p != nil {
			hx.Discard("literal_not_accepted(judged_elsewhere)")
			return
		}
		ma := m.Globals[0].Init.(*constant.Int)
		mb := m.Globals[1].Init.(*constant.Int)
		want := new(big.Int).Set(b.X)
		// edit the first of each pair in place
		a.X.Add(a.X, big.NewInt(1000003))
		ma.X.Lsh(ma.X, 3).Add(ma.X, big.NewInt(77))
		if b.X.Cmp(want) != 0 || mb.X.Cmp(want) != 0 {
			hx.Fail(rt, test, "txt", c, "editing the value of one constant parsed from %q in place changed another constant parsed from the same literal: now %s and %s, want %s", sp.text, b.X, mb.X, want)
		}
		f, err4 := constant.NewIntFromString(typ, sp.text)
		m2, err5, p5 := lx.Parse(text)
		if err4 != nil || err5 != nil || p5 != nil {
			hx.Fail(rt, test, "txt", c, "the literal %q is no longer accepted after another constant was edited: %v %v", sp.text, err4, err5)
		}
		if f.X.Cmp(want) != 0 || m2.Globals[0].Init.(*constant.Int).X.Cmp(want) != 0 {
			hx.Fail(rt, test, "txt", c, "after editing a constant in place, i%d %s denotes %s (fresh constant) / %s (fresh module), it denoted %s before", w, sp.text, f.X, m2.Globals[0].Init.(*constant.Int).X, want)
		}
		hx.NonTrivial(c)
	})
}
