package c09

import (
	"fmt"
	"math/big"
	"strings"
	"testing"

	"github.com/llir/llvm/ir/constant"
	"github.com/llir/llvm/ir/types"

	"verif/h/hx"
	"verif/h/lx"
)

// TestOverwideLiterals: LLVM reads a decimal or u0x literal that does not fit the type modulo 2^w
// (`i1 2` is false, `i8 256` is 0, `i8 -129` is 127; llvm-as-14 accepts them all), so such literals are
// literal forms "the parser accepts" and must denote that value: whatever integer the library keeps, the
// literal it prints must denote the same value of the w-bit type. i1 matters most: the library prints
// true/false there and has to reduce the literal itself.
func TestOverwideLiterals(t *testing.T) {
	const test = "OverwideLiterals"
	hx.Rule(test, "all widths 1..10 (and 16, 31, 32, 33, 63, 64, 65, 128) x all integers v in [-2^(w+2), 2^(w+2)] for w <= 10, boundary multiples k*2^w + r beyond, in decimal (with and without redundant zeros) and, for v >= 0, u0x notation: the literal must be accepted and the literal printed for it must denote v modulo 2^w (LLVM's reading of literals that do not fit the type; s0x is left out because LLVM reads it differently from the documented rule). Distinct non-trivial case = (width, v) with v outside [-2^(w-1), 2^w)")
	n := 0
	check := func(w uint, v *big.Int, i int) {
		typ := types.NewInt(uint64(w))
		lits := []string{v.String()}
		if v.Sign() >= 0 {
			lits = append(lits, "u0x"+strings.ToUpper(v.Text(16)), "u0x0"+v.Text(16))
			lits = append(lits, "00"+v.String())
		} else {
			lits = append(lits, "-0"+new(big.Int).Abs(v).String())
		}
		for _, lit := range lits {
			var c *constant.Int
			var err error
			if p := lx.Guard(func() { c, err = constant.NewIntFromString(typ, lit) }); p != nil || err != nil {
				hx.Fail(t, test, "txt", caseStr(w, v, lit), "literal %q (i%d; LLVM reads it modulo 2^%d) is not accepted: %v %v", lit, w, w, err, p)
			}
			var id string
			if p := lx.Guard(func() { id = c.Ident() }); p != nil {
				hx.Fail(t, test, "txt", caseStr(w, v, lit), "i%d literal %q is read as %s, which cannot be printed: %v", w, lit, c.X, p.Val)
			}
			got := denote(w, id)
			if got == nil || modW(got, w).Cmp(modW(v, w)) != 0 {
				hx.Fail(t, test, "txt", caseStr(w, v, lit), "i%d literal %q denotes %s = %s (mod 2^%d) but is printed as %q", w, lit, v, modW(v, w), w, id)
			}
		}
		n++
		if v.Cmp(new(big.Int).Neg(pow2(w-1))) < 0 || v.Cmp(pow2(w)) >= 0 {
			hx.NonTrivial(fmt.Sprintf("i%d %s", w, v))
		}
		if i%997 == 0 {
			hx.SampleCase(test, caseStr(w, v, fmt.Sprint(lits)))
		}
	}
	i := 0
	for w := uint(1); w <= 10; w++ {
		lim := pow2(w + 2)
		for v := new(big.Int).Neg(lim); v.Cmp(lim) <= 0; v.Add(v, one) {
			i++
			if hx.Mine(i) {
				check(w, new(big.Int).Set(v), i)
			}
		}
	}
	for _, w := range []uint{16, 31, 32, 33, 63, 64, 65, 128} {
		for k := int64(-3); k <= 3; k++ {
			for r := int64(-2); r <= 2; r++ {
				i++
				if !hx.Mine(i) {
					continue
				}
				v := new(big.Int).Mul(big.NewInt(k), pow2(w))
				v.Add(v, big.NewInt(r))
				check(w, v, i)
				// and around the 64-bit boundaries of the spelling itself
				v2 := new(big.Int).Add(v, new(big.Int).Mul(big.NewInt(k), pow2(64)))
				check(w, v2, i)
			}
		}
	}
	hx.Eval(n)
}
