package c11

import (
	"github.com/llir/llvm/ir"
	"github.com/llir/llvm/ir/constant"
	"github.com/llir/llvm/ir/enum"
	"github.com/llir/llvm/ir/types"
	"github.com/llir/llvm/ir/value"
)

// Local names on the *other* definers of a local value: the results of the value-producing terminators
// (invoke, callbr, catchswitch) and of a call and a phi. The parser indexes each kind in its own branch.

func fnNamed(m *ir.Module, name string) *ir.Func {
	for _, f := range m.Funcs {
		if f.GlobalName == name {
			return f
		}
	}
	return nil
}

func decl(m *ir.Module, name string, ret types.Type, variadic bool) *ir.Func {
	f := m.NewFunc(name, ret)
	f.Sig.Variadic = variadic
	f.Linkage = enum.LinkageExternal
	return f
}

func rejectLocals(names ...string) func(string) bool {
	return func(s string) bool {
		for _, n := range names {
			if s == n {
				return true
			}
		}
		return false
	}
}

func init() {
	positions = append(positions,
		position{name: "invoke-result", build: func(s string) *ir.Module {
			m := ir.NewModule()
			g := decl(m, "g", types.I32, false)
			pers := decl(m, "__gxx_personality_v0", types.I32, true)
			f := i32fn(m, "f")
			f.Personality = pers
			entry, ok, lp := f.NewBlock("entry"), f.NewBlock("ok"), f.NewBlock("lp")
			inv := entry.NewInvoke(g, nil, ok, lp)
			inv.SetName(s)
			ok.NewRet(inv)
			l := lp.NewLandingPad(types.NewStruct(types.I8Ptr, types.I32))
			l.Cleanup = true
			l.SetName("l")
			lp.NewRet(constant.NewInt(types.I32, 0))
			return m
		}, text: func(e string) string {
			return "declare i32 @g()\ndeclare i32 @__gxx_personality_v0(...)\ndefine i32 @f(i32 %p) personality i32 (...)* @__gxx_personality_v0 {\nentry:\n  %\"" + e + "\" = invoke i32 @g() to label %ok unwind label %lp\nok:\n  ret i32 %\"" + e + "\"\nlp:\n  %l = landingpad { i8*, i32 } cleanup\n  ret i32 0\n}\n"
		}, get: func(m *ir.Module) (string, bool) {
			f := fnNamed(m, "f")
			if f == nil || len(f.Blocks) == 0 {
				return "", false
			}
			t, ok := f.Blocks[0].Term.(*ir.TermInvoke)
			if !ok {
				return "", false
			}
			return t.LocalName, t.LocalName != ""
		}, reject: rejectLocals("entry", "ok", "lp", "l", "p")},
		position{name: "callbr-result", build: func(s string) *ir.Module {
			m := ir.NewModule()
			f := i32fn(m, "f")
			entry, ok, ind := f.NewBlock("entry"), f.NewBlock("ok"), f.NewBlock("ind")
			asm := ir.NewInlineAsm(types.NewPointer(types.NewFunc(types.I32, types.I8Ptr)), "", "=r,X")
			cb := entry.NewCallBr(asm, []value.Value{constant.NewBlockAddress(f, ind)}, ok, ind)
			cb.SetName(s)
			ok.NewRet(cb)
			ind.NewRet(constant.NewInt(types.I32, 0))
			return m
		}, text: func(e string) string {
			return "define i32 @f(i32 %p) {\nentry:\n  %\"" + e + "\" = callbr i32 asm \"\", \"=r,X\"(i8* blockaddress(@f, %ind)) to label %ok [label %ind]\nok:\n  ret i32 %\"" + e + "\"\nind:\n  ret i32 0\n}\n"
		}, get: func(m *ir.Module) (string, bool) {
			f := fnNamed(m, "f")
			if f == nil || len(f.Blocks) == 0 {
				return "", false
			}
			t, ok := f.Blocks[0].Term.(*ir.TermCallBr)
			if !ok {
				return "", false
			}
			return t.LocalName, t.LocalName != ""
		}, reject: rejectLocals("entry", "ok", "ind", "p")},
		position{name: "catchswitch-result", build: func(s string) *ir.Module {
			m := ir.NewModule()
			g := decl(m, "g", types.Void, false)
			pers := decl(m, "__CxxFrameHandler3", types.I32, true)
			f := i32fn(m, "f")
			f.Personality = pers
			entry, ok, cs, cp := f.NewBlock("entry"), f.NewBlock("ok"), f.NewBlock("cs"), f.NewBlock("cp")
			entry.NewInvoke(g, nil, ok, cs)
			ok.NewRet(constant.NewInt(types.I32, 0))
			sw := cs.NewCatchSwitch(constant.None, []*ir.Block{cp}, nil)
			sw.SetName(s)
			c := cp.NewCatchPad(sw)
			c.SetName("c")
			cp.NewCatchRet(c, ok)
			return m
		}, text: func(e string) string {
			return "declare void @g()\ndeclare i32 @__CxxFrameHandler3(...)\ndefine i32 @f(i32 %p) personality i32 (...)* @__CxxFrameHandler3 {\nentry:\n  invoke void @g() to label %ok unwind label %cs\nok:\n  ret i32 0\ncs:\n  %\"" + e + "\" = catchswitch within none [label %cp] unwind to caller\ncp:\n  %c = catchpad within %\"" + e + "\" []\n  catchret from %c to label %ok\n}\n"
		}, get: func(m *ir.Module) (string, bool) {
			f := fnNamed(m, "f")
			if f == nil || len(f.Blocks) < 3 {
				return "", false
			}
			t, ok := f.Blocks[2].Term.(*ir.TermCatchSwitch)
			if !ok {
				return "", false
			}
			return t.LocalName, t.LocalName != ""
		}, reject: rejectLocals("entry", "ok", "cs", "cp", "c", "p")},
		position{name: "call-and-phi-result", build: func(s string) *ir.Module {
			m := ir.NewModule()
			g := decl(m, "g", types.I32, false)
			f := i32fn(m, "f")
			entry, next := f.NewBlock("entry"), f.NewBlock("next")
			c := entry.NewCall(g)
			c.SetName(s)
			entry.NewBr(next)
			ph := next.NewPhi(ir.NewIncoming(c, entry))
			ph.SetName("ph")
			next.NewRet(ph)
			return m
		}, text: func(e string) string {
			return "declare i32 @g()\ndefine i32 @f(i32 %p) {\nentry:\n  %\"" + e + "\" = call i32 @g()\n  br label %next\nnext:\n  %ph = phi i32 [ %\"" + e + "\", %entry ]\n  ret i32 %ph\n}\n"
		}, get: func(m *ir.Module) (string, bool) {
			f := fnNamed(m, "f")
			if f == nil || len(f.Blocks) == 0 || len(f.Blocks[0].Insts) == 0 {
				return "", false
			}
			t, ok := f.Blocks[0].Insts[0].(*ir.InstCall)
			if !ok {
				return "", false
			}
			return t.LocalName, t.LocalName != ""
		}, reject: rejectLocals("entry", "next", "ph", "p")},
	)
}
