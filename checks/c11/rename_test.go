package c11

import (
	"fmt"
	"testing"

	"github.com/llir/llvm/ir"
	"github.com/llir/llvm/ir/constant"
	"github.com/llir/llvm/ir/types"
	"pgregory.net/rapid"

	"verif/h/hx"
	"verif/h/llvmx"
	"verif/h/lx"
	"verif/h/ref"
)

// renameCase: an entity that gets a first name, is optionally printed, and is then given its final name
// through one of the routes the API offers (SetName, or assignment to the exported name field).
type renameCase struct {
	kind  string
	build func(first string) (m *ir.Module, set func(s string), assign func(s string))
	text  func(e string) string // reference rendering with the final name (every byte as \XX)
	get   func(m *ir.Module) (string, bool)
}

var renameCases = []renameCase{
	{kind: "global", build: func(first string) (*ir.Module, func(string), func(string)) {
		m := ir.NewModule()
		g := m.NewGlobalDef(first, constant.NewInt(types.I32, 1))
		return m, g.SetName, func(s string) { g.GlobalName = s }
	}, text: func(e string) string { return "@\"" + e + "\" = global i32 1\n" },
		get: func(m *ir.Module) (string, bool) { return m.Globals[0].GlobalName, m.Globals[0].GlobalName != "" }},
	{kind: "function", build: func(first string) (*ir.Module, func(string), func(string)) {
		m := ir.NewModule()
		f := m.NewFunc(first, types.Void)
		return m, f.SetName, func(s string) { f.GlobalName = s }
	}, text: func(e string) string { return "declare void @\"" + e + "\"()\n" },
		get: func(m *ir.Module) (string, bool) { return m.Funcs[0].GlobalName, m.Funcs[0].GlobalName != "" }},
	{kind: "local", build: func(first string) (*ir.Module, func(string), func(string)) {
		m := ir.NewModule()
		f := i32fn(m, "f")
		b := f.NewBlock("entry")
		v := b.NewAdd(f.Params[0], constant.NewInt(types.I32, 1))
		v.SetName(first)
		b.NewRet(v)
		return m, v.SetName, func(s string) { v.LocalName = s }
	}, text: func(e string) string {
		return "define i32 @f(i32 %p) {\nentry:\n  %\"" + e + "\" = add i32 %p, 1\n  ret i32 %\"" + e + "\"\n}\n"
	}, get: func(m *ir.Module) (string, bool) {
		v := m.Funcs[0].Blocks[0].Insts[0].(*ir.InstAdd)
		return v.LocalName, v.LocalName != ""
	}},
	{kind: "label", build: func(first string) (*ir.Module, func(string), func(string)) {
		m := ir.NewModule()
		f := i32fn(m, "f")
		e := f.NewBlock("entry")
		b := f.NewBlock(first)
		e.NewBr(b)
		b.NewRet(f.Params[0])
		return m, b.SetName, func(s string) { b.LocalName = s }
	}, text: func(e string) string {
		return "define i32 @f(i32 %p) {\nentry:\n  br label %\"" + e + "\"\n\n\"" + e + "\":\n  ret i32 %p\n}\n"
	}, get: func(m *ir.Module) (string, bool) {
		b := m.Funcs[0].Blocks[1]
		return b.LocalName, b.LocalName != ""
	}},
	{kind: "type", build: func(first string) (*ir.Module, func(string), func(string)) {
		m := ir.NewModule()
		st := types.NewStruct(types.I32)
		t := m.NewTypeDef(first, st)
		m.NewGlobalDef("g", constant.NewZeroInitializer(t))
		return m, st.SetName, func(s string) { st.TypeName = s }
	}, text: func(e string) string {
		return "%\"" + e + "\" = type { i32 }\n@g = global %\"" + e + "\" zeroinitializer\n"
	}, get: func(m *ir.Module) (string, bool) {
		if len(m.TypeDefs) != 1 {
			return "", false
		}
		return m.TypeDefs[0].Name(), true
	}},
	{kind: "comdat", build: func(first string) (*ir.Module, func(string), func(string)) {
		m := ir.NewModule()
		c := &ir.ComdatDef{Name: first}
		m.ComdatDefs = append(m.ComdatDefs, c)
		g := m.NewGlobalDef("g", constant.NewInt(types.I32, 1))
		g.Comdat = c
		return m, nil, func(s string) { c.Name = s }
	}, text: func(e string) string {
		return "$\"" + e + "\" = comdat any\n@g = global i32 1, comdat($\"" + e + "\")\n"
	}, get: func(m *ir.Module) (string, bool) {
		if len(m.ComdatDefs) != 1 {
			return "", false
		}
		return m.ComdatDefs[0].Name, true
	}},
}

// TestRenamedThroughAPI: the printed token is a function of the name the entity has *now*.
func TestRenamedThroughAPI(t *testing.T) {
	const test = "RenamedThroughAPI"
	hx.Rule(test, "global, function, local, label, identified struct type, comdat: the entity is created with a first name (rapid byte strings as in Positions), the module is printed or not, then the entity gets its final name through SetName or through assignment to the exported name field (GlobalName, LocalName, TypeName, Name), possibly both in sequence; the printed module must be read by llvm-as|llvm-dis like the harness' own fully escaped rendering with the final name, and the library's re-parse must return the final name's bytes. Non-trivial = first and final name differ")
	hx.Check(t, test, hx.N(300, 12000), func(rt *rapid.T) {
		rc := renameCases[rapid.IntRange(0, len(renameCases)-1).Draw(rt, "kind")]
		first := genBytes(false, 1).Draw(rt, "first")
		final := genBytes(false, 1).Draw(rt, "final")
		between := genBytes(false, 1).Draw(rt, "between")
		if rc.kind == "type" {
			// all-digit type names are numbered types in the library's data model (see Positions)
			for _, s := range []*string{&first, &final, &between} {
				if quotedDigits(*s) || isAllDigits(*s) {
					*s = "t" + *s
				}
			}
		}
		if rc.kind == "local" || rc.kind == "label" {
			for _, s := range []*string{&first, &final, &between} {
				if *s == "p" || *s == "entry" {
					*s += "x"
				}
			}
		}
		R := rc.text(ref.HexEscapeAll(final))
		rr := llvmx.Canon(R)
		if rr.Crashed || !rr.OK {
			hx.Discard("llvm_rejects_reference_text/" + rc.kind)
			return
		}
		hx.Eval(1)
		c := fmt.Sprintf("%s: %q -> %q\n", rc.kind, first, final)
		var out string
		route := ""
		p := lx.Guard(func() {
			m, set, assign := rc.build(first)
			if rapid.Bool().Draw(rt, "printFirst") {
				_ = m.String()
				route += "print;"
			}
			switch k := rapid.IntRange(0, 3).Draw(rt, "route"); {
			case k == 0 && set != nil:
				set(final)
				route += "SetName"
			case k == 1 && set != nil:
				set(between)
				assign(final)
				route += "SetName(other);field="
			case k == 2 && set != nil:
				assign(between)
				if rapid.Bool().Draw(rt, "printBetween") {
					_ = m.String()
					route += "field=other;print;"
				}
				set(final)
				route += "SetName"
			default:
				assign(final)
				route += "field="
			}
			out = m.String()
		})
		c += "route: " + route + "\n"
		if p != nil {
			hx.Fail(rt, test, "txt", c, "building, renaming or printing panics: %s", p)
		}
		pos := position{name: rc.kind, get: rc.get}
		checkOutput(rt, test, pos, final, c, out, rr.Out, "renamed ("+route+")")
		hx.Hist("renamed/" + rc.kind)
		if first != final {
			hx.NonTrivial(c)
		}
	})
}

func isAllDigits(s string) bool {
	if s == "" {
		return false
	}
	for i := 0; i < len(s); i++ {
		if s[i] < '0' || s[i] > '9' {
			return false
		}
	}
	return true
}
