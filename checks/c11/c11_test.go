package c11

import (
	"fmt"
	"os"
	"strconv"
	"strings"
	"testing"

	"github.com/llir/llvm/ir"
	"github.com/llir/llvm/ir/constant"
	"github.com/llir/llvm/ir/enum"
	"github.com/llir/llvm/ir/metadata"
	"github.com/llir/llvm/ir/types"
	"github.com/llir/llvm/verifhook"
	"pgregory.net/rapid"

	"verif/h/hx"
	"verif/h/kf"
	"verif/h/llvmx"
	"verif/h/lx"
	"verif/h/ref"
)

func TestMain(m *testing.M) {
	hx.Main(m, "C11", func() {
		kfTypeQuotedDigits = kf.Activate("KF-C11-type-name-quoted-digits", func(in string) bool {
			f := strings.SplitN(strings.TrimSpace(in), " ", 2)
			if len(f) != 2 {
				return false
			}
			s, err := strconv.Unquote(f[1])
			if err != nil {
				return false
			}
			k, got := ref.LexSigil(verifhook.TypeName(s), '%')
			return k == ref.LexName && got != s
		})
	})
}

// genBytes draws byte strings biased to the dangerous classes.
func genBytes(allowNUL bool, minLen int) *rapid.Generator[string] {
	lo := byte(1)
	if allowNUL {
		lo = 0
	}
	piece := rapid.OneOf(
		rapid.StringMatching(`[0-9]{1,12}`),
		rapid.StringMatching(`[a-zA-Z$._-]{1,6}`),
		rapid.SampledFrom([]string{`"`, `\`, `\\`, `\5C`, `\22`, `\2`, `\2G`, `\00`, `\0`, "\\x", " ", "\t", "\n", "%", "@", "!", "#", ":", ";", ",", "=", "(", ")", "{", "}", "*", "+", "-", "-5", "-0", "-00", "-007", "0", "00", "42", "1abc", "4294967295", "4294967296", "18446744073709551615", "18446744073709551616", "99999999999999999999", "\x7f", "\x80", "\xff", "\xc3\xa9", "é", "\xc3", "☃", "\x01", "\x1f", "c\"", "zeroinitializer", "true", "null", "x86_fp80", "i32", "label", "void", "declare", "0x10", "u0x1", "1e5", "1.0"}),
		rapid.Map(rapid.SliceOfN(rapid.ByteRange(lo, 255), 1, 4), func(b []byte) string { return string(b) }),
	)
	return rapid.Map(rapid.SliceOfN(piece, 1, 4), func(ps []string) string {
		s := strings.Join(ps, "")
		for len(s) < minLen {
			s += "x"
		}
		return s
	})
}

func q(s string) string { return fmt.Sprintf("%q", s) }

// ---------------------------------------------------------------------------
// Fast path: the identifier/string encoders against the reference lexer.

type encCase struct {
	name string
	enc  func(string) string
	lex  func(string) (ref.LexKind, string)
}

var encoders = []encCase{
	{"GlobalName", verifhook.GlobalName, func(t string) (ref.LexKind, string) { return ref.LexSigil(t, '@') }},
	{"LocalName", verifhook.LocalName, func(t string) (ref.LexKind, string) { return ref.LexSigil(t, '%') }},
	{"TypeName", verifhook.TypeName, func(t string) (ref.LexKind, string) { return ref.LexSigil(t, '%') }},
	{"ComdatName", verifhook.ComdatName, func(t string) (ref.LexKind, string) { return ref.LexSigil(t, '$') }},
	{"LabelName", verifhook.LabelName, ref.LexLabel},
	{"MetadataName", verifhook.MetadataName, ref.LexMetadataName},
	{"Quote", func(s string) string { return verifhook.Quote([]byte(s)) }, func(t string) (ref.LexKind, string) {
		ok, s := ref.LexQuoted(t)
		if !ok {
			return ref.LexInvalid, ""
		}
		return ref.LexName, s
	}},
}

var (
	kfLeadingDigit     bool
	kfNumericType      bool // KF-C11-quoted-numeric-type-name
	kfTypeQuotedDigits bool
)

func quotedDigits(s string) bool {
	n := len(s)
	return n > 2 && s[0] == '"' && s[n-1] == '"' && strings.Trim(s[1:n-1], "0123456789") == ""
}

func checkEncoders(t hx.TB, test, s string) {
	for _, e := range encoders {
		if e.name != "Quote" && strings.IndexByte(s, 0) >= 0 {
			continue // NUL is not allowed in names
		}
		if e.name == "TypeName" && quotedDigits(s) {
			// `"42"` (quotes included) is the library's representation of the named type %"42"; a type
			// whose name really consists of quote, digits, quote cannot be told apart (known finding).
			if kfTypeQuotedDigits {
				kf.Hit("KF-C11-type-name-quoted-digits")
				continue
			}
		}
		if e.name == "TypeName" && strings.Trim(s, "0123456789") == "" {
			// In the library's data model a type "name" made only of digits *is* the numbered type %N.
			hx.Discard("type_name_all_digits_is_numbered_type")
			continue
		}
		var tok string
		if p := lx.Guard(func() { tok = e.enc(s) }); p != nil {
			hx.Fail(t, test, "txt", e.name+" "+q(s)+"\n", "enc.%s(%q) panics: %v", e.name, s, p.Val)
		}
		kind, got := e.lex(tok)
		if kind != ref.LexName || got != s {
			what := "is not a single valid token for LLVM's lexer"
			if kind == ref.LexID {
				what = "is read by LLVM's lexer as the unnamed numeric ID " + got
			} else if kind == ref.LexName {
				what = fmt.Sprintf("is decoded by LLVM's lexer rules as %q", got)
			}
			hx.Fail(t, test, "txt", e.name+" "+q(s)+"\n", "enc.%s(%q) = %s, which %s", e.name, s, tok, what)
		}
		// the library's own decoders
		switch e.name {
		case "Quote":
			var back []byte
			if p := lx.Guard(func() { back = verifhook.Unquote(tok) }); p != nil || string(back) != s {
				hx.Fail(t, test, "txt", e.name+" "+q(s)+"\n", "Unquote(Quote(%q)) = %q (%v)", s, back, p)
			}
		}
		hx.Hist("encoder/" + e.name)
	}
}

func TestEncodersAgainstLexer(t *testing.T) {
	const test = "EncodersAgainstLexer"
	hx.Rule(test, "rapid byte strings (0x01-0xFF, 0x00 too for Quote) biased to all-digit names, leading digits, quotes, backslashes, escape-like tails and non-UTF-8, through enc.GlobalName/LocalName/TypeName/ComdatName/LabelName/MetadataName/Quote: the token must be read by an independent model of LLVM's lexer as one token that is a *name* (never a numeric ID) with exactly those bytes; non-trivial = string contains a byte outside [a-zA-Z$._-] or starts with a digit")
	hx.Check(t, test, hx.N(30000, 600000), func(rt *rapid.T) {
		s := genBytes(true, 1).Draw(rt, "s")
		hx.Eval(1)
		checkEncoders(rt, test, s)
		if strings.ContainsAny(s, "0123456789\"\\ ") || !isPlain(s) {
			hx.NonTrivial(s)
		}
		hx.SampleCase(test, q(s))
	})
}

func TestEncodersExhaustiveShort(t *testing.T) {
	const test = "EncodersExhaustiveShort"
	alpha := []byte{'0', '1', '9', 'a', 'Z', '-', '.', '$', '_', '"', '\\', ' ', '5', 'C', 0x01, 0x7f, 0x80, 0xff, '%', '@', ':'}
	maxLen := hx.N(3, 4)
	hx.Rule(test, fmt.Sprintf("all strings of length 1..%d over %d bytes {digits, letters, -.$_, quote, backslash, space, '5','C' (to spell \\5C), 0x01, 0x7F, 0x80, 0xFF, %%, @, :} through every encoder; same oracle", maxLen, len(alpha)))
	var rec func(prefix []byte, idx *int)
	n := 0
	rec = func(prefix []byte, idx *int) {
		if len(prefix) > 0 {
			*idx++
			if hx.Mine(*idx) {
				checkEncoders(t, test, string(prefix))
				n++
				hx.NonTrivialU(11, uint64(*idx))
			}
		}
		if len(prefix) == maxLen {
			return
		}
		for _, c := range alpha {
			rec(append(prefix, c), idx)
		}
	}
	i := 0
	rec(nil, &i)
	hx.Eval(n)
	hx.Exhaustive(test, true)
}

func isPlain(s string) bool {
	for i := 0; i < len(s); i++ {
		c := s[i]
		if !(c >= 'a' && c <= 'z' || c >= 'A' && c <= 'Z' || c == '$' || c == '.' || c == '_' || c == '-') {
			return false
		}
	}
	return true
}

// ---------------------------------------------------------------------------
// Module level: each position of the grammar.

type position struct {
	name   string
	nul    bool                              // NUL allowed in this position
	build  func(s string) *ir.Module         // constructs a module with s at the position through the API
	text   func(e string) string             // my own rendering of the same module; e = s with every byte as \XX
	get    func(m *ir.Module) (string, bool) // reads the string back from a parsed module
	reject func(s string) bool               // strings outside the position's domain
}

func i32fn(m *ir.Module, name string) *ir.Func {
	f := m.NewFunc(name, types.I32, ir.NewParam("p", types.I32))
	return f
}

var positions = []position{
	{name: "global", build: func(s string) *ir.Module {
		m := ir.NewModule()
		m.NewGlobalDef(s, constant.NewInt(types.I32, 1))
		return m
	}, text: func(e string) string { return "@\"" + e + "\" = global i32 1\n" },
		get: func(m *ir.Module) (string, bool) { return m.Globals[0].GlobalName, m.Globals[0].GlobalName != "" }},
	{name: "function", build: func(s string) *ir.Module {
		m := ir.NewModule()
		f := m.NewFunc(s, types.Void)
		f.Linkage = enum.LinkageExternal
		return m
	}, text: func(e string) string { return "declare void @\"" + e + "\"()\n" },
		get: func(m *ir.Module) (string, bool) { return m.Funcs[0].GlobalName, m.Funcs[0].GlobalName != "" }},
	{name: "alias", build: func(s string) *ir.Module {
		m := ir.NewModule()
		g := m.NewGlobalDef("g", constant.NewInt(types.I32, 1))
		m.NewAlias(s, g)
		return m
	}, text: func(e string) string { return "@g = global i32 1\n@\"" + e + "\" = alias i32, i32* @g\n" },
		get:    func(m *ir.Module) (string, bool) { return m.Aliases[0].GlobalName, m.Aliases[0].GlobalName != "" },
		reject: func(s string) bool { return s == "g" }},
	{name: "param", build: func(s string) *ir.Module {
		m := ir.NewModule()
		p := ir.NewParam(s, types.I32)
		f := m.NewFunc("f", types.I32, p)
		b := f.NewBlock("entry")
		b.NewRet(p)
		return m
	}, text: func(e string) string {
		return "define i32 @f(i32 %\"" + e + "\") {\nentry:\n  ret i32 %\"" + e + "\"\n}\n"
	},
		get: func(m *ir.Module) (string, bool) {
			p := m.Funcs[0].Params[0]
			return p.LocalName, p.LocalName != ""
		}, reject: func(s string) bool { return s == "entry" }},
	{name: "local", build: func(s string) *ir.Module {
		m := ir.NewModule()
		f := i32fn(m, "f")
		b := f.NewBlock("entry")
		v := b.NewAdd(f.Params[0], constant.NewInt(types.I32, 1))
		v.SetName(s)
		b.NewRet(v)
		return m
	}, text: func(e string) string {
		return "define i32 @f(i32 %p) {\nentry:\n  %\"" + e + "\" = add i32 %p, 1\n  ret i32 %\"" + e + "\"\n}\n"
	}, get: func(m *ir.Module) (string, bool) {
		v := m.Funcs[0].Blocks[0].Insts[0].(*ir.InstAdd)
		return v.LocalName, v.LocalName != ""
	}, reject: func(s string) bool { return s == "entry" || s == "p" }},
	{name: "label", build: func(s string) *ir.Module {
		m := ir.NewModule()
		f := i32fn(m, "f")
		e := f.NewBlock("entry")
		b := f.NewBlock(s)
		e.NewBr(b)
		b.NewRet(f.Params[0])
		return m
	}, text: func(e string) string {
		return "define i32 @f(i32 %p) {\nentry:\n  br label %\"" + e + "\"\n\n\"" + e + "\":\n  ret i32 %p\n}\n"
	}, get: func(m *ir.Module) (string, bool) {
		b := m.Funcs[0].Blocks[1]
		return b.LocalName, b.LocalName != ""
	}, reject: func(s string) bool { return s == "entry" || s == "p" }},
	{name: "type", build: func(s string) *ir.Module {
		m := ir.NewModule()
		name := s
		if strings.Trim(s, "0123456789") == "" {
			name = `"` + s + `"` // the library's representation of the *named* type %"42" (a bare 42 is the numbered type %42)
		}
		t := m.NewTypeDef(name, types.NewStruct(types.I32))
		m.NewGlobalDef("g", constant.NewZeroInitializer(t))
		return m
	}, text: func(e string) string {
		return "%\"" + e + "\" = type { i32 }\n@g = global %\"" + e + "\" zeroinitializer\n"
	},
		get: func(m *ir.Module) (string, bool) {
			if len(m.TypeDefs) != 1 {
				return "", false
			}
			n := m.TypeDefs[0].Name()
			// the parser represents the named type %"42" by the name `"42"` (quotes included) to tell it from the numbered type %42
			if l := len(n); l > 2 && n[0] == '"' && n[l-1] == '"' && strings.Trim(n[1:l-1], "0123456789") == "" {
				n = n[1 : l-1]
			}
			return n, true
		}, reject: func(s string) bool {
			if quotedDigits(s) && kfTypeQuotedDigits {
				kf.Hit("KF-C11-type-name-quoted-digits")
				return true
			}
			return false
		}},
	{name: "comdat", build: func(s string) *ir.Module {
		m := ir.NewModule()
		c := &ir.ComdatDef{Name: s, Kind: enum.SelectionKindAny}
		m.ComdatDefs = append(m.ComdatDefs, c)
		g := m.NewGlobalDef("g", constant.NewInt(types.I32, 1))
		g.Comdat = c
		return m
	}, text: func(e string) string {
		return "$\"" + e + "\" = comdat any\n@g = global i32 1, comdat($\"" + e + "\")\n"
	},
		get: func(m *ir.Module) (string, bool) {
			if len(m.ComdatDefs) != 1 || m.Globals[0].Comdat != m.ComdatDefs[0] {
				return "", false
			}
			return m.ComdatDefs[0].Name, true
		}},
	{name: "named-metadata", build: func(s string) *ir.Module {
		m := ir.NewModule()
		t := &metadata.Tuple{MetadataID: 0}
		m.MetadataDefs = append(m.MetadataDefs, t)
		m.NamedMetadataDefs[s] = &metadata.NamedDef{Name: s, Nodes: []metadata.Node{t}}
		return m
	}, text: func(e string) string { return "!" + e + " = !{!0}\n!0 = !{}\n" },
		get: func(m *ir.Module) (string, bool) {
			for k, v := range m.NamedMetadataDefs {
				return k, k == v.Name
			}
			return "", false
		}, reject: func(s string) bool { return strings.HasPrefix(s, "llvm.") }},
	{name: "attachment-kind", build: func(s string) *ir.Module {
		m := ir.NewModule()
		f := i32fn(m, "f")
		b := f.NewBlock("entry")
		v := b.NewAdd(f.Params[0], constant.NewInt(types.I32, 1))
		v.SetName("v")
		v.Metadata = append(v.Metadata, &metadata.Attachment{Name: s, Node: &metadata.Tuple{MetadataID: -1}})
		b.NewRet(v)
		return m
	}, text: func(e string) string {
		return "define i32 @f(i32 %p) {\nentry:\n  %v = add i32 %p, 1, !" + e + " !{}\n  ret i32 %v\n}\n"
	}, get: func(m *ir.Module) (string, bool) {
		v := m.Funcs[0].Blocks[0].Insts[0].(*ir.InstAdd)
		if len(v.Metadata) != 1 {
			return "", false
		}
		return v.Metadata[0].Name, true
	}},
	{name: "section", build: func(s string) *ir.Module {
		m := ir.NewModule()
		g := m.NewGlobalDef("g", constant.NewInt(types.I32, 1))
		g.Section = s
		return m
	}, text: func(e string) string { return "@g = global i32 1, section \"" + e + "\"\n" },
		get: func(m *ir.Module) (string, bool) { return m.Globals[0].Section, true }},
	{name: "partition", build: func(s string) *ir.Module {
		m := ir.NewModule()
		g := m.NewGlobalDef("g", constant.NewInt(types.I32, 1))
		g.Partition = s
		return m
	}, text: func(e string) string { return "@g = global i32 1, partition \"" + e + "\"\n" },
		get: func(m *ir.Module) (string, bool) { return m.Globals[0].Partition, true }},
	{name: "gc", build: func(s string) *ir.Module {
		m := ir.NewModule()
		f := m.NewFunc("f", types.Void)
		f.GC = s
		f.NewBlock("entry").NewRet(nil)
		return m
	}, text: func(e string) string { return "define void @f() gc \"" + e + "\" {\nentry:\n  ret void\n}\n" },
		get: func(m *ir.Module) (string, bool) { return m.Funcs[0].GC, true }},
	{name: "attr-string", build: func(s string) *ir.Module {
		m := ir.NewModule()
		f := m.NewFunc("f", types.Void)
		f.Linkage = enum.LinkageExternal
		f.FuncAttrs = append(f.FuncAttrs, ir.AttrString(s))
		return m
	}, text: func(e string) string { return "declare void @f() \"" + e + "\"\n" },
		get: func(m *ir.Module) (string, bool) { return attrOf(m, 0) }},
	{name: "attr-pair-value", build: func(s string) *ir.Module {
		m := ir.NewModule()
		f := m.NewFunc("f", types.Void)
		f.Linkage = enum.LinkageExternal
		f.FuncAttrs = append(f.FuncAttrs, ir.AttrPair{Key: "k", Value: s})
		return m
	}, text: func(e string) string { return "declare void @f() \"k\"=\"" + e + "\"\n" },
		get: func(m *ir.Module) (string, bool) { return attrOf(m, 2) }},
	{name: "attr-pair-key", build: func(s string) *ir.Module {
		m := ir.NewModule()
		f := m.NewFunc("f", types.Void)
		f.Linkage = enum.LinkageExternal
		f.FuncAttrs = append(f.FuncAttrs, ir.AttrPair{Key: s, Value: "v"})
		return m
	}, text: func(e string) string { return "declare void @f() \"" + e + "\"=\"v\"\n" },
		get: func(m *ir.Module) (string, bool) { return attrOf(m, 1) }},
	{name: "module-asm", build: func(s string) *ir.Module {
		m := ir.NewModule()
		m.ModuleAsms = append(m.ModuleAsms, s)
		return m
	}, text: func(e string) string { return "module asm \"" + e + "\"\n" },
		get: func(m *ir.Module) (string, bool) {
			if len(m.ModuleAsms) != 1 {
				return strings.Join(m.ModuleAsms, "|"), false
			}
			return m.ModuleAsms[0], true
		}, reject: func(s string) bool { return strings.ContainsAny(s, "\n") }}, // LLVM splits module asm at newlines: several lines, same meaning
	{name: "source-filename", build: func(s string) *ir.Module {
		m := ir.NewModule()
		m.SourceFilename = s
		return m
	}, text: func(e string) string { return "source_filename = \"" + e + "\"\n" },
		get: func(m *ir.Module) (string, bool) { return m.SourceFilename, true }},
	{name: "target-triple", build: func(s string) *ir.Module {
		m := ir.NewModule()
		m.TargetTriple = s
		return m
	}, text: func(e string) string { return "target triple = \"" + e + "\"\n" },
		get: func(m *ir.Module) (string, bool) { return m.TargetTriple, true }},
	{name: "inline-asm-text", build: func(s string) *ir.Module {
		m := ir.NewModule()
		f := m.NewFunc("f", types.Void)
		b := f.NewBlock("entry")
		b.NewCall(ir.NewInlineAsm(types.NewPointer(types.NewFunc(types.Void)), s, ""))
		b.NewRet(nil)
		return m
	}, text: func(e string) string {
		return "define void @f() {\nentry:\n  call void asm \"" + e + "\", \"\"()\n  ret void\n}\n"
	}, get: func(m *ir.Module) (string, bool) {
		c := m.Funcs[0].Blocks[0].Insts[0].(*ir.InstCall)
		ia, ok := c.Callee.(*ir.InlineAsm)
		if !ok {
			return "", false
		}
		return ia.Asm, true
	}},
	{name: "syncscope", build: func(s string) *ir.Module {
		m := ir.NewModule()
		f := m.NewFunc("f", types.Void)
		b := f.NewBlock("entry")
		fe := b.NewFence(enum.AtomicOrderingSequentiallyConsistent)
		fe.SyncScope = s
		b.NewRet(nil)
		return m
	}, text: func(e string) string {
		return "define void @f() {\nentry:\n  fence syncscope(\"" + e + "\") seq_cst\n  ret void\n}\n"
	}, get: func(m *ir.Module) (string, bool) {
		return m.Funcs[0].Blocks[0].Insts[0].(*ir.InstFence).SyncScope, true
	}},
	{name: "bundle-tag", build: func(s string) *ir.Module {
		m := ir.NewModule()
		g := m.NewFunc("g", types.Void)
		g.Linkage = enum.LinkageExternal
		f := m.NewFunc("f", types.Void)
		b := f.NewBlock("entry")
		c := b.NewCall(g)
		c.OperandBundles = append(c.OperandBundles, ir.NewOperandBundle(s, constant.NewInt(types.I32, 1)))
		b.NewRet(nil)
		return m
	}, text: func(e string) string {
		return "declare void @g()\ndefine void @f() {\nentry:\n  call void @g() [ \"" + e + "\"(i32 1) ]\n  ret void\n}\n"
	}, get: func(m *ir.Module) (string, bool) {
		for _, f := range m.Funcs {
			if len(f.Blocks) > 0 {
				c := f.Blocks[0].Insts[0].(*ir.InstCall)
				if len(c.OperandBundles) != 1 {
					return "", false
				}
				return c.OperandBundles[0].Tag, true
			}
		}
		return "", false
	}},
	{name: "metadata-string", nul: true, build: func(s string) *ir.Module {
		m := ir.NewModule()
		t := &metadata.Tuple{MetadataID: 0, Fields: []metadata.Field{&metadata.String{Value: s}}}
		m.MetadataDefs = append(m.MetadataDefs, t)
		m.NamedMetadataDefs["nm"] = &metadata.NamedDef{Name: "nm", Nodes: []metadata.Node{t}}
		return m
	}, text: func(e string) string { return "!nm = !{!0}\n!0 = !{!\"" + e + "\"}\n" },
		get: func(m *ir.Module) (string, bool) {
			nd := m.NamedMetadataDefs["nm"]
			if nd == nil || len(nd.Nodes) != 1 {
				return "", false
			}
			t, ok := nd.Nodes[0].(*metadata.Tuple)
			if !ok || len(t.Fields) != 1 {
				return "", false
			}
			ms, ok := t.Fields[0].(*metadata.String)
			if !ok {
				return "", false
			}
			return ms.Value, true
		}},
	{name: "char-array", nul: true, build: func(s string) *ir.Module {
		m := ir.NewModule()
		m.NewGlobalDef("g", constant.NewCharArrayFromString(s))
		return m
	}, text: func(e string) string {
		return fmt.Sprintf("@g = global [%d x i8] c\"%s\"\n", len(e)/3, e)
	}, get: func(m *ir.Module) (string, bool) {
		ca, ok := m.Globals[0].Init.(*constant.CharArray)
		if !ok {
			return "", false
		}
		return string(ca.X), true
	}},
}

// attrOf returns the string (which=0), key (1) or value (2) of the first string attribute of
// function 0, looking through attribute groups.
func attrOf(m *ir.Module, which int) (string, bool) {
	var attrs []ir.FuncAttribute
	for _, a := range m.Funcs[0].FuncAttrs {
		if g, ok := a.(*ir.AttrGroupDef); ok {
			attrs = append(attrs, g.FuncAttrs...)
		} else {
			attrs = append(attrs, a)
		}
	}
	for _, a := range attrs {
		switch a := a.(type) {
		case ir.AttrString:
			if which == 0 {
				return string(a), true
			}
		case ir.AttrPair:
			if which == 1 {
				return a.Key, true
			}
			if which == 2 {
				return a.Value, true
			}
		}
	}
	return "", false
}

func checkPosition(t hx.TB, test string, pos position, s string) {
	c := pos.name + " " + q(s) + "\n"
	R := pos.text(ref.HexEscapeAll(s))
	rr := llvmx.Canon(R)
	if rr.Crashed {
		hx.Discard("oracle_unavailable/" + pos.name)
		return
	}
	if !rr.OK {
		hx.Discard("llvm_rejects_reference_text/" + pos.name)
		return
	}
	hx.Eval(1)
	hx.Hist("position/" + pos.name)
	// API direction.
	var m *ir.Module
	if p := lx.Guard(func() { m = pos.build(s) }); p != nil {
		hx.Fail(t, test, "txt", c, "constructing a module with %s %q panics: %s", pos.name, s, p)
	}
	out, p := lx.Print(m)
	if p != nil {
		hx.Fail(t, test, "txt", c, "printing a module with %s %q panics: %s", pos.name, s, p)
	}
	checkOutput(t, test, pos, s, c, out, rr.Out, "constructed")
	// Text direction: my fully escaped spelling is valid input.
	out2, _, err, p2 := lx.ParsePrint(R)
	if p2 != nil || err != nil {
		hx.Fail(t, test, "txt", c, "LLVM accepts the fully escaped spelling of %s %q but parse/print fails: %v %s\n%s", pos.name, s, err, p2, R)
	}
	checkOutput(t, test, pos, s, c, out2, rr.Out, "parsed")
}

func checkOutput(t hx.TB, test string, pos position, s, c, out, canonRef, how string) {
	m2, err, p := lx.Parse(out)
	if p != nil || err != nil {
		if kfLeadingDigit && leadingDigitCase(pos, s) {
			kf.Hit("KF-C11-leading-digit")
			return
		}
		hx.Fail(t, test, "txt", c, "%s module with %s %q: the printed text is not accepted by the parser: %v %s\n%s", how, pos.name, s, err, p, out)
	}
	got, ok := pos.get(m2)
	if !ok || got != s {
		if kfLeadingDigit && leadingDigitCase(pos, s) {
			kf.Hit("KF-C11-leading-digit")
			return
		}
		hx.Fail(t, test, "txt", c, "%s module with %s %q: after print→parse the %s is %q (found=%v)\n%s", how, pos.name, s, pos.name, got, ok, out)
	}
	ry := llvmx.Canon(out)
	if ry.Crashed {
		hx.Discard("oracle_unavailable")
		return
	}
	if !ry.OK {
		if kfLeadingDigit && leadingDigitCase(pos, s) {
			kf.Hit("KF-C11-leading-digit")
			return
		}
		hx.Fail(t, test, "txt", c, "%s module with %s %q: LLVM rejects the printed text: %s\n%s", how, pos.name, s, firstLine(ry.Err), out)
	}
	if a, b := llvmx.Normalize(canonRef), llvmx.Normalize(ry.Out); a != b {
		hx.Fail(t, test, "txt", c, "%s module with %s %q: LLVM decodes the printed token differently from the fully escaped spelling of the same bytes:\n%s\nprinted:\n%s", how, pos.name, s, llvmx.Diff(a, b), out)
	}
}

func leadingDigitCase(pos position, s string) bool { return false }

// Named types that are not structs (`%name = type i32 (i8*)`): one position per type kind, because every
// kind has its own String method. LLVM reads such a name as an alias, so the LLVM comparison checks the
// module without the name; the name itself is judged by the library's own round trip.
func init() {
	type kind struct {
		name, body, init string
		mk               func() types.Type
		ptrUse           bool
	}
	kinds := []kind{
		{"func", "i32 (i8*)", "null", func() types.Type { return types.NewFunc(types.NewInt(32), types.NewPointer(types.NewInt(8))) }, true},
		{"array", "[2 x i8]", "zeroinitializer", func() types.Type { return types.NewArray(2, types.NewInt(8)) }, false},
		{"vector", "<4 x i32>", "zeroinitializer", func() types.Type { return types.NewVector(4, types.NewInt(32)) }, false},
		{"pointer", "i8*", "null", func() types.Type { return types.NewPointer(types.NewInt(8)) }, false},
		{"int", "i32", "0", func() types.Type { return types.NewInt(32) }, false},
		{"float", "double", "0.0", func() types.Type { return &types.FloatType{Kind: types.FloatKindDouble} }, false},
	}
	for _, k := range kinds {
		k := k
		positions = append(positions, position{name: "type/" + k.name, build: func(s string) *ir.Module {
			m := ir.NewModule()
			name := s
			if strings.Trim(s, "0123456789") == "" {
				name = `"` + s + `"`
			}
			t := m.NewTypeDef(name, k.mk())
			if k.ptrUse {
				m.NewGlobalDef("g", constant.NewNull(types.NewPointer(t)))
			} else {
				m.NewGlobalDef("g", constant.NewZeroInitializer(t))
			}
			return m
		}, text: func(e string) string {
			if k.ptrUse {
				return "%\"" + e + "\" = type " + k.body + "\n@g = global %\"" + e + "\"* null\n"
			}
			return "%\"" + e + "\" = type " + k.body + "\n@g = global %\"" + e + "\" zeroinitializer\n"
		}, get: func(m *ir.Module) (string, bool) {
			if len(m.TypeDefs) != 1 {
				return "", false
			}
			n := m.TypeDefs[0].Name()
			if l := len(n); l > 2 && n[0] == '"' && n[l-1] == '"' && strings.Trim(n[1:l-1], "0123456789") == "" {
				n = n[1 : l-1]
			}
			// the use must carry the same name
			g := m.Globals[0]
			ct := g.ContentType
			if k.ptrUse {
				if pt, ok := ct.(*types.PointerType); ok {
					ct = pt.ElemType
				}
			}
			if ct.Name() != m.TypeDefs[0].Name() {
				return "use:" + ct.Name(), true
			}
			return n, true
		}, reject: func(s string) bool {
			if quotedDigits(s) && kfTypeQuotedDigits {
				kf.Hit("KF-C11-type-name-quoted-digits")
				return true
			}
			return false
		}})
	}
}

// TestNumberedTypes: `%7 = type <body>` for every kind of body keeps its number (it must not become the
// *name* "7") through print and parse, from text and through the API.
func TestNumberedTypes(t *testing.T) {
	const test = "NumberedTypes"
	hx.Rule(test, "numbered type definitions %N = type <body> for N in {0, 7, 42, 1000} x body kinds {struct, opaque, function, array, vector, pointer, integer, floating point}, from text and through Module.NewTypeDef(\"N\", ...): the printed text defines and uses %N (no quotes), is accepted by the parser and by LLVM, and is a fixpoint")
	bodies := []struct{ name, body, use string }{
		{"struct", "{ i32 }", "@g = global %%%d zeroinitializer"}, {"opaque", "opaque", "@g = external global %%%d"},
		{"func", "i32 (i8*)", "@g = global %%%d* null"}, {"array", "[2 x i8]", "@g = global %%%d zeroinitializer"},
		{"vector", "<4 x i32>", "@g = global %%%d zeroinitializer"}, {"pointer", "i8*", "@g = global %%%d null"},
		{"int", "i32", "@g = global %%%d 0"}, {"float", "double", "@g = global %%%d 0.0"},
	}
	for bi, b := range bodies {
		for _, n := range []int{0, 7, 42, 1000} {
			if !hx.Mine(bi) {
				continue
			}
			x := fmt.Sprintf("%%%d = type %s\n"+b.use+"\n", n, b.body, n)
			if !llvmx.Accept(x).OK {
				hx.Discard("llvm_rejects_reference_text/numbered-" + b.name)
				continue
			}
			hx.Eval(1)
			c := fmt.Sprintf("numbered-type/%s %d\n%s", b.name, n, x)
			y, _, err, p := lx.ParsePrint(x)
			if err != nil || p != nil {
				hx.Fail(t, test, "txt", c, "a numbered %s type is not parsed and printed: %v %v", b.name, err, p)
			}
			def := fmt.Sprintf("%%%d = type", n)
			if !strings.Contains(y, def) || strings.Contains(y, fmt.Sprintf("%%\"%d", n)) || strings.Count(y, fmt.Sprintf("%%%d", n)) < 2 {
				hx.Fail(t, test, "txt", c, "the numbered type %%%d (%s body) is not printed as %%%d in its definition and its use:\n%s", n, b.name, n, y)
			}
			z, _, err2, p2 := lx.ParsePrint(y)
			if err2 != nil || p2 != nil || z != y {
				hx.Fail(t, test, "txt", c, "the printed module is not a fixpoint (%v %v):\n%s\n--- second print ---\n%s", err2, p2, y, z)
			}
			if r := llvmx.Accept(y); !r.OK && !r.Crashed {
				hx.Fail(t, test, "txt", c, "LLVM rejects the printed module: %s\n%s", firstLine(r.Err), y)
			}
			hx.NonTrivial(c)
			hx.Hist("numbered-type/" + b.name)
		}
	}
}

func firstLine(s string) string {
	if i := strings.IndexByte(s, '\n'); i >= 0 {
		return s[:i]
	}
	return s
}

func posByName(n string) *position {
	for i := range positions {
		if positions[i].name == n {
			return &positions[i]
		}
	}
	return nil
}

func TestPositions(t *testing.T) {
	const test = "Positions"
	hx.Rule(test, fmt.Sprintf("rapid (position, byte string) over %d grammar positions (global, function, alias, parameter, local, label, type, comdat, named metadata, attachment kind, section, partition, gc, attribute string/key/value, module asm, source filename, target triple, inline asm, syncscope, bundle tag, metadata string, character array): a module built through the API with the string at that position is printed; the library's parser must read back exactly the bytes, and llvm-as|llvm-dis must read the printed token exactly as it reads my own fully \\XX-escaped spelling of the same bytes; the escaped spelling is also parsed and printed (text direction). Domain gate: llvm-as accepts the escaped spelling. Distinct case = (position, string)", len(positions)))
	hx.Check(t, test, hx.N(150, 4000), func(rt *rapid.T) {
		pos := positions[rapid.IntRange(0, len(positions)-1).Draw(rt, "pos")]
		s := genBytes(pos.nul, 1).Draw(rt, "s")
		if pos.reject != nil && pos.reject(s) {
			hx.Discard("outside_domain/" + pos.name)
			return
		}
		if strings.HasPrefix(s, "llvm.") {
			hx.Discard("outside_domain/llvm.-prefix")
			return
		}
		checkPosition(rt, test, pos, s)
		hx.NonTrivial(pos.name + "\x00" + s)
		hx.SampleCase(test, pos.name+" "+q(s))
	})
}

// TestPositionsCatalogue runs a fixed list of dangerous strings through every position.
func TestPositionsCatalogue(t *testing.T) {
	const test = "PositionsCatalogue"
	cat := []string{"a", "42", "0", "007", "1abc", "-5", "-0", "-00", "a b", `"`, `\`, `\5C`, `\\`, `\22`, "é", "\xff", "\x01", "4294967296", "18446744073709551616", "a\"b\\c", "x.y$z_-"}
	hx.Rule(test, fmt.Sprintf("every position x %d fixed strings (all digits, leading digit, leading '-', space, quote, backslash, \\5C, \\\\, non-UTF-8, numbers beyond 32 and 64 bits): same oracle as Positions", len(cat)))
	i := 0
	for _, pos := range positions {
		for _, s := range cat {
			i++
			if !hx.Mine(i) {
				continue
			}
			if pos.reject != nil && pos.reject(s) {
				continue
			}
			checkPosition(t, test, pos, s)
			hx.NonTrivial("cat/" + pos.name + "\x00" + s)
		}
	}
}

func TestReplay(t *testing.T) {
	path := os.Getenv("VERIF_REPLAY")
	if path == "" {
		t.Skip()
	}
	buf, err := os.ReadFile(path)
	if err != nil {
		t.Fatal(err)
	}
	for _, line := range strings.Split(string(buf), "\n") {
		i := strings.IndexByte(line, ' ')
		if i < 0 {
			continue
		}
		name := line[:i]
		s, err := strconv.Unquote(line[i+1:])
		if err != nil {
			continue
		}
		if pos := posByName(name); pos != nil {
			checkPosition(t, "Replay", *pos, s)
			continue
		}
		checkEncoders(t, "Replay", s)
	}
}
