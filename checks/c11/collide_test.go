package c11

import (
	"fmt"
	"strings"
	"testing"

	"github.com/llir/llvm/ir"
	"github.com/llir/llvm/ir/constant"
	"pgregory.net/rapid"

	"verif/h/hx"
	"verif/h/llvmx"
	"verif/h/lx"
	"verif/h/ref"
)

// nearNames: byte strings that are different names but look like the same number (or the same text)
// to code that normalises before comparing.
func nearNames(rt *rapid.T) []string {
	k := fmt.Sprint(rapid.IntRange(0, 12).Draw(rt, "k"))
	fam := []string{k, "0" + k, "00" + k, "+" + k, "-" + k, k + " ", " " + k, k + ".0", "0x" + k, k + "e0", "\"" + k, k + "\"", "\\" + k, "%" + k, "@" + k, k + ":", "a" + k, "A" + k, "a0" + k, "\x01" + k}
	n := rapid.IntRange(2, 6).Draw(rt, "n")
	perm := rapid.Permutation(fam).Draw(rt, "names")
	return perm[:n]
}

// TestCollidingNames: "unambiguously" over several names at once. Labels, globals and locals of one
// module carry names that differ as byte strings only; every one is referenced (blockaddress, switch
// target, use-list order, initialiser, operand) and marks its definition with a distinct constant, so a
// reference that is bound to a near namesake changes what LLVM reads.
func TestCollidingNames(t *testing.T) {
	const test = "CollidingNames"
	hx.Rule(test, "modules in which 2..6 labels of one function, 2..6 globals and 2..6 locals carry names that differ as byte strings but look alike after normalisation (k, 0k, 00k, +k, -k, 'k ', ' k', k.0, 0xk, ke0, names with quote, backslash, sigils, colon, control byte, case variants): every label is the target of a switch case, of a blockaddress in a global table and (half of the cases) of a uselistorder_bb directive, every global is referenced from a table, every local is an operand; each definition is marked by a distinct constant. Oracle: in the parsed module every blockaddress and switch target is the block carrying the expected marker and every name is the given byte string; llvm-as|llvm-dis reads the same module from the fully escaped input and from the printed output. Non-trivial = at least two names of a group are equal after stripping sign, zeros and spaces")
	hx.Check(t, test, hx.N(150, 4000), func(rt *rapid.T) {
		labels, globals, locals0 := nearNames(rt), nearNames(rt), nearNames(rt)
		// labels and locals share one namespace: the same byte string cannot be both
		var locals []string
		for _, l := range locals0 {
			dup := false
			for _, b := range labels {
				dup = dup || b == l
			}
			if !dup {
				locals = append(locals, l)
			}
		}
		esc := func(s string) string { return `"` + ref.HexEscapeAll(s) + `"` }
		var sb strings.Builder
		for i, g := range globals {
			fmt.Fprintf(&sb, "@%s = global i32 %d\n", esc(g), 100+i)
		}
		fmt.Fprintf(&sb, "@gtab = global [%d x i32*] [", len(globals))
		for i, g := range globals {
			if i > 0 {
				sb.WriteString(", ")
			}
			fmt.Fprintf(&sb, "i32* @%s", esc(g))
		}
		sb.WriteString("]\n")
		fmt.Fprintf(&sb, "@btab = global [%d x i8*] [", len(labels))
		for i, l := range labels {
			if i > 0 {
				sb.WriteString(", ")
			}
			fmt.Fprintf(&sb, "i8* blockaddress(@f, %%%s)", esc(l))
		}
		sb.WriteString("]\n")
		sb.WriteString("define i32 @f(i32 %p) {\nentry:\n")
		for i, l := range locals {
			fmt.Fprintf(&sb, "  %%%s = add i32 %%p, %d\n", esc(l), 1000+i)
		}
		sb.WriteString("  %sum0 = add i32 0, 0\n")
		for i, l := range locals {
			fmt.Fprintf(&sb, "  %%sum%d = xor i32 %%sum%d, %%%s\n", i+1, i, esc(l))
		}
		fmt.Fprintf(&sb, "  switch i32 %%sum%d, label %%%s [\n", len(locals), esc(labels[0]))
		for i, l := range labels {
			fmt.Fprintf(&sb, "    i32 %d, label %%%s\n", i, esc(l))
		}
		sb.WriteString("  ]\n")
		for i, l := range labels {
			fmt.Fprintf(&sb, "%s:\n  ret i32 %d\n", esc(l), 10+i)
		}
		sb.WriteString("}\n")
		ulo := len(labels) > 1 && rapid.Bool().Draw(rt, "uselistorder_bb")
		if ulo {
			// the last label has two uses (switch case, blockaddress)
			fmt.Fprintf(&sb, "uselistorder_bb @f, %%%s, { 1, 0 }\n", esc(labels[len(labels)-1]))
		}
		x := sb.String()
		hx.Eval(1)
		hx.Trace(test, "ll", x)
		rx := llvmx.Canon(x)
		if rx.Crashed {
			hx.Discard("oracle_unavailable")
			return
		}
		if !rx.OK {
			hx.Discard("llvm_rejects_input")
			hx.Note("CollidingNames: an input was rejected by llvm-as: " + firstLine(rx.Err))
			return
		}
		pm, err, p := lx.Parse(x)
		if err != nil || p != nil {
			hx.Fail(rt, test, "ll", x, "LLVM accepts the module but the parser does not: %v %v", err, p)
		}
		// in-memory bindings
		var f *ir.Func
		for _, fn := range pm.Funcs {
			if fn.Name() == "f" {
				f = fn
			}
		}
		marker := func(b *ir.Block) int64 {
			if r, ok := b.Term.(*ir.TermRet); ok {
				if c, ok := r.X.(*constant.Int); ok {
					return c.X.Int64()
				}
			}
			return -1
		}
		if f == nil || len(f.Blocks) != len(labels)+1 {
			hx.Fail(rt, test, "ll", x, "the parsed function has %d blocks, the text %d", len(f.Blocks), len(labels)+1)
		}
		for i, l := range labels {
			if got := f.Blocks[i+1].LocalName; got != l {
				hx.Fail(rt, test, "ll", x, "label %q is read as %q", l, got)
			}
		}
		sw, _ := f.Blocks[0].Term.(*ir.TermSwitch)
		if sw == nil || len(sw.Cases) != len(labels) {
			hx.Fail(rt, test, "ll", x, "the parsed switch has the wrong shape")
		}
		for i := range labels {
			if b, ok := sw.Cases[i].Target.(*ir.Block); !ok || marker(b) != int64(10+i) {
				hx.Fail(rt, test, "ll", x, "switch case %d names label %q (marked `ret i32 %d`) but is bound to the block marked %d: a different, similar-looking name was taken for it", i, labels[i], 10+i, marker(b))
			}
		}
		for _, g := range pm.Globals {
			if g.Name() != "btab" {
				continue
			}
			arr, ok := g.Init.(*constant.Array)
			if !ok || len(arr.Elems) != len(labels) {
				hx.Fail(rt, test, "ll", x, "@btab has the wrong shape")
			}
			for i, e := range arr.Elems {
				ba, ok := e.(*constant.BlockAddress)
				if !ok {
					hx.Fail(rt, test, "ll", x, "@btab element %d is a %T", i, e)
				}
				if b, ok := ba.Block.(*ir.Block); !ok || marker(b) != int64(10+i) {
					hx.Fail(rt, test, "ll", x, "blockaddress(@f, %%%s) (marked `ret i32 %d`) is bound to the block marked %d: a different, similar-looking name was taken for it", esc(labels[i]), 10+i, marker(b))
				}
			}
		}
		out, pp := lx.Print(pm)
		if pp != nil {
			hx.Fail(rt, test, "ll", x, "print panics: %s", pp)
		}
		ry := llvmx.Canon(out)
		if ry.Crashed {
			hx.Discard("oracle_unavailable")
			return
		}
		if !ry.OK {
			hx.Fail(rt, test, "ll", x, "LLVM accepts the input but rejects the printed module: %s\n%s", firstLine(ry.Err), out)
		}
		if a, b := llvmx.Normalize(rx.Out), llvmx.Normalize(ry.Out); a != b {
			hx.Fail(rt, test, "ll", x, "LLVM reads input and printed output differently (a name is bound to, or printed as, a similar-looking one):\n%s", llvmx.Diff(a, b))
		}
		strip := func(s string) string { return strings.TrimLeft(strings.Trim(s, " "), "+-0") }
		near := false
		for _, grp := range [][]string{labels, globals, locals} {
			seen := map[string]bool{}
			for _, s := range grp {
				if seen[strip(s)] {
					near = true
				}
				seen[strip(s)] = true
			}
		}
		if near {
			hx.NonTrivial(x)
		}
		hx.SampleCase(test, x)
	})
}
