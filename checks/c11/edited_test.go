package c11

import (
	"bytes"
	"fmt"
	"testing"

	"github.com/llir/llvm/ir"
	"github.com/llir/llvm/ir/constant"
	"pgregory.net/rapid"

	"verif/h/hx"
	"verif/h/lx"
	"verif/h/ref"
)

// TestPrintFollowsTheContents: the token printed for a character array is a function of the bytes it holds
// now. A constant is printed, its exported byte slice is changed — single bytes overwritten in place, a
// copy() over it, another slice of the same length assigned — and it is printed again, alone and inside its
// module: every time the printed token, read by the reference lexer and by the library's own parser, must be
// exactly the bytes of X at that moment, and two constants with different contents must not print alike.
func TestPrintFollowsTheContents(t *testing.T) {
	const test = "PrintFollowsTheContents"
	hx.Rule(test, "stateful: a character array (constant.NewCharArray in an API-built module, or taken from a parsed module; 1..24 bytes drawn from all 256 values with quotes, backslashes, NUL and bytes >= 0x80 favoured) goes through 2..6 steps, each an edit of X (one byte overwritten in place, copy() of other bytes over it, a new slice of the same length assigned) followed by Ident() and Module.String(): the token read by the reference lexer and the constant re-read by the library's parser from the module text equal X at that moment; non-trivial = all cases")
	hot := []byte{'"', '\\', 0, '\n', 0x7f, 0x80, 0xff, ' ', 'a', '0', '%', '@'}
	genByte := rapid.OneOf(rapid.SampledFrom(hot), rapid.Byte())
	hx.Check(t, test, hx.N(300, 20000), func(rt *rapid.T) {
		s := rapid.SliceOfN(genByte, 1, 24).Draw(rt, "bytes")
		parsed := rapid.Bool().Draw(rt, "fromParser")
		var m *ir.Module
		var c *constant.CharArray
		if parsed {
			text := fmt.Sprintf("@g = global [%d x i8] c\"%s\"\n", len(s), ref.HexEscapeAll(string(s)))
			pm, err, p := lx.Parse(text)
			if err != nil || p != nil {
				hx.Fail(rt, test, "txt", text, "a character array with every byte hex-escaped is not accepted: %v %v", err, p)
			}
			m = pm
			var ok bool
			if c, ok = m.Globals[0].Init.(*constant.CharArray); !ok {
				hx.Discard("not_a_char_array")
				return
			}
		} else {
			m = ir.NewModule()
			c = constant.NewCharArray(append([]byte(nil), s...))
			m.NewGlobalDef("g", c)
		}
		hx.Eval(1)
		desc := fmt.Sprintf("%q (from parser: %v)\n", s, parsed)
		check := func(step string) {
			tok := c.Ident()
			ok, got := false, ""
			if len(tok) > 1 && tok[0] == 'c' {
				ok, got = ref.LexQuoted(tok[1:])
			}
			if !ok || got != string(c.X) {
				hx.Fail(rt, test, "txt", desc, "%safter %s the constant holds %q but prints %s (which the lexer reads as %q, ok=%v)", desc, step, c.X, tok, got, ok)
			}
			out, pp := lx.Print(m)
			pm, err, p := lx.Parse(out)
			if pp != nil || err != nil || p != nil {
				hx.Fail(rt, test, "txt", desc, "%safter %s the module is not printed or not read back: %v %v %v\n%s", desc, step, pp, err, p, out)
			}
			back, isCA := pm.Globals[0].Init.(*constant.CharArray)
			if !isCA || !bytes.Equal(back.X, c.X) {
				hx.Fail(rt, test, "txt", desc, "%safter %s the constant holds %q but the printed module reads back as %v\n%s", desc, step, c.X, pm.Globals[0].Init, out)
			}
		}
		check("construction")
		for n := rapid.IntRange(2, 6).Draw(rt, "steps"); n > 0; n-- {
			var step string
			switch rapid.IntRange(0, 3).Draw(rt, "edit") {
			case 0, 1:
				i := rapid.IntRange(0, len(c.X)-1).Draw(rt, "i")
				b := genByte.Draw(rt, "b")
				c.X[i] = b
				step = fmt.Sprintf("X[%d] = %#x", i, b)
			case 2:
				o := rapid.SliceOfN(genByte, 1, len(c.X)).Draw(rt, "other")
				copy(c.X, o)
				step = fmt.Sprintf("copy(X, %q)", o)
			default:
				o := rapid.SliceOfN(genByte, len(c.X), len(c.X)).Draw(rt, "fresh")
				c.X = o
				step = fmt.Sprintf("X = %q (new slice)", o)
			}
			hx.Hist("edit/" + step[:4])
			check(step)
		}
		hx.NonTrivial(desc)
		hx.SampleCase(test, desc)
	})
}
