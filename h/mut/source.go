package mut

import (
	"fmt"

	"pgregory.net/rapid"

	"verif/h/corpus"
	"verif/h/llvmx"
	"verif/h/lx"
)

var bases []string

func loadBases() {
	if bases != nil {
		return
	}
	for _, f := range corpus.Fixed() {
		if len(f.Text) <= 24<<10 {
			bases = append(bases, f.Text)
		}
	}
	// real compiler output (clang-14 over corpus/src), the smaller modules
	for i, c := range corpus.ClangCases() {
		if i%3 != 0 {
			continue
		}
		if x := c.Text(); x != "" && len(x) <= 24<<10 {
			bases = append(bases, x)
		}
	}
}

// Valid draws a base module (repository testdata or llvm-stress output), mutates it and returns the
// mutated text if llvm-as accepts it and the library's parser accepts it too; ok is false otherwise
// (the caller discards the case). The description names the base and the operators applied.
func Valid(rt *rapid.T) (text, desc string, ok bool) {
	loadBases()
	var base string
	if len(bases) > 0 && rapid.IntRange(0, 3).Draw(rt, "mutbasekind") != 0 {
		i := rapid.IntRange(0, len(bases)-1).Draw(rt, "mutbase")
		base, desc = bases[i], fmt.Sprintf("corpus base #%d (testdata / clang output)", i)
	} else {
		seed := rapid.Uint64Range(1, 1<<31).Draw(rt, "mut_stress_seed")
		base = corpus.Stress(seed, rapid.SampledFrom([]int{10, 30, 100}).Draw(rt, "mut_stress_size"))
		desc = fmt.Sprintf("llvm-stress-14 -seed %d", seed)
		if base == "" {
			return "", desc, false
		}
	}
	x, ops := Mutate(rt, base, bases)
	if len(ops) == 0 {
		return "", desc, false
	}
	desc += fmt.Sprintf(" + %v", ops)
	if _, err, p := lx.Parse(x); err != nil || p != nil {
		return "", desc, false
	}
	if !llvmx.Accept(x).OK {
		return "", desc, false
	}
	return x, desc, true
}
