// Package mut holds deterministic, rapid-driven text mutators for LLVM assembly. They turn a valid
// module (repository testdata, llvm-stress output, harvested fuzz corpus) into a nearby text that is
// often still valid: keywords are exchanged inside their class, optional flags are inserted or dropped,
// integer operands become boundary values, identifiers get redundant quotes, top-level definitions move,
// lines are deleted or spliced in from another module. Whether the result is valid is decided by
// llvm-as (the caller's gate), never assumed.
package mut

import (
	"regexp"
	"strings"

	"pgregory.net/rapid"
)

var classes = [][]string{
	{"private", "internal", "available_externally", "linkonce", "weak", "common", "appending", "extern_weak", "linkonce_odr", "weak_odr", "external"},
	{"default", "hidden", "protected"},
	{"dllimport", "dllexport"},
	{"unnamed_addr", "local_unnamed_addr"},
	{"dso_local", "dso_preemptable"},
	{"ccc", "fastcc", "coldcc", "webkit_jscc", "anyregcc", "preserve_mostcc", "preserve_allcc", "cxx_fast_tlscc", "swiftcc", "swifttailcc", "tailcc", "cfguard_checkcc", "ghccc", "x86_stdcallcc", "x86_fastcallcc", "x86_thiscallcc", "x86_vectorcallcc", "x86_regcallcc", "arm_apcscc", "arm_aapcscc", "arm_aapcs_vfpcc", "msp430_intrcc", "ptx_kernel", "ptx_device", "spir_func", "spir_kernel", "intel_ocl_bicc", "x86_64_sysvcc", "win64cc", "hhvmcc", "hhvm_ccc", "amdgpu_vs", "amdgpu_gs", "amdgpu_ps", "amdgpu_cs", "amdgpu_hs", "amdgpu_ls", "amdgpu_es", "amdgpu_kernel", "amdgpu_gfx", "avr_intrcc", "avr_signalcc", "aarch64_vector_pcs", "aarch64_sve_vector_pcs"},
	{"nsw", "nuw", "exact"},
	{"nnan", "ninf", "nsz", "arcp", "contract", "afn", "reassoc", "fast"},
	{"eq", "ne", "ugt", "uge", "ult", "ule", "sgt", "sge", "slt", "sle"},
	{"oeq", "ogt", "oge", "olt", "ole", "one", "ord", "ueq", "une", "uno"},
	{"unordered", "monotonic", "acquire", "release", "acq_rel", "seq_cst"},
	{"tail", "musttail", "notail"},
	{"zeroext", "signext", "inreg", "noalias", "nocapture", "nonnull", "readonly", "readnone", "writeonly", "noundef", "nofree", "returned", "immarg", "swiftself", "swifterror", "swiftasync", "nest"},
	{"nounwind", "readnone", "readonly", "writeonly", "argmemonly", "inaccessiblememonly", "norecurse", "nosync", "nofree", "willreturn", "mustprogress", "cold", "hot", "noinline", "alwaysinline", "optnone", "optsize", "minsize", "noreturn", "uwtable", "ssp", "sspreq", "sspstrong", "safestack", "sanitize_address", "sanitize_thread", "sanitize_memory", "sanitize_hwaddress", "sanitize_memtag", "speculatable", "strictfp", "nobuiltin", "builtin", "convergent", "inlinehint", "naked", "nocf_check", "nocallback", "nomerge", "noprofile", "null_pointer_is_valid", "returns_twice", "shadowcallstack", "speculative_load_hardening", "jumptable", "noduplicate", "noimplicitfloat", "nonlazybind", "noredzone", "disable_sanitizer_instrumentation", "nosanitize_coverage", "mustprogress"},
	{"add", "sub", "mul"},
	{"and", "or", "xor"},
	{"shl", "lshr", "ashr"},
	{"udiv", "sdiv", "urem", "srem"},
	{"fadd", "fsub", "fmul", "fdiv", "frem"},
	{"zext", "sext"},
	{"fptoui", "fptosi"},
	{"uitofp", "sitofp"},
	{"xchg", "add", "sub", "and", "nand", "or", "xor", "max", "min", "umax", "umin", "fadd", "fsub"},
	{"any", "exactmatch", "largest", "nodeduplicate", "samesize"},
	{"volatile", ""},
	{"inbounds", ""},
	{"weak", ""},
	{"distinct", ""},
	{"global", "constant"},
	{"undef", "poison", "zeroinitializer"},
	{"true", "false"},
	{"i1", "i8", "i16", "i32", "i64", "i128"},
	{"half", "bfloat", "float", "double", "fp128", "x86_fp80", "ppc_fp128"},
}

var classOf = map[string][]int{}

func init() {
	for ci, c := range classes {
		for _, w := range c {
			if w != "" {
				classOf[w] = append(classOf[w], ci)
			}
		}
	}
}

var (
	reWord   = regexp.MustCompile(`[A-Za-z_][A-Za-z0-9_.]*`)
	reIntTok = regexp.MustCompile(`(^|[ ,(\[<])(-?\d+)($|[ ,)\]>])`)
	reIdent  = regexp.MustCompile(`([%@])([A-Za-z_.$][A-Za-z0-9_.$-]*)`)
)

// inString reports whether byte offset i of line lies inside a double-quoted string or a comment.
func inString(line string, i int) bool {
	q := false
	for k := 0; k < i && k < len(line); k++ {
		switch line[k] {
		case '"':
			q = !q
		case ';':
			if !q {
				return true
			}
		}
	}
	return q
}

// Ops lists the mutation operators.
var Ops = []string{"keyword", "keyword", "keyword", "insert-flag", "drop-word", "int-boundary", "quote-ident", "comment", "delete-line", "move-top", "splice-line", "dup-attachment"}

// Mutate applies between 1 and 3 drawn mutations to x. donors are other modules lines may be spliced from.
// It returns the mutated text and the list of operators that changed something.
func Mutate(rt *rapid.T, x string, donors []string) (string, []string) {
	n := rapid.IntRange(1, 3).Draw(rt, "nmut")
	var applied []string
	for k := 0; k < n; k++ {
		op := rapid.SampledFrom(Ops).Draw(rt, "mutop")
		y := apply(rt, op, x, donors)
		if y != x {
			applied = append(applied, op)
			x = y
		}
	}
	return x, applied
}

func pickLine(rt *rapid.T, lines []string, ok func(string) bool) int {
	var c []int
	for i, l := range lines {
		if ok(l) {
			c = append(c, i)
		}
	}
	if len(c) == 0 {
		return -1
	}
	return c[rapid.IntRange(0, len(c)-1).Draw(rt, "line")]
}

func apply(rt *rapid.T, op, x string, donors []string) string {
	lines := strings.Split(x, "\n")
	code := func(l string) bool { t := strings.TrimSpace(l); return t != "" && !strings.HasPrefix(t, ";") }
	switch op {
	case "keyword":
		// collect (line, start, end, class) of every keyword occurrence outside strings
		type occ struct{ li, s, e, ci int }
		var occs []occ
		for li, l := range lines {
			if !code(l) {
				continue
			}
			for _, m := range reWord.FindAllStringIndex(l, -1) {
				w := l[m[0]:m[1]]
				if m[0] > 0 && (l[m[0]-1] == '%' || l[m[0]-1] == '@' || l[m[0]-1] == '!' || l[m[0]-1] == '$' || l[m[0]-1] == '#') {
					continue
				}
				if cs, ok := classOf[w]; ok && !inString(l, m[0]) {
					for _, ci := range cs {
						occs = append(occs, occ{li, m[0], m[1], ci})
					}
				}
			}
		}
		if len(occs) == 0 {
			return x
		}
		o := occs[rapid.IntRange(0, len(occs)-1).Draw(rt, "kwocc")]
		repl := rapid.SampledFrom(classes[o.ci]).Draw(rt, "kwrepl")
		l := lines[o.li]
		if repl == "" {
			// drop the word and one following space
			e := o.e
			if e < len(l) && l[e] == ' ' {
				e++
			}
			lines[o.li] = l[:o.s] + l[e:]
		} else {
			lines[o.li] = l[:o.s] + repl + l[o.e:]
		}
	case "insert-flag":
		table := []struct{ after, flag string }{
			{"add", "nsw"}, {"add", "nuw"}, {"sub", "nsw"}, {"mul", "nuw"}, {"shl", "nsw"}, {"shl", "nuw"}, {"udiv", "exact"}, {"sdiv", "exact"}, {"lshr", "exact"}, {"ashr", "exact"},
			{"fadd", "fast"}, {"fmul", "nnan"}, {"fsub", "reassoc"}, {"fdiv", "arcp"}, {"fcmp", "ninf"}, {"fneg", "nsz"}, {"select", "contract"}, {"phi", "afn"}, {"call", "fast"},
			{"load", "volatile"}, {"store", "volatile"}, {"load", "atomic"}, {"getelementptr", "inbounds"}, {"cmpxchg", "weak"}, {"cmpxchg", "volatile"}, {"atomicrmw", "volatile"},
			{"landingpad", "cleanup"}, {"call", "tail"}, {"call", "notail"}, {"global", "externally_initialized"}, {"define", "dso_local"}, {"declare", "dso_local"},
		}
		e := table[rapid.IntRange(0, len(table)-1).Draw(rt, "flag")]
		li := pickLine(rt, lines, func(l string) bool {
			i := strings.Index(l, " "+e.after+" ")
			if i < 0 && strings.HasPrefix(strings.TrimSpace(l), e.after+" ") {
				return true
			}
			return i >= 0 && !inString(l, i)
		})
		if li < 0 {
			return x
		}
		l := lines[li]
		i := strings.Index(l, e.after+" ")
		if e.flag == "tail" || e.flag == "notail" || e.flag == "dso_local" && false {
			lines[li] = l[:i] + e.flag + " " + l[i:]
		} else {
			j := i + len(e.after) + 1
			lines[li] = l[:j] + e.flag + " " + l[j:]
		}
	case "drop-word":
		li := pickLine(rt, lines, code)
		if li < 0 {
			return x
		}
		l := lines[li]
		ms := reWord.FindAllStringIndex(l, -1)
		var c [][]int
		for _, m := range ms {
			if m[0] > 0 && (l[m[0]-1] == '%' || l[m[0]-1] == '@' || l[m[0]-1] == '!' || l[m[0]-1] == '$' || l[m[0]-1] == '#' || l[m[0]-1] == '"') {
				continue
			}
			if _, ok := classOf[l[m[0]:m[1]]]; ok && !inString(l, m[0]) {
				c = append(c, m)
			}
		}
		if len(c) == 0 {
			return x
		}
		m := c[rapid.IntRange(0, len(c)-1).Draw(rt, "dropw")]
		e := m[1]
		if e < len(l) && l[e] == ' ' {
			e++
		}
		lines[li] = l[:m[0]] + l[e:]
	case "int-boundary":
		li := pickLine(rt, lines, func(l string) bool {
			return code(l) && reIntTok.MatchString(l) && !strings.HasPrefix(strings.TrimSpace(l), "!")
		})
		if li < 0 {
			return x
		}
		l := lines[li]
		ms := reIntTok.FindAllStringSubmatchIndex(l, -1)
		m := ms[rapid.IntRange(0, len(ms)-1).Draw(rt, "intocc")]
		if inString(l, m[4]) {
			return x
		}
		repl := rapid.SampledFrom([]string{"0", "1", "-1", "2", "7", "8", "16", "127", "128", "255", "256", "65535", "2147483647", "-2147483648", "4294967295", "4294967296", "9223372036854775807", "-9223372036854775808", "18446744073709551615"}).Draw(rt, "intrepl")
		lines[li] = l[:m[4]] + repl + l[m[5]:]
	case "quote-ident":
		li := pickLine(rt, lines, func(l string) bool { return code(l) && reIdent.MatchString(l) })
		if li < 0 {
			return x
		}
		l := lines[li]
		ms := reIdent.FindAllStringSubmatchIndex(l, -1)
		m := ms[rapid.IntRange(0, len(ms)-1).Draw(rt, "identocc")]
		if inString(l, m[0]) {
			return x
		}
		lines[li] = l[:m[4]] + `"` + l[m[4]:m[5]] + `"` + l[m[5]:]
	case "comment":
		li := pickLine(rt, lines, code)
		if li < 0 {
			return x
		}
		if !strings.Contains(lines[li], `"`) {
			lines[li] += `   ; "note" %x @y !0 #1`
		}
	case "delete-line":
		li := pickLine(rt, lines, func(l string) bool {
			return code(l) && strings.HasPrefix(l, " ") || strings.HasPrefix(l, "!") || strings.HasPrefix(l, "attributes ") || strings.HasPrefix(l, "@")
		})
		if li < 0 {
			return x
		}
		lines = append(lines[:li], lines[li+1:]...)
	case "move-top":
		// split into top-level chunks: a chunk starts at a column-0 non-blank line that is not '}' and runs to the next such line
		var chunks [][]string
		for _, l := range lines {
			if len(chunks) == 0 || l != "" && l[0] != ' ' && l[0] != '\t' && l[0] != '}' && !isLabelLine(l) {
				chunks = append(chunks, nil)
			}
			chunks[len(chunks)-1] = append(chunks[len(chunks)-1], l)
		}
		if len(chunks) < 3 {
			return x
		}
		i := rapid.IntRange(0, len(chunks)-1).Draw(rt, "chunkfrom")
		j := rapid.IntRange(0, len(chunks)-1).Draw(rt, "chunkto")
		c := chunks[i]
		chunks = append(chunks[:i], chunks[i+1:]...)
		if j > len(chunks) {
			j = len(chunks)
		}
		chunks = append(chunks[:j], append([][]string{c}, chunks[j:]...)...)
		lines = nil
		for _, c := range chunks {
			lines = append(lines, c...)
		}
	case "splice-line":
		if len(donors) == 0 {
			return x
		}
		d := strings.Split(donors[rapid.IntRange(0, len(donors)-1).Draw(rt, "donor")], "\n")
		di := pickLine(rt, d, func(l string) bool {
			return strings.HasPrefix(l, "@") || strings.HasPrefix(l, "declare ") || strings.HasPrefix(l, "attributes ") || strings.HasPrefix(l, "!") && !strings.HasPrefix(l, "!llvm.") || strings.HasPrefix(l, "$") || strings.HasPrefix(l, "%") && strings.Contains(l, "= type")
		})
		if di < 0 {
			return x
		}
		lines = append(lines, d[di])
	case "dup-attachment":
		li := pickLine(rt, lines, func(l string) bool { return code(l) && strings.Contains(l, ", !") && strings.HasPrefix(l, " ") })
		if li < 0 {
			return x
		}
		l := lines[li]
		i := strings.LastIndex(l, ", !")
		att := l[i:]
		// same node under another kind name
		f := strings.Fields(att[2:])
		if len(f) >= 2 {
			lines[li] = l + ", !verif.extra " + f[1]
		}
	}
	return strings.Join(lines, "\n")
}

func isLabelLine(l string) bool {
	t := strings.TrimSpace(l)
	if i := strings.IndexByte(t, ';'); i >= 0 {
		t = strings.TrimSpace(t[:i])
	}
	return strings.HasSuffix(t, ":") && !strings.Contains(t, " ")
}
