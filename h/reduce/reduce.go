// Package reduce minimises textual LLVM modules (external corpus inputs that
// rapid cannot shrink) with a line-based delta-debugging loop.
package reduce

import "strings"

// Lines removes chunks of lines from text while keep(candidate) stays true, with
// at most budget calls to keep. keep must include the domain gate (e.g. still
// accepted by llvm-as) and the failure class.
func Lines(text string, budget int, keep func(string) bool) string {
	lines := strings.Split(text, "\n")
	calls := 0
	n := 2
	for len(lines) >= 2 && calls < budget {
		chunk := (len(lines) + n - 1) / n
		reduced := false
		for start := 0; start < len(lines) && calls < budget; start += chunk {
			end := start + chunk
			if end > len(lines) {
				end = len(lines)
			}
			cand := append(append([]string{}, lines[:start]...), lines[end:]...)
			calls++
			if keep(strings.Join(cand, "\n")) {
				lines = cand
				reduced = true
				if n > 2 {
					n--
				}
				break
			}
		}
		if !reduced {
			if chunk <= 1 {
				break
			}
			n *= 2
			if n > len(lines) {
				n = len(lines)
			}
		}
	}
	return strings.Join(lines, "\n")
}
