package llvmx

import (
	"regexp"
	"sort"
	"strconv"
	"strings"
)

var (
	reTrailAtt = regexp.MustCompile(`((?:,? ![-a-zA-Z$._\\0-9]+ !\d+)+)( \{| #\d+)?$`) // `{` of a definition, `#N` of a global variable's attributes
	reDeclAtt  = regexp.MustCompile(`^declare((?: ![-a-zA-Z$._\\0-9]+ !\d+)+) `)
	reOneAtt   = regexp.MustCompile(`,? (![-a-zA-Z$._\\0-9]+ !\d+)`)
)

// sortAttachments orders the metadata attachments of a definition line by kind
// name: LLVM prints them in the order of its internal kind IDs, which depends on
// the order in which kinds were first seen in the file, not on the module's meaning.
func sortAttachments(line string) string {
	sortList := func(list, sep string) string {
		var items []string
		for _, m := range reOneAtt.FindAllStringSubmatch(list, -1) {
			items = append(items, m[1])
		}
		// by kind only, and stable: several attachments of one kind (allowed on global objects) keep their
		// order, which LLVM preserves and which is part of the module
		kind := func(s string) string { return s[:strings.IndexByte(s, ' ')] }
		sort.SliceStable(items, func(i, j int) bool { return kind(items[i]) < kind(items[j]) })
		return sep + strings.Join(items, sep)
	}
	if m := reDeclAtt.FindStringSubmatchIndex(line); m != nil {
		list := line[m[2]:m[3]]
		line = line[:m[2]] + sortList(list, " ") + line[m[3]:]
	}
	if m := reTrailAtt.FindStringSubmatchIndex(line); m != nil {
		list := line[m[2]:m[3]]
		sep := " "
		if strings.HasPrefix(list, ",") {
			sep = ", "
		}
		line = line[:m[2]] + sortList(list, sep) + line[m[3]:]
	}
	return line
}

// seg is a piece of a line: either a quoted string literal (kept verbatim) or code.
type seg struct {
	str  bool
	text string
}

func splitSegs(line string) []seg {
	var out []seg
	i := 0
	start := 0
	for i < len(line) {
		if line[i] == '"' {
			if i > start {
				out = append(out, seg{text: line[start:i]})
			}
			j := i + 1
			for j < len(line) && line[j] != '"' {
				j++
			}
			if j < len(line) {
				j++
			}
			out = append(out, seg{str: true, text: line[i:j]})
			i = j
			start = j
			continue
		}
		if line[i] == ';' {
			// comment to end of line (outside strings)
			if i > start {
				out = append(out, seg{text: line[start:i]})
			}
			start = len(line)
			break
		}
		i++
	}
	if start < len(line) {
		out = append(out, seg{text: line[start:]})
	}
	return out
}

// mdRefs returns the metadata IDs referenced in code segments, in order, and
// rewrites them through f when f != nil.
func mapRefs(line string, f func(id int) string, visit func(id int)) string {
	segs := splitSegs(line)
	var b strings.Builder
	for _, s := range segs {
		if s.str {
			b.WriteString(s.text)
			continue
		}
		t := s.text
		for i := 0; i < len(t); {
			if t[i] == '!' && i+1 < len(t) && t[i+1] >= '0' && t[i+1] <= '9' {
				j := i + 1
				for j < len(t) && t[j] >= '0' && t[j] <= '9' {
					j++
				}
				id, _ := strconv.Atoi(t[i+1 : j])
				if visit != nil {
					visit(id)
				}
				if f != nil {
					b.WriteString(f(id))
				} else {
					b.WriteString(t[i:j])
				}
				i = j
				continue
			}
			b.WriteByte(t[i])
			i++
		}
	}
	return strings.TrimRight(b.String(), " \t")
}

// Normalize brings llvm-dis output into a form that is invariant under the
// freedoms the printer of llir legitimately takes: order of named metadata,
// numbering of metadata nodes, order of type definitions and comdats; it
// drops the ModuleID / implicit source_filename lines and comments.
func Normalize(canon string) string {
	lines := strings.Split(canon, "\n")
	var (
		body     []string // everything except metadata, types, comdats
		typeDefs []string
		comdats  []string
		named    []string
		defs     = map[int]string{} // id -> text after "!N = "
		defOrder []int
	)
	for _, raw := range lines {
		line := mapRefs(raw, nil, nil) // strips comments and trailing space
		if strings.TrimSpace(line) == "" {
			continue
		}
		switch {
		case strings.HasPrefix(line, "source_filename = \"<stdin>\""):
			continue
		case strings.HasPrefix(line, "!") && len(line) > 1 && line[1] >= '0' && line[1] <= '9' && strings.Contains(line, " = "):
			k := strings.Index(line, " = ")
			id, err := strconv.Atoi(line[1:k])
			if err == nil {
				defs[id] = line[k+3:]
				defOrder = append(defOrder, id)
				continue
			}
			body = append(body, line)
		case strings.HasPrefix(line, "!") && strings.Contains(line, " = !{"):
			named = append(named, line)
		case strings.HasPrefix(line, "%") && strings.Contains(line, " = type "):
			typeDefs = append(typeDefs, line)
		case strings.HasPrefix(line, "$") && strings.Contains(line, " = comdat "):
			comdats = append(comdats, line)
		default:
			body = append(body, sortAttachments(line))
		}
	}
	sort.Strings(typeDefs)
	sort.Strings(comdats)
	sort.Strings(named)
	// Canonical numbering: DFS from named metadata (sorted), then from the body in text order.
	newID := map[int]int{}
	var order []int
	var visit func(id int)
	visit = func(id int) {
		if _, ok := newID[id]; ok {
			return
		}
		newID[id] = len(order)
		order = append(order, id)
		if d, ok := defs[id]; ok {
			mapRefs(d, nil, visit)
		}
	}
	for _, l := range named {
		mapRefs(l, nil, visit)
	}
	for _, l := range body {
		mapRefs(l, nil, visit)
	}
	for _, id := range defOrder {
		visit(id)
	}
	ren := func(id int) string { return "!" + strconv.Itoa(newID[id]) }
	var out []string
	out = append(out, typeDefs...)
	out = append(out, comdats...)
	for _, l := range body {
		out = append(out, mapRefs(l, ren, nil))
	}
	for _, l := range named {
		out = append(out, mapRefs(l, ren, nil))
	}
	for _, id := range order {
		if d, ok := defs[id]; ok {
			out = append(out, ren(id)+" = "+mapRefs(d, ren, nil))
		}
	}
	return strings.Join(out, "\n") + "\n"
}

// Diff returns a short description of the first differing lines of two normal forms.
func Diff(a, b string) string {
	la, lb := strings.Split(a, "\n"), strings.Split(b, "\n")
	var sb strings.Builder
	n := 0
	i, j := 0, 0
	for i < len(la) || j < len(lb) {
		switch {
		case i < len(la) && j < len(lb) && la[i] == lb[j]:
			i++
			j++
			continue
		case i < len(la) && j < len(lb):
			sb.WriteString("- " + la[i] + "\n+ " + lb[j] + "\n")
			i++
			j++
		case i < len(la):
			sb.WriteString("- " + la[i] + "\n")
			i++
		default:
			sb.WriteString("+ " + lb[j] + "\n")
			j++
		}
		n++
		if n >= 6 {
			sb.WriteString("…\n")
			break
		}
	}
	return sb.String()
}
