package llvmx

import "testing"

func TestSortAttachments(t *testing.T) {
	cases := [][2]string{
		{"  %v = add i32 1, 2, !my.md !3, !foo !1", "  %v = add i32 1, 2, !foo !1, !my.md !3"},
		{"define void @f() !b !1 !a !2 {", "define void @f() !a !2 !b !1 {"},
		{"declare !b !1 !a !2 void @f()", "declare !a !2 !b !1 void @f()"},
		{"@g = global i32 0, align 4, !z !0, !a !1", "@g = global i32 0, align 4, !a !1, !z !0"},
		{"@g = external global i8, !z !0, !a !2, !a !1 #3", "@g = external global i8, !a !2, !a !1, !z !0 #3"},
		{"  ret void", "  ret void"},
	}
	for _, c := range cases {
		if got := sortAttachments(c[0]); got != c[1] {
			t.Errorf("sortAttachments(%q) = %q, want %q", c[0], got, c[1])
		}
	}
}
