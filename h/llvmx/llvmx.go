// Package llvmx wraps the LLVM 14 command line tools used as independent
// oracles and implements the normaliser for llvm-dis output.
package llvmx

import (
	"bytes"
	"context"
	"os/exec"
	"syscall"
	"time"
)

// Result of running a tool.
type Result struct {
	OK      bool   // exit status 0 (and, for Accept, empty stderr)
	Out     string // stdout
	Err     string // stderr
	Crashed bool   // tool died from a signal: oracle unavailable
}

func run(stdin []byte, name string, args ...string) Result {
	// A tool that does not answer within the limit counts as "oracle unavailable" (Crashed), never as a verdict.
	ctx, cancel := context.WithTimeout(context.Background(), 60*time.Second)
	defer cancel()
	cmd := exec.CommandContext(ctx, name, args...)
	cmd.Stdin = bytes.NewReader(stdin)
	var out, errb bytes.Buffer
	cmd.Stdout = &out
	cmd.Stderr = &errb
	err := cmd.Run()
	r := Result{Out: out.String(), Err: errb.String()}
	if ctx.Err() != nil {
		r.Crashed = true
		r.Err = "timeout: " + name
		return r
	}
	if err == nil {
		r.OK = true
		return r
	}
	if ee, ok := err.(*exec.ExitError); ok {
		if ws, ok := ee.Sys().(syscall.WaitStatus); ok && ws.Signaled() {
			r.Crashed = true
		}
		// LLVM tools print a stack dump and abort on internal errors.
		if bytes.Contains(errb.Bytes(), []byte("PLEASE submit a bug report")) || bytes.Contains(errb.Bytes(), []byte("Stack dump:")) {
			r.Crashed = true
		}
	} else {
		r.Crashed = true
		r.Err = err.Error()
	}
	return r
}

// Accept reports whether llvm-as-14 (verifier on) accepts the module silently:
// exit 0 and nothing on stderr (llvm-as only warns about invalid debug info and strips it).
func Accept(text string) Result {
	r := run([]byte(text), "llvm-as-14", "-o", "/dev/null", "-")
	if r.OK && r.Err != "" {
		r.OK = false
	}
	return r
}

// Canon returns llvm-as | llvm-dis of text (LLVM's own reading, printed canonically).
func Canon(text string) Result {
	r := run([]byte(text), "llvm-as-14", "-o", "-", "-")
	if r.OK && r.Err != "" {
		r.OK = false
	}
	if !r.OK {
		return r
	}
	d := run([]byte(r.Out), "llvm-dis-14", "-o", "-", "-")
	return d
}

// Opt runs opt-14 -S with the given arguments.
func Opt(text string, args ...string) Result {
	a := append([]string{"-S", "-o", "-"}, args...)
	a = append(a, "-")
	return run([]byte(text), "opt-14", a...)
}

// Stress runs llvm-stress-14.
func Stress(seed uint64, size int, extra ...string) Result {
	a := []string{"-seed", itoa(seed), "-size", itoa(uint64(size)), "-o", "-"}
	a = append(a, extra...)
	return run(nil, "llvm-stress-14", a...)
}

// Lli executes a module's main with lli-14 and returns its stdout and exit code.
func Lli(text string) (Result, int) {
	cmd := exec.Command("lli-14", "-")
	cmd.Stdin = bytes.NewReader([]byte(text))
	var out, errb bytes.Buffer
	cmd.Stdout = &out
	cmd.Stderr = &errb
	err := cmd.Run()
	r := Result{Out: out.String(), Err: errb.String(), OK: err == nil}
	code := 0
	if ee, ok := err.(*exec.ExitError); ok {
		code = ee.ExitCode()
		if ws, ok := ee.Sys().(syscall.WaitStatus); ok && ws.Signaled() {
			r.Crashed = true
		}
	}
	return r, code
}

func itoa(v uint64) string {
	if v == 0 {
		return "0"
	}
	var b [20]byte
	i := len(b)
	for v > 0 {
		i--
		b[i] = byte('0' + v%10)
		v /= 10
	}
	return string(b[i:])
}
