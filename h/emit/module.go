package emit

import (
	"fmt"
	"strconv"
	"strings"

	asmenum "github.com/llir/llvm/asm/enum"
	"github.com/llir/llvm/ir"
	"github.com/llir/llvm/ir/constant"
	"github.com/llir/llvm/ir/enum"
	"github.com/llir/llvm/ir/metadata"
	"github.com/llir/llvm/ir/types"
	"github.com/llir/llvm/ir/value"

	"verif/h/am"
)

// Builder replays an abstract module through llir's public constructors.
type Builder struct {
	stale  bool
	lateAS bool
	lateAssign []func()
	M      *ir.Module
	ts     *Types
	am     *am.Module
	funcs  map[*am.Fun]*ir.Func
	globs  map[*am.Global]*ir.Global
	alias  map[*am.Alias]value.Value
	blocks map[*am.Block]*ir.Block
	insts  map[*am.Inst]value.Value
	params map[*am.Param]*ir.Param
	comdat map[*am.Comdat]*ir.ComdatDef
	groups map[*am.AttrGroup]*ir.AttrGroupDef
	mds    map[*am.MDNode]*metadata.Tuple
	// share: equal constants are one Go object, used at every place where the program needs that constant
	share bool
	cmemo map[string]constant.Constant
	// Calls counts constructor calls per kind (evidence histogram).
	Calls map[string]int
	// fixups run after all bodies exist (phi incoming values, blockaddress)
	late []func()
}

func (b *Builder) call(name string) { b.Calls[name]++ }

// Module builds the llir module for m. Panics of llir constructors propagate (the caller guards).
func Module(m *am.Module) (*ir.Module, map[string]int) { return ModuleWith(m, false) }

// ModuleWith is Module with a choice about the cached types of entities whose address space is set
// after construction (the constructors take no address space). staleTypes = false resets the cache and
// lets the library recompute it at once, which is what a careful user does and what every typing check
// needs. staleTypes = true only assigns the AddrSpace field, the naive use of the API: the cached type
// keeps address space 0 and operands print with it. That output is wrong but deterministic; C13 uses
// this mode because printing must not write the caches in that state either.
func ModuleWith(m *am.Module, staleTypes bool) (*ir.Module, map[string]int) {
	return ModuleWithLate(m, staleTypes, false)
}

// ModuleWithLate is ModuleWith; lateAS (only together with staleTypes) assigns the address spaces of global
// variables and functions after everything else was built, so that whatever cached a type derived from them
// (aliases, constant expressions, instructions) keeps address space 0. The output is wrong but must be
// deterministic, and printing must not repair caches in passing (C13).
func ModuleWithLate(m *am.Module, staleTypes, lateAS bool) (*ir.Module, map[string]int) {
	b := &Builder{stale: staleTypes, lateAS: staleTypes && lateAS, M: ir.NewModule(), ts: NewTypes(m.U), am: m,
		funcs: map[*am.Fun]*ir.Func{}, globs: map[*am.Global]*ir.Global{}, alias: map[*am.Alias]value.Value{},
		blocks: map[*am.Block]*ir.Block{}, insts: map[*am.Inst]value.Value{}, params: map[*am.Param]*ir.Param{},
		comdat: map[*am.Comdat]*ir.ComdatDef{}, groups: map[*am.AttrGroup]*ir.AttrGroupDef{}, mds: map[*am.MDNode]*metadata.Tuple{},
		Calls: map[string]int{}}
	b.build()
	return b.M, b.Calls
}

// ModuleShared is Module for a program that keeps its types and constants in variables: equal literal types
// are one Go object and equal constants are one Go object, reachable from every place that uses them
// (operands of several instructions, elements of several aggregates, initialisers of several globals).
func ModuleShared(m *am.Module) (*ir.Module, map[string]int) {
	b := &Builder{M: ir.NewModule(), ts: NewTypes(m.U), am: m, share: true, cmemo: map[string]constant.Constant{},
		funcs: map[*am.Fun]*ir.Func{}, globs: map[*am.Global]*ir.Global{}, alias: map[*am.Alias]value.Value{},
		blocks: map[*am.Block]*ir.Block{}, insts: map[*am.Inst]value.Value{}, params: map[*am.Param]*ir.Param{},
		comdat: map[*am.Comdat]*ir.ComdatDef{}, groups: map[*am.AttrGroup]*ir.AttrGroupDef{}, mds: map[*am.MDNode]*metadata.Tuple{},
		Calls: map[string]int{}}
	b.ts.Share = true
	b.build()
	return b.M, b.Calls
}

// constKey identifies a constant structurally (references by the identity of what they refer to).
func constKey(c *am.Const) string {
	var sb strings.Builder
	var rec func(c *am.Const)
	rec = func(c *am.Const) {
		fmt.Fprintf(&sb, "(%d %s", c.K, c.T.String())
		if c.Int != nil {
			sb.WriteString(" i" + c.Int.String())
		}
		fmt.Fprintf(&sb, " %q %q %p %p", c.Lit, c.Chars, c.Ref, c.Block)
		for _, e := range c.Elems {
			rec(e)
		}
		if e := c.Expr; e != nil {
			fmt.Fprintf(&sb, " %s %v %s %v %d %v", e.Op, e.Flags, e.Pred, e.InBounds, e.InRange, e.Indices)
			if e.To != nil {
				sb.WriteString(" to " + e.To.String())
			}
			if e.ElemT != nil {
				sb.WriteString(" elem " + e.ElemT.String())
			}
			for _, a := range e.Args {
				rec(a)
			}
		}
		sb.WriteString(")")
	}
	rec(c)
	return sb.String()
}

func (b *Builder) build() {
	m := b.am
	b.M.SourceFilename = m.SourceFilename
	b.M.DataLayout = m.DataLayout
	b.M.TargetTriple = m.Triple
	b.M.ModuleAsms = append(b.M.ModuleAsms, m.Asm...)
	for _, d := range m.U.Defs {
		b.M.NewTypeDef(TypeName(d.Name), b.ts.Named(d.Name))
		b.call("Module.NewTypeDef")
	}
	for _, c := range m.Comdats {
		cd := &ir.ComdatDef{Name: c.Name, Kind: asmenum.SelectionKindFromString(c.Kind)}
		b.M.ComdatDefs = append(b.M.ComdatDefs, cd)
		b.comdat[c] = cd
	}
	for _, ag := range m.AttrGroups {
		gd := &ir.AttrGroupDef{ID: int64(ag.ID)}
		for _, a := range ag.Attrs {
			gd.FuncAttrs = append(gd.FuncAttrs, b.funcAttr(a))
		}
		b.M.AttrGroupDefs = append(b.M.AttrGroupDefs, gd)
		b.groups[ag] = gd
	}
	// metadata node scaffolds (numbered tuples)
	for _, n := range m.MDs {
		t := &metadata.Tuple{MetadataID: metadata.MetadataID(n.ID), Distinct: n.Distinct}
		b.mds[n] = t
	}
	// scaffolds in textual order (globals, functions, aliases keep their order in the module)
	for _, t := range topsOf(m) {
		switch t.K {
		case am.TopGlobal:
			b.globalScaffold(m.Globals[t.Idx])
		case am.TopFunc:
			b.funcScaffold(m.Funcs[t.Idx])
		}
	}
	// aliases and ifuncs before the initialisers, which may take their address
	for _, t := range topsOf(m) {
		if t.K == am.TopAlias {
			b.aliasDef(m.Aliases[t.Idx])
		}
	}
	for _, g := range m.Globals {
		b.globalFill(g)
	}
	for _, f := range m.Funcs {
		b.funcFill(f)
	}
	for _, f := range b.late {
		f()
	}
	// use-list order directives: function level, then module level
	for _, f := range m.Funcs {
		for _, u := range f.UseListOrders {
			b.funcs[f].UseListOrders = append(b.funcs[f].UseListOrders, &ir.UseListOrder{Value: b.value(u.V), Indices: u.Indices})
			b.call("UseListOrder{}")
		}
	}
	for _, u := range m.UseListOrders {
		if u.BB != nil {
			b.M.UseListOrderBBs = append(b.M.UseListOrderBBs, &ir.UseListOrderBB{Func: b.funcs[u.Fn], Block: b.blocks[u.BB], Indices: u.Indices})
			b.call("UseListOrderBB{}")
			continue
		}
		b.M.UseListOrders = append(b.M.UseListOrders, &ir.UseListOrder{Value: b.value(u.V), Indices: u.Indices})
		b.call("UseListOrder{}")
	}
	// metadata bodies
	for _, n := range m.MDs {
		t := b.mds[n]
		for _, f := range n.Fields {
			t.Fields = append(t.Fields, b.mdField(f))
		}
		b.M.MetadataDefs = append(b.M.MetadataDefs, t)
	}
	for _, nm := range m.NamedMDs {
		nd := &metadata.NamedDef{Name: nm.Name}
		for _, f := range nm.Nodes {
			nd.Nodes = append(nd.Nodes, b.mdField(f).(metadata.Node))
		}
		b.M.NamedMetadataDefs[nm.Name] = nd
	}
	for _, f := range b.lateAssign {
		f()
	}
}

func topsOf(m *am.Module) []am.Top {
	if m.Order != nil {
		return m.Order
	}
	var o []am.Top
	for i := range m.Globals {
		o = append(o, am.Top{K: am.TopGlobal, Idx: i})
	}
	for i := range m.Aliases {
		o = append(o, am.Top{K: am.TopAlias, Idx: i})
	}
	for i := range m.Funcs {
		o = append(o, am.Top{K: am.TopFunc, Idx: i})
	}
	return o
}

// ---- enums

func linkage(s string) enum.Linkage {
	if s == "" {
		return enum.LinkageNone
	}
	return asmenum.LinkageFromString(s)
}
func preemption(s string) enum.Preemption {
	if s == "" {
		return enum.PreemptionNone
	}
	return asmenum.PreemptionFromString(s)
}
func visibility(s string) enum.Visibility {
	if s == "" {
		return enum.VisibilityNone
	}
	return asmenum.VisibilityFromString(s)
}
func dll(s string) enum.DLLStorageClass {
	if s == "" {
		return enum.DLLStorageClassNone
	}
	return asmenum.DLLStorageClassFromString(s)
}
func unnamedAddr(s string) enum.UnnamedAddr {
	if s == "" {
		return enum.UnnamedAddrNone
	}
	return asmenum.UnnamedAddrFromString(s)
}
func tls(s string) enum.TLSModel {
	if s == "" {
		return enum.TLSModelNone
	}
	return asmenum.TLSModelFromString(s)
}
func callingConv(s string) enum.CallingConv {
	if s == "" {
		return enum.CallingConvNone
	}
	if strings.HasPrefix(s, "cc ") {
		n, _ := strconv.Atoi(s[3:])
		return enum.CallingConv(n)
	}
	return asmenum.CallingConvFromString(s)
}
func ordering(s string) enum.AtomicOrdering {
	if s == "" {
		return enum.AtomicOrderingNone
	}
	return asmenum.AtomicOrderingFromString(s)
}
func fastMath(fs []string) []enum.FastMathFlag {
	var out []enum.FastMathFlag
	for _, f := range fs {
		out = append(out, asmenum.FastMathFlagFromString(f))
	}
	return out
}
func overflow(fs []string) []enum.OverflowFlag {
	var out []enum.OverflowFlag
	for _, f := range fs {
		if f == "nsw" || f == "nuw" {
			out = append(out, asmenum.OverflowFlagFromString(f))
		}
	}
	return out
}
func hasFlag(fs []string, f string) bool {
	for _, x := range fs {
		if x == f {
			return true
		}
	}
	return false
}

// ---- attributes (the vocabulary the generator emits)

func unq(s string) string {
	s = strings.TrimSuffix(strings.TrimPrefix(s, `"`), `"`)
	// the generator only uses \22 and \5C escapes in attribute strings
	s = strings.ReplaceAll(s, `\22`, `"`)
	return strings.ReplaceAll(s, `\5C`, `\`)
}

func parenNum(s string) uint64 {
	i, j := strings.IndexByte(s, '('), strings.LastIndexByte(s, ')')
	n, _ := strconv.ParseUint(s[i+1:j], 10, 64)
	return n
}

func (b *Builder) funcAttr(a string) ir.FuncAttribute {
	switch {
	case strings.HasPrefix(a, `"`):
		if i := strings.Index(a, `"="`); i >= 0 {
			return ir.AttrPair{Key: unq(a[:i+1]), Value: unq(a[i+2:])}
		}
		return ir.AttrString(unq(a))
	case strings.HasPrefix(a, "alignstack"):
		if strings.Contains(a, "=") {
			n, _ := strconv.ParseUint(a[len("alignstack="):], 10, 64)
			return ir.AlignStack(n)
		}
		return ir.AlignStack(parenNum(a))
	case strings.HasPrefix(a, "vscale_range("):
		in := a[len("vscale_range(") : len(a)-1]
		p := strings.Split(in, ",")
		mn, _ := strconv.Atoi(strings.TrimSpace(p[0]))
		if len(p) == 1 {
			return ir.VectorScaleRange{Min: -1, Max: mn} // one argument: the documented spelling of "omitted"
		}
		mx, _ := strconv.Atoi(strings.TrimSpace(p[1]))
		return ir.VectorScaleRange{Min: mn, Max: mx}
	case a == "uwtable":
		return ir.UnwindTable{}
	}
	return asmenum.FuncAttrFromString(a)
}

func (b *Builder) paramAttr(a string, t *am.Type) ir.ParamAttribute {
	switch {
	case strings.HasPrefix(a, "align "):
		n, _ := strconv.ParseUint(a[6:], 10, 64)
		return ir.Align(n)
	case strings.HasPrefix(a, "dereferenceable_or_null("):
		return ir.Dereferenceable{N: parenNum(a), DerefOrNull: true}
	case strings.HasPrefix(a, "dereferenceable("):
		return ir.Dereferenceable{N: parenNum(a)}
	case strings.HasPrefix(a, "byval("):
		return ir.Byval{Typ: b.ts.Type(t.Elem)}
	case strings.HasPrefix(a, "byref("):
		return ir.ByRef{Typ: b.ts.Type(t.Elem)}
	case strings.HasPrefix(a, `"`):
		return ir.AttrString(unq(a))
	}
	return asmenum.ParamAttrFromString(a)
}

func (b *Builder) retAttr(a string) ir.ReturnAttribute {
	switch {
	case strings.HasPrefix(a, "align "):
		n, _ := strconv.ParseUint(a[6:], 10, 64)
		return ir.Align(n)
	case strings.HasPrefix(a, "dereferenceable_or_null("):
		return ir.Dereferenceable{N: parenNum(a), DerefOrNull: true}
	case strings.HasPrefix(a, "dereferenceable("):
		return ir.Dereferenceable{N: parenNum(a)}
	}
	return asmenum.ReturnAttrFromString(a)
}

// ---- top level

func (b *Builder) attachments(as []*am.Attachment) ir.Metadata {
	var out ir.Metadata
	for _, a := range as {
		out = append(out, &metadata.Attachment{Name: a.Kind, Node: b.mdField(a.Node).(metadata.MDNode)})
	}
	return out
}

func (b *Builder) globalScaffold(g *am.Global) {
	gl := b.M.NewGlobal(g.Name, b.ts.Type(g.T))
	b.call("Module.NewGlobal")
	gl.Immutable = g.Constant
	gl.Linkage = linkage(g.Linkage)
	gl.Preemption = preemption(g.Preemption)
	gl.Visibility = visibility(g.Visibility)
	gl.DLLStorageClass = dll(g.DLL)
	gl.TLSModel = tls(g.TLS)
	gl.UnnamedAddr = unnamedAddr(g.UnnamedAddr)
	if b.lateAS {
		as := types.AddrSpace(g.AddrSpace)
		b.lateAssign = append(b.lateAssign, func() { gl.AddrSpace = as })
	} else {
		gl.AddrSpace = types.AddrSpace(g.AddrSpace)
	}
	if !b.stale {
		gl.Typ = nil // the address space is part of the type: let the library recompute it (now, not lazily during printing)
		gl.Type()
	}
	gl.ExternallyInitialized = g.ExternInit
	gl.Section = g.Section
	gl.Partition = g.Partition
	if g.Comdat != nil {
		gl.Comdat = b.comdat[g.Comdat]
	}
	gl.Align = ir.Align(g.Align)
	for _, a := range g.Attrs {
		gl.FuncAttrs = append(gl.FuncAttrs, b.funcAttr(a))
	}
	b.globs[g] = gl
}

func (b *Builder) globalFill(g *am.Global) {
	gl := b.globs[g]
	if g.Init != nil {
		gl.Init = b.constant(g.Init)
	}
	gl.Metadata = b.attachments(g.MD)
}

func (b *Builder) aliasDef(a *am.Alias) {
	c := b.constant(a.Aliasee)
	if a.IFunc {
		x := b.M.NewIFunc(a.Name, c)
		b.call("Module.NewIFunc")
		x.Linkage = linkage(a.Linkage)
		x.Visibility = visibility(a.Visibility)
		b.alias[a] = x
		return
	}
	x := b.M.NewAlias(a.Name, c)
	b.call("Module.NewAlias")
	x.Linkage = linkage(a.Linkage)
	x.Preemption = preemption(a.Preemption)
	x.Visibility = visibility(a.Visibility)
	x.DLLStorageClass = dll(a.DLL)
	x.TLSModel = tls(a.TLS)
	x.UnnamedAddr = unnamedAddr(a.UnnamedAddr)
	x.Partition = a.Partition
	b.alias[a] = x
}

func (b *Builder) funcScaffold(f *am.Fun) {
	var ps []*ir.Param
	for _, p := range f.Params {
		ip := ir.NewParam(p.Name, b.ts.Type(p.T))
		b.call("ir.NewParam")
		for _, a := range p.Attrs {
			ip.Attrs = append(ip.Attrs, b.paramAttr(a, p.T))
		}
		b.params[p] = ip
		ps = append(ps, ip)
	}
	fn := b.M.NewFunc(f.Name, b.ts.Type(f.Ret), ps...)
	b.call("Module.NewFunc")
	fn.Sig.Variadic = f.Variadic
	fn.Linkage = linkage(f.Linkage)
	if f.Decl && fn.Linkage == enum.LinkageNone {
		// a declaration without linkage is printed as `declare ...`, which is what the text emitter writes too
	}
	fn.Preemption = preemption(f.Preemption)
	fn.Visibility = visibility(f.Visibility)
	fn.DLLStorageClass = dll(f.DLL)
	fn.CallingConv = callingConv(f.CC)
	for _, a := range f.RetAttrs {
		fn.ReturnAttrs = append(fn.ReturnAttrs, b.retAttr(a))
	}
	fn.UnnamedAddr = unnamedAddr(f.UnnamedAddr)
	if b.lateAS {
		as := types.AddrSpace(f.AddrSpace)
		b.lateAssign = append(b.lateAssign, func() { fn.AddrSpace = as })
	} else {
		fn.AddrSpace = types.AddrSpace(f.AddrSpace)
	}
	if !b.stale {
		fn.Typ = nil
		fn.Type() // recompute the cached pointer type with the address space, before anything can print concurrently
	}
	for _, a := range f.FnAttrs {
		fn.FuncAttrs = append(fn.FuncAttrs, b.funcAttr(a))
	}
	if f.AttrGroup != nil {
		fn.FuncAttrs = append(fn.FuncAttrs, b.groups[f.AttrGroup])
	}
	fn.Section = f.Section
	fn.Partition = f.Partition
	if f.Comdat != nil {
		fn.Comdat = b.comdat[f.Comdat]
	}
	fn.Align = ir.Align(f.Align)
	fn.GC = f.GC
	b.funcs[f] = fn
	for _, blk := range f.Blocks {
		ib := fn.NewBlock(blk.Name)
		b.call("Func.NewBlock")
		b.blocks[blk] = ib
	}
}

func (b *Builder) funcFill(f *am.Fun) {
	fn := b.funcs[f]
	if f.Prefix != nil {
		fn.Prefix = b.constant(f.Prefix)
	}
	if f.Prologue != nil {
		fn.Prologue = b.constant(f.Prologue)
	}
	if f.Personality != nil {
		fn.Personality = b.constant(f.Personality)
	}
	fn.Metadata = b.attachments(f.MD)
	for _, blk := range f.Blocks {
		ib := b.blocks[blk]
		for _, in := range blk.Insts {
			b.inst(ib, in)
		}
		b.term(ib, blk.Term)
	}
}

// ---- constants and values

func (b *Builder) globalRef(x any) constant.Constant {
	switch x := x.(type) {
	case *am.Global:
		return b.globs[x]
	case *am.Fun:
		return b.funcs[x]
	case *am.Alias:
		return b.alias[x].(constant.Constant)
	}
	panic("emit: unknown global reference")
}

func (b *Builder) constant(c *am.Const) constant.Constant {
	if !b.share {
		return b.constant1(c)
	}
	key := constKey(c)
	if x, ok := b.cmemo[key]; ok {
		b.call("shared constant object used again")
		return x
	}
	x := b.constant1(c)
	b.cmemo[key] = x
	return x
}

func (b *Builder) constant1(c *am.Const) constant.Constant {
	t := b.ts.Type(c.T)
	switch c.K {
	case am.CInt:
		b.call("constant.Int")
		it := t.(*types.IntType)
		if it.BitSize == 1 {
			// construction programs use the canonical booleans 0 and 1 (-1 is only a spelling of true)
			return constant.NewInt(it, int64(c.Int.Bit(0)))
		}
		if c.Int.IsInt64() {
			return constant.NewInt(it, c.Int.Int64())
		}
		x, err := constant.NewIntFromString(it, c.Int.String())
		if err != nil {
			panic(err)
		}
		return x
	case am.CFloat:
		b.call("constant.NewFloatFromString")
		x, err := constant.NewFloatFromString(t.(*types.FloatType), c.Lit)
		if err != nil {
			panic(err)
		}
		return x
	case am.CNull:
		b.call("constant.NewNull")
		return constant.NewNull(t.(*types.PointerType))
	case am.CNone:
		return constant.None
	case am.CUndef:
		b.call("constant.NewUndef")
		return constant.NewUndef(t)
	case am.CPoison:
		b.call("constant.NewPoison")
		return constant.NewPoison(t)
	case am.CZero:
		b.call("constant.NewZeroInitializer")
		return constant.NewZeroInitializer(t)
	case am.CStruct:
		b.call("constant.NewStruct")
		var es []constant.Constant
		for _, e := range c.Elems {
			es = append(es, b.constant(e))
		}
		return constant.NewStruct(t.(*types.StructType), es...)
	case am.CArray:
		b.call("constant.NewArray")
		var es []constant.Constant
		for _, e := range c.Elems {
			es = append(es, b.constant(e))
		}
		return constant.NewArray(t.(*types.ArrayType), es...)
	case am.CVector:
		b.call("constant.NewVector")
		var es []constant.Constant
		for _, e := range c.Elems {
			es = append(es, b.constant(e))
		}
		return constant.NewVector(t.(*types.VectorType), es...)
	case am.CChars:
		b.call("constant.NewCharArray")
		return constant.NewCharArray([]byte(c.Chars))
	case am.CGlobal:
		return b.globalRef(c.Ref)
	case am.CDSOLocalEq:
		return constant.NewDSOLocalEquivalent(b.globalRef(c.Ref))
	case am.CNoCFI:
		return constant.NewNoCFI(b.globalRef(c.Ref))
	case am.CBlockAddr:
		b.call("constant.NewBlockAddress")
		return constant.NewBlockAddress(b.funcs[c.Ref.(*am.Fun)], b.blocks[c.Block])
	case am.CExpr:
		return b.expr(c)
	}
	panic("emit: unknown constant kind")
}

func (b *Builder) expr(c *am.Const) constant.Constant {
	e := c.Expr
	var a []constant.Constant
	for _, x := range e.Args {
		a = append(a, b.constant(x))
	}
	b.call("constant.New" + e.Op)
	to := types.Type(nil)
	if e.To != nil {
		to = b.ts.Type(e.To)
	}
	switch e.Op {
	case "add":
		x := constant.NewAdd(a[0], a[1])
		x.OverflowFlags = overflow(e.Flags)
		return x
	case "sub":
		x := constant.NewSub(a[0], a[1])
		x.OverflowFlags = overflow(e.Flags)
		return x
	case "mul":
		x := constant.NewMul(a[0], a[1])
		x.OverflowFlags = overflow(e.Flags)
		return x
	case "shl":
		x := constant.NewShl(a[0], a[1])
		x.OverflowFlags = overflow(e.Flags)
		return x
	case "lshr":
		x := constant.NewLShr(a[0], a[1])
		x.Exact = hasFlag(e.Flags, "exact")
		return x
	case "ashr":
		x := constant.NewAShr(a[0], a[1])
		x.Exact = hasFlag(e.Flags, "exact")
		return x
	case "and":
		return constant.NewAnd(a[0], a[1])
	case "or":
		return constant.NewOr(a[0], a[1])
	case "xor":
		return constant.NewXor(a[0], a[1])
	case "trunc":
		return constant.NewTrunc(a[0], to)
	case "zext":
		return constant.NewZExt(a[0], to)
	case "sext":
		return constant.NewSExt(a[0], to)
	case "ptrtoint":
		return constant.NewPtrToInt(a[0], to)
	case "inttoptr":
		return constant.NewIntToPtr(a[0], to)
	case "bitcast":
		return constant.NewBitCast(a[0], to)
	case "addrspacecast":
		return constant.NewAddrSpaceCast(a[0], to)
	case "icmp":
		return constant.NewICmp(asmenum.IPredFromString(e.Pred), a[0], a[1])
	case "fcmp":
		return constant.NewFCmp(asmenum.FPredFromString(e.Pred), a[0], a[1])
	case "select":
		return constant.NewSelect(a[0], a[1], a[2])
	case "fneg":
		return constant.NewFNeg(a[0])
	case "fptrunc":
		return constant.NewFPTrunc(a[0], to)
	case "fpext":
		return constant.NewFPExt(a[0], to)
	case "fptoui":
		return constant.NewFPToUI(a[0], to)
	case "fptosi":
		return constant.NewFPToSI(a[0], to)
	case "uitofp":
		return constant.NewUIToFP(a[0], to)
	case "sitofp":
		return constant.NewSIToFP(a[0], to)
	case "extractelement":
		return constant.NewExtractElement(a[0], a[1])
	case "insertelement":
		return constant.NewInsertElement(a[0], a[1], a[2])
	case "shufflevector":
		return constant.NewShuffleVector(a[0], a[1], a[2])
	case "getelementptr":
		idx := a[1:]
		var is []constant.Constant
		for i, x := range idx {
			// indices are wrapped the way the parser represents them
			ix := constant.NewIndex(x)
			ix.InRange = e.InRange == i+1
			is = append(is, ix)
		}
		x := constant.NewGetElementPtr(b.ts.Type(e.ElemT), a[0], is...)
		x.InBounds = e.InBounds
		return x
	}
	panic("emit: unknown constant expression " + e.Op)
}

func (b *Builder) value(v *am.Value) value.Value {
	switch v.K {
	case am.VConst:
		return b.constant(v.C)
	case am.VInst:
		x, ok := b.insts[v.I]
		if !ok {
			panic("emit: use of an instruction that has not been created (forward use outside phi)")
		}
		return x
	case am.VParam:
		return b.params[v.P]
	case am.VBlock:
		return b.blocks[v.B]
	case am.VInlineAsm:
		a := v.Asm
		ia := ir.NewInlineAsm(b.ts.Type(am.P(a.T)), a.Asm, a.Constraints)
		ia.SideEffect, ia.AlignStack, ia.IntelDialect, ia.Unwind = a.SideEffect, a.AlignStack, a.Intel, a.Unwind
		return ia
	case am.VMetadata:
		return &metadata.Value{Value: b.mdField(v.MD)}
	}
	panic("emit: unknown value kind")
}

// ---- metadata

func (b *Builder) mdField(f *am.MDField) metadata.Field {
	switch f.K {
	case am.MDNull:
		return metadata.Null
	case am.MDString:
		return &metadata.String{Value: f.Str}
	case am.MDValue:
		return b.constant(f.C) // a typed constant is a metadata field by itself (metadata.Value is for call arguments)
	case am.MDRef:
		return b.mds[f.Node]
	case am.MDInline:
		t := &metadata.Tuple{MetadataID: -1, Distinct: f.Node.Distinct}
		for _, x := range f.Node.Fields {
			t.Fields = append(t.Fields, b.mdField(x))
		}
		return t
	}
	panic(fmt.Sprintf("emit: metadata field kind %d not supported through the API emitter", f.K))
}

var _ = enum.LinkageNone
