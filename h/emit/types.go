// Package emit replays abstract modules (package am) through llir's public API.
package emit

import (
	"github.com/llir/llvm/ir/types"
	"strings"

	"verif/h/am"
)

// Types instantiates am types as llir types. Each Types value creates its own,
// disjoint object graph; identified struct types are created once per name.
type Types struct {
	U      *am.Universe
	named  map[string]*types.StructType
	guards []guard
	// Share makes equal literal types one Go object (a program that keeps `i32ptr := types.NewPointer(types.I32)`
	// in a variable and uses it everywhere), instead of a fresh object per use.
	Share bool
	tmemo map[string]types.Type
}

// NewTypes returns an instantiator for the universe u.
func NewTypes(u *am.Universe) *Types {
	if u == nil {
		u = &am.Universe{}
	}
	ts := &Types{U: u, named: map[string]*types.StructType{}}
	// scaffold first (recursive types), then fill.
	for _, d := range u.Defs {
		st := &types.StructType{TypeName: TypeName(d.Name), Opaque: d.Opaque, Packed: d.Packed}
		ts.named[d.Name] = st
	}
	for _, d := range u.Defs {
		st := ts.named[d.Name]
		for _, f := range d.Fields {
			st.Fields = append(st.Fields, ts.Type(f))
		}
	}
	return ts
}

// Defs returns the identified struct types in universe order.
func (ts *Types) Defs() []types.Type {
	var out []types.Type
	for _, d := range ts.U.Defs {
		out = append(out, ts.named[d.Name])
	}
	return out
}

// Named returns the identified struct type called name.
func (ts *Types) Named(name string) *types.StructType { return ts.named[name] }

var floatKinds = map[string]types.FloatKind{
	"half": types.FloatKindHalf, "float": types.FloatKindFloat, "double": types.FloatKindDouble,
	"x86_fp80": types.FloatKindX86_FP80, "fp128": types.FloatKindFP128, "ppc_fp128": types.FloatKindPPC_FP128,
}

// Type returns a fresh llir type for t (identified structs are shared within ts).
func (ts *Types) Type(t *am.Type) types.Type {
	if !ts.Share || t.K == am.Named {
		return ts.fresh(t)
	}
	key := t.String()
	if x, ok := ts.tmemo[key]; ok {
		return x
	}
	x := ts.fresh(t)
	if ts.tmemo == nil {
		ts.tmemo = map[string]types.Type{}
	}
	ts.tmemo[key] = x
	return x
}

func (ts *Types) fresh(t *am.Type) types.Type {
	switch t.K {
	case am.Void:
		return &types.VoidType{}
	case am.Int:
		return types.NewInt(t.Bits)
	case am.Float:
		return &types.FloatType{Kind: floatKinds[t.FK]}
	case am.Ptr:
		p := types.NewPointer(ts.Type(t.Elem))
		p.AddrSpace = types.AddrSpace(t.AddrSpace)
		return p
	case am.Vec:
		v := types.NewVector(t.Len, ts.Type(t.Elem))
		v.Scalable = t.Scalable
		return v
	case am.Array:
		return types.NewArray(t.Len, ts.Type(t.Elem))
	case am.Struct:
		var fs []types.Type
		for _, f := range t.Fields {
			fs = append(fs, ts.Type(f))
		}
		fs = ts.guarded(fs)
		s := types.NewStruct(fs...)
		s.Packed = t.Packed
		return s
	case am.Func:
		var ps []types.Type
		for _, p := range t.Params {
			ps = append(ps, ts.Type(p))
		}
		ps = ts.guarded(ps)
		f := types.NewFunc(ts.Type(t.Ret), ps...)
		f.Variadic = t.Variadic
		return f
	case am.Label:
		return &types.LabelType{}
	case am.Token:
		return &types.TokenType{}
	case am.Metadata:
		return &types.MetadataType{}
	case am.MMX:
		return &types.MMXType{}
	case am.Named:
		st, ok := ts.named[t.Name]
		if !ok {
			panic("emit: unknown named type " + t.Name)
		}
		return st
	}
	panic("emit: unknown type kind")
}

// TypeName is the library's TypeName for the identified struct type that LLVM calls name: a name made of
// digits is kept with its quotes (`"42"`), which is how the library tells %"42" from the numbered type %42.
func TypeName(name string) string {
	if name != "" && strings.Trim(name, "0123456789") == "" {
		return `"` + name + `"`
	}
	return name
}

// guard remembers a slice handed to a constructor together with the element that follows it in its
// backing array.
type guard struct {
	full     []types.Type
	n        int
	sentinel types.Type
	elems    []types.Type
}

// guarded returns a copy of list that has one element of spare capacity, holding a sentinel: what a client
// gets when it passes a prefix of a longer slice (`types.NewFunc(ret, all[:k]...)`). A library function
// that appends to the slice it was given, instead of copying it, overwrites the sentinel (and in a real
// client the next parameter of another type); GuardsIntact reports that.
func (ts *Types) guarded(list []types.Type) []types.Type {
	n := len(list)
	full := make([]types.Type, n+1)
	copy(full, list)
	sentinel := &types.LabelType{TypeName: "verif.sentinel"}
	full[n] = sentinel
	ts.guards = append(ts.guards, guard{full: full, n: n, sentinel: sentinel, elems: append([]types.Type{}, list...)})
	return full[: n : n+1]
}

// GuardsIntact returns "" if no slice handed to a constructor was written to (neither its elements nor the
// element behind its end), else a description.
func (ts *Types) GuardsIntact() string {
	for _, g := range ts.guards {
		if g.full[g.n] != g.sentinel {
			return "the element behind the end of a field or parameter slice given to a constructor was overwritten (the library appended to the caller's slice)"
		}
		for i, e := range g.elems {
			if g.full[i] != e {
				return "an element of a field or parameter slice given to a constructor was replaced"
			}
		}
	}
	return ""
}
