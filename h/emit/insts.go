package emit

import (
	asmenum "github.com/llir/llvm/asm/enum"
	"github.com/llir/llvm/ir"
	"github.com/llir/llvm/ir/constant"
	"github.com/llir/llvm/ir/enum"
	"github.com/llir/llvm/ir/types"
	"github.com/llir/llvm/ir/value"

	"verif/h/am"
)

type named interface{ SetName(string) }

// finish names the result, attaches metadata and records the value.
func (b *Builder) finish(in *am.Inst, v any) {
	if in.HasValue() {
		if n, ok := v.(named); ok && in.Name != "" {
			n.SetName(in.Name)
		}
		if val, ok := v.(value.Value); ok {
			b.insts[in] = val
		}
	}
	if len(in.MD) > 0 {
		if f := fieldMetadata(v); f != nil {
			*f = b.attachments(in.MD)
		}
	}
}

func (b *Builder) args(in *am.Inst) []value.Value {
	var out []value.Value
	for k, a := range in.Args {
		v := b.value(a)
		if k < len(in.ArgAttrs) && len(in.ArgAttrs[k]) > 0 {
			var attrs []ir.ParamAttribute
			for _, s := range in.ArgAttrs[k] {
				attrs = append(attrs, b.paramAttr(s, a.Type()))
			}
			v = ir.NewArg(v, attrs...)
		}
		out = append(out, v)
	}
	return out
}

func (b *Builder) bundles(in *am.Inst) []*ir.OperandBundle {
	var out []*ir.OperandBundle
	for _, bd := range in.Bundles {
		var vs []value.Value
		for _, a := range bd.Args {
			vs = append(vs, b.value(a))
		}
		out = append(out, ir.NewOperandBundle(bd.Tag, vs...))
	}
	return out
}

func (b *Builder) inst(blk *ir.Block, in *am.Inst) {
	b.call("Block.New:" + in.Op)
	a := func(i int) value.Value { return b.value(in.Args[i]) }
	var to types.Type
	if in.To != nil {
		to = b.ts.Type(in.To)
	}
	switch in.Op {
	case "fneg":
		x := blk.NewFNeg(a(0))
		x.FastMathFlags = fastMath(in.Flags)
		b.finish(in, x)
	case "add":
		x := blk.NewAdd(a(0), a(1))
		x.OverflowFlags = overflow(in.Flags)
		b.finish(in, x)
	case "sub":
		x := blk.NewSub(a(0), a(1))
		x.OverflowFlags = overflow(in.Flags)
		b.finish(in, x)
	case "mul":
		x := blk.NewMul(a(0), a(1))
		x.OverflowFlags = overflow(in.Flags)
		b.finish(in, x)
	case "shl":
		x := blk.NewShl(a(0), a(1))
		x.OverflowFlags = overflow(in.Flags)
		b.finish(in, x)
	case "udiv":
		x := blk.NewUDiv(a(0), a(1))
		x.Exact = hasFlag(in.Flags, "exact")
		b.finish(in, x)
	case "sdiv":
		x := blk.NewSDiv(a(0), a(1))
		x.Exact = hasFlag(in.Flags, "exact")
		b.finish(in, x)
	case "lshr":
		x := blk.NewLShr(a(0), a(1))
		x.Exact = hasFlag(in.Flags, "exact")
		b.finish(in, x)
	case "ashr":
		x := blk.NewAShr(a(0), a(1))
		x.Exact = hasFlag(in.Flags, "exact")
		b.finish(in, x)
	case "urem":
		b.finish(in, blk.NewURem(a(0), a(1)))
	case "srem":
		b.finish(in, blk.NewSRem(a(0), a(1)))
	case "and":
		b.finish(in, blk.NewAnd(a(0), a(1)))
	case "or":
		b.finish(in, blk.NewOr(a(0), a(1)))
	case "xor":
		b.finish(in, blk.NewXor(a(0), a(1)))
	case "fadd":
		x := blk.NewFAdd(a(0), a(1))
		x.FastMathFlags = fastMath(in.Flags)
		b.finish(in, x)
	case "fsub":
		x := blk.NewFSub(a(0), a(1))
		x.FastMathFlags = fastMath(in.Flags)
		b.finish(in, x)
	case "fmul":
		x := blk.NewFMul(a(0), a(1))
		x.FastMathFlags = fastMath(in.Flags)
		b.finish(in, x)
	case "fdiv":
		x := blk.NewFDiv(a(0), a(1))
		x.FastMathFlags = fastMath(in.Flags)
		b.finish(in, x)
	case "frem":
		x := blk.NewFRem(a(0), a(1))
		x.FastMathFlags = fastMath(in.Flags)
		b.finish(in, x)
	case "extractelement":
		b.finish(in, blk.NewExtractElement(a(0), a(1)))
	case "insertelement":
		b.finish(in, blk.NewInsertElement(a(0), a(1), a(2)))
	case "shufflevector":
		b.finish(in, blk.NewShuffleVector(a(0), a(1), b.constant(in.Mask)))
	case "extractvalue":
		b.finish(in, blk.NewExtractValue(a(0), in.Indices...))
	case "insertvalue":
		b.finish(in, blk.NewInsertValue(a(0), a(1), in.Indices...))
	case "alloca":
		x := blk.NewAlloca(b.ts.Type(in.ElemT))
		if len(in.Args) > 0 {
			x.NElems = a(0)
		}
		x.InAlloca, x.SwiftError = in.InAlloca, in.SwiftError
		x.Align = ir.Align(in.Align)
		if in.AddrSpace != 0 {
			x.AddrSpace = types.AddrSpace(in.AddrSpace)
			if !b.stale {
				x.Typ = nil // the address space is part of the result type
				x.Type()
			}
		}
		b.finish(in, x)
	case "load":
		x := blk.NewLoad(b.ts.Type(in.ElemT), a(0))
		x.Atomic, x.Volatile, x.SyncScope, x.Ordering, x.Align = in.Atomic, in.Volatile, in.SyncScope, ordering(in.Ordering), ir.Align(in.Align)
		b.finish(in, x)
	case "store":
		x := blk.NewStore(a(0), a(1))
		x.Atomic, x.Volatile, x.SyncScope, x.Ordering, x.Align = in.Atomic, in.Volatile, in.SyncScope, ordering(in.Ordering), ir.Align(in.Align)
		b.finish(in, x)
	case "fence":
		x := blk.NewFence(ordering(in.Ordering))
		x.SyncScope = in.SyncScope
		b.finish(in, x)
	case "cmpxchg":
		x := blk.NewCmpXchg(a(0), a(1), a(2), ordering(in.Ordering), ordering(in.Ordering2))
		x.Weak, x.Volatile, x.SyncScope, x.Align = in.Weak, in.Volatile, in.SyncScope, ir.Align(in.Align)
		b.finish(in, x)
	case "atomicrmw":
		x := blk.NewAtomicRMW(asmenum.AtomicOpFromString(in.RMWOp), a(0), a(1), ordering(in.Ordering))
		x.Volatile, x.SyncScope, x.Align = in.Volatile, in.SyncScope, ir.Align(in.Align)
		b.finish(in, x)
	case "getelementptr":
		var idx []value.Value
		for i := 1; i < len(in.Args); i++ {
			idx = append(idx, a(i))
		}
		x := blk.NewGetElementPtr(b.ts.Type(in.ElemT), a(0), idx...)
		x.InBounds = in.InBounds
		b.finish(in, x)
	case "trunc":
		b.finish(in, blk.NewTrunc(a(0), to))
	case "zext":
		b.finish(in, blk.NewZExt(a(0), to))
	case "sext":
		b.finish(in, blk.NewSExt(a(0), to))
	case "fptrunc":
		b.finish(in, blk.NewFPTrunc(a(0), to))
	case "fpext":
		b.finish(in, blk.NewFPExt(a(0), to))
	case "fptoui":
		b.finish(in, blk.NewFPToUI(a(0), to))
	case "fptosi":
		b.finish(in, blk.NewFPToSI(a(0), to))
	case "uitofp":
		b.finish(in, blk.NewUIToFP(a(0), to))
	case "sitofp":
		b.finish(in, blk.NewSIToFP(a(0), to))
	case "ptrtoint":
		b.finish(in, blk.NewPtrToInt(a(0), to))
	case "inttoptr":
		b.finish(in, blk.NewIntToPtr(a(0), to))
	case "bitcast":
		b.finish(in, blk.NewBitCast(a(0), to))
	case "addrspacecast":
		b.finish(in, blk.NewAddrSpaceCast(a(0), to))
	case "icmp":
		b.finish(in, blk.NewICmp(asmenum.IPredFromString(in.Pred), a(0), a(1)))
	case "fcmp":
		x := blk.NewFCmp(asmenum.FPredFromString(in.Pred), a(0), a(1))
		x.FastMathFlags = fastMath(in.Flags)
		b.finish(in, x)
	case "phi":
		// incoming values may be defined later: create with placeholders of the right type, fill in afterwards
		var incs []*ir.Incoming
		for _, inc := range in.Incs {
			incs = append(incs, ir.NewIncoming(constant.NewUndef(b.ts.Type(in.T)), b.blocks[inc.Pred]))
		}
		x := blk.NewPhi(incs...)
		x.FastMathFlags = fastMath(in.Flags)
		b.finish(in, x)
		am_ := in
		b.late = append(b.late, func() {
			for i, inc := range am_.Incs {
				x.Incs[i].X = b.value(inc.V)
			}
		})
	case "select":
		x := blk.NewSelect(a(0), a(1), a(2))
		x.FastMathFlags = fastMath(in.Flags)
		b.finish(in, x)
	case "freeze":
		x := ir.NewInstFreeze(a(0))
		blk.Insts = append(blk.Insts, x)
		b.finish(in, x)
	case "call":
		x := blk.NewCall(b.value(in.Callee), b.args(in)...)
		if in.Tail != "" {
			x.Tail = asmenum.TailFromString(in.Tail)
		}
		x.FastMathFlags = fastMath(in.Flags)
		x.CallingConv = callingConv(in.CC)
		for _, s := range in.RetAttrs {
			x.ReturnAttrs = append(x.ReturnAttrs, b.retAttr(s))
		}
		x.AddrSpace = types.AddrSpace(in.AddrSpaceCall)
		for _, s := range in.FnAttrs {
			x.FuncAttrs = append(x.FuncAttrs, b.funcAttr(s))
		}
		x.OperandBundles = b.bundles(in)
		b.finish(in, x)
	case "va_arg":
		b.finish(in, blk.NewVAArg(a(0), to))
	case "landingpad":
		var cl []*ir.Clause
		for _, c := range in.Clauses {
			ct := enum.ClauseTypeCatch
			if c.Filter {
				ct = enum.ClauseTypeFilter
			}
			cl = append(cl, ir.NewClause(ct, b.constant(c.V)))
		}
		x := blk.NewLandingPad(b.ts.Type(in.T), cl...)
		x.Cleanup = in.Cleanup
		b.finish(in, x)
	case "catchpad":
		cs := b.insts[in.ParentPad.I].(*ir.TermCatchSwitch)
		var as []value.Value
		for i := range in.Args {
			as = append(as, a(i))
		}
		b.finish(in, blk.NewCatchPad(cs, as...))
	case "cleanuppad":
		var as []value.Value
		for i := range in.Args {
			as = append(as, a(i))
		}
		b.finish(in, blk.NewCleanupPad(b.value(in.ParentPad).(ir.ExceptionPad), as...))
	default:
		panic("emit: instruction " + in.Op + " not supported by the API emitter")
	}
}

func (b *Builder) term(blk *ir.Block, in *am.Inst) {
	b.call("Block.New:" + in.Op + "(term)")
	a := func(i int) value.Value { return b.value(in.Args[i]) }
	bl := func(i int) *ir.Block { return b.blocks[in.Targets[i]] }
	switch in.Op {
	case "ret":
		if len(in.Args) == 0 {
			b.finish(in, blk.NewRet(nil))
		} else {
			b.finish(in, blk.NewRet(a(0)))
		}
	case "unreachable":
		b.finish(in, blk.NewUnreachable())
	case "resume":
		b.finish(in, blk.NewResume(a(0)))
	case "br":
		if len(in.Args) == 0 {
			b.finish(in, blk.NewBr(bl(0)))
		} else {
			b.finish(in, blk.NewCondBr(a(0), bl(0), bl(1)))
		}
	case "switch":
		var cs []*ir.Case
		for k, c := range in.Cases {
			cs = append(cs, ir.NewCase(b.constant(c), bl(k+1)))
		}
		b.finish(in, blk.NewSwitch(a(0), bl(0), cs...))
	case "indirectbr":
		var ts []*ir.Block
		for k := range in.Targets {
			ts = append(ts, bl(k))
		}
		b.finish(in, blk.NewIndirectBr(a(0), ts...))
	case "invoke":
		x := blk.NewInvoke(b.value(in.Callee), b.args(in), bl(0), bl(1))
		x.CallingConv = callingConv(in.CC)
		for _, s := range in.RetAttrs {
			x.ReturnAttrs = append(x.ReturnAttrs, b.retAttr(s))
		}
		x.AddrSpace = types.AddrSpace(in.AddrSpaceCall)
		for _, s := range in.FnAttrs {
			x.FuncAttrs = append(x.FuncAttrs, b.funcAttr(s))
		}
		x.OperandBundles = b.bundles(in)
		b.finish(in, x)
	case "callbr":
		var others []*ir.Block
		for k := 1; k < len(in.Targets); k++ {
			others = append(others, bl(k))
		}
		x := blk.NewCallBr(b.value(in.Callee), b.args(in), bl(0), others...)
		b.finish(in, x)
	case "catchswitch":
		var hs []*ir.Block
		for _, h := range in.Handlers {
			hs = append(hs, b.blocks[h])
		}
		var unwind *ir.Block
		if !in.UnwindToCaller {
			unwind = bl(0)
		}
		b.finish(in, blk.NewCatchSwitch(b.value(in.ParentPad).(ir.ExceptionPad), hs, unwind))
	case "catchret":
		b.finish(in, blk.NewCatchRet(a(0).(*ir.InstCatchPad), bl(0)))
	case "cleanupret":
		var unwind *ir.Block
		if !in.UnwindToCaller {
			unwind = bl(0)
		}
		b.finish(in, blk.NewCleanupRet(a(0).(*ir.InstCleanupPad), unwind))
	default:
		panic("emit: terminator " + in.Op + " not supported by the API emitter")
	}
}
