package emit

import (
	"reflect"

	"github.com/llir/llvm/ir"
)

// fieldMetadata returns a pointer to the Metadata field of an instruction or terminator.
func fieldMetadata(v any) *ir.Metadata {
	rv := reflect.ValueOf(v)
	if rv.Kind() != reflect.Ptr || rv.Elem().Kind() != reflect.Struct {
		return nil
	}
	f := rv.Elem().FieldByName("Metadata")
	if !f.IsValid() || !f.CanAddr() {
		return nil
	}
	if p, ok := f.Addr().Interface().(*ir.Metadata); ok {
		return p
	}
	return nil
}
