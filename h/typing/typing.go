// Package typing compares the types llir reports for the values of a parsed
// module with the reference types recorded by the abstract model (package am).
package typing

import (
	"fmt"
	"reflect"

	"github.com/llir/llvm/ir"
	"github.com/llir/llvm/ir/constant"
	"github.com/llir/llvm/ir/types"
	"github.com/llir/llvm/ir/value"

	"verif/h/am"
	"verif/h/emit"
	"verif/h/lx"
	"verif/h/walk"
)

// Finding is one typing disagreement.
type Finding struct {
	Where string
	Msg   string
}

// Stats counts what was compared.
type Stats struct {
	Insts, Exprs, Recomputed int
	Kinds                    map[string]int
}

// funcsInOrder returns the am functions in textual order (the order the parsed module keeps).
func funcsInOrder(m *am.Module) []*am.Fun {
	var out []*am.Fun
	for _, t := range m.Order {
		if t.K == am.TopFunc {
			out = append(out, m.Funcs[t.Idx])
		}
	}
	return out
}

func globalsInOrder(m *am.Module) []*am.Global {
	var out []*am.Global
	for _, t := range m.Order {
		if t.K == am.TopGlobal {
			out = append(out, m.Globals[t.Idx])
		}
	}
	return out
}

// typeOf calls v.Type() guarding against panics.
func typeOf(v interface{ Type() types.Type }) (t types.Type, p *lx.Panic) {
	p = lx.Guard(func() { t = v.Type() })
	return
}

// recompute clears the exported Typ cache of x (if any) and asks for the type again:
// this is the type the IR library computes by itself from the operands.
func recompute(x any) (t types.Type, had bool, p *lx.Panic) {
	v := reflect.ValueOf(x)
	if v.Kind() != reflect.Ptr || v.Elem().Kind() != reflect.Struct {
		return nil, false, nil
	}
	f := v.Elem().FieldByName("Typ")
	if !f.IsValid() || !f.CanSet() {
		return nil, false, nil
	}
	old := reflect.New(f.Type()).Elem()
	old.Set(f)
	f.Set(reflect.Zero(f.Type()))
	tv, ok := x.(interface{ Type() types.Type })
	if !ok {
		f.Set(old)
		return nil, false, nil
	}
	t, p = typeOf(tv)
	f.Set(old)
	return t, true, p
}

// CalleeSwap checks that the type of a call, invoke or callbr follows its callee: the callee is replaced
// (through the exported field, then through the operand slot) by a function returning i61, the cached
// type is dropped and the type is asked for again; everything is restored afterwards. "" = fine or not a
// call-like instruction.
func CalleeSwap(x any) string {
	v := reflect.ValueOf(x)
	if v.Kind() != reflect.Ptr || v.Elem().Kind() != reflect.Struct {
		return ""
	}
	var cf reflect.Value
	switch x.(type) {
	case *ir.InstCall, *ir.TermCallBr:
		cf = v.Elem().FieldByName("Callee")
	case *ir.TermInvoke:
		cf = v.Elem().FieldByName("Invokee")
	default:
		return ""
	}
	tf := v.Elem().FieldByName("Typ")
	tv, ok := x.(interface{ Type() types.Type })
	if !cf.IsValid() || !tf.IsValid() || !ok || cf.IsNil() {
		return ""
	}
	oldCallee := cf.Interface().(value.Value)
	oldTyp := reflect.New(tf.Type()).Elem()
	oldTyp.Set(tf)
	restore := func() {
		cf.Set(reflect.ValueOf(oldCallee))
		tf.Set(oldTyp)
	}
	defer restore()
	want := types.NewInt(61)
	for _, route := range []string{"field", "operand slot"} {
		other := ir.NewFunc("verif.other", want)
		if route == "field" {
			cf.Set(reflect.ValueOf(value.Value(other)))
		} else {
			ops, okOps := x.(interface{ Operands() []*value.Value })
			if !okOps {
				continue
			}
			done := false
			for _, slot := range ops.Operands() {
				if *slot == oldCallee {
					*slot = other
					done = true
					break
				}
			}
			if !done {
				continue
			}
		}
		tf.Set(reflect.Zero(tf.Type()))
		got, p := typeOf(tv)
		restore()
		if p != nil {
			return fmt.Sprintf("after the callee was replaced through the %s (and the cached type dropped) Type() panics: %v", route, p.Val)
		}
		if !types.Equal(got, want) {
			return fmt.Sprintf("after the callee was replaced through the %s by a function returning %s (and the cached type dropped) the instruction still reports type %s: the type does not follow the callee", route, want, got)
		}
	}
	return ""
}

// Compare checks every value-producing instruction/terminator of the parsed module pm
// against the reference types of the abstract module m, and every constant expression for
// agreement between the parser's cached type and the IR library's own computation.
func Compare(m *am.Module, pm *ir.Module, onlyGEP bool) (fs []Finding, st Stats) {
	st.Kinds = map[string]int{}
	ts := emit.NewTypes(m.U)
	add := func(where, format string, args ...any) {
		if len(fs) < 6 {
			fs = append(fs, Finding{where, fmt.Sprintf(format, args...)})
		}
	}
	afs := funcsInOrder(m)
	if len(afs) != len(pm.Funcs) {
		add("module", "%d functions generated, %d parsed", len(afs), len(pm.Funcs))
		return
	}
	for fi, af := range afs {
		pf := pm.Funcs[fi]
		if len(af.Blocks) != len(pf.Blocks) {
			add(pf.Ident(), "block count differs")
			continue
		}
		// function type
		if ft, p := typeOf(pf); p != nil || !types.Equal(ft, ts.Type(af.PtrType())) {
			add(pf.Ident(), "function value has type %v, reference %s (%v)", ft, af.PtrType(), p)
		}
		for bi, ab := range af.Blocks {
			pb := pf.Blocks[bi]
			all := append(append([]*am.Inst{}, ab.Insts...), ab.Term)
			if len(ab.Insts) != len(pb.Insts) {
				add(pf.Ident(), "instruction count differs in block %d", bi)
				continue
			}
			for ii, ai := range all {
				var px any
				if ii < len(pb.Insts) {
					px = pb.Insts[ii]
				} else {
					px = pb.Term
				}
				if onlyGEP && ai.Op != "getelementptr" {
					continue
				}
				where := fmt.Sprintf("%s block %d inst %d (%s)", pf.Ident(), bi, ii, ai.Op)
				tv, isVal := px.(interface{ Type() types.Type })
				if !ai.HasValue() {
					continue
				}
				if !isVal {
					add(where, "produces a value of type %s but the parsed %T has no Type()", ai.T, px)
					continue
				}
				want := ts.Type(ai.T)
				got, p := typeOf(tv)
				st.Insts++
				st.Kinds[ai.Op]++
				if p != nil {
					add(where, "Type() panics: %v", p.Val)
					continue
				}
				if !types.Equal(got, want) || got.String() != want.String() {
					add(where, "the parser attaches type %s, LLVM's rules give %s", got, ai.T)
					continue
				}
				re, had, p2 := recompute(px)
				if had {
					st.Recomputed++
					if p2 != nil {
						add(where, "recomputing the type from the operands panics: %v", p2.Val)
					} else if !types.Equal(re, want) || re.String() != want.String() {
						add(where, "the IR library computes type %s from the operands, the parser attached %s (reference %s)", re, got, ai.T)
					}
				}
				if ai.Op == "getelementptr" {
					compareGEPInst(px, want, where, add)
				}
				if msg := CalleeSwap(px); msg != "" {
					add(where, "%s", msg)
				}
			}
		}
	}
	// global initialisers: reference type of the initialiser
	ags := globalsInOrder(m)
	if len(ags) == len(pm.Globals) {
		for gi, ag := range ags {
			pg := pm.Globals[gi]
			if ag.Init == nil || pg.Init == nil {
				continue
			}
			if onlyGEP && !(ag.Init.K == am.CExpr && ag.Init.Expr.Op == "getelementptr") {
				continue
			}
			want := ts.Type(ag.Init.T)
			got, p := typeOf(pg.Init)
			if p != nil {
				add(pg.Ident(), "initialiser Type() panics: %v", p.Val)
			} else if !types.Equal(got, want) || got.String() != want.String() {
				add(pg.Ident(), "initialiser has type %s, reference %s", got, ag.Init.T)
			}
			if e, ok := pg.Init.(*constant.ExprGetElementPtr); ok {
				st.Kinds["constexpr-getelementptr"]++
				compareGEPExpr(e, want, pg.Ident(), add)
			}
		}
	}
	// every constant expression anywhere: cached type == recomputed type
	walk.Walk(pm, func(v reflect.Value, path string) bool {
		if v.Kind() != reflect.Ptr || v.IsNil() || !v.CanInterface() {
			return true
		}
		e, ok := v.Interface().(constant.Expression)
		if !ok {
			return true
		}
		if onlyGEP {
			if _, isGEP := e.(*constant.ExprGetElementPtr); !isGEP {
				return true
			}
		}
		st.Exprs++
		cached, p := typeOf(e)
		re, had, p2 := recompute(e)
		if p != nil || p2 != nil {
			add(path, "constant expression %T: Type() panics (cached %v, recomputed %v)", e, p, p2)
			return true
		}
		if had && (!types.Equal(cached, re) || cached.String() != re.String()) {
			add(path, "constant expression %T: the parser attached type %s, the IR library computes %s", e, cached, re)
		}
		return true
	})
	return
}

// compareGEPInst re-creates the instruction through the constructor from the parsed operands.
func compareGEPInst(px any, want types.Type, where string, add func(string, string, ...any)) {
	g, ok := px.(*ir.InstGetElementPtr)
	if !ok {
		return
	}
	var t types.Type
	if p := lx.Guard(func() { t = ir.NewGetElementPtr(g.ElemType, g.Src, g.Indices...).Type() }); p != nil {
		add(where, "ir.NewGetElementPtr on the same operands panics: %v", p.Val)
		return
	}
	if !types.Equal(t, want) || t.String() != want.String() {
		add(where, "ir.NewGetElementPtr computes %s, reference %s", t, want)
	}
	// constant operands only: the constant-expression constructor must agree
	src, ok := g.Src.(constant.Constant)
	if !ok {
		return
	}
	var idx []constant.Constant
	for _, i := range g.Indices {
		c, ok := i.(constant.Constant)
		if !ok {
			return
		}
		idx = append(idx, c)
	}
	var t2 types.Type
	if p := lx.Guard(func() { t2 = constant.NewGetElementPtr(g.ElemType, src, idx...).Type() }); p != nil {
		add(where, "constant.NewGetElementPtr on the same operands panics: %v", p.Val)
		return
	}
	if !types.Equal(t2, want) || t2.String() != want.String() {
		add(where, "constant.NewGetElementPtr computes %s, reference %s", t2, want)
	}
}

func compareGEPExpr(e *constant.ExprGetElementPtr, want types.Type, where string, add func(string, string, ...any)) {
	var t types.Type
	if p := lx.Guard(func() { t = constant.NewGetElementPtr(e.ElemType, e.Src, e.Indices...).Type() }); p != nil {
		add(where, "constant.NewGetElementPtr on the parsed operands panics: %v", p.Val)
		return
	}
	if !types.Equal(t, want) || t.String() != want.String() {
		add(where, "constant.NewGetElementPtr computes %s, reference %s", t, want)
	}
	var vs []value.Value
	for _, i := range e.Indices {
		vs = append(vs, i)
	}
	var t2 types.Type
	if p := lx.Guard(func() { t2 = ir.NewGetElementPtr(e.ElemType, e.Src, vs...).Type() }); p != nil {
		add(where, "ir.NewGetElementPtr on the parsed constant operands panics: %v", p.Val)
		return
	}
	if !types.Equal(t2, want) || t2.String() != want.String() {
		add(where, "ir.NewGetElementPtr computes %s, reference %s", t2, want)
	}
}

// SelfConsistent checks a parsed module without a reference model: for every value-producing
// instruction and terminator the type the parser attached must equal the type the IR library computes
// by itself from the same operands (cache cleared), every getelementptr must get the same type from the
// instruction constructor, and every constant expression's cached type must equal its recomputation.
// The parser's types themselves are validated by LLVM when the printed module is accepted and read
// back identically (the caller's gate).
func SelfConsistent(pm *ir.Module, onlyGEP bool) (fs []Finding, st Stats) {
	st.Kinds = map[string]int{}
	defs := map[string]types.Type{}
	for _, d := range pm.TypeDefs {
		defs[d.Name()] = d
	}
	same := func(a, b types.Type) bool {
		return types.Equal(a, b) && Denotes(a, defs, 0) == Denotes(b, defs, 0)
	}
	add := func(where, format string, args ...any) {
		if len(fs) < 6 {
			fs = append(fs, Finding{where, fmt.Sprintf(format, args...)})
		}
	}
	for _, pf := range pm.Funcs {
		for bi, pb := range pf.Blocks {
			var all []any
			for _, in := range pb.Insts {
				all = append(all, in)
			}
			all = append(all, pb.Term)
			for ii, px := range all {
				_, isGEP := px.(*ir.InstGetElementPtr)
				if onlyGEP && !isGEP {
					continue
				}
				tv, isVal := px.(interface{ Type() types.Type })
				if !isVal {
					continue
				}
				kind := fmt.Sprintf("%T", px)
				where := fmt.Sprintf("%s block %d inst %d (%s)", pf.Ident(), bi, ii, kind)
				got, p := typeOf(tv)
				if p != nil {
					add(where, "Type() panics: %v", p.Val)
					continue
				}
				st.Insts++
				st.Kinds[kind]++
				re, had, p2 := recompute(px)
				if had {
					st.Recomputed++
					if p2 != nil {
						add(where, "recomputing the type from the operands panics: %v", p2.Val)
					} else if !same(re, got) {
						add(where, "the IR library computes type %s from the operands, the parser attached %s", re, got)
					}
				}
				if isGEP {
					compareGEPInst(px, got, where, add)
				}
				if msg := CalleeSwap(px); msg != "" {
					add(where, "%s", msg)
				}
			}
		}
	}
	walk.Walk(pm, func(v reflect.Value, path string) bool {
		if v.Kind() != reflect.Ptr || v.IsNil() || !v.CanInterface() {
			return true
		}
		e, ok := v.Interface().(constant.Expression)
		if !ok {
			return true
		}
		ge, isGEP := e.(*constant.ExprGetElementPtr)
		if onlyGEP && !isGEP {
			return true
		}
		st.Exprs++
		cached, p := typeOf(e)
		re, had, p2 := recompute(e)
		if p != nil || p2 != nil {
			add(path, "constant expression %T: Type() panics (cached %v, recomputed %v)", e, p, p2)
			return true
		}
		if had && !same(cached, re) {
			add(path, "constant expression %T: the parser attached type %s, the IR library computes %s", e, cached, re)
		}
		if isGEP {
			compareGEPExpr(ge, cached, path, add)
		}
		return true
	})
	return
}

// Denotes spells the LLVM type that t denotes in a module whose type definitions are defs: an identified
// struct is its name, a named non-struct type (the legacy alias form `%v = type <4 x i32>`) is whatever
// the module defines under that name - not what the object itself holds, so a type object that carries
// a name it has no right to is spelled differently from the type it pretends to be.
func Denotes(t types.Type, defs map[string]types.Type, depth int) string {
	if t == nil || depth > 12 {
		return "?"
	}
	if st, ok := t.(*types.StructType); ok {
		if st.TypeName != "" {
			return "%" + st.TypeName
		}
		s := "{"
		if st.Packed {
			s = "<{"
		}
		for i, f := range st.Fields {
			if i > 0 {
				s += ","
			}
			s += Denotes(f, defs, depth+1)
		}
		return s + "}"
	}
	if n := t.Name(); n != "" {
		if d, ok := defs[n]; ok && d != t {
			if _, isStruct := d.(*types.StructType); !isStruct {
				return denotesBody(d, defs, depth+1)
			}
		}
	}
	return denotesBody(t, defs, depth)
}

func denotesBody(t types.Type, defs map[string]types.Type, depth int) string {
	switch t := t.(type) {
	case *types.PointerType:
		return Denotes(t.ElemType, defs, depth+1) + fmt.Sprintf(" as(%d)*", t.AddrSpace)
	case *types.VectorType:
		return fmt.Sprintf("<%v %d x %s>", t.Scalable, t.Len, Denotes(t.ElemType, defs, depth+1))
	case *types.ArrayType:
		return fmt.Sprintf("[%d x %s]", t.Len, Denotes(t.ElemType, defs, depth+1))
	case *types.FuncType:
		s := Denotes(t.RetType, defs, depth+1) + "("
		for i, p := range t.Params {
			if i > 0 {
				s += ","
			}
			s += Denotes(p, defs, depth+1)
		}
		if t.Variadic {
			s += ",..."
		}
		return s + ")"
	case *types.IntType:
		return fmt.Sprintf("i%d", t.BitSize)
	case *types.FloatType:
		return t.Kind.String()
	}
	return t.LLString()
}
