// Package hx is the in-process part of the verification harness: it records
// what a check explored (evidence), turns failures into replay files and
// VIOLATION records, and runs rapid properties with seeds derived from
// VERIF_SEED so that a run is a pure function of (working tree, seed).
package hx

import (
	"crypto/sha256"
	"encoding/binary"
	"encoding/json"
	"flag"
	"fmt"
	"io"
	"log"
	"os"
	"path/filepath"
	"runtime/debug"
	"sort"
	"strconv"
	"strings"
	"sync"
	"testing"
	"time"

	"pgregory.net/rapid"
)

// Violation is one failed case.
type Violation struct {
	Test   string `json:"test"`
	Msg    string `json:"msg"`
	Replay string `json:"replay"`
}

// Sample is one explored case written out.
type Sample struct {
	Test string `json:"test"`
	Case string `json:"case"`
}

// Partial is what one shard writes; the driver merges partials.
type Partial struct {
	Prop       string            `json:"prop"`
	Tier       string            `json:"tier"`
	Seed       int64             `json:"seed"`
	Shard      int               `json:"shard"`
	NShards    int               `json:"nshards"`
	Evals      int64             `json:"evals"`
	Digests    []uint64          `json:"digests"`
	Hist       map[string]int64  `json:"hist"`
	Discarded  map[string]int64  `json:"discarded"`
	Samples    []Sample          `json:"samples"`
	Violations []Violation       `json:"violations"`
	KnownSeen  map[string]int64  `json:"known_seen"`
	KnownLines []string          `json:"known_lines"`
	Exhaustive map[string]bool   `json:"exhaustive"`
	Notes      []string          `json:"notes"`
	Rules      map[string]string `json:"rules"`
	WallS      float64           `json:"wall_s"`
	Complete   bool              `json:"complete"`
}

var (
	mu       sync.Mutex
	p        Partial
	digests  = map[uint64]struct{}{}
	perTest  = map[string]int{}
	viol     = map[string]Violation{}
	start    time.Time
	Root     string // /verif
	OutDir   string // per-invocation work dir
	traceDir string
)

// Tier is "quick" or "thorough".
func Tier() string { return p.Tier }

// Thorough reports whether the thorough tier runs.
func Thorough() bool { return p.Tier == "thorough" }

// Shard returns this process' shard index and the number of shards.
func Shard() (int, int) { return p.Shard, p.NShards }

// Seed is VERIF_SEED.
func Seed() int64 { return p.Seed }

// Prop is the property ID served by this binary.
func Prop() string { return p.Prop }

// N picks a count by tier.
func N(quick, thorough int) int {
	if Thorough() {
		return thorough
	}
	return quick
}

func envInt(k string, def int64) int64 {
	if s := os.Getenv(k); s != "" {
		if v, err := strconv.ParseInt(s, 10, 64); err == nil {
			return v
		}
	}
	return def
}

// Main is called from TestMain.
func Main(m *testing.M, prop string, init func()) {
	flag.Parse()
	start = time.Now()
	p = Partial{
		Prop:       prop,
		Tier:       os.Getenv("VERIF_TIER"),
		Seed:       envInt("VERIF_SEED", 1),
		Shard:      int(envInt("VERIF_SHARD", 0)),
		NShards:    int(envInt("VERIF_NSHARDS", 1)),
		Hist:       map[string]int64{},
		Discarded:  map[string]int64{},
		KnownSeen:  map[string]int64{},
		Exhaustive: map[string]bool{},
		Rules:      map[string]string{},
	}
	if p.Tier != "thorough" {
		p.Tier = "quick"
	}
	Root = os.Getenv("VERIF_ROOT")
	if Root == "" {
		Root = "/verif"
	}
	OutDir = os.Getenv("VERIF_OUT")
	if OutDir == "" {
		OutDir = filepath.Join(Root, ".work", fmt.Sprintf("adhoc-%d", os.Getpid()))
	}
	os.MkdirAll(OutDir, 0o755)
	if os.Getenv("VERIF_TRACE") != "" {
		traceDir = filepath.Join(OutDir, fmt.Sprintf("trace-%d", p.Shard))
		os.MkdirAll(traceDir, 0o755)
	}
	// Bound memory a little: a runaway case should die, not take the machine down.
	debug.SetMemoryLimit(6 << 30)
	log.SetOutput(io.Discard) // the library logs warnings through the global logger
	_ = flag.Set("rapid.nofailfile", "true")
	os.RemoveAll("testdata/rapid")
	if init != nil {
		init()
	}
	if ReplayPrelude != nil && os.Getenv("VERIF_REPLAY") != "" {
		ReplayPrelude()
	}
	code := m.Run()
	flush(true)
	os.Exit(code)
}

func flush(complete bool) {
	mu.Lock()
	defer mu.Unlock()
	p.Digests = p.Digests[:0]
	for d := range digests {
		p.Digests = append(p.Digests, d)
	}
	sort.Slice(p.Digests, func(i, j int) bool { return p.Digests[i] < p.Digests[j] })
	p.Violations = p.Violations[:0]
	var names []string
	for k := range viol {
		names = append(names, k)
	}
	sort.Strings(names)
	for _, k := range names {
		p.Violations = append(p.Violations, viol[k])
	}
	p.WallS = time.Since(start).Seconds()
	p.Complete = complete
	buf, _ := json.Marshal(&p)
	tmp := filepath.Join(OutDir, fmt.Sprintf("shard-%d.json.tmp", p.Shard))
	os.WriteFile(tmp, buf, 0o644)
	os.Rename(tmp, filepath.Join(OutDir, fmt.Sprintf("shard-%d.json", p.Shard)))
}

// Eval counts n evaluated cases.
func Eval(n int) {
	mu.Lock()
	p.Evals += int64(n)
	mu.Unlock()
}

// Hash64 is a stable 64-bit digest.
func Hash64(s string) uint64 {
	h := sha256.Sum256([]byte(s))
	return binary.LittleEndian.Uint64(h[:8])
}

// NonTrivial records a case that satisfies the check's non-triviality rule;
// distinctness is by digest of key.
func NonTrivial(key string) {
	h := Hash64(key)
	mu.Lock()
	digests[h] = struct{}{}
	mu.Unlock()
}

// NonTrivialU records a pre-hashed (or naturally unique integer) key, namespaced by ns.
func NonTrivialU(ns uint64, v uint64) {
	h := v*0x9E3779B97F4A7C15 ^ (ns+1)*0xD6E8FEB86659FD93
	mu.Lock()
	digests[h] = struct{}{}
	mu.Unlock()
}

// Hist counts a feature.
func Hist(key string) { HistN(key, 1) }

// HistN counts a feature n times.
func HistN(key string, n int) {
	mu.Lock()
	p.Hist[key] += int64(n)
	mu.Unlock()
}

// Discard counts a generated case that was not judged.
func Discard(reason string) {
	mu.Lock()
	p.Discarded[reason]++
	mu.Unlock()
}

// Known counts a case excluded or matched by a known finding.
func Known(id string) {
	mu.Lock()
	p.KnownSeen[id]++
	mu.Unlock()
}

// KnownLine registers a KNOWN-FINDING line to be printed by the driver.
func KnownLine(line string) {
	mu.Lock()
	for _, l := range p.KnownLines {
		if l == line {
			mu.Unlock()
			return
		}
	}
	p.KnownLines = append(p.KnownLines, line)
	mu.Unlock()
}

// Rule states how test generates cases and what counts as non-trivial.
func Rule(test, rule string) {
	mu.Lock()
	p.Rules[test] = rule
	mu.Unlock()
}

// Note adds an assumption / remark to the evidence.
func Note(s string) {
	mu.Lock()
	for _, n := range p.Notes {
		if n == s {
			mu.Unlock()
			return
		}
	}
	p.Notes = append(p.Notes, s)
	mu.Unlock()
}

// Exhaustive marks test as a complete enumeration of a finite space (this shard's part).
func Exhaustive(test string, ok bool) {
	mu.Lock()
	p.Exhaustive[test] = ok
	mu.Unlock()
}

const maxSample = 1500

// SampleCase keeps up to two samples per test.
func SampleCase(test, c string) {
	mu.Lock()
	defer mu.Unlock()
	if perTest[test] >= 2 {
		return
	}
	perTest[test]++
	if len(c) > maxSample {
		c = c[:maxSample] + "…[truncated]"
	}
	p.Samples = append(p.Samples, Sample{Test: test, Case: c})
}

// Trace writes the case about to be evaluated when the driver re-runs a shard
// that died from an unrecoverable runtime error (stack overflow, concurrent map
// write); the last file written identifies the crashing case.
func Trace(test, ext, c string) {
	lastMu.Lock()
	lastTest, lastExt, lastCase = test, ext, c
	lastMu.Unlock()
	if traceDir == "" {
		return
	}
	os.WriteFile(filepath.Join(traceDir, "last."+ext), []byte(c), 0o644)
	os.WriteFile(filepath.Join(traceDir, "last.test"), []byte(test), 0o644)
}

var (
	lastMu                      sync.Mutex
	lastTest, lastExt, lastCase string
)

// Tracing reports whether cases are being traced.
func Tracing() bool { return traceDir != "" }

func sanitize(s string) string {
	var b strings.Builder
	for _, r := range s {
		switch {
		case r >= 'a' && r <= 'z', r >= 'A' && r <= 'Z', r >= '0' && r <= '9', r == '-', r == '_', r == '.':
			b.WriteRune(r)
		default:
			b.WriteByte('_')
		}
	}
	return b.String()
}

// RecordViolation writes the replay file and records the violation. A later
// violation of the same test (rapid shrinking re-runs the property) replaces the
// earlier one, so the last — minimal — case is what is reported.
func RecordViolation(test, ext, content, msg string) string {
	dir := filepath.Join(Root, "replays", p.Prop)
	os.MkdirAll(dir, 0o755)
	name := fmt.Sprintf("%s-%s-seed%d-s%d.%s", sanitize(test), p.Tier, p.Seed, p.Shard, ext)
	path := filepath.Join(dir, name)
	os.WriteFile(path, []byte(content), 0o644)
	if len(msg) > 4000 {
		msg = msg[:4000] + "…"
	}
	mu.Lock()
	viol[test] = Violation{Test: test, Msg: msg, Replay: path}
	mu.Unlock()
	flush(false)
	return path
}

// TB is the common subset of *testing.T and *rapid.T used for failing.
type TB interface {
	Fatalf(format string, args ...any)
	Helper()
}

// Fail records a violation with its replay content and fails the test.
func Fail(t TB, test, ext, content, format string, args ...any) {
	t.Helper()
	msg := fmt.Sprintf(format, args...)
	path := RecordViolation(test, ext, content, msg)
	t.Fatalf("VIOLATION-CASE test=%s replay=%s: %s", test, path, msg)
}

// Try runs f and returns the recovered panic value (nil if none) with a stack.
func Try(f func()) (pv any, stack string) {
	defer func() {
		if r := recover(); r != nil {
			pv = r
			stack = string(debug.Stack())
			if len(stack) > 3000 {
				stack = stack[:3000]
			}
		}
	}()
	f()
	return nil, ""
}

func splitmix(x uint64) uint64 {
	x += 0x9E3779B97F4A7C15
	x = (x ^ (x >> 30)) * 0xBF58476D1CE4E5B9
	x = (x ^ (x >> 27)) * 0x94D049BB133111EB
	return x ^ (x >> 31)
}

// DeriveSeed derives a non-zero seed from VERIF_SEED, the property, the test name and the shard.
func DeriveSeed(test string) uint64 {
	x := splitmix(uint64(p.Seed))
	x = splitmix(x ^ Hash64(p.Prop+"/"+test))
	x = splitmix(x ^ uint64(p.Shard)*0x100000001B3)
	x &= 0x7FFFFFFFFFFFFFFF
	if x == 0 {
		x = 1
	}
	return x
}

// Check runs a rapid property with n cases on this shard and a seed derived from VERIF_SEED.
func Check(t *testing.T, test string, n int, prop func(*rapid.T)) {
	t.Helper()
	if n <= 0 {
		return
	}
	_ = flag.Set("rapid.checks", strconv.Itoa(n))
	_ = flag.Set("rapid.seed", strconv.FormatUint(DeriveSeed(test), 10))
	_ = flag.Set("rapid.shrinktime", "20s")
	_ = flag.Set("rapid.nofailfile", "true")
	rapid.Check(t, func(rt *rapid.T) {
		defer libraryPanic(rt, test)
		if Prelude != nil {
			Prelude(rt)
		}
		prop(rt)
	})
}

// Prelude, when set by a check package, runs at the start of every rapid case with the case's own source
// of randomness (h/chaos: failing operations that must leave nothing behind). ReplayPrelude runs once
// before a stored case is replayed.
var (
	Prelude       func(*rapid.T)
	ReplayPrelude func()
)

// libraryPanic turns a panic raised inside the library (the innermost non-runtime frame belongs to
// github.com/llir/llvm) while a property is evaluated into a recorded violation: every property here
// states an outcome for inputs of its domain, and a panic is not that outcome. Panics of the harness
// itself and rapid's own control-flow panics are passed on unchanged.
func libraryPanic(rt *rapid.T, test string) {
	r := recover()
	if r == nil {
		return
	}
	if tn := fmt.Sprintf("%T", r); strings.HasPrefix(tn, "rapid.") || strings.HasPrefix(tn, "*rapid.") {
		panic(r)
	}
	stack := string(debug.Stack())
	if !PanicInLibrary(stack) {
		panic(r)
	}
	if len(stack) > 3000 {
		stack = stack[:3000]
	}
	lastMu.Lock()
	lt, ext, c := lastTest, lastExt, lastCase
	lastMu.Unlock()
	if lt != test || c == "" {
		ext, c = "txt", fmt.Sprintf("test %s, VERIF_SEED=%d shard %d/%d tier %s (rapid seed %d): the library panicked while the property was evaluated\n%v\n%s", test, p.Seed, p.Shard, p.NShards, p.Tier, DeriveSeed(test), r, stack)
	}
	Fail(rt, test, ext, c, "the library panics while the property is evaluated: %v\n%s", r, stack)
}

// PanicInLibrary reports whether the innermost frame of a panic stack that is neither runtime nor
// testing code lies in the library under test.
func PanicInLibrary(stack string) bool {
	lines := strings.Split(stack, "\n")
	seenPanic := false
	for i := 0; i+1 < len(lines); i++ {
		l := lines[i]
		if strings.HasPrefix(l, "panic(") {
			seenPanic = true
			continue
		}
		if !seenPanic || strings.HasPrefix(l, "\t") || strings.HasPrefix(l, "goroutine") || l == "" {
			continue
		}
		if strings.HasPrefix(l, "runtime.") || strings.HasPrefix(l, "runtime/") || strings.HasPrefix(l, "testing.") {
			continue
		}
		return strings.HasPrefix(l, "github.com/llir/llvm/")
	}
	return false
}

// PerShard splits a total count over the shards.
func PerShard(total int) int {
	n := total / p.NShards
	if n < 1 {
		n = 1
	}
	return n
}

// Mine reports whether item i of an enumeration belongs to this shard.
func Mine(i int) bool { return i%p.NShards == p.Shard }

var raceSeen int64

// RaceReport returns the part of the race detector's log written since the last call
// ("" if none). The driver sets GORACE=log_path=<prefix> for checks built with -race.
func RaceReport() string {
	gr := os.Getenv("GORACE")
	i := strings.Index(gr, "log_path=")
	if i < 0 {
		return ""
	}
	prefix := strings.Fields(gr[i+len("log_path="):])[0]
	path := fmt.Sprintf("%s.%d", prefix, os.Getpid())
	buf, err := os.ReadFile(path)
	if err != nil || int64(len(buf)) <= raceSeen {
		return ""
	}
	out := string(buf[raceSeen:])
	raceSeen = int64(len(buf))
	if len(out) > 6000 {
		out = out[:6000] + "\n…"
	}
	return out
}
