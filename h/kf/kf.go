// Package kf reads /verif/KNOWN_FINDINGS.txt (never writes it). A check
// activates an open finding only if the finding is listed for its property AND
// its recorded replay still fails in the recorded way on the current tree; an
// active finding prints one KNOWN-FINDING line and switches on a specific
// exclusion / matcher in the check. Anything else that fails is a VIOLATION.
package kf

import (
	"bufio"
	"fmt"
	"os"
	"path/filepath"
	"regexp"
	"strings"
	"sync"

	"verif/h/hx"
)

// Finding is one open finding.
type Finding struct {
	Prop   string
	ID     string
	Replay string
	What   string
}

var (
	once   sync.Once
	open   []Finding
	active = map[string]bool{}
	mu     sync.Mutex
)

func load() {
	f, err := os.Open(filepath.Join(hx.Root, "KNOWN_FINDINGS.txt"))
	if err != nil {
		return
	}
	defer f.Close()
	sc := bufio.NewScanner(f)
	sc.Buffer(make([]byte, 1<<20), 1<<20)
	for sc.Scan() {
		line := strings.TrimSpace(sc.Text())
		if !strings.HasPrefix(line, "open:") {
			continue
		}
		rest := strings.TrimSpace(strings.TrimPrefix(line, "open:"))
		what := ""
		if i := strings.Index(rest, "::"); i >= 0 {
			what = strings.TrimSpace(rest[i+2:])
			rest = rest[:i]
		}
		fd := Finding{What: what}
		for _, tok := range strings.Fields(rest) {
			switch {
			case strings.HasPrefix(tok, "property="):
				fd.Prop = strings.TrimPrefix(tok, "property=")
			case strings.HasPrefix(tok, "id="):
				fd.ID = strings.TrimPrefix(tok, "id=")
			case strings.HasPrefix(tok, "replay="):
				fd.Replay = strings.TrimPrefix(tok, "replay=")
			}
		}
		if fd.Prop != "" && fd.ID != "" {
			open = append(open, fd)
		}
	}
}

// Activate switches finding id on for the running check if it is listed as open
// for this property and reproduces(replay content) still reports the recorded failure.
func Activate(id string, reproduces func(replay string) bool) bool {
	once.Do(load)
	for _, fd := range open {
		if fd.ID != id || fd.Prop != hx.Prop() {
			continue
		}
		buf, err := os.ReadFile(filepath.Join(hx.Root, fd.Replay))
		if err != nil {
			return false
		}
		ok := false
		func() {
			defer func() { recover() }()
			ok = reproduces(string(buf))
		}()
		if !ok {
			return false
		}
		mu.Lock()
		active[id] = true
		mu.Unlock()
		hx.KnownLine(fmt.Sprintf("KNOWN-FINDING: property=%s %s (%s; replay %s)", fd.Prop, fd.What, fd.ID, fd.Replay))
		return true
	}
	return false
}

// Active reports whether finding id was activated.
func Active(id string) bool {
	mu.Lock()
	defer mu.Unlock()
	return active[id]
}

// Hit counts a case that matched (or was excluded because of) an active finding.
func Hit(id string) { hx.Known(id) }

var (
	reSplitDbg      = regexp.MustCompile(`,\s*splitDebugInlining: false\b`)
	reIsDefFalse    = regexp.MustCompile(`\bisDefinition: false\b`)
	reDwarfAS0Field = regexp.MustCompile(`,\s*dwarfAddressSpace: 0\b`)
)

// RewriteDebugInfo rewrites external input (compiler output) so that it no longer runs into the two open
// debug-info findings of property prop ("C01", "C17"): `splitDebugInlining: false` is removed,
// `isDefinition: false` becomes true, `dwarfAddressSpace: 0` is removed; every rewrite is counted as a
// hit of the finding. bools / as0 say which of the findings are active (still reproduce).
func RewriteDebugInfo(x, prop string, bools, as0 bool) string {
	if bools && (strings.Contains(x, "splitDebugInlining: false") || strings.Contains(x, "isDefinition: false")) {
		id := "KF-" + prop + "-di-default-true-bools"
		x = reSplitDbg.ReplaceAllStringFunc(x, func(string) string { Hit(id); return "" })
		x = reIsDefFalse.ReplaceAllStringFunc(x, func(string) string { Hit(id); return "isDefinition: true" })
	}
	if as0 && strings.Contains(x, "dwarfAddressSpace: 0") {
		id := "KF-" + prop + "-dwarfAddressSpace-zero"
		x = reDwarfAS0Field.ReplaceAllStringFunc(x, func(string) string { Hit(id); return "" })
	}
	return x
}
