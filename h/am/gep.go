package am

import "fmt"

// GEPIndex describes one getelementptr index for the reference type walk.
type GEPIndex struct {
	VecLen   uint64 // 0 scalar
	Scalable bool
	HasVal   bool // constant (or splat of a constant): needed to step into structs
	Val      int64
}

// GEPType is the reference getelementptr result type: a pointer, in the address
// space of the base, to the element reached by stepping through elemT with the
// indices after the first; a vector of such pointers if the base or any index is a vector.
func GEPType(u *Universe, elemT, base *Type, idx []GEPIndex) (*Type, error) {
	var as uint64
	var vlen uint64
	scalable := false
	switch base.K {
	case Ptr:
		as = base.AddrSpace
	case Vec:
		if base.Elem.K != Ptr {
			return nil, fmt.Errorf("gep base vector of non-pointers")
		}
		as = base.Elem.AddrSpace
		vlen, scalable = base.Len, base.Scalable
	default:
		return nil, fmt.Errorf("gep base is not a pointer")
	}
	t := elemT
	for i, ix := range idx {
		if ix.VecLen != 0 {
			vlen, scalable = ix.VecLen, ix.Scalable
		}
		if i == 0 {
			continue
		}
		switch t.K {
		case Array, Vec:
			t = t.Elem
		case Struct:
			if !ix.HasVal || ix.Val < 0 || int(ix.Val) >= len(t.Fields) {
				return nil, fmt.Errorf("bad struct index")
			}
			t = t.Fields[ix.Val]
		case Named:
			d := u.Def(t.Name)
			if d == nil || d.Opaque || !ix.HasVal || ix.Val < 0 || int(ix.Val) >= len(d.Fields) {
				return nil, fmt.Errorf("bad identified struct index")
			}
			t = d.Fields[ix.Val]
		default:
			return nil, fmt.Errorf("cannot index into %s", t)
		}
	}
	res := PA(t, as)
	if vlen != 0 {
		v := V(vlen, res)
		v.Scalable = scalable
		return v, nil
	}
	return res, nil
}
