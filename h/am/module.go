package am

import (
	"fmt"
	"math/big"
	"sort"
	"strings"
)

// ---------------------------------------------------------------------------
// Constants

type CKind int

const (
	CInt CKind = iota
	CFloat
	CNull
	CNone
	CUndef
	CPoison
	CZero
	CStruct
	CArray
	CVector
	CChars
	CGlobal // address of a global variable / function / alias / ifunc
	CExpr
	CBlockAddr
	CDSOLocalEq
	CNoCFI
)

// Const is a constant.
type Const struct {
	K     CKind
	T     *Type
	Int   *big.Int // CInt
	Lit   string   // CFloat: the literal spelling (hex forms keep exact bit patterns)
	Elems []*Const // CStruct, CArray, CVector
	Chars string   // CChars
	Ref   any      // CGlobal, CDSOLocalEq, CNoCFI, CBlockAddr: the *Global / *Fun / *Alias referred to
	Block *Block   // CBlockAddr
	Expr  *Expr    // CExpr
}

// Expr is a constant expression.
type Expr struct {
	Op       string // add sub mul shl lshr ashr and or xor ... trunc zext ... getelementptr icmp fcmp select extractelement insertelement shufflevector ...
	Flags    []string
	Pred     string
	Args     []*Const
	To       *Type // casts
	ElemT    *Type // getelementptr
	InBounds bool  // getelementptr
	InRange  int   // getelementptr: index with inrange (-1 none)
	Indices  []uint64
}

// ---------------------------------------------------------------------------
// Values

type VKind int

const (
	VConst VKind = iota
	VInst
	VParam
	VBlock
	VMetadata // metadata as value (call arguments)
	VInlineAsm
)

// Value is an operand.
type Value struct {
	K   VKind
	C   *Const
	I   *Inst
	P   *Param
	B   *Block
	MD  *MDField
	Asm *InlineAsm
}

// InlineAsm callee.
type InlineAsm struct {
	T           *Type // function type
	Asm         string
	Constraints string
	SideEffect  bool
	AlignStack  bool
	Intel       bool
	Unwind      bool
}

// Type returns the type of the value.
func (v *Value) Type() *Type {
	switch v.K {
	case VConst:
		return v.C.T
	case VInst:
		return v.I.T
	case VParam:
		return v.P.T
	case VBlock:
		return TLabel
	case VMetadata:
		return TMD
	case VInlineAsm:
		return P(v.Asm.T)
	}
	return nil
}

// ---------------------------------------------------------------------------
// Instructions and terminators

// Inst is an instruction or terminator.
type Inst struct {
	Op   string
	Name string // "" = unnamed (numbered if it produces a value)
	T    *Type  // result type; nil or Void when no value
	Args []*Value

	Flags      []string // nsw nuw exact, fast-math flags
	Pred       string   // icmp/fcmp
	To         *Type    // casts
	ElemT      *Type    // alloca, load, gep element type
	InBounds   bool
	Align      uint64
	AddrSpace  uint64 // alloca
	InAlloca   bool
	SwiftError bool
	Volatile   bool
	Atomic     bool
	Weak       bool
	SyncScope  string
	Ordering   string
	Ordering2  string // cmpxchg failure ordering
	RMWOp      string
	Indices    []uint64 // extractvalue / insertvalue
	Mask       *Const   // shufflevector mask

	// phi
	Incs []*Incoming

	// call / invoke / callbr
	Callee        *Value
	FnT           *Type // callee function type
	Tail          string
	CC            string
	RetAttrs      []string
	ArgAttrs      [][]string
	FnAttrs       []string
	Bundles       []*Bundle
	AddrSpaceCall uint64

	// terminators
	Targets        []*Block  // br: [t] / [true,false]; switch: default first then cases; invoke: normal, unwind; indirectbr targets; callbr: fallthrough + indirect
	Cases          []*Const  // switch case values (parallel to Targets[1:])
	Cleanup        bool      // landingpad
	Clauses        []*Clause // landingpad
	ParentPad      *Value    // catchpad (catchswitch), cleanuppad/catchswitch (token or none)
	UnwindToCaller bool      // catchswitch / cleanupret
	Handlers       []*Block  // catchswitch

	MD []*Attachment
}

type Incoming struct {
	V    *Value
	Pred *Block
}

type Bundle struct {
	Tag  string
	Args []*Value
}

type Clause struct {
	Filter bool
	V      *Const
}

// HasValue reports whether the instruction produces a value (consumes a local number when unnamed).
func (i *Inst) HasValue() bool { return i.T != nil && i.T.K != Void }

// ---------------------------------------------------------------------------
// Functions

type Param struct {
	Name  string
	T     *Type
	Attrs []string
}

type Block struct {
	Name  string // "" = unnamed
	Insts []*Inst
	Term  *Inst
	Func  *Fun
	Index int
}

type Fun struct {
	Name          string // "" = unnamed global
	Ret           *Type
	Params        []*Param
	Variadic      bool
	Blocks        []*Block // nil: declaration
	Decl          bool     // generator: this function stays a declaration
	Linkage       string
	Preemption    string
	Visibility    string
	DLL           string
	CC            string
	RetAttrs      []string
	UnnamedAddr   string
	AddrSpace     uint64
	FnAttrs       []string
	AttrGroup     *AttrGroup
	Section       string
	Partition     string
	Comdat        *Comdat
	Align         uint64
	GC            string
	Prefix        *Const
	Prologue      *Const
	Personality   *Const
	MD            []*Attachment
	UseListOrders []*UseListOrder // function-level directives, printed before the closing brace
}

// FuncType returns the function's type.
func (f *Fun) FuncType() *Type {
	var ps []*Type
	for _, p := range f.Params {
		ps = append(ps, p.T)
	}
	return Fn(f.Ret, f.Variadic, ps...)
}

// PtrType returns the type of @f.
func (f *Fun) PtrType() *Type { return PA(f.FuncType(), f.AddrSpace) }

type Global struct {
	Name        string // "" unnamed
	T           *Type  // content type
	Init        *Const // nil: declaration
	Constant    bool
	Linkage     string
	Preemption  string
	Visibility  string
	DLL         string
	TLS         string // "" none, "generic" => thread_local, else thread_local(model)
	UnnamedAddr string
	AddrSpace   uint64
	ExternInit  bool
	Section     string
	Partition   string
	Comdat      *Comdat
	Align       uint64
	Attrs       []string
	Sanitizer   string // LLVM 15: no_sanitize_address, sanitize_memtag, ...
	MD          []*Attachment
}

func (g *Global) PtrType() *Type { return PA(g.T, g.AddrSpace) }

type Alias struct {
	Name        string
	T           *Type // aliasee content type
	AddrSpace   uint64
	Aliasee     *Const
	Linkage     string
	Preemption  string
	Visibility  string
	DLL         string
	TLS         string
	UnnamedAddr string
	Partition   string
	IFunc       bool
	// BareExpr: an aliasee that is a bitcast/getelementptr/addrspacecast/inttoptr expression is written
	// without its leading type (`alias i8, getelementptr (...)`), the form compilers emit.
	BareExpr bool
}

type Comdat struct {
	Name string
	Kind string
}

type AttrGroup struct {
	ID    int
	Attrs []string
}

// ---------------------------------------------------------------------------
// Metadata

type MDKind int

const (
	MDNull MDKind = iota
	MDString
	MDValue  // typed constant as metadata: i32 7
	MDRef    // reference to a numbered node
	MDInline // inline node (tuple or specialised) without ID
	MDInt    // bare integer (specialised node fields)
	MDBool
	MDEnum       // bare keyword (DW_TAG_..., DIFlag..., FullDebug)
	MDLocalValue // function-local value: %x (only in call arguments)
)

// MDField is an operand of a metadata node or a field value of a specialised node.
type MDField struct {
	K     MDKind
	Str   string   // MDString, MDEnum
	C     *Const   // MDValue
	Node  *MDNode  // MDRef, MDInline
	Int   *big.Int // MDInt
	Bool  bool
	Local *Value // MDLocalValue
}

// MDNode is a metadata node: a tuple (Kind "") or a specialised node.
type MDNode struct {
	ID       int // -1: inline / unassigned
	Distinct bool
	Kind     string     // "" tuple, else DIFile, DILocation, ...
	Fields   []*MDField // tuple operands
	Names    []string   // specialised: field names parallel to Fields
}

type NamedMD struct {
	Name  string
	Nodes []*MDField // MDRef or inline DIExpression
}

type Attachment struct {
	Kind string
	Node *MDField // MDRef or MDInline
}

// ---------------------------------------------------------------------------
// Module

type TopKind int

const (
	TopTypeDef TopKind = iota
	TopComdat
	TopGlobal
	TopAlias
	TopFunc
	TopAttrGroup
	TopNamedMD
	TopMD
	TopAsm
)

// Top is one top-level entity in textual order.
type Top struct {
	K   TopKind
	Idx int
}

type Module struct {
	SourceFilename string
	DataLayout     string
	Triple         string
	Asm            []string
	U              *Universe
	Comdats        []*Comdat
	Globals        []*Global
	Aliases        []*Alias
	Funcs          []*Fun
	AttrGroups     []*AttrGroup
	NamedMDs       []*NamedMD
	MDs            []*MDNode
	Order          []Top           // textual order; nil = canonical grouping
	UseListOrders  []*UseListOrder // module-level directives, printed after everything else
}

// UseListOrder is a uselistorder directive.
type UseListOrder struct {
	V       *Value
	Indices []uint64
	// uselistorder_bb @Fn, %BB, { ... } (module level only): V is nil
	Fn *Fun
	BB *Block
}

// ---------------------------------------------------------------------------
// Text emission

// Printer renders a module as LLVM assembly. Noise functions may vary spellings.
type Printer struct {
	inNode   int // depth inside metadata node bodies (inline placement of referenced nodes is only drawn there)
	sb       strings.Builder
	nums     map[any]int // local numbering of the current function
	gnums    map[any]int // numbering of unnamed globals
	Explicit bool        // spell numbered locals/labels explicitly where LLVM allows ("%3 = ", "3:")
	inVector int         // depth inside vector constants (Noise.OverwideInts leaves their elements alone)
	nInt     int         // integer constants printed so far (Noise.OverwideInts)
	nHex     int         // non-negative integers printed so far (Noise.HexInts)
}

// idNum spells an unnamed value's number, with redundant leading zeros under Noise.LeadingZeros
// (LLVM reads %01 and %1 as the same ID).
func idNum(n int) string {
	if noise.LeadingZeros && noise.OctalLookalikes {
		// only numbers that stay numbers when read in base 8 (`010`, `0017`, `025`): a reader that takes the
		// leading zero for an octal marker binds them to another value instead of failing on `09`
		for m := n; m > 0; m /= 10 {
			if m%10 > 7 {
				return fmt.Sprint(n)
			}
		}
	}
	if noise.LeadingZeros {
		switch n % 3 {
		case 0:
			return fmt.Sprintf("0%d", n)
		case 1:
			return fmt.Sprintf("00%d", n)
		}
	}
	return fmt.Sprint(n)
}

func globalRef(name string, num int) string {
	if name == "" {
		return "@" + idNum(num)
	}
	return "@" + QuoteName(name)
}

func (p *Printer) gname(x any, name string) string { return globalRef(name, p.gnums[x]) }

// gdef spells the name of a global value at its definition: an unnamed one may be written with the empty
// quoted name `@""` (LLVM numbers it by position like any unnamed definition).
func (p *Printer) gdef(x any, name string) string {
	if name == "" && noise.EmptyQuoted && p.gnums[x]%2 == 1 {
		return `@""`
	}
	return p.gname(x, name)
}

// NumberGlobals computes LLVM's numbering of unnamed globals: in textual order over
// global variables, aliases, ifuncs and functions.
func (m *Module) NumberGlobals() map[any]int {
	nums := map[any]int{}
	n := 0
	for _, t := range m.order() {
		switch t.K {
		case TopGlobal:
			if g := m.Globals[t.Idx]; g.Name == "" {
				nums[g] = n
				n++
			}
		case TopAlias:
			if a := m.Aliases[t.Idx]; a.Name == "" {
				nums[a] = n
				n++
			}
		case TopFunc:
			if f := m.Funcs[t.Idx]; f.Name == "" {
				nums[f] = n
				n++
			}
		}
	}
	return nums
}

func (m *Module) order() []Top {
	if m.Order != nil {
		return m.Order
	}
	var o []Top
	for i := range m.Asm {
		o = append(o, Top{TopAsm, i})
	}
	if m.U != nil {
		for i := range m.U.Defs {
			o = append(o, Top{TopTypeDef, i})
		}
	}
	for i := range m.Comdats {
		o = append(o, Top{TopComdat, i})
	}
	for i := range m.Globals {
		o = append(o, Top{TopGlobal, i})
	}
	for i := range m.Aliases {
		o = append(o, Top{TopAlias, i})
	}
	for i := range m.Funcs {
		o = append(o, Top{TopFunc, i})
	}
	for i := range m.AttrGroups {
		o = append(o, Top{TopAttrGroup, i})
	}
	for i := range m.NamedMDs {
		o = append(o, Top{TopNamedMD, i})
	}
	for i := range m.MDs {
		o = append(o, Top{TopMD, i})
	}
	return o
}

// NumberLocals computes LLVM's numbering of the unnamed values of f: parameters
// first, then per block the block itself and each value-producing instruction/terminator.
func NumberLocals(f *Fun) map[any]int {
	nums := map[any]int{}
	n := 0
	for _, p := range f.Params {
		if p.Name == "" {
			nums[p] = n
			n++
		}
	}
	for _, b := range f.Blocks {
		if b.Name == "" {
			nums[b] = n
			n++
		}
		for _, i := range append(append([]*Inst{}, b.Insts...), b.Term) {
			if i != nil && i.HasValue() && i.Name == "" {
				nums[i] = n
				n++
			}
		}
	}
	return nums
}

// Text renders the module.
func (m *Module) Text() string {
	p := &Printer{}
	return strings.Replace(p.Module(m), aliasMarker+"\n", "", 1)
}

func (p *Printer) w(format string, args ...any) { fmt.Fprintf(&p.sb, format, args...) }

func QuoteStr(s string) string {
	var b strings.Builder
	b.WriteByte('"')
	for i := 0; i < len(s); i++ {
		c := s[i]
		if c >= ' ' && c <= '~' && c != '"' && c != '\\' && !(noise.EscapePrintable && (c == 'e' || c == '0' || c == ' ')) {
			b.WriteByte(c)
		} else {
			fmt.Fprintf(&b, "\\%02X", c)
		}
	}
	b.WriteByte('"')
	return b.String()
}

const aliasMarker = ";;verif-alias-definitions;;"

// TextNoisy renders the module with the given spelling noise.
func (m *Module) TextNoisy(n Noise) string {
	noise = n
	vecAlias, vecAliasDefs, vecAliases, arrAliases, ptrAliases = map[string]string{}, nil, 0, 0, 0
	defer func() { noise = Noise{} }()
	p := &Printer{Explicit: n.Explicit}
	body := p.Module(m)
	// the aliases must be defined before their first use and after the scalar aliases they mention: the
	// printer left a marker right after the scalar alias definitions
	defs := ""
	if len(vecAliasDefs) > 0 {
		defs = strings.Join(vecAliasDefs, "\n") + "\n"
	}
	return strings.Replace(body, aliasMarker+"\n", defs, 1)
}

func (p *Printer) comment() {
	if noise.Comments {
		p.w("; a comment with \"quotes\" and %%names @x !0\n\n")
	}
}

func (p *Printer) Module(m *Module) string {
	p.sb.Reset()
	p.gnums = m.NumberGlobals()
	if m.SourceFilename != "" {
		p.w("source_filename = %s\n", QuoteStr(m.SourceFilename))
	}
	if m.DataLayout != "" {
		p.w("target datalayout = %s\n", QuoteStr(m.DataLayout))
	}
	if m.Triple != "" {
		p.w("target triple = %s\n", QuoteStr(m.Triple))
	}
	// type aliases (noise): defined before anything can use them, each chain in order
	var aliased []string
	for base := range noise.TypeAlias {
		aliased = append(aliased, base)
	}
	sort.Strings(aliased)
	for _, base := range aliased {
		prev := base
		for _, name := range noise.TypeAlias[base] {
			p.w("%%%s = type %s\n", QuoteName(name), prev)
			prev = "%" + QuoteName(name)
		}
	}
	p.w("%s\n", aliasMarker) // the named vector, array and function types created while rendering go here (TextNoisy)
	for _, t := range m.order() {
		p.comment()
		switch t.K {
		case TopAsm:
			p.w("module asm %s\n", QuoteStr(m.Asm[t.Idx]))
		case TopTypeDef:
			p.w("%s\n", m.U.Defs[t.Idx].DefString())
		case TopComdat:
			c := m.Comdats[t.Idx]
			p.w("$%s = comdat %s\n", QuoteName(c.Name), c.Kind)
		case TopGlobal:
			p.global(m.Globals[t.Idx])
		case TopAlias:
			p.alias(m.Aliases[t.Idx])
		case TopFunc:
			p.fn(m.Funcs[t.Idx])
		case TopAttrGroup:
			g := m.AttrGroups[t.Idx]
			if noise.SplitAttrGroups && len(g.Attrs) >= 2 {
				k := len(g.Attrs) / 2
				p.w("attributes #%s = { %s }\n", idNum(g.ID), strings.Join(g.Attrs[:k+1], " "))
				p.w("attributes #%s = { %s }\n", idNum(g.ID), strings.Join(g.Attrs[k:], " "))
			} else {
				p.w("attributes #%s = { %s }\n", idNum(g.ID), strings.Join(g.Attrs, " "))
			}
		case TopNamedMD:
			nm := m.NamedMDs[t.Idx]
			var fs []string
			for _, f := range nm.Nodes {
				fs = append(fs, p.mdField(f, false))
			}
			p.w("!%s = !{%s}\n", mdName(nm.Name), strings.Join(fs, ", "))
		case TopMD:
			n := m.MDs[t.Idx]
			p.w("!%s = %s\n", idNum(n.ID), p.mdNodeBody(n))
		}
	}
	for _, u := range m.UseListOrders {
		if u.BB != nil {
			p.w("uselistorder_bb %s, %%%s, { %s }\n", p.gref(u.Fn), QuoteName(u.BB.Name), idxList(u.Indices))
			continue
		}
		p.w("uselistorder %s, { %s }\n", p.tv(u.V), idxList(u.Indices))
	}
	return p.sb.String()
}

func mdName(s string) string {
	var b strings.Builder
	for i := 0; i < len(s); i++ {
		c := s[i]
		ok := c >= 'a' && c <= 'z' || c >= 'A' && c <= 'Z' || c == '-' || c == '$' || c == '.' || c == '_' || i > 0 && c >= '0' && c <= '9'
		if ok {
			b.WriteByte(c)
		} else {
			fmt.Fprintf(&b, "\\%02X", c)
		}
	}
	return b.String()
}

func join(parts ...string) string {
	var out []string
	for _, s := range parts {
		if s != "" {
			out = append(out, s)
		}
	}
	return strings.Join(out, " ")
}

func tlsStr(t string) string {
	switch t {
	case "":
		return ""
	case "generic":
		return "thread_local"
	}
	return "thread_local(" + t + ")"
}

func asStr(as uint64) string {
	if as == 0 {
		return ""
	}
	return fmt.Sprintf("addrspace(%d)", as)
}

func (p *Printer) mdAttachments(mds []*Attachment, lead string) string {
	var sb strings.Builder
	for _, a := range mds {
		sb.WriteString(lead)
		sb.WriteString("!" + mdName(a.Kind) + " " + p.mdField(a.Node, false))
	}
	return sb.String()
}

func (p *Printer) global(g *Global) {
	kw := "global"
	if g.Constant {
		kw = "constant"
	}
	ext := ""
	if g.ExternInit {
		ext = "externally_initialized"
	}
	head := join(g.Linkage, g.Preemption, g.Visibility, g.DLL, tlsStr(g.TLS), g.UnnamedAddr, asStr(g.AddrSpace), ext, kw, g.T.String())
	p.w("%s = %s", p.gdef(g, g.Name), head)
	if g.Init != nil {
		p.w(" %s", p.constBody(g.Init))
	}
	if g.Section != "" {
		p.w(", section %s", QuoteStr(g.Section))
	}
	if g.Partition != "" {
		p.w(", partition %s", QuoteStr(g.Partition))
	}
	if g.Comdat != nil {
		if g.Comdat.Name == g.Name {
			p.w(", comdat")
		} else {
			p.w(", comdat($%s)", QuoteName(g.Comdat.Name))
		}
	}
	if g.Align != 0 {
		p.w(", align %d", g.Align)
	}
	if g.Sanitizer != "" {
		p.w(", %s", g.Sanitizer)
	}
	p.w("%s", p.mdAttachments(g.MD, ", "))
	if len(g.Attrs) > 0 {
		p.w(" %s", strings.Join(g.Attrs, " "))
	}
	p.w("\n")
}

func (p *Printer) alias(a *Alias) {
	kw := "alias"
	if a.IFunc {
		kw = "ifunc"
	}
	head := join(a.Linkage, a.Preemption, a.Visibility, a.DLL, tlsStr(a.TLS), a.UnnamedAddr, kw)
	aliasee := p.constTV(a.Aliasee)
	if a.BareExpr && a.Aliasee.K == CExpr {
		switch a.Aliasee.Expr.Op {
		case "bitcast", "getelementptr", "addrspacecast", "inttoptr":
			aliasee = strings.TrimPrefix(aliasee, a.Aliasee.T.String()+" ")
		}
	}
	p.w("%s = %s %s, %s", p.gdef(a, a.Name), head, a.T, aliasee)
	if a.Partition != "" {
		p.w(", partition %s", QuoteStr(a.Partition))
	}
	p.w("\n")
}

func (p *Printer) local(x any, name string) string {
	if name == "" {
		return "%" + idNum(p.nums[x])
	}
	return "%" + QuoteName(name)
}

func (p *Printer) fn(f *Fun) {
	p.nums = NumberLocals(f)
	kw := "define"
	if f.Blocks == nil {
		kw = "declare"
		p.w("%s", "declare"+p.mdAttachments(f.MD, " ")+" ")
		_ = kw
	} else {
		p.w("define ")
	}
	var ps []string
	for _, prm := range f.Params {
		s := prm.T.String()
		if len(prm.Attrs) > 0 {
			s += " " + strings.Join(prm.Attrs, " ")
		}
		if f.Blocks != nil || prm.Name != "" {
			if prm.Name != "" {
				s += " %" + QuoteName(prm.Name)
			}
		}
		ps = append(ps, s)
	}
	if f.Variadic {
		ps = append(ps, "...")
	}
	head := join(f.Linkage, f.Preemption, f.Visibility, f.DLL, f.CC, strings.Join(f.RetAttrs, " "), f.Ret.String())
	p.w("%s %s(%s)", head, p.gdef(f, f.Name), strings.Join(ps, ", "))
	tail := join(f.UnnamedAddr, asStr(f.AddrSpace), strings.Join(f.FnAttrs, " "))
	if f.AttrGroup != nil {
		tail = join(tail, "#"+idNum(f.AttrGroup.ID))
	}
	if tail != "" {
		p.w(" %s", tail)
	}
	if f.Section != "" {
		p.w(" section %s", QuoteStr(f.Section))
	}
	if f.Partition != "" {
		p.w(" partition %s", QuoteStr(f.Partition))
	}
	if f.Comdat != nil {
		if f.Comdat.Name == f.Name {
			p.w(" comdat")
		} else {
			p.w(" comdat($%s)", QuoteName(f.Comdat.Name))
		}
	}
	if f.Align != 0 {
		p.w(" align %d", f.Align)
	}
	if f.GC != "" {
		p.w(" gc %s", QuoteStr(f.GC))
	}
	if f.Prefix != nil {
		p.w(" prefix %s", p.constTV(f.Prefix))
	}
	if f.Prologue != nil {
		p.w(" prologue %s", p.constTV(f.Prologue))
	}
	if f.Personality != nil {
		p.w(" personality %s", p.constTV(f.Personality))
	}
	if f.Blocks == nil {
		p.w("\n")
		return
	}
	p.w("%s {\n", p.mdAttachments(f.MD, " "))
	for bi, b := range f.Blocks {
		if b.Name != "" {
			p.w("%s:\n", QuoteName(b.Name))
		} else if bi > 0 || p.Explicit {
			p.w("%s:\n", idNum(p.nums[b]))
		}
		ind := "  "
		if noise.Indent != "" {
			ind = noise.Indent
		}
		for _, i := range b.Insts {
			p.w("%s%s\n", ind, p.inst(i))
			if noise.Comments {
				p.w("%s; trailing\n", ind)
			}
		}
		p.w("%s%s\n", ind, p.inst(b.Term))
	}
	for _, u := range f.UseListOrders {
		p.w("  uselistorder %s, { %s }\n", p.tv(u.V), idxList(u.Indices))
	}
	p.w("}\n")
}

// value spelling without type
func (p *Printer) val(v *Value) string {
	switch v.K {
	case VConst:
		return p.constBody(v.C)
	case VInst:
		return p.local(v.I, v.I.Name)
	case VParam:
		return p.local(v.P, v.P.Name)
	case VBlock:
		return p.local(v.B, v.B.Name)
	case VMetadata:
		return p.mdField(v.MD, true)
	case VInlineAsm:
		a := v.Asm
		return join("asm", b2s(a.SideEffect, "sideeffect"), b2s(a.AlignStack, "alignstack"), b2s(a.Intel, "inteldialect"), b2s(a.Unwind, "unwind")) + " " + QuoteStr(a.Asm) + ", " + QuoteStr(a.Constraints)
	}
	return "?"
}

func b2s(b bool, s string) string {
	if b {
		return s
	}
	return ""
}

// typed value
func (p *Printer) tv(v *Value) string {
	if v.K == VMetadata {
		return "metadata " + p.mdField(v.MD, true)
	}
	return v.Type().String() + " " + p.val(v)
}

func (p *Printer) constTV(c *Const) string { return c.T.String() + " " + p.constBody(c) }

func (p *Printer) constBody(c *Const) string {
	switch c.K {
	case CInt:
		if c.T.K == Int && c.T.Bits == 1 && c.Lit == "" {
			if c.Int.Sign() == 0 {
				return "false"
			}
			return "true"
		}
		if c.Lit != "" {
			return c.Lit
		}
		if noise.HexInts && p.inVector == 0 && c.T.K == Int && c.T.Bits > 1 && c.Int.Sign() >= 0 && c.Int.BitLen() <= int(c.T.Bits) {
			p.nHex++
			if p.nHex%3 == 0 {
				return fmt.Sprintf("u0x%X", c.Int)
			}
		}
		if noise.OverwideInts && p.inVector == 0 && c.T.K == Int && c.T.Bits > 1 {
			// every fourth integer constant is spelled with a literal too wide for its type: LLVM reads
			// literals modulo 2^N, so v + k*2^N denotes v (k chosen so that the literal also crosses the
			// 64-bit boundaries)
			p.nInt++
			if p.nInt%4 == 0 {
				k := new(big.Int).Lsh(big.NewInt(1), uint(c.T.Bits))
				switch (p.nInt / 4) % 4 {
				case 1:
					k.Neg(k)
				case 2:
					k.Lsh(k, 64)
				case 3:
					k.Lsh(k, 64).Neg(k)
				}
				return k.Add(k, c.Int).String()
			}
		}
		return c.Int.String()
	case CFloat:
		return c.Lit
	case CNull:
		return "null"
	case CNone:
		return "none"
	case CUndef:
		return "undef"
	case CPoison:
		return "poison"
	case CZero:
		return "zeroinitializer"
	case CStruct:
		var es []string
		for _, e := range c.Elems {
			es = append(es, p.constTV(e))
		}
		body := "{}"
		if len(es) > 0 {
			body = "{ " + strings.Join(es, ", ") + " }"
		}
		if c.T.K == Struct && c.T.Packed || c.T.K == Named && c.Lit == "packed" {
			return "<" + body + ">"
		}
		return body
	case CArray:
		var es []string
		for _, e := range c.Elems {
			es = append(es, p.constTV(e))
		}
		return "[" + strings.Join(es, ", ") + "]"
	case CVector:
		var es []string
		p.inVector++
		for _, e := range c.Elems {
			es = append(es, p.constTV(e))
		}
		p.inVector--
		body := strings.Join(es, ", ")
		if strings.HasPrefix(body, "{") {
			// `<{` would be lexed as the start of a packed struct
			return "< " + body + " >"
		}
		return "<" + body + ">"
	case CChars:
		q := QuoteStr(c.Chars)
		return "c" + q
	case CGlobal:
		return p.gref(c.Ref)
	case CDSOLocalEq:
		return "dso_local_equivalent " + p.gref(c.Ref)
	case CNoCFI:
		return "no_cfi " + p.gref(c.Ref)
	case CBlockAddr:
		return fmt.Sprintf("blockaddress(%s, %s)", p.gref(c.Ref), "%"+blockLabel(c.Block))
	case CExpr:
		return p.expr(c.Expr)
	}
	return "?"
}

// gref spells a reference to a global entity.
func (p *Printer) gref(x any) string {
	switch x := x.(type) {
	case *Global:
		return p.gname(x, x.Name)
	case *Fun:
		return p.gname(x, x.Name)
	case *Alias:
		return p.gname(x, x.Name)
	}
	return "@?"
}

// RefName returns the name of a referred global entity ("" if unnamed).
func RefName(x any) string {
	switch x := x.(type) {
	case *Global:
		return x.Name
	case *Fun:
		return x.Name
	case *Alias:
		return x.Name
	}
	return ""
}

func blockLabel(b *Block) string {
	if b.Name != "" {
		return QuoteName(b.Name)
	}
	nums := NumberLocals(b.Func)
	return fmt.Sprint(nums[b])
}

func (p *Printer) expr(e *Expr) string {
	var args []string
	for _, a := range e.Args {
		args = append(args, p.constTV(a))
	}
	switch e.Op {
	case "trunc", "zext", "sext", "fptrunc", "fpext", "fptoui", "fptosi", "uitofp", "sitofp", "ptrtoint", "inttoptr", "bitcast", "addrspacecast":
		return fmt.Sprintf("%s (%s to %s)", e.Op, args[0], e.To)
	case "getelementptr":
		ib := ""
		if e.InBounds {
			ib = " inbounds"
		}
		for i := range args {
			if i > 0 && e.InRange == i {
				args[i] = "inrange " + args[i]
			}
		}
		return fmt.Sprintf("getelementptr%s (%s, %s)", ib, e.ElemT, strings.Join(args, ", "))
	case "icmp", "fcmp":
		return fmt.Sprintf("%s %s (%s)", e.Op, e.Pred, strings.Join(args, ", "))
	case "extractvalue", "insertvalue":
		var idx []string
		for _, i := range e.Indices {
			idx = append(idx, fmt.Sprint(i))
		}
		return fmt.Sprintf("%s (%s, %s)", e.Op, strings.Join(args, ", "), strings.Join(idx, ", "))
	default:
		fl := ""
		if len(e.Flags) > 0 {
			fl = " " + strings.Join(e.Flags, " ")
		}
		return fmt.Sprintf("%s%s (%s)", e.Op, fl, strings.Join(args, ", "))
	}
}

func (p *Printer) atomicTail(i *Inst) string {
	s := ""
	if i.SyncScope != "" {
		s += " syncscope(" + QuoteStr(i.SyncScope) + ")"
	}
	return s + " " + i.Ordering
}

func (p *Printer) callTail(i *Inst) string {
	// callee type: full function type when variadic or returning a function pointer, else return type (LLVM accepts both)
	ft := i.FnT
	tyS := ft.Ret.String()
	if ft.Variadic || ft.Ret.K == Ptr && ft.Ret.Elem.K == Func || noise.FullCallType {
		tyS = ft.String()
	}
	if noise.FnAlias {
		// the definition spells its own types plainly (an alias that mentions another alias would have to
		// be defined after it, see KF-C01-nonstruct-named-type-order)
		saved := noise
		noise.TypeAlias, noise.VecAlias = nil, false
		full := ft.String()
		noise = saved
		if name, ok := vecAlias["fn:"+full]; ok {
			tyS = "%" + QuoteName(name)
		} else if len(vecAlias) < 12 && !strings.HasPrefix(full, "{") && !strings.HasPrefix(full, "<") { // `type {} (...)`, `type <2 x i8> (...)`: in a type definition LLVM reads the struct or vector type and stops
			name := fmt.Sprintf("$fn%d", len(vecAliasDefs))
			vecAlias["fn:"+full] = name
			vecAliasDefs = append(vecAliasDefs, fmt.Sprintf("%%%s = type %s", QuoteName(name), full))
			tyS = "%" + QuoteName(name)
		}
	}
	var args []string
	for k, a := range i.Args {
		s := ""
		if a.K == VMetadata {
			s = "metadata"
		} else {
			s = a.Type().String()
		}
		if k < len(i.ArgAttrs) && len(i.ArgAttrs[k]) > 0 {
			s += " " + strings.Join(i.ArgAttrs[k], " ")
		}
		if a.K == VMetadata {
			s += " " + p.mdField(a.MD, true)
		} else {
			s += " " + p.val(a)
		}
		args = append(args, s)
	}
	out := join(i.CC, strings.Join(i.RetAttrs, " "), asStr(i.AddrSpaceCall), tyS) + " " + p.val(i.Callee) + "(" + strings.Join(args, ", ") + ")"
	if len(i.FnAttrs) > 0 {
		out += " " + strings.Join(i.FnAttrs, " ")
	}
	if len(i.Bundles) > 0 {
		var bs []string
		for _, b := range i.Bundles {
			var as []string
			for _, a := range b.Args {
				as = append(as, p.tv(a))
			}
			bs = append(bs, QuoteStr(b.Tag)+"("+strings.Join(as, ", ")+")")
		}
		out += " [ " + strings.Join(bs, ", ") + " ]"
	}
	return out
}

func (p *Printer) inst(i *Inst) string {
	lhs := ""
	if i.HasValue() {
		if i.Name != "" {
			lhs = "%" + QuoteName(i.Name) + " = "
		} else if noise.EmptyQuoted && p.nums[i]%2 == 1 {
			lhs = `%"" = ` // the empty name: an unnamed value, numbered by position
		} else if p.Explicit {
			lhs = "%" + idNum(p.nums[i]) + " = "
		}
	}
	return lhs + p.instBody(i) + p.mdAttachments(i.MD, ", ")
}

func (p *Printer) instBody(i *Inst) string {
	fl := ""
	if len(i.Flags) > 0 {
		fl = " " + strings.Join(i.Flags, " ")
	}
	a := i.Args
	switch i.Op {
	case "fneg":
		return fmt.Sprintf("fneg%s %s", fl, p.tv(a[0]))
	case "add", "fadd", "sub", "fsub", "mul", "fmul", "udiv", "sdiv", "fdiv", "urem", "srem", "frem", "shl", "lshr", "ashr", "and", "or", "xor":
		return fmt.Sprintf("%s%s %s, %s", i.Op, fl, p.tv(a[0]), p.val(a[1]))
	case "extractelement":
		return fmt.Sprintf("extractelement %s, %s", p.tv(a[0]), p.tv(a[1]))
	case "insertelement":
		return fmt.Sprintf("insertelement %s, %s, %s", p.tv(a[0]), p.tv(a[1]), p.tv(a[2]))
	case "shufflevector":
		return fmt.Sprintf("shufflevector %s, %s, %s", p.tv(a[0]), p.tv(a[1]), p.constTV(i.Mask))
	case "extractvalue":
		return fmt.Sprintf("extractvalue %s, %s", p.tv(a[0]), idxList(i.Indices))
	case "insertvalue":
		return fmt.Sprintf("insertvalue %s, %s, %s", p.tv(a[0]), p.tv(a[1]), idxList(i.Indices))
	case "alloca":
		s := "alloca " + join(b2s(i.InAlloca, "inalloca"), b2s(i.SwiftError, "swifterror"), i.ElemT.String())
		if len(a) > 0 {
			s += ", " + p.tv(a[0])
		}
		if i.Align != 0 {
			s += fmt.Sprintf(", align %d", i.Align)
		}
		if i.AddrSpace != 0 {
			s += fmt.Sprintf(", addrspace(%d)", i.AddrSpace)
		}
		return s
	case "load":
		s := "load " + join(b2s(i.Atomic, "atomic"), b2s(i.Volatile, "volatile"), i.ElemT.String()) + ", " + p.tv(a[0])
		if i.Atomic {
			s += p.atomicTail(i)
		}
		if i.Align != 0 {
			s += fmt.Sprintf(", align %d", i.Align)
		}
		return s
	case "store":
		s := "store " + join(b2s(i.Atomic, "atomic"), b2s(i.Volatile, "volatile"), p.tv(a[0])) + ", " + p.tv(a[1])
		if i.Atomic {
			s += p.atomicTail(i)
		}
		if i.Align != 0 {
			s += fmt.Sprintf(", align %d", i.Align)
		}
		return s
	case "fence":
		return "fence" + p.atomicTail(i)
	case "cmpxchg":
		s := "cmpxchg " + join(b2s(i.Weak, "weak"), b2s(i.Volatile, "volatile"), p.tv(a[0])) + ", " + p.tv(a[1]) + ", " + p.tv(a[2])
		if i.SyncScope != "" {
			s += " syncscope(" + QuoteStr(i.SyncScope) + ")"
		}
		s += " " + i.Ordering + " " + i.Ordering2
		if i.Align != 0 {
			s += fmt.Sprintf(", align %d", i.Align)
		}
		return s
	case "atomicrmw":
		s := "atomicrmw " + join(b2s(i.Volatile, "volatile"), i.RMWOp, p.tv(a[0])) + ", " + p.tv(a[1])
		s += p.atomicTail(i)
		if i.Align != 0 {
			s += fmt.Sprintf(", align %d", i.Align)
		}
		return s
	case "getelementptr":
		var as []string
		for _, x := range a {
			as = append(as, p.tv(x))
		}
		return "getelementptr " + join(b2s(i.InBounds, "inbounds"), i.ElemT.String()) + ", " + strings.Join(as, ", ")
	case "trunc", "zext", "sext", "fptrunc", "fpext", "fptoui", "fptosi", "uitofp", "sitofp", "ptrtoint", "inttoptr", "bitcast", "addrspacecast":
		return fmt.Sprintf("%s %s to %s", i.Op, p.tv(a[0]), i.To)
	case "icmp", "fcmp":
		return fmt.Sprintf("%s%s %s %s, %s", i.Op, fl, i.Pred, p.tv(a[0]), p.val(a[1]))
	case "phi":
		var ins []string
		for _, in := range i.Incs {
			ins = append(ins, fmt.Sprintf("[ %s, %s ]", p.val(in.V), p.local(in.Pred, in.Pred.Name)))
		}
		return fmt.Sprintf("phi%s %s %s", fl, i.T, strings.Join(ins, ", "))
	case "select":
		return fmt.Sprintf("select%s %s, %s, %s", fl, p.tv(a[0]), p.tv(a[1]), p.tv(a[2]))
	case "freeze":
		return "freeze " + p.tv(a[0])
	case "call":
		return join(i.Tail, "call"+fl) + " " + p.callTail(i)
	case "va_arg":
		return fmt.Sprintf("va_arg %s, %s", p.tv(a[0]), i.To)
	case "landingpad":
		s := "landingpad " + i.T.String()
		if i.Cleanup {
			s += "\n          cleanup"
		}
		for _, c := range i.Clauses {
			kw := "catch"
			if c.Filter {
				kw = "filter"
			}
			s += "\n          " + kw + " " + p.constTV(c.V)
		}
		return s
	case "catchpad", "cleanuppad":
		var as []string
		for _, x := range a {
			as = append(as, p.tv(x))
		}
		return fmt.Sprintf("%s within %s [%s]", i.Op, p.val(i.ParentPad), strings.Join(as, ", "))
	// terminators
	case "ret":
		if len(a) == 0 {
			return "ret void"
		}
		return "ret " + p.tv(a[0])
	case "br":
		if len(a) == 0 {
			return "br label " + p.local(i.Targets[0], i.Targets[0].Name)
		}
		return fmt.Sprintf("br %s, label %s, label %s", p.tv(a[0]), p.local(i.Targets[0], i.Targets[0].Name), p.local(i.Targets[1], i.Targets[1].Name))
	case "switch":
		s := fmt.Sprintf("switch %s, label %s [", p.tv(a[0]), p.local(i.Targets[0], i.Targets[0].Name))
		for k, c := range i.Cases {
			s += fmt.Sprintf("\n    %s, label %s", p.constTV(c), p.local(i.Targets[k+1], i.Targets[k+1].Name))
		}
		return s + "\n  ]"
	case "indirectbr":
		var ts []string
		for _, t := range i.Targets {
			ts = append(ts, "label "+p.local(t, t.Name))
		}
		return fmt.Sprintf("indirectbr %s, [%s]", p.tv(a[0]), strings.Join(ts, ", "))
	case "invoke":
		return "invoke " + p.callTail(i) + fmt.Sprintf("\n          to label %s unwind label %s", p.local(i.Targets[0], i.Targets[0].Name), p.local(i.Targets[1], i.Targets[1].Name))
	case "callbr":
		var ts []string
		for _, t := range i.Targets[1:] {
			ts = append(ts, "label "+p.local(t, t.Name))
		}
		return "callbr " + p.callTail(i) + fmt.Sprintf("\n          to label %s [%s]", p.local(i.Targets[0], i.Targets[0].Name), strings.Join(ts, ", "))
	case "resume":
		return "resume " + p.tv(a[0])
	case "catchswitch":
		var hs []string
		for _, h := range i.Handlers {
			hs = append(hs, "label "+p.local(h, h.Name))
		}
		uw := "to caller"
		if !i.UnwindToCaller {
			uw = "label " + p.local(i.Targets[0], i.Targets[0].Name)
		}
		return fmt.Sprintf("catchswitch within %s [%s] unwind %s", p.val(i.ParentPad), strings.Join(hs, ", "), uw)
	case "catchret":
		return fmt.Sprintf("catchret from %s to label %s", p.val(a[0]), p.local(i.Targets[0], i.Targets[0].Name))
	case "cleanupret":
		uw := "to caller"
		if !i.UnwindToCaller {
			uw = "label " + p.local(i.Targets[0], i.Targets[0].Name)
		}
		return fmt.Sprintf("cleanupret from %s unwind %s", p.val(a[0]), uw)
	case "unreachable":
		return "unreachable"
	}
	return "; unknown op " + i.Op
}

func idxList(ix []uint64) string {
	var s []string
	for _, i := range ix {
		s = append(s, idNum(int(i))) // redundant leading zeros under Noise.LeadingZeros: still decimal (`010` is ten)
	}
	return strings.Join(s, ", ")
}

// ---- metadata

func (p *Printer) mdField(f *MDField, asValue bool) string {
	switch f.K {
	case MDNull:
		return "null"
	case MDString:
		return "!" + QuoteStr(f.Str)
	case MDValue:
		return p.constTV(f.C)
	case MDRef:
		if p.inNode > 0 && p.inNode < 4 && !asValue && !f.Node.Distinct && noise.InlineMD[f.Node.Kind] && f.Node.Kind != "{}" {
			return p.mdNodeBody(f.Node)
		}
		return "!" + idNum(f.Node.ID)
	case MDInline:
		return p.mdNodeBody(f.Node)
	case MDInt:
		if noise.HexInts && f.Int.Sign() >= 0 {
			p.nHex++
			if p.nHex%3 == 0 {
				return fmt.Sprintf("u0x%X", f.Int)
			}
		}
		return f.Int.String()
	case MDBool:
		if f.Bool {
			return "true"
		}
		return "false"
	case MDEnum:
		return f.Str
	case MDLocalValue:
		return p.tv(f.Local)
	}
	return "?"
}

func (p *Printer) mdNodeBody(n *MDNode) string {
	p.inNode++
	defer func() { p.inNode-- }()
	d := ""
	if n.Distinct {
		d = "distinct "
	}
	if n.Kind == "" {
		var fs []string
		for _, f := range n.Fields {
			fs = append(fs, p.mdField(f, false))
		}
		return d + "!{" + strings.Join(fs, ", ") + "}"
	}
	if n.Kind == "{}" {
		var fs []string
		for _, f := range n.Fields {
			fs = append(fs, p.mdField(f, false))
		}
		return "{" + strings.Join(fs, ", ") + "}"
	}
	if n.Kind == "DIExpression" || n.Kind == "DIArgList" {
		var fs []string
		for _, f := range n.Fields {
			fs = append(fs, p.mdField(f, false))
		}
		return d + "!" + n.Kind + "(" + strings.Join(fs, ", ") + ")"
	}
	var fs []string
	for i, f := range n.Fields {
		v := p.mdField(f, false)
		if f.K == MDString {
			v = QuoteStr(f.Str) // specialised node string fields are plain strings
		}
		fs = append(fs, n.Names[i]+": "+v)
	}
	return d + "!" + n.Kind + "(" + strings.Join(fs, ", ") + ")"
}

// SortMDs orders the metadata definitions by ID (the model keeps them in any order).
func (m *Module) SortMDs() {
	sort.SliceStable(m.MDs, func(i, j int) bool { return m.MDs[i].ID < m.MDs[j].ID })
}
