// Package am is the harness' own abstract model of LLVM modules (not llir's):
// the single source of generated modules, rendered as LLVM text by package am
// itself and as llir constructor calls by package emit.
package am

import (
	"fmt"
	"strings"
)

// Kind of a type.
type Kind int

const (
	Void Kind = iota
	Int
	Float
	Ptr
	Vec
	Array
	Struct // literal struct
	Func
	Label
	Token
	Metadata
	MMX
	Named // reference to an identified struct type by name
)

// Type is a structural type description. Identified (named) struct types are
// referred to by name (Kind Named); their bodies live in a Universe.
type Type struct {
	K         Kind
	Bits      uint64  // Int
	FK        string  // Float: half float double x86_fp80 fp128 ppc_fp128
	Len       uint64  // Vec, Array
	Scalable  bool    // Vec
	Elem      *Type   // Ptr, Vec, Array
	AddrSpace uint64  // Ptr
	Fields    []*Type // Struct
	Packed    bool    // Struct
	Ret       *Type   // Func
	Params    []*Type // Func
	Variadic  bool    // Func
	Name      string  // Named
}

// TypeDef is the definition of an identified struct type.
type TypeDef struct {
	Name   string
	Opaque bool
	Packed bool
	Fields []*Type
}

// Universe is a set of identified struct types with unique names.
type Universe struct {
	Defs []*TypeDef
}

// Def returns the definition named name.
func (u *Universe) Def(name string) *TypeDef {
	for _, d := range u.Defs {
		if d.Name == name {
			return d
		}
	}
	return nil
}

// Convenience constructors.
func I(bits uint64) *Type { return &Type{K: Int, Bits: bits} }
func F(kind string) *Type { return &Type{K: Float, FK: kind} }
func P(elem *Type) *Type  { return &Type{K: Ptr, Elem: elem} }
func PA(elem *Type, as uint64) *Type {
	return &Type{K: Ptr, Elem: elem, AddrSpace: as}
}
func V(n uint64, elem *Type) *Type  { return &Type{K: Vec, Len: n, Elem: elem} }
func SV(n uint64, elem *Type) *Type { return &Type{K: Vec, Len: n, Elem: elem, Scalable: true} }
func A(n uint64, elem *Type) *Type  { return &Type{K: Array, Len: n, Elem: elem} }
func S(fields ...*Type) *Type       { return &Type{K: Struct, Fields: fields} }
func N(name string) *Type           { return &Type{K: Named, Name: name} }
func Fn(ret *Type, variadic bool, params ...*Type) *Type {
	return &Type{K: Func, Ret: ret, Params: params, Variadic: variadic}
}

var (
	TVoid  = &Type{K: Void}
	TLabel = &Type{K: Label}
	TToken = &Type{K: Token}
	TMD    = &Type{K: Metadata}
	TMMX   = &Type{K: MMX}
	I1     = I(1)
	I8     = I(8)
	I16    = I(16)
	I32    = I(32)
	I64    = I(64)
)

// Noise selects non-canonical but equivalent spellings (set for the duration of one Printer.Module call).
type Noise struct {
	AlwaysQuote     bool // quote names that do not need quotes
	EscapePrintable bool // spell some printable bytes as \XX inside quoted names and strings
	Explicit        bool // explicit %N = / N: numbering
	Comments        bool // comment lines and trailing comments
	FullCallType    bool // full function type in calls
	SplitAttrGroups bool // define attribute groups in two overlapping parts (LLVM merges repeated definitions)
	// InlineMD: kinds of non-distinct metadata nodes ("" = tuple, "DISubrange", ...) that are written
	// inline where another node refers to them (`elements: !{!DISubrange(count: 4)}`) instead of by number;
	// their numbered definitions stay (LLVM uniques the copies with the definition).
	InlineMD map[string]bool
	// TypeAlias maps the spelling of a scalar type ("i32", "double") to a chain of alias names: the
	// module text then starts with `%a1 = type i32`, `%a2 = type %a1`, ... and every use of the type is
	// spelled with the last name of the chain (LLVM reads such non-struct aliases as the type itself).
	TypeAlias map[string][]string
	// HexInts: every third non-negative integer is spelled `u0x...`: typed integer constants wider than i1
	// (outside vectors) and the integer fields of specialised metadata nodes (LLVM reads an unsigned
	// hexadecimal literal wherever it reads a decimal one)
	HexInts bool
	// LeadingZeros: numbers of unnamed values are written with redundant leading zeros (%01, 002:, @00)
	LeadingZeros bool
	// OctalLookalikes (with LeadingZeros): only numbers without the digits 8 and 9 are padded
	OctalLookalikes bool
	// EmptyQuoted: every second unnamed global variable, function, alias and instruction result is defined
	// with the empty quoted name (`@"" = global ...`, `define void @""()`, `%"" = add ...`), which LLVM reads as
	// unnamed; uses are spelled by number as always.
	EmptyQuoted bool
	// VecAlias: vector types are spelled through named aliases (`%$v0 = type <4 x i32>`), up to six per
	// module, created on first use while the text is rendered and defined at the top of the text.
	VecAlias bool
	// FnAlias: the callee type of call, invoke and callbr is spelled through a named function type
	// (`%$fn0 = type void (i32)` ... `call %$fn0 @f(i32 1)`), up to six per module.
	FnAlias bool
	// OverwideInts: every fourth scalar integer constant is spelled v + k*2^N (a literal too wide for
	// its type iN, which LLVM reads modulo 2^N).
	OverwideInts bool
	Indent       string
}

var noise Noise

// vector aliases created while rendering (see Noise.VecAlias)
var (
	vecAlias     = map[string]string{}
	vecAliasDefs []string
	vecAliases   int
	arrAliases   int
	ptrAliases   int
)

// newAlias names the vector or array type spelled body. The names are numbered in the order of creation,
// which is the order of dependency (the element type is spelled first), and they sort in that order: the
// library prints type definitions in natural order of their names, and LLVM wants a named non-struct type
// defined before it is used (KF-C01-nonstruct-named-type-order).
func newAlias(body string) string {
	name := fmt.Sprintf("$v%d", len(vecAliasDefs))
	vecAlias[body] = name
	vecAliasDefs = append(vecAliasDefs, fmt.Sprintf("%%%s = type %s", QuoteName(name), body))
	return name
}

// QuoteName spells a name for use after a sigil: bare when LLVM allows, else quoted with \XX escapes.
func QuoteName(name string) string {
	bare := name != "" && !noise.AlwaysQuote
	for i := 0; i < len(name); i++ {
		c := name[i]
		head := c >= 'a' && c <= 'z' || c >= 'A' && c <= 'Z' || c == '-' || c == '$' || c == '.' || c == '_'
		if !(head || i > 0 && c >= '0' && c <= '9') {
			bare = false
		}
	}
	if bare {
		return name
	}
	var b strings.Builder
	b.WriteByte('"')
	for i := 0; i < len(name); i++ {
		c := name[i]
		if c >= ' ' && c <= '~' && c != '"' && c != '\\' && !(noise.EscapePrintable && (c == 'a' || c == '1' || c == '.')) {
			b.WriteByte(c)
		} else {
			fmt.Fprintf(&b, "\\%02X", c)
		}
	}
	b.WriteByte('"')
	return b.String()
}

// String is the LLVM spelling of the type.
func (t *Type) String() string {
	switch t.K {
	case Void:
		return "void"
	case Int:
		b := fmt.Sprintf("i%d", t.Bits)
		if a := noise.TypeAlias[b]; len(a) > 0 {
			return "%" + QuoteName(a[len(a)-1])
		}
		return b
	case Float:
		if a := noise.TypeAlias[t.FK]; len(a) > 0 {
			return "%" + QuoteName(a[len(a)-1])
		}
		return t.FK
	case Ptr:
		ps := t.Elem.String() + "*"
		if t.AddrSpace != 0 {
			ps = fmt.Sprintf("%s addrspace(%d)*", t.Elem, t.AddrSpace)
		}
		if noise.VecAlias {
			// named pointer types, up to three per module (`%$v4 = type i32 addrspace(1)*`)
			if name, ok := vecAlias[ps]; ok {
				return "%" + QuoteName(name)
			}
			if ptrAliases < 3 && (len(vecAliasDefs)+len(ps))%3 == 0 && ps[0] != '{' && ps[0] != '<' { // `type {...}*`, `type <...>*`: LLVM reads the struct or vector and stops
				ptrAliases++
				return "%" + QuoteName(newAlias(ps))
			}
		}
		return ps
	case Vec:
		var v string
		if t.Scalable {
			v = fmt.Sprintf("<vscale x %d x %s>", t.Len, t.Elem)
		} else {
			v = fmt.Sprintf("<%d x %s>", t.Len, t.Elem)
		}
		if noise.VecAlias {
			if name, ok := vecAlias[v]; ok {
				return "%" + QuoteName(name)
			}
			if vecAliases < 6 || t.Scalable && vecAliases < 10 { // scalable vectors are rarer: four more names are kept for them
				vecAliases++
				return "%" + QuoteName(newAlias(v))
			}
		}
		return v
	case Array:
		a := fmt.Sprintf("[%d x %s]", t.Len, t.Elem)
		if noise.VecAlias {
			// named array types, up to four per module (`%$v3 = type [4 x i32]`), under the same switch as the named vector types
			if name, ok := vecAlias[a]; ok {
				return "%" + QuoteName(name)
			}
			if arrAliases < 4 {
				arrAliases++
				return "%" + QuoteName(newAlias(a))
			}
		}
		return a
	case Struct:
		return structBody(t.Packed, t.Fields)
	case Func:
		var ps []string
		for _, p := range t.Params {
			ps = append(ps, p.String())
		}
		if t.Variadic {
			ps = append(ps, "...")
		}
		return fmt.Sprintf("%s (%s)", t.Ret, strings.Join(ps, ", "))
	case Label:
		return "label"
	case Token:
		return "token"
	case Metadata:
		return "metadata"
	case MMX:
		return "x86_mmx"
	case Named:
		return "%" + QuoteName(t.Name)
	}
	return "<?>"
}

func structBody(packed bool, fields []*Type) string {
	var fs []string
	for _, f := range fields {
		fs = append(fs, f.String())
	}
	body := "{}"
	if len(fs) > 0 {
		body = "{ " + strings.Join(fs, ", ") + " }"
	}
	if packed {
		return "<" + body + ">"
	}
	return body
}

// DefString is the LLVM spelling of a type definition.
func (d *TypeDef) DefString() string {
	if d.Opaque {
		return fmt.Sprintf("%%%s = type opaque", QuoteName(d.Name))
	}
	return fmt.Sprintf("%%%s = type %s", QuoteName(d.Name), structBody(d.Packed, d.Fields))
}

// Equal is the reference type identity: identified structs by name, everything else by structure.
func Equal(t, u *Type) bool {
	if t.K != u.K {
		return false
	}
	switch t.K {
	case Int:
		return t.Bits == u.Bits
	case Float:
		return t.FK == u.FK
	case Ptr:
		return t.AddrSpace == u.AddrSpace && Equal(t.Elem, u.Elem)
	case Vec:
		return t.Len == u.Len && t.Scalable == u.Scalable && Equal(t.Elem, u.Elem)
	case Array:
		return t.Len == u.Len && Equal(t.Elem, u.Elem)
	case Struct:
		if t.Packed != u.Packed || len(t.Fields) != len(u.Fields) {
			return false
		}
		for i := range t.Fields {
			if !Equal(t.Fields[i], u.Fields[i]) {
				return false
			}
		}
		return true
	case Func:
		if t.Variadic != u.Variadic || len(t.Params) != len(u.Params) || !Equal(t.Ret, u.Ret) {
			return false
		}
		for i := range t.Params {
			if !Equal(t.Params[i], u.Params[i]) {
				return false
			}
		}
		return true
	case Named:
		return t.Name == u.Name
	}
	return true
}

// Predicates used by generators.
func (t *Type) IsInt() bool   { return t.K == Int }
func (t *Type) IsFloat() bool { return t.K == Float }
func (t *Type) IsPtr() bool   { return t.K == Ptr }
func (t *Type) IsVec() bool   { return t.K == Vec }
func (t *Type) IsIntOrIntVec() bool {
	return t.K == Int || t.K == Vec && t.Elem.K == Int
}
func (t *Type) IsFPOrFPVec() bool {
	return t.K == Float || t.K == Vec && t.Elem.K == Float
}
func (t *Type) IsPtrOrPtrVec() bool {
	return t.K == Ptr || t.K == Vec && t.Elem.K == Ptr
}

// Scalar returns the element type of a vector, or t itself.
func (t *Type) Scalar() *Type {
	if t.K == Vec {
		return t.Elem
	}
	return t
}

// WithScalar returns t with its scalar (element) type replaced by e, keeping vector shape.
func (t *Type) WithScalar(e *Type) *Type {
	if t.K == Vec {
		return &Type{K: Vec, Len: t.Len, Scalable: t.Scalable, Elem: e}
	}
	return e
}
