package ref

import "strings"

// HexEscapeAll spells every byte of s as \XX (always valid inside an LLVM quoted
// string or name, and inside a metadata name).
func HexEscapeAll(s string) string {
	const hex = "0123456789ABCDEF"
	var b strings.Builder
	for i := 0; i < len(s); i++ {
		b.WriteByte('\\')
		b.WriteByte(hex[s[i]>>4])
		b.WriteByte(hex[s[i]&15])
	}
	return b.String()
}

// UnescapeLLVM is LLVM's UnEscapeLexed: \\ is a backslash, \XX with two hex
// digits is that byte, every other backslash stands for itself.
func UnescapeLLVM(s string) string {
	var b strings.Builder
	for i := 0; i < len(s); i++ {
		if s[i] == '\\' {
			if i+1 < len(s) && s[i+1] == '\\' {
				b.WriteByte('\\')
				i++
				continue
			}
			if i+2 < len(s) && isHex(s[i+1]) && isHex(s[i+2]) {
				b.WriteByte(unhex(s[i+1])<<4 | unhex(s[i+2]))
				i += 2
				continue
			}
		}
		b.WriteByte(s[i])
	}
	return b.String()
}

func isHex(c byte) bool {
	return c >= '0' && c <= '9' || c >= 'a' && c <= 'f' || c >= 'A' && c <= 'F'
}

func unhex(c byte) byte {
	switch {
	case c >= '0' && c <= '9':
		return c - '0'
	case c >= 'a' && c <= 'f':
		return c - 'a' + 10
	}
	return c - 'A' + 10
}

func isIdentHead(c byte) bool {
	return c >= 'a' && c <= 'z' || c >= 'A' && c <= 'Z' || c == '-' || c == '$' || c == '.' || c == '_'
}

func isIdentTail(c byte) bool { return isIdentHead(c) || c >= '0' && c <= '9' }

// LexKind is the reading of an identifier token.
type LexKind int

const (
	LexInvalid LexKind = iota
	LexName
	LexID
)

// LexSigil reads a token that starts with a sigil (@ % $) the way LLVM's lexer
// does: sigil + quoted string → name; sigil + [-a-zA-Z$._][-a-zA-Z$._0-9]* → name;
// sigil + [0-9]+ → numeric ID; anything else (or trailing garbage) is not one token.
func LexSigil(tok string, sigil byte) (LexKind, string) {
	if len(tok) < 2 || tok[0] != sigil {
		return LexInvalid, ""
	}
	return lexBody(tok[1:], sigil != '$')
}

func lexBody(r string, allowID bool) (LexKind, string) {
	if r == "" {
		return LexInvalid, ""
	}
	if r[0] == '"' {
		end := strings.IndexByte(r[1:], '"')
		if end < 0 || end+2 != len(r) {
			return LexInvalid, ""
		}
		name := UnescapeLLVM(r[1 : 1+end])
		if name == "" || strings.IndexByte(name, 0) >= 0 {
			return LexInvalid, "" // LLVM: "NUL character is not allowed in names"
		}
		return LexName, name
	}
	if isIdentHead(r[0]) {
		for i := 1; i < len(r); i++ {
			if !isIdentTail(r[i]) {
				return LexInvalid, ""
			}
		}
		return LexName, r
	}
	if allowID && r[0] >= '0' && r[0] <= '9' {
		for i := 1; i < len(r); i++ {
			if r[i] < '0' || r[i] > '9' {
				return LexInvalid, ""
			}
		}
		if t := strings.TrimLeft(r, "0"); len(t) > 10 || len(t) == 10 && t > "4294967295" { // LLVM: value number must fit 32 bits
			return LexInvalid, ""
		}
		return LexID, r
	}
	return LexInvalid, ""
}

// LexLabel reads a label definition token "<label>:". LLVM: quoted string + ':' or
// [-a-zA-Z$._0-9]+ ':' (all-digit labels are numeric IDs).
func LexLabel(tok string) (LexKind, string) {
	if len(tok) < 2 || tok[len(tok)-1] != ':' {
		return LexInvalid, ""
	}
	r := tok[:len(tok)-1]
	if r[0] == '"' {
		return lexBody(r, false)
	}
	allDigits := true
	for i := 0; i < len(r); i++ {
		if !isIdentTail(r[i]) {
			return LexInvalid, ""
		}
		if r[i] < '0' || r[i] > '9' {
			allDigits = false
		}
	}
	if allDigits {
		return LexID, r
	}
	return LexName, r
}

// LexMetadataName reads "!name": ![-a-zA-Z$._\\][-a-zA-Z$._0-9\\]* with escapes.
func LexMetadataName(tok string) (LexKind, string) {
	if len(tok) < 2 || tok[0] != '!' {
		return LexInvalid, ""
	}
	r := tok[1:]
	if r[0] >= '0' && r[0] <= '9' {
		for i := 0; i < len(r); i++ {
			if r[i] < '0' || r[i] > '9' {
				return LexInvalid, ""
			}
		}
		return LexID, r
	}
	for i := 0; i < len(r); i++ {
		c := r[i]
		ok := isIdentTail(c) || c == '\\'
		if i == 0 {
			ok = isIdentHead(c) || c == '\\'
		}
		if !ok {
			return LexInvalid, ""
		}
	}
	return LexName, UnescapeLLVM(r)
}

// LexQuoted reads a quoted string token.
func LexQuoted(tok string) (bool, string) {
	if len(tok) < 2 || tok[0] != '"' || tok[len(tok)-1] != '"' {
		return false, ""
	}
	in := tok[1 : len(tok)-1]
	if strings.IndexByte(in, '"') >= 0 {
		return false, ""
	}
	return true, UnescapeLLVM(in)
}
