package ref

import (
	"fmt"
	"math"
	"math/bits"
	"strconv"
	"strings"
)

// FKind describes one LLVM floating-point kind.
type FKind struct {
	Name string
	P    int // precision in bits including the implicit bit (IEEE kinds)
	EMin int
	EMax int
	Bits int
}

var (
	Half     = FKind{"half", 11, -14, 15, 16}
	Float    = FKind{"float", 24, -126, 127, 32}
	Double   = FKind{"double", 53, -1022, 1023, 64}
	X86FP80  = FKind{"x86_fp80", 64, -16382, 16383, 80}
	FP128    = FKind{"fp128", 113, -16382, 16383, 128}
	PPCFP128 = FKind{"ppc_fp128", 0, 0, 0, 128}
	FKinds   = []FKind{Half, Float, Double, X86FP80, FP128, PPCFP128}
)

// Pat is a bit pattern of up to 128 bits: for half/float/double Lo holds the bits;
// for x86_fp80 Hi = sign+exponent (16 bits), Lo = significand; for fp128 and
// ppc_fp128 Hi/Lo are the first and second group of 16 hex digits as LLVM writes them.
type Pat struct{ Hi, Lo uint64 }

func (p Pat) String() string { return fmt.Sprintf("%016X:%016X", p.Hi, p.Lo) }

// SmallToDouble converts the bits of a half or float (kind k) to the double bit
// pattern LLVM uses for its 16-digit hexadecimal form (exact; NaN payloads are
// shifted into the top fraction bits).
func SmallToDouble(k FKind, b uint64) uint64 {
	fb := uint(k.P - 1) // fraction bits
	eb := uint(k.Bits) - 1 - fb
	sign := b >> uint(k.Bits-1) & 1
	exp := b >> fb & (1<<eb - 1)
	frac := b & (1<<fb - 1)
	out := sign << 63
	switch {
	case exp == 1<<eb-1: // inf / nan
		return out | 0x7FF<<52 | frac<<(52-fb)
	case exp == 0 && frac == 0:
		return out
	case exp == 0: // subnormal: normalise
		l := uint(bits.Len64(frac)) // position of leading one
		e := k.EMin - int(fb-l+1)
		f := frac << (fb - l + 1) & (1<<fb - 1) // drop leading one
		return out | uint64(e+1023)<<52 | f<<(52-fb)
	default:
		e := int(exp) - (1<<(eb-1) - 1)
		return out | uint64(e+1023)<<52 | frac<<(52-fb)
	}
}

// DoubleToSmall converts a double bit pattern to kind k (half or float) if that
// is possible without loss, as LLVM requires of a literal for that type.
func DoubleToSmall(k FKind, d uint64) (uint64, bool) {
	fb := uint(k.P - 1)
	eb := uint(k.Bits) - 1 - fb
	sign := d >> 63
	exp := int(d >> 52 & 0x7FF)
	frac := d & (1<<52 - 1)
	out := sign << uint(k.Bits-1)
	switch {
	case exp == 0x7FF:
		if frac&(1<<(52-fb)-1) != 0 {
			return 0, false
		}
		f := frac >> (52 - fb)
		if frac != 0 && f == 0 {
			return 0, false
		}
		return out | (1<<eb-1)<<fb | f, true
	case exp == 0 && frac == 0:
		return out, true
	case exp == 0:
		return 0, false // double subnormals are far below any half/float value
	}
	e := exp - 1023
	mant := frac | 1<<52 // 53-bit significand
	if e > k.EMax {
		return 0, false
	}
	shift := 52 - fb
	if e < k.EMin {
		shift += uint(k.EMin - e)
		if shift > 63 {
			return 0, false
		}
	}
	if mant&(1<<shift-1) != 0 {
		return 0, false
	}
	m := mant >> shift
	if e >= k.EMin {
		return out | uint64(e+(1<<(eb-1)-1))<<fb | m&(1<<fb-1), true
	}
	if m == 0 {
		return 0, false
	}
	return out | m, true
}

// ReadLiteral is the reference reading of an LLVM floating-point literal for
// kind k: the bit pattern it denotes, or ok=false with a reason if LLVM's rules
// make it invalid for the type.
func ReadLiteral(k FKind, s string) (Pat, bool, string) {
	hex := func(prefix string, digits int) (Pat, bool, string) {
		h := strings.TrimPrefix(s, prefix)
		if len(h) == 0 || len(h) > digits {
			return Pat{}, false, "wrong number of hex digits"
		}
		h = strings.Repeat("0", digits-len(h)) + h
		if digits <= 16 {
			v, err := strconv.ParseUint(h, 16, 64)
			if err != nil {
				return Pat{}, false, err.Error()
			}
			return Pat{Lo: v}, true, ""
		}
		a, err1 := strconv.ParseUint(h[:digits-16], 16, 64)
		b, err2 := strconv.ParseUint(h[digits-16:], 16, 64)
		if err1 != nil || err2 != nil {
			return Pat{}, false, "bad hex"
		}
		return Pat{Hi: a, Lo: b}, true, ""
	}
	// pair splits the digits the way LLVM's lexer does (LLLexer::HexToIntPair and
	// FP80HexToIntPair): short forms are not simply zero-extended on the left.
	pair := func(prefix string, first, second int, shortGoesSecond bool) (Pat, bool, string) {
		h := strings.TrimPrefix(s, prefix)
		if len(h) == 0 || len(h) > first+second {
			return Pat{}, false, "wrong number of hex digits"
		}
		var a, b string
		switch {
		case shortGoesSecond && len(h) < first:
			a, b = "0", h
		case len(h) <= first:
			a, b = h, "0"
		default:
			a, b = h[:first], h[first:]
		}
		x, err1 := strconv.ParseUint(a, 16, 64)
		y, err2 := strconv.ParseUint(b, 16, 64)
		if err1 != nil || err2 != nil {
			return Pat{}, false, "bad hex"
		}
		return Pat{Hi: x, Lo: y}, true, ""
	}
	switch {
	case strings.HasPrefix(s, "0xH"):
		if k.Name != "half" {
			return Pat{}, false, "0xH on non-half"
		}
		return hex("0xH", 4)
	case strings.HasPrefix(s, "0xK"):
		if k.Name != "x86_fp80" {
			return Pat{}, false, "0xK on non-fp80"
		}
		return pair("0xK", 4, 16, false)
	case strings.HasPrefix(s, "0xL"):
		if k.Name != "fp128" {
			return Pat{}, false, "0xL on non-fp128"
		}
		return pair("0xL", 16, 16, true)
	case strings.HasPrefix(s, "0xM"):
		if k.Name != "ppc_fp128" {
			return Pat{}, false, "0xM on non-ppc_fp128"
		}
		return pair("0xM", 16, 16, true)
	case strings.HasPrefix(s, "0x"):
		p, ok, why := hex("0x", 16)
		if !ok {
			return p, ok, why
		}
		switch k.Name {
		case "double":
			return p, true, ""
		case "half", "float":
			b, exact := DoubleToSmall(k, p.Lo)
			if !exact {
				return Pat{}, false, "double-hex literal not exactly representable in " + k.Name
			}
			return Pat{Lo: b}, true, ""
		}
		return Pat{}, false, "16-digit hex on " + k.Name
	}
	// decimal: LLVM reads it as a double (correctly rounded), then requires exactness for half/float.
	switch k.Name {
	case "half", "float", "double":
	default:
		return Pat{}, false, "decimal literal on " + k.Name + " (llir does not accept it)"
	}
	t := s
	if strings.HasPrefix(t, "+") {
		t = t[1:]
	}
	f, err := strconv.ParseFloat(t, 64)
	if err != nil {
		if ne, ok := err.(*strconv.NumError); !ok || ne.Err != strconv.ErrRange {
			return Pat{}, false, err.Error()
		}
	}
	d := math.Float64bits(f)
	if k.Name == "double" {
		return Pat{Lo: d}, true, ""
	}
	b, exact := DoubleToSmall(k, d)
	if !exact {
		return Pat{}, false, "decimal literal not exact for " + k.Name + " under LLVM's reading (double first, then lossless conversion)"
	}
	return Pat{Lo: b}, true, ""
}

// IsNaN reports whether pattern p of kind k is a NaN and whether it is the
// canonical quiet NaN (only the quiet bit set, either sign).
func IsNaN(k FKind, p Pat) (nan, canonical bool) {
	switch k.Name {
	case "half", "float", "double":
		fb := uint(k.P - 1)
		eb := uint(k.Bits) - 1 - fb
		exp := p.Lo >> fb & (1<<eb - 1)
		frac := p.Lo & (1<<fb - 1)
		if exp == 1<<eb-1 && frac != 0 {
			return true, frac == 1<<(fb-1)
		}
	case "x86_fp80":
		exp := p.Hi & 0x7FFF
		if exp == 0x7FFF && p.Lo != 0x8000000000000000 {
			return true, p.Lo == 0xC000000000000000
		}
	case "fp128":
		// LLVM writes fp128 as 0xL<low 64><high 64>.
		hi := p.Lo
		exp := hi >> 48 & 0x7FFF
		frac := hi & (1<<48 - 1)
		if exp == 0x7FFF && (frac != 0 || p.Hi != 0) {
			return true, frac == 1<<47 && p.Hi == 0
		}
	case "ppc_fp128":
		d := p.Hi
		exp := d >> 52 & 0x7FF
		frac := d & (1<<52 - 1)
		if exp == 0x7FF && frac != 0 {
			return true, frac == 1<<51 && p.Lo == 0
		}
	}
	return false, false
}
