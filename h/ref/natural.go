// Package ref holds small, independent reference implementations used as oracles.
package ref

import (
	"math/big"
	"strconv"
)

type natTok struct {
	digits bool
	b      byte   // non-digit byte
	run    string // digit run (with leading zeros)
}

func natTokens(s string) []natTok {
	var toks []natTok
	for i := 0; i < len(s); {
		if s[i] >= '0' && s[i] <= '9' {
			j := i
			for j < len(s) && s[j] >= '0' && s[j] <= '9' {
				j++
			}
			toks = append(toks, natTok{digits: true, run: s[i:j]})
			i = j
		} else {
			toks = append(toks, natTok{b: s[i]})
			i++
		}
	}
	return toks
}

// natCmpTok compares two tokens: -1, 0, +1.
func natCmpTok(a, b natTok) int {
	switch {
	case a.digits && b.digits:
		if len(a.run) <= 18 && len(b.run) <= 18 {
			x, _ := strconv.ParseUint(a.run, 10, 64)
			y, _ := strconv.ParseUint(b.run, 10, 64)
			if x < y {
				return -1
			} else if x > y {
				return 1
			}
		} else {
			x, _ := new(big.Int).SetString(a.run, 10)
			y, _ := new(big.Int).SetString(b.run, 10)
			if c := x.Cmp(y); c != 0 {
				return c
			}
		}
		// Same value: fewer leading zeros first (equal values => zeros differ iff lengths differ).
		switch {
		case len(a.run) < len(b.run):
			return -1
		case len(a.run) > len(b.run):
			return 1
		}
		return 0
	default:
		x, y := a.b, b.b
		if a.digits {
			x = a.run[0]
		}
		if b.digits {
			y = b.run[0]
		}
		switch {
		case x < y:
			return -1
		case x > y:
			return 1
		}
		return 0
	}
}

// NaturalLess is the reference natural order: strings are split into maximal
// ASCII digit runs and single other bytes; digit runs compare by numeric value
// (then fewer leading zeros first), everything else bytewise; a proper prefix
// (in tokens) sorts first.
func NaturalLess(s, t string) bool {
	a, b := natTokens(s), natTokens(t)
	for i := 0; i < len(a) && i < len(b); i++ {
		if c := natCmpTok(a[i], b[i]); c != 0 {
			return c < 0
		}
	}
	return len(a) < len(b)
}
