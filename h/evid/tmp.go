package evid

import (
	_ "github.com/llir/llvm/asm"
	_ "pgregory.net/rapid"
)
