package evid
import (_ "pgregory.net/rapid"; _ "github.com/llir/llvm/asm")
