// Package corpus provides external sources of LLVM modules: the repository's own
// test inputs and llvm-stress / opt output.
package corpus

import (
	"os"
	"path/filepath"
	"sort"

	"verif/h/llvmx"
)

// Repo returns the path of the llir/llvm working tree under test.
func Repo() string {
	if r := os.Getenv("VERIF_REPO"); r != "" {
		return r
	}
	return "/repo"
}

// File is a named module text.
type File struct {
	Name string
	Text string
}

// RepoTestdata returns the .ll files under asm/testdata and ir/testdata of the repository.
func RepoTestdata() []File {
	var out []File
	for _, dir := range []string{"asm/testdata", "ir/testdata"} {
		ms, _ := filepath.Glob(filepath.Join(Repo(), dir, "*.ll"))
		sort.Strings(ms)
		for _, p := range ms {
			b, err := os.ReadFile(p)
			if err == nil {
				out = append(out, File{Name: filepath.Join(dir, filepath.Base(p)), Text: string(b)})
			}
		}
	}
	return out
}

// Stress returns an llvm-stress program ("" if the tool failed).
func Stress(seed uint64, size int) string {
	r := llvmx.Stress(seed, size)
	if !r.OK {
		return ""
	}
	return r.Out
}

// OptPipelines are the opt pipelines used to derive variants.
var OptPipelines = [][]string{
	{"-O1"}, {"-O2"}, {"-passes=mem2reg,instcombine,simplifycfg"}, {"-passes=sroa,early-cse,loop-rotate,licm"},
}

// Opt returns opt's output for text under pipeline i ("" if opt failed).
func Opt(text string, i int) string {
	r := llvmx.Opt(text, OptPipelines[i%len(OptPipelines)]...)
	if !r.OK {
		return ""
	}
	return r.Out
}

// Catalogue returns the hand-written minimal modules under corpus/catalogue of the verification tree: one
// per construct that generators and compilers produce rarely or never. A first line `; expect: accepted`
// states that every construct in the file is representable in the library's IR, so that a rejection by
// the parser is a violation and not an unjudged case.
func Catalogue() []File {
	root := os.Getenv("VERIF_ROOT")
	if root == "" {
		root = "/verif"
	}
	ms, _ := filepath.Glob(filepath.Join(root, "corpus", "catalogue", "*.ll"))
	sort.Strings(ms)
	var out []File
	for _, p := range ms {
		if b, err := os.ReadFile(p); err == nil {
			out = append(out, File{Name: "corpus/catalogue/" + filepath.Base(p), Text: string(b)})
		}
	}
	return out
}

// Fixed returns the fixed inputs: the repository's testdata followed by the catalogue.
func Fixed() []File { return append(RepoTestdata(), Catalogue()...) }
