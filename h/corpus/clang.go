package corpus

import (
	"bytes"
	"context"
	"crypto/sha1"
	"fmt"
	"os"
	"os/exec"
	"path/filepath"
	"sort"
	"strings"
	"time"
)

// ClangVariants are the flag sets every source of corpus/src is compiled with (clang-14 -S -emit-llvm):
// optimisation levels, debug info, kept value names, fast-math, PIC/visibility/stack protector,
// sanitizer and coverage instrumentation, and other targets (32-bit, AArch64, ARM, RISC-V, PowerPC
// with ppc_fp128 long double, WebAssembly, Windows/MSVC with funclet exception handling).
var ClangVariants = [][]string{
	{"-O0"},
	{"-O1", "-g"},
	{"-O2"},
	{"-O2", "-g", "-fno-discard-value-names"},
	{"-O0", "-g", "-fno-discard-value-names"},
	{"-O3", "-ffast-math", "-march=haswell"},
	{"-Os", "-fPIC", "-fvisibility=hidden", "-fstack-protector-strong"},
	{"-O1", "-fsanitize=address"},
	{"-O1", "-fsanitize=undefined", "-fsanitize=thread"},
	{"-O1", "-fprofile-instr-generate", "-fcoverage-mapping"},
	{"-O1", "--target=i386-pc-linux-gnu"},
	{"-O1", "-g", "--target=aarch64-linux-gnu"},
	{"-O2", "--target=armv7-linux-gnueabihf"},
	{"-O1", "--target=riscv64-linux-gnu"},
	{"-O1", "--target=powerpc64le-linux-gnu"},
	{"-O1", "--target=wasm32-unknown-unknown"},
	{"-O1", "-g", "--target=x86_64-pc-windows-msvc"},
	{"-O2", "--target=i686-pc-windows-msvc"},
}

// ClangCase is one (source, flags) pair.
type ClangCase struct {
	Src   string // file name under corpus/src
	Flags []string
}

func (c ClangCase) Name() string { return c.Src + " " + strings.Join(c.Flags, " ") }

func verifRoot() string {
	if r := os.Getenv("VERIF_ROOT"); r != "" {
		return r
	}
	return "/verif"
}

// ClangCases lists every source x variant, in a fixed order.
func ClangCases() []ClangCase {
	ms, _ := filepath.Glob(filepath.Join(verifRoot(), "corpus", "src", "*.c*"))
	sort.Strings(ms)
	var out []ClangCase
	for _, p := range ms {
		for _, v := range ClangVariants {
			out = append(out, ClangCase{Src: filepath.Base(p), Flags: v})
		}
	}
	return out
}

// Text compiles the case with clang-14 (cached under .work/clang-cache, keyed by source text and flags)
// and returns the LLVM assembly; "" if clang rejects the combination (e.g. x86 inline assembly on
// another target) or is not installed.
func (c ClangCase) Text() string {
	src := filepath.Join(verifRoot(), "corpus", "src", c.Src)
	b, err := os.ReadFile(src)
	if err != nil {
		return ""
	}
	key := fmt.Sprintf("%x", sha1.Sum(append(append([]byte{}, b...), []byte(strings.Join(c.Flags, "\x00"))...)))
	dir := filepath.Join(verifRoot(), ".work", "clang-cache")
	cf := filepath.Join(dir, key+".ll")
	if t, err := os.ReadFile(cf); err == nil {
		return string(t)
	}
	tool, std := "clang-14", []string{"-std=gnu11"}
	if strings.HasSuffix(c.Src, ".cpp") {
		tool, std = "clang++-14", []string{"-std=c++17"}
	}
	args := append([]string{"-S", "-emit-llvm", "-w", "-o", "-", "-x"}, map[bool]string{true: "c++", false: "c"}[tool == "clang++-14"])
	args = append(args, std...)
	args = append(args, c.Flags...)
	args = append(args, src)
	ctx, cancel := context.WithTimeout(context.Background(), 60*time.Second)
	defer cancel()
	cmd := exec.CommandContext(ctx, tool, args...)
	var out, errb bytes.Buffer
	cmd.Stdout, cmd.Stderr = &out, &errb
	text := ""
	if cmd.Run() == nil {
		text = out.String()
	}
	os.MkdirAll(dir, 0o755)
	tmp := fmt.Sprintf("%s.%d.tmp", cf, os.Getpid())
	if os.WriteFile(tmp, []byte(text), 0o644) == nil {
		os.Rename(tmp, cf)
	}
	return text
}
