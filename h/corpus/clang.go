package corpus

import (
	"bytes"
	"context"
	"crypto/sha1"
	"fmt"
	"os"
	"os/exec"
	"path/filepath"
	"sort"
	"strings"
	"time"
)

// ClangVariants are the flag sets every source of corpus/src is compiled with (clang-14 -S -emit-llvm):
// optimisation levels, debug info, kept value names, fast-math, PIC/visibility/stack protector,
// sanitizer and coverage instrumentation, and other targets (32-bit, AArch64, ARM, RISC-V, PowerPC
// with ppc_fp128 long double, WebAssembly, Windows/MSVC with funclet exception handling).
var ClangVariants = [][]string{
	{"-O0"},
	{"-O1", "-g"},
	{"-O2"},
	{"-O2", "-g", "-fno-discard-value-names"},
	{"-O0", "-g", "-fno-discard-value-names"},
	{"-O3", "-ffast-math", "-march=haswell"},
	{"-Os", "-fPIC", "-fvisibility=hidden", "-fstack-protector-strong"},
	{"-O1", "-fsanitize=address"},
	{"-O1", "-fsanitize=undefined", "-fsanitize=thread"},
	{"-O1", "-fprofile-instr-generate", "-fcoverage-mapping"},
	{"-O1", "--target=i386-pc-linux-gnu"},
	{"-O1", "-g", "--target=aarch64-linux-gnu"},
	{"-O2", "--target=armv7-linux-gnueabihf"},
	{"-O1", "--target=riscv64-linux-gnu"},
	{"-O1", "--target=powerpc64le-linux-gnu"},
	{"-O1", "--target=wasm32-unknown-unknown"},
	{"-O1", "-g", "--target=x86_64-pc-windows-msvc"},
	{"-O2", "--target=i686-pc-windows-msvc"},
}

// SpecialVariants replace ClangVariants for sources that need their own language or target flags.
var SpecialVariants = map[string][][]string{
	"kernels.cl": {
		{"-x", "cl", "-cl-std=CL2.0", "--target=spir64", "-O1"},
		{"-x", "cl", "-cl-std=CL2.0", "--target=spir", "-O0", "-g"},
		{"-x", "cl", "-cl-std=CL2.0", "--target=amdgcn-amd-amdhsa", "-nogpulib", "-O1"},
		{"-x", "cl", "-cl-std=CL2.0", "--target=amdgcn-amd-amdhsa", "-nogpulib", "-O0", "-g"},
		{"-x", "cl", "-cl-std=CL2.0", "--target=nvptx64-nvidia-cuda", "-O2"},
	},
	"objc.m": {
		{"-x", "objective-c", "-fobjc-runtime=macosx", "-fblocks", "-fobjc-exceptions", "--target=x86_64-apple-macosx10.15", "-O1", "-g"},
		{"-x", "objective-c", "-fobjc-runtime=macosx", "-fblocks", "-fobjc-exceptions", "-fobjc-arc", "--target=arm64-apple-ios13", "-O2"},
		{"-x", "objective-c", "-fobjc-runtime=gnustep-2.0", "-fblocks", "-fobjc-exceptions", "-fobjc-arc", "-O1"},
		{"-x", "objective-c", "-fobjc-runtime=gnustep-1.9", "-fblocks", "-fobjc-exceptions", "-O0", "-g"},
	},
	"coro.cpp": {
		{"-x", "c++", "-std=c++20", "-O0"},
		{"-x", "c++", "-std=c++20", "-O2"},
		{"-x", "c++", "-std=c++20", "-O1", "-g"},
	},
	"omp.c": {
		{"-x", "c", "-fopenmp", "-O0"},
		{"-x", "c", "-fopenmp", "-O2"},
		{"-x", "c", "-fopenmp", "-O1", "-g"},
		{"-x", "c", "-fopenmp", "-O1", "--target=aarch64-linux-gnu"},
	},
	"exotic.c": {
		{"-x", "c", "-O0", "-fenable-matrix"},
		{"-x", "c", "-O1", "-fenable-matrix", "-g"},
		{"-x", "c", "-O2", "-fenable-matrix", "-march=haswell"},
		{"-x", "c", "-O1", "-fenable-matrix", "--target=aarch64-linux-gnu"},
	},
	"clones.c": {
		{"-x", "c", "-O0"},
		{"-x", "c", "-O2"},
		{"-x", "c", "-O1", "-g", "-fPIC"},
	},
	"seh.c": {
		{"-x", "c", "-O0", "--target=x86_64-pc-windows-msvc", "-fms-extensions"},
		{"-x", "c", "-O1", "--target=x86_64-pc-windows-msvc", "-fms-extensions", "-g"},
		{"-x", "c", "-O2", "--target=i686-pc-windows-msvc", "-fms-extensions"},
		{"-x", "c", "-O1", "--target=aarch64-pc-windows-msvc", "-fms-extensions"},
	},
	"sve.c": {
		{"-x", "c", "-O0", "--target=aarch64-linux-gnu", "-march=armv8-a+sve", "-ffreestanding"},
		{"-x", "c", "-O2", "--target=aarch64-linux-gnu", "-march=armv8-a+sve", "-ffreestanding"},
		{"-x", "c", "-O2", "-g", "--target=aarch64-linux-gnu", "-march=armv8-a+sve2", "-ffreestanding", "-msve-vector-bits=256"},
	},
	"cuda.cu": {
		{"-x", "cuda", "--cuda-device-only", "-nocudalib", "-nocudainc", "--cuda-gpu-arch=sm_70", "-O1"},
		{"-x", "cuda", "--cuda-device-only", "-nocudalib", "-nocudainc", "--cuda-gpu-arch=sm_35", "-O0", "-g"},
		{"-x", "cuda", "--cuda-host-only", "-nocudalib", "-nocudainc", "-O1"},
	},
	"simd.c": {
		{"-x", "c", "-O0", "-march=skylake-avx512"},
		{"-x", "c", "-O2", "-march=skylake-avx512"},
		{"-x", "c", "-O2", "-g", "-march=skylake-avx512", "-ffast-math"},
	},
}

// ClangCase is one (source, flags) pair.
type ClangCase struct {
	Src   string // file name under corpus/src
	Flags []string
}

func (c ClangCase) Name() string { return c.Src + " " + strings.Join(c.Flags, " ") }

func verifRoot() string {
	if r := os.Getenv("VERIF_ROOT"); r != "" {
		return r
	}
	return "/verif"
}

// ClangCases lists every source x variant, in a fixed order.
func ClangCases() []ClangCase {
	ents, _ := os.ReadDir(filepath.Join(verifRoot(), "corpus", "src"))
	var ms []string
	for _, e := range ents {
		ms = append(ms, e.Name())
	}
	sort.Strings(ms)
	var out []ClangCase
	for _, p := range ms {
		vs := ClangVariants
		if sv, ok := SpecialVariants[p]; ok {
			vs = sv
		}
		for _, v := range vs {
			out = append(out, ClangCase{Src: p, Flags: v})
		}
	}
	return out
}

// Text compiles the case with clang-14 (cached under .work/clang-cache, keyed by source text and flags)
// and returns the LLVM assembly; "" if clang rejects the combination (e.g. x86 inline assembly on
// another target) or is not installed.
func (c ClangCase) Text() string {
	src := filepath.Join(verifRoot(), "corpus", "src", c.Src)
	b, err := os.ReadFile(src)
	if err != nil {
		return ""
	}
	key := fmt.Sprintf("%x", sha1.Sum(append(append([]byte{}, b...), []byte(strings.Join(c.Flags, "\x00"))...)))
	dir := filepath.Join(verifRoot(), ".work", "clang-cache")
	cf := filepath.Join(dir, key+".ll")
	if t, err := os.ReadFile(cf); err == nil {
		return string(t)
	}
	tool := "clang-14"
	if strings.HasSuffix(c.Src, ".cpp") {
		tool = "clang++-14"
	}
	args := []string{"-S", "-emit-llvm", "-w", "-o", "-"}
	if _, special := SpecialVariants[c.Src]; !special {
		if tool == "clang++-14" {
			args = append(args, "-x", "c++", "-std=c++17")
		} else {
			args = append(args, "-x", "c", "-std=gnu11")
		}
	}
	args = append(args, c.Flags...)
	args = append(args, src)
	ctx, cancel := context.WithTimeout(context.Background(), 60*time.Second)
	defer cancel()
	cmd := exec.CommandContext(ctx, tool, args...)
	var out, errb bytes.Buffer
	cmd.Stdout, cmd.Stderr = &out, &errb
	text := ""
	if cmd.Run() == nil {
		text = out.String()
	}
	os.MkdirAll(dir, 0o755)
	tmp := fmt.Sprintf("%s.%d.tmp", cf, os.Getpid())
	if os.WriteFile(tmp, []byte(text), 0o644) == nil {
		os.Rename(tmp, cf)
	}
	return text
}
