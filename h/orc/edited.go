package orc

import (
	"fmt"
	"regexp"
	"strconv"
	"strings"

	"verif/h/apiedit"
	"verif/h/llvmx"
	"verif/h/lx"
)

var reRenameSeed = regexp.MustCompile(`(?m)^; RENAME-SEED (\d+)$`)

// EditedCase prefixes the input with the line that makes an edited case replayable.
func EditedCase(seed uint64, x string) string { return fmt.Sprintf("; RENAME-SEED %d\n%s", seed, x) }

// RenameSeedOf reads the seed back (ok=false: not an edited case).
func RenameSeedOf(c string) (uint64, bool) {
	m := reRenameSeed.FindStringSubmatch(c)
	if m == nil {
		return 0, false
	}
	n, _ := strconv.ParseUint(m[1], 10, 64)
	return n, true
}

// PrintAfterRenames parses x, prints it once (so that every cache a print fills is filled and every ID
// is assigned), renames locals through the API (apiedit.RenameLocals with the given seed) and prints
// again. It returns the first print y0 and the second print y. Discard outcomes: the parser rejects x or a print panics before
// the edit.
func PrintAfterRenames(x string, seed uint64) (y0, y string, stats map[string]int, o Outcome) {
	m, err, p := lx.Parse(x)
	if err != nil || p != nil {
		return "", "", nil, Outcome{V: Discard, Class: "parser_rejects_input"}
	}
	y0, pp := lx.Print(m)
	if pp != nil {
		return "", "", nil, Outcome{V: Discard, Class: "print_panic(judged_by_C01)"}
	}
	if pe := lx.Guard(func() { stats = apiedit.RenameLocals(seed, m) }); pe != nil {
		return y0, "", nil, Outcome{V: Violation, Class: "rename_panics", Msg: "renaming locals of a parsed module through SetName panics: " + pe.String()}
	}
	// the result-type caches of half of the instructions are emptied as well (the type is computed again on demand)
	if stats != nil {
		stats["result-type caches emptied"] = apiedit.ClearResultTypes(seed, m)
		// and identified struct types are renamed (one object for all uses)
		if seed%3 != 0 {
			stats["struct types renamed"] = apiedit.RenameTypes(seed, m)
		}
	}
	y, pp = lx.Print(m)
	if pp != nil {
		return y0, "", stats, Outcome{V: Violation, Class: "print_panic_after_rename", Msg: "printing after locals were renamed through the API panics: " + pp.String()}
	}
	return y0, y, stats, Outcome{V: OK, Out: y}
}

// StripNames is LLVM's reading of text with all local names (and debug info) removed: opt -passes=strip.
func StripNames(text string) llvmx.Result {
	r := llvmx.Opt(text, "-passes=strip")
	if r.OK {
		r.Out = llvmx.Normalize(r.Out)
	}
	return r
}

// SameUpToLocalNames compares LLVM's reading of x and y with local names stripped.
func SameUpToLocalNames(x, y string) Outcome {
	rx := StripNames(x)
	if rx.Crashed {
		return Outcome{V: Discard, Class: "oracle_unavailable_input"}
	}
	if !rx.OK {
		return Outcome{V: Discard, Class: "llvm_rejected_input", Msg: firstLines(rx.Err, 3)}
	}
	ry := StripNames(y)
	if ry.Crashed {
		return Outcome{V: Discard, Class: "oracle_unavailable_output"}
	}
	if !ry.OK {
		return Outcome{V: Violation, Class: "llvm_rejects_output_after_rename", Msg: "LLVM accepts the input but rejects the module printed after locals were renamed through the API: " + firstLines(ry.Err, 4), Out: y}
	}
	if rx.Out != ry.Out {
		return Outcome{V: Violation, Class: "meaning_changed_by_rename", Msg: "renaming locals through the API changed what LLVM reads (names stripped; - input, + printed after renames):\n" + llvmx.Diff(rx.Out, ry.Out), Out: y}
	}
	return Outcome{V: OK, Out: y}
}

func init() { _ = strings.TrimSpace }
