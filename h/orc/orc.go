// Package orc holds the module-level oracles shared by several checks.
package orc

import (
	"fmt"
	"strings"

	"github.com/llir/llvm/ir"

	"verif/h/llvmx"
	"verif/h/lx"
)

// Verdict classifies the outcome of an oracle on one input.
type Verdict int

const (
	OK        Verdict = iota
	Discard           // not judged (reason in Msg): input outside the domain or oracle unavailable
	Violation         // property violated (Msg says how)
)

// Outcome of an oracle.
type Outcome struct {
	V     Verdict
	Class string // short stable class of the discard / violation
	Msg   string
	Out   string // llir's printed output, if any
	M     *ir.Module
}

func firstLines(s string, n int) string {
	ls := strings.Split(s, "\n")
	if len(ls) > n {
		ls = ls[:n]
	}
	return strings.Join(ls, "\n")
}

// Opts for ParsePrintPreserves.
type Opts struct {
	// OwnGenerator: the input only uses constructs the IR can represent, so a parse error is a violation.
	OwnGenerator bool
	// CanonIn may carry a precomputed llvm-as|llvm-dis result for the input.
	CanonIn *llvmx.Result
}

// ParsePrintPreserves is the C01 oracle: x must be LLVM-valid (gate); parsing and
// printing must not panic; the output must be accepted by LLVM and denote the
// same module under LLVM's canonical reading.
func ParsePrintPreserves(x string, o Opts) Outcome {
	var rx llvmx.Result
	if o.CanonIn != nil {
		rx = *o.CanonIn
	} else {
		rx = llvmx.Canon(x)
	}
	if rx.Crashed {
		return Outcome{V: Discard, Class: "oracle_unavailable_input"}
	}
	if !rx.OK {
		return Outcome{V: Discard, Class: "llvm_rejected_input", Msg: firstLines(rx.Err, 3)}
	}
	m, err, p := lx.Parse(x)
	if p != nil {
		return Outcome{V: Violation, Class: "parse_panic", Msg: "parsing a module that LLVM accepts panics: " + p.String()}
	}
	if err != nil {
		if o.OwnGenerator {
			return Outcome{V: Violation, Class: "parse_error", Msg: "the parser rejects a module that LLVM accepts and that only uses representable constructs: " + firstLines(err.Error(), 4)}
		}
		return Outcome{V: Discard, Class: "llir_rejected_external_input", Msg: firstLines(err.Error(), 2)}
	}
	out, pp := lx.Print(m)
	if pp != nil {
		return Outcome{V: Violation, Class: "print_panic", Msg: "printing the parsed module panics: " + pp.String(), M: m}
	}
	ry := llvmx.Canon(out)
	if ry.Crashed {
		return Outcome{V: Discard, Class: "oracle_unavailable_output", Out: out, M: m}
	}
	if !ry.OK {
		return Outcome{V: Violation, Class: "output_rejected_by_llvm", Msg: "LLVM accepts the input but rejects the printed output: " + firstLines(ry.Err, 4), Out: out, M: m}
	}
	a, b := llvmx.Normalize(rx.Out), llvmx.Normalize(ry.Out)
	if a != b {
		return Outcome{V: Violation, Class: "meaning_changed", Msg: "LLVM reads a different module from the printed output than from the input (- input, + output):\n" + llvmx.Diff(a, b), Out: out, M: m}
	}
	return Outcome{V: OK, Out: out, M: m}
}

// Fixpoint is the C02 oracle on an input the parser accepts: y = print(parse(x)) is accepted,
// print(parse(y)) == y byte for byte. It returns the two modules for structural comparison.
func Fixpoint(x string) (o Outcome, m1, m2 *ir.Module) {
	m1, err, p := lx.Parse(x)
	if p != nil {
		return Outcome{V: Discard, Class: "parse_panic", Msg: p.String()}, nil, nil
	}
	if err != nil {
		return Outcome{V: Discard, Class: "parser_rejects_input", Msg: firstLines(err.Error(), 2)}, nil, nil
	}
	y, pp := lx.Print(m1)
	if pp != nil {
		return Outcome{V: Violation, Class: "print_panic", Msg: "printing a module the parser produced panics: " + pp.String()}, m1, nil
	}
	m2, err2, p2 := lx.Parse(y)
	if p2 != nil {
		return Outcome{V: Violation, Class: "reparse_panic", Msg: "parsing the printer's own output panics: " + p2.String(), Out: y}, m1, nil
	}
	if err2 != nil {
		return Outcome{V: Violation, Class: "reparse_error", Msg: "the parser rejects the printer's own output: " + firstLines(err2.Error(), 4), Out: y}, m1, nil
	}
	z, p3 := lx.Print(m2)
	if p3 != nil {
		return Outcome{V: Violation, Class: "reprint_panic", Msg: "printing the re-parsed module panics: " + p3.String(), Out: y}, m1, m2
	}
	if z != y {
		return Outcome{V: Violation, Class: "not_a_fixpoint", Msg: "print(parse(y)) differs from y = print(parse(x)) (- y, + second print):\n" + llvmx.Diff(y, z), Out: y}, m1, m2
	}
	return Outcome{V: OK, Out: y}, m1, m2
}

// Describe formats an outcome for a failure message.
func (o Outcome) Describe() string {
	s := fmt.Sprintf("[%s] %s", o.Class, o.Msg)
	if o.Out != "" && len(o.Out) < 3000 {
		s += "\n--- printed output ---\n" + o.Out
	}
	return s
}
