// Package chaos makes operations of the library *fail* — harmlessly — before a case is judged.
//
// The library is used in long-lived processes where parses are rejected, prints of half-built IR panic and are
// recovered, writers fail, constructors reject ill-typed operands — and the process carries on. Every property
// is stated for the operation at hand, whatever failed before it ("whatever else was parsed or printed earlier
// in the process", C12, says it outright). Every event below is an operation that the unchanged library
// rejects with an error or a panic that the caller recovers; none of them may leave anything behind. A
// drawn selection of them runs before every rapid case of every check (hx.Prelude), so that each property is
// also judged *after a failure*; a replay runs all of them first (hx.ReplayPrelude).
package chaos

import (
	"errors"
	"fmt"
	"io"
	"strings"

	"github.com/llir/llvm/asm"
	"github.com/llir/llvm/ir"
	"github.com/llir/llvm/ir/constant"
	"github.com/llir/llvm/ir/enum"
	"github.com/llir/llvm/ir/types"
	"pgregory.net/rapid"

	"verif/h/hx"
)

// guard runs f and swallows a panic: the events are failures by design.
func guard(f func()) {
	defer func() { _ = recover() }()
	f()
}

// RejectedTexts fail at different depths of the translation: in the lexer, while types, global headers,
// function bodies, getelementptr results, aggregate paths, metadata or use-list orders are translated, with a
// plain error or with an internal panic that ParseString converts. Each of them defines things (%0, @g, !0, !1,
// type %t, block %entry) that a later, valid input is likely to define as well.
var RejectedTexts = []string{
	"@g = global i32 ",
	"@g = global bfloat 0xR0000\n",
	"@a = global i32 1\ndefine void @f() {\n  %v = load i32, i32* @a\n  br label %nowhere\n}\n",
	"%t = type { %u }\n@g = global %t zeroinitializer\n",
	"define i32 @f(i32 %p) {\n  %1 = add i32 %x, 1\n  ret i32 %1\n}\n",
	"define i32 @f(i32, i32) {\n  %3 = add i32 %0, %1\n  %4 = mul i32 %3, %9\n  ret i32 %4\n}\n",
	"!named = !{!0}\n!0 = !DISubrange(count: s0x5)\n",
	"define void @f() {\nentry:\n  ret void\nentry:\n  ret void\n}\n",
	"$c = comdat any\n@a = global i32 0, comdat($nocomdat)\n",
	"@t = global i8* blockaddress(@f, %nb)\ndefine void @f() {\n  ret void\n}\n",
	"define void @f() {\n  ret void\n}\nuselistorder_bb @f, %nb, { 1, 0 }\n",
	"!0 = !{!1}\n!named = !{!0, !7}\n",
	"!0 = !{}\n!1 = !{!0}\n!3 = !DIExpression()\ndefine void @f() !dbg !1 {\n  %1 = add i32 %nope, 1, !foo !3\n  ret void\n}\n",
	"%s = type { i32 }\n%s = type { i64 }\n",
	"attributes #0 = { nounwind }\ndefine void @f() #0 {\n  %1 = alloca i32\n  %1 = alloca i32\n  ret void\n}\n",
	"define void @f({ i32, [4 x i8] }* %p) {\n  %1 = getelementptr { i32, [4 x i8] }, { i32, [4 x i8] }* %p, i32 0, i32 2\n  ret void\n}\n",
	"define void @f([4 x [4 x i8]]* %p, i64 %i) {\n  %1 = getelementptr [4 x [4 x i8]], [4 x [4 x i8]]* %p, i64 0, i64 %i, i64 1, i64 2, i64 3\n  ret void\n}\n",
	"@s = global { i32, i8 } zeroinitializer\n@e = global i8* getelementptr ({ i32, i8 }, { i32, i8 }* @s, i32 0, i32 5)\n",
	"define void @f() {\n  %1 = extractvalue { i32, { i8, double } } zeroinitializer, 1, 2\n  ret void\n}\n",
	"define void @f() {\n  %1 = insertvalue { i32 } undef, i32 1, 3\n  ret void\n}\n",
	"@g = global x86_fp80 1.5\n@h = global fp128 0.1\n@i = global ppc_fp128 -0.0\n@j = global x86_fp80 1.0e10\n",
	"@g = global i32 12x\n",
	"define void @f() {\n  %1 = alloca i32\n  store i64 1, i32* %1\n  call void @nofn()\n  ret void\n}\n",
	"define <2 x i32> @f(<2 x i32> %v) {\n  %1 = shufflevector <2 x i32> %v, <2 x i32> %v, <2 x i32> <i32 0, i32 %u>\n  ret <2 x i32> %1\n}\n",
}

// failAfter delivers the first n bytes of s and then a read error that is not io.EOF.
type failAfter struct {
	s string
	n int
}

var errRead = errors.New("chaos: read error")

func (r *failAfter) Read(p []byte) (int, error) {
	if r.n <= 0 {
		return 0, errRead
	}
	k := copy(p, r.s[:min(r.n, len(r.s))])
	r.s, r.n = r.s[k:], r.n-k
	if k == 0 {
		return 0, errRead
	}
	return k, nil
}

type failingWriter struct{ left int }

var errWrite = errors.New("chaos: write error")

func (w *failingWriter) Write(p []byte) (int, error) {
	if w.left >= len(p) {
		w.left -= len(p)
		return len(p), nil
	}
	n := w.left
	w.left = 0
	return n, errWrite
}

// smallModule is a complete module with unnamed values, metadata and several sections.
func smallModule() *ir.Module {
	m := ir.NewModule()
	g := m.NewGlobalDef("", constant.NewInt(types.I32, 7))
	f := m.NewFunc("chaos.f", types.I32, ir.NewParam("", types.I32))
	b := f.NewBlock("")
	v := b.NewLoad(types.I32, g)
	s := b.NewAdd(v, f.Params[0])
	b.NewRet(s)
	h := m.NewFunc("", types.Void)
	h.NewBlock("entry").NewRet(nil)
	return m
}

const readable = "@stale = global i32 7\n@other = global [4 x i8] zeroinitializer\ndefine i32 @stale.f(i32) {\n  %2 = add i32 %0, 1\n  ret i32 %2\n}\n"

// Events are the failures; each is self-contained and leaves no object behind.
var Events = []struct {
	Name string
	Run  func(k int)
}{
	{"rejected-parse", func(k int) {
		guard(func() { asm.ParseString("chaos.ll", RejectedTexts[k%len(RejectedTexts)]) })
	}},
	{"rejected-parse-bytes", func(k int) {
		guard(func() { asm.ParseBytes("chaos.ll", []byte(RejectedTexts[k%len(RejectedTexts)])) })
	}},
	{"reader-fails", func(k int) {
		// cut between two top-level entities, inside one, or before the first byte
		cuts := []int{22, 37, 0, len(readable) - 9, 70}
		guard(func() { asm.Parse("chaos.ll", &failAfter{s: readable, n: cuts[k%len(cuts)]}) })
	}},
	{"print-of-unfinished-block", func(k int) {
		m := smallModule()
		f := m.Funcs[0]
		b := f.NewBlock("chaos.unfinished")
		b.NewAdd(f.Params[0], constant.NewInt(types.I32, int64(k)))
		switch k % 4 {
		case 0:
			guard(func() { _ = m.String() })
		case 1:
			guard(func() { _ = f.LLString() })
		case 2:
			guard(func() { _ = b.LLString() })
		default:
			_ = fmt.Sprintf("%v", m) // fmt recovers the panic of String by itself
		}
	}},
	{"print-of-nil-operand", func(k int) {
		m := smallModule()
		b := m.Funcs[0].Blocks[0]
		b.Insts = append(b.Insts, &ir.InstAdd{X: constant.NewInt(types.I32, 1)}) // Y is missing
		guard(func() { _ = m.String() })
		guard(func() { _ = b.LLString() })
	}},
	{"print-of-incomplete-type", func(k int) {
		ts := []types.Type{
			&types.StructType{Fields: []types.Type{types.I32, nil}},
			&types.FuncType{RetType: types.Void, Params: []types.Type{types.I8Ptr, nil}},
			&types.PointerType{ElemType: &types.StructType{Fields: []types.Type{types.I64, nil, types.I1}}},
			&types.ArrayType{Len: 3, ElemType: &types.FuncType{RetType: nil}},
		}
		t := ts[k%len(ts)]
		if k%2 == 0 {
			guard(func() { _ = t.String() })
		} else {
			_ = fmt.Sprintf("%v %s", t, t)
		}
	}},
	{"writer-fails", func(k int) {
		m := smallModule()
		guard(func() { m.WriteTo(&failingWriter{left: (k * 7) % 160}) })
	}},
	{"writer-fails-big", func(k int) {
		m := smallModule()
		m.NewGlobalDef("chaos.big", constant.NewCharArrayFromString(strings.Repeat("x", 40000+k%3000)))
		guard(func() { m.WriteTo(&failingWriter{left: 33000 + (k*97)%9000}) })
		guard(func() { m.WriteTo(&failingWriter{left: k % 50}) })
	}},
	{"writer-closed", func(k int) {
		guard(func() { smallModule().WriteTo(&failingWriter{}) })
		guard(func() { io.WriteString(&failingWriter{}, "") })
	}},
	{"literal-rejected", func(k int) {
		dec := []string{"1.5", "0.1", "-0.0", "1.0", "2.0", "0.0", "1.0e10", "4.9406564584124654e-324", "3.0", "100.0", "0.5", "-1.0"}
		kinds := []*types.FloatType{types.X86_FP80, types.FP128, types.PPC_FP128}
		guard(func() { constant.NewFloatFromString(kinds[k%3], dec[k%len(dec)]) })
		guard(func() { constant.NewFloatFromString(types.Double, "0xZZ") })
		guard(func() { constant.NewIntFromString(types.I32, "12x") })
		guard(func() { constant.NewIntFromString(types.NewInt(uint64(8+k%120)), "s0x") })
	}},
	{"constructor-rejects", func(k int) {
		m := smallModule()
		g := m.Globals[0]
		p := m.Funcs[0].Params[0]
		switch k % 6 {
		case 0:
			guard(func() { ir.NewStore(constant.NewInt(types.I64, 1), g) })
		case 1:
			guard(func() { ir.NewTrunc(p, types.I64) })
		case 2:
			guard(func() {
				ir.NewExtractValue(constant.NewStruct(types.NewStruct(types.I32), constant.NewInt(types.I32, 1)), 7)
			})
		case 3:
			guard(func() { ir.NewLoad(types.I64, p) })
		case 4:
			guard(func() { ir.NewICmp(enum.IPredEQ, p, constant.NewInt(types.I64, 1)).Type() })
		default:
			guard(func() {
				ir.NewGetElementPtr(types.NewStruct(types.I32), g, constant.NewInt(types.I32, 0), constant.NewInt(types.I32, 9)).Type()
			})
		}
	}},
	{"assign-ids-error", func(k int) {
		m := smallModule()
		f := m.Funcs[0]
		_ = f.LLString()
		f.Blocks[0].Insts = f.Blocks[0].Insts[1:] // stored IDs are out of date now
		guard(func() { _ = f.AssignIDs() })
	}},
}

// Run runs the named event.
func Run(name string, k int) {
	for _, e := range Events {
		if e.Name == name {
			e.Run(k)
		}
	}
}

// Failures is the prelude of a rapid case: in two cases out of three, one to three drawn failures.
func Failures(rt *rapid.T) {
	n := rapid.IntRange(0, 5).Draw(rt, "chaos.n")
	if n > 3 {
		hx.Hist("chaos/cases_without_a_failure_before")
		return
	}
	for ; n > 0; n-- {
		e := Events[rapid.IntRange(0, len(Events)-1).Draw(rt, "chaos.event")]
		e.Run(rapid.IntRange(0, 9999).Draw(rt, "chaos.k"))
		hx.Hist("chaos/failure_before_case/" + e.Name)
	}
}

// All runs every failure once (a replay of a stored case starts from a process in which all of them happened).
func All() {
	for i, e := range Events {
		for k := 0; k < 5; k++ {
			e.Run(i + 7*k)
		}
	}
}
