package chaos

import "testing"

// every event must be survivable on the unchanged library (a panic escaping here is a harness bug)
func TestAllEventsAreContained(t *testing.T) {
	for r := 0; r < 3; r++ {
		All()
	}
}
