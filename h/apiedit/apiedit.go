// Package apiedit edits parsed or constructed modules through the library's public API in ways whose
// effect on the meaning of the module is known: local values and blocks are renamed (named -> other
// name, named -> unnamed, unnamed -> named). Renaming a local changes no behaviour, so the printed
// module must denote the same program up to local names (and its unnamed values must be numbered the
// way LLVM expects, whatever was numbered before).
package apiedit

import (
	"fmt"

	"github.com/llir/llvm/ir"
)

type named interface {
	Name() string
	SetName(string)
}

// RenameLocals renames a subset of the parameters, blocks and value-producing instructions of every
// function definition, chosen by a generator seeded with seed (the seed is drawn by the property-testing
// library and recorded in the case, so that a case replays from its text). It returns the number of
// renames by kind (for histograms). Values keep their position: the numbers of instructions, blocks and
// parameters of every function stay the same.
func RenameLocals(seed uint64, m *ir.Module) map[string]int {
	stats := map[string]int{}
	fresh := 0
	state := seed
	next := func(n int) int {
		state += 0x9E3779B97F4A7C15
		z := state
		z = (z ^ (z >> 30)) * 0xBF58476D1CE4E5B9
		z = (z ^ (z >> 27)) * 0x94D049BB133111EB
		z ^= z >> 31
		return int(z % uint64(n))
	}
	one := func(v named, void bool) {
		if void {
			return
		}
		k := next(6)
		if _, isBlock := v.(*ir.Block); isBlock && (k == 2 || k == 5) {
			// a block whose address is taken from a later function or a global cannot be written with a
			// number in LLVM's text format ("cannot take address of numeric label after the function is
			// defined"): blocks are renamed, never unnamed
			k = 3
		}
		switch k {
		case 0, 1: // leave alone
			return
		case 2:
			if v.Name() != "" {
				v.SetName("")
				stats["named->unnamed"]++
				return
			}
			fallthrough
		case 3:
			fresh++
			if v.Name() == "" {
				stats["unnamed->named"]++
			} else {
				stats["named->named"]++
			}
			v.SetName(fmt.Sprintf("re.%d", fresh))
		case 4:
			fresh++
			if v.Name() == "" {
				stats["unnamed->named"]++
			} else {
				stats["named->named"]++
			}
			v.SetName(fmt.Sprintf("odd name %d\"", fresh))
		default:
			if v.Name() != "" {
				v.SetName("")
				stats["named->unnamed"]++
			}
		}
	}
	for _, f := range m.Funcs {
		if len(f.Blocks) == 0 {
			continue
		}
		for _, p := range f.Params {
			one(p, false)
		}
		for _, b := range f.Blocks {
			one(b, false)
			for _, in := range b.Insts {
				if nv, ok := in.(named); ok {
					one(nv, isVoid(in))
				}
			}
			if nv, ok := b.Term.(named); ok {
				one(nv, isVoid(b.Term))
			}
		}
	}
	return stats
}

func isVoid(x any) bool {
	switch v := x.(type) {
	case *ir.InstCall:
		return v.Type().String() == "void"
	case *ir.TermInvoke:
		return v.Type().String() == "void"
	case *ir.TermCallBr:
		return v.Type().String() == "void"
	}
	return false
}
