// Package apiedit edits parsed or constructed modules through the library's public API in ways whose
// effect on the meaning of the module is known: local values and blocks are renamed (named -> other
// name, named -> unnamed, unnamed -> named). Renaming a local changes no behaviour, so the printed
// module must denote the same program up to local names (and its unnamed values must be numbered the
// way LLVM expects, whatever was numbered before).
package apiedit

import (
	"fmt"
	"reflect"
	"sort"

	"github.com/llir/llvm/ir"
	"github.com/llir/llvm/ir/types"

	"verif/h/ref"
)

type named interface {
	Name() string
	SetName(string)
}

// RenameLocals renames a subset of the parameters, blocks and value-producing instructions of every
// function definition, chosen by a generator seeded with seed (the seed is drawn by the property-testing
// library and recorded in the case, so that a case replays from its text). It returns the number of
// renames by kind (for histograms). Values keep their position: the numbers of instructions, blocks and
// parameters of every function stay the same.
func RenameLocals(seed uint64, m *ir.Module) map[string]int {
	stats := map[string]int{}
	fresh := 0
	state := seed
	next := func(n int) int {
		state += 0x9E3779B97F4A7C15
		z := state
		z = (z ^ (z >> 30)) * 0xBF58476D1CE4E5B9
		z = (z ^ (z >> 27)) * 0x94D049BB133111EB
		z ^= z >> 31
		return int(z % uint64(n))
	}
	one := func(v named, void bool) {
		if void {
			return
		}
		k := next(6)
		if _, isBlock := v.(*ir.Block); isBlock && (k == 2 || k == 5) {
			// a block whose address is taken from a later function or a global cannot be written with a
			// number in LLVM's text format ("cannot take address of numeric label after the function is
			// defined"): blocks are renamed, never unnamed
			k = 3
		}
		switch k {
		case 0, 1: // leave alone
			return
		case 2:
			if v.Name() != "" {
				v.SetName("")
				stats["named->unnamed"]++
				return
			}
			fallthrough
		case 3:
			fresh++
			if v.Name() == "" {
				stats["unnamed->named"]++
			} else {
				stats["named->named"]++
			}
			v.SetName(fmt.Sprintf("re.%d", fresh))
		case 4:
			fresh++
			if v.Name() == "" {
				stats["unnamed->named"]++
			} else {
				stats["named->named"]++
			}
			v.SetName(fmt.Sprintf("odd name %d\"", fresh))
		default:
			if v.Name() != "" {
				v.SetName("")
				stats["named->unnamed"]++
			}
		}
	}
	for _, f := range m.Funcs {
		if len(f.Blocks) == 0 {
			continue
		}
		for _, p := range f.Params {
			one(p, false)
		}
		for _, b := range f.Blocks {
			one(b, false)
			for _, in := range b.Insts {
				if nv, ok := in.(named); ok {
					one(nv, isVoid(in))
				}
			}
			if nv, ok := b.Term.(named); ok {
				one(nv, isVoid(b.Term))
			}
		}
	}
	return stats
}

func isVoid(x any) bool {
	switch v := x.(type) {
	case *ir.InstCall:
		return v.Type().String() == "void"
	case *ir.TermInvoke:
		return v.Type().String() == "void"
	case *ir.TermCallBr:
		return v.Type().String() == "void"
	}
	return false
}

// lazyTyp lists the instruction and terminator kinds whose Type method computes the result type when the
// exported cache field Typ is nil ("cache type if not present").
var lazyTyp = map[string]bool{
	"InstAShr": true, "InstAdd": true, "InstAlloca": true, "InstAnd": true, "InstAtomicRMW": true, "InstCall": true,
	"InstCmpXchg": true, "InstExtractElement": true, "InstExtractValue": true, "InstFAdd": true, "InstFCmp": true,
	"InstFDiv": true, "InstFMul": true, "InstFNeg": true, "InstFRem": true, "InstFSub": true, "InstFreeze": true,
	"InstGetElementPtr": true, "InstICmp": true, "InstInsertElement": true, "InstInsertValue": true, "InstLShr": true,
	"InstMul": true, "InstOr": true, "InstPhi": true, "InstSDiv": true, "InstSRem": true, "InstSelect": true,
	"InstShl": true, "InstShuffleVector": true, "InstSub": true, "InstUDiv": true, "InstURem": true, "InstXor": true,
	"TermCallBr": true, "TermInvoke": true,
}

// ClearResultTypes empties the result-type cache (the exported field Typ) of a seeded subset of the
// instructions and terminators of every function definition, which is what a program does that has changed an
// operand or a callee and wants the type to follow, and the state of an instruction that was built from its
// exported fields instead of a constructor. The library computes the type again when it is asked for; the
// module means what it meant. It returns the number of caches emptied.
func ClearResultTypes(seed uint64, m *ir.Module) int {
	state := seed ^ 0xA5A5A5A5A5A5A5A5
	next := func(n int) int {
		state += 0x9E3779B97F4A7C15
		z := state
		z = (z ^ (z >> 30)) * 0xBF58476D1CE4E5B9
		z = (z ^ (z >> 27)) * 0x94D049BB133111EB
		z ^= z >> 31
		return int(z % uint64(n))
	}
	n := 0
	clear := func(x any) {
		v := reflect.ValueOf(x)
		if v.Kind() != reflect.Ptr || v.IsNil() || v.Elem().Kind() != reflect.Struct || !lazyTyp[v.Elem().Type().Name()] {
			return
		}
		f := v.Elem().FieldByName("Typ")
		if !f.IsValid() || !f.CanSet() || f.IsZero() || next(2) == 0 {
			return
		}
		f.Set(reflect.Zero(f.Type()))
		n++
	}
	for _, f := range m.Funcs {
		for _, b := range f.Blocks {
			for _, in := range b.Insts {
				clear(in)
			}
			clear(b.Term)
		}
	}
	return n
}

// RenameTypes renames a seeded subset of the identified struct types of m through SetName (every use is the
// same object, so every use follows). The module means what it meant up to the names of types.
func RenameTypes(seed uint64, m *ir.Module) int {
	state := seed ^ 0x5A5A5A5A5A5A5A5A
	next := func(n int) int {
		state += 0x9E3779B97F4A7C15
		z := state
		z = (z ^ (z >> 30)) * 0xBF58476D1CE4E5B9
		z = (z ^ (z >> 27)) * 0x94D049BB133111EB
		z ^= z >> 31
		return int(z % uint64(n))
	}
	taken := map[string]bool{}
	for _, t := range m.TypeDefs {
		taken[t.Name()] = true
	}
	n := 0
	for _, t := range m.TypeDefs {
		st, ok := t.(*types.StructType)
		if !ok || st.Name() == "" || next(2) == 0 {
			continue
		}
		nn := st.Name() + []string{".renamed", "_2", ".10"}[next(3)]
		if len(nn) > 0 && nn[0] == '"' || taken[nn] {
			continue
		}
		taken[nn] = true
		st.SetName(nn)
		n++
	}
	// the list of type definitions is printed in the order of the list, which the parser fills in the natural
	// order of the names: a program that renames types keeps that order, as the parser would
	if n > 0 {
		sort.SliceStable(m.TypeDefs, func(i, j int) bool { return ref.NaturalLess(m.TypeDefs[i].Name(), m.TypeDefs[j].Name()) })
	}
	return n
}
