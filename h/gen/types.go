// Package gen holds rapid generators over the abstract model (package am).
package gen

import (
	"fmt"

	"pgregory.net/rapid"

	"verif/h/am"
)

var FloatKinds = []string{"half", "float", "double", "x86_fp80", "fp128", "ppc_fp128"}

// TypeCfg controls type generation.
type TypeCfg struct {
	U            *am.Universe
	MaxDepth     int
	NoFirstClass bool // allow void/label/token/metadata/func at the top (for pure type tests)
}

// IntWidth draws an integer width biased to common ones.
func IntWidth(rt *rapid.T) uint64 {
	return rapid.OneOf(
		rapid.SampledFrom([]uint64{1, 8, 16, 32, 64}),
		rapid.SampledFrom([]uint64{1, 8, 16, 32, 64, 128}),
		rapid.Uint64Range(1, 130),
		rapid.SampledFrom([]uint64{2, 7, 24, 48, 65, 256, 1024}),
	).Draw(rt, "width")
}

// BoundaryArrayLens lets AnyType draw array lengths at the edges of the machine integer types (set by
// the type-level check C16 only: module-level checks instantiate their types).
var BoundaryArrayLens bool

// AnyType draws an arbitrary type (including non-first-class ones when depth allows), for type-level tests.
func AnyType(rt *rapid.T, u *am.Universe, depth int) *am.Type {
	leaf := func() *am.Type {
		switch rapid.IntRange(0, 9).Draw(rt, "leaf") {
		case 0, 1, 2:
			return am.I(IntWidth(rt))
		case 3, 4:
			return am.F(rapid.SampledFrom(FloatKinds).Draw(rt, "fk"))
		case 5:
			if u != nil && len(u.Defs) > 0 {
				return am.N(u.Defs[rapid.IntRange(0, len(u.Defs)-1).Draw(rt, "named")].Name)
			}
			return am.I(32)
		case 6:
			return am.TMMX
		case 7:
			return rapid.SampledFrom([]*am.Type{am.TVoid, am.TLabel, am.TToken, am.TMD}).Draw(rt, "special")
		default:
			return am.I(rapid.SampledFrom([]uint64{1, 8, 32, 64}).Draw(rt, "w"))
		}
	}
	if depth <= 0 {
		return leaf()
	}
	switch rapid.IntRange(0, 9).Draw(rt, "shape") {
	case 0, 1:
		return leaf()
	case 2, 3:
		return am.PA(elemOK(rt, u, depth-1, "ptr"), rapid.SampledFrom([]uint64{0, 0, 0, 1, 5, 200}).Draw(rt, "as"))
	case 4:
		e := vecElem(rt, u, depth-1)
		n := rapid.Uint64Range(1, 16).Draw(rt, "vlen")
		if rapid.IntRange(0, 3).Draw(rt, "scalable") == 0 {
			return am.SV(n, e)
		}
		return am.V(n, e)
	case 5:
		n := rapid.Uint64Range(0, 20).Draw(rt, "alen")
		if BoundaryArrayLens && rapid.IntRange(0, 4).Draw(rt, "bigalen") == 0 {
			// lengths at the edges of the machine integer types (valid as a type; nothing is allocated)
			n = rapid.SampledFrom([]uint64{255, 256, 65536, 1<<31 - 1, 1 << 31, 1<<32 - 1, 1 << 32, 1 << 53, 1<<63 - 1, 1 << 63, 1<<63 + 1, 1<<64 - 1}).Draw(rt, "alenBoundary")
		}
		return am.A(n, elemOK(rt, u, depth-1, "array"))
	case 6, 7:
		n := rapid.IntRange(0, 4).Draw(rt, "nfields")
		var fs []*am.Type
		for i := 0; i < n; i++ {
			fs = append(fs, elemOK(rt, u, depth-1, "field"))
		}
		t := am.S(fs...)
		t.Packed = rapid.Bool().Draw(rt, "packed")
		return t
	default:
		return FuncType(rt, u, depth-1)
	}
}

// FuncType draws a function type.
func FuncType(rt *rapid.T, u *am.Universe, depth int) *am.Type {
	var ret *am.Type
	if rapid.IntRange(0, 2).Draw(rt, "voidret") == 0 {
		ret = am.TVoid
	} else {
		ret = elemOK(rt, u, depth, "ret")
	}
	n := rapid.IntRange(0, 3).Draw(rt, "nparams")
	var ps []*am.Type
	for i := 0; i < n; i++ {
		ps = append(ps, elemOK(rt, u, depth, "param"))
	}
	return am.Fn(ret, rapid.IntRange(0, 3).Draw(rt, "variadic") == 0, ps...)
}

// elemOK draws a type usable as element/field/param: no void/label/token/metadata, function only behind a pointer.
func elemOK(rt *rapid.T, u *am.Universe, depth int, what string) *am.Type {
	for i := 0; i < 20; i++ {
		t := AnyType(rt, u, depth)
		switch t.K {
		case am.Void, am.Label, am.Token, am.Metadata:
			continue
		case am.Func:
			return am.P(t)
		}
		if what != "ptr" && containsScalable(t) {
			continue
		}
		return t
	}
	return am.I(32)
}

func containsScalable(t *am.Type) bool {
	switch t.K {
	case am.Vec:
		return t.Scalable
	case am.Array:
		return containsScalable(t.Elem)
	case am.Struct:
		for _, f := range t.Fields {
			if containsScalable(f) {
				return true
			}
		}
	}
	return false
}

func vecElem(rt *rapid.T, u *am.Universe, depth int) *am.Type {
	switch rapid.IntRange(0, 3).Draw(rt, "velem") {
	case 0:
		return am.F(rapid.SampledFrom(FloatKinds).Draw(rt, "fk"))
	case 1:
		return am.PA(elemOK(rt, u, depth-1, "ptr"), rapid.SampledFrom([]uint64{0, 0, 3}).Draw(rt, "as"))
	default:
		return am.I(IntWidth(rt))
	}
}

// GenUniverse draws a universe of n identified struct types, possibly opaque, recursive and mutually recursive.
func GenUniverse(rt *rapid.T, maxDefs int) *am.Universe { return GenUniverseWith(rt, maxDefs, false) }

// GenUniverseWith is GenUniverse with a choice about digit-only struct names (`%"42"`). The library keeps
// such a name with its quotes and sorts it by that representation, i.e. before the `$` names of the alias
// noise, which then meets KF-C01-nonstruct-named-type-order; only checks that do not print whole modules
// through LLVM (C16) ask for them.
func GenUniverseWith(rt *rapid.T, maxDefs int, numericNames bool) *am.Universe {
	n := rapid.IntRange(0, maxDefs).Draw(rt, "ndefs")
	u := &am.Universe{}
	names := map[string]bool{}
	adv := NewAdvNames(rt, "tadv")
	for i := 0; i < n; i++ {
		var name string
		kinds := 5
		if numericNames {
			kinds = 6
		}
		switch rapid.IntRange(0, kinds).Draw(rt, "nameKind") {
		case 6:
			// a name made of digits: spelled %"42" in LLVM assembly (not the numbered type %42); the library
			// keeps the quotes in TypeName to tell the two apart (see emit.TypeName)
			name = fmt.Sprint(40 + 3*i)
		case 0:
			name = fmt.Sprintf("struct.S%d", i)
		case 1:
			name = fmt.Sprintf("T%d", i)
		case 2:
			name = fmt.Sprintf("class.C %d", i)
		case 3, 4:
			name = adv.Draw(rt, "tname")
		default:
			name = fmt.Sprintf("t%d", i)
		}
		if names[name] {
			continue
		}
		names[name] = true
		u.Defs = append(u.Defs, &am.TypeDef{Name: name})
	}
	for _, d := range u.Defs {
		if rapid.IntRange(0, 5).Draw(rt, "opaque") == 0 {
			d.Opaque = true
			continue
		}
		d.Packed = rapid.IntRange(0, 4).Draw(rt, "dpacked") == 0
		k := rapid.IntRange(0, 4).Draw(rt, "dfields")
		if rapid.IntRange(0, 9).Draw(rt, "dwide") == 0 {
			// a wide body (real code has structs with dozens of fields; whatever is cut off, memoised or
			// pre-sized at 8 or 16 fields shows here)
			k = rapid.IntRange(15, 24).Draw(rt, "dfieldswide")
		}
		for j := 0; j < k; j++ {
			// fields must be sized: an identified struct by value only if it is not (transitively) itself → use pointers for named refs.
			f := elemOK(rt, u, 2, "field")
			f = pointerizeNamed(f)
			d.Fields = append(d.Fields, f)
		}
	}
	return u
}

// pointerizeNamed replaces by-value uses of identified structs by pointers so that
// definitions never contain themselves by value (and never an opaque type by value).
func pointerizeNamed(t *am.Type) *am.Type {
	switch t.K {
	case am.Named:
		return am.P(t)
	case am.Array, am.Vec:
		c := *t
		if t.Elem.K == am.Named {
			c.Elem = am.P(t.Elem)
		} else if t.K == am.Array {
			c.Elem = pointerizeNamed(t.Elem)
		}
		return &c
	case am.Struct:
		c := *t
		c.Fields = nil
		for _, f := range t.Fields {
			c.Fields = append(c.Fields, pointerizeNamed(f))
		}
		return &c
	}
	return t
}

// Mutate returns a copy of t that differs in exactly one feature chosen by rapid
// (bit width, float kind, length, scalability, element, one field, one parameter,
// return type, variadic, address space, packed, name).
func Mutate(rt *rapid.T, u *am.Universe, t *am.Type) *am.Type {
	c := *t
	switch t.K {
	case am.Int:
		c.Bits = t.Bits + uint64(rapid.SampledFrom([]int{1, 7, 32}).Draw(rt, "dbits"))
	case am.Float:
		for {
			c.FK = rapid.SampledFrom(FloatKinds).Draw(rt, "fk2")
			if c.FK != t.FK {
				break
			}
		}
	case am.Ptr:
		if rapid.Bool().Draw(rt, "mutAS") {
			c.AddrSpace = t.AddrSpace + 1
		} else {
			c.Elem = Mutate(rt, u, t.Elem)
		}
	case am.Vec:
		switch rapid.IntRange(0, 2).Draw(rt, "mutVec") {
		case 0:
			c.Len = t.Len + 1
		case 1:
			c.Scalable = !t.Scalable
		default:
			c.Elem = Mutate(rt, u, t.Elem)
		}
	case am.Array:
		if rapid.Bool().Draw(rt, "mutLen") {
			c.Len = t.Len + 1
		} else {
			c.Elem = Mutate(rt, u, t.Elem)
		}
	case am.Struct:
		switch k := rapid.IntRange(0, 2).Draw(rt, "mutStruct"); {
		case k == 0 || len(t.Fields) == 0 && k == 2:
			c.Packed = !t.Packed
		case k == 1:
			c.Fields = append(append([]*am.Type{}, t.Fields...), am.I(8))
		default:
			i := rapid.IntRange(0, len(t.Fields)-1).Draw(rt, "fieldIdx")
			c.Fields = append([]*am.Type{}, t.Fields...)
			c.Fields[i] = Mutate(rt, u, t.Fields[i])
		}
	case am.Func:
		switch k := rapid.IntRange(0, 3).Draw(rt, "mutFunc"); {
		case k == 0:
			c.Variadic = !t.Variadic
		case k == 1:
			if t.Ret.K == am.Void {
				c.Ret = am.I(32)
			} else {
				c.Ret = Mutate(rt, u, t.Ret)
			}
		case k == 2 || len(t.Params) == 0:
			c.Params = append(append([]*am.Type{}, t.Params...), am.I(8))
		default:
			i := rapid.IntRange(0, len(t.Params)-1).Draw(rt, "paramIdx")
			c.Params = append([]*am.Type{}, t.Params...)
			c.Params[i] = Mutate(rt, u, t.Params[i])
		}
	case am.Named:
		if u != nil && len(u.Defs) > 1 {
			for _, d := range u.Defs {
				if d.Name != t.Name {
					c.Name = d.Name
					break
				}
			}
		} else {
			return am.S()
		}
	default: // void label token metadata mmx → another of them
		if t.K == am.MMX {
			return am.TToken
		}
		return am.TMMX
	}
	return &c
}

// AdvNames draws names from families built to collide under a careless natural-order comparison:
// numbers that differ only in zero padding followed by different suffixes (equal total length
// included), digit runs at and beyond 2^64 that differ only in their last digit, several number chunks
// per name. Base and leading number are fixed per module so that the names of one module are close
// to each other. Every name starts with a letter, so none is a numeric ID.
type AdvNames struct {
	base string
	k    string
}

func NewAdvNames(rt *rapid.T, label string) *AdvNames {
	return &AdvNames{
		base: rapid.SampledFrom([]string{"r", "rev.", "x", "a.b"}).Draw(rt, label+"_base"),
		k:    fmt.Sprint(rapid.IntRange(1, 9).Draw(rt, label+"_k")),
	}
}

func (a *AdvNames) Draw(rt *rapid.T, label string) string {
	base, ks := a.base, a.k
	switch rapid.IntRange(0, 5).Draw(rt, label+"_family") {
	case 0, 1, 2: // zero padding against suffix
		return base + rapid.SampledFrom([]string{"0" + ks, ks + "b", "00" + ks, ks + "bc", ks, "0" + ks + "z", ks + "a" + ks, "0" + ks + "a0" + ks, ks + "a0" + ks, "0" + ks + "a" + ks}).Draw(rt, label+"_form")
	case 3: // beyond 64 bits
		run := rapid.SampledFrom([]string{"2026092409300000000", "1844674407370955161", "9999999999999999999"}).Draw(rt, label+"_run")
		return base + run + fmt.Sprint(rapid.IntRange(0, 9).Draw(rt, label+"_last")) + rapid.SampledFrom([]string{"", "", "x"}).Draw(rt, label+"_tail")
	case 4: // several chunks
		j := rapid.IntRange(1, 3).Draw(rt, label+"_j")
		return fmt.Sprintf("%s%s.%s%d", base, rapid.SampledFrom([]string{ks, "0" + ks}).Draw(rt, label+"_p1"), rapid.SampledFrom([]string{"", "0", "00"}).Draw(rt, label+"_p2"), j)
	default: // case and digit boundaries
		return rapid.SampledFrom([]string{"R", "r", "X"}).Draw(rt, label+"_case") + ks + rapid.SampledFrom([]string{"", "0", "_", " "}).Draw(rt, label+"_sep") + ks
	}
}
