package gen

import (
	"fmt"
	"math"
	"math/big"
	"strconv"
	"strings"

	"pgregory.net/rapid"

	"verif/h/am"
)

// Cfg bounds and biases module generation.
type Cfg struct {
	MaxFuncs   int
	MaxBlocks  int
	MaxInsts   int // per block
	MaxGlobals int
	// Off switches features off (generator exclusions for known findings and profiles); key = feature name.
	Off map[string]bool
	// Count is called whenever an exclusion prevented a construct from being generated.
	Count func(feature string)
	// NoNames makes every value that may be unnamed unnamed (numbering profile bias).
	UnnamedBias    int // 0..10: probability/10 that a local is unnamed
	UnnamedGlobals bool
	// Big asks for at least 8 entities in each top-level map of the translator
	// (types, comdats, globals, attribute groups, named metadata, metadata).
	Big bool
	// CrossBAUnnamed allows blockaddress constants that name a numbered block of another function
	// (llvm-as-14 mis-resolves them, so only LLVM-free checks set it)
	CrossBAUnnamed bool
	// ForceMD asks for generic metadata definitions in every module (otherwise one module in two has them)
	ForceMD bool
	// GEPBias makes getelementptr instructions and constant expressions much more frequent.
	GEPBias bool
	// DebugInfo adds a specialised debug-info metadata graph (DICompileUnit, DIFile, types, scopes, locations ...).
	DebugInfo bool
	// LLVM15 adds keywords that the library models but LLVM 14 does not know (uwtable(sync|async), allockind,
	// sanitizer keywords on global variables): only for checks whose oracle is not LLVM 14 itself (C02 judges the
	// library's own fixpoint and asks LLVM 14 about the text with those keywords mapped to what it knows)
	LLVM15 bool
	// NoScale switches the occasional large module off (checks whose cost grows quadratically).
	NoScale bool
	scaled  bool
}

// DefaultCfg returns the 'full' profile.
func DefaultCfg() Cfg {
	return Cfg{MaxFuncs: 4, MaxBlocks: 6, MaxInsts: 8, MaxGlobals: 5, UnnamedBias: 4, UnnamedGlobals: true, Off: map[string]bool{}}
}

// G generates one module.
type G struct {
	twins         map[*am.Fun]bool
	lastBundles   []*am.Bundle
	lastBundleBlk *am.Block
	adv           *AdvNames
	rt            *rapid.T
	cfg           Cfg
	M             *am.Module
	used          map[string]bool
	n             int
	// Features counts generated constructs (histogram).
	Features map[string]int
	// current function state
	f        *am.Fun
	localN   int
	nestUsed bool
	noByval  bool
	// functions whose body was written by hand (ifunc resolvers): not filled by genBody
	prebuilt map[*am.Fun]bool
}

func (g *G) off(feature string) bool {
	if g.cfg.Off[feature] {
		if g.cfg.Count != nil {
			g.cfg.Count(feature)
		}
		return true
	}
	return false
}

func (g *G) feat(s string) { g.Features[s]++ }

func (g *G) intn(label string, n int) int {
	if n <= 1 {
		return 0
	}
	return rapid.IntRange(0, n-1).Draw(g.rt, label)
}
func (g *G) rng(label string, lo, hi int) int { return rapid.IntRange(lo, hi).Draw(g.rt, label) }
func (g *G) chance(label string, num, den int) bool {
	return rapid.IntRange(0, den-1).Draw(g.rt, label) < num
}
func (g *G) pick(label string, xs []string) string { return xs[g.intn(label, len(xs))] }

func (g *G) fresh(prefix string) string {
	for {
		g.n++
		s := fmt.Sprintf("%s%d", prefix, g.n)
		if !g.used[s] {
			g.used[s] = true
			return s
		}
	}
}

// ---------------------------------------------------------------------------
// Types

var commonInts = []uint64{1, 8, 16, 32, 64}

func (g *G) intType() *am.Type {
	switch g.intn("intclass", 6) {
	case 0:
		return am.I(IntWidth(g.rt))
	default:
		return am.I(commonInts[g.intn("w", len(commonInts))])
	}
}

func (g *G) floatType() *am.Type {
	if g.chance("rarefloat", 1, 4) {
		return am.F(g.pick("fk", FloatKinds))
	}
	return am.F(g.pick("fk", []string{"float", "double", "half"}))
}

// sizedType draws a first-class sized type usable in memory (no scalable vectors, no opaque).
func (g *G) sizedType(depth int) *am.Type {
	k := g.intn("tshape", 12)
	if depth <= 0 && k >= 6 {
		k = g.intn("tleaf", 6)
	}
	switch k {
	case 0, 1, 2:
		return g.intType()
	case 3, 4:
		return g.floatType()
	case 5:
		return g.ptrType(depth - 1)
	case 6:
		return g.ptrType(depth - 1)
	case 7:
		return g.vecType(false)
	case 8:
		n := uint64(g.rng("alen", 0, 5))
		if g.chance("longarray", 1, 10) {
			n = uint64(g.rng("alenlong", 8, 24)) // two-digit indices
		}
		return am.A(n, g.sizedType(depth-1))
	case 9, 10:
		n := g.rng("nfields", 0, 4)
		var fs []*am.Type
		for i := 0; i < n; i++ {
			fs = append(fs, g.sizedType(depth-1))
		}
		t := am.S(fs...)
		t.Packed = g.chance("packed", 1, 4)
		return t
	default:
		if t := g.namedSized(); t != nil {
			return t
		}
		return g.intType()
	}
}

func (g *G) namedSized() *am.Type {
	var c []*am.TypeDef
	for _, d := range g.M.U.Defs {
		if !d.Opaque && g.defSized(d, map[string]bool{}) {
			c = append(c, d)
		}
	}
	if len(c) == 0 {
		return nil
	}
	return am.N(c[g.intn("named", len(c))].Name)
}

func (g *G) defSized(d *am.TypeDef, seen map[string]bool) bool {
	if d.Opaque || seen[d.Name] {
		return false
	}
	seen[d.Name] = true
	for _, f := range d.Fields {
		if !g.typeSized(f, seen) {
			return false
		}
	}
	delete(seen, d.Name)
	return true
}

func (g *G) typeSized(t *am.Type, seen map[string]bool) bool {
	switch t.K {
	case am.Named:
		d := g.M.U.Def(t.Name)
		return d != nil && g.defSized(d, seen)
	case am.Array, am.Vec:
		return !(t.K == am.Vec && t.Scalable) && g.typeSized(t.Elem, seen)
	case am.Struct:
		for _, f := range t.Fields {
			if !g.typeSized(f, seen) {
				return false
			}
		}
		return true
	case am.Void, am.Func, am.Label, am.Token, am.Metadata:
		return false
	}
	return true
}

func (g *G) ptrType(depth int) *am.Type {
	as := []uint64{0, 0, 0, 0, 1, 5}[g.intn("as", 6)]
	switch g.intn("pointee", 8) {
	case 0:
		if len(g.M.U.Defs) > 0 {
			return am.PA(am.N(g.M.U.Defs[g.intn("pnamed", len(g.M.U.Defs))].Name), as)
		}
	case 1:
		return am.PA(g.funcType(), as)
	case 2:
		return am.PA(am.I8, as)
	}
	return am.PA(g.sizedType(depth), as)
}

func (g *G) funcType() *am.Type {
	ret := am.TVoid
	if g.chance("ftret", 2, 3) {
		ret = g.scalarType()
	}
	n := g.rng("ftparams", 0, 3)
	var ps []*am.Type
	for i := 0; i < n; i++ {
		ps = append(ps, g.scalarType())
	}
	return am.Fn(ret, g.chance("ftvar", 1, 5), ps...)
}

func (g *G) scalarType() *am.Type {
	switch g.intn("scalar", 5) {
	case 0:
		return g.floatType()
	case 1:
		return am.P(am.I8)
	default:
		return g.intType()
	}
}

// vecType draws a vector type; scalable only when allowed (SSA values).
func (g *G) vecType(allowScalable bool) *am.Type {
	n := []uint64{1, 2, 2, 3, 4, 4, 8, 16}[g.intn("vlen", 8)]
	var e *am.Type
	switch g.intn("velem", 5) {
	case 0:
		e = g.floatType()
		if e.FK == "ppc_fp128" {
			e = am.F("double") // llvm-as-14 crashes (stack smashing) on constant vectors of ppc_fp128
		}
	case 1:
		e = am.PA(g.intType(), []uint64{0, 0, 3}[g.intn("vas", 3)])
	default:
		e = g.intType()
	}
	if allowScalable && !g.off("scalable-vector") && g.chance("scalable", 1, 5) {
		g.feat("type/scalable-vector")
		return am.SV(n, e)
	}
	return am.V(n, e)
}

// ---------------------------------------------------------------------------
// Constants

func (g *G) intConst(t *am.Type) *am.Const {
	w := uint(t.Bits)
	var v *big.Int
	switch g.intn("ival", 6) {
	case 0:
		v = big.NewInt(0)
	case 1:
		v = big.NewInt(1)
	case 2:
		v = big.NewInt(int64(g.rng("small", -128, 127)))
	case 3:
		v = new(big.Int).Sub(new(big.Int).Lsh(big.NewInt(1), w-1), big.NewInt(1)) // max signed
	case 4:
		v = new(big.Int).Neg(new(big.Int).Lsh(big.NewInt(1), w-1)) // min signed
	default:
		bs := rapid.SliceOfN(rapid.Byte(), int(w+7)/8, int(w+7)/8).Draw(g.rt, "ibytes")
		v = new(big.Int).SetBytes(bs)
	}
	// bring into [-2^(w-1), 2^w)
	mod := new(big.Int).Lsh(big.NewInt(1), w)
	if v.Sign() >= 0 {
		v.Mod(v, mod)
	} else {
		lo := new(big.Int).Neg(new(big.Int).Lsh(big.NewInt(1), w-1))
		if v.Cmp(lo) < 0 {
			v.Mod(v, mod)
		}
	}
	c := &am.Const{K: am.CInt, T: t, Int: v}
	if w > 1 && v.Sign() >= 0 && g.chance("hexint", 1, 5) {
		c.Lit = "u0x" + strings.ToUpper(v.Text(16))
		g.feat("const/int-hex")
	}
	if w == 1 && g.chance("i1num", 1, 3) {
		// i1 may be spelled 0/1/-1 as well
		if v.Sign() == 0 {
			c.Lit = "0"
		} else {
			c.Lit = []string{"1", "-1"}[g.intn("i1neg", 2)]
		}
	}
	return c
}

// FloatLit returns a literal of kind fk for the double value f (must be exactly representable in fk
// for the decimal/16-digit forms) — or special patterns.
func (g *G) floatConst(t *am.Type) *am.Const {
	lit := ""
	nice := []float64{0, 1, -1, 0.5, 2, 1.5, -0.25, 3, 10, 100, 1024, 0.125, 65504, -2.5}
	f := nice[g.intn("fnice", len(nice))]
	class := g.intn("fclass", 6)
	switch t.FK {
	case "half", "float", "double":
		bits := math.Float64bits(f)
		switch class {
		case 0:
			bits = 0x7FF0000000000000 // inf
		case 1:
			bits = 0xFFF0000000000000
		case 2:
			bits = 0x7FF8000000000000 // canonical qNaN
		case 3:
			bits = 0x8000000000000000 // -0
		case 4:
			if t.FK == "double" {
				bits = rapid.Uint64().Draw(g.rt, "dbits")
				if bits>>52&0x7FF == 0x7FF && bits&(1<<52-1) != 0 {
					bits = 0x7FF8000000000000 | bits&(1<<63)
				}
			} else if t.FK == "float" {
				fb := rapid.Uint32().Draw(g.rt, "fbits")
				f32 := math.Float32frombits(fb)
				if f32 != f32 {
					bits = 0x7FF8000000000000
				} else {
					bits = math.Float64bits(float64(f32))
				}
			}
		}
		if t.FK == "half" && class != 4 {
			// exact in half for the nice values and specials
		}
		fv := math.Float64frombits(bits)
		if g.chance("fhex", 1, 2) || math.IsInf(fv, 0) || math.IsNaN(fv) {
			lit = fmt.Sprintf("0x%016X", bits)
		} else {
			lit = strconv.FormatFloat(fv, 'e', -1, 64)
			if !strings.Contains(lit, ".") {
				i := strings.IndexByte(lit, 'e')
				lit = lit[:i] + ".0" + lit[i:]
			}
			// LLVM requires decimals to be exact for half/float: only the nice values / exact floats reach here
			if t.FK != "double" && class == 4 {
				lit = fmt.Sprintf("0x%016X", bits)
			}
		}
		if t.FK == "half" && class == 4 {
			lit = fmt.Sprintf("0xH%04X", rapid.Uint16().Draw(g.rt, "hbits")&0x7BFF)
		}
	case "x86_fp80":
		lit = []string{"0xK00000000000000000000", "0xK3FFF8000000000000000", "0xKBFFF8000000000000000", "0xK4000C000000000000000", "0xK7FFF8000000000000000", "0xK7FFFC000000000000000", "0xK00000000000000000001"}[g.intn("k", 7)]
	case "fp128":
		lit = []string{"0xL00000000000000000000000000000000", "0xL00000000000000003FFF000000000000", "0xL0000000000000000BFFF000000000000", "0xL00000000000000007FFF000000000000", "0xL00000000000000007FFF800000000000", "0xL999999999999999A3FFB999999999999"}[g.intn("l", 6)]
	default:
		lit = []string{"0xM00000000000000000000000000000000", "0xM3FF00000000000000000000000000000", "0xMBFF00000000000000000000000000000", "0xM400C0000000000000000000000000000", "0xM7FF00000000000000000000000000000"}[g.intn("m", 5)]
	}
	return &am.Const{K: am.CFloat, T: t, Lit: lit}
}

// body returns the field types of a struct-like type (literal or identified).
func (g *G) body(t *am.Type) (fields []*am.Type, packed bool, ok bool) {
	switch t.K {
	case am.Struct:
		return t.Fields, t.Packed, true
	case am.Named:
		d := g.M.U.Def(t.Name)
		if d == nil || d.Opaque {
			return nil, false, false
		}
		return d.Fields, d.Packed, true
	}
	return nil, false, false
}

// constOf draws a constant of type t.
func (g *G) constOf(t *am.Type, depth int) *am.Const {
	if t.K == am.MMX {
		return &am.Const{K: am.CUndef, T: t} // llvm-as-14 crashes on `x86_mmx zeroinitializer`
	}
	// generic forms
	if t.K != am.Label && t.K != am.Void && g.chance("generic", 1, 7) {
		k := []am.CKind{am.CUndef, am.CPoison, am.CZero, am.CZero}[g.intn("gk", 4)]
		if k == am.CZero && (t.K == am.Vec && t.Scalable) {
			k = am.CZero
		}
		if !(k == am.CZero && t.K == am.Named && !g.typeSized(t, map[string]bool{})) {
			g.feat("const/" + [...]string{am.CUndef: "undef", am.CPoison: "poison", am.CZero: "zeroinitializer"}[k])
			return &am.Const{K: k, T: t}
		}
	}
	if depth > 0 && !g.off("rich-constexpr") && g.chance("richexpr", 1, 9) {
		if e := g.richExpr(t, depth-1); e != nil {
			return e
		}
	}
	switch t.K {
	case am.Int:
		if depth > 0 && g.chance("iexpr", 1, 6) {
			if e := g.intExpr(t, depth-1); e != nil {
				return e
			}
		}
		return g.intConst(t)
	case am.Float:
		return g.floatConst(t)
	case am.Ptr:
		return g.ptrConst(t, depth)
	case am.Vec:
		if t.Scalable {
			return &am.Const{K: []am.CKind{am.CZero, am.CUndef, am.CPoison}[g.intn("svc", 3)], T: t}
		}
		if strings.HasPrefix(t.Elem.String(), "{") {
			// `<{` starts a packed struct constant in LLVM's grammar (with or without a space): a vector
			// constant whose first element type begins with a brace cannot be written element by element
			return &am.Const{K: []am.CKind{am.CZero, am.CUndef, am.CPoison}[g.intn("bracevec", 3)], T: t}
		}
		c := &am.Const{K: am.CVector, T: t}
		splat := g.chance("splat", 1, 3)
		var first *am.Const
		for i := uint64(0); i < t.Len; i++ {
			if splat && first != nil {
				c.Elems = append(c.Elems, first)
				continue
			}
			e := g.constOf(t.Elem, 0)
			first = e
			c.Elems = append(c.Elems, e)
		}
		g.feat("const/vector")
		return c
	case am.Array:
		if t.Elem.K == am.Int && t.Elem.Bits == 8 && t.Len > 0 && g.chance("chars", 1, 2) {
			bs := rapid.SliceOfN(rapid.Byte(), int(t.Len), int(t.Len)).Draw(g.rt, "chars")
			g.feat("const/chararray")
			return &am.Const{K: am.CChars, T: t, Chars: string(bs)}
		}
		if t.Len == 0 {
			// an array without elements: `zeroinitializer`, `[]`, or `c""` for bytes
			switch g.intn("emptyarr", 3) {
			case 0:
				g.feat("const/array-empty")
				return &am.Const{K: am.CArray, T: t}
			case 1:
				if t.Elem.K == am.Int && t.Elem.Bits == 8 {
					g.feat("const/chararray-empty")
					return &am.Const{K: am.CChars, T: t}
				}
			}
			return &am.Const{K: am.CZero, T: t}
		}
		c := &am.Const{K: am.CArray, T: t}
		for i := uint64(0); i < t.Len; i++ {
			c.Elems = append(c.Elems, g.constOf(t.Elem, depth-1))
		}
		g.feat("const/array")
		return c
	case am.Struct, am.Named:
		fs, packed, ok := g.body(t)
		if !ok {
			return &am.Const{K: am.CUndef, T: t}
		}
		c := &am.Const{K: am.CStruct, T: t}
		if t.K == am.Named && packed {
			c.Lit = "packed"
		}
		for _, f := range fs {
			c.Elems = append(c.Elems, g.constOf(f, depth-1))
		}
		g.feat("const/struct")
		return c
	case am.MMX:
		return &am.Const{K: am.CUndef, T: t}
	case am.Token:
		return &am.Const{K: am.CNone, T: t}
	}
	return &am.Const{K: am.CUndef, T: t}
}

// globalsOfPtrType returns global entities whose address has exactly type t.
func (g *G) globalsOfPtrType(t *am.Type) []any {
	var out []any
	for _, gl := range g.M.Globals {
		if am.Equal(gl.PtrType(), t) {
			out = append(out, gl)
		}
	}
	for _, f := range g.M.Funcs {
		if am.Equal(f.PtrType(), t) {
			out = append(out, f)
		}
	}
	for _, a := range g.M.Aliases {
		if am.Equal(am.PA(a.T, a.AddrSpace), t) {
			out = append(out, a)
		}
	}
	return out
}

func (g *G) anyGlobal() (any, *am.Type) {
	n := len(g.M.Globals) + len(g.M.Funcs)
	if n == 0 {
		return nil, nil
	}
	i := g.intn("anyglobal", n)
	if i < len(g.M.Globals) {
		return g.M.Globals[i], g.M.Globals[i].PtrType()
	}
	f := g.M.Funcs[i-len(g.M.Globals)]
	return f, f.PtrType()
}

func (g *G) ptrConst(t *am.Type, depth int) *am.Const {
	switch g.intn("pconst", 6) {
	case 0:
		return &am.Const{K: am.CNull, T: t}
	case 1, 2:
		if c := g.globalsOfPtrType(t); len(c) > 0 {
			g.feat("const/global-address")
			ref := c[g.intn("gref", len(c))]
			if _, isFun := ref.(*am.Fun); isFun && !g.off("fnaddr-wrappers") && g.chance("fnwrap", 1, 3) {
				g.feat("const/no_cfi")
				return &am.Const{K: am.CNoCFI, T: t, Ref: ref}
			}
			return &am.Const{K: am.CGlobal, T: t, Ref: ref}
		}
	case 3:
		// bitcast / addrspacecast of some global's address
		if depth > 0 {
			if x, xt := g.anyGlobal(); x != nil {
				op := "bitcast"
				if xt.AddrSpace != t.AddrSpace {
					op = "addrspacecast"
				}
				if !am.Equal(xt, t) {
					g.feat("constexpr/" + op)
					return &am.Const{K: am.CExpr, T: t, Expr: &am.Expr{Op: op, To: t, Args: []*am.Const{{K: am.CGlobal, T: xt, Ref: x}}, InRange: -1}}
				}
			}
		}
	case 4:
		if depth > 0 && t.AddrSpace == 0 {
			it := am.I64
			g.feat("constexpr/inttoptr")
			return &am.Const{K: am.CExpr, T: t, Expr: &am.Expr{Op: "inttoptr", To: t, Args: []*am.Const{g.intConst(it)}, InRange: -1}}
		}
	case 5:
		// getelementptr into a global array / struct whose element type matches
		if depth > 0 {
			if e := g.gepExprTo(t); e != nil {
				return e
			}
		}
	}
	return &am.Const{K: am.CNull, T: t}
}

// gepExprTo finds a global whose content is an array of t.Elem (same addrspace) and indexes it.
func (g *G) gepExprTo(t *am.Type) *am.Const {
	for _, gl := range g.M.Globals {
		if gl.AddrSpace != t.AddrSpace {
			continue
		}
		if gl.T.K == am.Array && am.Equal(gl.T.Elem, t.Elem) && gl.T.Len > 0 {
			i0 := &am.Const{K: am.CInt, T: am.I64, Int: big.NewInt(0)}
			i1 := &am.Const{K: am.CInt, T: am.I64, Int: big.NewInt(int64(g.intn("gepidx", int(gl.T.Len))))}
			e := &am.Expr{Op: "getelementptr", ElemT: gl.T, InBounds: g.chance("inb", 1, 2), InRange: -1,
				Args: []*am.Const{{K: am.CGlobal, T: gl.PtrType(), Ref: gl}, i0, i1}}
			g.feat("constexpr/getelementptr")
			return &am.Const{K: am.CExpr, T: t, Expr: e}
		}
	}
	return nil
}

// richExpr draws a constant expression of type t from the kinds that involve floating point, vectors
// (fixed and scalable) and conversions: fcmp, icmp on vectors, select on vectors, fneg, the fp casts,
// extractelement, insertelement, shufflevector. nil = no form for this type.
func (g *G) richExpr(t *am.Type, depth int) *am.Const {
	mk := func(e *am.Expr) *am.Const {
		e.InRange = -1
		g.feat("constexpr/" + e.Op)
		if t.K == am.Vec {
			g.feat("constexpr/vector-typed")
			if t.Scalable {
				g.feat("constexpr/scalable-vector-typed")
			}
		}
		return &am.Const{K: am.CExpr, T: t, Expr: e}
	}
	i32 := func(n int64) *am.Const { return &am.Const{K: am.CInt, T: am.I32, Int: big.NewInt(n)} }
	vecOf := func(like *am.Type, elem *am.Type) *am.Type {
		v := am.V(like.Len, elem)
		v.Scalable = like.Scalable
		return v
	}
	fkinds := []string{"half", "float", "double"}
	fidx := func(k string) int {
		for i, x := range fkinds {
			if x == k {
				return i
			}
		}
		return -1
	}
	switch t.K {
	case am.Float:
		switch g.intn("fexprkind", 6) {
		case 0:
			return mk(&am.Expr{Op: "fneg", Args: []*am.Const{g.constOf(t, depth)}})
		case 1:
			if i := fidx(t.FK); i >= 0 && i < 2 {
				return mk(&am.Expr{Op: "fptrunc", To: t, Args: []*am.Const{g.constOf(am.F(fkinds[i+1]), depth)}})
			}
		case 2:
			if i := fidx(t.FK); i > 0 {
				return mk(&am.Expr{Op: "fpext", To: t, Args: []*am.Const{g.constOf(am.F(fkinds[i-1]), depth)}})
			}
		case 3:
			return mk(&am.Expr{Op: g.pick("itofp", []string{"sitofp", "uitofp"}), To: t, Args: []*am.Const{g.constOf(g.intType(), depth)}})
		case 4:
			n := uint64(g.rng("eevlen", 1, 4))
			return mk(&am.Expr{Op: "extractelement", Args: []*am.Const{g.constOf(am.V(n, t), depth), i32(int64(g.intn("eeidx", int(n))))}})
		default:
			return mk(&am.Expr{Op: "select", Args: []*am.Const{g.constOf(am.I1, depth), g.constOf(t, depth), g.constOf(t, depth)}})
		}
	case am.Int:
		switch g.intn("iexprkind2", 3) {
		case 0:
			if t.Bits == 1 {
				ft := g.floatType()
				return mk(&am.Expr{Op: "fcmp", Pred: g.pick("fpred", FPreds), Args: []*am.Const{g.constOf(ft, depth), g.constOf(ft, depth)}})
			}
			return mk(&am.Expr{Op: g.pick("fptoi", []string{"fptosi", "fptoui"}), To: t, Args: []*am.Const{g.constOf(g.floatType(), 0)}})
		case 1:
			n := uint64(g.rng("eevlen", 1, 4))
			return mk(&am.Expr{Op: "extractelement", Args: []*am.Const{g.constOf(am.V(n, t), depth), i32(int64(g.intn("eeidx", int(n))))}})
		default:
			if t.Bits >= 16 && t.Bits <= 64 && t.Bits&(t.Bits-1) == 0 {
				// bitcast of a vector of narrower integers
				half := am.I(t.Bits / 2)
				return mk(&am.Expr{Op: "bitcast", To: t, Args: []*am.Const{g.constOf(am.V(2, half), depth)}})
			}
		}
	case am.Vec:
		elem := t.Elem
		scal := t.Scalable
		switch g.intn("vexprkind", 5) {
		case 0:
			if elem.K == am.Int && elem.Bits == 1 {
				if g.chance("vfcmp", 1, 2) {
					ot := vecOf(t, g.floatType())
					return mk(&am.Expr{Op: "fcmp", Pred: g.pick("fpred", FPreds), Args: []*am.Const{g.constOf(ot, depth), g.constOf(ot, depth)}})
				}
				ot := vecOf(t, g.intType())
				return mk(&am.Expr{Op: "icmp", Pred: g.pick("ipred", IPreds), Args: []*am.Const{g.constOf(ot, depth), g.constOf(ot, depth)}})
			}
			if elem.K == am.Float {
				return mk(&am.Expr{Op: "fneg", Args: []*am.Const{g.constOf(t, depth)}})
			}
		case 1:
			// shufflevector: the result takes the mask's length (and scalability), the element type of the operands
			if elem.K == am.Int || elem.K == am.Float || elem.K == am.Ptr {
				m := uint64(g.rng("shufsrc", 1, 4))
				src := am.V(m, elem)
				src.Scalable = scal
				var mask *am.Const
				mt := vecOf(t, am.I32)
				if scal {
					// (llvm-as-14 folds a scalable shuffle with an undef mask to a *fixed* vector and then
					// rejects its own result: only the zeroinitializer mask is usable)
					mask = &am.Const{K: am.CZero, T: mt}
				} else {
					mask = &am.Const{K: am.CVector, T: mt}
					for i := uint64(0); i < t.Len; i++ {
						if g.chance("maskundef", 1, 6) {
							mask.Elems = append(mask.Elems, &am.Const{K: am.CUndef, T: am.I32})
						} else {
							mask.Elems = append(mask.Elems, i32(int64(g.intn("maskidx", int(2*m)))))
						}
					}
				}
				return mk(&am.Expr{Op: "shufflevector", Args: []*am.Const{g.constOf(src, depth), g.constOf(src, depth), mask}})
			}
		case 2:
			if elem.K == am.Int || elem.K == am.Float || elem.K == am.Ptr {
				idx := int64(0)
				if !scal {
					idx = int64(g.intn("ieidx", int(t.Len)))
				}
				return mk(&am.Expr{Op: "insertelement", Args: []*am.Const{g.constOf(t, depth), g.constOf(elem, 0), i32(idx)}})
			}
		case 3:
			cond := am.I1
			if g.chance("veccond", 1, 2) {
				cond = vecOf(t, am.I1)
			}
			return mk(&am.Expr{Op: "select", Args: []*am.Const{g.constOf(cond, depth), g.constOf(t, depth), g.constOf(t, depth)}})
		default:
			if elem.K == am.Float {
				if i := fidx(elem.FK); i >= 0 && i < 2 {
					return mk(&am.Expr{Op: "fptrunc", To: t, Args: []*am.Const{g.constOf(vecOf(t, am.F(fkinds[i+1])), depth)}})
				}
			}
			if elem.K == am.Int && elem.Bits > 1 {
				return mk(&am.Expr{Op: g.pick("fptoi", []string{"fptosi", "fptoui"}), To: t, Args: []*am.Const{g.constOf(vecOf(t, g.floatType()), 0)}})
			}
		}
	}
	return nil
}

func (g *G) intExpr(t *am.Type, depth int) *am.Const {
	switch g.intn("iexprkind", 5) {
	case 0:
		op := g.pick("cbin", []string{"add", "sub", "mul", "and", "or", "xor", "shl", "lshr", "ashr"})
		e := &am.Expr{Op: op, Args: []*am.Const{g.constOf(t, depth), g.constOf(t, depth)}, InRange: -1}
		switch op {
		case "add", "sub", "mul", "shl":
			if g.chance("cnsw", 1, 3) {
				e.Flags = append(e.Flags, "nsw")
			}
		case "lshr", "ashr":
			if g.chance("cexact", 1, 3) {
				e.Flags = append(e.Flags, "exact")
			}
		}
		g.feat("constexpr/" + op)
		return &am.Const{K: am.CExpr, T: t, Expr: e}
	case 1:
		if x, xt := g.anyGlobal(); x != nil {
			g.feat("constexpr/ptrtoint")
			return &am.Const{K: am.CExpr, T: t, Expr: &am.Expr{Op: "ptrtoint", To: t, Args: []*am.Const{{K: am.CGlobal, T: xt, Ref: x}}, InRange: -1}}
		}
	case 2:
		if t.Bits > 1 {
			from := am.I(t.Bits + uint64(g.rng("wider", 1, 16)))
			g.feat("constexpr/trunc")
			return &am.Const{K: am.CExpr, T: t, Expr: &am.Expr{Op: "trunc", To: t, Args: []*am.Const{g.constOf(from, depth)}, InRange: -1}}
		}
	case 3:
		if t.Bits > 1 {
			from := am.I(uint64(g.rng("narrower", 1, int(t.Bits)-1)))
			op := g.pick("ext", []string{"zext", "sext"})
			g.feat("constexpr/" + op)
			return &am.Const{K: am.CExpr, T: t, Expr: &am.Expr{Op: op, To: t, Args: []*am.Const{g.constOf(from, depth)}, InRange: -1}}
		}
	case 4:
		if t.Bits == 1 {
			it := g.intType()
			g.feat("constexpr/icmp")
			return &am.Const{K: am.CExpr, T: t, Expr: &am.Expr{Op: "icmp", Pred: g.pick("ipred", IPreds), Args: []*am.Const{g.constOf(it, depth), g.constOf(it, depth)}, InRange: -1}}
		}
		c := g.constOf(am.I1, depth)
		g.feat("constexpr/select")
		return &am.Const{K: am.CExpr, T: t, Expr: &am.Expr{Op: "select", Args: []*am.Const{c, g.constOf(t, depth), g.constOf(t, depth)}, InRange: -1}}
	}
	return nil
}

var (
	IPreds   = []string{"eq", "ne", "ugt", "uge", "ult", "ule", "sgt", "sge", "slt", "sle"}
	FPreds   = []string{"false", "oeq", "ogt", "oge", "olt", "ole", "one", "ord", "ueq", "ugt", "uge", "ult", "ule", "une", "uno", "true"}
	FastMath = []string{"nnan", "ninf", "nsz", "arcp", "contract", "afn", "reassoc", "fast"}
	Linkages = []string{"", "", "private", "internal", "weak", "weak_odr", "linkonce", "linkonce_odr", "available_externally"}
	CCs      = []string{"", "ccc", "fastcc", "coldcc", "cc 10", "cc 11", "webkit_jscc", "anyregcc", "preserve_mostcc", "preserve_allcc", "cxx_fast_tlscc", "swiftcc", "tailcc", "x86_stdcallcc", "x86_fastcallcc", "arm_apcscc", "arm_aapcscc", "arm_aapcs_vfpcc", "msp430_intrcc", "x86_thiscallcc", "ptx_device", "spir_func", "intel_ocl_bicc", "x86_64_sysvcc", "win64cc", "x86_vectorcallcc", "hhvmcc", "hhvm_ccc", "x86_regcallcc", "amdgpu_gs", "cc 77", "cc 1023"}
	FnAttrs  = []string{"alwaysinline", "argmemonly", "builtin", "cold", "convergent", "hot", "inaccessiblememonly", "inaccessiblemem_or_argmemonly", "inlinehint", "jumptable", "minsize", "mustprogress", "naked", "nobuiltin", "nocallback", "nocf_check", "noduplicate", "nofree", "noimplicitfloat", "noinline", "nomerge", "nonlazybind", "noprofile", "norecurse", "noredzone", "noreturn", "nosync", "nounwind", "null_pointer_is_valid", "optforfuzzing", "optsize", "readnone", "readonly", "returns_twice", "safestack", "sanitize_address", "sanitize_hwaddress", "sanitize_memory", "sanitize_memtag", "sanitize_thread", "shadowcallstack", "speculatable", "speculative_load_hardening", "ssp", "sspreq", "sspstrong", "strictfp", "uwtable", "willreturn", "writeonly"}
)
