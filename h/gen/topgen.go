package gen

import (
	"fmt"
	"math/big"
	"strings"

	"pgregory.net/rapid"

	"verif/h/am"
)

// Module draws a module.
func Module(rt *rapid.T, cfg Cfg) (*am.Module, map[string]int) {
	// One module in twelve is large: up to 48 blocks per function, blocks of up to 24 instructions,
	// dozens of globals: three-digit local IDs, two-digit global IDs, and whatever else only shows at scale
	// (fast paths, caches and cut-offs with thresholds like 16, 32 or 64).
	if !cfg.NoScale && rapid.IntRange(0, 11).Draw(rt, "scale") == 0 {
		cfg.MaxBlocks, cfg.MaxInsts, cfg.MaxGlobals = 8*cfg.MaxBlocks, 3*cfg.MaxInsts, 6*cfg.MaxGlobals
		if cfg.UnnamedBias < 8 {
			cfg.UnnamedBias = 8
		}
		cfg.scaled = true
	}
	g := &G{rt: rt, cfg: cfg, used: map[string]bool{}, Features: map[string]int{}}
	if g.cfg.Off == nil {
		g.cfg.Off = map[string]bool{}
	}
	if cfg.scaled {
		g.feat("profile/large")
	}
	g.M = &am.Module{}
	g.M.U = GenUniverse(rt, 3)
	if cfg.Big {
		for len(g.M.U.Defs) < 8 {
			g.M.U.Defs = append(g.M.U.Defs, &am.TypeDef{Name: fmt.Sprintf("big.t%d", len(g.M.U.Defs)), Fields: []*am.Type{am.I(uint64(8 + len(g.M.U.Defs)))}})
		}
	}
	for _, d := range g.M.U.Defs {
		g.used[d.Name] = true
	}
	g.header()
	g.comdats()
	// function headers first (so that calls and address-of can refer to any function), then globals, then bodies
	nf := g.rng("nfuncs", 1, g.cfg.MaxFuncs)
	for i := 0; i < nf; i++ {
		g.M.Funcs = append(g.M.Funcs, g.funcHeader())
	}
	if g.cfg.DebugInfo && !g.off("di-arglist") && g.chance("twins", 1, 3) {
		// two definitions with the same unnamed parameter list: whatever refers to their locals from
		// metadata operands (`!DIArgList(i32 %0, i32 %1)`) is spelled identically in both
		g.twins = map[*am.Fun]bool{}
		for k := 0; k < 2; k++ {
			var f *am.Fun
			for try := 0; try < 8; try++ {
				if f = g.funcHeader(); f.Blocks == nil && !f.Decl {
					break
				}
			}
			if f.Decl {
				continue
			}
			f.Params = []*am.Param{{T: am.I32}, {T: am.I32}}
			f.Variadic = false
			g.twins[f] = true
			g.M.Funcs = append(g.M.Funcs, f)
		}
	}
	ng := g.rng("nglobals", 0, g.cfg.MaxGlobals)
	if g.cfg.Big {
		ng = g.rng("nglobalsbig", 8, 11)
	}
	for i := 0; i < ng; i++ {
		g.M.Globals = append(g.M.Globals, g.globalHeader())
	}
	for _, gl := range g.M.Globals {
		g.globalInit(gl)
	}
	g.aliases()
	g.attrGroups()
	bodies := append([]*am.Fun{}, g.M.Funcs...)
	g.ifuncs()
	for _, f := range bodies {
		if !f.Decl {
			g.funcDef(f)
		}
	}
	g.funcletFunc()
	g.blockAddrGlobal()
	g.fnAddrGlobals()
	g.gepGlobals()
	g.crossFunctionBlockAddresses() // before the use-list orders, which count the uses of block addresses
	g.useListOrders()
	g.metadata()
	if g.cfg.DebugInfo && g.chance("debuginfo", 3, 4) {
		g.debugInfo()
	}
	g.order()
	g.dsoLocalEquivalents()
	for _, d := range g.M.U.Defs {
		if typeMentions(d.Fields, map[string]bool{}, g.M.U, d.Name) {
			g.feat("type/recursive")
		}
	}
	return g.M, g.Features
}

func (g *G) header() {
	if g.chance("srcfile", 1, 3) {
		g.M.SourceFilename = g.pick("srcname", []string{"a.c", "dir/my file.cpp", "\\\"q\\\".c"})
	}
	if g.chance("triple", 1, 3) {
		g.M.Triple = g.pick("triplev", []string{"x86_64-unknown-linux-gnu", "x86_64-pc-windows-msvc", "wasm32"})
	}
	if g.chance("datalayout", 1, 4) {
		g.M.DataLayout = "e-m:e-p270:32:32-p271:32:32-p272:64:64-i64:64-f80:128-n8:16:32:64-S128"
	}
	if g.chance("modasm", 1, 6) {
		g.M.Asm = append(g.M.Asm, ".globl foo", "foo: ret # \"x\"")
	}
}

func (g *G) advNames() *AdvNames {
	if g.adv == nil {
		g.adv = NewAdvNames(g.rt, "adv")
	}
	return g.adv
}

func (g *G) comdats() {
	n := g.rng("ncomdats", 0, 2)
	if g.cfg.Big {
		n = g.rng("ncomdatsbig", 8, 10)
	}
	advCD := g.chance("cdadv", 1, 3)
	if advCD && n > 0 {
		n += 2
	}
	for i := 0; i < n; i++ {
		name := g.fresh("cd")
		if advCD {
			if a := "cd." + g.advNames().Draw(g.rt, "cdname"); !g.used[a] {
				g.used[a] = true
				name = a
			}
		}
		g.M.Comdats = append(g.M.Comdats, &am.Comdat{Name: name, Kind: g.pick("cdkind", []string{"any", "exactmatch", "largest", "nodeduplicate", "samesize"})})
	}
}

func (g *G) globalName(prefix string) string {
	if g.cfg.UnnamedGlobals && g.chance("unnamedglobal", 1, 5) {
		return ""
	}
	switch g.intn("gnstyle", 8) {
	case 0:
		return g.fresh(prefix + ".")
	case 1:
		return g.fresh("odd name ")
	case 2:
		return g.fresh("_Z3foo")
	default:
		return g.fresh(prefix)
	}
}

func (g *G) commonLinkage(decl bool) (linkage, preempt, vis, dll string) {
	if decl {
		linkage = g.pick("decllinkage", []string{"external", "external", "extern_weak"})
	} else {
		linkage = g.pick("linkage", Linkages)
	}
	local := linkage == "private" || linkage == "internal"
	if !local {
		vis = g.pick("vis", []string{"", "", "", "default", "hidden", "protected"})
		if vis == "" || vis == "default" {
			if decl {
				dll = g.pick("dlld", []string{"", "", "", "dllimport"})
			} else if linkage != "available_externally" {
				dll = g.pick("dll", []string{"", "", "", "dllexport"})
			}
		}
	}
	switch {
	case local:
		preempt = g.pick("pre1", []string{"", "dso_local"})
	case dll == "dllimport" || linkage == "extern_weak":
		preempt = ""
	case vis == "hidden" || vis == "protected":
		preempt = g.pick("pre2", []string{"", "dso_local"})
	default:
		preempt = g.pick("pre3", []string{"", "", "dso_local", "dso_preemptable"})
	}
	if dll != "" {
		if preempt == "dso_local" && dll == "dllimport" {
			preempt = ""
		}
	}
	return
}

func (g *G) funcHeader() *am.Fun {
	f := &am.Fun{Name: g.globalName("f")}
	g.localN = 0
	g.nestUsed = false
	decl := g.chance("decl", 1, 3)
	f.Linkage, f.Preemption, f.Visibility, f.DLL = g.commonLinkage(decl)
	if f.Linkage == "available_externally" && decl {
		f.Linkage = "external"
	}
	f.Ret = am.TVoid
	if g.chance("nonvoid", 2, 3) {
		if g.chance("aggret", 1, 5) {
			f.Ret = g.sizedType(1)
		} else {
			f.Ret = g.scalarType()
		}
	}
	np := g.rng("nparams", 0, 4)
	f.CC = g.pick("cc", append([]string{"", "", "", "", "", ""}, CCs...))
	if g.chance("numericcc", 1, 6) {
		// a numerically spelled convention, mostly without a keyword of its own (holes of the enumeration);
		// 1 is an open finding (cc 1), 71..100 carry verifier constraints (kernels, interrupts, shaders)
		n := []int{2, 7, 12, 21, 42, 63, 73, 74, 99, 101, 300, 512, 1022, 8, 9, 64, 65, 70}[g.intn("ccnum", 18)]
		f.CC = "cc " + itoa(n)
		g.feat("cc/numeric")
	}
	g.noByval = f.CC != "" && f.CC != "ccc" && f.CC != "fastcc"
	for i := 0; i < np; i++ {
		p := &am.Param{T: g.paramType()}
		if !decl {
			p.Name = g.localName("p")
		} else if g.chance("declparamname", 1, 4) {
			p.Name = g.fresh("dp")
		}
		g.paramAttrs(p)
		f.Params = append(f.Params, p)
	}
	f.Variadic = g.chance("variadic", 1, 6)
	if f.Variadic {
		f.CC = g.pick("vcc", []string{"", "ccc"})
	}
	if f.Ret.K == am.Int && f.Ret.Bits < 64 && g.chance("fretattr", 1, 5) {
		f.RetAttrs = []string{g.pick("frattr", []string{"zeroext", "signext", "noundef", "inreg"})}
	} else if f.Ret.K == am.Ptr && g.chance("fretattrp", 1, 5) {
		f.RetAttrs = []string{g.pick("frattrp", []string{"nonnull", "noalias", "noundef", "dereferenceable(8)", "dereferenceable_or_null(8)", "align 4"})}
		if f.RetAttrs[0] == "align 4" && g.off("retattr-align") {
			f.RetAttrs = nil
		}
	}
	f.UnnamedAddr = g.pick("fua", []string{"", "", "", "unnamed_addr", "local_unnamed_addr"})
	if g.chance("faddrspace", 1, 10) && !g.off("func-addrspace") {
		f.AddrSpace = 1
	}
	f.FnAttrs = g.fnAttrs()
	if g.chance("fsection", 1, 6) {
		f.Section = g.pick("sec", []string{".text.hot", "my sec\"tion"})
	}
	if g.chance("falign", 1, 5) {
		f.Align = 1 << uint(g.rng("falignlog", 0, 6))
	}
	if !decl {
		if g.chance("fgc", 1, 8) {
			f.GC = g.pick("gcname", []string{"statepoint-example", "shadow-stack", "erlang"})
		}
		if len(g.M.Comdats) > 0 && g.chance("fcomdat", 1, 5) && f.Linkage != "private" && f.Linkage != "internal" && f.Linkage != "available_externally" {
			f.Comdat = g.M.Comdats[g.intn("fcd", len(g.M.Comdats))]
		}
		if g.chance("personality", 1, 3) {
			f.Personality = &am.Const{K: am.CGlobal, T: nil, Ref: nil} // resolved in funcDef
		}
		if g.chance("prefix", 1, 10) {
			f.Prefix = g.intConst(am.I32)
		}
		if g.chance("prologue", 1, 10) {
			f.Prologue = g.intConst(am.I8)
		}
	} else {
		f.Linkage = map[string]string{"external": "external", "extern_weak": "extern_weak"}[f.Linkage]
		if g.chance("implicitext", 1, 2) && f.Linkage == "external" {
			f.Linkage = "" // declarations may leave 'external' implicit
		}
		f.Blocks = nil
	}
	f.Decl = decl
	return f
}

func (g *G) paramType() *am.Type {
	switch g.intn("ptclass", 8) {
	case 0:
		return g.vecType(true)
	case 1:
		return g.sizedType(1)
	case 2:
		return g.ptrType(1)
	default:
		return g.scalarType()
	}
}

func (g *G) paramAttrs(p *am.Param) {
	if !g.chance("pattrs", 1, 3) {
		return
	}
	switch p.T.K {
	case am.Int:
		if p.T.Bits < 64 {
			p.Attrs = append(p.Attrs, g.pick("pia", []string{"zeroext", "signext", "noundef", "inreg", "returned"}))
			if p.Attrs[0] == "returned" {
				p.Attrs = nil
			}
		}
	case am.Ptr:
		n := g.rng("npattrs", 1, 2)
		seen := map[string]bool{}
		for i := 0; i < n; i++ {
			a := g.pick("ppa", []string{"nonnull", "noalias", "nocapture", "noundef", "readonly", "writeonly", "readnone", "nofree", "align 16", "dereferenceable(16)", "dereferenceable_or_null(4)", "nest"})
			conflict := map[string]bool{"readonly": true, "writeonly": true, "readnone": true}
			if seen[a] || conflict[a] && (seen["readonly"] || seen["writeonly"] || seen["readnone"]) {
				continue
			}
			if a == "nest" {
				if g.nestUsed {
					continue
				}
				g.nestUsed = true
			}
			seen[a] = true
			p.Attrs = append(p.Attrs, a)
		}
		if p.T.Elem != nil && g.loadable(p.T.Elem) && g.chance("byval", 1, 6) && !seen["nest"] && !g.noByval {
			kw := g.pick("typedattr", []string{"byval", "byref", "sret", "inalloca", "preallocated"})
			if kw == "sret" || kw == "inalloca" || kw == "preallocated" {
				// at most one sret; inalloca must be last; keep it simple: only on the only pointer param → skip when others exist
				kw = "byval"
			}
			p.Attrs = append(p.Attrs, kw+"("+p.T.Elem.String()+")")
			g.feat("paramattr/" + kw)
		}
	}
}

func (g *G) fnAttrs() []string { return g.fnAttrsFor(false) }

func (g *G) fnAttrsFor(group bool) []string {
	var out []string
	if !g.chance("fnattrs", 1, 2) {
		return nil
	}
	n := g.rng("nfnattrs", 1, 3)
	seen := map[string]bool{}
	mem := false
	for i := 0; i < n; i++ {
		a := FnAttrs[g.intn("fa", len(FnAttrs))]
		switch a {
		case "readnone", "readonly", "writeonly", "argmemonly", "inaccessiblememonly", "inaccessiblemem_or_argmemonly":
			if mem {
				continue
			}
			mem = true
		case "alwaysinline":
			if seen["noinline"] || seen["optnone"] {
				continue
			}
		case "noinline":
			if seen["alwaysinline"] {
				continue
			}
		case "naked", "jumptable", "speculatable", "builtin", "nobuiltin":
			continue // extra verifier obligations
		}
		if seen[a] {
			continue
		}
		seen[a] = true
		out = append(out, a)
	}
	if g.chance("strattr", 1, 4) {
		out = append(out, g.pick("sa", []string{"\"frame-pointer\"=\"all\"", "\"no-trapping-math\"=\"true\"", "\"k\"", "\"a b\"=\"c\\22d\"", "\"goal%\"=\"50%\"", "\"fmt\"=\"%d of %s, 100%%\"", "\"%v\""}))
	}
	if g.chance("alignstack", 1, 10) {
		if group {
			out = append(out, "alignstack=16")
		} else {
			out = append(out, "alignstack(16)")
		}
	}
	if g.chance("allocsize", 1, 12) {
		out = append(out, g.pick("vsr", []string{"vscale_range(1,16)", "vscale_range(8)", "vscale_range(2,2)"}))
	}
	if g.cfg.LLVM15 && g.chance("llvm15attr", 1, 2) {
		a := g.pick("l15", []string{"uwtable(sync)", "uwtable(async)", "uwtable(async)", `allockind("alloc,zeroed")`, `allockind("free")`})
		// one unwind-table attribute per list
		var kept []string
		for _, o := range out {
			if !(strings.HasPrefix(a, "uwtable") && o == "uwtable") {
				kept = append(kept, o)
			}
		}
		out = append(kept, a)
		g.feat("top/llvm15-function-attribute")
	}
	return out
}

func (g *G) funcDef(f *am.Fun) {
	if f.Decl {
		return
	}
	if f.Personality != nil {
		// declare i32 @__gxx_personality_v0(...)
		var pf *am.Fun
		for _, x := range g.M.Funcs {
			if x.Name == "__gxx_personality_v0" {
				pf = x
			}
		}
		if pf == nil {
			pf = &am.Fun{Name: "__gxx_personality_v0", Ret: am.I32, Variadic: true, Decl: true}
			g.used[pf.Name] = true
			g.M.Funcs = append(g.M.Funcs, pf)
		}
		f.Personality = &am.Const{K: am.CGlobal, T: pf.PtrType(), Ref: pf}
		if g.chance("perscast", 1, 2) {
			f.Personality = &am.Const{K: am.CExpr, T: am.P(am.I8), Expr: &am.Expr{Op: "bitcast", To: am.P(am.I8), InRange: -1, Args: []*am.Const{f.Personality}}}
		}
	}
	g.genBody(f)
}

func (g *G) globalHeader() *am.Global {
	gl := &am.Global{Name: g.globalName("g")}
	gl.T = g.sizedType(2)
	decl := g.chance("gdecl", 1, 5)
	gl.Linkage, gl.Preemption, gl.Visibility, gl.DLL = g.commonLinkage(decl)
	if decl {
		if gl.Linkage == "" {
			gl.Linkage = "external"
		}
	}
	gl.Constant = g.chance("constant", 1, 3)
	gl.UnnamedAddr = g.pick("gua", []string{"", "", "", "unnamed_addr", "local_unnamed_addr"})
	if g.chance("gas", 1, 6) {
		gl.AddrSpace = []uint64{1, 3}[g.intn("gasv", 2)]
	}
	if g.chance("tls", 1, 6) {
		gl.TLS = g.pick("tlsm", []string{"generic", "localdynamic", "initialexec", "localexec"})
	}
	if g.chance("gsection", 1, 6) {
		gl.Section = g.pick("gsec", []string{".data.x", "sec,with,commas"})
	}
	if g.chance("galign", 1, 3) {
		gl.Align = 1 << uint(g.rng("galignlog", 0, 8))
	}
	if g.cfg.LLVM15 && g.chance("gsanitizer", 1, 5) {
		gl.Sanitizer = g.pick("gsan", []string{"no_sanitize_address", "no_sanitize_hwaddress", "sanitize_memtag", "sanitize_address_dyninit"})
		g.feat("top/llvm15-global-sanitizer")
	}
	if !g.off("global-attrs") && g.chance("gattrs", 1, 6) {
		// attributes of a global variable (LLVM 14 allows string attributes here; clang writes "bss-section" etc.)
		for k := g.rng("ngattrs", 1, 2); k > 0; k-- {
			a := g.pick("gattr", []string{`"bss-section"=".mybss"`, `"data-section"="sec,x"`, `"verif-flag"`, `"k"="100%"`, `"rodata-section"=".r"`})
			dup := false
			for _, b := range gl.Attrs {
				dup = dup || b == a
			}
			if !dup {
				gl.Attrs = append(gl.Attrs, a)
			}
		}
		g.feat("top/global-attributes")
	}
	if !decl {
		gl.Init = &am.Const{} // placeholder: filled by globalInit
		gl.ExternInit = g.chance("externinit", 1, 12)
		if len(g.M.Comdats) > 0 && g.chance("gcomdat", 1, 5) && gl.Linkage != "private" && gl.Linkage != "internal" && gl.Linkage != "available_externally" {
			gl.Comdat = g.M.Comdats[g.intn("gcd", len(g.M.Comdats))]
		}
	}
	return gl
}

func (g *G) globalInit(gl *am.Global) {
	if gl.Init == nil {
		return
	}
	gl.Init = g.constOf(gl.T, 2)
}

// aliasOfElement adds an array global in a drawn address space and an alias (or, over a function-pointer
// table, nothing) whose aliasee is a getelementptr constant expression into it.
func (g *G) aliasOfElement() {
	as := uint64([]int{0, 1, 3, 200}[g.intn("aoeas", 4)])
	et := g.intType()
	n := uint64(g.rng("aoelen", 1, 5))
	at := am.A(n, et)
	base := &am.Global{Name: g.globalName("aoe"), T: at, AddrSpace: as, Linkage: g.pick("aoelink", []string{"internal", "private", ""}), Init: &am.Const{K: am.CZero, T: at}}
	g.M.Globals = append(g.M.Globals, base)
	idx := func(t *am.Type, v int64) *am.Const { return &am.Const{K: am.CInt, T: t, Int: big.NewInt(v)} }
	it := []*am.Type{am.I32, am.I64}[g.intn("aoeidxt", 2)]
	a := &am.Alias{Name: g.globalName("al"), T: et, AddrSpace: as}
	a.Aliasee = &am.Const{K: am.CExpr, T: am.PA(et, as), Expr: &am.Expr{Op: "getelementptr", ElemT: at, InBounds: g.chance("aoeinb", 1, 2), InRange: -1,
		Args: []*am.Const{{K: am.CGlobal, T: base.PtrType(), Ref: base}, idx(it, 0), idx(it, int64(g.intn("aoeidx", int(n))))}}}
	a.Linkage = g.pick("aoeallink", []string{"", "private", "internal", "weak"})
	a.BareExpr = g.chance("aoebare", 1, 2)
	g.M.Aliases = append(g.M.Aliases, a)
	g.feat("top/alias-of-gep")
}

func (g *G) aliases() {
	if g.chance("aliasofelement", 1, 4) {
		g.aliasOfElement()
	}
	n := g.rng("naliases", 0, 2)
	for i := 0; i < n; i++ {
		x, xt := g.anyGlobal()
		if x == nil {
			return
		}
		// aliasee must be a definition
		switch x := x.(type) {
		case *am.Global:
			if x.Init == nil {
				continue
			}
		case *am.Fun:
			if x.Decl || x.Linkage == "available_externally" {
				continue
			}
		}
		if gl, ok := x.(*am.Global); ok && gl.Linkage == "available_externally" {
			continue
		}
		a := &am.Alias{Name: g.globalName("al"), T: xt.Elem, AddrSpace: xt.AddrSpace}
		a.Aliasee = &am.Const{K: am.CGlobal, T: xt, Ref: x}
		if gl, ok := x.(*am.Global); ok && gl.T.K == am.Array && gl.T.Len > 0 && g.chance("aliasgep", 1, 2) {
			// alias of an element: getelementptr constant expression over the global, in its address space
			idx := func(v int64) *am.Const { return &am.Const{K: am.CInt, T: am.I64, Int: big.NewInt(v)} }
			et := am.PA(gl.T.Elem, gl.AddrSpace)
			a.T = gl.T.Elem
			a.Aliasee = &am.Const{K: am.CExpr, T: et, Expr: &am.Expr{Op: "getelementptr", ElemT: gl.T, InBounds: g.chance("aliasgepinb", 1, 2), InRange: -1,
				Args: []*am.Const{{K: am.CGlobal, T: xt, Ref: x}, idx(0), idx(int64(g.intn("aliasgepidx", int(gl.T.Len))))}}}
			a.BareExpr = g.chance("aliasgepbare", 1, 2)
			g.feat("top/alias-of-gep")
		}
		a.Linkage = g.pick("allink", []string{"", "private", "internal", "weak", "weak_odr", "linkonce", "linkonce_odr", "external"})
		if a.Linkage != "private" && a.Linkage != "internal" {
			a.Visibility = g.pick("alvis", []string{"", "", "hidden", "protected"})
		}
		a.UnnamedAddr = g.pick("alua", []string{"", "", "unnamed_addr", "local_unnamed_addr"})
		if a.Name == "" && false {
			continue
		}
		g.M.Aliases = append(g.M.Aliases, a)
		g.feat("top/alias")
	}
}

// ifuncs adds indirect functions: `@i = ifunc FT, FT* ()* @resolver` with a hand-written resolver
// definition that returns the address of an existing function of type FT (LLVM 14 wants the resolver
// to be a definition of type `FT* ()`), and sometimes a global that takes the ifunc's address.
// Called after the headers and before the bodies, so that bodies can refer to the ifuncs.
func (g *G) ifuncs() {
	if g.off("ifunc") || !g.chance("ifuncs", 1, 4) {
		return
	}
	var cands []*am.Fun
	for _, f := range g.M.Funcs {
		if f.AddrSpace == 0 {
			cands = append(cands, f)
		}
	}
	if len(cands) == 0 {
		return
	}
	if g.prebuilt == nil {
		g.prebuilt = map[*am.Fun]bool{}
	}
	for k := g.rng("nifuncs", 1, 2); k > 0; k-- {
		target := cands[g.intn("ifunctarget", len(cands))]
		ft := target.FuncType()
		res := &am.Fun{Name: g.globalName("resolver"), Ret: am.P(ft), Linkage: g.pick("reslink", []string{"internal", "private", ""})}
		blk := &am.Block{Func: res, Index: 0}
		if g.chance("resentryname", 1, 2) {
			blk.Name = "entry"
		}
		blk.Term = &am.Inst{Op: "ret", Args: []*am.Value{{K: am.VConst, C: &am.Const{K: am.CGlobal, T: target.PtrType(), Ref: target}}}}
		res.Blocks = []*am.Block{blk}
		g.prebuilt[res] = true
		g.M.Funcs = append(g.M.Funcs, res)
		a := &am.Alias{Name: g.globalName("ifn"), T: ft, IFunc: true}
		a.Aliasee = &am.Const{K: am.CGlobal, T: res.PtrType(), Ref: res}
		a.Linkage = g.pick("iflink", []string{"", "private", "internal", "weak", "weak_odr", "linkonce", "linkonce_odr", "external"})
		if a.Linkage != "private" && a.Linkage != "internal" {
			a.Visibility = g.pick("ifvis", []string{"", "", "hidden", "protected"})
		}
		g.M.Aliases = append(g.M.Aliases, a)
		g.feat("top/ifunc")
		if g.chance("ifuncuser", 1, 2) {
			g.M.Globals = append(g.M.Globals, &am.Global{Name: g.globalName("ifuser"), T: am.P(ft), Linkage: "internal", Init: &am.Const{K: am.CGlobal, T: am.P(ft), Ref: a}})
			g.feat("top/ifunc-address-taken")
		}
	}
}

func (g *G) attrGroups() {
	n := g.rng("nattrgroups", 0, 2)
	if g.cfg.Big {
		n = g.rng("nattrgroupsbig", 8, 10)
	}
	for i := 0; i < n; i++ {
		ag := &am.AttrGroup{ID: 0, Attrs: g.fnAttrsFor(true)}
		if len(g.M.AttrGroups) > 0 {
			ag.ID = g.M.AttrGroups[len(g.M.AttrGroups)-1].ID + g.rng("agstride", 1, 3)
		}
		if len(ag.Attrs) == 0 {
			ag.Attrs = []string{"nounwind"}
		}
		g.M.AttrGroups = append(g.M.AttrGroups, ag)
	}
	if len(g.M.AttrGroups) == 0 {
		return
	}
	for _, f := range g.M.Funcs {
		if g.chance("useag", 1, 3) {
			ag := g.M.AttrGroups[g.intn("ag", len(g.M.AttrGroups))]
			// avoid conflicts between the function's own attributes and the group's
			f.FnAttrs = nil
			f.AttrGroup = ag
		}
	}
}

// metadata adds simple generic metadata: tuples, strings, value-as-metadata, named metadata and attachments.
func (g *G) metadata() {
	if !g.cfg.Big && !g.cfg.ForceMD && (!g.chance("md", 1, 2) || g.off("metadata")) {
		return
	}
	n := g.rng("nmd", 1, 5)
	if g.cfg.Big {
		n = g.rng("nmdbig", 8, 12)
	}
	for i := 0; i < n; i++ {
		node := &am.MDNode{ID: i, Distinct: g.chance("distinct", 1, 4)}
		g.M.MDs = append(g.M.MDs, node)
	}
	for i, node := range g.M.MDs {
		nf := g.rng("nmdfields", 0, 4)
		for k := 0; k < nf; k++ {
			switch g.intn("mdfield", 6) {
			case 0:
				node.Fields = append(node.Fields, &am.MDField{K: am.MDNull})
			case 1:
				node.Fields = append(node.Fields, &am.MDField{K: am.MDString, Str: g.pick("mdstr", []string{"", "hello", "a\"b\\c", "\x00\xff"})})
			case 2:
				node.Fields = append(node.Fields, &am.MDField{K: am.MDValue, C: g.intConst(g.intType())})
			case 3, 4:
				// reference (forward, backward or self for distinct nodes)
				j := g.intn("mdref", len(g.M.MDs))
				if j == i && !node.Distinct {
					j = (i + 1) % len(g.M.MDs)
				}
				if j == i && !node.Distinct {
					continue
				}
				if !node.Distinct && g.reaches(g.M.MDs[j], node, map[*am.MDNode]bool{}) {
					continue // uniqued nodes cannot be part of a cycle
				}
				if j == i || g.reaches(g.M.MDs[j], node, map[*am.MDNode]bool{}) {
					g.feat("md/cycle")
				}
				if j > i {
					g.feat("md/forward-ref")
				}
				node.Fields = append(node.Fields, &am.MDField{K: am.MDRef, Node: g.M.MDs[j]})
			default:
				inl := &am.MDNode{ID: -1}
				inl.Fields = append(inl.Fields, &am.MDField{K: am.MDValue, C: &am.Const{K: am.CInt, T: am.I32, Int: big.NewInt(int64(k))}})
				node.Fields = append(node.Fields, &am.MDField{K: am.MDInline, Node: inl})
			}
		}
	}
	nn := g.rng("nnamedmd", 0, 2)
	if g.cfg.Big {
		nn = g.rng("nnamedmdbig", 8, 10)
	}
	advNMD := g.chance("nmdadv", 1, 3)
	if advNMD {
		nn += 2
	}
	for i := 0; i < nn; i++ {
		nm := &am.NamedMD{Name: g.pick("nmdname", []string{"my.md", "foo", "llvm.ident", "odd name", "x.9"}) + itoa(i)}
		if advNMD {
			if a := "nmd." + g.advNames().Draw(g.rt, "nmdadvname"); !g.used[a] {
				g.used[a] = true
				nm.Name = a
			}
		}
		for k := g.rng("nnmdnodes", 0, 3); k > 0; k-- {
			nm.Nodes = append(nm.Nodes, &am.MDField{K: am.MDRef, Node: g.M.MDs[g.intn("nmdref", len(g.M.MDs))]})
		}
		g.M.NamedMDs = append(g.M.NamedMDs, nm)
	}
	// attachments on instructions, functions and globals
	att := func() *am.Attachment {
		kind := g.pick("attkind", []string{"foo", "my.md", "bar.baz"})
		if g.chance("inlineatt", 1, 4) {
			return &am.Attachment{Kind: kind, Node: &am.MDField{K: am.MDInline, Node: &am.MDNode{ID: -1}}}
		}
		return &am.Attachment{Kind: kind, Node: &am.MDField{K: am.MDRef, Node: g.M.MDs[g.intn("attref", len(g.M.MDs))]}}
	}
	for _, f := range g.M.Funcs {
		if f.Blocks != nil && g.chance("fatt", 1, 4) {
			f.MD = append(f.MD, att())
			// global objects (unlike instructions) may carry several attachments of one kind: `!type !1, !type !2`
			for k := g.rng("fattmore", 0, 2); k > 0; k-- {
				f.MD = append(f.MD, att())
				g.feat("attachment/several-on-function")
			}
		}
		for _, b := range f.Blocks {
			for _, in := range append(append([]*am.Inst{}, b.Insts...), b.Term) {
				if in.Op == "freeze" && g.cfg.Off["freeze-metadata"] {
					continue // counted when the attachment would have been drawn
				}
				if g.chance("iatt", 1, 8) {
					in.MD = append(in.MD, att())
					if g.chance("iatt2", 1, 3) {
						a2 := att()
						if a2.Kind != in.MD[0].Kind {
							in.MD = append(in.MD, a2)
						}
					}
				}
			}
		}
	}
	for _, gl := range g.M.Globals {
		if g.chance("gatt", 1, 5) {
			gl.MD = append(gl.MD, att())
			for k := g.rng("gattmore", 0, 2); k > 0; k-- {
				gl.MD = append(gl.MD, att())
				g.feat("attachment/several-on-global")
			}
		}
	}
	g.feat("top/metadata")
}

func (g *G) reaches(from, to *am.MDNode, seen map[*am.MDNode]bool) bool {
	if from == to {
		return true
	}
	if seen[from] {
		return false
	}
	seen[from] = true
	for _, f := range from.Fields {
		if (f.K == am.MDRef || f.K == am.MDInline) && g.reaches(f.Node, to, seen) {
			return true
		}
	}
	return false
}

// order draws the textual order of top-level entities.
func (g *G) order() {
	m := g.M
	var o []am.Top
	add := func(k am.TopKind, n int) {
		for i := 0; i < n; i++ {
			o = append(o, am.Top{K: k, Idx: i})
		}
	}
	add(am.TopAsm, len(m.Asm))
	ntd := len(m.U.Defs)
	add(am.TopComdat, len(m.Comdats))
	add(am.TopGlobal, len(m.Globals))
	add(am.TopAlias, len(m.Aliases))
	add(am.TopFunc, len(m.Funcs))
	add(am.TopAttrGroup, len(m.AttrGroups))
	add(am.TopNamedMD, len(m.NamedMDs))
	add(am.TopMD, len(m.MDs))
	if g.chance("shuffle", 1, 2) {
		// a permutation that keeps module asm lines in their relative order
		perm := rapid.Permutation(o).Draw(g.rt, "order")
		var asmIdx []int
		for i, t := range perm {
			if t.K == am.TopAsm {
				asmIdx = append(asmIdx, i)
			}
		}
		k := 0
		for _, i := range asmIdx {
			perm[i] = am.Top{K: am.TopAsm, Idx: k}
			k++
		}
		o = perm
		g.feat("top/shuffled-order")
	}
	// type definitions come first (LLVM resolves struct initialisers against the body known so far),
	// in a drawn order among themselves
	var tds []am.Top
	for i := 0; i < ntd; i++ {
		tds = append(tds, am.Top{K: am.TopTypeDef, Idx: i})
	}
	if ntd > 1 && g.chance("shuffletypes", 1, 2) {
		tds = rapid.Permutation(tds).Draw(g.rt, "typeorder")
	}
	o = append(tds, o...)
	m.Order = o
}

// DrawNoise draws spelling noise for the text emitter.
// inlineKinds are the node kinds that may be written inline inside another node.
var inlineKinds = []string{"", "DISubrange", "DIEnumerator", "DIBasicType", "DIDerivedType", "DISubroutineType", "DIFile", "DITemplateTypeParameter", "DITemplateValueParameter", "DILocation", "DILexicalBlockFile", "DINamespace", "DIStringType", "DIObjCProperty", "DIGlobalVariableExpression", "DILabel", "DIImportedEntity", "DIMacro"}

func DrawNoise(rt *rapid.T) am.Noise {
	inl := map[string]bool{}
	if rapid.IntRange(0, 2).Draw(rt, "n.inlinemd") == 0 {
		for _, k := range inlineKinds {
			if rapid.IntRange(0, 2).Draw(rt, "n.inlinekind") == 0 {
				inl[k] = true
			}
		}
	}
	return am.Noise{
		InlineMD:        inl,
		LeadingZeros:    rapid.IntRange(0, 3).Draw(rt, "n.leadingzeros") == 0,
		EmptyQuoted:     rapid.IntRange(0, 4).Draw(rt, "n.emptyquoted") == 0,
		OctalLookalikes: rapid.Bool().Draw(rt, "n.octallookalikes"),
		AlwaysQuote:     rapid.IntRange(0, 3).Draw(rt, "n.quote") == 0,
		EscapePrintable: rapid.IntRange(0, 3).Draw(rt, "n.escape") == 0,
		Explicit:        rapid.Bool().Draw(rt, "n.explicit"),
		Comments:        rapid.IntRange(0, 2).Draw(rt, "n.comments") == 0,
		FullCallType:    rapid.Bool().Draw(rt, "n.fullcalltype"),
		OverwideInts:    rapid.IntRange(0, 3).Draw(rt, "n.overwideints") == 0,
		HexInts:         rapid.IntRange(0, 3).Draw(rt, "n.hexints") == 0,
		SplitAttrGroups: rapid.IntRange(0, 2).Draw(rt, "n.splitattrgroups") == 0,
		Indent:          rapid.SampledFrom([]string{"", "\t", "        ", " "}).Draw(rt, "n.indent"),
	}
}

// DrawNoiseWithAliases is DrawNoise plus, in one case out of three, non-struct type aliases and alias
// chains for some scalar types (only for checks that do not compare type spellings with the model).
func DrawNoiseWithAliases(rt *rapid.T) am.Noise {
	n := DrawNoise(rt)
	if rapid.IntRange(0, 2).Draw(rt, "n.typealias") == 0 {
		n.TypeAlias = map[string][]string{}
		for _, base := range []string{"i8", "i16", "i32", "i64", "half", "float", "double"} { // not i1: the grammar of github.com/llir/ll wants a literal `i1` in `br i1`
			if rapid.IntRange(0, 2).Draw(rt, "n.aliasbase") == 0 {
				var chain []string
				for k := rapid.IntRange(1, 3).Draw(rt, "n.aliaschain"); k > 0; k-- {
					chain = append(chain, fmt.Sprintf("$al%d.%s", k, base)) // `$` sorts before every other name: see KF-C01-nonstruct-named-type-order
				}
				n.TypeAlias[base] = chain
			}
		}
	}
	// named function types at call sites, in modules that spell their scalar types plainly (the alias
	// definition spells its parameter types plainly, too)
	if n.TypeAlias == nil {
		n.FnAlias = rapid.IntRange(0, 2).Draw(rt, "n.fnalias") == 0
	}
	// named fixed and scalable vector types (`%$v0 = type <vscale x 4 x i32>`)
	if !n.FnAlias {
		n.VecAlias = rapid.IntRange(0, 2).Draw(rt, "n.vecalias") == 0
	}
	return n
}

// SparseMetadataIDs renumbers the module's metadata nodes with a drawn injective map (sparse, permuted IDs).
func SparseMetadataIDs(rt *rapid.T, m *am.Module) {
	if len(m.MDs) == 0 {
		return
	}
	perm := rapid.Permutation(m.MDs).Draw(rt, "mdperm")
	id := 0
	// one module in six jumps to the top of the ID range on the way: LLVM takes metadata IDs up to 2^32-1
	jumpAt := -1
	if rapid.IntRange(0, 5).Draw(rt, "mdhuge") == 0 {
		jumpAt = rapid.IntRange(0, len(perm)-1).Draw(rt, "mdhugeat")
	}
	for i, n := range perm {
		id += rapid.IntRange(0, 3).Draw(rt, "mdgap")
		if i == jumpAt {
			base := []int{1<<31 - 2, 1 << 31, 1<<32 - 1 - 4*len(perm)}[rapid.IntRange(0, 2).Draw(rt, "mdhugebase")]
			if base > id {
				id = base
			}
		}
		n.ID = id
		id++
	}
}

// typeMentions reports whether the field types mention the identified struct target (through any nesting).
func typeMentions(ts []*am.Type, seen map[string]bool, u *am.Universe, target string) bool {
	for _, t := range ts {
		if t == nil {
			continue
		}
		if t.K == am.Named {
			if t.Name == target {
				return true
			}
			if !seen[t.Name] {
				seen[t.Name] = true
				if d := u.Def(t.Name); d != nil && typeMentions(d.Fields, seen, u, target) {
					return true
				}
			}
			continue
		}
		sub := append(append([]*am.Type{t.Elem, t.Ret}, t.Fields...), t.Params...)
		if typeMentions(sub, seen, u, target) {
			return true
		}
	}
	return false
}

// fnAddrGlobals adds globals initialised with `no_cfi @f`, directly and under a ptrtoint.
// (dso_local_equivalent is only produced inside function bodies, see dsoLocalEquivalents.)
func (g *G) fnAddrGlobals() {
	if g.off("fnaddr-wrappers") || len(g.M.Funcs) == 0 || !g.chance("fnaddrglobals", 1, 4) {
		return
	}
	for k := g.rng("nfnaddr", 1, 2); k > 0; k-- {
		f := g.M.Funcs[g.intn("fnaddrf", len(g.M.Funcs))]
		c := &am.Const{K: am.CNoCFI, T: f.PtrType(), Ref: f}
		t := f.PtrType()
		if g.chance("fnaddrp2i", 1, 3) {
			c = &am.Const{K: am.CExpr, T: am.I64, Expr: &am.Expr{Op: "ptrtoint", To: am.I64, Args: []*am.Const{c}, InRange: -1}}
			t = am.I64
		}
		g.M.Globals = append(g.M.Globals, &am.Global{Name: g.fresh("fnaddr"), T: t, Linkage: "internal", Constant: g.chance("fnaddrconst", 1, 2), Init: c})
		g.feat("const/no_cfi")
	}
}

// crossFunctionBlockAddresses rewrites some `i8* null` operands inside function bodies to the address of
// a block of *another* function (named or numbered, earlier or later in the text): the only way a
// function's text depends on the numbering of a different function.
func (g *G) crossFunctionBlockAddresses() {
	if g.off("cross-blockaddress") || !g.chance("crossba", 1, 3) {
		return
	}
	for _, gl := range g.M.Globals {
		if gl.Name == "" {
			return // llvm-as-14 mis-numbers forward blockaddress placeholders next to unnamed globals
		}
	}
	for _, f := range g.M.Funcs {
		if f.Name == "" {
			return
		}
	}
	for _, a := range g.M.Aliases {
		if a.Name == "" {
			return
		}
	}
	var targets []*am.Block
	for _, f := range g.M.Funcs {
		if f.AddrSpace != 0 || len(f.Blocks) < 2 {
			continue
		}
		for _, b := range f.Blocks[1:] {
			// llvm-as-14 resolves a forward blockaddress of a *numbered* block of another function to the
			// wrong block (it reads `blockaddress(@later, %2)` as some named block): only checks that do not
			// consult LLVM ask for unnamed targets
			if b.Name != "" || g.cfg.CrossBAUnnamed {
				targets = append(targets, b)
			}
		}
	}
	if len(targets) == 0 {
		return
	}
	// a store of the address into an undefined slot, appended to a drawn block of another function
	var users []*am.Fun
	for _, f := range g.M.Funcs {
		if len(f.Blocks) > 0 {
			users = append(users, f)
		}
	}
	for k := g.rng("ncrossba", 1, 3); k > 0 && len(users) > 1; k-- {
		t := targets[g.intn("crossbat", len(targets))]
		user := users[g.intn("crossbauser", len(users))]
		if user == t.Func {
			continue
		}
		blk := user.Blocks[g.intn("crossbablk", len(user.Blocks))]
		if blk.Term != nil && blk.Term.Op == "catchswitch" {
			continue // a catchswitch is the only non-phi instruction of its block
		}
		ba := &am.Const{K: am.CBlockAddr, T: am.P(am.I8), Ref: t.Func, Block: t}
		slot := &am.Const{K: am.CUndef, T: am.P(am.P(am.I8))}
		blk.Insts = append(blk.Insts, &am.Inst{Op: "store", Args: []*am.Value{{K: am.VConst, C: ba}, {K: am.VConst, C: slot}}})
		g.feat("const/blockaddress-of-other-function")
	}
}

// dsoLocalEquivalents rewrites some function addresses used inside function bodies to
// `dso_local_equivalent @f`. llvm-as-14 crashes on a forward reference to the function (LLVM's defect,
// fixed in later releases), so only functions that come earlier in the text (and in the construction
// order) are eligible, not the function itself (next to vector-bitcast constant expressions of the same
// function llvm-as-14 then writes bitcode that llvm-dis-14 cannot read: "Invalid record"); global
// initialisers never are, because the library prints globals before functions.
func (g *G) dsoLocalEquivalents() {
	if g.off("fnaddr-wrappers") {
		return
	}
	pos := map[*am.Fun]int{}
	for i, f := range g.M.Funcs {
		pos[f] = i
	}
	textPos := map[*am.Fun]int{}
	if g.M.Order == nil {
		textPos = pos
	} else {
		k := 0
		for _, t := range g.M.Order {
			if t.K == am.TopFunc {
				textPos[g.M.Funcs[t.Idx]] = k
				k++
			}
		}
	}
	for _, user := range g.M.Funcs {
		var visit func(c *am.Const)
		visit = func(c *am.Const) {
			if c == nil {
				return
			}
			if c.K == am.CGlobal {
				if f, ok := c.Ref.(*am.Fun); ok && pos[f] < pos[user] && textPos[f] < textPos[user] && g.chance("dsoeq", 1, 3) {
					c.K = am.CDSOLocalEq
					g.feat("const/dso_local_equivalent")
				}
				return
			}
			for _, e := range c.Elems {
				visit(e)
			}
			if c.Expr != nil {
				for _, a := range c.Expr.Args {
					visit(a)
				}
			}
		}
		val := func(v *am.Value) {
			if v != nil && v.K == am.VConst {
				visit(v.C)
			}
		}
		for _, b := range user.Blocks {
			insts := append([]*am.Inst{}, b.Insts...)
			if b.Term != nil {
				insts = append(insts, b.Term)
			}
			for _, in := range insts {
				for _, a := range in.Args {
					val(a)
				}
				for _, inc := range in.Incs {
					val(inc.V)
				}
				val(in.Callee)
			}
		}
	}
}

// blockAddrGlobal adds a global whose initialiser takes the address of blocks of defined functions
// (blockaddress in a global initialiser, of blocks of several functions).
func (g *G) blockAddrGlobal() {
	if !g.chance("blockaddrglobal", 1, 3) {
		return
	}
	// llvm-as-14 mis-resolves forward blockaddress references from global initialisers when the module
	// also has unnamed (numbered) globals: its placeholder for the forward reference takes a number.
	// The library prints globals before functions, so its output would hit this LLVM limitation.
	for _, gl := range g.M.Globals {
		if gl.Name == "" {
			return
		}
	}
	for _, f := range g.M.Funcs {
		if f.Name == "" {
			return
		}
	}
	for _, a := range g.M.Aliases {
		if a.Name == "" {
			return
		}
	}
	var elems []*am.Const
	for _, f := range g.M.Funcs {
		if f.AddrSpace != 0 || f.Name == "" {
			continue // llvm-as cannot resolve blockaddress of unnamed functions / numbered blocks from outside the function
		}
		for bi, b := range f.Blocks {
			if bi > 0 && b.Name != "" && g.chance("takeaddr", 1, 2) && len(elems) < 4 {
				elems = append(elems, &am.Const{K: am.CBlockAddr, T: am.P(am.I8), Ref: f, Block: b})
			}
		}
	}
	if len(elems) == 0 {
		return
	}
	t := am.A(uint64(len(elems)), am.P(am.I8))
	gl := &am.Global{Name: g.fresh("blockaddrs"), T: t, Linkage: "internal", Constant: true, Init: &am.Const{K: am.CArray, T: t, Elems: elems}}
	g.M.Globals = append(g.M.Globals, gl)
	g.feat("const/blockaddress-in-global")
}

// gepGlobals adds globals whose initialiser is a getelementptr constant expression with varied index
// forms (any integer width, i1, inrange, constant-expression and vector indices); the global's type is
// the reference result type of the expression.
func (g *G) gepGlobals() {
	n := g.rng("ngepglobals", 0, 2)
	if g.cfg.GEPBias {
		n = g.rng("ngepglobalsbias", 2, 5)
	}
	for k := 0; k < n; k++ {
		var cands []*am.Global
		for _, gl := range g.M.Globals {
			if gl.T.K == am.Array || gl.T.K == am.Struct || gl.T.K == am.Named || gl.T.K == am.Vec {
				cands = append(cands, gl)
			}
		}
		if len(cands) == 0 {
			return
		}
		base := cands[g.intn("gepbaseglobal", len(cands))]
		e := &am.Expr{Op: "getelementptr", ElemT: base.T, InBounds: g.chance("cinb", 1, 2), InRange: -1,
			Args: []*am.Const{{K: am.CGlobal, T: base.PtrType(), Ref: base}}}
		var idx []am.GEPIndex
		t := base.T
		vlen := uint64(0)
		nidx := g.rng("ncgepidx", 1, 4)
		if g.chance("cgepnoidx", 1, 10) {
			nidx = 0
			g.feat("gep/no-index-constant")
		}
		for i := 0; i < nidx; i++ {
			gi := am.GEPIndex{}
			var c *am.Const
			if i > 0 {
				if fs, _, isStruct := g.body(t); isStruct {
					if len(fs) == 0 {
						break
					}
					f := g.intn("cfield", len(fs))
					c = &am.Const{K: am.CInt, T: am.I32, Int: big.NewInt(int64(f))}
					gi.HasVal, gi.Val = true, int64(f)
					if vlen != 0 && g.chance("csplat", 1, 2) {
						vc := &am.Const{K: am.CVector, T: am.V(vlen, am.I32)}
						for j := uint64(0); j < vlen; j++ {
							vc.Elems = append(vc.Elems, c)
						}
						c = vc
						gi.VecLen = vlen
					}
					if f == 0 && g.chance("czeroidx", 1, 3) {
						c = &am.Const{K: am.CZero, T: c.T}
						g.feat("gep/struct-index-zeroinitializer")
					}
					t = fs[f]
					e.Args = append(e.Args, c)
					idx = append(idx, gi)
					continue
				} else if t.K != am.Array && t.K != am.Vec {
					break
				}
				t = t.Elem
			}
			it := []*am.Type{am.I64, am.I32, am.I8, am.I16, am.I1, am.I(128)}[g.intn("cgepit", 6)]
			switch {
			case vlen == 0 && g.chance("cnewvec", 1, 4):
				vlen = []uint64{2, 3, 4}[g.intn("cvl", 3)]
				c = g.vecIndexConst(am.V(vlen, it))
				gi.VecLen = vlen
			case vlen != 0 && g.chance("cvecidx", 1, 2):
				c = g.vecIndexConst(am.V(vlen, it))
				gi.VecLen = vlen
			default:
				c = g.constOf(it, 1)
			}
			if i > 0 && e.InRange < 0 && vlen == 0 && g.chance("inrange", 1, 6) && !g.off("gep-inrange") {
				e.InRange = len(e.Args)
			}
			e.Args = append(e.Args, c)
			idx = append(idx, gi)
		}
		rt, err := am.GEPType(g.M.U, base.T, base.PtrType(), idx)
		if err != nil {
			continue
		}
		gl := &am.Global{Name: g.fresh("gepc"), T: rt, Linkage: "internal", Init: &am.Const{K: am.CExpr, T: rt, Expr: e}}
		g.M.Globals = append(g.M.Globals, gl)
		g.feat("constexpr/getelementptr-rich")
		if vlen != 0 {
			g.feat("gep/vector-constexpr")
		}
	}
}

// vecIndexConst draws a constant vector index in each of its forms: literal, splat, zeroinitializer, undef, poison.
func (g *G) vecIndexConst(t *am.Type) *am.Const {
	switch g.intn("vecidxform", 6) {
	case 0:
		return &am.Const{K: am.CZero, T: t}
	case 1:
		return &am.Const{K: am.CUndef, T: t}
	case 2:
		return &am.Const{K: am.CPoison, T: t}
	case 3: // splat
		e := g.intConst(t.Elem)
		c := &am.Const{K: am.CVector, T: t}
		for i := uint64(0); i < t.Len; i++ {
			c.Elems = append(c.Elems, e)
		}
		return c
	case 4: // literal with an undef element
		c := &am.Const{K: am.CVector, T: t}
		for i := uint64(0); i < t.Len; i++ {
			if i == 0 {
				c.Elems = append(c.Elems, &am.Const{K: am.CUndef, T: t.Elem})
			} else {
				c.Elems = append(c.Elems, g.intConst(t.Elem))
			}
		}
		return c
	}
	c := &am.Const{K: am.CVector, T: t}
	for i := uint64(0); i < t.Len; i++ {
		c.Elems = append(c.Elems, g.intConst(t.Elem))
	}
	return c
}

// useListOrders adds uselistorder directives on values with exactly two uses: a fresh global used by two
// other fresh globals, a blockaddress constant used twice in a global initialiser, and (function level)
// a parameter or instruction result with exactly two uses inside its function.
func (g *G) useListOrders() {
	if g.off("uselistorder") || !g.chance("uselistorder", 1, 3) {
		return
	}
	m := g.M
	if g.chance("ulo-global", 1, 2) {
		base := &am.Global{Name: g.fresh("ulo"), T: am.I32, Linkage: "internal", Init: &am.Const{K: am.CInt, T: am.I32, Int: big.NewInt(0)}}
		m.Globals = append(m.Globals, base)
		for k := 0; k < 2; k++ {
			m.Globals = append(m.Globals, &am.Global{Name: g.fresh("ulo.user"), T: am.P(am.I32), Linkage: "internal", Init: &am.Const{K: am.CGlobal, T: am.P(am.I32), Ref: base}})
		}
		m.UseListOrders = append(m.UseListOrders, &am.UseListOrder{V: &am.Value{K: am.VConst, C: &am.Const{K: am.CGlobal, T: am.P(am.I32), Ref: base}}, Indices: []uint64{1, 0}})
		g.feat("uselistorder/global")
	}
	// blockaddress used exactly twice (in one fresh global), only when no unnamed globals exist (see blockAddrGlobal)
	unnamed := false
	for _, gl := range m.Globals {
		unnamed = unnamed || gl.Name == ""
	}
	for _, f := range m.Funcs {
		unnamed = unnamed || f.Name == ""
	}
	for _, a := range m.Aliases {
		unnamed = unnamed || a.Name == ""
	}
	if !unnamed && g.chance("ulo-blockaddr", 1, 2) {
		for _, f := range m.Funcs {
			if f.AddrSpace != 0 || f.Name == "" || len(f.Blocks) < 2 {
				continue
			}
			// a named non-entry block whose address is not taken anywhere else
			for bi, b := range f.Blocks {
				if bi == 0 || b.Name == "" || g.blockAddressTaken(b) {
					continue
				}
				ba := func() *am.Const { return &am.Const{K: am.CBlockAddr, T: am.P(am.I8), Ref: f, Block: b} }
				t := am.A(2, am.P(am.I8))
				m.Globals = append(m.Globals, &am.Global{Name: g.fresh("ulo.ba"), T: t, Linkage: "internal", Constant: true, Init: &am.Const{K: am.CArray, T: t, Elems: []*am.Const{ba(), ba()}}})
				m.UseListOrders = append(m.UseListOrders, &am.UseListOrder{V: &am.Value{K: am.VConst, C: ba()}, Indices: []uint64{1, 0}})
				g.feat("uselistorder/blockaddress")
				goto doneBA
			}
		}
	}
doneBA:
	// uselistorder_bb (module level only): a named block of a named function that is the target of two or
	// more terminator operands and whose address is not taken. LLVM counts one use per operand (both arms of
	// a conditional branch, every switch case), none for phi entries; numeric labels are not allowed here.
	if g.chance("ulo-bb", 1, 2) {
		for _, f := range m.Funcs {
			if f.Name == "" || len(f.Blocks) < 2 {
				continue
			}
			uses := map[*am.Block]int{}
			for _, b := range f.Blocks {
				if b.Term == nil {
					continue
				}
				for _, t := range b.Term.Targets {
					uses[t]++
				}
				for _, t := range b.Term.Handlers {
					uses[t]++
				}
			}
			for _, b := range f.Blocks {
				if n := uses[b]; n >= 2 && n <= 6 && b.Name != "" && !g.blockAddressTaken(b) {
					ix := make([]uint64, n)
					for i := range ix {
						ix[i] = uint64((i + 1) % n)
					}
					m.UseListOrders = append(m.UseListOrders, &am.UseListOrder{Fn: f, BB: b, Indices: ix})
					g.feat("uselistorder/bb")
					goto doneBB
				}
			}
		}
	}
doneBB:
	// function level: a value with exactly two uses
	for _, f := range m.Funcs {
		if f.Blocks == nil || !g.chance("ulo-local", 1, 2) {
			continue
		}
		uses := map[any]int{}
		count := func(v *am.Value) {
			if v == nil {
				return
			}
			switch v.K {
			case am.VInst:
				uses[v.I]++
			case am.VParam:
				uses[v.P]++
			case am.VMetadata:
				if v.MD != nil && v.MD.K == am.MDLocalValue {
					// a metadata use: LLVM counts it through the metadata wrapper, keep such values out
					if v.MD.Local.K == am.VInst {
						uses[v.MD.Local.I] += 100
					} else if v.MD.Local.K == am.VParam {
						uses[v.MD.Local.P] += 100
					}
				}
			}
		}
		for _, b := range f.Blocks {
			for _, in := range append(append([]*am.Inst{}, b.Insts...), b.Term) {
				for _, a := range in.Args {
					count(a)
				}
				count(in.Callee)
				count(in.ParentPad)
				for _, inc := range in.Incs {
					count(inc.V)
				}
				for _, bd := range in.Bundles {
					for _, a := range bd.Args {
						count(a)
					}
				}
			}
		}
		for _, p := range f.Params {
			if uses[p] == 2 {
				f.UseListOrders = append(f.UseListOrders, &am.UseListOrder{V: &am.Value{K: am.VParam, P: p}, Indices: []uint64{1, 0}})
				g.feat("uselistorder/local")
				break
			}
		}
		if len(f.UseListOrders) == 0 {
			for _, b := range f.Blocks {
				for _, in := range b.Insts {
					if in.HasValue() && uses[in] == 2 && len(f.UseListOrders) == 0 {
						f.UseListOrders = append(f.UseListOrders, &am.UseListOrder{V: &am.Value{K: am.VInst, I: in}, Indices: []uint64{1, 0}})
						g.feat("uselistorder/local")
					}
				}
			}
		}
	}
}

// blockAddressTaken reports whether a blockaddress of b occurs in any instruction or initialiser generated so far.
func (g *G) blockAddressTaken(b *am.Block) bool {
	taken := false
	var inConst func(c *am.Const)
	inConst = func(c *am.Const) {
		if c == nil {
			return
		}
		if c.K == am.CBlockAddr && c.Block == b {
			taken = true
		}
		for _, e := range c.Elems {
			inConst(e)
		}
		if c.Expr != nil {
			for _, a := range c.Expr.Args {
				inConst(a)
			}
		}
	}
	for _, gl := range g.M.Globals {
		inConst(gl.Init)
	}
	for _, f := range g.M.Funcs {
		for _, blk := range f.Blocks {
			for _, in := range append(append([]*am.Inst{}, blk.Insts...), blk.Term) {
				for _, a := range in.Args {
					if a != nil && a.K == am.VConst {
						inConst(a.C)
					}
				}
			}
		}
	}
	return taken
}

// funcletFunc adds a function built from a Windows-EH (funclet) skeleton: invoke → catchswitch with
// one or two catchpads, catchret, an optional nested cleanuppad reached from an invoke inside a
// handler, and a cleanuppad with cleanupret to the caller or to another pad.
func (g *G) funcletFunc() {
	if g.off("funclet") || !g.chance("funclet", 1, 4) {
		return
	}
	m := g.M
	var pers *am.Fun
	for _, x := range m.Funcs {
		if x.Name == "__CxxFrameHandler3" {
			pers = x
		}
	}
	if pers == nil {
		pers = &am.Fun{Name: "__CxxFrameHandler3", Ret: am.I32, Variadic: true, Decl: true}
		g.used[pers.Name] = true
		m.Funcs = append(m.Funcs, pers)
	}
	callee := g.declareHelper()
	f := &am.Fun{Name: g.globalName("funclet"), Ret: am.TVoid, Personality: &am.Const{K: am.CGlobal, T: pers.PtrType(), Ref: pers}}
	g.localN = 2000
	blk := func(prefix string) *am.Block {
		b := &am.Block{Func: f, Index: len(f.Blocks), Name: g.localName(prefix)}
		f.Blocks = append(f.Blocks, b)
		return b
	}
	entry, cs, h1, ok, cl := blk("entry"), blk("cs"), blk("h"), blk("ok"), blk("cl")
	if entry.Name == "" && g.chance("entryunnamed", 1, 2) {
		entry.Name = ""
	}
	fnv := &am.Value{K: am.VConst, C: &am.Const{K: am.CGlobal, T: callee.PtrType(), Ref: callee}}
	none := &am.Value{K: am.VConst, C: &am.Const{K: am.CNone, T: am.TToken}}
	inv := func(norm, unw *am.Block, pad *am.Inst) *am.Inst {
		t := &am.Inst{Op: "invoke", Callee: fnv, FnT: callee.FuncType(), T: am.TVoid, Targets: []*am.Block{norm, unw}}
		if pad != nil {
			t.Bundles = []*am.Bundle{{Tag: "funclet", Args: []*am.Value{{K: am.VInst, I: pad}}}}
		}
		return t
	}
	entry.Term = inv(ok, cs, nil)
	csw := &am.Inst{Op: "catchswitch", T: am.TToken, Name: g.localName("cs"), ParentPad: none, Handlers: []*am.Block{h1}}
	toCaller := g.chance("cs-to-caller", 1, 2)
	if toCaller {
		csw.UnwindToCaller = true
	} else {
		csw.Targets = []*am.Block{cl}
	}
	cs.Term = csw
	cp := &am.Inst{Op: "catchpad", T: am.TToken, Name: g.localName("cp"), ParentPad: &am.Value{K: am.VInst, I: csw}}
	if g.chance("cpargs", 1, 2) {
		cp.Args = []*am.Value{{K: am.VConst, C: &am.Const{K: am.CNull, T: am.P(am.I8)}}, {K: am.VConst, C: &am.Const{K: am.CInt, T: am.I32, Int: big.NewInt(64)}}, {K: am.VConst, C: &am.Const{K: am.CNull, T: am.P(am.I8)}}}
	}
	h1.Insts = append(h1.Insts, cp)
	if g.chance("nested", 1, 2) {
		// invoke inside the handler, unwinding to a nested cleanup pad
		h1ok, cl2 := blk("hok"), blk("cl2")
		h1.Term = inv(h1ok, cl2, cp)
		h1ok.Term = &am.Inst{Op: "catchret", Args: []*am.Value{{K: am.VInst, I: cp}}, Targets: []*am.Block{ok}}
		p2 := &am.Inst{Op: "cleanuppad", T: am.TToken, Name: g.localName("p"), ParentPad: &am.Value{K: am.VInst, I: cp}}
		cl2.Insts = append(cl2.Insts, p2)
		cr := &am.Inst{Op: "cleanupret", Args: []*am.Value{{K: am.VInst, I: p2}}}
		if toCaller {
			cr.UnwindToCaller = true
		} else {
			cr.Targets = []*am.Block{cl}
		}
		cl2.Term = cr
	} else {
		h1.Term = &am.Inst{Op: "catchret", Args: []*am.Value{{K: am.VInst, I: cp}}, Targets: []*am.Block{ok}}
	}
	if g.chance("secondhandler", 1, 2) {
		h2 := blk("h2")
		csw.Handlers = append(csw.Handlers, h2)
		cp2 := &am.Inst{Op: "catchpad", T: am.TToken, Name: g.localName("cp"), ParentPad: &am.Value{K: am.VInst, I: csw}}
		h2.Insts = append(h2.Insts, cp2)
		h2.Term = &am.Inst{Op: "catchret", Args: []*am.Value{{K: am.VInst, I: cp2}}, Targets: []*am.Block{ok}}
	}
	ok.Term = &am.Inst{Op: "ret"}
	p := &am.Inst{Op: "cleanuppad", T: am.TToken, Name: g.localName("p"), ParentPad: none}
	for k := g.rng("npadargs", 0, 3); k > 0; k-- {
		p.Args = append(p.Args, &am.Value{K: am.VConst, C: &am.Const{K: am.CInt, T: am.I32, Int: big.NewInt(int64(k))}})
	}
	cl.Insts = append(cl.Insts, p)
	if toCaller {
		// cl is not a successor of the catchswitch: reach it from an invoke in the ok path instead
		ok2 := blk("ok2")
		ok.Term = inv(ok2, cl, nil)
		ok2.Term = &am.Inst{Op: "ret"}
	}
	cl.Term = &am.Inst{Op: "cleanupret", Args: []*am.Value{{K: am.VInst, I: p}}, UnwindToCaller: true}
	m.Funcs = append(m.Funcs, f)
	g.feat("term/catchswitch")
	g.feat("inst/catchpad")
	g.feat("inst/cleanuppad")
	g.feat("term/catchret")
	g.feat("term/cleanupret")
}
