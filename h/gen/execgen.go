package gen

import (
	"fmt"
	"math/big"
	"strings"

	"pgregory.net/rapid"

	"verif/h/am"
)

// Executable programs (C03: "executing it gives the result the construction calls imply").
//
// ExecProgram draws a module with a function @main whose every value is computed twice: as an
// abstract instruction of the module, and concretely, at generation time, by the reference semantics
// below (wrapping two's-complement arithmetic on integers of width 1..64, comparisons, selects,
// casts, stack slots, aggregate and vector element access, phis along the edge that is taken, calls
// of helper functions). Undefined behaviour is avoided by construction (no division by zero or
// overflowing signed division, shift amounts below the width, loads of initialised cells only,
// no flags that could produce poison unless their condition holds). @main prints a selection of the
// values with printf; the expected standard output is returned with the module.

type ev struct {
	v *am.Value
	t *am.Type
	x uint64 // the concrete value, zero-extended, masked to the width
}

type execGen struct {
	rt     *rapid.T
	m      *am.Module
	f      *am.Fun
	cur    *am.Block
	pool   []ev
	n      int
	printf *am.Fun
	fmtG   *am.Global
	helper map[string]*am.Fun // key: op/width
	out    strings.Builder
	feats  map[string]int
	mem    []memSlot
	inArm  bool // inside an arm of a diamond: no memory steps (the tracked memory follows the executed path only)
}

type memSlot struct {
	ptr   *am.Value // the alloca
	arr   *am.Type  // [N x iW]
	cells map[uint64]uint64
}

func mask(w uint64) uint64 {
	if w >= 64 {
		return ^uint64(0)
	}
	return (uint64(1) << w) - 1
}

func sx(x, w uint64) int64 {
	if w >= 64 {
		return int64(x)
	}
	if x>>(w-1)&1 == 1 {
		return int64(x | ^mask(w))
	}
	return int64(x)
}

func (g *execGen) intn(label string, n int) int {
	return rapid.IntRange(0, n-1).Draw(g.rt, label)
}
func (g *execGen) chance(label string, a, b int) bool { return g.intn(label, b) < a }

func (g *execGen) name(prefix string) string {
	g.n++
	if g.intn("named", 3) == 0 {
		return fmt.Sprintf("%s%d", prefix, g.n)
	}
	return ""
}

func (g *execGen) add(in *am.Inst) *am.Value {
	g.cur.Insts = append(g.cur.Insts, in)
	g.feats["exec/"+in.Op]++
	return &am.Value{K: am.VInst, I: in}
}

func (g *execGen) newBlock(prefix string) *am.Block {
	g.n++
	b := &am.Block{Func: g.f, Index: len(g.f.Blocks), Name: fmt.Sprintf("%s%d", prefix, g.n)}
	g.f.Blocks = append(g.f.Blocks, b)
	return b
}

func konst(t *am.Type, x uint64) *am.Value {
	return &am.Value{K: am.VConst, C: &am.Const{K: am.CInt, T: t, Int: new(big.Int).SetUint64(x & mask(t.Bits))}}
}

var execWidths = []uint64{1, 8, 16, 32, 64, 7, 33, 64, 32}

func (g *execGen) width() uint64 { return execWidths[g.intn("w", len(execWidths))] }

func (g *execGen) interesting(w uint64) uint64 {
	m := mask(w)
	switch g.intn("ik", 6) {
	case 0:
		return 0
	case 1:
		return 1 & m
	case 2:
		return m // -1
	case 3:
		return (uint64(1) << (w - 1)) & m // min signed
	case 4:
		return ((uint64(1) << (w - 1)) - 1) & m // max signed
	}
	return rapid.Uint64().Draw(g.rt, "rnd") & m
}

// operand returns a value of integer type iW: an existing one, or a constant.
func (g *execGen) operand(w uint64) ev {
	var c []ev
	for _, e := range g.pool {
		if e.t.K == am.Int && e.t.Bits == w {
			c = append(c, e)
		}
	}
	if len(c) > 0 && g.intn("usepool", 4) != 0 {
		return c[g.intn("pick", len(c))]
	}
	t := am.I(w)
	x := g.interesting(w)
	return ev{v: konst(t, x), t: t, x: x}
}

// value of width w that is an instruction or parameter result if possible (so that constant folding in
// LLVM's parser cannot hide an operand swap): falls back to operand().
func (g *execGen) nonConst(w uint64) ev {
	var c []ev
	for _, e := range g.pool {
		if e.t.K == am.Int && e.t.Bits == w && e.v.K != am.VConst {
			c = append(c, e)
		}
	}
	if len(c) > 0 {
		return c[g.intn("picknc", len(c))]
	}
	return g.operand(w)
}

func (g *execGen) push(v *am.Value, t *am.Type, x uint64) ev {
	e := ev{v: v, t: t, x: x & mask(t.Bits)}
	g.pool = append(g.pool, e)
	return e
}

var binops = []string{"add", "sub", "mul", "udiv", "sdiv", "urem", "srem", "shl", "lshr", "ashr", "and", "or", "xor"}

// evalBin is the reference semantics of the binary operators; ok is false when the operation would be
// undefined for these operands.
func evalBin(op string, a, b, w uint64) (r uint64, ok bool) {
	m := mask(w)
	switch op {
	case "add":
		return (a + b) & m, true
	case "sub":
		return (a - b) & m, true
	case "mul":
		return (a * b) & m, true
	case "udiv":
		if b == 0 {
			return 0, false
		}
		return a / b, true
	case "urem":
		if b == 0 {
			return 0, false
		}
		return a % b, true
	case "sdiv", "srem":
		sa, sb := sx(a, w), sx(b, w)
		if sb == 0 || (sb == -1 && a == (uint64(1)<<(w-1))&m) {
			return 0, false
		}
		if op == "sdiv" {
			return uint64(sa/sb) & m, true
		}
		return uint64(sa%sb) & m, true
	case "shl":
		if b >= w {
			return 0, false
		}
		return (a << b) & m, true
	case "lshr":
		if b >= w {
			return 0, false
		}
		return a >> b, true
	case "ashr":
		if b >= w {
			return 0, false
		}
		return uint64(sx(a, w)>>b) & m, true
	case "and":
		return a & b, true
	case "or":
		return a | b, true
	case "xor":
		return a ^ b, true
	}
	return 0, false
}

var icmpPreds = []string{"eq", "ne", "ugt", "uge", "ult", "ule", "sgt", "sge", "slt", "sle"}

func evalICmp(p string, a, b, w uint64) bool {
	sa, sb := sx(a, w), sx(b, w)
	switch p {
	case "eq":
		return a == b
	case "ne":
		return a != b
	case "ugt":
		return a > b
	case "uge":
		return a >= b
	case "ult":
		return a < b
	case "ule":
		return a <= b
	case "sgt":
		return sa > sb
	case "sge":
		return sa >= sb
	case "slt":
		return sa < sb
	}
	return sa <= sb
}

func b2u(b bool) uint64 {
	if b {
		return 1
	}
	return 0
}

// step appends one drawn computation to the current block.
func (g *execGen) step() {
	k := g.intn("step", 12)
	if k == 8 && g.inArm {
		k = 0
	}
	switch k {
	case 0, 1, 2, 3:
		w := g.width()
		a, b := g.nonConst(w), g.operand(w)
		if g.chance("swap", 1, 2) {
			a, b = b, a
		}
		op := binops[g.intn("op", len(binops))]
		r, ok := evalBin(op, a.x, b.x, w)
		if !ok {
			op = "sub"
			r, _ = evalBin(op, a.x, b.x, w)
		}
		in := &am.Inst{Op: op, T: a.t, Args: []*am.Value{a.v, b.v}, Name: g.name("b")}
		// flags whose condition holds for these operands (so no poison arises)
		switch op {
		case "add", "sub", "mul":
			full := new(big.Int)
			x, y := new(big.Int).SetUint64(a.x), new(big.Int).SetUint64(b.x)
			switch op {
			case "add":
				full.Add(x, y)
			case "sub":
				full.Sub(x, y)
			default:
				full.Mul(x, y)
			}
			if full.Sign() >= 0 && full.Cmp(new(big.Int).SetUint64(mask(w))) <= 0 && g.chance("nuw", 1, 3) {
				in.Flags = append(in.Flags, "nuw")
			}
			sfull := new(big.Int)
			sxv, syv := big.NewInt(sx(a.x, w)), big.NewInt(sx(b.x, w))
			switch op {
			case "add":
				sfull.Add(sxv, syv)
			case "sub":
				sfull.Sub(sxv, syv)
			default:
				sfull.Mul(sxv, syv)
			}
			if sfull.Cmp(big.NewInt(sx(r, w))) == 0 && g.chance("nsw", 1, 3) {
				in.Flags = append(in.Flags, "nsw")
			}
		case "udiv", "sdiv":
			back, _ := evalBin("mul", r, b.x, w)
			if back == a.x && g.chance("exact", 1, 3) {
				in.Flags = append(in.Flags, "exact")
			}
		}
		g.push(g.add(in), a.t, r)
	case 4:
		w := g.width()
		a, b := g.nonConst(w), g.operand(w)
		if g.chance("swap", 1, 2) {
			a, b = b, a
		}
		p := icmpPreds[g.intn("pred", len(icmpPreds))]
		in := &am.Inst{Op: "icmp", Pred: p, T: am.I1, Args: []*am.Value{a.v, b.v}, Name: g.name("c")}
		g.push(g.add(in), am.I1, b2u(evalICmp(p, a.x, b.x, w)))
	case 5:
		w := g.width()
		c, a, b := g.nonConst(1), g.operand(w), g.operand(w)
		in := &am.Inst{Op: "select", T: a.t, Args: []*am.Value{c.v, a.v, b.v}, Name: g.name("s")}
		r := b.x
		if c.x == 1 {
			r = a.x
		}
		g.push(g.add(in), a.t, r)
	case 6, 7:
		// casts
		from, to := g.width(), g.width()
		if from == to {
			to = from%64 + 1
		}
		a := g.nonConst(from)
		tt := am.I(to)
		op := "trunc"
		var r uint64
		if to > from {
			if g.chance("sext", 1, 2) {
				op, r = "sext", uint64(sx(a.x, from))&mask(to)
			} else {
				op, r = "zext", a.x
			}
		} else {
			r = a.x & mask(to)
		}
		in := &am.Inst{Op: op, To: tt, T: tt, Args: []*am.Value{a.v}, Name: g.name("k")}
		g.push(g.add(in), tt, r)
	case 8:
		g.memoryStep()
	case 9:
		g.aggregateStep()
	case 10:
		g.vectorStep()
	case 11:
		g.callStep()
	}
}

// memoryStep: a stack array, stores at constant indices, a load of an initialised cell.
func (g *execGen) memoryStep() {
	if len(g.mem) == 0 || g.chance("newslot", 1, 4) {
		w := g.width()
		n := uint64(g.intn("alen", 4) + 1)
		arr := am.A(n, am.I(w))
		in := &am.Inst{Op: "alloca", ElemT: arr, T: am.P(arr), Name: g.name("slot")}
		if g.chance("align", 1, 2) {
			in.Align = 8
		}
		g.mem = append(g.mem, memSlot{ptr: g.add(in), arr: arr, cells: map[uint64]uint64{}})
	}
	s := &g.mem[g.intn("slot", len(g.mem))]
	w := s.arr.Elem.Bits
	idx := uint64(g.intn("cell", int(s.arr.Len)))
	it := am.I([]uint64{32, 64, 8}[g.intn("idxw", 3)])
	gep := &am.Inst{Op: "getelementptr", ElemT: s.arr, T: am.P(s.arr.Elem), InBounds: g.chance("inb", 1, 2),
		Args: []*am.Value{s.ptr, konst(it, 0), konst(it, idx)}, Name: g.name("p")}
	p := g.add(gep)
	if _, init := s.cells[idx]; !init || g.chance("store", 1, 2) {
		v := g.operand(w)
		g.add(&am.Inst{Op: "store", Args: []*am.Value{v.v, p}})
		s.cells[idx] = v.x
	}
	ld := &am.Inst{Op: "load", ElemT: s.arr.Elem, T: s.arr.Elem, Args: []*am.Value{p}, Name: g.name("l")}
	g.push(g.add(ld), s.arr.Elem, s.cells[idx])
}

// aggregateStep: insertvalue into { iA, [2 x iB] } and extractvalue of what was inserted.
func (g *execGen) aggregateStep() {
	wa, wb := g.width(), g.width()
	st := am.S(am.I(wa), am.A(2, am.I(wb)))
	base := &am.Value{K: am.VConst, C: &am.Const{K: []am.CKind{am.CUndef, am.CZero}[g.intn("aggbase", 2)], T: st}}
	a, b := g.operand(wa), g.operand(wb)
	i1 := g.add(&am.Inst{Op: "insertvalue", T: st, Args: []*am.Value{base, a.v}, Indices: []uint64{0}, Name: g.name("agg")})
	k := uint64(g.intn("aggidx", 2))
	i2 := g.add(&am.Inst{Op: "insertvalue", T: st, Args: []*am.Value{i1, b.v}, Indices: []uint64{1, k}, Name: g.name("agg")})
	if g.chance("first", 1, 2) {
		e := g.add(&am.Inst{Op: "extractvalue", T: am.I(wa), Args: []*am.Value{i2}, Indices: []uint64{0}, Name: g.name("x")})
		g.push(e, am.I(wa), a.x)
	} else {
		e := g.add(&am.Inst{Op: "extractvalue", T: am.I(wb), Args: []*am.Value{i2}, Indices: []uint64{1, k}, Name: g.name("x")})
		g.push(e, am.I(wb), b.x)
	}
}

// vectorStep: element-wise arithmetic on <4 x iW>, read back through extractelement.
func (g *execGen) vectorStep() {
	w := []uint64{8, 16, 32, 64}[g.intn("vw", 4)]
	et := am.I(w)
	vt := am.V(4, et)
	var xs, ys [4]uint64
	cx := &am.Const{K: am.CVector, T: vt}
	for i := range xs {
		xs[i] = g.interesting(w)
		cx.Elems = append(cx.Elems, konst(et, xs[i]).C)
	}
	// second operand: a splat of a run-time value inserted lane by lane
	var cur *am.Value = &am.Value{K: am.VConst, C: &am.Const{K: am.CUndef, T: vt}}
	for i := range ys {
		e := g.operand(w)
		ys[i] = e.x
		cur = g.add(&am.Inst{Op: "insertelement", T: vt, Args: []*am.Value{cur, e.v, konst(am.I32, uint64(i))}, Name: g.name("ve")})
	}
	op := []string{"add", "sub", "mul", "xor", "and", "or"}[g.intn("vop", 6)]
	args := []*am.Value{{K: am.VConst, C: cx}, cur}
	swapped := g.chance("vswap", 1, 2)
	if swapped {
		args[0], args[1] = args[1], args[0]
	}
	r := g.add(&am.Inst{Op: op, T: vt, Args: args, Name: g.name("vr")})
	lane := g.intn("lane", 4)
	a, b := xs[lane], ys[lane]
	if swapped {
		a, b = b, a
	}
	x, _ := evalBin(op, a, b, w)
	e := g.add(&am.Inst{Op: "extractelement", T: et, Args: []*am.Value{r, konst(am.I64, uint64(lane))}, Name: g.name("vx")})
	g.push(e, et, x)
}

// callStep: a helper function `define iW @h(iW %a, iW %b)` computing one operator, called with two values.
func (g *execGen) callStep() {
	w := g.width()
	op := []string{"add", "sub", "mul", "xor", "and", "or"}[g.intn("hop", 6)]
	key := fmt.Sprintf("%s.i%d", op, w)
	h := g.helper[key]
	t := am.I(w)
	if h == nil {
		pa, pb := &am.Param{Name: "a", T: t}, &am.Param{T: t}
		h = &am.Fun{Name: "h." + key, Ret: t, Params: []*am.Param{pa, pb}, Linkage: "internal"}
		blk := &am.Block{Func: h, Index: 0}
		r := &am.Inst{Op: op, T: t, Args: []*am.Value{{K: am.VParam, P: pa}, {K: am.VParam, P: pb}}}
		blk.Insts = []*am.Inst{r}
		blk.Term = &am.Inst{Op: "ret", Args: []*am.Value{{K: am.VInst, I: r}}}
		h.Blocks = []*am.Block{blk}
		g.helper[key] = h
		g.m.Funcs = append(g.m.Funcs, h)
	}
	a, b := g.operand(w), g.operand(w)
	callee := &am.Value{K: am.VConst, C: &am.Const{K: am.CGlobal, T: h.PtrType(), Ref: h}}
	in := &am.Inst{Op: "call", T: t, Callee: callee, FnT: h.FuncType(), Args: []*am.Value{a.v, b.v}, Name: g.name("r")}
	x, _ := evalBin(op, a.x, b.x, w)
	g.push(g.add(in), t, x)
}

// diamond: a conditional branch or a switch on a known value, a few steps on every arm, a phi at the join.
func (g *execGen) diamond() {
	w := g.width()
	pre := len(g.pool)
	join := g.newBlock("join")
	type arm struct {
		b   *am.Block
		val ev
	}
	var arms []arm
	taken := 0
	mkArm := func() arm {
		b := g.newBlock("arm")
		g.cur = b
		g.inArm = true
		for i := g.intn("armsteps", 3) + 1; i > 0; i-- {
			g.step()
		}
		g.inArm = false
		v := g.operand(w)
		b.Term = &am.Inst{Op: "br", Targets: []*am.Block{join}}
		return arm{b: b, val: v}
	}
	head := g.cur
	if g.chance("switch", 1, 3) {
		sw := g.nonConst([]uint64{8, 32, 64}[g.intn("sww", 3)])
		c1, c2 := g.interesting(sw.t.Bits), g.interesting(sw.t.Bits)
		switch g.intn("hit", 3) { // the value is known: let it hit the first case, the second, or (mostly) the default
		case 0:
			c1 = sw.x
		case 1:
			c2 = sw.x
		}
		if c1 == c2 {
			c2 = (c1 + 1) & mask(sw.t.Bits)
		}
		poolAtHead := g.pool[:pre:pre]
		for i := 0; i < 3; i++ {
			g.pool = append([]ev{}, poolAtHead...)
			arms = append(arms, mkArm())
		}
		head.Term = &am.Inst{Op: "switch", Args: []*am.Value{sw.v}, Targets: []*am.Block{arms[0].b, arms[1].b, arms[2].b},
			Cases: []*am.Const{konst(sw.t, c1).C, konst(sw.t, c2).C}}
		switch sw.x {
		case c1:
			taken = 1
		case c2:
			taken = 2
		}
		g.pool = append([]ev{}, poolAtHead...)
		g.feats["exec/switch"]++
	} else {
		c := g.nonConst(1)
		poolAtHead := g.pool[:pre:pre]
		for i := 0; i < 2; i++ {
			g.pool = append([]ev{}, poolAtHead...)
			arms = append(arms, mkArm())
		}
		head.Term = &am.Inst{Op: "br", Args: []*am.Value{c.v}, Targets: []*am.Block{arms[0].b, arms[1].b}}
		if c.x == 0 {
			taken = 1
		}
		g.pool = append([]ev{}, poolAtHead...)
		g.feats["exec/condbr"]++
	}
	g.cur = join
	phi := &am.Inst{Op: "phi", T: am.I(w), Name: g.name("phi")}
	for _, a := range arms {
		phi.Incs = append(phi.Incs, &am.Incoming{V: a.val.v, Pred: a.b})
	}
	g.push(g.add(phi), am.I(w), arms[taken].val.x)
}

// ExecProgram draws an executable module and the standard output its execution must produce.
func ExecProgram(rt *rapid.T) (*am.Module, string, map[string]int) {
	m := &am.Module{U: &am.Universe{}}
	g := &execGen{rt: rt, m: m, helper: map[string]*am.Fun{}, feats: map[string]int{}}
	fmtT := am.A(6, am.I8)
	g.fmtG = &am.Global{Name: "fmt", T: fmtT, Linkage: "private", Constant: true, UnnamedAddr: "unnamed_addr",
		Init: &am.Const{K: am.CChars, T: fmtT, Chars: "%llu\n\x00"}}
	m.Globals = append(m.Globals, g.fmtG)
	g.printf = &am.Fun{Name: "printf", Ret: am.I32, Params: []*am.Param{{T: am.P(am.I8)}}, Variadic: true, Decl: true}
	m.Funcs = append(m.Funcs, g.printf)
	g.f = &am.Fun{Name: "main", Ret: am.I32}
	entry := &am.Block{Func: g.f, Index: 0}
	g.f.Blocks = []*am.Block{entry}
	g.cur = entry
	m.Funcs = append(m.Funcs, g.f)
	// a run-time seed the optimiser-free JIT cannot fold at parse time: loads from a mutable global
	seedT := am.I64
	seedV := rapid.Uint64().Draw(rt, "seed")
	seedG := &am.Global{Name: "seed", T: seedT, Linkage: "internal", Init: konst(seedT, seedV).C}
	m.Globals = append(m.Globals, seedG)
	ld := &am.Inst{Op: "load", ElemT: seedT, T: seedT, Volatile: true,
		Args: []*am.Value{{K: am.VConst, C: &am.Const{K: am.CGlobal, T: am.P(seedT), Ref: seedG}}}, Name: "s0"}
	g.push(g.add(ld), seedT, seedV)
	for _, w := range []uint64{32, 8, 1, 16, 7, 33} {
		tt := am.I(w)
		in := &am.Inst{Op: "trunc", To: tt, T: tt, Args: []*am.Value{g.pool[0].v}, Name: g.name("t")}
		g.push(g.add(in), tt, seedV&mask(w))
	}
	segments := rapid.IntRange(1, 4).Draw(rt, "segments")
	for s := 0; s < segments; s++ {
		for i := rapid.IntRange(2, 7).Draw(rt, "steps"); i > 0; i-- {
			g.step()
		}
		if s+1 < segments || g.chance("lastdiamond", 1, 2) {
			g.diamond()
		}
	}
	// print up to eight of the values that dominate the end (the newest first), each widened to i64
	fmtPtr := &am.Value{K: am.VConst, C: &am.Const{K: am.CExpr, T: am.P(am.I8), Expr: &am.Expr{Op: "getelementptr", ElemT: fmtT, InBounds: true, InRange: -1,
		Args: []*am.Const{{K: am.CGlobal, T: am.P(fmtT), Ref: g.fmtG}, konst(am.I64, 0).C, konst(am.I64, 0).C}}}}
	callee := &am.Value{K: am.VConst, C: &am.Const{K: am.CGlobal, T: g.printf.PtrType(), Ref: g.printf}}
	printed := 0
	for i := len(g.pool) - 1; i >= 0 && printed < 8; i-- {
		e := g.pool[i]
		if e.v.K == am.VConst {
			continue
		}
		wide := e.v
		x := e.x
		if e.t.Bits < 64 {
			op := "zext"
			if g.chance("psext", 1, 2) {
				op = "sext"
				x = uint64(sx(e.x, e.t.Bits))
			}
			wide = g.add(&am.Inst{Op: op, To: am.I64, T: am.I64, Args: []*am.Value{e.v}})
		}
		g.add(&am.Inst{Op: "call", T: am.I32, Callee: callee, FnT: g.printf.FuncType(), Args: []*am.Value{fmtPtr, wide}})
		fmt.Fprintf(&g.out, "%d\n", x)
		printed++
	}
	g.cur.Term = &am.Inst{Op: "ret", Args: []*am.Value{konst(am.I32, 0)}}
	return m, g.out.String(), g.feats
}
