package gen

import (
	"math/big"

	"verif/h/am"
)

// skeleton block info
type skel struct {
	b        *am.Block
	preds    []int
	succs    []int
	landing  bool // entered only through invoke unwind edges
	kind     string
	children []int
}

type fstate struct {
	sk   []*skel
	dom  [][]bool      // dom[i][j]: j dominates i
	vals [][]*am.Value // values defined in block i (in order)
	phis [][]*am.Inst
}

func (g *G) localName(prefix string) string {
	if g.intn("unnamed", 10) < g.cfg.UnnamedBias {
		return ""
	}
	g.localN++
	switch g.intn("lnstyle", 6) {
	case 0:
		return prefix + "." + itoa(g.localN)
	case 1:
		return "\x01odd name " + itoa(g.localN)
	default:
		return prefix + itoa(g.localN)
	}
}

func itoa(n int) string {
	if n == 0 {
		return "0"
	}
	s := ""
	for n > 0 {
		s = string(rune('0'+n%10)) + s
		n /= 10
	}
	return s
}

// genBody fills f.Blocks.
func (g *G) genBody(f *am.Fun) {
	g.f = f
	g.localN = 1000 // parameter names use small numbers
	n := g.rng("nblocks", 1, g.cfg.MaxBlocks)
	st := &fstate{}
	for i := 0; i < n; i++ {
		b := &am.Block{Func: f, Index: i}
		if i > 0 || g.chance("entryname", 1, 2) {
			b.Name = g.localName("bb")
		}
		st.sk = append(st.sk, &skel{b: b})
		f.Blocks = append(f.Blocks, b)
	}
	// spanning tree
	for i := 1; i < n; i++ {
		p := g.intn("parent", i)
		st.sk[p].children = append(st.sk[p].children, i)
	}
	useEH := f.Personality != nil
	// choose terminator kinds and targets
	for i, s := range st.sk {
		nc := len(s.children)
		extra := func() int { // a random non-entry, non-landing target (may be a back edge); -1 if none
			var c []int
			for j := 1; j < n; j++ {
				if !st.sk[j].landing && !contains(s.children, j) {
					c = append(c, j)
				}
			}
			if len(c) == 0 {
				return -1
			}
			return c[g.intn("extra", len(c))]
		}
		switch {
		case nc == 0:
			s.kind = g.pick("term0", []string{"ret", "ret", "ret", "unreachable", "br", "resume"})
			if s.kind == "br" {
				if t := extra(); t >= 0 && t != i {
					s.succs = []int{t}
				} else {
					s.kind = "ret"
				}
			}
			if s.kind == "resume" && !(useEH && s.landing) {
				s.kind = "ret"
			}
		case nc == 1:
			s.kind = g.pick("term1", []string{"br", "br", "condbr", "switch", "indirectbr", "callbr"})
			s.succs = []int{s.children[0]}
			if s.kind == "condbr" {
				if t := extra(); t >= 0 {
					s.succs = append(s.succs, t)
				} else {
					s.kind = "br"
				}
			}
			if s.kind == "callbr" && g.off("callbr") {
				s.kind = "br"
			}
		case nc == 2:
			s.kind = g.pick("term2", []string{"condbr", "condbr", "switch", "invoke", "indirectbr", "callbr"})
			if useEH && s.kind != "invoke" && g.chance("moreinvoke", 1, 3) {
				s.kind = "invoke"
			}
			s.succs = []int{s.children[0], s.children[1]}
			if s.kind == "invoke" && !(useEH && len(st.sk[s.children[1]].children) >= 0) {
				s.kind = "condbr"
			}
			if s.kind == "invoke" {
				st.sk[s.children[1]].landing = true
			}
			if s.kind == "callbr" && g.off("callbr") {
				s.kind = "condbr"
			}
		default:
			s.kind = g.pick("term3", []string{"switch", "switch", "indirectbr"})
			s.succs = append([]int{}, s.children...)
			if s.kind == "switch" && g.chance("swextra", 1, 3) {
				if t := extra(); t >= 0 {
					s.succs = append(s.succs, t)
				}
			}
		}
		// repeated targets: several cases of a switch (or a case and the default, or both arms of a
		// conditional branch) may lead to the same block
		if s.kind == "switch" && g.chance("swdup", 1, 3) {
			for k := g.rng("nswdup", 1, 2); k > 0; k-- {
				s.succs = append(s.succs, s.succs[g.intn("swdupi", len(s.succs))])
			}
			g.feat("cfg/switch-repeated-target")
		}
		if s.kind == "br" && nc == 1 && g.chance("brdup", 1, 8) {
			s.kind = "condbr"
			s.succs = []int{s.succs[0], s.succs[0]}
			g.feat("cfg/condbr-same-target")
		}
	}
	// landing blocks must not be targeted by ordinary edges: children edges of non-invoke parents are fine
	// because only the invoke's second child was marked. Remove back edges into landing blocks.
	for _, s := range st.sk {
		var keep []int
		for k, t := range s.succs {
			if st.sk[t].landing && !(s.kind == "invoke" && k == 1) {
				continue
			}
			keep = append(keep, t)
		}
		if len(keep) != len(s.succs) {
			// only extra targets can be dropped (children are never landing except the invoke unwind child)
			s.succs = keep
			if s.kind == "condbr" && len(s.succs) < 2 {
				s.kind = "br"
			}
			if len(s.succs) == 0 {
				s.kind = "unreachable"
			}
		}
	}
	for i, s := range st.sk {
		for _, t := range s.succs {
			st.sk[t].preds = append(st.sk[t].preds, i)
			if t <= i {
				g.feat("cfg/back-edge")
			}
		}
	}
	st.computeDom(n)
	st.vals = make([][]*am.Value, n)
	st.phis = make([][]*am.Inst, n)
	// fill blocks in index order (all dominators of a block have smaller indices)
	for i := range st.sk {
		g.fillBlock(st, i)
	}
	// phi incoming values
	for i := range st.sk {
		for _, phi := range st.phis[i] {
			// one entry per incoming edge (as the emitted terminators have them: a switch over a narrow
			// type may have dropped cases); edges from the same block carry the same value
			byPred := map[int]*am.Value{}
			var edges []int
			for p, ps := range st.sk {
				if ps.b.Term == nil {
					continue
				}
				for _, tb := range ps.b.Term.Targets {
					if tb == st.sk[i].b {
						edges = append(edges, p)
					}
				}
			}
			for _, p := range edges {
				v, ok := byPred[p]
				if !ok {
					v = g.pickAvailable(st, p, len(st.vals[p]), phi.T, true)
					byPred[p] = v
				}
				phi.Incs = append(phi.Incs, &am.Incoming{V: v, Pred: st.sk[p].b})
			}
		}
	}
	// late numbering: everything up to the end of the entry block gets a name, so that the first
	// number of the function (%0) is a later block or instruction
	if len(f.Blocks) > 1 && g.cfg.UnnamedBias > 0 && g.chance("latenumbering", 1, 5) {
		force := func(prefix string) string {
			g.localN++
			return prefix + itoa(g.localN)
		}
		for _, p := range f.Params {
			if p.Name == "" {
				p.Name = force("lp")
			}
		}
		e := f.Blocks[0]
		if e.Name == "" {
			e.Name = force("entry")
		}
		for _, in := range append(append([]*am.Inst{}, e.Insts...), e.Term) {
			if in != nil && in.HasValue() && in.Name == "" {
				in.Name = force("lv")
			}
		}
		g.feat("numbering/first-number-after-entry")
	}
}

func contains(xs []int, x int) bool {
	for _, y := range xs {
		if x == y {
			return true
		}
	}
	return false
}

func uniq(xs []int) []int {
	var out []int
	for _, x := range xs {
		if !contains(out, x) {
			out = append(out, x)
		}
	}
	return out
}

func (st *fstate) computeDom(n int) {
	st.dom = make([][]bool, n)
	for i := range st.dom {
		st.dom[i] = make([]bool, n)
		for j := range st.dom[i] {
			st.dom[i][j] = i != 0 || j == 0
		}
	}
	for j := 1; j < n; j++ {
		st.dom[0][j] = false
	}
	changed := true
	for changed {
		changed = false
		for i := 1; i < n; i++ {
			nw := make([]bool, n)
			for j := range nw {
				nw[j] = true
			}
			for _, p := range st.sk[i].preds {
				for j := range nw {
					nw[j] = nw[j] && st.dom[p][j]
				}
			}
			nw[i] = true
			for j := range nw {
				if nw[j] != st.dom[i][j] {
					changed = true
				}
			}
			st.dom[i] = nw
		}
	}
}

// available returns the SSA values usable at position pos of block i (values of strictly dominating
// blocks, parameters, and the first pos values of block i).
func (g *G) available(st *fstate, i, pos int) []*am.Value {
	var out []*am.Value
	for _, p := range g.f.Params {
		out = append(out, &am.Value{K: am.VParam, P: p})
	}
	for j := range st.sk {
		if j != i && st.dom[i][j] {
			out = append(out, st.vals[j]...)
		}
	}
	if pos > len(st.vals[i]) {
		pos = len(st.vals[i])
	}
	out = append(out, st.vals[i][:pos]...)
	return out
}

// pickAvailable returns a value of type t usable at (block i, pos): an SSA value if one exists (mostly), else a constant.
func (g *G) pickAvailable(st *fstate, i, pos int, t *am.Type, preferSSA bool) *am.Value {
	var c []*am.Value
	for _, v := range g.available(st, i, pos) {
		if vt := v.Type(); vt != nil && am.Equal(vt, t) {
			c = append(c, v)
		}
	}
	if len(c) > 0 && g.chance("usessa", 3, 4) {
		return c[g.intn("ssa", len(c))]
	}
	return &am.Value{K: am.VConst, C: g.constOf(t, 1)}
}

// cur is the cursor while filling a block.
type cur struct {
	g   *G
	st  *fstate
	i   int
	blk *am.Block
}

func (c *cur) pool() []*am.Value { return c.g.available(c.st, c.i, len(c.st.vals[c.i])) }

func (c *cur) val(t *am.Type) *am.Value {
	return c.g.pickAvailable(c.st, c.i, len(c.st.vals[c.i]), t, true)
}

// find returns pool values satisfying pred.
func (c *cur) find(pred func(t *am.Type) bool) []*am.Value {
	var out []*am.Value
	for _, v := range c.pool() {
		if t := v.Type(); t != nil && pred(t) {
			out = append(out, v)
		}
	}
	return out
}

func (c *cur) add(in *am.Inst) *am.Inst {
	if in.HasValue() {
		in.Name = c.g.localName("v")
		c.st.vals[c.i] = append(c.st.vals[c.i], &am.Value{K: am.VInst, I: in})
	}
	c.blk.Insts = append(c.blk.Insts, in)
	c.g.feat("inst/" + in.Op)
	return in
}

func (g *G) fillBlock(st *fstate, i int) {
	s := st.sk[i]
	c := &cur{g: g, st: st, i: i, blk: s.b}
	// phis
	if len(s.preds) > 0 && !(s.landing && false) {
		np := g.rng("nphi", 0, 2)
		for k := 0; k < np; k++ {
			var t *am.Type
			pool := g.available(st, i, 0)
			if len(pool) > 0 && g.chance("phitype", 2, 3) {
				t = pool[g.intn("phit", len(pool))].Type()
			} else {
				t = g.ssaType()
			}
			if t.K == am.Token || t.K == am.Label || t.K == am.Void {
				continue
			}
			phi := &am.Inst{Op: "phi", T: t}
			if t.IsFPOrFPVec() && g.chance("phifm", 1, 4) {
				phi.Flags = g.fastMath()
			}
			c.add(phi)
			st.phis[i] = append(st.phis[i], phi)
		}
	}
	if s.landing {
		lp := &am.Inst{Op: "landingpad", T: am.S(am.P(am.I8), am.I32)}
		switch g.intn("lpkind", 3) {
		case 0:
			lp.Cleanup = true
		case 1:
			lp.Clauses = append(lp.Clauses, &am.Clause{V: &am.Const{K: am.CNull, T: am.P(am.I8)}})
			lp.Cleanup = g.chance("lpcleanup", 1, 3)
		default:
			lp.Clauses = append(lp.Clauses, &am.Clause{Filter: true, V: &am.Const{K: am.CZero, T: am.A(0, am.P(am.I8))}})
			lp.Clauses = append(lp.Clauses, &am.Clause{V: &am.Const{K: am.CNull, T: am.P(am.I8)}})
		}
		c.add(lp)
	}
	// the result of an invoke / callbr becomes available in its single-predecessor normal destination
	if len(uniq(s.preds)) == 1 {
		p := st.sk[s.preds[0]]
		if (p.kind == "invoke" || p.kind == "callbr") && len(p.succs) > 0 && p.succs[0] == i && !contains(p.succs[1:], i) && p.b.Term != nil && p.b.Term.HasValue() {
			st.vals[i] = append(st.vals[i], &am.Value{K: am.VInst, I: p.b.Term})
		}
	}
	ni := g.rng("ninsts", 0, g.cfg.MaxInsts)
	for k := 0; k < ni; k++ {
		g.genInst(c)
	}
	g.genTerm(c, s)
}

// ssaType draws a type for an SSA value.
func (g *G) ssaType() *am.Type {
	switch g.intn("ssashape", 10) {
	case 0, 1, 2, 3:
		return g.intType()
	case 4, 5:
		return g.floatType()
	case 6:
		return g.ptrType(1)
	case 7:
		return g.vecType(true)
	default:
		return g.sizedType(1)
	}
}

func (g *G) fastMath() []string {
	if g.chance("fast", 1, 4) {
		return []string{"fast"}
	}
	var out []string
	for _, f := range FastMath[:7] {
		if g.chance("fm", 1, 4) {
			out = append(out, f)
		}
	}
	// the flags may be written in any order (LLVM prints `afn` last, a hand-written file need not)
	for i := len(out) - 1; i > 0; i-- {
		j := g.intn("fmorder", i+1)
		out[i], out[j] = out[j], out[i]
	}
	return out
}

func vecLike(t, shape *am.Type) *am.Type { return shape.WithScalar(t) }

func (g *G) genInst(c *cur) {
	if g.cfg.GEPBias && g.chance("gepbias", 1, 2) {
		g.genGEP(c)
		return
	}
	switch g.intn("opclass", 22) {
	case 0, 1: // integer arithmetic
		t := c.typeWhere(func(t *am.Type) bool { return t.IsIntOrIntVec() }, func() *am.Type { return g.intType() })
		op := g.pick("ibin", []string{"add", "sub", "mul", "udiv", "sdiv", "urem", "srem"})
		in := &am.Inst{Op: op, T: t, Args: []*am.Value{c.val(t), c.val(t)}}
		switch op {
		case "add", "sub", "mul":
			if g.chance("nuw", 1, 3) {
				in.Flags = append(in.Flags, "nuw")
			}
			if g.chance("nsw", 1, 3) {
				in.Flags = append(in.Flags, "nsw")
			}
			if len(in.Flags) == 2 && g.chance("nswfirst", 1, 2) {
				in.Flags[0], in.Flags[1] = in.Flags[1], in.Flags[0] // `nsw nuw` is as good as `nuw nsw`
			}
		case "udiv", "sdiv":
			if g.chance("exact", 1, 3) {
				in.Flags = append(in.Flags, "exact")
			}
		}
		c.add(in)
	case 2: // bitwise
		t := c.typeWhere(func(t *am.Type) bool { return t.IsIntOrIntVec() }, func() *am.Type { return g.intType() })
		op := g.pick("bit", []string{"and", "or", "xor", "shl", "lshr", "ashr"})
		in := &am.Inst{Op: op, T: t, Args: []*am.Value{c.val(t), c.val(t)}}
		if op == "shl" {
			if g.chance("nuw", 1, 3) {
				in.Flags = append(in.Flags, "nuw")
			}
			if g.chance("nsw", 1, 3) {
				in.Flags = append(in.Flags, "nsw")
			}
		} else if op == "lshr" || op == "ashr" {
			if g.chance("exact", 1, 3) {
				in.Flags = append(in.Flags, "exact")
			}
		}
		c.add(in)
	case 3: // fp arithmetic
		t := c.typeWhere(func(t *am.Type) bool { return t.IsFPOrFPVec() }, func() *am.Type { return g.floatType() })
		op := g.pick("fbin", []string{"fadd", "fsub", "fmul", "fdiv", "frem", "fneg"})
		in := &am.Inst{Op: op, T: t, Flags: nil}
		if g.chance("fmf", 1, 2) {
			in.Flags = g.fastMath()
		}
		if op == "fneg" {
			in.Args = []*am.Value{c.val(t)}
		} else {
			in.Args = []*am.Value{c.val(t), c.val(t)}
		}
		c.add(in)
	case 4: // icmp
		t := c.typeWhere(func(t *am.Type) bool { return t.IsIntOrIntVec() || t.IsPtrOrPtrVec() }, func() *am.Type { return g.intType() })
		c.add(&am.Inst{Op: "icmp", Pred: g.pick("ipred", IPreds), T: vecLike(am.I1, t), Args: []*am.Value{c.val(t), c.val(t)}})
	case 5: // fcmp
		t := c.typeWhere(func(t *am.Type) bool { return t.IsFPOrFPVec() }, func() *am.Type { return g.floatType() })
		in := &am.Inst{Op: "fcmp", Pred: g.pick("fpred", FPreds), T: vecLike(am.I1, t), Args: []*am.Value{c.val(t), c.val(t)}}
		if g.chance("fcmpfm", 1, 4) {
			in.Flags = g.fastMath()
		}
		c.add(in)
	case 6: // select
		t := c.typeWhere(func(t *am.Type) bool { return t.K != am.Token && t.K != am.Label }, func() *am.Type { return g.ssaType() })
		ct := am.I1
		if t.K == am.Vec && g.chance("vsel", 1, 2) {
			ct = vecLike(am.I1, t)
		}
		in := &am.Inst{Op: "select", T: t, Args: []*am.Value{c.val(ct), c.val(t), c.val(t)}}
		if t.IsFPOrFPVec() && g.chance("selfm", 1, 4) {
			in.Flags = g.fastMath()
		}
		c.add(in)
	case 7: // casts
		g.genCast(c)
	case 8: // alloca
		t := g.sizedType(2)
		if g.chance("allocasv", 1, 8) && !g.off("scalable-vector") {
			t = g.vecType(true)
		}
		if g.chance("swifterror", 1, 12) && !g.off("alloca-swifterror") {
			// a swifterror slot may only be loaded from and stored to: it gets one store and is not
			// offered to later instructions
			sw := &am.Inst{Op: "alloca", ElemT: am.P(am.I8), T: am.P(am.P(am.I8)), SwiftError: true, Name: g.localName("swerr")}
			c.blk.Insts = append(c.blk.Insts, sw)
			c.blk.Insts = append(c.blk.Insts, &am.Inst{Op: "store", T: am.TVoid, Args: []*am.Value{{K: am.VConst, C: &am.Const{K: am.CNull, T: am.P(am.I8)}}, {K: am.VInst, I: sw}}})
			g.feat("inst/alloca")
			g.feat("alloca/swifterror")
			return
		}
		in := &am.Inst{Op: "alloca", ElemT: t}
		in.InAlloca = g.chance("inalloca", 1, 8) // a stack slot for an inalloca argument; the verifier asks nothing of an unused one
		if g.chance("allocaalign", 1, 2) {
			in.Align = 1 << uint(g.intn("alignlog", 7))
		}
		if g.chance("allocaas", 1, 6) && !g.off("alloca-addrspace") {
			in.AddrSpace = 5
		}
		if g.chance("allocan", 1, 4) {
			it := g.pick("allocant", []string{"i32", "i64", "i8"})
			in.Args = []*am.Value{c.val(am.I(map[string]uint64{"i32": 32, "i64": 64, "i8": 8}[it]))}
		}
		in.T = am.PA(t, in.AddrSpace)
		c.add(in)
	case 9, 10: // load
		ps := c.find(func(t *am.Type) bool { return t.K == am.Ptr && g.loadable(t.Elem) })
		if len(ps) == 0 {
			return
		}
		p := ps[g.intn("loadptr", len(ps))]
		et := p.Type().Elem
		in := &am.Inst{Op: "load", ElemT: et, T: et, Args: []*am.Value{p}, Volatile: g.chance("vol", 1, 5)}
		if g.atomicOK(et) && g.chance("atomicload", 1, 4) {
			in.Atomic = true
			in.Ordering = g.pick("lord", []string{"unordered", "monotonic", "acquire", "seq_cst"})
			in.Align = g.atomicAlign(et)
			if g.chance("ss", 1, 3) {
				in.SyncScope = g.pick("ssn", []string{"singlethread", "agent", "my scope"})
			}
		} else if g.chance("lalign", 1, 2) {
			in.Align = 1 << uint(g.intn("alignlog", 5))
		}
		c.add(in)
	case 11: // store
		ps := c.find(func(t *am.Type) bool { return t.K == am.Ptr && g.loadable(t.Elem) })
		if len(ps) == 0 {
			return
		}
		p := ps[g.intn("storeptr", len(ps))]
		et := p.Type().Elem
		in := &am.Inst{Op: "store", Args: []*am.Value{c.val(et), p}, Volatile: g.chance("vol", 1, 5)}
		if g.atomicOK(et) && g.chance("atomicstore", 1, 4) {
			in.Atomic = true
			in.Ordering = g.pick("sord", []string{"unordered", "monotonic", "release", "seq_cst"})
			in.Align = g.atomicAlign(et)
		} else if g.chance("salign", 1, 2) {
			in.Align = 1 << uint(g.intn("alignlog", 5))
		}
		c.add(in)
	case 12, 13: // getelementptr
		g.genGEP(c)
	case 14: // vector ops
		g.genVectorOp(c)
	case 15: // aggregate ops
		g.genAggOp(c)
	case 16, 17: // call
		g.genCall(c)
	case 18: // freeze
		t := c.typeWhere(func(t *am.Type) bool { return t.K != am.Token && t.K != am.Label }, func() *am.Type { return g.ssaType() })
		c.add(&am.Inst{Op: "freeze", T: t, Args: []*am.Value{c.val(t)}})
	case 19: // fence
		in := &am.Inst{Op: "fence", Ordering: g.pick("ford", []string{"acquire", "release", "acq_rel", "seq_cst"})}
		if g.chance("ss", 1, 3) {
			in.SyncScope = "singlethread"
		}
		c.add(in)
	case 20: // cmpxchg / atomicrmw
		// integer cells for everything; floating-point cells for atomicrmw xchg/fadd/fsub and pointer cells for
		// cmpxchg (LangRef 14: cmpxchg takes an integer or a pointer, xchg an integer or a floating-point value)
		ps := c.find(func(t *am.Type) bool {
			return t.K == am.Ptr && t.Elem.K == am.Int && g.atomicOK(t.Elem)
		})
		if g.chance("atomNonInt", 1, 3) {
			if alt := c.find(func(t *am.Type) bool {
				return t.K == am.Ptr && (t.Elem.K == am.Float || t.Elem.K == am.Ptr && t.Elem.Elem.K != am.Func) && g.atomicOK(t.Elem)
			}); len(alt) > 0 {
				ps = alt
			}
		}
		if len(ps) == 0 {
			return
		}
		p := ps[g.intn("atomptr", len(ps))]
		et := p.Type().Elem
		if et.K == am.Float {
			in := &am.Inst{Op: "atomicrmw", T: et, Args: []*am.Value{p, c.val(et)}, Volatile: g.chance("vol", 1, 4)}
			in.RMWOp = g.pick("rmwf", []string{"xchg", "xchg", "fadd", "fsub"})
			in.Ordering = g.pick("rmwo", []string{"monotonic", "acquire", "release", "acq_rel", "seq_cst"})
			if g.chance("ss", 1, 3) {
				in.SyncScope = g.pick("ssn", []string{"singlethread", "agent", "my scope"})
			}
			c.add(in)
			return
		}
		if et.K == am.Ptr || g.chance("cmpxchg", 1, 2) {
			in := &am.Inst{Op: "cmpxchg", T: am.S(et, am.I1), Args: []*am.Value{p, c.val(et), c.val(et)},
				Weak: g.chance("weak", 1, 3), Volatile: g.chance("vol", 1, 4)}
			in.Ordering = g.pick("cxs", []string{"monotonic", "acquire", "release", "acq_rel", "seq_cst"})
			in.Ordering2 = g.pick("cxf", []string{"monotonic", "acquire", "seq_cst"})
			if g.chance("cxalign", 1, 3) && !g.off("atomic-align") {
				in.Align = g.atomicAlign(et) << uint(g.intn("cxalignup", 3))
			}
			if g.chance("ss", 1, 3) {
				in.SyncScope = g.pick("ssn", []string{"singlethread", "agent", "my scope"})
			}
			c.add(in)
		} else {
			in := &am.Inst{Op: "atomicrmw", T: et, Args: []*am.Value{p, c.val(et)}, Volatile: g.chance("vol", 1, 4)}
			in.RMWOp = g.pick("rmw", []string{"xchg", "add", "sub", "and", "nand", "or", "xor", "max", "min", "umax", "umin"})
			in.Ordering = g.pick("rmwo", []string{"monotonic", "acquire", "release", "acq_rel", "seq_cst"})
			if g.chance("rmwalign", 1, 3) && !g.off("atomic-align") {
				in.Align = g.atomicAlign(et) << uint(g.intn("rmwalignup", 3))
			}
			if g.chance("ss", 1, 3) {
				in.SyncScope = g.pick("ssn", []string{"singlethread", "agent", "my scope"})
			}
			c.add(in)
		}
	case 21: // va_arg
		ps := c.find(func(t *am.Type) bool {
			return t.K == am.Ptr && t.Elem.K == am.Int && t.Elem.Bits == 8 && t.AddrSpace == 0
		})
		if len(ps) == 0 {
			return
		}
		t := g.scalarType()
		c.add(&am.Inst{Op: "va_arg", T: t, To: t, Args: []*am.Value{ps[g.intn("vaptr", len(ps))]}})
	}
}

// typeWhere picks the type of a pool value satisfying pred (mostly) or a fresh type.
func (c *cur) typeWhere(pred func(*am.Type) bool, fresh func() *am.Type) *am.Type {
	vs := c.find(pred)
	if len(vs) > 0 && c.g.chance("reuse", 3, 4) {
		return vs[c.g.intn("twv", len(vs))].Type()
	}
	return fresh()
}

func (g *G) loadable(t *am.Type) bool {
	if t.K == am.Func || t.K == am.Void || t.K == am.Label || t.K == am.Token || t.K == am.Metadata {
		return false
	}
	return g.typeSized(t, map[string]bool{})
}

func (g *G) atomicOK(t *am.Type) bool {
	switch t.K {
	case am.Int:
		return t.Bits >= 8 && t.Bits&(t.Bits-1) == 0 && t.Bits <= 64
	case am.Float:
		return t.FK == "float" || t.FK == "double"
	case am.Ptr:
		return true
	}
	return false
}

func (g *G) atomicAlign(t *am.Type) uint64 {
	switch t.K {
	case am.Int:
		return t.Bits / 8
	case am.Float:
		if t.FK == "float" {
			return 4
		}
	}
	return 8
}

var fpRank = map[string]int{"half": 16, "float": 32, "double": 64, "x86_fp80": 80, "fp128": 128, "ppc_fp128": 128}

func (g *G) genCast(c *cur) {
	vs := c.find(func(t *am.Type) bool { return t.IsIntOrIntVec() || t.IsFPOrFPVec() || t.IsPtrOrPtrVec() })
	var src *am.Value
	if len(vs) > 0 && g.chance("castsrc", 3, 4) {
		src = vs[g.intn("castv", len(vs))]
	} else {
		src = c.val(g.scalarType())
	}
	st := src.Type()
	sc := st.Scalar()
	mk := func(op string, to *am.Type) {
		c.add(&am.Inst{Op: op, T: to, To: to, Args: []*am.Value{src}})
	}
	switch sc.K {
	case am.Int:
		switch g.intn("icast", 6) {
		case 0:
			if sc.Bits > 1 {
				mk("trunc", st.WithScalar(am.I(uint64(g.rng("tw", 1, int(sc.Bits)-1)))))
			}
		case 1:
			mk("zext", st.WithScalar(am.I(sc.Bits+uint64(g.rng("zw", 1, 64)))))
		case 2:
			mk("sext", st.WithScalar(am.I(sc.Bits+uint64(g.rng("sw", 1, 64)))))
		case 3:
			mk(g.pick("i2f", []string{"uitofp", "sitofp"}), st.WithScalar(g.floatType()))
		case 4:
			mk("inttoptr", st.WithScalar(am.PA(g.intType(), []uint64{0, 0, 1}[g.intn("ipas", 3)])))
		default:
			// bitcast int -> float of the same width
			for _, fk := range []string{"half", "float", "double", "fp128"} {
				if uint64(fpRank[fk]) == sc.Bits && st.K != am.Vec {
					mk("bitcast", am.F(fk))
					return
				}
			}
			if st.K == am.Vec && !st.Scalable {
				// vector -> integer of total width
				mk("bitcast", am.I(sc.Bits*st.Len))
			}
		}
	case am.Float:
		switch g.intn("fcast", 4) {
		case 0:
			var c2 []string
			for _, k := range FloatKinds {
				if fpRank[k] < fpRank[sc.FK] {
					c2 = append(c2, k)
				}
			}
			if len(c2) > 0 {
				mk("fptrunc", st.WithScalar(am.F(c2[g.intn("ftk", len(c2))])))
			}
		case 1:
			var c2 []string
			for _, k := range FloatKinds {
				if fpRank[k] > fpRank[sc.FK] {
					c2 = append(c2, k)
				}
			}
			if len(c2) > 0 {
				mk("fpext", st.WithScalar(am.F(c2[g.intn("fek", len(c2))])))
			}
		case 2:
			mk(g.pick("f2i", []string{"fptoui", "fptosi"}), st.WithScalar(g.intType()))
		default:
			if st.K != am.Vec && sc.FK != "x86_fp80" && sc.FK != "ppc_fp128" {
				mk("bitcast", am.I(uint64(fpRank[sc.FK])))
			}
		}
	case am.Ptr:
		switch g.intn("pcast", 3) {
		case 0:
			mk("ptrtoint", st.WithScalar(g.intType()))
		case 1:
			to := am.PA(g.sizedType(1), sc.AddrSpace)
			mk("bitcast", st.WithScalar(to))
		default:
			to := am.PA(sc.Elem, sc.AddrSpace+1)
			mk("addrspacecast", st.WithScalar(to))
		}
	}
}

func (g *G) genGEP(c *cur) {
	ps := c.find(func(t *am.Type) bool {
		if t.K == am.Ptr {
			return g.loadable(t.Elem) || t.Elem.K == am.Named && g.typeSized(t.Elem, map[string]bool{})
		}
		if t.K == am.Vec && t.Elem.K == am.Ptr {
			return g.loadable(t.Elem.Elem)
		}
		return false
	})
	if len(ps) == 0 {
		return
	}
	// two times out of three prefer a base whose element type can be stepped into
	if g.chance("gepaggbase", 2, 3) {
		var agg []*am.Value
		for _, v := range ps {
			et := v.Type().Scalar().Elem
			if _, _, isStruct := g.body(et); isStruct || et.K == am.Array || et.K == am.Vec {
				agg = append(agg, v)
			}
		}
		if len(agg) > 0 {
			ps = agg
		}
	}
	base := ps[g.intn("gepbase", len(ps))]
	bt := base.Type()
	elemT := bt.Scalar().Elem
	vlen, scal := uint64(0), false
	if bt.K == am.Vec {
		vlen, scal = bt.Len, bt.Scalable
	}
	in := &am.Inst{Op: "getelementptr", ElemT: elemT, InBounds: g.chance("inbounds", 1, 2), Args: []*am.Value{base}}
	var idx []am.GEPIndex
	t := elemT
	nidx := g.rng("ngepidx", 1, 4)
	if g.chance("gepnoidx", 1, 10) {
		nidx = 0 // `getelementptr T, T* %p`: no index at all is valid; the result keeps address space and vector shape of the base
		g.feat("gep/no-index")
	}
	for k := 0; k < nidx; k++ {
		var iv *am.Value
		gi := am.GEPIndex{}
		structStep := false
		var nfields int
		if k > 0 {
			fs, _, isStruct := g.body(t)
			if isStruct {
				structStep = true
				nfields = len(fs)
				if nfields == 0 {
					break
				}
			} else if !(t.K == am.Array || t.K == am.Vec) {
				break
			}
		}
		if structStep {
			f := g.intn("field", nfields)
			g.feat("gep/struct-step")
			cst := &am.Const{K: am.CInt, T: am.I32, Int: big.NewInt(int64(f))}
			if g.chance("overwideidx", 1, 12) && !g.off("gep-overwide-struct-index") {
				// a literal too wide for i32: LLVM reads it modulo 2^32
				cst.Int = new(big.Int).Add(cst.Int, new(big.Int).Lsh(big.NewInt(1), 32))
				g.feat("gep/struct-index-wider-than-i32")
			}
			gi.HasVal, gi.Val = true, int64(f)
			forceSplat := false
			if vlen == 0 && g.chance("structvecidx", 1, 12) && !g.off("gep-vector-index") {
				// a splat vector as struct index turns a scalar gep into a vector of pointers
				vlen = []uint64{2, 4}[g.intn("nvl", 2)]
				forceSplat = true
				g.feat("gep/vector-struct-index-on-scalar-base")
			}
			if vlen != 0 && !scal && (forceSplat || g.chance("splatidx", 1, 3)) {
				vc := &am.Const{K: am.CVector, T: am.V(vlen, am.I32)}
				for j := uint64(0); j < vlen; j++ {
					vc.Elems = append(vc.Elems, cst)
				}
				cst = vc
				gi.VecLen = vlen
			}
			if f == 0 && g.chance("zeroidx", 1, 3) {
				// field 0 spelled zeroinitializer (scalar or vector)
				cst = &am.Const{K: am.CZero, T: cst.T}
				g.feat("gep/struct-index-zeroinitializer")
			}
			iv = &am.Value{K: am.VConst, C: cst}
			fs, _, _ := g.body(t)
			t = fs[f]
		} else {
			it := g.pick("gepit", []string{"i32", "i64", "i64", "i8", "i16", "i1", "i128"})
			ity := am.I(map[string]uint64{"i32": 32, "i64": 64, "i8": 8, "i16": 16, "i1": 1, "i128": 128}[it])
			if vlen != 0 && g.chance("vecidx", 1, 3) {
				vt := am.V(vlen, ity)
				vt.Scalable = scal
				iv = c.val(vt)
				if !scal && g.chance("constvecidx", 1, 2) {
					iv = &am.Value{K: am.VConst, C: g.vecIndexConst(vt)}
				}
				gi.VecLen, gi.Scalable = vlen, scal
			} else if vlen == 0 && g.chance("newvecidx", 1, 10) && !g.off("gep-vector-index") {
				// a vector index turns the result into a vector of pointers
				vlen = []uint64{2, 4}[g.intn("nvl", 2)]
				vt := am.V(vlen, ity)
				iv = c.val(vt)
				if g.chance("constvecidx2", 1, 2) {
					iv = &am.Value{K: am.VConst, C: g.vecIndexConst(vt)}
				}
				gi.VecLen = vlen
				g.feat("gep/vector-index-on-scalar-base")
			} else {
				iv = c.val(ity)
			}
			if k > 0 {
				t = t.Elem
			}
		}
		in.Args = append(in.Args, iv)
		idx = append(idx, gi)
	}
	rt, err := am.GEPType(g.M.U, elemT, bt, idx)
	if err != nil {
		return
	}
	in.T = rt
	c.add(in)
}

func (g *G) genVectorOp(c *cur) {
	vs := c.find(func(t *am.Type) bool { return t.K == am.Vec })
	var v *am.Value
	if len(vs) > 0 && g.chance("vecsrc", 4, 5) {
		v = vs[g.intn("vecv", len(vs))]
	} else {
		v = c.val(g.vecType(true))
	}
	vt := v.Type()
	it := []*am.Type{am.I32, am.I64, am.I8}[g.intn("vidxt", 3)]
	switch g.intn("vop", 3) {
	case 0:
		c.add(&am.Inst{Op: "extractelement", T: vt.Elem, Args: []*am.Value{v, c.val(it)}})
	case 1:
		c.add(&am.Inst{Op: "insertelement", T: vt, Args: []*am.Value{v, c.val(vt.Elem), c.val(it)}})
	default:
		// shufflevector: mask is a constant <m x i32> vector (or zeroinitializer/undef); for scalable only zeroinitializer/undef
		var mask *am.Const
		var rt *am.Type
		if vt.Scalable {
			mt := am.SV(vt.Len, am.I32)
			mask = &am.Const{K: []am.CKind{am.CZero, am.CUndef}[g.intn("svmask", 2)], T: mt}
			rt = vt
		} else {
			m := uint64(g.rng("masklen", 1, 8))
			mt := am.V(m, am.I32)
			switch g.intn("maskkind", 4) {
			case 0:
				mask = &am.Const{K: am.CZero, T: mt}
			case 1:
				mask = &am.Const{K: am.CUndef, T: mt}
			default:
				mask = &am.Const{K: am.CVector, T: mt}
				for j := uint64(0); j < m; j++ {
					if g.chance("maskundef", 1, 6) {
						mask.Elems = append(mask.Elems, &am.Const{K: am.CUndef, T: am.I32})
					} else {
						mask.Elems = append(mask.Elems, &am.Const{K: am.CInt, T: am.I32, Int: big.NewInt(int64(g.intn("maskidx", int(2*vt.Len))))})
					}
				}
			}
			rt = am.V(m, vt.Elem)
		}
		c.add(&am.Inst{Op: "shufflevector", T: rt, Args: []*am.Value{v, c.val(vt)}, Mask: mask})
	}
}

func (g *G) genAggOp(c *cur) {
	vs := c.find(func(t *am.Type) bool {
		switch t.K {
		case am.Array:
			return t.Len > 0
		case am.Struct, am.Named:
			fs, _, ok := g.body(t)
			return ok && len(fs) > 0
		}
		return false
	})
	var v *am.Value
	if len(vs) > 0 && g.chance("aggsrc", 4, 5) {
		v = vs[g.intn("aggv", len(vs))]
	} else {
		// nested aggregate whose levels differ in shape, so that every index of a path matters
		t := am.S(g.intType(), am.S(g.scalarType(), g.intType(), g.scalarType()), am.A(2, am.S(g.scalarType(), g.intType())))
		v = c.val(t)
	}
	t := v.Type()
	var idx []uint64
	for d := 0; d < 3; d++ {
		switch t.K {
		case am.Array:
			if t.Len == 0 {
				goto done
			}
			i := uint64(g.intn("aidx", int(t.Len)))
			idx = append(idx, i)
			t = t.Elem
		case am.Struct, am.Named:
			fs, _, ok := g.body(t)
			if !ok || len(fs) == 0 {
				goto done
			}
			i := g.intn("sidx", len(fs))
			idx = append(idx, uint64(i))
			t = fs[i]
		default:
			goto done
		}
		if g.chance("stopidx", 1, 3) {
			break
		}
	}
done:
	if len(idx) == 0 {
		return
	}
	if g.chance("insertvalue", 1, 2) {
		c.add(&am.Inst{Op: "insertvalue", T: v.Type(), Args: []*am.Value{v, c.val(t)}, Indices: idx})
	} else {
		c.add(&am.Inst{Op: "extractvalue", T: t, Args: []*am.Value{v}, Indices: idx})
	}
}

// callable picks a callee among the module's functions (or an indirect callee from the pool).
func (g *G) genCallCommon(c *cur, in *am.Inst) bool {
	if g.chance("asmcall", 1, 12) && !g.off("inline-asm") {
		ft := am.Fn(am.TVoid, false)
		a := &am.InlineAsm{T: ft, Asm: g.pick("asmtext", []string{"", "nop", "mov $0, $0 # \"q\""}), SideEffect: g.chance("se", 1, 2), AlignStack: g.chance("as", 1, 4), Intel: g.chance("intel", 1, 4), Unwind: g.chance("asmunwind", 1, 4)}
		in.Callee = &am.Value{K: am.VInlineAsm, Asm: a}
		in.FnT = ft
		in.T = am.TVoid
		g.feat("call/inline-asm")
		return true
	}
	var fs []*am.Fun
	for _, f := range g.M.Funcs {
		fs = append(fs, f)
	}
	// indirect through a function pointer value
	ps := c.find(func(t *am.Type) bool { return t.K == am.Ptr && t.Elem.K == am.Func && t.AddrSpace == 0 })
	if len(ps) > 0 && g.chance("indirect", 1, 3) {
		p := ps[g.intn("fnptr", len(ps))]
		in.Callee = p
		in.FnT = p.Type().Elem
		g.feat("call/indirect")
	} else {
		if len(fs) == 0 {
			return false
		}
		f := fs[g.intn("callee", len(fs))]
		if f.AddrSpace != 0 {
			in.AddrSpaceCall = f.AddrSpace
		}
		in.Callee = &am.Value{K: am.VConst, C: &am.Const{K: am.CGlobal, T: f.PtrType(), Ref: f}}
		in.FnT = f.FuncType()
		in.CC = f.CC
		g.feat("call/direct")
	}
	ft := in.FnT
	in.T = ft.Ret
	for _, pt := range ft.Params {
		in.Args = append(in.Args, c.val(pt))
	}
	if ft.Variadic {
		for k := g.rng("nvarargs", 0, 2); k > 0; k-- {
			in.Args = append(in.Args, c.val(g.scalarType()))
		}
	}
	in.ArgAttrs = make([][]string, len(in.Args))
	for k, a := range in.Args {
		if g.chance("argattr", 1, 6) {
			switch a.Type().K {
			case am.Int:
				if a.Type().Bits < 64 {
					in.ArgAttrs[k] = []string{g.pick("iattr", []string{"zeroext", "signext", "noundef", "inreg"})}
				}
			case am.Ptr:
				in.ArgAttrs[k] = []string{g.pick("pattr", []string{"nonnull", "noalias", "nocapture", "noundef", "readonly", "align 8", "dereferenceable(4)"})}
			}
		}
	}
	if ft.Ret.K == am.Int && ft.Ret.Bits < 64 && g.chance("retattr", 1, 6) {
		in.RetAttrs = []string{g.pick("rattr", []string{"zeroext", "signext", "noundef", "inreg"})}
	}
	if g.chance("callfnattr", 1, 5) {
		in.FnAttrs = []string{g.pick("cfa", []string{"nounwind", "readnone", "noreturn", "cold", "nobuiltin", "\"k\"=\"v\"", "\"s\""})}
	}
	if g.lastBundleBlk == c.blk && len(g.lastBundles) > 0 && !g.off("operand-bundle") && g.chance("samebundle", 1, 2) {
		// the same bundles, spelled identically, as the previous call of this block (values that were
		// available there are available here); one time in three a bundle is listed twice
		for _, b := range g.lastBundles {
			in.Bundles = append(in.Bundles, &am.Bundle{Tag: b.Tag, Args: append([]*am.Value(nil), b.Args...)})
		}
		g.feat("call/bundle")
		g.feat("call/bundle-identical-to-another-call")
	} else if g.chance("bundle", 1, 8) && !g.off("operand-bundle") {
		// one to three bundles with distinct tags (LLVM rejects a repeated tag for the known bundle kinds only)
		tags := []string{"foo", "my bundle", "x.y"}
		for nb := g.rng("nbundles", 1, 3); nb > 0; nb-- {
			b := &am.Bundle{Tag: tags[nb-1]}
			for k := g.rng("nbundleargs", 0, 2); k > 0; k-- {
				b.Args = append(b.Args, c.val(g.scalarType()))
			}
			in.Bundles = append(in.Bundles, b)
		}
		g.feat("call/bundle")
		if len(in.Bundles) > 1 {
			g.feat("call/several-bundles")
		}
		g.lastBundles, g.lastBundleBlk = in.Bundles, c.blk
	}
	return true
}

func (g *G) genCall(c *cur) {
	in := &am.Inst{Op: "call"}
	if !g.genCallCommon(c, in) {
		return
	}
	if in.Callee.K != am.VInlineAsm {
		in.Tail = g.pick("tail", []string{"", "", "", "tail", "notail"})
	}
	if in.T.IsFPOrFPVec() && g.chance("callfm", 1, 3) {
		in.Flags = g.fastMath()
	}
	c.add(in)
}

func (g *G) blockVal(st *fstate, i int) *am.Block { return st.sk[i].b }

func (g *G) genTerm(c *cur, s *skel) {
	st := c.st
	tgt := func(k int) *am.Block { return st.sk[s.succs[k]].b }
	var t *am.Inst
	switch s.kind {
	case "ret":
		t = &am.Inst{Op: "ret"}
		if g.f.Ret.K != am.Void {
			t.Args = []*am.Value{c.val(g.f.Ret)}
		}
	case "unreachable":
		t = &am.Inst{Op: "unreachable"}
	case "resume":
		t = &am.Inst{Op: "resume", Args: []*am.Value{c.val(am.S(am.P(am.I8), am.I32))}}
	case "br":
		t = &am.Inst{Op: "br", Targets: []*am.Block{tgt(0)}}
	case "condbr":
		t = &am.Inst{Op: "br", Args: []*am.Value{c.val(am.I1)}, Targets: []*am.Block{tgt(0), tgt(1)}}
	case "switch":
		it := c.typeWhere(func(t *am.Type) bool { return t.K == am.Int }, func() *am.Type { return g.intType() })
		t = &am.Inst{Op: "switch", Args: []*am.Value{c.val(it)}}
		t.Targets = append(t.Targets, tgt(0))
		seen := map[string]bool{}
		for k := 1; k < len(s.succs); k++ {
			cv := g.intConst(it)
			cv.Lit = ""
			key := new(big.Int).Mod(cv.Int, new(big.Int).Lsh(big.NewInt(1), uint(it.Bits))).String()
			if seen[key] {
				// duplicate case value: reuse default edge instead (keep CFG edges: add as extra default? no) – pick a fresh value
				for d := int64(0); d < 1<<16; d++ {
					cand := new(big.Int).Mod(big.NewInt(d), new(big.Int).Lsh(big.NewInt(1), uint(it.Bits)))
					if !seen[cand.String()] {
						cv.Int = cand
						key = cand.String()
						break
					}
				}
				if seen[key] { // type too small for another distinct case: route the edge through the default
					continue
				}
			}
			seen[key] = true
			t.Cases = append(t.Cases, cv)
			t.Targets = append(t.Targets, tgt(k))
		}
		// edges that could not get a case value: they must stay edges of this terminator; i1/i2 switches
		// with too many successors fall back to making the missing ones unreachable from here — to keep the
		// skeleton exact we instead widen the condition type
		if len(t.Targets) != len(s.succs) {
			it = am.I32
			t.Args = []*am.Value{c.val(it)}
			t.Cases, t.Targets = nil, []*am.Block{tgt(0)}
			for k := 1; k < len(s.succs); k++ {
				t.Cases = append(t.Cases, &am.Const{K: am.CInt, T: it, Int: big.NewInt(int64(k * 3))})
				t.Targets = append(t.Targets, tgt(k))
			}
		}
	case "indirectbr":
		// address: blockaddress of one of the targets
		b := tgt(g.intn("ibtarget", len(s.succs)))
		addr := &am.Const{K: am.CBlockAddr, T: am.PA(am.I8, g.f.AddrSpace), Ref: g.f, Block: b}
		t = &am.Inst{Op: "indirectbr", Args: []*am.Value{{K: am.VConst, C: addr}}}
		for k := range s.succs {
			t.Targets = append(t.Targets, tgt(k))
		}
		g.feat("const/blockaddress")
	case "invoke":
		t = &am.Inst{Op: "invoke", Targets: []*am.Block{tgt(0), tgt(1)}}
		if !g.genCallCommon(c, t) || t.Callee.K == am.VInlineAsm {
			// fall back to a plain conditional branch is impossible (landing block); call a fresh declaration instead
			f := g.declareHelper()
			t.Callee = &am.Value{K: am.VConst, C: &am.Const{K: am.CGlobal, T: f.PtrType(), Ref: f}}
			t.FnT = f.FuncType()
			t.T = f.Ret
			t.Args = nil
			t.ArgAttrs = nil
		}
		if t.HasValue() {
			t.Name = g.localName("iv")
		}
	case "callbr":
		// callbr to inline asm; every indirect target is passed as a blockaddress argument
		ft := am.Fn(am.TVoid, false)
		var args []*am.Value
		var ps []*am.Type
		cons := ""
		for k := 1; k < len(s.succs); k++ {
			args = append(args, &am.Value{K: am.VConst, C: &am.Const{K: am.CBlockAddr, T: am.PA(am.I8, g.f.AddrSpace), Ref: g.f, Block: tgt(k)}})
			ps = append(ps, am.PA(am.I8, g.f.AddrSpace))
			if cons != "" {
				cons += ","
			}
			cons += "X"
		}
		rt := am.TVoid
		if g.chance("callbrresult", 1, 3) {
			// an asm output: the callbr defines a value (usable on the fallthrough path only)
			rt = []*am.Type{am.I32, am.I64}[g.intn("callbrrt", 2)]
			if cons != "" {
				cons = "=r," + cons
			} else {
				cons = "=r"
			}
			g.feat("term/callbr-with-result")
		}
		ft = am.Fn(rt, false, ps...)
		a := &am.InlineAsm{T: ft, Asm: "", Constraints: cons, SideEffect: true}
		t = &am.Inst{Op: "callbr", Callee: &am.Value{K: am.VInlineAsm, Asm: a}, FnT: ft, T: rt, Args: args}
		if t.HasValue() {
			t.Name = g.localName("cbr")
		}
		for k := range s.succs {
			t.Targets = append(t.Targets, tgt(k))
		}
		t.ArgAttrs = make([][]string, len(args))
	}
	g.feat("term/" + t.Op)
	if s.kind == "condbr" {
		g.feat("term/condbr")
	}
	c.blk.Term = t
}

// declareHelper returns (creating on first use) a declaration `declare void @helper.N()`.
func (g *G) declareHelper() *am.Fun {
	for _, f := range g.M.Funcs {
		if f.Blocks == nil && f.Ret.K == am.Void && len(f.Params) == 0 && !f.Variadic && f.AddrSpace == 0 && f.Name != "" {
			return f
		}
	}
	f := &am.Fun{Name: g.fresh("helper"), Ret: am.TVoid, Decl: true}
	g.M.Funcs = append(g.M.Funcs, f)
	return f
}
