package gen

import (
	"math/big"

	"verif/h/am"
)

// fieldSpec describes one field of a specialised debug-info node.
type fieldSpec struct {
	name string
	kind string // str int bool flags spflags enum:<a|b|c> ref:<class> tuple:<class> expr nullableRef:<class>
	req  bool
}

var (
	dwLangs  = "DW_LANG_C99|DW_LANG_C_plus_plus|DW_LANG_C_plus_plus_14|DW_LANG_Rust|DW_LANG_Fortran95|DW_LANG_Swift"
	dwATE    = "DW_ATE_signed|DW_ATE_unsigned|DW_ATE_float|DW_ATE_boolean|DW_ATE_signed_char|DW_ATE_UTF"
	dwCC     = "DW_CC_normal|DW_CC_program|DW_CC_nocall|DW_CC_LLVM_vectorcall"
	dwVirt   = "DW_VIRTUALITY_none|DW_VIRTUALITY_virtual|DW_VIRTUALITY_pure_virtual"
	emission = "NoDebug|FullDebug|LineTablesOnly|DebugDirectivesOnly"
	nameTab  = "GNU|None|Default"
	diFlags  = []string{"DIFlagPrivate", "DIFlagProtected", "DIFlagPublic", "DIFlagFwdDecl", "DIFlagArtificial", "DIFlagExplicit", "DIFlagPrototyped", "DIFlagObjectPointer", "DIFlagStaticMember", "DIFlagLValueReference", "DIFlagRValueReference", "DIFlagTypePassByValue", "DIFlagEnumClass", "DIFlagNoReturn", "DIFlagBigEndian", "DIFlagAllCallsDescribed", "DIFlagVirtual", "DIFlagSingleInheritance", "DIFlagIntroducedVirtual", "DIFlagBitField"}
	dispFlag = []string{"DISPFlagLocalToUnit", "DISPFlagOptimized", "DISPFlagPure", "DISPFlagElemental", "DISPFlagRecursive", "DISPFlagMainSubprogram", "DISPFlagDeleted", "DISPFlagObjCDirect"}
)

var diSpecs = map[string][]fieldSpec{
	"DIFile":                     {{"filename", "str", true}, {"directory", "str", true}, {"checksumkind", "csk", false}, {"source", "str", false}},
	"DIBasicType":                {{"tag", "enum:DW_TAG_base_type|DW_TAG_unspecified_type", false}, {"name", "str", false}, {"size", "int", false}, {"align", "int", false}, {"encoding", "enum:" + dwATE, false}, {"flags", "flags", false}},
	"DIStringType":               {{"name", "str", false}, {"stringLength", "ref:localvar", false}, {"stringLengthExpression", "expr", false}, {"size", "int", false}, {"align", "int", false}, {"encoding", "enum:DW_ATE_UTF|DW_ATE_ASCII", false}},
	"DIDerivedType":              {{"tag", "enum:DW_TAG_pointer_type|DW_TAG_typedef|DW_TAG_const_type|DW_TAG_member|DW_TAG_reference_type|DW_TAG_volatile_type|DW_TAG_inheritance", true}, {"name", "str", false}, {"scope", "ref:scope", false}, {"file", "ref:file", false}, {"line", "int", false}, {"baseType", "nullableRef:type", true}, {"size", "int", false}, {"align", "int", false}, {"offset", "int", false}, {"flags", "flags", false}, {"dwarfAddressSpace", "int", false}},
	"DICompositeType":            {{"tag", "enum:DW_TAG_structure_type|DW_TAG_class_type|DW_TAG_union_type|DW_TAG_enumeration_type|DW_TAG_array_type", true}, {"name", "str", false}, {"scope", "ref:scope", false}, {"file", "ref:file", false}, {"line", "int", false}, {"baseType", "ref:type", false}, {"size", "int", false}, {"align", "int", false}, {"offset", "int", false}, {"flags", "flags", false}, {"elements", "tuple:element", false}, {"runtimeLang", "enum:" + dwLangs, false}, {"templateParams", "tuple:tparam", false}, {"identifier", "str", false}},
	"DISubroutineType":           {{"flags", "flags", false}, {"cc", "enum:" + dwCC, false}, {"types", "tuple:typeOrNull", true}},
	"DIEnumerator":               {{"name", "str", true}, {"value", "sint", true}, {"isUnsigned", "bool", false}},
	"DISubrange":                 {{"count", "sint", false}, {"lowerBound", "sint", false}, {"upperBound", "sint", false}, {"stride", "sint", false}},
	"DITemplateTypeParameter":    {{"name", "str", false}, {"type", "ref:type", true}, {"defaulted", "bool", false}},
	"DITemplateValueParameter":   {{"tag", "enum:DW_TAG_template_value_parameter|DW_TAG_GNU_template_template_param", false}, {"name", "str", false}, {"type", "ref:type", false}, {"defaulted", "bool", false}, {"value", "mdvalue", true}},
	"DINamespace":                {{"name", "str", false}, {"scope", "nullableRef:scope", true}, {"exportSymbols", "bool", false}},
	"DIModule":                   {{"scope", "nullableRef:scope", true}, {"name", "str", true}, {"configMacros", "str", false}, {"includePath", "str", false}, {"apinotes", "str", false}, {"file", "ref:file", false}, {"line", "int", false}, {"isDecl", "bool", false}},
	"DILexicalBlock":             {{"scope", "ref:localscope", true}, {"file", "ref:file", false}, {"line", "int", false}, {"column", "int", false}},
	"DILexicalBlockFile":         {{"scope", "ref:localscope", true}, {"file", "ref:file", false}, {"discriminator", "int", true}},
	"DILocalVariable":            {{"name", "str", false}, {"arg", "int", false}, {"scope", "ref:localscope", true}, {"file", "ref:file", false}, {"line", "int", false}, {"type", "ref:type", false}, {"flags", "flags", false}, {"align", "int", false}},
	"DILabel":                    {{"scope", "ref:localscope", true}, {"name", "str", true}, {"file", "ref:file", true}, {"line", "int", true}},
	"DIGlobalVariable":           {{"name", "str", true}, {"linkageName", "str", false}, {"scope", "ref:scope", false}, {"file", "ref:file", false}, {"line", "int", false}, {"type", "ref:type", false}, {"isLocal", "bool", false}, {"isDefinition", "bool", false}, {"align", "int", false}},
	"DIGlobalVariableExpression": {{"var", "ref:globalvar", true}, {"expr", "expr", true}},
	"DIObjCProperty":             {{"name", "str", false}, {"file", "ref:file", false}, {"line", "int", false}, {"setter", "str", false}, {"getter", "str", false}, {"attributes", "int", false}, {"type", "ref:type", false}},
	"DIImportedEntity":           {{"tag", "enum:DW_TAG_imported_module|DW_TAG_imported_declaration", true}, {"name", "str", false}, {"scope", "ref:scope", true}, {"entity", "ref:scope", false}, {"file", "ref:file", false}, {"line", "int", false}},
	"DIMacro":                    {{"type", "enum:DW_MACINFO_define|DW_MACINFO_undef", true}, {"line", "int", false}, {"name", "str", true}, {"value", "str", false}},
	"DICommonBlock":              {{"scope", "ref:scope", true}, {"declaration", "ref:globalvar", false}, {"name", "str", false}, {"file", "ref:file", false}, {"line", "int", false}},
	"GenericDINode":              {{"tag", "enum:DW_TAG_lexical_block|DW_TAG_variable|DW_TAG_label", true}, {"header", "str", false}, {"operands", "braces", false}},
}

// di holds the pools of the debug-info graph being generated.
type di struct {
	g        *G
	next     int
	files    []*am.MDNode
	types    []*am.MDNode
	scopes   []*am.MDNode // file-level scopes: files, namespaces, modules, composite types, compile unit
	locals   []*am.MDNode // local scopes: subprograms, lexical blocks
	gvars    []*am.MDNode
	lvars    []*am.MDNode
	cu       *am.MDNode
	nodes    []*am.MDNode
	numExprs []*am.MDNode
}

func (d *di) node(kind string, distinct bool) *am.MDNode {
	n := &am.MDNode{ID: d.next, Kind: kind, Distinct: distinct}
	d.next++
	d.nodes = append(d.nodes, n)
	return n
}

func (d *di) tuple(elems []*am.MDField) *am.MDNode {
	n := d.node("", false)
	n.Fields = elems
	return n
}

func ref(n *am.MDNode) *am.MDField { return &am.MDField{K: am.MDRef, Node: n} }

func (d *di) pickFrom(pool []*am.MDNode, label string) *am.MDNode {
	if len(pool) == 0 {
		return nil
	}
	return pool[d.g.intn(label, len(pool))]
}

func (d *di) strVal() string {
	return d.g.pick("distr", []string{"x", "main.c", "/tmp/a b", "int", "foo\"bar", "T<int>", "", "é"})
}

// fill draws a random subset of the optional fields of n's kind (required ones always).
func (d *di) fill(n *am.MDNode, overrides map[string]*am.MDField) {
	g := d.g
	for _, fs := range diSpecs[n.Kind] {
		if ov, ok := overrides[fs.name]; ok {
			if ov != nil {
				n.Names = append(n.Names, fs.name)
				n.Fields = append(n.Fields, ov)
			}
			continue
		}
		if !fs.req && !g.chance("difield", 1, 2) {
			continue
		}
		var f *am.MDField
		kind, arg := fs.kind, ""
		for i := 0; i < len(kind); i++ {
			if kind[i] == ':' {
				kind, arg = kind[:i], kind[i+1:]
				break
			}
		}
		switch kind {
		case "str":
			s := d.strVal()
			if fs.req && s == "" {
				s = "r"
			}
			f = &am.MDField{K: am.MDString, Str: s}
		case "int":
			f = &am.MDField{K: am.MDInt, Int: big.NewInt(int64(g.rng("diint", 0, 4096)))}
		case "sint":
			f = &am.MDField{K: am.MDInt, Int: big.NewInt(int64(g.rng("disint", -5, 100)))}
		case "bool":
			f = &am.MDField{K: am.MDBool, Bool: g.chance("dibool", 1, 2)}
		case "flags":
			k := g.rng("nflags", 1, 3)
			s := ""
			seen := map[string]bool{}
			for i := 0; i < k; i++ {
				fl := diFlags[g.intn("diflag", len(diFlags))]
				// at most one accessibility and one inheritance value
				if seen[fl] || (fl == "DIFlagPrivate" || fl == "DIFlagProtected" || fl == "DIFlagPublic") && (seen["acc"]) {
					continue
				}
				if fl == "DIFlagPrivate" || fl == "DIFlagProtected" || fl == "DIFlagPublic" {
					seen["acc"] = true
				}
				seen[fl] = true
				if s != "" {
					s += " | "
				}
				s += fl
			}
			f = &am.MDField{K: am.MDEnum, Str: s}
		case "spflags":
			f = &am.MDField{K: am.MDEnum, Str: dispFlag[g.intn("spflag", len(dispFlag))]}
		case "enum":
			opts := splitBar(arg)
			f = &am.MDField{K: am.MDEnum, Str: opts[g.intn("dienum", len(opts))]}
		case "csk":
			continue // checksumkind needs a checksum of matching length: added by the caller
		case "expr":
			f = d.exprField(d.expr())
		case "mdvalue":
			f = &am.MDField{K: am.MDValue, C: &am.Const{K: am.CInt, T: am.I32, Int: big.NewInt(int64(g.rng("tval", 0, 9)))}}
		case "braces":
			// GenericDINode operands: {!a, !b}
			inl := &am.MDNode{ID: -1, Kind: "{}"}
			for k := g.rng("ngops", 0, 2); k > 0; k-- {
				if t := d.pickFrom(d.types, "gop"); t != nil {
					inl.Fields = append(inl.Fields, ref(t))
				}
			}
			f = &am.MDField{K: am.MDInline, Node: inl}
		case "ref", "nullableRef":
			var pool []*am.MDNode
			switch arg {
			case "file":
				pool = d.files
			case "type":
				pool = d.types
			case "scope":
				pool = d.scopes
			case "localscope":
				pool = d.locals
			case "globalvar":
				pool = d.gvars
			case "localvar":
				pool = d.lvars
			}
			t := d.pickFrom(pool, "diref")
			if t == nil {
				if kind == "nullableRef" {
					f = &am.MDField{K: am.MDNull}
				} else if fs.req {
					f = &am.MDField{K: am.MDNull}
				} else {
					continue
				}
			} else {
				f = ref(t)
			}
		case "tuple":
			var elems []*am.MDField
			for k := g.rng("ntuple", 0, 3); k > 0; k-- {
				switch arg {
				case "typeOrNull":
					if t := d.pickFrom(d.types, "tt"); t != nil && g.chance("tnull", 3, 4) {
						elems = append(elems, ref(t))
					} else {
						elems = append(elems, &am.MDField{K: am.MDNull})
					}
				case "element":
					// filled by the caller according to the tag
				case "tparam":
					tp := d.node("DITemplateTypeParameter", false)
					d.fill(tp, nil)
					elems = append(elems, ref(tp))
				}
			}
			f = ref(d.tuple(elems))
		}
		if f == nil {
			continue
		}
		n.Names = append(n.Names, fs.name)
		n.Fields = append(n.Fields, f)
	}
}

func splitBar(s string) []string {
	var out []string
	cur := ""
	for i := 0; i < len(s); i++ {
		if s[i] == '|' {
			out = append(out, cur)
			cur = ""
		} else {
			cur += string(s[i])
		}
	}
	return append(out, cur)
}

func (d *di) expr() *am.MDNode {
	g := d.g
	n := &am.MDNode{ID: -1, Kind: "DIExpression"}
	switch g.intn("diexpr", 5) {
	case 0:
	case 1:
		n.Fields = []*am.MDField{{K: am.MDEnum, Str: "DW_OP_deref"}}
	case 2:
		n.Fields = []*am.MDField{{K: am.MDEnum, Str: "DW_OP_plus_uconst"}, {K: am.MDInt, Int: big.NewInt(int64(g.rng("opv", 0, 64)))}}
	case 3:
		n.Fields = []*am.MDField{{K: am.MDEnum, Str: "DW_OP_constu"}, {K: am.MDInt, Int: big.NewInt(42)}, {K: am.MDEnum, Str: "DW_OP_stack_value"}}
	default:
		n.Fields = []*am.MDField{{K: am.MDEnum, Str: "DW_OP_LLVM_fragment"}, {K: am.MDInt, Int: big.NewInt(0)}, {K: am.MDInt, Int: big.NewInt(32)}}
	}
	return n
}

// debugInfo adds a verifier-clean debug-info graph to the module: compile unit, files, types of every
// kind, scopes, subprograms attached to function definitions with locations on their instructions,
// variables, labels, global variable expressions, imported entities, macros.
func (g *G) debugInfo() {
	m := g.M
	d := &di{g: g, next: len(m.MDs)}
	if len(m.MDs) > 0 {
		d.next = 0
		for _, n := range m.MDs {
			if n.ID >= d.next {
				d.next = n.ID + 1
			}
		}
	}
	for k := g.rng("nfiles", 1, 2); k > 0; k-- {
		f := d.node("DIFile", false)
		d.fill(f, nil)
		if g.chance("checksum", 1, 3) {
			f.Names = append(f.Names, "checksumkind", "checksum")
			f.Fields = append(f.Fields, &am.MDField{K: am.MDEnum, Str: "CSK_MD5"}, &am.MDField{K: am.MDString, Str: "0123456789abcdef0123456789abcdef"})
		}
		d.files = append(d.files, f)
		d.scopes = append(d.scopes, f)
	}
	// compile unit
	cu := d.node("DICompileUnit", true)
	d.cu = cu
	cuNames := []string{"language", "file"}
	cuFields := []*am.MDField{{K: am.MDEnum, Str: splitBar(dwLangs)[g.intn("lang", 6)]}, ref(d.files[0])}
	addCU := func(name string, f *am.MDField) { cuNames = append(cuNames, name); cuFields = append(cuFields, f) }
	if g.chance("producer", 1, 2) {
		addCU("producer", &am.MDField{K: am.MDString, Str: "verif 1.0"})
	}
	if g.chance("isopt", 1, 2) {
		addCU("isOptimized", &am.MDField{K: am.MDBool, Bool: g.chance("isoptv", 1, 2)})
	}
	if g.chance("cuflags", 1, 3) {
		addCU("flags", &am.MDField{K: am.MDString, Str: "-O2 -g"})
	}
	if g.chance("rv", 1, 3) {
		addCU("runtimeVersion", &am.MDField{K: am.MDInt, Int: big.NewInt(int64(g.rng("rvv", 0, 3)))})
	}
	if g.chance("ek", 2, 3) {
		addCU("emissionKind", &am.MDField{K: am.MDEnum, Str: splitBar(emission)[g.intn("ekv", 4)]})
	}
	d.scopes = append(d.scopes, cu)
	// types
	for k := g.rng("nbasic", 1, 3); k > 0; k-- {
		t := d.node("DIBasicType", false)
		d.fill(t, nil)
		d.types = append(d.types, t)
	}
	if g.chance("stringtype", 1, 4) {
		t := d.node("DIStringType", false)
		d.fill(t, map[string]*am.MDField{"stringLength": nil})
		d.types = append(d.types, t)
	}
	for k := g.rng("nderived", 0, 3); k > 0; k-- {
		t := d.node("DIDerivedType", false)
		tag := g.pick("dttag", []string{"DW_TAG_pointer_type", "DW_TAG_typedef", "DW_TAG_const_type", "DW_TAG_reference_type", "DW_TAG_volatile_type"})
		ov := map[string]*am.MDField{"tag": {K: am.MDEnum, Str: tag}}
		if tag != "DW_TAG_pointer_type" && tag != "DW_TAG_reference_type" {
			ov["dwarfAddressSpace"] = nil
		} else if g.chance("das", 1, 2) {
			v := int64(g.rng("dasv", 0, 3))
			if v == 0 && g.off("di-dwarfAddressSpace-zero") {
				v = 1 // an explicit `dwarfAddressSpace: 0` is dropped by the library (known finding)
			}
			ov["dwarfAddressSpace"] = &am.MDField{K: am.MDInt, Int: big.NewInt(v)}
		} else {
			ov["dwarfAddressSpace"] = nil
		}
		d.fill(t, ov)
		d.types = append(d.types, t)
	}
	for k := g.rng("ncomposite", 0, 2); k > 0; k-- {
		t := d.node("DICompositeType", g.chance("distinctct", 1, 3))
		tag := g.pick("cttag", []string{"DW_TAG_structure_type", "DW_TAG_enumeration_type", "DW_TAG_array_type", "DW_TAG_union_type", "DW_TAG_class_type"})
		var elems []*am.MDField
		for j := g.rng("nelems", 0, 3); j > 0; j-- {
			switch tag {
			case "DW_TAG_enumeration_type":
				e := d.node("DIEnumerator", false)
				d.fill(e, map[string]*am.MDField{"value": {K: am.MDInt, Int: big.NewInt(int64(g.rng("enumv", 0, 100)))}})
				elems = append(elems, ref(e))
			case "DW_TAG_array_type":
				e := d.node("DISubrange", false)
				d.fill(e, map[string]*am.MDField{"count": {K: am.MDInt, Int: big.NewInt(int64(g.rng("cnt", 1, 9)))}, "upperBound": nil})
				elems = append(elems, ref(e))
			default:
				e := d.node("DIDerivedType", false)
				// members of a type with an ODR identifier are uniqued by (scope, name) in LLVM: keep names distinct
				d.fill(e, map[string]*am.MDField{"tag": {K: am.MDEnum, Str: "DW_TAG_member"}, "scope": ref(t), "dwarfAddressSpace": nil, "name": {K: am.MDString, Str: "m" + itoa(d.next)}})
				elems = append(elems, ref(e))
			}
		}
		ov := map[string]*am.MDField{"tag": {K: am.MDEnum, Str: tag}, "elements": ref(d.tuple(elems))}
		if tag == "DW_TAG_array_type" {
			ov["baseType"] = ref(d.types[0])
		}
		if tag == "DW_TAG_enumeration_type" && g.chance("enumbase", 1, 2) {
			ov["baseType"] = ref(d.types[0])
		}
		if t.Distinct && g.chance("noident", 1, 2) {
			ov["identifier"] = nil
		}
		d.fill(t, ov)
		d.types = append(d.types, t)
		d.scopes = append(d.scopes, t)
	}
	st := d.node("DISubroutineType", false)
	d.fill(st, nil)
	// namespaces, modules
	if g.chance("namespace", 1, 3) {
		ns := d.node("DINamespace", false)
		d.fill(ns, nil)
		d.scopes = append(d.scopes, ns)
	}
	if g.chance("dimodule", 1, 4) {
		mo := d.node("DIModule", false)
		d.fill(mo, nil)
		d.scopes = append(d.scopes, mo)
	}
	// subprograms on function definitions
	var retained []*am.MDField
	for _, f := range m.Funcs {
		if f.Blocks == nil || !g.twins[f] && !g.chance("hassp", 2, 3) {
			continue
		}
		sp := d.node("DISubprogram", true)
		sp.Names = []string{"name", "scope", "file", "line", "type", "scopeLine", "spFlags", "unit"}
		flags := "DISPFlagDefinition"
		if g.chance("spextra", 1, 2) {
			flags += " | " + dispFlag[g.intn("spx", len(dispFlag))]
		}
		sp.Fields = []*am.MDField{{K: am.MDString, Str: "fn"}, ref(d.files[0]), ref(d.files[0]), {K: am.MDInt, Int: big.NewInt(int64(g.rng("spline", 1, 99)))}, ref(st), {K: am.MDInt, Int: big.NewInt(1)}, {K: am.MDEnum, Str: flags}, ref(cu)}
		if !g.off("di-oldstyle-spflags") && g.chance("spoldstyle", 1, 4) {
			// the spelling from before spFlags existed (still read by LLVM 14, and kept field by field by the library)
			for i, n := range sp.Names {
				if n == "spFlags" {
					sp.Names = append(sp.Names[:i:i], sp.Names[i+1:]...)
					sp.Fields = append(sp.Fields[:i:i], sp.Fields[i+1:]...)
					break
				}
			}
			sp.Names = append(sp.Names, "isLocal", "isDefinition", "isOptimized")
			sp.Fields = append(sp.Fields, &am.MDField{K: am.MDBool, Bool: g.chance("spislocal", 1, 2)}, &am.MDField{K: am.MDBool, Bool: true}, &am.MDField{K: am.MDBool, Bool: g.chance("spisopt", 1, 2)})
			if g.chance("spvirt", 1, 2) {
				sp.Names = append(sp.Names, "virtuality", "virtualIndex")
				sp.Fields = append(sp.Fields, &am.MDField{K: am.MDEnum, Str: g.pick("spvirtk", []string{"DW_VIRTUALITY_virtual", "DW_VIRTUALITY_pure_virtual"})}, &am.MDField{K: am.MDInt, Int: big.NewInt(int64(g.rng("spvidx", 0, 5)))})
			}
			g.feat("di/subprogram-old-style-flags")
		}
		if g.chance("spflags", 1, 2) {
			sp.Names = append(sp.Names, "flags")
			sp.Fields = append(sp.Fields, &am.MDField{K: am.MDEnum, Str: g.pick("spf", []string{"DIFlagPrototyped", "DIFlagArtificial | DIFlagPrototyped", "DIFlagNoReturn"})})
		}
		if g.chance("splinkage", 1, 3) {
			sp.Names = append(sp.Names, "linkageName")
			sp.Fields = append(sp.Fields, &am.MDField{K: am.MDString, Str: "_Z2fnv"})
		}
		d.locals = append(d.locals, sp)
		scope := sp
		if g.chance("lexblock", 1, 2) {
			lb := d.node("DILexicalBlock", true)
			d.fill(lb, map[string]*am.MDField{"scope": ref(sp), "line": {K: am.MDInt, Int: big.NewInt(int64(g.rng("lbline", 1, 50)))}})
			d.locals = append(d.locals, lb)
			scope = lb
			if g.chance("lexblockfile", 1, 3) {
				lbf := d.node("DILexicalBlockFile", false)
				d.fill(lbf, map[string]*am.MDField{"scope": ref(lb), "file": ref(d.files[len(d.files)-1])})
				scope = lbf
			}
		}
		var rn []*am.MDField
		if g.twins[f] || g.chance("localvar", 1, 2) {
			lv := d.node("DILocalVariable", false)
			d.fill(lv, map[string]*am.MDField{"scope": ref(sp), "arg": nil})
			d.lvars = append(d.lvars, lv)
			rn = append(rn, ref(lv))
		}
		if g.chance("dilabel", 1, 3) {
			lb := d.node("DILabel", false)
			d.fill(lb, map[string]*am.MDField{"scope": ref(sp)})
			rn = append(rn, ref(lb))
		}
		if len(rn) > 0 {
			sp.Names = append(sp.Names, "retainedNodes")
			sp.Fields = append(sp.Fields, ref(d.tuple(rn)))
		}
		f.MD = append(f.MD, &am.Attachment{Kind: "dbg", Node: ref(sp)})
		// llvm.dbg.value / llvm.dbg.declare calls: metadata operands wrapping local values, variables and expressions
		if len(rn) > 0 && rn[0].Node.Kind == "DILocalVariable" && !g.off("dbg-intrinsics") {
			d.dbgIntrinsics(f, rn[0].Node)
		}
		// every instruction of the function gets a location (calls must have one)
		for _, b := range f.Blocks {
			for _, in := range append(append([]*am.Inst{}, b.Insts...), b.Term) {
				if in.Op == "freeze" && g.cfg.Off["freeze-metadata"] {
					continue
				}
				if in.Op != "call" && in.Op != "invoke" && in.Op != "callbr" && !g.chance("hasloc", 2, 3) {
					continue
				}
				loc := &am.MDNode{ID: -1, Kind: "DILocation"}
				loc.Names = []string{"line", "column", "scope"}
				loc.Fields = []*am.MDField{{K: am.MDInt, Int: big.NewInt(int64(g.rng("line", 0, 200)))}, {K: am.MDInt, Int: big.NewInt(int64(g.rng("col", 0, 80)))}, ref(scope)}
				if g.chance("implicit", 1, 6) {
					loc.Names = append(loc.Names, "isImplicitCode")
					loc.Fields = append(loc.Fields, &am.MDField{K: am.MDBool, Bool: true})
				}
				if g.chance("numberedloc", 1, 3) {
					loc.ID = d.next
					d.next++
					d.nodes = append(d.nodes, loc)
					in.MD = append(in.MD, &am.Attachment{Kind: "dbg", Node: ref(loc)})
				} else {
					in.MD = append(in.MD, &am.Attachment{Kind: "dbg", Node: &am.MDField{K: am.MDInline, Node: loc}})
				}
			}
		}
		_ = retained
	}
	// global variables with debug info
	var cuGlobals []*am.MDField
	for _, gl := range m.Globals {
		if gl.Init == nil || !g.chance("gdbg", 1, 3) {
			continue
		}
		gv := d.node("DIGlobalVariable", true)
		gvov := map[string]*am.MDField{"type": ref(d.types[0])}
		if g.cfg.Off["di-default-true-bools"] {
			if g.chance("gvisdef", 1, 2) {
				gvov["isDefinition"] = &am.MDField{K: am.MDBool, Bool: true}
			} else {
				gvov["isDefinition"] = nil
				g.off("di-default-true-bools")
			}
		}
		d.fill(gv, gvov)
		d.gvars = append(d.gvars, gv)
		gve := d.node("DIGlobalVariableExpression", false)
		ex := d.expr()
		for len(ex.Fields) > 0 && ex.Fields[0].Str == "DW_OP_LLVM_fragment" {
			ex = d.expr()
		}
		d.fill(gve, map[string]*am.MDField{"var": ref(gv), "expr": d.exprField(ex)})
		gl.MD = append(gl.MD, &am.Attachment{Kind: "dbg", Node: ref(gve)})
		cuGlobals = append(cuGlobals, ref(gve))
	}
	if len(cuGlobals) > 0 {
		addCU("globals", ref(d.tuple(cuGlobals)))
	}
	// retained types, imports, macros, enums
	if g.chance("retainedTypes", 1, 2) && len(d.types) > 0 {
		addCU("retainedTypes", ref(d.tuple([]*am.MDField{ref(d.types[g.intn("rt", len(d.types))])})))
	}
	if g.chance("imports", 1, 3) {
		ie := d.node("DIImportedEntity", false)
		d.fill(ie, map[string]*am.MDField{"scope": ref(cu), "entity": nil})
		addCU("imports", ref(d.tuple([]*am.MDField{ref(ie)})))
	}
	if g.chance("macros", 1, 3) {
		ma := d.node("DIMacro", false)
		d.fill(ma, nil)
		mf := d.node("DIMacroFile", false)
		mf.Names = []string{"file", "nodes"}
		mf.Fields = []*am.MDField{ref(d.files[0]), ref(d.tuple([]*am.MDField{ref(ma)}))}
		if g.chance("mfline", 1, 2) {
			mf.Names = append([]string{"line"}, mf.Names...)
			mf.Fields = append([]*am.MDField{{K: am.MDInt, Int: big.NewInt(3)}}, mf.Fields...)
		}
		addCU("macros", ref(d.tuple([]*am.MDField{ref(mf)})))
	}
	if g.chance("sdi", 1, 2) {
		v := g.chance("sdiv", 1, 2)
		if !v && g.off("di-default-true-bools") {
			v = true // `splitDebugInlining: false` is lost by the library (known finding)
		}
		addCU("splitDebugInlining", &am.MDField{K: am.MDBool, Bool: v})
	}
	if g.chance("dip", 1, 3) {
		addCU("debugInfoForProfiling", &am.MDField{K: am.MDBool, Bool: true})
	}
	if g.chance("ntk", 1, 3) {
		addCU("nameTableKind", &am.MDField{K: am.MDEnum, Str: splitBar(nameTab)[g.intn("ntkv", 3)]})
	}
	if g.chance("sysroot", 1, 4) {
		addCU("sysroot", &am.MDField{K: am.MDString, Str: "/"})
		addCU("sdk", &am.MDField{K: am.MDString, Str: "MacOSX.sdk"})
	}
	cu.Names, cu.Fields = cuNames, cuFields
	// misc unattached kinds kept alive by a named metadata node
	var misc []*am.MDField
	if g.chance("objc", 1, 4) {
		n := d.node("DIObjCProperty", false)
		d.fill(n, nil)
		misc = append(misc, ref(n))
	}
	if g.chance("generic", 1, 3) {
		n := d.node("GenericDINode", false)
		d.fill(n, nil)
		misc = append(misc, ref(n))
	}
	if g.chance("commonblock", 1, 4) && len(d.locals) > 0 {
		n := d.node("DICommonBlock", false)
		d.fill(n, map[string]*am.MDField{"scope": ref(d.locals[0]), "declaration": nil})
		misc = append(misc, ref(n))
	}
	if g.chance("tvp", 1, 4) {
		n := d.node("DITemplateValueParameter", false)
		d.fill(n, nil)
		misc = append(misc, ref(n))
	}
	// a named metadata node whose operands are debug-info nodes of any kind, referenced by number: among them a
	// numbered DIExpression (LLVM itself prints that operand inline, so only the library's own reading of its
	// output shows whether the reference survived)
	var diRefs *am.NamedMD
	if !g.off("di-named-refs") && g.chance("dinamedrefs", 1, 2) {
		diRefs = &am.NamedMD{Name: "verif.di.nodes"}
		if len(d.numExprs) == 0 && !g.off("di-numbered-expr") {
			e := d.exprNoFragment()
			e.ID = d.next
			d.next++
			d.nodes = append(d.nodes, e)
			d.numExprs = append(d.numExprs, e)
		}
		if len(d.numExprs) > 0 {
			diRefs.Nodes = append(diRefs.Nodes, ref(d.numExprs[g.intn("dinamedexpr", len(d.numExprs))]))
			g.feat("di/numbered-expression-in-named-metadata")
		}
		for k := g.rng("ndinamedrefs", 0, 3); k > 0; k-- {
			diRefs.Nodes = append(diRefs.Nodes, ref(d.nodes[g.intn("dinamedref", len(d.nodes))]))
		}
	}
	m.MDs = append(m.MDs, d.nodes...)
	if diRefs != nil {
		m.NamedMDs = append(m.NamedMDs, diRefs)
	}
	m.NamedMDs = append(m.NamedMDs, &am.NamedMD{Name: "llvm.dbg.cu", Nodes: []*am.MDField{ref(cu)}})
	flag := &am.MDNode{ID: d.next}
	d.next++
	flag.Fields = []*am.MDField{{K: am.MDValue, C: &am.Const{K: am.CInt, T: am.I32, Int: big.NewInt(2)}}, {K: am.MDString, Str: "Debug Info Version"}, {K: am.MDValue, C: &am.Const{K: am.CInt, T: am.I32, Int: big.NewInt(3)}}}
	m.MDs = append(m.MDs, flag)
	m.NamedMDs = append(m.NamedMDs, &am.NamedMD{Name: "llvm.module.flags", Nodes: []*am.MDField{ref(flag)}})
	if len(misc) > 0 {
		m.NamedMDs = append(m.NamedMDs, &am.NamedMD{Name: "verif.misc", Nodes: []*am.MDField{ref(d.tuple(misc))}})
		m.MDs = append(m.MDs, d.nodes[len(d.nodes)-1])
	}
	g.feat("top/debug-info")
	for _, n := range d.nodes {
		if n.Kind != "" {
			g.feat("di/" + n.Kind)
		}
		// any node kind may be written `distinct` (compilers do it for a few kinds only); DIExpression is
		// always uniqued by LLVM
		if n.Kind != "" && n.Kind != "DIExpression" && !n.Distinct && !g.off("di-any-distinct") && g.chance("anydistinct", 1, 10) {
			n.Distinct = true
			g.feat("di/distinct-on-unusual-kind")
		}
	}
}

// dbgIntrinsics inserts calls to llvm.dbg.value after some value-producing instructions of f.
func (d *di) dbgIntrinsics(f *am.Fun, lv *am.MDNode) {
	g := d.g
	var decl *am.Fun
	for _, x := range g.M.Funcs {
		if x.Name == "llvm.dbg.value" {
			decl = x
		}
	}
	if decl == nil {
		decl = &am.Fun{Name: "llvm.dbg.value", Ret: am.TVoid, Decl: true, Params: []*am.Param{{T: am.TMD}, {T: am.TMD}, {T: am.TMD}}}
		g.M.Funcs = append(g.M.Funcs, decl)
	}
	// a variadic location list over the first parameter: `metadata !DIArgList(T %p, T %p)`, the spelling
	// that is identical in every function whose first parameter is unnamed and has the same type
	var argList *am.Inst
	if len(f.Params) > 0 && len(f.Blocks) > 0 && !g.off("di-arglist") && (g.twins[f] || g.chance("diarglist", 1, 2)) {
		p0 := f.Params[0]
		if p0.T.K == am.Int || p0.T.K == am.Float || p0.T.K == am.Ptr {
			pv := func() *am.MDField { return &am.MDField{K: am.MDLocalValue, Local: &am.Value{K: am.VParam, P: p0}} }
			pl := pv
			if g.twins[f] {
				p1 := f.Params[1]
				pl = func() *am.MDField { return &am.MDField{K: am.MDLocalValue, Local: &am.Value{K: am.VParam, P: p1}} }
				g.feat("di/DIArgList-in-twin-functions")
			}
			al := &am.MDNode{ID: -1, Kind: "DIArgList", Fields: []*am.MDField{pv(), pl()}}
			ex := &am.MDNode{ID: -1, Kind: "DIExpression", Fields: []*am.MDField{
				{K: am.MDEnum, Str: "DW_OP_LLVM_arg"}, {K: am.MDInt, Int: big.NewInt(0)},
				{K: am.MDEnum, Str: "DW_OP_LLVM_arg"}, {K: am.MDInt, Int: big.NewInt(1)},
				{K: am.MDEnum, Str: "DW_OP_plus"}, {K: am.MDEnum, Str: "DW_OP_stack_value"}}}
			argList = &am.Inst{Op: "call", T: am.TVoid, FnT: decl.FuncType(),
				Callee: &am.Value{K: am.VConst, C: &am.Const{K: am.CGlobal, T: decl.PtrType(), Ref: decl}},
				Args: []*am.Value{
					{K: am.VMetadata, MD: &am.MDField{K: am.MDInline, Node: al}},
					{K: am.VMetadata, MD: ref(lv)},
					{K: am.VMetadata, MD: &am.MDField{K: am.MDInline, Node: ex}},
				}}
			argList.ArgAttrs = make([][]string, 3)
			g.feat("di/DIArgList")
		}
	}
	for bi, b := range f.Blocks {
		var out []*am.Inst
		if bi == 0 && argList != nil {
			out = append(out, argList)
		}
		for _, in := range b.Insts {
			out = append(out, in)
			if !in.HasValue() || in.Op == "phi" || in.Op == "landingpad" || in.T.K == am.Token || !g.chance("dbgvalue", 1, 4) {
				continue
			}
			// phis must stay grouped at the top: only insert after the last phi
			call := &am.Inst{Op: "call", T: am.TVoid, FnT: decl.FuncType(),
				Callee: &am.Value{K: am.VConst, C: &am.Const{K: am.CGlobal, T: decl.PtrType(), Ref: decl}},
				Args: []*am.Value{
					{K: am.VMetadata, MD: &am.MDField{K: am.MDLocalValue, Local: &am.Value{K: am.VInst, I: in}}},
					{K: am.VMetadata, MD: ref(lv)},
					{K: am.VMetadata, MD: d.exprField(d.exprNoFragment())},
				}}
			call.ArgAttrs = make([][]string, 3)
			out = append(out, call)
			g.feat("di/llvm.dbg.value")
		}
		// keep phis (and a landingpad) first
		var phis, rest []*am.Inst
		seenNonPhi := false
		for _, in := range out {
			if !seenNonPhi && (in.Op == "phi" || in.Op == "landingpad") {
				phis = append(phis, in)
				continue
			}
			if in.Op == "phi" || in.Op == "landingpad" {
				phis = append(phis, in)
				continue
			}
			seenNonPhi = true
			rest = append(rest, in)
		}
		b.Insts = append(phis, rest...)
	}
}

// exprField places a DIExpression: inline (the usual spelling) or, one time in four, as a numbered
// definition `!N = !DIExpression(...)` that is referenced (the older spelling, still accepted by LLVM);
// numbered expressions are reused so that several references share one definition.
func (d *di) exprField(n *am.MDNode) *am.MDField {
	g := d.g
	if g.off("di-numbered-expr") || !g.chance("numberedexpr", 1, 4) {
		return &am.MDField{K: am.MDInline, Node: n}
	}
	if len(d.numExprs) > 0 && g.chance("reuseexpr", 1, 3) {
		for _, e := range d.numExprs {
			if len(e.Fields) == 0 || e.Fields[0].Str != "DW_OP_LLVM_fragment" {
				g.feat("di/numbered-expression-shared")
				return ref(e)
			}
		}
	}
	n.ID = d.next
	d.next++
	d.nodes = append(d.nodes, n)
	d.numExprs = append(d.numExprs, n)
	g.feat("di/numbered-expression")
	return ref(n)
}

func (d *di) exprNoFragment() *am.MDNode {
	for {
		e := d.expr()
		if len(e.Fields) == 0 || e.Fields[0].Str != "DW_OP_LLVM_fragment" {
			return e
		}
	}
}
