// Package lx wraps calls into llir/llvm so that panics become values.
package lx

import (
	"fmt"
	"runtime/debug"

	"github.com/llir/llvm/asm"
	"github.com/llir/llvm/ir"
)

// Panic describes a recovered panic.
type Panic struct {
	Val   any
	Stack string
}

func (p *Panic) String() string {
	if p == nil {
		return ""
	}
	return fmt.Sprintf("panic: %v\n%s", p.Val, p.Stack)
}

func guard(f func()) (p *Panic) {
	defer func() {
		if r := recover(); r != nil {
			st := string(debug.Stack())
			if len(st) > 2500 {
				st = st[:2500]
			}
			p = &Panic{Val: r, Stack: st}
		}
	}()
	f()
	return nil
}

// Guard runs f, returning a recovered panic.
func Guard(f func()) *Panic { return guard(f) }

// Parse parses text with asm.ParseString.
func Parse(text string) (m *ir.Module, err error, p *Panic) {
	p = guard(func() { m, err = asm.ParseString("<verif>", text) })
	return
}

// Print prints m with String().
func Print(m *ir.Module) (s string, p *Panic) {
	p = guard(func() { s = m.String() })
	return
}

// ParsePrint parses and prints.
func ParsePrint(text string) (out string, m *ir.Module, err error, p *Panic) {
	m, err, p = Parse(text)
	if err != nil || p != nil {
		return
	}
	out, p = Print(m)
	return
}
