package walk

import (
	"fmt"
	"math/big"
	"reflect"
	"strings"
)

type pairKey struct {
	a, b uintptr
	t    reflect.Type
}

type bisim struct {
	seen map[pairKey]bool
	ab   map[uintptr]uintptr // identity-bearing objects: a -> b
	ba   map[uintptr]uintptr
	diff string
}

var (
	bigIntT   = reflect.TypeOf(big.Int{})
	bigFloatT = reflect.TypeOf(big.Float{})
)

// identityBearing reports whether objects of pointer type t denote entities whose
// identity matters (functions, globals, blocks, instructions, parameters, comdats,
// attribute groups ...): everything declared in package ir itself. Constants, types
// and metadata are value-like unless named / numbered (handled separately).
func identityBearing(v reflect.Value) bool {
	t := v.Type()
	if t.Kind() != reflect.Ptr || t.Elem().Kind() != reflect.Struct {
		return false
	}
	pkg := t.Elem().PkgPath()
	switch {
	case strings.HasSuffix(pkg, "llir/llvm/ir"):
		return true
	case strings.HasSuffix(pkg, "llir/llvm/ir/types"):
		f := v.Elem().FieldByName("TypeName")
		return f.IsValid() && f.Len() > 0
	case strings.HasSuffix(pkg, "llir/llvm/ir/metadata"):
		f := v.Elem().FieldByName("MetadataID")
		if f.IsValid() && f.Int() != -1 {
			return true
		}
		d := v.Elem().FieldByName("Distinct")
		return d.IsValid() && d.Bool()
	}
	return false
}

// Bisimilar compares two object graphs (typically two *ir.Module) structurally:
// same dynamic types and scalar values everywhere, and a one-to-one pairing of
// identity-bearing objects (so sharing and cycles must agree). Lazily computed
// caches (fields named Typ that are nil on one side) are ignored. It returns a
// description of the first difference ("" if none).
func Bisimilar(a, b any) string {
	bs := &bisim{seen: map[pairKey]bool{}, ab: map[uintptr]uintptr{}, ba: map[uintptr]uintptr{}}
	bs.cmp(reflect.ValueOf(a), reflect.ValueOf(b), "")
	return bs.diff
}

func (bs *bisim) fail(path, format string, args ...any) bool {
	if bs.diff == "" {
		bs.diff = path + ": " + fmt.Sprintf(format, args...)
	}
	return false
}

func (bs *bisim) cmp(a, b reflect.Value, path string) bool {
	if bs.diff != "" {
		return false
	}
	if !a.IsValid() || !b.IsValid() {
		if a.IsValid() != b.IsValid() {
			return bs.fail(path, "one side is missing")
		}
		return true
	}
	if a.Type() != b.Type() {
		return bs.fail(path, "dynamic types differ: %v vs %v", a.Type(), b.Type())
	}
	switch a.Kind() {
	case reflect.Ptr:
		if a.IsNil() || b.IsNil() {
			if a.IsNil() != b.IsNil() {
				return bs.fail(path, "nil versus non-nil %v", a.Type())
			}
			return true
		}
		pa, pb := a.Pointer(), b.Pointer()
		if identityBearing(a) || identityBearing(b) {
			if prev, ok := bs.ab[pa]; ok && prev != pb {
				return bs.fail(path, "object %v is paired with two different objects (sharing differs)", a.Type())
			}
			if prev, ok := bs.ba[pb]; ok && prev != pa {
				return bs.fail(path, "two different objects %v are paired with the same object (sharing differs)", a.Type())
			}
			bs.ab[pa] = pb
			bs.ba[pb] = pa
		}
		k := pairKey{pa, pb, a.Type()}
		if bs.seen[k] {
			return true
		}
		bs.seen[k] = true
		return bs.cmp(a.Elem(), b.Elem(), path)
	case reflect.Interface:
		if a.IsNil() || b.IsNil() {
			if a.IsNil() != b.IsNil() {
				return bs.fail(path, "nil versus non-nil interface")
			}
			return true
		}
		return bs.cmp(a.Elem(), b.Elem(), path)
	case reflect.Struct:
		t := a.Type()
		switch t {
		case bigIntT:
			x, y := a.Addr().Interface().(*big.Int), b.Addr().Interface().(*big.Int)
			if x.Cmp(y) != 0 {
				return bs.fail(path, "integers differ: %v vs %v", x, y)
			}
			return true
		case bigFloatT:
			x, y := a.Addr().Interface().(*big.Float), b.Addr().Interface().(*big.Float)
			if x.Cmp(y) != 0 || x.Signbit() != y.Signbit() {
				return bs.fail(path, "floats differ: %v vs %v", x, y)
			}
			return true
		}
		for i := 0; i < t.NumField(); i++ {
			f := t.Field(i)
			if f.PkgPath != "" {
				continue
			}
			fa, fb := a.Field(i), b.Field(i)
			if f.Name == "Typ" && (fa.Kind() == reflect.Ptr || fa.Kind() == reflect.Interface) && (fa.IsNil() || fb.IsNil()) {
				continue // lazily computed cache
			}
			if !bs.cmp(fa, fb, path+"."+f.Name) {
				return false
			}
		}
		return true
	case reflect.Slice:
		if a.Len() != b.Len() {
			return bs.fail(path, "lengths differ: %d vs %d", a.Len(), b.Len())
		}
		for i := 0; i < a.Len(); i++ {
			if !bs.cmp(a.Index(i), b.Index(i), fmt.Sprintf("%s[%d]", path, i)) {
				return false
			}
		}
		return true
	case reflect.Array:
		for i := 0; i < a.Len(); i++ {
			if !bs.cmp(a.Index(i), b.Index(i), fmt.Sprintf("%s[%d]", path, i)) {
				return false
			}
		}
		return true
	case reflect.Map:
		if a.Len() != b.Len() {
			return bs.fail(path, "map sizes differ: %d vs %d", a.Len(), b.Len())
		}
		it := a.MapRange()
		for it.Next() {
			vb := b.MapIndex(it.Key())
			if !vb.IsValid() {
				return bs.fail(path, "key %v missing on one side", it.Key())
			}
			if !bs.cmp(it.Value(), vb, fmt.Sprintf("%s[%v]", path, it.Key())) {
				return false
			}
		}
		return true
	case reflect.String:
		if a.String() != b.String() {
			return bs.fail(path, "%q vs %q", a.String(), b.String())
		}
	case reflect.Bool:
		if a.Bool() != b.Bool() {
			return bs.fail(path, "%v vs %v", a.Bool(), b.Bool())
		}
	case reflect.Int, reflect.Int8, reflect.Int16, reflect.Int32, reflect.Int64:
		if a.Int() != b.Int() {
			return bs.fail(path, "%d vs %d", a.Int(), b.Int())
		}
	case reflect.Uint, reflect.Uint8, reflect.Uint16, reflect.Uint32, reflect.Uint64, reflect.Uintptr:
		if a.Uint() != b.Uint() {
			return bs.fail(path, "%d vs %d", a.Uint(), b.Uint())
		}
	case reflect.Float32, reflect.Float64:
		if a.Float() != b.Float() {
			return bs.fail(path, "%v vs %v", a.Float(), b.Float())
		}
	case reflect.Func, reflect.Chan, reflect.UnsafePointer:
		// not part of the IR
	}
	return bs.diff == ""
}
