package walk

import (
	"fmt"
	"math/big"
	"reflect"
	"strings"
)

// Transplant makes the object graph a equal to the object graph b by assigning leaves only: where the two
// graphs have the same shape (same dynamic types, same list lengths, same nil-ness, a consistent one-to-one
// pairing of identity-bearing objects) and differ in a scalar — a bool, an integer or enum value, a string, a
// byte of a byte slice, the value of a big.Int or big.Float — the scalar of a is overwritten with that of b
// through the exported field, in place (`x.X.Set(y.X)`, `c.X[i] = b`). Nothing of b becomes reachable from a.
// Objects of package types are never written (predefined types are shared by everything in the process): a
// difference there, any difference of shape, and a scalar that cannot be assigned (a value inside an
// interface) make the pair untransplantable; why says so and a may have been partly edited. patched counts
// the assignments.
func Transplant(a, b any) (patched int, why string) {
	tp := &transplant{bisim: bisim{seen: map[pairKey]bool{}, ab: map[uintptr]uintptr{}, ba: map[uintptr]uintptr{}}}
	tp.walk(reflect.ValueOf(a), reflect.ValueOf(b), "", false)
	return tp.n, tp.diff
}

type transplant struct {
	bisim
	n int
}

func (tp *transplant) walk(a, b reflect.Value, path string, inTypes bool) bool {
	if tp.diff != "" {
		return false
	}
	if !a.IsValid() || !b.IsValid() {
		if a.IsValid() != b.IsValid() {
			return tp.fail(path, "shape: one side is missing")
		}
		return true
	}
	if a.Type() != b.Type() {
		return tp.fail(path, "shape: dynamic types differ: %v vs %v", a.Type(), b.Type())
	}
	leaf := func(differ bool, assign func()) bool {
		if !differ {
			return true
		}
		if inTypes {
			return tp.fail(path, "types: a scalar of a type object differs")
		}
		if !a.CanSet() {
			return tp.fail(path, "unassignable: the scalar is not reachable through an exported field")
		}
		assign()
		tp.n++
		return true
	}
	switch a.Kind() {
	case reflect.Ptr:
		if a.IsNil() || b.IsNil() {
			if a.IsNil() != b.IsNil() {
				return tp.fail(path, "shape: nil versus non-nil %v", a.Type())
			}
			return true
		}
		pa, pb := a.Pointer(), b.Pointer()
		if identityBearing(a) || identityBearing(b) {
			if prev, ok := tp.ab[pa]; ok && prev != pb {
				return tp.fail(path, "shape: sharing differs")
			}
			if prev, ok := tp.ba[pb]; ok && prev != pa {
				return tp.fail(path, "shape: sharing differs")
			}
			tp.ab[pa], tp.ba[pb] = pb, pa
		}
		k := pairKey{pa, pb, a.Type()}
		if tp.seen[k] {
			return true
		}
		tp.seen[k] = true
		if a.Type().Elem().Kind() == reflect.Struct && strings.HasSuffix(a.Type().Elem().PkgPath(), "llir/llvm/ir/types") {
			inTypes = true
		}
		return tp.walk(a.Elem(), b.Elem(), path, inTypes)
	case reflect.Interface:
		if a.IsNil() || b.IsNil() {
			if a.IsNil() != b.IsNil() {
				return tp.fail(path, "shape: nil versus non-nil interface")
			}
			return true
		}
		return tp.walk(a.Elem(), b.Elem(), path, inTypes)
	case reflect.Struct:
		t := a.Type()
		switch t {
		case bigIntT:
			x, y := a.Addr().Interface().(*big.Int), b.Addr().Interface().(*big.Int)
			if x.Cmp(y) != 0 {
				x.Set(y)
				tp.n++
			}
			return true
		case bigFloatT:
			x, y := a.Addr().Interface().(*big.Float), b.Addr().Interface().(*big.Float)
			if x.Cmp(y) != 0 || x.Signbit() != y.Signbit() || x.Prec() != y.Prec() {
				x.SetPrec(y.Prec()).Set(y)
				tp.n++
			}
			return true
		}
		for i := 0; i < t.NumField(); i++ {
			f := t.Field(i)
			if f.PkgPath != "" {
				continue
			}
			if !tp.walk(a.Field(i), b.Field(i), path+"."+f.Name, inTypes) {
				return false
			}
		}
		return true
	case reflect.Slice, reflect.Array:
		if a.Kind() == reflect.Slice && (a.Len() != b.Len() || a.IsNil() != b.IsNil()) {
			return tp.fail(path, "shape: lengths differ: %d vs %d", a.Len(), b.Len())
		}
		for i := 0; i < a.Len(); i++ {
			if !tp.walk(a.Index(i), b.Index(i), fmt.Sprintf("%s[%d]", path, i), inTypes) {
				return false
			}
		}
		return true
	case reflect.Map:
		if a.Len() != b.Len() {
			return tp.fail(path, "shape: map sizes differ")
		}
		it := a.MapRange()
		for it.Next() {
			vb := b.MapIndex(it.Key())
			if !vb.IsValid() {
				return tp.fail(path, "shape: key %v missing on one side", it.Key())
			}
			if !tp.walk(it.Value(), vb, fmt.Sprintf("%s[%v]", path, it.Key()), inTypes) {
				return false
			}
		}
		return true
	case reflect.String:
		return leaf(a.String() != b.String(), func() { a.SetString(b.String()) })
	case reflect.Bool:
		return leaf(a.Bool() != b.Bool(), func() { a.SetBool(b.Bool()) })
	case reflect.Int, reflect.Int8, reflect.Int16, reflect.Int32, reflect.Int64:
		return leaf(a.Int() != b.Int(), func() { a.SetInt(b.Int()) })
	case reflect.Uint, reflect.Uint8, reflect.Uint16, reflect.Uint32, reflect.Uint64, reflect.Uintptr:
		return leaf(a.Uint() != b.Uint(), func() { a.SetUint(b.Uint()) })
	case reflect.Float32, reflect.Float64:
		return leaf(a.Float() != b.Float(), func() { a.SetFloat(b.Float()) })
	}
	return tp.diff == ""
}
