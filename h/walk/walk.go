// Package walk is a reflection-based object-graph walker for *ir.Module and
// everything reachable from it (exported fields only), with cycle detection.
package walk

import (
	"fmt"
	"reflect"
)

// Visitor is called for every value reached; path describes how it was reached.
// Returning false prunes the walk below v.
type Visitor func(v reflect.Value, path string) bool

type walker struct {
	seen  map[uintptr]map[reflect.Type]bool
	visit Visitor
	depth int
}

// Walk visits everything reachable from root through exported fields, slices,
// arrays, maps, pointers and interfaces. Each pointer target is visited once.
func Walk(root any, visit Visitor) {
	w := &walker{seen: map[uintptr]map[reflect.Type]bool{}, visit: visit}
	w.walk(reflect.ValueOf(root), "")
}

func (w *walker) mark(p uintptr, t reflect.Type) bool {
	m := w.seen[p]
	if m == nil {
		m = map[reflect.Type]bool{}
		w.seen[p] = m
	}
	if m[t] {
		return false
	}
	m[t] = true
	return true
}

func (w *walker) walk(v reflect.Value, path string) {
	if !v.IsValid() {
		return
	}
	switch v.Kind() {
	case reflect.Ptr:
		if v.IsNil() {
			return
		}
		if !w.mark(v.Pointer(), v.Type()) {
			return
		}
		if !w.visit(v, path) {
			return
		}
		w.walk(v.Elem(), path)
	case reflect.Interface:
		if v.IsNil() {
			return
		}
		w.walk(v.Elem(), path)
	case reflect.Struct:
		if v.Kind() == reflect.Struct && v.Type().PkgPath() == "math/big" {
			w.visit(v, path)
			return
		}
		if !w.visit(v, path) {
			return
		}
		t := v.Type()
		for i := 0; i < t.NumField(); i++ {
			f := t.Field(i)
			if f.PkgPath != "" { // unexported
				continue
			}
			w.walk(v.Field(i), path+"."+f.Name)
		}
	case reflect.Slice:
		if v.IsNil() {
			return
		}
		if !w.visit(v, path) {
			return
		}
		if v.Type().Elem() == reflect.TypeOf(byte(0)) {
			return
		}
		for i := 0; i < v.Len(); i++ {
			w.walk(v.Index(i), fmt.Sprintf("%s[%d]", path, i))
		}
	case reflect.Array:
		if !w.visit(v, path) {
			return
		}
		for i := 0; i < v.Len(); i++ {
			w.walk(v.Index(i), fmt.Sprintf("%s[%d]", path, i))
		}
	case reflect.Map:
		if v.IsNil() {
			return
		}
		if !w.visit(v, path) {
			return
		}
		iter := v.MapRange()
		for iter.Next() {
			w.walk(iter.Value(), fmt.Sprintf("%s[%v]", path, iter.Key()))
		}
	default:
		w.visit(v, path)
	}
}

// CollectOfType returns every value of exactly type t reachable from root, with its path.
func CollectOfType(root any, t reflect.Type) (vals []reflect.Value, paths []string) {
	Walk(root, func(v reflect.Value, path string) bool {
		if v.Type() == t {
			vals = append(vals, v)
			paths = append(paths, path)
		}
		return true
	})
	return
}
